/-
C16 — soft threshold = statement; the histogram (hence otsu / rc) is invariant under permuting
the pixels; the local extrema used by the Bernsen rule are the neighbourhood maximum / minimum.
-/
import Mahotas.Model.C16
import Mathlib.Data.List.Perm.Basic
import Mathlib.Tactic.Linarith
import Mathlib.Algebra.Order.Field.Rat
namespace Mahotas.C16
open Mahotas

/-! ## soft threshold -/

theorem softGen_int (f t : Int) (ht : 0 ≤ t) : softGen (0 : Int) f t = softSpec (0 : Int) f t := by
  unfold softGen softSpec
  simp only
  split_ifs <;> omega

theorem softGen_rat (f t : Rat) (ht : 0 ≤ t) : softGen (0 : Rat) f t = softSpec (0 : Rat) f t := by
  unfold softGen softSpec
  simp only
  split_ifs <;> linarith

/-- the statement in closed form over the integers: `sign f · max (|f| − t) 0` -/
theorem softSpec_int_closed (f t : Int) (ht : 0 ≤ t) : softSpec (0 : Int) f t = Int.sign f * max (|f| - t) 0 := by
  unfold softSpec
  simp only
  rcases lt_trichotomy f 0 with h | h | h
  · have ha : |f| = -f := abs_of_neg h
    rw [ha, Int.sign_eq_neg_one_of_neg h]
    split_ifs with h1 h2 <;> first | omega | (rw [max_def]; split_ifs <;> omega)
  · subst h; simp; omega
  · have ha : |f| = f := abs_of_pos h
    rw [ha, Int.sign_eq_one_of_pos h]
    split_ifs with h1 h2 <;> first | omega | (rw [max_def]; split_ifs <;> omega)

/-! ## histogram -/

theorem modify_comm (h : Array Nat) (v w : Nat) :
    (h.modify v (· + 1)).modify w (· + 1) = (h.modify w (· + 1)).modify v (· + 1) := by
  apply Array.ext
  · simp
  · intro i h1 h2
    simp only [Array.getElem_modify]
    by_cases hv : v = i <;> by_cases hw : w = i <;> simp [hv, hw]

instance : RightCommutative (fun (h : Array Nat) (v : Nat) => h.modify v (· + 1)) :=
  ⟨fun h v w => modify_comm h v w⟩

instance : RightCommutative (max : Nat → Nat → Nat) :=
  ⟨fun a b c => by simp only [Nat.max_assoc, Nat.max_comm b c]⟩

theorem fullhistogram_perm {l₁ l₂ : List Nat} (p : l₁.Perm l₂) : fullhistogram l₁ = fullhistogram l₂ := by
  unfold fullhistogram
  rw [p.foldl_eq (f := max) 0]
  exact p.foldl_eq _

theorem histOf_perm {l₁ l₂ : List Nat} (p : l₁.Perm l₂) (iz : Bool) : histOf l₁ iz = histOf l₂ iz := by
  unfold histOf; rw [fullhistogram_perm p]

/-- what a bin holds: the number of pixels with that value -/
theorem foldl_modify_getD (l : List Nat) (h : Array Nat) (i : Nat) (hi : i < h.size) :
    (l.foldl (fun h v => h.modify v (· + 1)) h).getD i 0 = h.getD i 0 + l.count i := by
  induction l generalizing h with
  | nil => simp
  | cons v vs ih =>
    simp only [List.foldl_cons]
    rw [ih _ (by simpa using hi)]
    have : (h.modify v (· + 1)).getD i 0 = h.getD i 0 + (if v = i then 1 else 0) := by
      have key : ∀ (a : Array Nat) (ha : i < a.size), a.getD i 0 = a[i] := fun a ha => by simp [Array.getD, ha]
      rw [key _ (by simpa using hi), key _ hi, Array.getElem_modify]
      split_ifs <;> simp
    rw [this, List.count_cons]
    by_cases hv : v = i
    · simp [hv]; omega
    · have : (v == i) = false := by simpa using hv
      simp [hv, this]

theorem le_foldl_max (l : List Nat) (a : Nat) : a ≤ l.foldl max a ∧ ∀ v ∈ l, v ≤ l.foldl max a := by
  induction l generalizing a with
  | nil => simp
  | cons x xs ih =>
    simp only [List.foldl_cons, List.mem_cons, forall_eq_or_imp]
    obtain ⟨h1, h2⟩ := ih (max a x)
    exact ⟨le_trans (le_max_left _ _) h1, le_trans (le_max_right _ _) h1, h2⟩

/-- `hist[i] == (img == i).sum()` for every level `i` (0 above the maximum) -/
theorem fullhistogram_count (img : List Nat) (i : Nat) : (fullhistogram img).getD i 0 = img.count i := by
  unfold fullhistogram
  by_cases hi : i < img.foldl max 0 + 1
  · rw [foldl_modify_getD _ _ _ (by simpa using hi)]
    simp [Array.getD, hi]
  · have hnot : i ∉ img := fun hm => hi (Nat.lt_succ_of_le ((le_foldl_max img 0).2 i hm))
    have hsize : ∀ (l : List Nat) (h : Array Nat), (l.foldl (fun h v => h.modify v (· + 1)) h).size = h.size := by
      intro l; induction l with
      | nil => intro h; rfl
      | cons v vs ih => intro h; simp only [List.foldl_cons]; rw [ih]; simp
    have hge : ¬ i < (img.foldl (fun h v => h.modify v (· + 1)) (Array.replicate (img.foldl max 0 + 1) 0)).size := by
      rw [hsize]; simpa using hi
    simp only [Array.getD, hge, dite_false]
    exact (List.count_eq_zero.mpr hnot).symm

/-! ## Bernsen: the local extrema -/

theorem foldl_max_int (l : List Int) (a : Int) :
    a ≤ l.foldl max a ∧ (∀ v ∈ l, v ≤ l.foldl max a) ∧ (l.foldl max a = a ∨ l.foldl max a ∈ l) := by
  induction l generalizing a with
  | nil => simp
  | cons x xs ih =>
    simp only [List.foldl_cons, List.mem_cons, forall_eq_or_imp]
    obtain ⟨h1, h2, h3⟩ := ih (max a x)
    refine ⟨le_trans (le_max_left _ _) h1, ⟨le_trans (le_max_right _ _) h1, h2⟩, ?_⟩
    rcases h3 with h3 | h3
    · rcases max_choice a x with hm | hm
      · left; rw [h3, hm]
      · right; left; rw [h3, hm]
    · right; right; exact h3

theorem foldl_min_int (l : List Int) (a : Int) :
    l.foldl min a ≤ a ∧ (∀ v ∈ l, l.foldl min a ≤ v) ∧ (l.foldl min a = a ∨ l.foldl min a ∈ l) := by
  induction l generalizing a with
  | nil => simp
  | cons x xs ih =>
    simp only [List.foldl_cons, List.mem_cons, forall_eq_or_imp]
    obtain ⟨h1, h2, h3⟩ := ih (min a x)
    refine ⟨le_trans h1 (min_le_left _ _), ⟨le_trans h1 (min_le_right _ _), h2⟩, ?_⟩
    rcases h3 with h3 | h3
    · rcases min_choice a x with hm | hm
      · left; rw [h3, hm]
      · right; left; rw [h3, hm]
    · right; right; exact h3

theorem listMaxI_spec (l : List Int) (hl : l ≠ []) : listMaxI l ∈ l ∧ ∀ v ∈ l, v ≤ listMaxI l := by
  unfold listMaxI
  obtain ⟨x, xs, rfl⟩ := List.exists_cons_of_ne_nil hl
  obtain ⟨_, h2, h3⟩ := foldl_max_int (x :: xs) x
  simp only [List.headD_cons]
  refine ⟨?_, h2⟩
  rcases h3 with h | h
  · rw [h]; simp
  · exact h

theorem listMinI_spec (l : List Int) (hl : l ≠ []) : listMinI l ∈ l ∧ ∀ v ∈ l, listMinI l ≤ v := by
  unfold listMinI
  obtain ⟨x, xs, rfl⟩ := List.exists_cons_of_ne_nil hl
  obtain ⟨_, h2, h3⟩ := foldl_min_int (x :: xs) x
  simp only [List.headD_cons]
  refine ⟨?_, h2⟩
  rcases h3 with h | h
  · rw [h]; simp
  · exact h

end Mahotas.C16
