/-
C16 — degenerate inputs (one occupied level, all zeros, `ignore_zeros` with no non-zero pixel) for
EVERY arithmetic instance of the kernels, and the support of `circle_se`.
-/
import Mahotas.Proofs.C16Round
namespace Mahotas.C16
open Mahotas

section generic
variable {α : Type} [Add α] [Sub α] [Mul α] [Div α] [LT α] [DecidableLT α]

/-- an occupied bin makes the histogram "non-empty" -/
theorem hne_of_hOf {hist : List Nat} {i : Nat} (h : hOf hist i ≠ 0) : ∃ v ∈ hist, v ≠ 0 := by
  have hi := lt_length_of_hOf_ne h
  rw [hOf_of_lt hist hi] at h
  exact ⟨hist[i], List.getElem_mem hi, h⟩

/-- a non-empty lower class contains an occupied bin -/
theorem exists_of_nB_ne {hist : List Nat} {T : Nat} (hT : T < hist.length) (h : nBOf hist T ≠ 0) :
    ∃ i, hOf hist i ≠ 0 := by
  by_contra hc
  exact h (nB_eq_zero hist hT (fun i _ => by
    by_contra h0
    exact hc ⟨i, h0⟩))

omit [LT α] [DecidableLT α] in
/-- at most one occupied level: the loop never reaches a level with both classes non-empty -/
theorem otsuTrace_single_level (cast : Nat → α) (hist : List Nat)
    (hs : ∀ i j, hOf hist i ≠ 0 → hOf hist j ≠ 0 → i = j) (muB muO : α) :
    otsuTrace cast (hOf hist) (nBOf hist) (nOOf hist) (List.range' 1 (hist.length - 1)) muB muO = [] := by
  rw [List.eq_nil_iff_forall_not_mem]
  intro p hp
  obtain ⟨hmem, h1, h2⟩ := otsuTrace_sub cast _ _ _ _ _ _ p hp
  simp only [List.mem_range'_1] at hmem
  have hT : p.1 < hist.length := by omega
  obtain ⟨i, hi⟩ := exists_of_nB_ne hT h1
  have hne := hne_of_hOf hi
  obtain ⟨r1, r2⟩ := proper_range hist hne hT h1 h2
  have := hs _ _ (loOf_spec hist hne).1 (lastNonzero_spec hist hne).1
  omega

/-- **otsu with at most one occupied level returns 0**, whatever the arithmetic -/
theorem otsuGen_single_level (cast : Nat → α) (hist : List Nat)
    (hs : ∀ i j, hOf hist i ≠ 0 → hOf hist j ≠ 0 → i = j) : otsuGen cast hist = 0 := by
  rw [otsuGen_eq_gen]
  split_ifs
  · rfl
  · rfl
  · rw [otsuLoop_eq_pick, otsuTrace_single_level cast hist hs]
    rfl

/-- occupied bins of the histogram handed to the kernels are levels of (counted) pixels -/
theorem mem_of_hOf_histOf {img : List Nat} {iz : Bool} {i : Nat} (h : hOf (histOf img iz) i ≠ 0) :
    i ∈ img ∧ ¬ (iz = true ∧ i = 0) := by
  rw [hOf_histOf] at h
  by_cases hc : iz = true ∧ i = 0
  · rw [if_pos hc] at h; exact absurd rfl h
  · rw [if_neg hc] at h
    refine ⟨?_, hc⟩
    by_contra hn
    exact h (List.count_eq_zero.2 hn)

/-- the histogram of an image whose counted pixels all have level `v` has at most one occupied bin -/
theorem single_level_hist {img : List Nat} {iz : Bool} {v : Nat}
    (hall : ∀ p ∈ img, p = v ∨ (iz = true ∧ p = 0)) :
    ∀ i j, hOf (histOf img iz) i ≠ 0 → hOf (histOf img iz) j ≠ 0 → i = j := by
  intro i j hi hj
  obtain ⟨mi, ni⟩ := mem_of_hOf_histOf hi
  obtain ⟨mj, nj⟩ := mem_of_hOf_histOf hj
  have ei : i = v := by
    rcases hall i mi with h | h
    · exact h
    · exact absurd h ni
  have ej : j = v := by
    rcases hall j mj with h | h
    · exact h
    · exact absurd h nj
  rw [ei, ej]

/-- **otsu of a single-level image is 0**: every pixel — every non-zero pixel when zeros are
    ignored — has the same level (constant images, all-zero images, zeros plus one other level with
    `ignore_zeros`, one-pixel images, the empty image) -/
theorem otsuImg_single_level (cast : Nat → α) (img : List Nat) (iz : Bool) (v : Nat)
    (hall : ∀ p ∈ img, p = v ∨ (iz = true ∧ p = 0)) : otsuImg cast img iz = 0 :=
  otsuGen_single_level cast _ (single_level_hist hall)

omit [Sub α] [Mul α] in
/-- the Riddler–Calvard loop does nothing while the lower class is empty -/
theorem rcLoop_const (cast : Nat → α) (cum rcum fm rfm : Nat → Nat) (maxt : Nat)
    (hc : ∀ t, t < maxt → cum t = 0) :
    ∀ (l : List Nat) (res : α), rcLoop cast cum rcum fm rfm maxt l res = res := by
  intro l
  induction l with
  | nil => intro res; simp only [rcLoop]
  | cons t rest ih =>
    intro res
    by_cases hcond : t < maxt ∧ cast t < res
    · have h0 : ¬ (cum t ≠ 0 ∧ rcum (t + 1) ≠ 0) := fun h => h.1 (hc t hcond.1)
      simp only [rcLoop, if_pos hcond, if_neg h0]
      exact ih res
    · simp only [rcLoop, if_neg hcond]

/-- **rc with one occupied level returns that level**, whatever the arithmetic (in particular whatever
    its `<` says about `cast t < cast v`) -/
theorem rcGen_single_level (cast : Nat → α) (hist : List Nat) (hne : ∃ v ∈ hist, v ≠ 0)
    (hs : ∀ i j, hOf hist i ≠ 0 → hOf hist j ≠ 0 → i = j) :
    rcGen cast hist = cast (lastNonzero hist) := by
  have hhi := (lastNonzero_spec hist hne).1
  have hn := hi_lt_length hist hne
  have hc : ∀ t, t < lastNonzero hist → nBOf hist t = 0 := fun t ht =>
    nB_eq_zero hist (by omega) (fun i hi => by
      by_contra h0
      have := hs _ _ h0 hhi
      omega)
  unfold rcGen
  exact rcLoop_const cast _ _ _ _ _ hc _ _

/-- **rc of a single-level image is that level** (as an element of the arithmetic): every counted
    pixel has level `v`, some pixel has it, and `v ≠ 0` when zeros are ignored -/
theorem rcImg_single_level (cast : Nat → α) (img : List Nat) (iz : Bool) (v : Nat)
    (hv : v ∈ img) (hz : iz = true → v ≠ 0)
    (hall : ∀ p ∈ img, p = v ∨ (iz = true ∧ p = 0)) : rcImg cast img iz = cast v := by
  have hV : hOf (histOf img iz) v ≠ 0 := by
    rw [hOf_histOf, if_neg (fun h => hz h.1 h.2)]
    exact fun h => (List.count_eq_zero.1 h) hv
  have hne := hne_of_hOf hV
  have hs := single_level_hist hall
  have hhi : lastNonzero (histOf img iz) = v := hs _ _ (lastNonzero_spec _ hne).1 hV
  have hearly : ¬ ((iz && (fullhistogram img).getD 0 0 == img.length) = true) := by
    intro h
    simp only [Bool.and_eq_true, beq_iff_eq] at h
    have h0 : img.count 0 = img.length := by rw [← fullhistogram_count]; exact h.2
    have := List.count_eq_length.1 h0 v hv
    exact hz h.1 this.symm
  unfold rcImg
  rw [if_neg hearly, rcGen_single_level cast _ hne hs, hhi]

end generic

/-! ## `circle_se` -/

theorem circleSe_length (r : Nat) : (circleSe r).length = (2 * r + 1) * (2 * r + 1) := by
  simp [circleSe]

/-- **support of `circle_se(r)`**: the `(2r+1)×(2r+1)` row-major array has a 1 at `(i, j)` exactly
    when `(i − r)² + (j − r)² < r²` (strict), and a 0 otherwise -/
theorem circleSe_spec (r i j : Nat) (hi : i ≤ 2 * r) (hj : j ≤ 2 * r) :
    (circleSe r).getD (i * (2 * r + 1) + j) 0 =
      if ((i : Int) - r) * ((i : Int) - r) + ((j : Int) - r) * ((j : Int) - r) < (r : Int) * r then 1 else 0 := by
  have hk : i * (2 * r + 1) + j < (2 * r + 1) * (2 * r + 1) := by
    have : i * (2 * r + 1) ≤ 2 * r * (2 * r + 1) := Nat.mul_le_mul_right _ hi
    nlinarith
  have hd : (i * (2 * r + 1) + j) / (2 * r + 1) = i := by
    rw [Nat.mul_comm, Nat.mul_add_div (by omega), Nat.div_eq_of_lt (by omega), Nat.add_zero]
  have hm : (i * (2 * r + 1) + j) % (2 * r + 1) = j := by
    rw [Nat.mul_comm, Nat.mul_add_mod, Nat.mod_eq_of_lt (by omega)]
  unfold circleSe
  rw [List.getD_eq_getElem?_getD, List.getElem?_map, List.getElem?_range hk]
  simp only [Option.map_some, Option.getD_some, hd, hm, circleAt, decide_eq_true_eq]

/-- the centre is set for `r ≥ 1`; the four extreme axis points and the corners never are: the
    effective window of `bernsen(f, r, …)` is at most `(2r−1)×(2r−1)`, a single pixel for `r = 1` -/
theorem circleSe_centre_and_rim (r : Nat) (hr : 1 ≤ r) :
    (circleSe r).getD (r * (2 * r + 1) + r) 0 = 1 ∧
    (∀ j, j ≤ 2 * r → (circleSe r).getD (0 * (2 * r + 1) + j) 0 = 0) ∧
    (∀ j, j ≤ 2 * r → (circleSe r).getD (2 * r * (2 * r + 1) + j) 0 = 0) ∧
    (∀ i, i ≤ 2 * r → (circleSe r).getD (i * (2 * r + 1) + 0) 0 = 0) ∧
    (∀ i, i ≤ 2 * r → (circleSe r).getD (i * (2 * r + 1) + 2 * r) 0 = 0) := by
  have hr' : (1 : Int) ≤ r := by exact_mod_cast hr
  refine ⟨?_, fun j hj => ?_, fun j hj => ?_, fun i hi => ?_, fun i hi => ?_⟩
  · rw [circleSe_spec r r r (by omega) (by omega), if_pos]
    simp only [sub_self, mul_zero, add_zero]; nlinarith
  · rw [circleSe_spec r 0 j (by omega) hj, if_neg]
    have := mul_self_nonneg ((j : Int) - r)
    push_cast; nlinarith
  · rw [circleSe_spec r (2 * r) j (by omega) hj, if_neg]
    have := mul_self_nonneg ((j : Int) - r)
    push_cast; nlinarith
  · rw [circleSe_spec r i 0 hi (by omega), if_neg]
    have := mul_self_nonneg ((i : Int) - r)
    push_cast; nlinarith
  · rw [circleSe_spec r i (2 * r) hi (by omega), if_neg]
    have := mul_self_nonneg ((i : Int) - r)
    push_cast; nlinarith

example : circleSe 1 = [0, 0, 0, 0, 1, 0, 0, 0, 0] := by decide
example : circleSe 2 = [0,0,0,0,0, 0,1,1,1,0, 0,1,1,1,0, 0,1,1,1,0, 0,0,0,0,0] := by decide

end Mahotas.C16
