/-
C16 — Otsu: the exact (rational) instance of the transliterated C loop returns the FIRST maximiser
of the between-class variance `σ(T) = n_B n_O (μ_B − μ_O)²`.
-/
import Mahotas.Model.C16
import Mathlib.Algebra.Order.Field.Rat
import Mathlib.Tactic.FieldSimp
import Mathlib.Tactic.Ring
import Mathlib.Tactic.Linarith
import Mathlib.Tactic.Positivity
namespace Mahotas.C16
open Mahotas

/-! ## the quantities of the statement -/

/-- `hist[i]` (0 outside) -/
def hOf (hist : List Nat) (i : Nat) : Nat := hist.toArray.getD i 0
/-- `Σ_{i ≤ T} hist[i]` -/
def nBOf (hist : List Nat) (T : Nat) : Nat := (cumsum hist 0).toArray.getD T 0
/-- `Σ_{i ≤ T} i·hist[i]` -/
def sBOf (hist : List Nat) (T : Nat) : Nat := (cumsum (weighted hist) 0).toArray.getD T 0
/-- `Σ_{i > T} hist[i]` -/
def nOOf (hist : List Nat) (T : Nat) : Nat := nBOf hist (hist.length - 1) - nBOf hist T
/-- between-class variance of the split `{0..T} | {T+1..}` -/
def otsuSigma (hist : List Nat) (T : Nat) : Rat :=
  sigmaOf (nBOf hist T) (nOOf hist T) (sBOf hist T) (sBOf hist (hist.length - 1) - sBOf hist T)

/-! ## running sums -/

theorem cumsum_length (l : List Nat) (acc : Nat) : (cumsum l acc).length = l.length := by
  induction l generalizing acc with
  | nil => rfl
  | cons x xs ih => simp [cumsum, ih]

theorem cumsum_getD_zero (l : List Nat) (acc : Nat) (hl : 0 < l.length) :
    (cumsum l acc).getD 0 0 = acc + l.getD 0 0 := by
  cases l with
  | nil => simp at hl
  | cons x xs => simp [cumsum]

theorem cumsum_getD_succ (l : List Nat) (acc i : Nat) (hi : i + 1 < l.length) :
    (cumsum l acc).getD (i + 1) 0 = (cumsum l acc).getD i 0 + l.getD (i + 1) 0 := by
  induction l generalizing acc i with
  | nil => simp at hi
  | cons x xs ih =>
    simp only [List.length_cons] at hi
    cases i with
    | zero =>
      simp only [cumsum, List.getD_cons_succ, List.getD_cons_zero]
      rw [cumsum_getD_zero _ _ (by omega)]
    | succ j =>
      simp only [cumsum, List.getD_cons_succ]
      exact ih _ _ (by omega)

theorem foldl_add_acc (l : List Nat) (acc : Nat) :
    l.foldl (· + ·) acc = acc + l.foldl (· + ·) 0 := by
  induction l generalizing acc with
  | nil => simp
  | cons x xs ih =>
    simp only [List.foldl_cons]
    rw [ih (acc + x), ih (0 + x)]
    omega

theorem cumsum_getD_last (l : List Nat) (acc : Nat) (hl : 0 < l.length) :
    (cumsum l acc).getD (l.length - 1) 0 = l.foldl (· + ·) acc := by
  induction l generalizing acc with
  | nil => simp at hl
  | cons x xs ih =>
    cases xs with
    | nil => simp [cumsum]
    | cons y ys =>
      have := ih (acc + x) (by simp)
      simp only [List.length_cons, Nat.add_sub_cancel] at this ⊢
      simp only [cumsum, List.getD_cons_succ, List.foldl_cons] at this ⊢
      exact this

theorem weighted_length (l : List Nat) : (weighted l).length = l.length := by
  simp [weighted]

theorem weighted_getD (l : List Nat) (i : Nat) : (weighted l).getD i 0 = i * l.getD i 0 := by
  unfold weighted
  simp only [List.getD_eq_getElem?_getD, List.getElem?_map, List.getElem?_zipIdx]
  cases h : l[i]? <;> simp

/-! ## recurrences and monotonicity of the class sums -/

theorem nBOf_eq (hist : List Nat) (T : Nat) : nBOf hist T = (cumsum hist 0).getD T 0 := by
  simp [nBOf]

theorem sBOf_eq (hist : List Nat) (T : Nat) : sBOf hist T = (cumsum (weighted hist) 0).getD T 0 := by
  simp [sBOf]

theorem hOf_eq (hist : List Nat) (T : Nat) : hOf hist T = hist.getD T 0 := by
  simp [hOf]

theorem nB_succ (hist : List Nat) (T : Nat) (h : T + 1 < hist.length) :
    nBOf hist (T + 1) = nBOf hist T + hOf hist (T + 1) := by
  rw [nBOf_eq, nBOf_eq, hOf_eq, cumsum_getD_succ _ _ _ h]

theorem sB_succ (hist : List Nat) (T : Nat) (h : T + 1 < hist.length) :
    sBOf hist (T + 1) = sBOf hist T + (T + 1) * hOf hist (T + 1) := by
  rw [sBOf_eq, sBOf_eq, hOf_eq, cumsum_getD_succ _ _ _ (by rw [weighted_length]; exact h),
    weighted_getD]

theorem sB_zero (hist : List Nat) : sBOf hist 0 = 0 := by
  rw [sBOf_eq]
  cases hist with
  | nil => simp [weighted, cumsum]
  | cons x xs =>
    rw [cumsum_getD_zero _ _ (by rw [weighted_length]; simp), weighted_getD]
    simp

theorem nB_mono (hist : List Nat) {T T' : Nat} (h : T ≤ T') (h' : T' < hist.length) :
    nBOf hist T ≤ nBOf hist T' := by
  induction T' with
  | zero =>
    have : T = 0 := by omega
    subst this; exact Nat.le_refl _
  | succ m ih =>
    by_cases e : T = m + 1
    · subst e; exact Nat.le_refl _
    · have := ih (by omega) (by omega)
      rw [nB_succ hist m h']
      omega

theorem sB_mono (hist : List Nat) {T T' : Nat} (h : T ≤ T') (h' : T' < hist.length) :
    sBOf hist T ≤ sBOf hist T' := by
  induction T' with
  | zero =>
    have : T = 0 := by omega
    subst this; exact Nat.le_refl _
  | succ m ih =>
    by_cases e : T = m + 1
    · subst e; exact Nat.le_refl _
    · have := ih (by omega) (by omega)
      rw [sB_succ hist m h']
      omega

/-- an empty lower class has weighted sum zero -/
theorem sB_eq_zero_of_nB (hist : List Nat) {T : Nat} (h' : T < hist.length)
    (h : nBOf hist T = 0) : sBOf hist T = 0 := by
  induction T with
  | zero => exact sB_zero hist
  | succ m ih =>
    rw [nB_succ hist m h'] at h
    rw [sB_succ hist m h', ih (by omega) (by omega)]
    have : hOf hist (m + 1) = 0 := by omega
    rw [this]; simp

theorem sumL_weighted (hist : List Nat) :
    sumL (weighted hist) = sBOf hist (hist.length - 1) := by
  rw [sBOf_eq]
  cases hist with
  | nil => simp [sumL, weighted, cumsum]
  | cons x xs =>
    have := cumsum_getD_last (weighted (x :: xs)) 0 (by rw [weighted_length]; simp)
    rw [weighted_length] at this
    rw [this]; rfl

theorem sumL_drop (hist : List Nat) (hn : 2 ≤ hist.length) :
    sumL (hist.drop 1) = nOOf hist 0 := by
  unfold nOOf
  rw [nBOf_eq, nBOf_eq, cumsum_getD_last _ _ (by omega), cumsum_getD_zero _ _ (by omega)]
  cases hist with
  | nil => simp at hn
  | cons x xs =>
    simp only [List.drop_succ_cons, List.drop_zero, List.foldl_cons, List.getD_cons_zero, sumL]
    rw [foldl_add_acc xs (0 + x)]
    omega

/-! ## the between-class variance -/

theorem sigmaOf_nonneg (a b c d : Nat) : 0 ≤ sigmaOf a b c d := by
  unfold sigmaOf
  split_ifs
  · exact le_refl 0
  · have : (0 : ℚ) ≤ (a : ℚ) * (b : ℚ) := by positivity
    rw [mul_assoc]
    exact mul_nonneg this (mul_self_nonneg _)

theorem otsuSigma_nonneg (hist : List Nat) (T : Nat) : 0 ≤ otsuSigma hist T :=
  sigmaOf_nonneg _ _ _ _

theorem otsuSigma_of_nB_zero {hist : List Nat} {T : Nat} (h : nBOf hist T = 0) :
    otsuSigma hist T = 0 := by
  unfold otsuSigma sigmaOf
  rw [if_pos (Or.inl h)]

theorem otsuSigma_of_nO_zero {hist : List Nat} {T : Nat} (h : nOOf hist T = 0) :
    otsuSigma hist T = 0 := by
  unfold otsuSigma sigmaOf
  rw [if_pos (Or.inr h)]

theorem nO_zero_mono (hist : List Nat) {T T' : Nat} (h : T ≤ T') (h' : T' < hist.length)
    (h0 : nOOf hist T = 0) : nOOf hist T' = 0 := by
  unfold nOOf at h0 ⊢
  have := nB_mono hist h h'
  omega

/-- the value `s` computed in the loop body is `σ(T)` once the running means are the class means -/
theorem sigma_step (hist : List Nat) {T : Nat} (hT : T < hist.length) {muB' muO' : ℚ}
    (h1 : nBOf hist T ≠ 0) (h2 : nOOf hist T ≠ 0)
    (hB : muB' * (nBOf hist T : ℚ) = (sBOf hist T : ℚ))
    (hO : muO' * (nOOf hist T : ℚ) = (sBOf hist (hist.length - 1) : ℚ) - (sBOf hist T : ℚ)) :
    (nBOf hist T : ℚ) * (nOOf hist T : ℚ) * (muB' - muO') * (muB' - muO') = otsuSigma hist T := by
  unfold otsuSigma sigmaOf
  rw [if_neg (by rintro (h | h); exact h1 h; exact h2 h)]
  have c1 : (nBOf hist T : ℚ) ≠ 0 := Nat.cast_ne_zero.2 h1
  have c2 : (nOOf hist T : ℚ) ≠ 0 := Nat.cast_ne_zero.2 h2
  have e1 : muB' = (sBOf hist T : ℚ) / (nBOf hist T : ℚ) := eq_div_of_mul_eq c1 hB
  have e2 : muO' = ((sBOf hist (hist.length - 1) - sBOf hist T : ℕ) : ℚ) / (nOOf hist T : ℚ) := by
    rw [Nat.cast_sub (sB_mono hist (by omega) (by omega))]
    exact eq_div_of_mul_eq c2 hO
  rw [e1, e2]

/-! ## unfolding the loop -/

section loop
variable (h nB nO : Nat → Nat) (T : Nat) (rest : List Nat) (muB muO best : Rat) (bestT : Nat)

theorem otsuLoop_nil :
    otsuLoop ratCast h nB nO [] muB muO best bestT = bestT := by
  simp only [otsuLoop]

theorem otsuLoop_continue (h1 : nB T = 0) :
    otsuLoop ratCast h nB nO (T :: rest) muB muO best bestT =
      otsuLoop ratCast h nB nO rest muB muO best bestT := by
  simp only [otsuLoop, if_pos h1]

theorem otsuLoop_break (h1 : nB T ≠ 0) (h2 : nO T = 0) :
    otsuLoop ratCast h nB nO (T :: rest) muB muO best bestT = bestT := by
  simp only [otsuLoop, if_neg h1, if_pos h2]

theorem otsuLoop_step (h1 : nB T ≠ 0) (h2 : nO T ≠ 0) :
    otsuLoop ratCast h nB nO (T :: rest) muB muO best bestT =
      if best < (nB T : ℚ) * (nO T : ℚ) *
            ((muB * (nB (T - 1) : ℚ) + ((T * h T : ℕ) : ℚ)) / (nB T : ℚ) -
              (muO * (nO (T - 1) : ℚ) - ((T * h T : ℕ) : ℚ)) / (nO T : ℚ)) *
            ((muB * (nB (T - 1) : ℚ) + ((T * h T : ℕ) : ℚ)) / (nB T : ℚ) -
              (muO * (nO (T - 1) : ℚ) - ((T * h T : ℕ) : ℚ)) / (nO T : ℚ)) then
        otsuLoop ratCast h nB nO rest
          ((muB * (nB (T - 1) : ℚ) + ((T * h T : ℕ) : ℚ)) / (nB T : ℚ))
          ((muO * (nO (T - 1) : ℚ) - ((T * h T : ℕ) : ℚ)) / (nO T : ℚ))
          ((nB T : ℚ) * (nO T : ℚ) *
            ((muB * (nB (T - 1) : ℚ) + ((T * h T : ℕ) : ℚ)) / (nB T : ℚ) -
              (muO * (nO (T - 1) : ℚ) - ((T * h T : ℕ) : ℚ)) / (nO T : ℚ)) *
            ((muB * (nB (T - 1) : ℚ) + ((T * h T : ℕ) : ℚ)) / (nB T : ℚ) -
              (muO * (nO (T - 1) : ℚ) - ((T * h T : ℕ) : ℚ)) / (nO T : ℚ))) T
      else
        otsuLoop ratCast h nB nO rest
          ((muB * (nB (T - 1) : ℚ) + ((T * h T : ℕ) : ℚ)) / (nB T : ℚ))
          ((muO * (nO (T - 1) : ℚ) - ((T * h T : ℕ) : ℚ)) / (nO T : ℚ)) best bestT := by
  simp only [otsuLoop, if_neg h1, if_neg h2, ratCast]
  rfl

end loop

/-! ## the loop invariant -/

/-- `Ts` is the first maximiser of `σ` over `0 … n-1` -/
def FirstArgmax (hist : List Nat) (Ts : Nat) : Prop :=
  Ts < hist.length ∧ (∀ T, T < hist.length → otsuSigma hist T ≤ otsuSigma hist Ts) ∧
    (∀ T, T < Ts → otsuSigma hist T < otsuSigma hist Ts)

theorem otsuLoop_spec (hist : List Nat) (k : Nat) :
    ∀ (T : Nat) (muB muO best : ℚ) (bestT : Nat), 1 ≤ T → T + k = hist.length →
      muB * (nBOf hist (T - 1) : ℚ) = (sBOf hist (T - 1) : ℚ) →
      muO * (nOOf hist (T - 1) : ℚ) =
        (sBOf hist (hist.length - 1) : ℚ) - (sBOf hist (T - 1) : ℚ) →
      best = otsuSigma hist bestT → bestT < T →
      (∀ T', T' < T → otsuSigma hist T' ≤ best) →
      (∀ T', T' < bestT → otsuSigma hist T' < best) →
      FirstArgmax hist
        (otsuLoop ratCast (hOf hist) (nBOf hist) (nOOf hist) (List.range' T k) muB muO best bestT) := by
  induction k with
  | zero =>
    intro T muB muO best bestT hT hTk _ _ hbest hbT hle hlt
    rw [List.range'_zero, otsuLoop_nil]
    subst hbest
    exact ⟨by omega, fun T' h => hle T' (by omega), hlt⟩
  | succ k ih =>
    intro T muB muO best bestT hT hTk hmuB hmuO hbest hbT hle hlt
    have hTn : T < hist.length := by omega
    have eT : T - 1 + 1 = T := by omega
    have hbest0 : 0 ≤ best := by rw [hbest]; exact otsuSigma_nonneg _ _
    rw [List.range'_succ]
    by_cases h1 : nBOf hist T = 0
    · -- continue
      rw [otsuLoop_continue _ _ _ _ _ _ _ _ _ h1]
      have h0 : nBOf hist (T - 1) = 0 := by
        have := nB_mono hist (Nat.sub_le T 1) hTn
        omega
      have hs1 := sB_eq_zero_of_nB hist hTn h1
      have hs0 := sB_eq_zero_of_nB hist (by omega) h0
      refine ih (T + 1) muB muO best bestT (by omega) (by omega) ?_ ?_ hbest (by omega) ?_ hlt
      · rw [Nat.add_sub_cancel, h1, hs1]; simp
      · rw [Nat.add_sub_cancel]
        have : nOOf hist T = nOOf hist (T - 1) := by unfold nOOf; rw [h1, h0]
        rw [this, hs1]
        rw [hs0] at hmuO
        exact hmuO
      · intro T' hT'
        by_cases e : T' = T
        · subst e; rw [otsuSigma_of_nB_zero h1]; exact hbest0
        · exact hle T' (by omega)
    · by_cases h2 : nOOf hist T = 0
      · -- break
        rw [otsuLoop_break _ _ _ _ _ _ _ _ _ h1 h2]
        subst hbest
        refine ⟨by omega, ?_, hlt⟩
        intro T' hT'
        by_cases e : T' < T
        · exact hle T' e
        · rw [otsuSigma_of_nO_zero (nO_zero_mono hist (by omega) hT' h2)]
          exact hbest0
      · -- a proper step
        rw [otsuLoop_step _ _ _ _ _ _ _ _ _ h1 h2]
        have c1 : (nBOf hist T : ℚ) ≠ 0 := Nat.cast_ne_zero.2 h1
        have c2 : (nOOf hist T : ℚ) ≠ 0 := Nat.cast_ne_zero.2 h2
        have rs : sBOf hist T = sBOf hist (T - 1) + T * hOf hist T := by
          have := sB_succ hist (T - 1) (by omega)
          rwa [eT] at this
        have hB : (muB * (nBOf hist (T - 1) : ℚ) + ((T * hOf hist T : ℕ) : ℚ)) / (nBOf hist T : ℚ) *
            (nBOf hist T : ℚ) = (sBOf hist T : ℚ) := by
          rw [div_mul_cancel₀ _ c1, hmuB, rs, Nat.cast_add]
        have hO : (muO * (nOOf hist (T - 1) : ℚ) - ((T * hOf hist T : ℕ) : ℚ)) / (nOOf hist T : ℚ) *
            (nOOf hist T : ℚ) = (sBOf hist (hist.length - 1) : ℚ) - (sBOf hist T : ℚ) := by
          rw [div_mul_cancel₀ _ c2, hmuO, rs, Nat.cast_add]
          ring
        rw [sigma_step hist hTn h1 h2 hB hO]
        split_ifs with hlt'
        · refine ih (T + 1) _ _ _ T (by omega) (by omega) ?_ ?_ rfl (by omega) ?_ ?_
          · rw [Nat.add_sub_cancel]; exact hB
          · rw [Nat.add_sub_cancel]; exact hO
          · intro T' hT'
            by_cases e : T' = T
            · subst e; exact le_refl _
            · exact le_of_lt (lt_of_le_of_lt (hle T' (by omega)) hlt')
          · intro T' hT'
            exact lt_of_le_of_lt (hle T' hT') hlt'
        · refine ih (T + 1) _ _ best bestT (by omega) (by omega) ?_ ?_ hbest (by omega) ?_ hlt
          · rw [Nat.add_sub_cancel]; exact hB
          · rw [Nat.add_sub_cancel]; exact hO
          · intro T' hT'
            by_cases e : T' = T
            · subst e; exact not_lt.1 hlt'
            · exact hle T' (by omega)

/-! ## the whole function -/

/-- `otsuGen` at the rationals, with the quantities named as in the statement -/
theorem otsuGen_eq (hist : List Nat) : otsuGen ratCast hist =
    if hist.length ≤ 1 then 0 else if sumL (hist.drop 1) = 0 then 0 else
      otsuLoop ratCast (hOf hist) (nBOf hist) (nOOf hist) (List.range' 1 (hist.length - 1))
        (ratCast 0) (ratCast (sumL (weighted hist)) / ratCast (sumL (hist.drop 1)))
        (ratCast (nBOf hist 0) * ratCast (nOOf hist 0) *
          (ratCast 0 - ratCast (sumL (weighted hist)) / ratCast (sumL (hist.drop 1))) *
          (ratCast 0 - ratCast (sumL (weighted hist)) / ratCast (sumL (hist.drop 1)))) 0 := rfl

/-- the initial value of `best` is `σ(0)` -/
theorem sigma_zero (hist : List Nat) (hn : 0 < hist.length) (h2 : nOOf hist 0 ≠ 0) :
    (nBOf hist 0 : ℚ) * (nOOf hist 0 : ℚ) *
        ((0 : ℚ) - (sBOf hist (hist.length - 1) : ℚ) / (nOOf hist 0 : ℚ)) *
        ((0 : ℚ) - (sBOf hist (hist.length - 1) : ℚ) / (nOOf hist 0 : ℚ)) = otsuSigma hist 0 := by
  have c2 : (nOOf hist 0 : ℚ) ≠ 0 := Nat.cast_ne_zero.2 h2
  by_cases h1 : nBOf hist 0 = 0
  · rw [otsuSigma_of_nB_zero h1, h1]; simp
  · exact sigma_step hist hn (muB' := 0) (muO' := (sBOf hist (hist.length - 1) : ℚ) / (nOOf hist 0 : ℚ))
      h1 h2 (by rw [sB_zero]; simp) (by rw [sB_zero, div_mul_cancel₀ _ c2]; simp)

theorem otsuGen_first_argmax' (hist : List Nat) :
    (otsuGen ratCast hist < hist.length ∨ otsuGen ratCast hist = 0) ∧
      (∀ T, T < hist.length → otsuSigma hist T ≤ otsuSigma hist (otsuGen ratCast hist)) ∧
      (∀ T, T < otsuGen ratCast hist → otsuSigma hist T < otsuSigma hist (otsuGen ratCast hist)) := by
  rw [otsuGen_eq]
  split_ifs with hn hH
  · -- at most one bin
    refine ⟨Or.inr rfl, fun T hT => ?_, fun T hT => absurd hT (Nat.not_lt_zero _)⟩
    have : T = 0 := by omega
    subst this; exact le_refl _
  · -- every pixel is in bin 0: the upper class is always empty
    have hn2 : 2 ≤ hist.length := by omega
    rw [sumL_drop hist hn2] at hH
    have hz : ∀ T, T < hist.length → otsuSigma hist T = 0 := fun T hT =>
      otsuSigma_of_nO_zero (nO_zero_mono hist (Nat.zero_le T) hT hH)
    refine ⟨Or.inr rfl, fun T hT => ?_, fun T hT => absurd hT (Nat.not_lt_zero _)⟩
    rw [hz T hT, hz 0 (by omega)]
  · have hn2 : 2 ≤ hist.length := by omega
    rw [sumL_drop hist hn2] at hH ⊢
    rw [sumL_weighted]
    have c2 : (nOOf hist 0 : ℚ) ≠ 0 := Nat.cast_ne_zero.2 hH
    simp only [ratCast, Nat.cast_zero]
    have hbest := sigma_zero hist (by omega) hH
    have := otsuLoop_spec hist (hist.length - 1) 1 0
      ((sBOf hist (hist.length - 1) : ℚ) / (nOOf hist 0 : ℚ)) _ 0 (le_refl 1) (by omega)
      (by rw [Nat.sub_self, sB_zero]; simp)
      (by rw [Nat.sub_self, sB_zero, div_mul_cancel₀ _ c2]; simp)
      hbest (by omega)
      (fun T' hT' => by
        have : T' = 0 := by omega
        subst this; rw [hbest])
      (fun T' hT' => absurd hT' (Nat.not_lt_zero _))
    exact ⟨Or.inl this.1, this.2.1, this.2.2⟩

/-- **Otsu returns the first maximiser of the between-class variance.** -/
theorem otsuGen_first_argmax (hist : List Nat) :
    let Ts := otsuGen ratCast hist
    (Ts < hist.length ∨ Ts = 0) ∧
      (∀ T, T < hist.length → otsuSigma hist T ≤ otsuSigma hist Ts) ∧
      (∀ T, T < Ts → otsuSigma hist T < otsuSigma hist Ts) :=
  otsuGen_first_argmax' hist

/-! ## link with the model's table `sigmaAll` -/

theorem getLastD_eq_getD (l : List Nat) : l.getLastD 0 = l.getD (l.length - 1) 0 := by
  rw [List.getLastD_eq_getLast?, List.getLast?_eq_getElem?, List.getD_eq_getElem?_getD]

/-- the model's table `sigmaAll` lists exactly `σ(0), …, σ(n-1)` -/
theorem sigmaAll_getElem? (hist : List Nat) (T : Nat) (hT : T < hist.length) :
    (sigmaAll hist)[T]? = some (otsuSigma hist T) := by
  unfold sigmaAll otsuSigma nOOf
  simp only [List.getElem?_map, getLastD_eq_getD, cumsum_length, weighted_length, nBOf_eq, sBOf_eq]
  have h1 : (cumsum hist 0)[T]? = some ((cumsum hist 0).getD T 0) := by
    rw [List.getD_eq_getElem?_getD,
      List.getElem?_eq_getElem (by rw [cumsum_length]; exact hT)]; rfl
  have h2 : (cumsum (weighted hist) 0)[T]? = some ((cumsum (weighted hist) 0).getD T 0) := by
    rw [List.getD_eq_getElem?_getD,
      List.getElem?_eq_getElem (by rw [cumsum_length, weighted_length]; exact hT)]; rfl
  have : ((cumsum hist 0).zip (cumsum (weighted hist) 0))[T]? =
      some ((cumsum hist 0).getD T 0, (cumsum (weighted hist) 0).getD T 0) := by
    rw [List.getElem?_zip_eq_some]; exact ⟨h1, h2⟩
  rw [this]; rfl

theorem sigmaAll_length (hist : List Nat) : (sigmaAll hist).length = hist.length := by
  simp [sigmaAll, cumsum_length, weighted_length]


/-! ## the model's `firstArgmax ∘ sigmaAll` oracle agrees with `otsuGen` -/

theorem foldl_max_spec (l : List ℚ) (a : ℚ) :
    a ≤ l.foldl (fun m x => if m < x then x else m) a ∧
      (∀ x ∈ l, x ≤ l.foldl (fun m x => if m < x then x else m) a) ∧
      (l.foldl (fun m x => if m < x then x else m) a = a ∨
        l.foldl (fun m x => if m < x then x else m) a ∈ l) := by
  induction l generalizing a with
  | nil => simp
  | cons y ys ih =>
    simp only [List.foldl_cons]
    by_cases h : a < y
    · simp only [if_pos h]
      obtain ⟨h1, h2, h3⟩ := ih y
      refine ⟨by linarith, ?_, ?_⟩
      · intro x hx
        rcases List.mem_cons.1 hx with rfl | hx
        · exact h1
        · exact h2 x hx
      · rcases h3 with h3 | h3
        · right; rw [h3]; exact List.mem_cons_self
        · right; exact List.mem_cons_of_mem _ h3
    · simp only [if_neg h]
      obtain ⟨h1, h2, h3⟩ := ih a
      refine ⟨h1, ?_, ?_⟩
      · intro x hx
        rcases List.mem_cons.1 hx with rfl | hx
        · linarith [not_lt.1 h]
        · exact h2 x hx
      · rcases h3 with h3 | h3
        · left; exact h3
        · right; exact List.mem_cons_of_mem _ h3

theorem listMax_eq (l : List ℚ) (Ts : Nat) (hTs : Ts < l.length) (h0 : 0 ≤ l[Ts])
    (hle : ∀ T (h : T < l.length), l[T] ≤ l[Ts]) : listMax l = l[Ts] := by
  obtain ⟨_, h2, h3⟩ := foldl_max_spec l 0
  have e : listMax l = l.foldl (fun m x => if m < x then x else m) 0 := rfl
  rw [e]
  apply le_antisymm
  · rcases h3 with h3 | h3
    · rw [h3]; exact h0
    · obtain ⟨i, hi, hx⟩ := List.mem_iff_getElem.1 h3
      rw [← hx]; exact hle i hi
  · exact h2 _ (List.getElem_mem hTs)

theorem firstArgmax_eq (l : List ℚ) (Ts : Nat) (hTs : Ts < l.length) (h0 : 0 ≤ l[Ts])
    (hle : ∀ T (h : T < l.length), l[T] ≤ l[Ts])
    (hlt : ∀ T (h : T < Ts), l[T] < l[Ts]) : firstArgmax l = Ts := by
  unfold firstArgmax
  simp only
  rw [listMax_eq l Ts hTs h0 hle]
  have : l.zipIdx.find? (fun (x, _) => x == l[Ts]) = some (l[Ts], Ts) := by
    rw [List.find?_eq_some_iff_getElem]
    refine ⟨by simp, Ts, by simpa using hTs, by simp [List.getElem_zipIdx], ?_⟩
    intro j hj
    simp only [List.getElem_zipIdx, Bool.not_eq_true', beq_eq_false_iff_ne, ne_eq]
    exact ne_of_lt (hlt j hj)
  rw [this]; rfl

/-- the harness oracle `firstArgmax (sigmaAll hist)` is the exact model's answer -/
theorem firstArgmax_sigmaAll (hist : List Nat) :
    firstArgmax (sigmaAll hist) = otsuGen ratCast hist := by
  cases hist with
  | nil => rfl
  | cons x xs =>
    obtain ⟨h1, h2, h3⟩ := otsuGen_first_argmax' (x :: xs)
    have hTs : otsuGen ratCast (x :: xs) < (x :: xs).length := by
      rcases h1 with h | h
      · exact h
      · rw [h]; simp
    have hget : ∀ T (h : T < (sigmaAll (x :: xs)).length),
        (sigmaAll (x :: xs))[T] = otsuSigma (x :: xs) T := by
      intro T h
      rw [List.getElem_eq_iff]
      exact sigmaAll_getElem? _ T (by rwa [sigmaAll_length] at h)
    have hTs' : otsuGen ratCast (x :: xs) < (sigmaAll (x :: xs)).length := by
      rw [sigmaAll_length]; exact hTs
    apply firstArgmax_eq _ _ hTs'
    · rw [hget]; exact otsuSigma_nonneg _ _
    · intro T h
      rw [hget, hget]
      exact h2 T (by rwa [sigmaAll_length] at h)
    · intro T h
      rw [hget, hget]
      exact h3 T h
end Mahotas.C16
