/-
C16 — Riddler–Calvard (`rc`): the exact (rational) instance of the transliterated loop returns the
midpoint of the two class means at the FIRST split `t ∈ [lo, hi)` whose midpoint no longer
exceeds `t + 1` (`lo`/`hi` the smallest/largest occurring level), and the level itself when only
one level occurs.
-/
import Mahotas.Model.C16
import Mahotas.Proofs.C16Otsu
import Mathlib.Algebra.Order.Field.Rat
import Mathlib.Tactic.FieldSimp
import Mathlib.Tactic.Ring
import Mathlib.Tactic.Linarith
import Mathlib.Tactic.Positivity
namespace Mahotas.C16
open Mahotas

/-! ## smallest and largest occurring level -/

-- `loOf` (index of the first non-zero bin) is defined in `Model/C16.lean`

theorem hOf_of_lt (hist : List Nat) {i : Nat} (h : i < hist.length) : hOf hist i = hist[i] := by
  rw [hOf_eq, List.getD_eq_getElem?_getD, List.getElem?_eq_getElem h]; rfl

theorem hOf_of_ge (hist : List Nat) {i : Nat} (h : hist.length ≤ i) : hOf hist i = 0 := by
  rw [hOf_eq, List.getD_eq_getElem?_getD, List.getElem?_eq_none h]; rfl

theorem lt_length_of_hOf_ne {hist : List Nat} {i : Nat} (h : hOf hist i ≠ 0) : i < hist.length := by
  by_contra hc
  exact h (hOf_of_ge hist (by omega))

theorem loOf_spec (hist : List Nat) (hne : ∃ v ∈ hist, v ≠ 0) :
    hOf hist (loOf hist) ≠ 0 ∧ ∀ i, i < loOf hist → hOf hist i = 0 := by
  unfold loOf
  cases hf : hist.zipIdx.find? (fun (v, _) => decide (v ≠ 0)) with
  | none =>
    exfalso
    rw [List.find?_eq_none] at hf
    obtain ⟨v, hv, hv0⟩ := hne
    obtain ⟨i, hi, rfl⟩ := List.mem_iff_getElem.1 hv
    have hm : (hist[i], i) ∈ hist.zipIdx := by
      rw [List.mem_iff_getElem]
      exact ⟨i, by simpa using hi, by simp [List.getElem_zipIdx]⟩
    have := hf _ hm
    simp at this
    exact hv0 this
  | some b =>
    rw [List.find?_eq_some_iff_getElem] at hf
    obtain ⟨hp, i, hi, hb, hj⟩ := hf
    have hi' : i < hist.length := by simpa using hi
    rw [List.getElem_zipIdx] at hb
    subst hb
    simp only [Option.map_some, Option.getD_some, Nat.zero_add]
    refine ⟨?_, ?_⟩
    · rw [hOf_of_lt hist hi']
      simpa using hp
    · intro j hji
      have := hj j hji
      rw [List.getElem_zipIdx] at this
      rw [hOf_of_lt hist (by omega)]
      simpa using this

theorem lastNonzero_aux (l : List Nat) (k m : Nat) :
    ((∀ v ∈ l, v = 0) ∧ (l.zipIdx k).foldl (fun m (v, i) => if v ≠ 0 then i else m) m = m) ∨
    (∃ j, (l.zipIdx k).foldl (fun m (v, i) => if v ≠ 0 then i else m) m = k + j ∧
      l.getD j 0 ≠ 0 ∧ ∀ j', j < j' → l.getD j' 0 = 0) := by
  induction l generalizing k m with
  | nil => left; simp
  | cons x xs ih =>
    simp only [List.zipIdx_cons, List.foldl_cons]
    rcases ih (k + 1) (if x ≠ 0 then k else m) with ⟨hall, hr⟩ | ⟨j, hr, hj, hj'⟩
    · by_cases hx : x = 0
      · left
        refine ⟨?_, ?_⟩
        · intro v hv
          rcases List.mem_cons.1 hv with rfl | hv
          · exact hx
          · exact hall v hv
        · rw [hr]; simp [hx]
      · right
        refine ⟨0, ?_, by simpa using hx, ?_⟩
        · rw [hr]; simp [hx]
        · intro j' hj'
          obtain ⟨j'', rfl⟩ : ∃ j'', j' = j'' + 1 := ⟨j' - 1, by omega⟩
          rw [List.getD_cons_succ, List.getD_eq_getElem?_getD]
          cases hg : xs[j'']? with
          | none => rfl
          | some v => exact hall v (List.mem_of_getElem? hg)
    · right
      refine ⟨j + 1, ?_, by simpa using hj, ?_⟩
      · rw [hr]; omega
      · intro j' hjj
        obtain ⟨j'', rfl⟩ : ∃ j'', j' = j'' + 1 := ⟨j' - 1, by omega⟩
        rw [List.getD_cons_succ]
        exact hj' j'' (by omega)

theorem lastNonzero_spec (hist : List Nat) (hne : ∃ v ∈ hist, v ≠ 0) :
    hOf hist (lastNonzero hist) ≠ 0 ∧ ∀ i, lastNonzero hist < i → hOf hist i = 0 := by
  unfold lastNonzero
  rcases lastNonzero_aux hist 0 0 with ⟨hall, _⟩ | ⟨j, hr, hj, hj'⟩
  · obtain ⟨v, hv, hv0⟩ := hne
    exact absurd (hall v hv) hv0
  · rw [Nat.zero_add] at hr
    rw [hr]
    simp only [hOf_eq]
    exact ⟨hj, hj'⟩

/-! ## bounds on the class sums -/

theorem nB_zero' (hist : List Nat) (hn : 0 < hist.length) : nBOf hist 0 = hOf hist 0 := by
  rw [nBOf_eq, hOf_eq, cumsum_getD_zero _ _ hn, Nat.zero_add]

theorem h_le_nB (hist : List Nat) {t : Nat} (ht : t < hist.length) : hOf hist t ≤ nBOf hist t := by
  cases t with
  | zero => rw [nB_zero' hist ht]
  | succ m => rw [nB_succ hist m ht]; omega

/-- no pixel up to level `t` -/
theorem nB_eq_zero (hist : List Nat) {t : Nat} (ht : t < hist.length)
    (H : ∀ i, i ≤ t → hOf hist i = 0) : nBOf hist t = 0 := by
  induction t with
  | zero => rw [nB_zero' hist ht]; exact H 0 (Nat.le_refl 0)
  | succ m ih =>
    rw [nB_succ hist m ht, ih (by omega) (fun i hi => H i (by omega)), H (m + 1) (Nat.le_refl _)]

/-- if every occurring level `≤ t` lies in `[a, b]` then `a·n_B ≤ s_B ≤ b·n_B` -/
theorem head_bounds (hist : List Nat) (a b : Nat) {t : Nat} (ht : t < hist.length)
    (H : ∀ i, i ≤ t → hOf hist i ≠ 0 → a ≤ i ∧ i ≤ b) :
    a * nBOf hist t ≤ sBOf hist t ∧ sBOf hist t ≤ b * nBOf hist t := by
  induction t with
  | zero =>
    rw [sB_zero, nB_zero' hist ht]
    by_cases h0 : hOf hist 0 = 0
    · rw [h0]; simp
    · have := (H 0 (Nat.le_refl 0) h0).1
      have : a = 0 := by omega
      subst this; simp
  | succ m ih =>
    obtain ⟨i1, i2⟩ := ih (by omega) (fun i hi => H i (by omega))
    rw [nB_succ hist m ht, sB_succ hist m ht, Nat.mul_add, Nat.mul_add]
    by_cases h0 : hOf hist (m + 1) = 0
    · rw [h0]; simp only [Nat.mul_zero, Nat.add_zero]; exact ⟨i1, i2⟩
    · obtain ⟨ha, hb⟩ := H (m + 1) (Nat.le_refl _) h0
      have h1 := Nat.mul_le_mul_right (hOf hist (m + 1)) ha
      have h2 := Nat.mul_le_mul_right (hOf hist (m + 1)) hb
      omega

/-- if every occurring level in `(t, t']` lies in `[a, b]` then `a·Δn ≤ Δs ≤ b·Δn` -/
theorem tail_bounds (hist : List Nat) (a b : Nat) {t t' : Nat} (htt : t ≤ t') (ht' : t' < hist.length)
    (H : ∀ i, t < i → i ≤ t' → hOf hist i ≠ 0 → a ≤ i ∧ i ≤ b) :
    a * (nBOf hist t' - nBOf hist t) ≤ sBOf hist t' - sBOf hist t ∧
      sBOf hist t' - sBOf hist t ≤ b * (nBOf hist t' - nBOf hist t) := by
  induction t' with
  | zero =>
    have : t = 0 := by omega
    subst this; simp
  | succ m ih =>
    by_cases e : t = m + 1
    · subst e; simp
    · obtain ⟨i1, i2⟩ := ih (by omega) (by omega) (fun i h1 h2 => H i h1 (by omega))
      have m1 := nB_mono hist (show t ≤ m by omega) (by omega)
      have m2 := sB_mono hist (show t ≤ m by omega) (by omega)
      have e1 : nBOf hist (m + 1) - nBOf hist t = (nBOf hist m - nBOf hist t) + hOf hist (m + 1) := by
        rw [nB_succ hist m ht']; omega
      have e2 : sBOf hist (m + 1) - sBOf hist t =
          (sBOf hist m - sBOf hist t) + (m + 1) * hOf hist (m + 1) := by
        rw [sB_succ hist m ht']; omega
      rw [e1, e2, Nat.mul_add, Nat.mul_add]
      by_cases h0 : hOf hist (m + 1) = 0
      · rw [h0]; simp only [Nat.mul_zero, Nat.add_zero]; exact ⟨i1, i2⟩
      · obtain ⟨ha, hb⟩ := H (m + 1) (by omega) (Nat.le_refl _) h0
        have h1 := Nat.mul_le_mul_right (hOf hist (m + 1)) ha
        have h2 := Nat.mul_le_mul_right (hOf hist (m + 1)) hb
        omega

/-! ## the midpoint of the class means -/

/-- midpoint of the two class means for the split `{≤ t} | {> t}` -/
def rcMid (hist : List Nat) (t : Nat) : Rat :=
  midpoint (nBOf hist t) (nOOf hist t) (sBOf hist t) (sBOf hist (hist.length - 1) - sBOf hist t)

section bounds
variable (hist : List Nat) (hne : ∃ v ∈ hist, v ≠ 0)
include hne

theorem hi_lt_length : lastNonzero hist < hist.length :=
  lt_length_of_hOf_ne (lastNonzero_spec hist hne).1

theorem lo_le_hi : loOf hist ≤ lastNonzero hist := by
  by_contra hc
  exact (lastNonzero_spec hist hne).1 ((loOf_spec hist hne).2 _ (by omega))

theorem cB_pos {t : Nat} (h1 : loOf hist ≤ t) (h2 : t < hist.length) : 0 < nBOf hist t := by
  have a1 := (loOf_spec hist hne).1
  have a2 := h_le_nB hist (lt_length_of_hOf_ne a1)
  have a3 := nB_mono hist h1 h2
  omega

theorem cO_pos {t : Nat} (h1 : t < lastNonzero hist) : 0 < nOOf hist t := by
  have hn := hi_lt_length hist hne
  have a1 := (lastNonzero_spec hist hne).1
  obtain ⟨u, hu⟩ : ∃ u, lastNonzero hist = u + 1 := ⟨lastNonzero hist - 1, by omega⟩
  rw [hu] at a1 hn
  have a2 := nB_succ hist u hn
  have a3 := nB_mono hist (show t ≤ u by omega) (by omega)
  have a4 := nB_mono hist (show u + 1 ≤ hist.length - 1 by omega) (by omega)
  unfold nOOf
  omega

theorem class_bounds {t : Nat} (h1 : loOf hist ≤ t) (h2 : t < lastNonzero hist) :
    loOf hist * nBOf hist t ≤ sBOf hist t ∧ sBOf hist t ≤ t * nBOf hist t ∧
      (t + 1) * nOOf hist t ≤ sBOf hist (hist.length - 1) - sBOf hist t ∧
      sBOf hist (hist.length - 1) - sBOf hist t ≤ lastNonzero hist * nOOf hist t := by
  have hn := hi_lt_length hist hne
  obtain ⟨b1, b2⟩ := head_bounds hist (loOf hist) t (show t < hist.length by omega)
    (fun i hi h0 => ⟨by
      by_contra hc
      exact h0 ((loOf_spec hist hne).2 i (by omega)), hi⟩)
  obtain ⟨b3, b4⟩ := tail_bounds hist (t + 1) (lastNonzero hist)
    (show t ≤ hist.length - 1 by omega) (by omega)
    (fun i hi _ h0 => ⟨hi, by
      by_contra hc
      exact h0 ((lastNonzero_spec hist hne).2 i (by omega))⟩)
  exact ⟨b1, b2, b3, b4⟩

theorem rcMid_bounds {t : Nat} (h1 : loOf hist ≤ t) (h2 : t < lastNonzero hist) :
    ((loOf hist : ℚ) + (t : ℚ) + 1) / 2 ≤ rcMid hist t ∧
      rcMid hist t ≤ ((t : ℚ) + (lastNonzero hist : ℚ)) / 2 := by
  have hn := hi_lt_length hist hne
  obtain ⟨b1, b2, b3, b4⟩ := class_bounds hist hne h1 h2
  have pB : (0 : ℚ) < (nBOf hist t : ℚ) := by exact_mod_cast cB_pos hist hne h1 (by omega)
  have pO : (0 : ℚ) < (nOOf hist t : ℚ) := by exact_mod_cast cO_pos hist hne h2
  unfold rcMid midpoint
  have q1 : (loOf hist : ℚ) ≤ (sBOf hist t : ℚ) / (nBOf hist t : ℚ) := by
    rw [le_div_iff₀ pB]; exact_mod_cast b1
  have q2 : (sBOf hist t : ℚ) / (nBOf hist t : ℚ) ≤ (t : ℚ) := by
    rw [div_le_iff₀ pB]; exact_mod_cast b2
  have q3 : (t : ℚ) + 1 ≤
      ((sBOf hist (hist.length - 1) - sBOf hist t : ℕ) : ℚ) / (nOOf hist t : ℚ) := by
    rw [le_div_iff₀ pO]; exact_mod_cast b3
  have q4 : ((sBOf hist (hist.length - 1) - sBOf hist t : ℕ) : ℚ) / (nOOf hist t : ℚ) ≤
      (lastNonzero hist : ℚ) := by
    rw [div_le_iff₀ pO]; exact_mod_cast b4
  constructor <;> linarith

end bounds

/-! ## the loop -/

/-- `rcum` of `rcGen`: `Σ_{j ≥ i} hist[j]` -/
def rcumOf (hist : List Nat) (i : Nat) : Nat :=
  nBOf hist (hist.length - 1) - (if i = 0 then 0 else nBOf hist (i - 1))
/-- `rfm` of `rcGen`: `Σ_{j ≥ i} j·hist[j]` -/
def rfmOf (hist : List Nat) (i : Nat) : Nat :=
  sBOf hist (hist.length - 1) - (if i = 0 then 0 else sBOf hist (i - 1))

/-- `rcGen` at the rationals, with the quantities named -/
theorem rcGen_eq (hist : List Nat) : rcGen ratCast hist =
    rcLoop ratCast (nBOf hist) (rcumOf hist) (sBOf hist) (rfmOf hist) (lastNonzero hist)
      (List.range hist.length) (ratCast (lastNonzero hist)) := rfl

theorem rcumOf_succ (hist : List Nat) (t : Nat) : rcumOf hist (t + 1) = nOOf hist t := by
  simp [rcumOf, nOOf]

theorem rfmOf_succ (hist : List Nat) (t : Nat) :
    rfmOf hist (t + 1) = sBOf hist (hist.length - 1) - sBOf hist t := by
  simp [rfmOf]

section loop
variable (cum rcum fm rfm : Nat → Nat) (maxt t : Nat) (rest : List Nat) (res : Rat)

theorem rcLoop_nil : rcLoop ratCast cum rcum fm rfm maxt [] res = res := by
  simp only [rcLoop]

theorem rcLoop_cons :
    rcLoop ratCast cum rcum fm rfm maxt (t :: rest) res =
      if t < maxt ∧ (t : ℚ) < res then
        rcLoop ratCast cum rcum fm rfm maxt rest
          (if cum t ≠ 0 ∧ rcum (t + 1) ≠ 0 then
            ((fm t : ℚ) / (cum t : ℚ) + (rfm (t + 1) : ℚ) / (rcum (t + 1) : ℚ)) / ((2 : ℕ) : ℚ)
          else res)
      else res := by
  simp only [rcLoop, ratCast]
  rfl

end loop

/-- the value assigned in the loop body is the midpoint of the class means -/
theorem rc_step_val (hist : List Nat) (t : Nat) (res : ℚ) (h1 : nBOf hist t ≠ 0)
    (h2 : nOOf hist t ≠ 0) :
    (if nBOf hist t ≠ 0 ∧ rcumOf hist (t + 1) ≠ 0 then
        ((sBOf hist t : ℚ) / (nBOf hist t : ℚ) +
          (rfmOf hist (t + 1) : ℚ) / (rcumOf hist (t + 1) : ℚ)) / ((2 : ℕ) : ℚ)
      else res) = rcMid hist t := by
  rw [rcumOf_succ, rfmOf_succ, if_pos ⟨h1, h2⟩]
  unfold rcMid midpoint
  rw [Nat.cast_ofNat]

/-- the statement: a single level gives that level; otherwise the midpoint at the first split
    `ts ∈ [lo, hi)` whose midpoint does not exceed `ts + 1` -/
def RcResult (hist : List Nat) (r : ℚ) : Prop :=
  (loOf hist = lastNonzero hist → r = (lastNonzero hist : ℚ)) ∧
  (loOf hist < lastNonzero hist → ∃ ts, loOf hist ≤ ts ∧ ts < lastNonzero hist ∧
    r = rcMid hist ts ∧ rcMid hist ts ≤ (ts : ℚ) + 1 ∧
    ∀ t, loOf hist ≤ t → t < ts → (t : ℚ) + 1 < rcMid hist t)

theorem rcLoop_spec (hist : List Nat) (hne : ∃ v ∈ hist, v ≠ 0) (k : Nat) :
    ∀ (t : Nat) (res : ℚ), t + k = hist.length →
      ((t ≤ loOf hist ∧ res = (lastNonzero hist : ℚ)) ∨
        (loOf hist < t ∧ t ≤ lastNonzero hist ∧ res = rcMid hist (t - 1) ∧
          ∀ s, loOf hist ≤ s → s + 1 < t → (s : ℚ) + 1 < rcMid hist s)) →
      RcResult hist (rcLoop ratCast (nBOf hist) (rcumOf hist) (sBOf hist) (rfmOf hist)
        (lastNonzero hist) (List.range' t k) res) := by
  have hlh := lo_le_hi hist hne
  have hhn := hi_lt_length hist hne
  induction k with
  | zero =>
    intro t res htk hinv
    exfalso
    rcases hinv with ⟨h, _⟩ | ⟨_, h, _⟩ <;> omega
  | succ k ih =>
    intro t res htk hinv
    rw [List.range'_succ, rcLoop_cons]
    rcases hinv with ⟨htlo, hres⟩ | ⟨hlot, hthi, hres, hprev⟩
    · subst hres
      by_cases hlt : t < loOf hist
      · -- below the first occurring level: nothing changes
        have c1 : t < lastNonzero hist ∧ (t : ℚ) < (lastNonzero hist : ℚ) :=
          ⟨by omega, by exact_mod_cast (show t < lastNonzero hist by omega)⟩
        have c0 : nBOf hist t = 0 :=
          nB_eq_zero hist (by omega) (fun i hi => (loOf_spec hist hne).2 i (by omega))
        rw [if_pos c1, if_neg (fun h => h.1 c0)]
        exact ih (t + 1) _ (by omega) (Or.inl ⟨by omega, rfl⟩)
      · have htl : t = loOf hist := by omega
        by_cases hsingle : loOf hist = lastNonzero hist
        · -- a single level
          rw [if_neg (fun h => by omega)]
          exact ⟨fun _ => rfl, fun h => by omega⟩
        · have c1 : t < lastNonzero hist ∧ (t : ℚ) < (lastNonzero hist : ℚ) :=
            ⟨by omega, by exact_mod_cast (show t < lastNonzero hist by omega)⟩
          have p1 := cB_pos hist hne (show loOf hist ≤ t by omega) (by omega)
          have p2 := cO_pos hist hne c1.1
          rw [if_pos c1, rc_step_val hist t _ (by omega) (by omega)]
          refine ih (t + 1) _ (by omega) (Or.inr ⟨by omega, by omega, ?_, fun s h1 h2 => by omega⟩)
          rw [Nat.add_sub_cancel]
    · obtain ⟨u, rfl⟩ : ∃ u, t = u + 1 := ⟨t - 1, by omega⟩
      rw [Nat.add_sub_cancel] at hres
      subst hres
      have hcast : ((u + 1 : ℕ) : ℚ) = (u : ℚ) + 1 := by push_cast; ring
      by_cases hc : u + 1 < lastNonzero hist ∧ ((u + 1 : ℕ) : ℚ) < rcMid hist u
      · -- the midpoint still exceeds `t`: go on
        have p1 := cB_pos hist hne (show loOf hist ≤ u + 1 by omega) (by omega)
        have p2 := cO_pos hist hne hc.1
        rw [if_pos hc, rc_step_val hist (u + 1) _ (by omega) (by omega)]
        refine ih (u + 1 + 1) _ (by omega) (Or.inr ⟨by omega, by omega, ?_, ?_⟩)
        · rw [Nat.add_sub_cancel]
        · intro s h1 h2
          by_cases e : s = u
          · subst e
            rw [← hcast]; exact hc.2
          · exact hprev s h1 (by omega)
      · -- stop: `ts = u`
        rw [if_neg hc]
        refine ⟨fun h => by omega, fun _ => ⟨u, by omega, by omega, rfl, ?_, ?_⟩⟩
        · by_cases h1 : u + 1 < lastNonzero hist
          · have : ¬ ((u + 1 : ℕ) : ℚ) < rcMid hist u := fun h => hc ⟨h1, h⟩
            rw [← hcast]; exact not_lt.1 this
          · have e : lastNonzero hist = u + 1 := by omega
            have := (rcMid_bounds hist hne (show loOf hist ≤ u by omega) (by omega)).2
            rw [e, hcast] at this
            linarith
        · intro s h1 h2
          exact hprev s h1 (by omega)

/-- **Riddler–Calvard at the rationals follows the stopping rule of the statement.** -/
theorem rcGen_spec (hist : List Nat) (hne : ∃ v ∈ hist, v ≠ 0) :
    RcResult hist (rcGen ratCast hist) := by
  rw [rcGen_eq, List.range_eq_range']
  exact rcLoop_spec hist hne hist.length 0 _ (by omega) (Or.inl ⟨Nat.zero_le _, rfl⟩)

/-- the result lies between the smallest and the largest occurring level -/
theorem RcResult.between {hist : List Nat} (hne : ∃ v ∈ hist, v ≠ 0) {r : ℚ}
    (h : RcResult hist r) : (loOf hist : ℚ) ≤ r ∧ r ≤ (lastNonzero hist : ℚ) := by
  have hlh := lo_le_hi hist hne
  by_cases e : loOf hist = lastNonzero hist
  · rw [h.1 e, e]; exact ⟨le_refl _, le_refl _⟩
  · obtain ⟨ts, h1, h2, hr, _, _⟩ := h.2 (by omega)
    obtain ⟨b1, b2⟩ := rcMid_bounds hist hne h1 h2
    have c1 : (loOf hist : ℚ) ≤ (ts : ℚ) := by exact_mod_cast h1
    have c2 : (ts : ℚ) ≤ (lastNonzero hist : ℚ) := by exact_mod_cast (show ts ≤ lastNonzero hist by omega)
    rw [hr]
    constructor <;> linarith

/-- the main theorem, spelled out -/
theorem rcGen_main (hist : List Nat) (hne : ∃ v ∈ hist, v ≠ 0) :
    let r := rcGen ratCast hist
    let lo := loOf hist
    let hi := lastNonzero hist
    (lo = hi → r = (hi : Rat)) ∧
    (lo < hi → ∃ ts, lo ≤ ts ∧ ts < hi ∧ r = rcMid hist ts ∧ rcMid hist ts ≤ (ts : Rat) + 1 ∧
      ∀ t, lo ≤ t → t < ts → (t : Rat) + 1 < rcMid hist t) ∧
    ((lo : Rat) ≤ r ∧ r ≤ (hi : Rat)) := by
  intro r lo hi
  have h := rcGen_spec hist hne
  exact ⟨h.1, h.2, h.between hne⟩


/-! ## the harness oracle `rcSpec` agrees with the exact model -/

theorem rcSpec_eq (hist : List Nat) : rcSpec hist =
    if nBOf hist (hist.length - 1) = 0 then (0, 1, 0, 0) else
    if loOf hist = lastNonzero hist then ((loOf hist : ℚ), 1, loOf hist, lastNonzero hist) else
      ((rcSpec.go (cumsum hist 0).toArray (cumsum (weighted hist) 0).toArray
          (nBOf hist (hist.length - 1)) (sBOf hist (hist.length - 1))
          (List.range' (loOf hist) (lastNonzero hist - loOf hist))
          ((lastNonzero hist + 1 : ℕ) : ℚ) 0).1,
       (rcSpec.go (cumsum hist 0).toArray (cumsum (weighted hist) 0).toArray
          (nBOf hist (hist.length - 1)) (sBOf hist (hist.length - 1))
          (List.range' (loOf hist) (lastNonzero hist - loOf hist))
          ((lastNonzero hist + 1 : ℕ) : ℚ) 0).2, loOf hist, lastNonzero hist) := rfl

theorem go_cons_pos (hist : List Nat) (t : Nat) (rest : List Nat) (margin last : ℚ)
    (h : rcMid hist t ≤ (t : ℚ) + 1) :
    (rcSpec.go (cumsum hist 0).toArray (cumsum (weighted hist) 0).toArray
      (nBOf hist (hist.length - 1)) (sBOf hist (hist.length - 1)) (t :: rest) margin last).1 =
      rcMid hist t := by
  rw [rcSpec.go]
  have : midpoint ((cumsum hist 0).toArray.getD t 0)
      (nBOf hist (hist.length - 1) - (cumsum hist 0).toArray.getD t 0)
      ((cumsum (weighted hist) 0).toArray.getD t 0)
      (sBOf hist (hist.length - 1) - (cumsum (weighted hist) 0).toArray.getD t 0) = rcMid hist t := rfl
  rw [this, if_pos h]

theorem go_cons_neg (hist : List Nat) (t : Nat) (rest : List Nat) (margin last : ℚ)
    (h : ¬ rcMid hist t ≤ (t : ℚ) + 1) :
    ∃ margin', rcSpec.go (cumsum hist 0).toArray (cumsum (weighted hist) 0).toArray
      (nBOf hist (hist.length - 1)) (sBOf hist (hist.length - 1)) (t :: rest) margin last =
      rcSpec.go (cumsum hist 0).toArray (cumsum (weighted hist) 0).toArray
      (nBOf hist (hist.length - 1)) (sBOf hist (hist.length - 1)) rest margin' (rcMid hist t) := by
  rw [rcSpec.go]
  have : midpoint ((cumsum hist 0).toArray.getD t 0)
      (nBOf hist (hist.length - 1) - (cumsum hist 0).toArray.getD t 0)
      ((cumsum (weighted hist) 0).toArray.getD t 0)
      (sBOf hist (hist.length - 1) - (cumsum (weighted hist) 0).toArray.getD t 0) = rcMid hist t := rfl
  rw [this, if_neg h]
  exact ⟨_, rfl⟩

theorem go_fst (hist : List Nat) (k : Nat) :
    ∀ (a : Nat) (margin last : ℚ) (ts : Nat), a ≤ ts → ts < a + k →
      (∀ t, a ≤ t → t < ts → (t : ℚ) + 1 < rcMid hist t) → rcMid hist ts ≤ (ts : ℚ) + 1 →
      (rcSpec.go (cumsum hist 0).toArray (cumsum (weighted hist) 0).toArray
        (nBOf hist (hist.length - 1)) (sBOf hist (hist.length - 1))
        (List.range' a k) margin last).1 = rcMid hist ts := by
  induction k with
  | zero => intro a margin last ts h1 h2; omega
  | succ k ih =>
    intro a margin last ts h1 h2 hprev hts
    rw [List.range'_succ]
    by_cases e : a = ts
    · subst e
      exact go_cons_pos hist a _ margin last hts
    · obtain ⟨margin', hm⟩ := go_cons_neg hist a (List.range' (a + 1) k) margin last
        (not_le.2 (hprev a (Nat.le_refl a) (by omega)))
      rw [hm]
      exact ih (a + 1) margin' _ ts (by omega) (by omega) (fun t h3 h4 => hprev t (by omega) h4) hts

/-- the oracle's bounds are `lo`, `hi` -/
theorem rcSpec_lohi (hist : List Nat) (hne : ∃ v ∈ hist, v ≠ 0) :
    (rcSpec hist).2.2 = (loOf hist, lastNonzero hist) := by
  have hn := hi_lt_length hist hne
  have hp := cB_pos hist hne (show loOf hist ≤ hist.length - 1 by
    have := lo_le_hi hist hne; omega) (by omega)
  rw [rcSpec_eq, if_neg (by omega)]
  split_ifs <;> rfl

/-- the harness oracle `rcSpec` equals the exact model -/
theorem rcSpec_fst (hist : List Nat) (hne : ∃ v ∈ hist, v ≠ 0) :
    (rcSpec hist).1 = rcGen ratCast hist := by
  have hn := hi_lt_length hist hne
  have hlh := lo_le_hi hist hne
  have hp := cB_pos hist hne (show loOf hist ≤ hist.length - 1 by omega) (by omega)
  obtain ⟨r1, r2⟩ := rcGen_spec hist hne
  rw [rcSpec_eq, if_neg (by omega)]
  by_cases e : loOf hist = lastNonzero hist
  · rw [if_pos e, r1 e, e]
  · rw [if_neg e]
    obtain ⟨ts, h1, h2, hr, hle, hprev⟩ := r2 (by omega)
    rw [hr]
    exact go_fst hist _ (loOf hist) _ _ ts h1 (by omega) hprev hle
end Mahotas.C16
