/-
C16 — Riddler–Calvard in rounded arithmetic.

`rcLoop`/`rcGen` instantiated with the rounded-rational arithmetic `Rd rnd` of `Proofs/C16Round.lean`
(any `Rounding`, binary64 in particular).  Each midpoint is computed afresh from exact integer sums by
four operations, so its relative error is at most `4u` (`u = 2^-53`); the loop follows the stopping rule
on the ROUNDED midpoints; when every exact comparison `m(t) ≤ t+1` up to the exact stopping level has
a margin above `4u·m(t)` the rounded loop stops at the same level and returns the exact value up to `4u`
relative.
-/
import Mahotas.Proofs.C16Round
namespace Mahotas.C16
open Mahotas Mahotas.C05

theorem rcGen_eq_gen {α : Type} [Add α] [Sub α] [Mul α] [Div α] [LT α] [DecidableLT α]
    (cast : Nat → α) (hist : List Nat) : rcGen cast hist =
    rcLoop cast (nBOf hist) (rcumOf hist) (sBOf hist) (rfmOf hist) (lastNonzero hist)
      (List.range hist.length) (cast (lastNonzero hist)) := rfl

/-- the midpoint as the loop body computes it in rounded arithmetic (counts exact) -/
def rcMidR (rnd : ℚ → ℚ) (hist : List Nat) (t : Nat) : ℚ :=
  rnd (rnd (rnd ((sBOf hist t : ℚ) / (nBOf hist t : ℚ)) +
    rnd (((sBOf hist (hist.length - 1) - sBOf hist t : ℕ) : ℚ) / (nOOf hist t : ℚ))) / 2)

section
variable {rnd : ℚ → ℚ}

/-- the value of `res` after the loop body at `t`, in rounded arithmetic -/
def rcNextR (rnd : ℚ → ℚ) (cum rcum fm rfm : Nat → Nat) (t : Nat) (res : ℚ) : ℚ :=
  if cum t ≠ 0 ∧ rcum (t + 1) ≠ 0 then
    rnd (rnd (rnd (rnd (fm t : ℚ) / rnd (cum t : ℚ)) +
      rnd (rnd (rfm (t + 1) : ℚ) / rnd (rcum (t + 1) : ℚ))) / rnd ((2 : ℕ) : ℚ))
  else res

theorem rcLoop_rd_cons_pos (cum rcum fm rfm : Nat → Nat) (maxt t : Nat) (rest : List Nat) (res : ℚ)
    (hT : rnd (t : ℚ) = (t : ℚ)) (h : t < maxt ∧ (t : ℚ) < res) :
    rcLoop (α := Rd rnd) (rdCast rnd) cum rcum fm rfm maxt (t :: rest) res =
      rcLoop (α := Rd rnd) (rdCast rnd) cum rcum fm rfm maxt rest (rcNextR rnd cum rcum fm rfm t res) := by
  have h' : t < maxt ∧ (rdCast rnd t : Rd rnd) < (res : Rd rnd) := by
    refine ⟨h.1, ?_⟩
    show rnd (t : ℚ) < res
    rw [hT]; exact h.2
  simp only [rcLoop]
  refine (if_pos h').trans ?_
  rfl

theorem rcLoop_rd_cons_neg (cum rcum fm rfm : Nat → Nat) (maxt t : Nat) (rest : List Nat) (res : ℚ)
    (hT : rnd (t : ℚ) = (t : ℚ)) (h : ¬ (t < maxt ∧ (t : ℚ) < res)) :
    rcLoop (α := Rd rnd) (rdCast rnd) cum rcum fm rfm maxt (t :: rest) res = res := by
  have h' : ¬ (t < maxt ∧ (rdCast rnd t : Rd rnd) < (res : Rd rnd)) := by
    intro hc
    apply h
    refine ⟨hc.1, ?_⟩
    have : rnd (t : ℚ) < res := hc.2
    rwa [hT] at this
  simp only [rcLoop]
  exact if_neg h'

/-- **relative error of one midpoint: at most `4u`** -/
theorem rcMidR_err (hr : Rounding rnd) (hist : List Nat) (t : Nat) :
    |rcMidR rnd hist t - rcMid hist t| ≤ 4 * u53 * rcMid hist t := by
  have hu := u53_pos
  have hu1 : u53 ≤ 1 / 16 := by unfold u53; norm_num
  unfold rcMidR rcMid midpoint
  set x := (sBOf hist t : ℚ) / (nBOf hist t : ℚ) with hx
  set y := ((sBOf hist (hist.length - 1) - sBOf hist t : ℕ) : ℚ) / (nOOf hist t : ℚ) with hy
  have hx0 : 0 ≤ x := by rw [hx]; positivity
  have hy0 : 0 ≤ y := by rw [hy]; positivity
  have e1 := rnd_rel' hr x
  have e2 := rnd_rel' hr y
  rw [abs_of_nonneg hx0] at e1
  rw [abs_of_nonneg hy0] at e2
  have e3 : |rnd x + rnd y - (x + y)| ≤ u53 * (x + y) := by
    have : rnd x + rnd y - (x + y) = (rnd x - x) + (rnd y - y) := by ring
    rw [this]
    refine le_trans (abs_add_le _ _) ?_
    linarith
  have e4 := rnd_err hr (rnd x + rnd y) (x + y) _ e3
  rw [abs_of_nonneg (by positivity : 0 ≤ x + y)] at e4
  have e5 : |rnd (rnd x + rnd y) / 2 - (x + y) / 2| ≤ ((1 + u53) * (u53 * (x + y)) + u53 * (x + y)) / 2 := by
    rw [← sub_div, abs_div, abs_of_pos (by norm_num : (0 : ℚ) < 2)]
    exact div_le_div_of_nonneg_right e4 (by norm_num)
  have e6 := rnd_err hr (rnd (rnd x + rnd y) / 2) ((x + y) / 2) _ e5
  rw [abs_of_nonneg (by positivity : 0 ≤ (x + y) / 2)] at e6
  refine le_trans e6 ?_
  have hxy : 0 ≤ x + y := by positivity
  nlinarith [mul_nonneg hu.le hxy, mul_nonneg (mul_nonneg hu.le hu.le) hxy,
    mul_nonneg (mul_nonneg (mul_nonneg hu.le hu.le) hu.le) hxy]

/-- the stopping rule, on the rounded midpoints -/
def RcResultR (rnd : ℚ → ℚ) (hist : List Nat) (r : ℚ) : Prop :=
  (loOf hist = lastNonzero hist → r = (lastNonzero hist : ℚ)) ∧
  (loOf hist < lastNonzero hist → ∃ ts, loOf hist ≤ ts ∧ ts < lastNonzero hist ∧
    r = rcMidR rnd hist ts ∧ (rcMidR rnd hist ts ≤ (ts : ℚ) + 1 ∨ ts + 1 = lastNonzero hist) ∧
    ∀ t, loOf hist ≤ t → t < ts → (t : ℚ) + 1 < rcMidR rnd hist t)

theorem rcLoopR_spec (hr : Rounding rnd) (hist : List Nat) (hne : ∃ v ∈ hist, v ≠ 0)
    (hlen : hist.length ≤ 2 ^ 53) (hN : nBOf hist (hist.length - 1) ≤ 2 ^ 53)
    (hF : sBOf hist (hist.length - 1) ≤ 2 ^ 53) (k : Nat) :
    ∀ (t : Nat) (res : ℚ), t + k = hist.length →
      ((t ≤ loOf hist ∧ res = (lastNonzero hist : ℚ)) ∨
        (loOf hist < t ∧ t ≤ lastNonzero hist ∧ res = rcMidR rnd hist (t - 1) ∧
          ∀ s, loOf hist ≤ s → s + 1 < t → (s : ℚ) + 1 < rcMidR rnd hist s)) →
      RcResultR rnd hist (rcLoop (α := Rd rnd) (rdCast rnd) (nBOf hist) (rcumOf hist) (sBOf hist)
        (rfmOf hist) (lastNonzero hist) (List.range' t k) res) := by
  have hlh := lo_le_hi hist hne
  have hhn := hi_lt_length hist hne
  -- every count converted is exact
  have cT : ∀ t, t < hist.length → rnd ((t : ℕ) : ℚ) = (t : ℚ) := fun t ht =>
    rnd_nat hr t (by omega)
  have cB : ∀ t, t < hist.length → rnd ((nBOf hist t : ℕ) : ℚ) = (nBOf hist t : ℚ) := fun t ht =>
    rnd_nat hr _ (le_trans (nB_mono hist (by omega) (by omega)) hN)
  have cS : ∀ t, t < hist.length → rnd ((sBOf hist t : ℕ) : ℚ) = (sBOf hist t : ℚ) := fun t ht =>
    rnd_nat hr _ (le_trans (sB_mono hist (by omega) (by omega)) hF)
  have cO : ∀ t, rnd ((rcumOf hist (t + 1) : ℕ) : ℚ) = (nOOf hist t : ℚ) := fun t => by
    rw [rcumOf_succ]; exact rnd_nat hr _ (by unfold nOOf; omega)
  have cR : ∀ t, rnd ((rfmOf hist (t + 1) : ℕ) : ℚ) =
      ((sBOf hist (hist.length - 1) - sBOf hist t : ℕ) : ℚ) := fun t => by
    rw [rfmOf_succ]; exact rnd_nat hr _ (by omega)
  have c2 : rnd ((2 : ℕ) : ℚ) = 2 := by
    have := rnd_nat hr 2 (by norm_num); simpa using this
  -- the value assigned in the loop body
  have hval : ∀ t (res : ℚ), t < hist.length → nBOf hist t ≠ 0 → nOOf hist t ≠ 0 →
      rcNextR rnd (nBOf hist) (rcumOf hist) (sBOf hist) (rfmOf hist) t res = rcMidR rnd hist t := by
    intro t res ht h1 h2
    unfold rcNextR
    rw [if_pos ⟨h1, by rw [rcumOf_succ]; exact h2⟩, cS t ht, cB t ht, cO t, cR t, c2]
    rfl
  have hval0 : ∀ t (res : ℚ), nBOf hist t = 0 →
      rcNextR rnd (nBOf hist) (rcumOf hist) (sBOf hist) (rfmOf hist) t res = res := by
    intro t res h0
    unfold rcNextR
    rw [if_neg (fun h => h.1 h0)]
  induction k with
  | zero =>
    intro t res htk hinv
    exfalso
    rcases hinv with ⟨h, _⟩ | ⟨_, h, _⟩ <;> omega
  | succ k ih =>
    intro t res htk hinv
    have htn : t < hist.length := by omega
    rw [List.range'_succ]
    rcases hinv with ⟨htlo, hres⟩ | ⟨hlot, hthi, hres, hprev⟩
    · subst hres
      by_cases hlt : t < loOf hist
      · have c1 : t < lastNonzero hist ∧ (t : ℚ) < (lastNonzero hist : ℚ) :=
          ⟨by omega, by exact_mod_cast (show t < lastNonzero hist by omega)⟩
        have c0 : nBOf hist t = 0 :=
          nB_eq_zero hist (by omega) (fun i hi => (loOf_spec hist hne).2 i (by omega))
        rw [rcLoop_rd_cons_pos _ _ _ _ _ _ _ _ (cT t htn) c1, hval0 t _ c0]
        exact ih (t + 1) _ (by omega) (Or.inl ⟨by omega, rfl⟩)
      · have htl : t = loOf hist := by omega
        by_cases hsingle : loOf hist = lastNonzero hist
        · rw [rcLoop_rd_cons_neg _ _ _ _ _ _ _ _ (cT t htn) (fun h => by omega)]
          exact ⟨fun _ => rfl, fun h => by omega⟩
        · have c1 : t < lastNonzero hist ∧ (t : ℚ) < (lastNonzero hist : ℚ) :=
            ⟨by omega, by exact_mod_cast (show t < lastNonzero hist by omega)⟩
          have p1 := cB_pos hist hne (show loOf hist ≤ t by omega) (by omega)
          have p2 := cO_pos hist hne c1.1
          rw [rcLoop_rd_cons_pos _ _ _ _ _ _ _ _ (cT t htn) c1, hval t _ htn (by omega) (by omega)]
          refine ih (t + 1) _ (by omega) (Or.inr ⟨by omega, by omega, ?_, fun s h1 h2 => by omega⟩)
          rw [Nat.add_sub_cancel]
    · obtain ⟨u, rfl⟩ : ∃ u, t = u + 1 := ⟨t - 1, by omega⟩
      rw [Nat.add_sub_cancel] at hres
      subst hres
      have hcast : ((u + 1 : ℕ) : ℚ) = (u : ℚ) + 1 := by push_cast; ring
      by_cases hc : u + 1 < lastNonzero hist ∧ ((u + 1 : ℕ) : ℚ) < rcMidR rnd hist u
      · have p1 := cB_pos hist hne (show loOf hist ≤ u + 1 by omega) (by omega)
        have p2 := cO_pos hist hne hc.1
        rw [rcLoop_rd_cons_pos _ _ _ _ _ _ _ _ (cT (u + 1) htn) hc, hval (u + 1) _ htn (by omega) (by omega)]
        refine ih (u + 1 + 1) _ (by omega) (Or.inr ⟨by omega, by omega, ?_, ?_⟩)
        · rw [Nat.add_sub_cancel]
        · intro s h1 h2
          by_cases e : s = u
          · subst e
            rw [← hcast]; exact hc.2
          · exact hprev s h1 (by omega)
      · rw [rcLoop_rd_cons_neg _ _ _ _ _ _ _ _ (cT (u + 1) htn) hc]
        refine ⟨fun h => by omega, fun _ => ⟨u, by omega, by omega, rfl, ?_, ?_⟩⟩
        · by_cases h1 : u + 1 < lastNonzero hist
          · left
            have : ¬ ((u + 1 : ℕ) : ℚ) < rcMidR rnd hist u := fun h => hc ⟨h1, h⟩
            rw [← hcast]; exact not_lt.1 this
          · right; omega
        · intro s h1 h2
          exact hprev s h1 (by omega)

/-- **rc in rounded arithmetic follows the stopping rule on the rounded midpoints** -/
theorem rcGenR_spec (hr : Rounding rnd) (hist : List Nat) (hne : ∃ v ∈ hist, v ≠ 0)
    (hlen : hist.length ≤ 2 ^ 53) (hN : nBOf hist (hist.length - 1) ≤ 2 ^ 53)
    (hF : sBOf hist (hist.length - 1) ≤ 2 ^ 53) :
    RcResultR rnd hist (rcGen (α := Rd rnd) (rdCast rnd) hist) := by
  rw [rcGen_eq_gen, List.range_eq_range']
  have hhn := hi_lt_length hist hne
  have : (rdCast rnd (lastNonzero hist) : Rd rnd) = ((lastNonzero hist : ℚ) : ℚ) :=
    rnd_nat hr _ (by omega)
  rw [this]
  exact rcLoopR_spec hr hist hne hlen hN hF hist.length 0 _ (by omega) (Or.inl ⟨Nat.zero_le _, rfl⟩)

/-- **rc: same stopping level, value within `4u` relative**, when the exact comparisons have a margin.
    If every exact comparison `m(t) ≤ t + 1` made up to the exact stopping level `ts` (inclusive) is
    decided with a margin above `4u·m(t)`, the rounded loop stops at the same level and
    `|r̂ − r| ≤ 4u·r`. -/
theorem rcGenR_close (hr : Rounding rnd) (hist : List Nat) (hne : ∃ v ∈ hist, v ≠ 0)
    (hlen : hist.length ≤ 2 ^ 53) (hN : nBOf hist (hist.length - 1) ≤ 2 ^ 53)
    (hF : sBOf hist (hist.length - 1) ≤ 2 ^ 53)
    (hmargin : ∀ t, loOf hist ≤ t → t < lastNonzero hist →
      (∀ s, loOf hist ≤ s → s < t → (s : ℚ) + 1 < rcMid hist s) →
      4 * u53 * rcMid hist t < |rcMid hist t - ((t : ℚ) + 1)|) :
    |Rd.val rnd (rcGen (α := Rd rnd) (rdCast rnd) hist) - rcGen ratCast hist| ≤
      4 * u53 * rcGen ratCast hist := by
  have hu := u53_pos
  simp only [Rd.val]
  have hR := rcGenR_spec hr hist hne hlen hN hF
  have hE := rcGen_spec hist hne
  have hlh := lo_le_hi hist hne
  by_cases e : loOf hist = lastNonzero hist
  · rw [hR.1 e, hE.1 e]; simp; positivity
  · obtain ⟨ts, a1, a2, a3, a4, a5⟩ := hE.2 (by omega)
    obtain ⟨tr, b1, b2, b3, b4, b5⟩ := hR.2 (by omega)
    -- decisions agree below `ts`, and at `ts`
    have hgo : ∀ t, loOf hist ≤ t → t < ts → (t : ℚ) + 1 < rcMidR rnd hist t := by
      intro t h1 h2
      have hm := hmargin t h1 (by omega) (fun s hs1 hs2 => a5 s hs1 (by omega))
      have he := abs_le.1 (rcMidR_err hr hist t)
      have := a5 t h1 h2
      rw [abs_of_pos (by linarith)] at hm
      linarith
    have hstop : rcMidR rnd hist ts ≤ (ts : ℚ) + 1 := by
      have hm := hmargin ts a1 a2 a5
      have he := abs_le.1 (rcMidR_err hr hist ts)
      rw [abs_of_nonpos (by linarith)] at hm
      linarith
    have hts : tr = ts := by
      rcases Nat.lt_trichotomy tr ts with h | h | h
      · exfalso
        rcases b4 with b4 | b4
        · have := hgo tr b1 h; linarith
        · omega
      · exact h
      · exfalso
        have := b5 ts a1 h; linarith
    rw [b3, a3, hts]
    exact rcMidR_err hr hist ts

end
end Mahotas.C16
