/-
C16 — Otsu in rounded arithmetic.

`otsuLoop`/`otsuGen` are generic in the arithmetic.  Here they are instantiated with the
rounded-rational arithmetic `a ⊕ b = rnd (a + b)` … for any `rnd` satisfying the `Rounding`
interface of `Proofs/C05Abscissa.lean` (binary64 round-to-nearest `rne53` in particular), and the
values `σ̂(T)` computed by the loop are compared with the exact between-class variance `σ(T)`.

1. `otsuLoop = otsuPick ∘ otsuTrace` (every instance): the loop is "compute the list of
   `(T, σ̂(T))`, keep the first strict maximum".
2. exact instance: every trace entry is `σ(T)` (`otsuTrace_rat`).
3. rounded instance: every trace entry is within an explicit bound of `σ(T)`.
4. the decision: the returned `T` has `σ(T) ≥ max σ − 2·bound`.
-/
import Mahotas.Proofs.C16Otsu
import Mahotas.Proofs.C16Rc
import Mahotas.Proofs.C16Zeros
import Mahotas.Proofs.C05Abscissa
namespace Mahotas.C16
open Mahotas Mahotas.C05

/-! ## 1. the loop as trace + pick (every arithmetic instance) -/

section generic
variable {α : Type} [Add α] [Sub α] [Mul α] [Div α] [LT α] [DecidableLT α]

/-- the pairs `(T, sigma_between)` the loop of `_histogram.cpp: otsu` computes, in order -/
def otsuTrace (cast : Nat → α) (h nB nO : Nat → Nat) : List Nat → α → α → List (Nat × α)
  | [], _, _ => []
  | T :: rest, muB, muO =>
    if nB T = 0 then otsuTrace cast h nB nO rest muB muO
    else if nO T = 0 then []
    else
      let muB' := (muB * cast (nB (T - 1)) + cast (T * h T)) / cast (nB T)
      let muO' := (muO * cast (nO (T - 1)) - cast (T * h T)) / cast (nO T)
      let s := cast (nB T) * cast (nO T) * (muB' - muO') * (muB' - muO')
      (T, s) :: otsuTrace cast h nB nO rest muB' muO'

/-- `if (sigma_between > best) { best = sigma_between; bestT = T; }` over a list of candidates -/
def otsuPick : List (Nat × α) → α → Nat → Nat
  | [], _, bestT => bestT
  | (T, s) :: rest, best, bestT =>
    if best < s then otsuPick rest s T else otsuPick rest best bestT

theorem otsuLoop_eq_pick (cast : Nat → α) (h nB nO : Nat → Nat) (Ts : List Nat) :
    ∀ (muB muO best : α) (bestT : Nat),
      otsuLoop cast h nB nO Ts muB muO best bestT =
        otsuPick (otsuTrace cast h nB nO Ts muB muO) best bestT := by
  induction Ts with
  | nil => intro muB muO best bestT; simp only [otsuLoop, otsuTrace, otsuPick]
  | cons T rest ih =>
    intro muB muO best bestT
    by_cases h1 : nB T = 0
    · simp only [otsuLoop, otsuTrace, if_pos h1]; exact ih _ _ _ _
    · by_cases h2 : nO T = 0
      · simp only [otsuLoop, otsuTrace, if_neg h1, if_pos h2, otsuPick]
      · simp only [otsuLoop, otsuTrace, if_neg h1, if_neg h2, otsuPick]
        split_ifs
        · exact ih _ _ _ _
        · exact ih _ _ _ _

omit [Add α] [Sub α] [Mul α] [Div α] in
/-- what `otsuPick` returns: with `v` the final value of `best`, `v` dominates the initial `best`
    and every candidate, and the answer is either the initial `bestT` (then `v` is the initial
    `best`) or a candidate whose value is `v`.  `val` reads an element of the arithmetic as a
    rational; only `a < b ↔ val a < val b` is used. -/
theorem otsuPick_spec (val : α → ℚ) (hlt : ∀ a b : α, a < b ↔ val a < val b) (l : List (Nat × α)) :
    ∀ (best : α) (bestT : Nat), ∃ v : ℚ, val best ≤ v ∧ (∀ p ∈ l, val p.2 ≤ v) ∧
      ((otsuPick l best bestT = bestT ∧ v = val best) ∨
        ∃ s, (otsuPick l best bestT, s) ∈ l ∧ v = val s) := by
  induction l with
  | nil => intro best bestT; exact ⟨val best, le_refl _, by simp, Or.inl ⟨rfl, rfl⟩⟩
  | cons p rest ih =>
    intro best bestT
    obtain ⟨T, s⟩ := p
    by_cases hb : best < s
    · simp only [otsuPick, if_pos hb]
      obtain ⟨v, h1, h2, h3⟩ := ih s T
      have hb' := (hlt _ _).1 hb
      refine ⟨v, by linarith, ?_, ?_⟩
      · intro p hp
        rcases List.mem_cons.1 hp with rfl | hp
        · exact h1
        · exact h2 p hp
      · rcases h3 with ⟨e, ev⟩ | ⟨s', hs', ev⟩
        · right; exact ⟨s, by rw [e]; exact List.mem_cons_self, ev⟩
        · right; exact ⟨s', List.mem_cons_of_mem _ hs', ev⟩
    · simp only [otsuPick, if_neg hb]
      obtain ⟨v, h1, h2, h3⟩ := ih best bestT
      have hb' : val s ≤ val best := not_lt.1 (fun c => hb ((hlt _ _).2 c))
      refine ⟨v, h1, ?_, ?_⟩
      · intro p hp
        rcases List.mem_cons.1 hp with rfl | hp
        · exact le_trans hb' h1
        · exact h2 p hp
      · rcases h3 with h3 | ⟨s', hs', ev⟩
        · left; exact h3
        · right; exact ⟨s', List.mem_cons_of_mem _ hs', ev⟩

omit [LT α] [DecidableLT α] in
/-- the levels that appear in the trace: every `T` of the list with both classes non-empty, as long
    as no earlier level of the list made the loop `break` -/
theorem otsuTrace_mem (cast : Nat → α) (hist : List Nat) (k : Nat) :
    ∀ (T : Nat) (muB muO : α), T + k = hist.length →
      ∀ T', T ≤ T' → T' < hist.length → nBOf hist T' ≠ 0 → nOOf hist T' ≠ 0 →
        ∃ s, (T', s) ∈ otsuTrace cast (hOf hist) (nBOf hist) (nOOf hist) (List.range' T k) muB muO := by
  induction k with
  | zero => intro T muB muO hTk T' h1 h2; omega
  | succ k ih =>
    intro T muB muO hTk T' hTT' hT' hb ho
    rw [List.range'_succ]
    by_cases h1 : nBOf hist T = 0
    · simp only [otsuTrace, if_pos h1]
      have : T ≠ T' := fun e => hb (e ▸ h1)
      exact ih (T + 1) muB muO (by omega) T' (by omega) hT' hb ho
    · by_cases h2 : nOOf hist T = 0
      · exact absurd (nO_zero_mono hist hTT' hT' h2) ho
      · simp only [otsuTrace, if_neg h1, if_neg h2]
        by_cases e : T = T'
        · subst e; exact ⟨_, List.mem_cons_self⟩
        · obtain ⟨s, hs⟩ := ih (T + 1) _ _ (by omega) T' (by omega) hT' hb ho
          exact ⟨s, List.mem_cons_of_mem _ hs⟩

omit [LT α] [DecidableLT α] in
/-- every level in the trace comes from the list and has both classes non-empty -/
theorem otsuTrace_sub (cast : Nat → α) (h nB nO : Nat → Nat) (Ts : List Nat) :
    ∀ (muB muO : α) p, p ∈ otsuTrace cast h nB nO Ts muB muO → p.1 ∈ Ts ∧ nB p.1 ≠ 0 ∧ nO p.1 ≠ 0 := by
  induction Ts with
  | nil => intro muB muO p hp; simp [otsuTrace] at hp
  | cons T rest ih =>
    intro muB muO p hp
    by_cases h1 : nB T = 0
    · simp only [otsuTrace, if_pos h1] at hp
      obtain ⟨a, b⟩ := ih _ _ p hp
      exact ⟨List.mem_cons_of_mem _ a, b⟩
    · by_cases h2 : nO T = 0
      · simp [otsuTrace, if_neg h1, if_pos h2] at hp
      · simp only [otsuTrace, if_neg h1, if_neg h2] at hp
        rcases List.mem_cons.1 hp with rfl | hp
        · exact ⟨List.mem_cons_self, h1, h2⟩
        · obtain ⟨a, b⟩ := ih _ _ p hp
          exact ⟨List.mem_cons_of_mem _ a, b⟩

end generic

theorem otsuGen_eq_gen {α : Type} [Add α] [Sub α] [Mul α] [Div α] [LT α] [DecidableLT α]
    (cast : Nat → α) (hist : List Nat) : otsuGen cast hist =
    if hist.length ≤ 1 then 0 else if sumL (hist.drop 1) = 0 then 0 else
      otsuLoop cast (hOf hist) (nBOf hist) (nOOf hist) (List.range' 1 (hist.length - 1))
        (cast 0) (cast (sumL (weighted hist)) / cast (sumL (hist.drop 1)))
        (cast (nBOf hist 0) * cast (nOOf hist 0) *
          (cast 0 - cast (sumL (weighted hist)) / cast (sumL (hist.drop 1))) *
          (cast 0 - cast (sumL (weighted hist)) / cast (sumL (hist.drop 1)))) 0 := rfl

/-! ## 2. exact instance: every `sigma_between` of the loop is the between-class variance -/

/-- the trace of the whole function: levels `1 … n−1`, initial means `0` and `Σ i·h[i] / Σ_{i≥1} h[i]` -/
def otsuTraceOf {α : Type} [Add α] [Sub α] [Mul α] [Div α] (cast : Nat → α) (hist : List Nat) :
    List (Nat × α) :=
  otsuTrace cast (hOf hist) (nBOf hist) (nOOf hist) (List.range' 1 (hist.length - 1))
    (cast 0) (cast (sumL (weighted hist)) / cast (sumL (hist.drop 1)))

theorem otsuTrace_rat (hist : List Nat) (k : Nat) :
    ∀ (T : Nat) (muB muO : ℚ), 1 ≤ T → T + k = hist.length →
      muB * (nBOf hist (T - 1) : ℚ) = (sBOf hist (T - 1) : ℚ) →
      muO * (nOOf hist (T - 1) : ℚ) =
        (sBOf hist (hist.length - 1) : ℚ) - (sBOf hist (T - 1) : ℚ) →
      ∀ p ∈ otsuTrace ratCast (hOf hist) (nBOf hist) (nOOf hist) (List.range' T k) muB muO,
        p.2 = otsuSigma hist p.1 := by
  induction k with
  | zero => intro T muB muO _ _ _ _ p hp; simp [otsuTrace] at hp
  | succ k ih =>
    intro T muB muO hT hTk hmuB hmuO p hp
    have hTn : T < hist.length := by omega
    have eT : T - 1 + 1 = T := by omega
    rw [List.range'_succ] at hp
    by_cases h1 : nBOf hist T = 0
    · simp only [otsuTrace, if_pos h1] at hp
      have h0 : nBOf hist (T - 1) = 0 := by
        have := nB_mono hist (Nat.sub_le T 1) hTn
        omega
      have hs1 := sB_eq_zero_of_nB hist hTn h1
      have hs0 := sB_eq_zero_of_nB hist (by omega) h0
      refine ih (T + 1) muB muO (by omega) (by omega) ?_ ?_ p hp
      · rw [Nat.add_sub_cancel, h1, hs1]; simp
      · rw [Nat.add_sub_cancel]
        have : nOOf hist T = nOOf hist (T - 1) := by unfold nOOf; rw [h1, h0]
        rw [this, hs1]
        rw [hs0] at hmuO
        exact hmuO
    · by_cases h2 : nOOf hist T = 0
      · simp [otsuTrace, if_neg h1, if_pos h2] at hp
      · simp only [otsuTrace, if_neg h1, if_neg h2, ratCast] at hp
        have c1 : (nBOf hist T : ℚ) ≠ 0 := Nat.cast_ne_zero.2 h1
        have c2 : (nOOf hist T : ℚ) ≠ 0 := Nat.cast_ne_zero.2 h2
        have rs : sBOf hist T = sBOf hist (T - 1) + T * hOf hist T := by
          have := sB_succ hist (T - 1) (by omega)
          rwa [eT] at this
        have hB : (muB * (nBOf hist (T - 1) : ℚ) + ((T * hOf hist T : ℕ) : ℚ)) / (nBOf hist T : ℚ) *
            (nBOf hist T : ℚ) = (sBOf hist T : ℚ) := by
          rw [div_mul_cancel₀ _ c1, hmuB, rs, Nat.cast_add]
        have hO : (muO * (nOOf hist (T - 1) : ℚ) - ((T * hOf hist T : ℕ) : ℚ)) / (nOOf hist T : ℚ) *
            (nOOf hist T : ℚ) = (sBOf hist (hist.length - 1) : ℚ) - (sBOf hist T : ℚ) := by
          rw [div_mul_cancel₀ _ c2, hmuO, rs, Nat.cast_add]
          ring
        rcases List.mem_cons.1 hp with rfl | hp
        · exact sigma_step hist hTn h1 h2 hB hO
        · refine ih (T + 1) _ _ (by omega) (by omega) ?_ ?_ p hp
          · rw [Nat.add_sub_cancel]; exact hB
          · rw [Nat.add_sub_cancel]; exact hO

/-- **σ computed by the loop = the between-class variance, at every step.**  For a histogram with at
    least two bins and a pixel above level 0 (otherwise the function returns 0 before the loop):
    for EVERY arithmetic the result is "first strict maximum of the trace, starting from the value at
    `T = 0`"; over the exact rationals the starting value is `σ(0)`, every trace entry `(T, s)` has
    `s = σ(T)`, and the trace visits every level with both classes occupied. -/
theorem otsu_sigma_stepwise (hist : List Nat) (hn : 2 ≤ hist.length) (hH : sumL (hist.drop 1) ≠ 0) :
    (∀ {α : Type} [Add α] [Sub α] [Mul α] [Div α] [LT α] [DecidableLT α] (cast : Nat → α),
      otsuGen cast hist = otsuPick (otsuTraceOf cast hist)
        (cast (nBOf hist 0) * cast (nOOf hist 0) *
          (cast 0 - cast (sumL (weighted hist)) / cast (sumL (hist.drop 1))) *
          (cast 0 - cast (sumL (weighted hist)) / cast (sumL (hist.drop 1)))) 0) ∧
    ratCast (nBOf hist 0) * ratCast (nOOf hist 0) *
          (ratCast 0 - ratCast (sumL (weighted hist)) / ratCast (sumL (hist.drop 1))) *
          (ratCast 0 - ratCast (sumL (weighted hist)) / ratCast (sumL (hist.drop 1))) = otsuSigma hist 0 ∧
    (∀ p ∈ otsuTraceOf ratCast hist, p.2 = otsuSigma hist p.1) ∧
    (∀ T, 1 ≤ T → T < hist.length → nBOf hist T ≠ 0 → nOOf hist T ≠ 0 →
      ∃ s, (T, s) ∈ otsuTraceOf ratCast hist) := by
  have hH' : nOOf hist 0 ≠ 0 := by rw [← sumL_drop hist hn]; exact hH
  have c2 : (nOOf hist 0 : ℚ) ≠ 0 := Nat.cast_ne_zero.2 hH'
  refine ⟨?_, ?_, ?_, ?_⟩
  · intro α _ _ _ _ _ _ cast
    rw [otsuGen_eq_gen, if_neg (by omega), if_neg hH, otsuLoop_eq_pick]
    rfl
  · rw [sumL_drop hist hn, sumL_weighted]
    simp only [ratCast, Nat.cast_zero]
    exact sigma_zero hist (by omega) hH'
  · intro p hp
    unfold otsuTraceOf at hp
    rw [sumL_drop hist hn, sumL_weighted] at hp
    exact otsuTrace_rat hist (hist.length - 1) 1 _ _ (le_refl 1) (by omega)
      (by simp [ratCast, sB_zero]) (by simp [ratCast, sB_zero, div_mul_cancel₀ _ c2]) p hp
  · intro T h1T hT h1 h2
    exact otsuTrace_mem _ hist (hist.length - 1) 1 _ _ (by omega) T h1T hT h1 h2

/-! ## 4. the decision made on approximate values is nearly optimal -/

/-- **Abstract decision lemma.** If the initial `best` is within `B` of `σ(0)`, every trace entry
    `(T, s)` is within `B` of `σ(T)`, every level that is neither `0` nor in the trace has `σ = 0`
    and `σ ≥ 0`, then the level picked has `σ ≥ σ(T) − 2B` for every level `T`. -/
theorem otsuPick_near_optimal {α : Type} [LT α] [DecidableLT α] (val : α → ℚ)
    (hlt : ∀ a b : α, a < b ↔ val a < val b) (σ : Nat → ℚ) (B : ℚ) (n : Nat)
    (l : List (Nat × α)) (best : α)
    (h0 : |val best - σ 0| ≤ B)
    (hl : ∀ p ∈ l, |val p.2 - σ p.1| ≤ B)
    (hσ : ∀ T, 0 ≤ σ T)
    (hcov : ∀ T, T < n → T = 0 ∨ σ T = 0 ∨ ∃ s, (T, s) ∈ l) :
    ∀ T, T < n → σ T - 2 * B ≤ σ (otsuPick l best 0) := by
  intro T hT
  have hB : 0 ≤ B := le_trans (abs_nonneg _) h0
  obtain ⟨v, hv0, hvl, hres⟩ := otsuPick_spec val hlt l best 0
  -- the picked level has `σ ≥ v − B`
  have hpick : v - B ≤ σ (otsuPick l best 0) := by
    rcases hres with ⟨e, ev⟩ | ⟨s, hs, ev⟩
    · rw [e, ev]; have := abs_le.1 h0; linarith
    · have := abs_le.1 (hl _ hs); simp only at this; rw [ev]; linarith
  -- every level has `σ ≤ v + B`
  have hall : σ T ≤ v + B := by
    rcases hcov T hT with rfl | hz | ⟨s, hs⟩
    · have := abs_le.1 h0; linarith
    · rw [hz]
      have : 0 ≤ σ (otsuPick l best 0) := hσ _
      rcases hres with ⟨e, ev⟩ | ⟨s, hs, ev⟩
      · have := abs_le.1 h0; have := hσ 0; linarith
      · have h3 := abs_le.1 (hl _ hs); simp only at h3; have := hσ (otsuPick l best 0); linarith
    · have h3 := abs_le.1 (hl _ hs); simp only at h3
      have := hvl _ hs; simp only at this; linarith
  linarith

/-! ## 3. rounded arithmetic -/

/-- the rationals with every operation followed by `rnd` -/
def Rd (_rnd : ℚ → ℚ) : Type := ℚ

section rd
variable (rnd : ℚ → ℚ)
instance : Add (Rd rnd) := ⟨fun (a b : ℚ) => rnd (a + b)⟩
instance : Sub (Rd rnd) := ⟨fun (a b : ℚ) => rnd (a - b)⟩
instance : Mul (Rd rnd) := ⟨fun (a b : ℚ) => rnd (a * b)⟩
instance : Div (Rd rnd) := ⟨fun (a b : ℚ) => rnd (a / b)⟩
instance : LT (Rd rnd) := ⟨fun (a b : ℚ) => a < b⟩
instance : DecidableLT (Rd rnd) := fun (a b : ℚ) => inferInstanceAs (Decidable (a < b))
/-- conversion of a count to the arithmetic (`double(n)`): the nearest representable number -/
def rdCast (n : Nat) : Rd rnd := rnd (n : ℚ)
/-- read an element of the rounded arithmetic as a rational -/
def Rd.val (a : Rd rnd) : ℚ := a
end rd

-- `u53 = 2^-53`, `etaMax`, `sigBound`, `otsuErrBound`, `otsuMargin` are defined in `Model/C16.lean`
theorem u53_eq : u53 = 1 / 2 ^ 53 := by unfold u53; norm_num

theorem u53_pos : 0 < u53 := by unfold u53; positivity

section numeric
variable {rnd : ℚ → ℚ} (hr : Rounding rnd)
include hr

theorem rnd_rel' (x : ℚ) : |rnd x - x| ≤ u53 * |x| := by
  have := hr.rel x
  rw [u53_eq, one_div, inv_mul_eq_div]
  exact this

/-- rounding a quantity known within `E` of `y` -/
theorem rnd_err (x y E : ℚ) (h : |x - y| ≤ E) : |rnd x - y| ≤ (1 + u53) * E + u53 * |y| := by
  have h1 := rnd_rel' hr x
  have h2 : |x| ≤ |y| + E := by
    have := abs_sub_abs_le_abs_sub x y; linarith
  have h3 : |rnd x - y| ≤ |rnd x - x| + |x - y| := by
    have := abs_add_le (rnd x - x) (x - y)
    rwa [sub_add_sub_cancel] at this
  have hu := u53_pos
  nlinarith

theorem rnd_nat (m : ℕ) (hm : m ≤ 2 ^ 53) : rnd (m : ℚ) = (m : ℚ) := by
  have := hr.exact_int (m : ℤ) (by
    rw [abs_of_nonneg (by positivity)]
    exact_mod_cast hm)
  simpa using this

/-- one rounding: `E ↦ (1+u)E + uF` -/
def gstep (F E : ℚ) : ℚ := (1 + u53) * E + u53 * F

omit hr in
theorem gstep_mono (F : ℚ) {E E' : ℚ} (h : E ≤ E') : gstep F E ≤ gstep F E' := by
  unfold gstep; have := u53_pos; nlinarith

omit hr in
theorem gstep_nonneg {F E : ℚ} (hF : 0 ≤ F) (hE : 0 ≤ E) : 0 ≤ gstep F E := by
  unfold gstep; have := u53_pos; positivity

/-- **one update of a running mean**: `m' = ((m·a) ⊕ w) ⊘ b` where exactly `s' = s + w`,
    `0 ≤ s, s' ≤ F`: if `m·a` is within `E` of `s` then `m'·b` is within `g(g(g(E)))` of `s'`. -/
theorem chain_step (m a b w s s' F E : ℚ) (hb : 0 < b) (hs : 0 ≤ s) (hsF : s ≤ F)
    (hs' : 0 ≤ s') (hs'F : s' ≤ F) (hss : s' = s + w) (hE : |m * a - s| ≤ E) :
    |rnd (rnd (rnd (m * a) + w) / b) * b - s'| ≤ gstep F (gstep F (gstep F E)) := by
  have hu := u53_pos
  have e1 : |rnd (m * a) - s| ≤ gstep F E := by
    have := rnd_err hr (m * a) s E hE
    rw [abs_of_nonneg hs] at this
    unfold gstep; nlinarith
  have e2 : |rnd (rnd (m * a) + w) - s'| ≤ gstep F (gstep F E) := by
    have := rnd_err hr (rnd (m * a) + w) s' (gstep F E) (by rw [hss, add_sub_add_right_eq_sub]; exact e1)
    rw [abs_of_nonneg hs'] at this
    unfold gstep at this ⊢; nlinarith
  set q := rnd (rnd (m * a) + w) with hq
  have e3 : |rnd (q / b) - s' / b| ≤ (1 + u53) * (gstep F (gstep F E) / b) + u53 * (s' / b) := by
    have := rnd_err hr (q / b) (s' / b) (gstep F (gstep F E) / b) (by
      rw [← sub_div, abs_div, abs_of_pos hb]
      exact div_le_div_of_nonneg_right e2 hb.le)
    rwa [abs_of_nonneg (div_nonneg hs' hb.le)] at this
  have e4 : |rnd (q / b) * b - s'| = |rnd (q / b) - s' / b| * b := by
    rw [← abs_of_pos hb, ← abs_mul, abs_of_pos hb, sub_mul, div_mul_cancel₀ _ hb.ne']
  rw [e4]
  have : |rnd (q / b) - s' / b| * b ≤
      ((1 + u53) * (gstep F (gstep F E) / b) + u53 * (s' / b)) * b :=
    mul_le_mul_of_nonneg_right e3 hb.le
  have e5 : ((1 + u53) * (gstep F (gstep F E) / b) + u53 * (s' / b)) * b =
      (1 + u53) * gstep F (gstep F E) + u53 * s' := by
    field_simp
  rw [e5] at this
  refine le_trans this ?_
  show _ ≤ (1 + u53) * gstep F (gstep F E) + u53 * F
  nlinarith

/-- **the rounded `sigma_between`**: with the two means known through `|mB·a − sB| ≤ E`,
    `|mO·b − sO| ≤ E` (`a, b ≥ 1` the class counts, `a + b = N`, `a·b ≤ W`, the product `a·b` exact),
    and the exact means at most `Δ` apart, the value `((a·b) ⊗ d̂) ⊗ d̂`, `d̂ = mB ⊖ mO`, is within
    an explicit bound of `a·b·(sB/a − sO/b)²`. -/
theorem sigma_err (mB mO a b sB sO N W Δ E : ℚ) (ha : 1 ≤ a) (hb : 1 ≤ b) (hN : a + b = N)
    (hW : a * b ≤ W) (hE0 : 0 ≤ E)
    (hB : |mB * a - sB| ≤ E) (hO : |mO * b - sO| ≤ E) (hΔ : |sB / a - sO / b| ≤ Δ) :
    |rnd (rnd (a * b * rnd (mB - mO)) * rnd (mB - mO)) - a * b * (sB / a - sO / b) * (sB / a - sO / b)|
      ≤ sigBound N W Δ E := by
  have hu := u53_pos
  have ha0 : 0 < a := by linarith
  have hb0 : 0 < b := by linarith
  have hΔ0 : 0 ≤ Δ := le_trans (abs_nonneg _) hΔ
  set d := sB / a - sO / b with hd
  set dh := rnd (mB - mO) with hdh
  set A := a * b with hA
  have hA0 : 0 < A := mul_pos ha0 hb0
  -- the means
  have mBe : |mB - sB / a| ≤ E / a := by
    have : mB - sB / a = (mB * a - sB) / a := by field_simp
    rw [this, abs_div, abs_of_pos ha0]; exact div_le_div_of_nonneg_right hB ha0.le
  have mOe : |mO - sO / b| ≤ E / b := by
    have : mO - sO / b = (mO * b - sO) / b := by field_simp
    rw [this, abs_div, abs_of_pos hb0]; exact div_le_div_of_nonneg_right hO hb0.le
  have xe : |(mB - mO) - d| ≤ E / a + E / b := by
    have : (mB - mO) - d = (mB - sB / a) - (mO - sO / b) := by rw [hd]; ring
    rw [this]
    exact le_trans (abs_sub _ _) (add_le_add mBe mOe)
  -- `η = |d̂ − d|`
  set η := (1 + u53) * (E / a + E / b) + u53 * |d| with hη
  have de : |dh - d| ≤ η := rnd_err hr (mB - mO) d _ xe
  have hEa : E / a ≤ E := div_le_self hE0 ha
  have hEb : E / b ≤ E := div_le_self hE0 hb
  have hEa0 : 0 ≤ E / a := div_nonneg hE0 ha0.le
  have hEb0 : 0 ≤ E / b := div_nonneg hE0 hb0.le
  have hη0 : 0 ≤ η := by rw [hη]; positivity
  have hηmax : η ≤ etaMax Δ E := by
    rw [hη]; unfold etaMax; nlinarith
  have hAη : A * η ≤ (1 + u53) * (E * N) + u53 * (W * Δ) := by
    have e : A * (E / a + E / b) = E * N := by rw [hA, ← hN]; field_simp; ring
    have : A * η = (1 + u53) * (A * (E / a + E / b)) + u53 * (A * |d|) := by rw [hη]; ring
    rw [this, e]
    have : A * |d| ≤ W * Δ := mul_le_mul hW hΔ (abs_nonneg _) (le_trans hA0.le hW)
    nlinarith
  have dhabs : |dh| ≤ Δ + etaMax Δ E := by
    have := abs_sub_abs_le_abs_sub dh d
    linarith
  -- first part: `A·d̂² vs A·d²`
  have p1 : |A * dh * dh - A * d * d| ≤ (A * η) * (2 * Δ + etaMax Δ E) := by
    have : A * dh * dh - A * d * d = A * ((dh - d) * (dh + d)) := by ring
    rw [this, abs_mul, abs_of_pos hA0, abs_mul]
    have h2 : |dh + d| ≤ 2 * Δ + etaMax Δ E := by
      have : dh + d = (dh - d) + 2 * d := by ring
      rw [this]
      refine le_trans (abs_add_le _ _) ?_
      rw [abs_mul, abs_of_pos (by norm_num : (0 : ℚ) < 2)]
      linarith
    have : |dh - d| * |dh + d| ≤ η * (2 * Δ + etaMax Δ E) :=
      mul_le_mul de h2 (abs_nonneg _) hη0
    calc A * (|dh - d| * |dh + d|) ≤ A * (η * (2 * Δ + etaMax Δ E)) :=
          mul_le_mul_of_nonneg_left this hA0.le
      _ = A * η * (2 * Δ + etaMax Δ E) := by ring
  -- second part: the two roundings of the product
  have sq : dh * dh ≤ (Δ + etaMax Δ E) * (Δ + etaMax Δ E) := by
    have := abs_mul_abs_self dh
    rw [← this]
    exact mul_le_mul dhabs dhabs (abs_nonneg _) (le_trans (abs_nonneg _) dhabs)
  have sq0 : 0 ≤ dh * dh := mul_self_nonneg dh
  have p2 : |rnd (rnd (A * dh) * dh) - A * dh * dh| ≤ (2 * u53 + u53 * u53) * (A * (dh * dh)) := by
    have r1 := rnd_rel' hr (A * dh)
    have r2 := rnd_rel' hr (rnd (A * dh) * dh)
    have a1 : |A * dh| * |dh| = A * (dh * dh) := by
      rw [abs_mul, abs_of_pos hA0, mul_assoc, abs_mul_abs_self]
    have a2 : |rnd (A * dh)| ≤ (1 + u53) * |A * dh| := by
      have := abs_sub_abs_le_abs_sub (rnd (A * dh)) (A * dh)
      linarith
    have a3 : |rnd (A * dh) * dh| ≤ (1 + u53) * (A * (dh * dh)) := by
      rw [abs_mul]
      calc |rnd (A * dh)| * |dh| ≤ ((1 + u53) * |A * dh|) * |dh| :=
            mul_le_mul_of_nonneg_right a2 (abs_nonneg _)
        _ = (1 + u53) * (A * (dh * dh)) := by rw [mul_assoc, a1]
    have a4 : |rnd (A * dh) * dh - A * dh * dh| ≤ u53 * (A * (dh * dh)) := by
      have : rnd (A * dh) * dh - A * dh * dh = (rnd (A * dh) - A * dh) * dh := by ring
      rw [this, abs_mul]
      calc |rnd (A * dh) - A * dh| * |dh| ≤ (u53 * |A * dh|) * |dh| :=
            mul_le_mul_of_nonneg_right r1 (abs_nonneg _)
        _ = u53 * (A * (dh * dh)) := by rw [mul_assoc, a1]
    have : |rnd (rnd (A * dh) * dh) - A * dh * dh| ≤
        |rnd (rnd (A * dh) * dh) - rnd (A * dh) * dh| + |rnd (A * dh) * dh - A * dh * dh| := by
      have := abs_add_le (rnd (rnd (A * dh) * dh) - rnd (A * dh) * dh) (rnd (A * dh) * dh - A * dh * dh)
      rwa [sub_add_sub_cancel] at this
    have hAd : 0 ≤ A * (dh * dh) := mul_nonneg hA0.le sq0
    nlinarith
  have p2' : |rnd (rnd (A * dh) * dh) - A * dh * dh| ≤
      (2 * u53 + u53 * u53) * (W * ((Δ + etaMax Δ E) * (Δ + etaMax Δ E))) := by
    refine le_trans p2 ?_
    have : A * (dh * dh) ≤ W * ((Δ + etaMax Δ E) * (Δ + etaMax Δ E)) :=
      mul_le_mul hW sq sq0 (le_trans hA0.le hW)
    have h0 : 0 ≤ 2 * u53 + u53 * u53 := by positivity
    exact mul_le_mul_of_nonneg_left this h0
  have p1' : |A * dh * dh - A * d * d| ≤
      ((1 + u53) * (E * N) + u53 * (W * Δ)) * (2 * Δ + etaMax Δ E) := by
    refine le_trans p1 ?_
    have : 0 ≤ 2 * Δ + etaMax Δ E := by unfold etaMax; positivity
    exact mul_le_mul_of_nonneg_right hAη this
  have tri : |rnd (rnd (A * dh) * dh) - A * d * d| ≤
      |rnd (rnd (A * dh) * dh) - A * dh * dh| + |A * dh * dh - A * d * d| := by
    have := abs_add_le (rnd (rnd (A * dh) * dh) - A * dh * dh) (A * dh * dh - A * d * d)
    rwa [sub_add_sub_cancel] at this
  unfold sigBound
  linarith

end numeric

/-! ## 3b. the loop invariant in rounded arithmetic -/

/-- three roundings per update of a running mean -/
def g3 (F E : ℚ) : ℚ := gstep F (gstep F (gstep F E))

section loop
variable {rnd : ℚ → ℚ}

theorem otsuTrace_rd_cons (h nB nO : Nat → Nat) (T : Nat) (rest : List Nat) (muB muO : ℚ)
    (h1 : nB T ≠ 0) (h2 : nO T ≠ 0) :
    otsuTrace (α := Rd rnd) (rdCast rnd) h nB nO (T :: rest) muB muO =
      (T, (rnd (rnd (rnd (rnd (nB T : ℚ) * rnd (nO T : ℚ)) *
            rnd (rnd (rnd (rnd (muB * rnd (nB (T - 1) : ℚ)) + rnd ((T * h T : ℕ) : ℚ)) / rnd (nB T : ℚ)) -
              rnd (rnd (rnd (muO * rnd (nO (T - 1) : ℚ)) - rnd ((T * h T : ℕ) : ℚ)) / rnd (nO T : ℚ)))) *
            rnd (rnd (rnd (rnd (muB * rnd (nB (T - 1) : ℚ)) + rnd ((T * h T : ℕ) : ℚ)) / rnd (nB T : ℚ)) -
              rnd (rnd (rnd (muO * rnd (nO (T - 1) : ℚ)) - rnd ((T * h T : ℕ) : ℚ)) / rnd (nO T : ℚ)))) : ℚ)) ::
        otsuTrace (α := Rd rnd) (rdCast rnd) h nB nO rest
          (rnd (rnd (rnd (muB * rnd (nB (T - 1) : ℚ)) + rnd ((T * h T : ℕ) : ℚ)) / rnd (nB T : ℚ)) : ℚ)
          (rnd (rnd (rnd (muO * rnd (nO (T - 1) : ℚ)) - rnd ((T * h T : ℕ) : ℚ)) / rnd (nO T : ℚ)) : ℚ) := by
  simp only [otsuTrace, if_neg h1, if_neg h2]
  rfl

theorem otsuTrace_rd_continue (h nB nO : Nat → Nat) (T : Nat) (rest : List Nat) (muB muO : ℚ)
    (h1 : nB T = 0) :
    otsuTrace (α := Rd rnd) (rdCast rnd) h nB nO (T :: rest) muB muO =
      otsuTrace (α := Rd rnd) (rdCast rnd) h nB nO rest muB muO := by
  simp only [otsuTrace, if_pos h1]

theorem otsuTrace_rd_break (h nB nO : Nat → Nat) (T : Nat) (rest : List Nat) (muB muO : ℚ)
    (h1 : nB T ≠ 0) (h2 : nO T = 0) :
    otsuTrace (α := Rd rnd) (rdCast rnd) h nB nO (T :: rest) muB muO = [] := by
  simp only [otsuTrace, if_neg h1, if_pos h2]

/-- **Loop invariant in rounded arithmetic.** `E t` bounds `|m̂_B·n_B − s_B|` and `|m̂_O·n_O − s_O|`
    after level `t`; each proper step costs three roundings (`g3`).  Every value `σ̂(T)` in the trace is
    within `sigBound N N² Δ Emax` of the exact `σ(T)`. -/
theorem otsuTrace_rd (hr : Rounding rnd) (hist : List Nat) (N Fn : ℕ)
    (hN : N = nBOf hist (hist.length - 1)) (hF : Fn = sBOf hist (hist.length - 1))
    (hNN : N * N ≤ 2 ^ 53) (hFF : Fn ≤ 2 ^ 53) (Δ Emax : ℚ) (E : ℕ → ℚ)
    (hEmono : ∀ t, E t ≤ E (t + 1)) (hEmax : ∀ t, t < hist.length → E t ≤ Emax)
    (hEstep : ∀ T, 1 ≤ T → T < hist.length → nBOf hist T ≠ 0 → nOOf hist T ≠ 0 →
      g3 (Fn : ℚ) (E (T - 1)) ≤ E T)
    (hΔ : ∀ T, T < hist.length → nBOf hist T ≠ 0 → nOOf hist T ≠ 0 →
      |(sBOf hist T : ℚ) / (nBOf hist T : ℚ) -
        ((Fn - sBOf hist T : ℕ) : ℚ) / (nOOf hist T : ℚ)| ≤ Δ)
    (k : ℕ) : ∀ (T : ℕ) (muB muO : ℚ), 1 ≤ T → T + k = hist.length →
      |muB * (nBOf hist (T - 1) : ℚ) - (sBOf hist (T - 1) : ℚ)| ≤ E (T - 1) →
      |muO * (nOOf hist (T - 1) : ℚ) - ((Fn - sBOf hist (T - 1) : ℕ) : ℚ)| ≤ E (T - 1) →
      ∀ p ∈ otsuTrace (α := Rd rnd) (rdCast rnd) (hOf hist) (nBOf hist) (nOOf hist)
          (List.range' T k) muB muO,
        |Rd.val rnd p.2 - otsuSigma hist p.1| ≤ sigBound (N : ℚ) ((N : ℚ) * (N : ℚ)) Δ Emax := by
  induction k with
  | zero => intro T muB muO _ _ _ _ p hp; simp [otsuTrace] at hp
  | succ k ih =>
    intro T muB muO hT hTk hmuB hmuO p hp
    have hTn : T < hist.length := by omega
    have eT : T - 1 + 1 = T := by omega
    have hE0 : 0 ≤ E (T - 1) := le_trans (abs_nonneg _) hmuB
    have hEle : E (T - 1) ≤ E T := by have := hEmono (T - 1); rwa [eT] at this
    rw [List.range'_succ] at hp
    by_cases h1 : nBOf hist T = 0
    · -- continue
      rw [otsuTrace_rd_continue _ _ _ _ _ _ _ h1] at hp
      have h0 : nBOf hist (T - 1) = 0 := by
        have := nB_mono hist (Nat.sub_le T 1) hTn
        omega
      have hs1 := sB_eq_zero_of_nB hist hTn h1
      have hs0 := sB_eq_zero_of_nB hist (by omega) h0
      refine ih (T + 1) muB muO (by omega) (by omega) ?_ ?_ p hp
      · rw [Nat.add_sub_cancel, h1, hs1]; simp; exact le_trans hE0 hEle
      · rw [Nat.add_sub_cancel]
        have : nOOf hist T = nOOf hist (T - 1) := by unfold nOOf; rw [h1, h0]
        rw [this, hs1]
        rw [hs0] at hmuO
        exact le_trans hmuO hEle
    · by_cases h2 : nOOf hist T = 0
      · rw [otsuTrace_rd_break _ _ _ _ _ _ _ h1 h2] at hp
        simp at hp
      · -- a proper step
        rw [otsuTrace_rd_cons _ _ _ _ _ _ _ h1 h2] at hp
        -- sizes: every count converted is exact
        have hNle : ∀ t, t < hist.length → nBOf hist t ≤ N := fun t ht => by
          rw [hN]; exact nB_mono hist (by omega) (by omega)
        have hOle : ∀ t, nOOf hist t ≤ N := fun t => by rw [hN]; unfold nOOf; omega
        have hN53 : N ≤ 2 ^ 53 := by
          rcases Nat.eq_zero_or_pos N with h | h
          · rw [h]; positivity
          · calc N = N * 1 := (Nat.mul_one N).symm
              _ ≤ N * N := Nat.mul_le_mul_left N h
              _ ≤ 2 ^ 53 := hNN
        have rs : sBOf hist T = sBOf hist (T - 1) + T * hOf hist T := by
          have := sB_succ hist (T - 1) (by omega)
          rwa [eT] at this
        have hsF : ∀ t, t < hist.length → sBOf hist t ≤ Fn := fun t ht => by
          rw [hF]; exact sB_mono hist (by omega) (by omega)
        have c1 : rnd ((nBOf hist (T - 1) : ℕ) : ℚ) = (nBOf hist (T - 1) : ℚ) :=
          rnd_nat hr _ (le_trans (hNle _ (by omega)) hN53)
        have c2 : rnd ((nBOf hist T : ℕ) : ℚ) = (nBOf hist T : ℚ) :=
          rnd_nat hr _ (le_trans (hNle _ hTn) hN53)
        have c3 : rnd ((nOOf hist (T - 1) : ℕ) : ℚ) = (nOOf hist (T - 1) : ℚ) :=
          rnd_nat hr _ (le_trans (hOle _) hN53)
        have c4 : rnd ((nOOf hist T : ℕ) : ℚ) = (nOOf hist T : ℚ) :=
          rnd_nat hr _ (le_trans (hOle _) hN53)
        have c5 : rnd ((T * hOf hist T : ℕ) : ℚ) = ((T * hOf hist T : ℕ) : ℚ) :=
          rnd_nat hr _ (by have := hsF T hTn; omega)
        have c6 : rnd ((nBOf hist T : ℚ) * (nOOf hist T : ℚ)) = (nBOf hist T : ℚ) * (nOOf hist T : ℚ) := by
          have := rnd_nat hr (nBOf hist T * nOOf hist T)
            (le_trans (Nat.mul_le_mul (hNle _ hTn) (hOle _)) hNN)
          rwa [Nat.cast_mul] at this
        rw [c1, c2, c3, c4, c5, c6] at hp
        have pB : (0 : ℚ) < (nBOf hist T : ℚ) := by exact_mod_cast Nat.pos_of_ne_zero h1
        have pO : (0 : ℚ) < (nOOf hist T : ℚ) := by exact_mod_cast Nat.pos_of_ne_zero h2
        have hFn0 : (0 : ℚ) ≤ (Fn : ℚ) := by positivity
        -- the two updated means
        have hB := chain_step hr muB (nBOf hist (T - 1) : ℚ) (nBOf hist T : ℚ) ((T * hOf hist T : ℕ) : ℚ)
          (sBOf hist (T - 1) : ℚ) (sBOf hist T : ℚ) (Fn : ℚ) (E (T - 1)) pB (by positivity)
          (by exact_mod_cast hsF _ (by omega)) (by positivity) (by exact_mod_cast hsF _ hTn)
          (by rw [rs]; push_cast; ring) hmuB
        have hsub : ((Fn - sBOf hist T : ℕ) : ℚ) =
            ((Fn - sBOf hist (T - 1) : ℕ) : ℚ) + -((T * hOf hist T : ℕ) : ℚ) := by
          rw [Nat.cast_sub (hsF _ hTn), Nat.cast_sub (hsF _ (by omega)), rs]; push_cast; ring
        have hO := chain_step hr muO (nOOf hist (T - 1) : ℚ) (nOOf hist T : ℚ) (-((T * hOf hist T : ℕ) : ℚ))
          ((Fn - sBOf hist (T - 1) : ℕ) : ℚ) ((Fn - sBOf hist T : ℕ) : ℚ) (Fn : ℚ) (E (T - 1)) pO
          (by positivity) (by exact_mod_cast Nat.sub_le _ _) (by positivity)
          (by exact_mod_cast Nat.sub_le _ _) hsub hmuO
        rw [← sub_eq_add_neg] at hO
        have hstep := hEstep T hT hTn h1 h2
        unfold g3 at hstep
        have hB' := le_trans hB hstep
        have hO' := le_trans hO hstep
        rcases List.mem_cons.1 hp with rfl | hp
        · -- the value computed at this level
          simp only [Rd.val]
          have hab : (nBOf hist T : ℚ) + (nOOf hist T : ℚ) = (N : ℚ) := by
            have : nBOf hist T + nOOf hist T = N := by
              have := hNle T hTn; rw [hN] at this ⊢; unfold nOOf; omega
            exact_mod_cast this
          have hWW : (nBOf hist T : ℚ) * (nOOf hist T : ℚ) ≤ (N : ℚ) * (N : ℚ) := by
            exact_mod_cast Nat.mul_le_mul (hNle _ hTn) (hOle T)
          have hEm0 : 0 ≤ Emax := le_trans (le_trans hE0 hEle) (hEmax T hTn)
          have := sigma_err hr _ _ (nBOf hist T : ℚ) (nOOf hist T : ℚ) (sBOf hist T : ℚ)
            ((Fn - sBOf hist T : ℕ) : ℚ) (N : ℚ) ((N : ℚ) * (N : ℚ)) Δ Emax
            (by exact_mod_cast Nat.pos_of_ne_zero h1) (by exact_mod_cast Nat.pos_of_ne_zero h2)
            hab hWW hEm0 (le_trans hB' (hEmax T hTn)) (le_trans hO' (hEmax T hTn)) (hΔ T hTn h1 h2)
          have hsig : otsuSigma hist T = (nBOf hist T : ℚ) * (nOOf hist T : ℚ) *
              ((sBOf hist T : ℚ) / (nBOf hist T : ℚ) - ((Fn - sBOf hist T : ℕ) : ℚ) / (nOOf hist T : ℚ)) *
              ((sBOf hist T : ℚ) / (nBOf hist T : ℚ) - ((Fn - sBOf hist T : ℕ) : ℚ) / (nOOf hist T : ℚ)) := by
            unfold otsuSigma sigmaOf
            rw [if_neg (by rintro (h | h); exact h1 h; exact h2 h), hF]
          rw [hsig]
          exact this
        · refine ih (T + 1) _ _ (by omega) (by omega) ?_ ?_ p hp
          · rw [Nat.add_sub_cancel]; exact hB'
          · rw [Nat.add_sub_cancel]; exact hO'

end loop

/-! ## 5. the whole function in rounded arithmetic -/

/-- three roundings turn `u·F·c` into at most `u·F·(c+4)` as long as `c·u ≤ 1/8` -/
theorem g3_step (F c : ℚ) (hF : 0 ≤ F) (_hc : 0 ≤ c) (hcu : c * u53 ≤ 1 / 8) :
    g3 F (u53 * F * c) ≤ u53 * F * (c + 4) := by
  have ht := u53_pos
  have ht16 : u53 ≤ 1 / 16 := by unfold u53; norm_num
  have key : c * u53 * (3 + 3 * u53 + u53 * u53) + 3 * u53 + u53 * u53 ≤ 1 := by
    have h1 : 3 + 3 * u53 + u53 * u53 ≤ 4 := by nlinarith
    have h2 : c * u53 * (3 + 3 * u53 + u53 * u53) ≤ 1 / 8 * 4 :=
      mul_le_mul hcu h1 (by positivity) (by norm_num)
    nlinarith
  have e : u53 * F * (c + 4) - g3 F (u53 * F * c) =
      u53 * F * (1 - (c * u53 * (3 + 3 * u53 + u53 * u53) + 3 * u53 + u53 * u53)) := by
    unfold g3 gstep; ring
  have : 0 ≤ u53 * F * (1 - (c * u53 * (3 + 3 * u53 + u53 * u53) + 3 * u53 + u53 * u53)) :=
    mul_nonneg (mul_nonneg ht.le hF) (by linarith)
  linarith

/-- both classes occupied ⇒ the level lies in `[lo, hi)` -/
theorem proper_range (hist : List Nat) (hne : ∃ v ∈ hist, v ≠ 0) {T : Nat} (hT : T < hist.length)
    (h1 : nBOf hist T ≠ 0) (h2 : nOOf hist T ≠ 0) : loOf hist ≤ T ∧ T < lastNonzero hist := by
  constructor
  · by_contra hc
    exact h1 (nB_eq_zero hist hT (fun i hi => (loOf_spec hist hne).2 i (by omega)))
  · by_contra _hc
    exact h2 (nO_zero_mono hist (by omega) hT (nO_zero_of_hi hist hne))

/-- the exact class means of a proper split are at most `hi − lo` apart -/
theorem means_apart (hist : List Nat) (hne : ∃ v ∈ hist, v ≠ 0) {T : Nat} (hT : T < hist.length)
    (h1 : nBOf hist T ≠ 0) (h2 : nOOf hist T ≠ 0) :
    |(sBOf hist T : ℚ) / (nBOf hist T : ℚ) -
      ((sBOf hist (hist.length - 1) - sBOf hist T : ℕ) : ℚ) / (nOOf hist T : ℚ)| ≤
      ((lastNonzero hist - loOf hist : ℕ) : ℚ) := by
  obtain ⟨r1, r2⟩ := proper_range hist hne hT h1 h2
  obtain ⟨b1, b2, b3, b4⟩ := class_bounds hist hne r1 r2
  have pB : (0 : ℚ) < (nBOf hist T : ℚ) := by exact_mod_cast Nat.pos_of_ne_zero h1
  have pO : (0 : ℚ) < (nOOf hist T : ℚ) := by exact_mod_cast Nat.pos_of_ne_zero h2
  have q1 : (loOf hist : ℚ) ≤ (sBOf hist T : ℚ) / (nBOf hist T : ℚ) := by
    rw [le_div_iff₀ pB]; exact_mod_cast b1
  have q2 : (sBOf hist T : ℚ) / (nBOf hist T : ℚ) ≤ (T : ℚ) := by
    rw [div_le_iff₀ pB]; exact_mod_cast b2
  have q3 : (T : ℚ) + 1 ≤
      ((sBOf hist (hist.length - 1) - sBOf hist T : ℕ) : ℚ) / (nOOf hist T : ℚ) := by
    rw [le_div_iff₀ pO]; exact_mod_cast b3
  have q4 : ((sBOf hist (hist.length - 1) - sBOf hist T : ℕ) : ℚ) / (nOOf hist T : ℚ) ≤
      (lastNonzero hist : ℚ) := by
    rw [div_le_iff₀ pO]; exact_mod_cast b4
  rw [Nat.cast_sub (show loOf hist ≤ lastNonzero hist by omega), abs_le]
  constructor <;> linarith

theorem sigBound_nonneg {N W Δ E : ℚ} (hN : 0 ≤ N) (hW : 0 ≤ W) (hΔ : 0 ≤ Δ) (hE : 0 ≤ E) :
    0 ≤ sigBound N W Δ E := by
  have := u53_pos
  unfold sigBound etaMax; positivity

theorem otsuErrBound_nonneg (N Fn lo hi : ℕ) : 0 ≤ otsuErrBound N Fn lo hi := by
  have := u53_pos
  unfold otsuErrBound
  exact sigBound_nonneg (by positivity) (by positivity) (by positivity) (by positivity)

/-- **Otsu in rounded arithmetic is nearly optimal.**  For every `Rounding` (binary64
    round-to-nearest in particular) the threshold returned by the model run in rounded arithmetic has an
    exact between-class variance within `2·otsuErrBound` of the exact maximum.  Size assumptions:
    at most `2^32` levels, `N² ≤ 2^53` pixels squared (`N < 2^26.5`), first moment `≤ 2^53`. -/
theorem otsuGen_rd_near_optimal {rnd : ℚ → ℚ} (hr : Rounding rnd) (hist : List Nat)
    (hne : ∃ v ∈ hist, v ≠ 0) (hlen : hist.length ≤ 2 ^ 32)
    (hNN : nBOf hist (hist.length - 1) * nBOf hist (hist.length - 1) ≤ 2 ^ 53)
    (hFF : sBOf hist (hist.length - 1) ≤ 2 ^ 53) :
    ∀ T, T < hist.length →
      otsuSigma hist T - 2 * otsuErrBound (nBOf hist (hist.length - 1)) (sBOf hist (hist.length - 1))
        (loOf hist) (lastNonzero hist) ≤ otsuSigma hist (otsuGen (α := Rd rnd) (rdCast rnd) hist) := by
  intro T hT
  have hBnn := otsuErrBound_nonneg (nBOf hist (hist.length - 1)) (sBOf hist (hist.length - 1))
    (loOf hist) (lastNonzero hist)
  rw [otsuGen_eq_gen]
  split_ifs with hn hH
  · have : T = 0 := by omega
    subst this; linarith
  · have hn2 : 2 ≤ hist.length := by omega
    rw [sumL_drop hist hn2] at hH
    have hz : ∀ T, T < hist.length → otsuSigma hist T = 0 := fun T hT =>
      otsuSigma_of_nO_zero (nO_zero_mono hist (Nat.zero_le T) hT hH)
    rw [hz T hT, hz 0 (by omega)]; linarith
  · have hn2 : 2 ≤ hist.length := by omega
    rw [sumL_drop hist hn2] at hH ⊢
    rw [sumL_weighted, otsuLoop_eq_pick]
    set N := nBOf hist (hist.length - 1) with hN
    set Fn := sBOf hist (hist.length - 1) with hF
    set lo := loOf hist with hlo
    set hi := lastNonzero hist with hhi
    have hu := u53_pos
    have hhin : hi < hist.length := hi_lt_length hist hne
    have hlohi : lo ≤ hi := lo_le_hi hist hne
    -- the error budget
    let E : ℕ → ℚ := fun t => u53 * (Fn : ℚ) * (1 + 4 * ((min (t + 1) hi - lo : ℕ) : ℚ))
    let Emax : ℚ := u53 * (Fn : ℚ) * (1 + 4 * ((hi - lo : ℕ) : ℚ))
    have hEmono : ∀ t, E t ≤ E (t + 1) := by
      intro t
      have : ((min (t + 1) hi - lo : ℕ) : ℚ) ≤ ((min (t + 1 + 1) hi - lo : ℕ) : ℚ) := by
        exact_mod_cast Nat.sub_le_sub_right (min_le_min (by omega) (le_refl _)) _
      show u53 * (Fn : ℚ) * _ ≤ u53 * (Fn : ℚ) * _
      have : (0 : ℚ) ≤ u53 * (Fn : ℚ) := by positivity
      nlinarith
    have hEmax : ∀ t, t < hist.length → E t ≤ Emax := by
      intro t _
      have : ((min (t + 1) hi - lo : ℕ) : ℚ) ≤ ((hi - lo : ℕ) : ℚ) := by
        exact_mod_cast Nat.sub_le_sub_right (min_le_right _ _) _
      show u53 * (Fn : ℚ) * _ ≤ u53 * (Fn : ℚ) * _
      have : (0 : ℚ) ≤ u53 * (Fn : ℚ) := by positivity
      nlinarith
    have hEstep : ∀ T, 1 ≤ T → T < hist.length → nBOf hist T ≠ 0 → nOOf hist T ≠ 0 →
        g3 (Fn : ℚ) (E (T - 1)) ≤ E T := by
      intro T h1T hTn h1 h2
      obtain ⟨r1, r2⟩ := proper_range hist hne hTn h1 h2
      have e1 : min (T - 1 + 1) hi - lo = T - lo := by
        rw [show T - 1 + 1 = T by omega, min_eq_left (by omega)]
      have e2 : min (T + 1) hi - lo = T - lo + 1 := by
        rw [min_eq_left (by omega)]; omega
      show g3 (Fn : ℚ) (u53 * (Fn : ℚ) * (1 + 4 * ((min (T - 1 + 1) hi - lo : ℕ) : ℚ))) ≤
        u53 * (Fn : ℚ) * (1 + 4 * ((min (T + 1) hi - lo : ℕ) : ℚ))
      rw [e1, e2]
      have hc : (1 + 4 * ((T - lo : ℕ) : ℚ)) * u53 ≤ 1 / 8 := by
        have : ((T - lo : ℕ) : ℚ) ≤ 2 ^ 32 := by
          have : T - lo ≤ 2 ^ 32 := by omega
          exact_mod_cast this
        unfold u53
        rw [mul_one_div, div_le_iff₀ (by positivity)]
        nlinarith
      have := g3_step (Fn : ℚ) (1 + 4 * ((T - lo : ℕ) : ℚ)) (by positivity) (by positivity) hc
      refine le_trans this (le_of_eq ?_)
      push_cast; ring
    have hΔ : ∀ T, T < hist.length → nBOf hist T ≠ 0 → nOOf hist T ≠ 0 →
        |(sBOf hist T : ℚ) / (nBOf hist T : ℚ) -
          ((Fn - sBOf hist T : ℕ) : ℚ) / (nOOf hist T : ℚ)| ≤ ((hi - lo : ℕ) : ℚ) :=
      fun T hT h1 h2 => means_apart hist hne hT h1 h2
    have c2 : (nOOf hist 0 : ℚ) ≠ 0 := Nat.cast_ne_zero.2 hH
    have pO : (0 : ℚ) < (nOOf hist 0 : ℚ) := by exact_mod_cast Nat.pos_of_ne_zero hH
    have hN53 : N ≤ 2 ^ 53 := by
      rcases Nat.eq_zero_or_pos N with h | h
      · rw [h]; positivity
      · calc N = N * 1 := (Nat.mul_one N).symm
          _ ≤ N * N := Nat.mul_le_mul_left N h
          _ ≤ 2 ^ 53 := hNN
    have hOle : ∀ t, nOOf hist t ≤ N := fun t => by unfold nOOf; omega
    have hNle : ∀ t, t < hist.length → nBOf hist t ≤ N := fun t ht =>
      nB_mono hist (by omega) (by omega)
    have cF : rnd ((Fn : ℕ) : ℚ) = (Fn : ℚ) := rnd_nat hr _ hFF
    have cH : rnd ((nOOf hist 0 : ℕ) : ℚ) = (nOOf hist 0 : ℚ) := rnd_nat hr _ (le_trans (hOle 0) hN53)
    have cB : rnd ((nBOf hist 0 : ℕ) : ℚ) = (nBOf hist 0 : ℚ) :=
      rnd_nat hr _ (le_trans (hNle 0 (by omega)) hN53)
    have c0 : rnd ((0 : ℕ) : ℚ) = 0 := by simpa using rnd_nat hr 0 (by positivity)
    have cP : rnd ((nBOf hist 0 : ℚ) * (nOOf hist 0 : ℚ)) = (nBOf hist 0 : ℚ) * (nOOf hist 0 : ℚ) := by
      have := rnd_nat hr (nBOf hist 0 * nOOf hist 0)
        (le_trans (Nat.mul_le_mul (hNle 0 (by omega)) (hOle 0)) hNN)
      rwa [Nat.cast_mul] at this
    -- the initial upper mean
    have hmuO : |rnd ((Fn : ℚ) / (nOOf hist 0 : ℚ)) * (nOOf hist 0 : ℚ) -
        ((Fn - sBOf hist 0 : ℕ) : ℚ)| ≤ E 0 := by
      rw [sB_zero, Nat.sub_zero]
      have h1 := rnd_rel' hr ((Fn : ℚ) / (nOOf hist 0 : ℚ))
      have e : rnd ((Fn : ℚ) / (nOOf hist 0 : ℚ)) * (nOOf hist 0 : ℚ) - (Fn : ℚ) =
          (rnd ((Fn : ℚ) / (nOOf hist 0 : ℚ)) - (Fn : ℚ) / (nOOf hist 0 : ℚ)) * (nOOf hist 0 : ℚ) := by
        field_simp
      rw [e, abs_mul, abs_of_pos pO]
      have h2 : |(Fn : ℚ) / (nOOf hist 0 : ℚ)| * (nOOf hist 0 : ℚ) = (Fn : ℚ) := by
        rw [abs_of_nonneg (by positivity)]; field_simp
      have h3 : |rnd ((Fn : ℚ) / (nOOf hist 0 : ℚ)) - (Fn : ℚ) / (nOOf hist 0 : ℚ)| * (nOOf hist 0 : ℚ) ≤
          u53 * |(Fn : ℚ) / (nOOf hist 0 : ℚ)| * (nOOf hist 0 : ℚ) :=
        mul_le_mul_of_nonneg_right h1 pO.le
      rw [mul_assoc, h2] at h3
      refine le_trans h3 ?_
      show u53 * (Fn : ℚ) ≤ u53 * (Fn : ℚ) * (1 + 4 * ((min (0 + 1) hi - lo : ℕ) : ℚ))
      have : (0 : ℚ) ≤ u53 * (Fn : ℚ) := by positivity
      have : (0 : ℚ) ≤ ((min (0 + 1) hi - lo : ℕ) : ℚ) := by positivity
      nlinarith
    have hmuB : |(0 : ℚ) * (nBOf hist 0 : ℚ) - (sBOf hist 0 : ℚ)| ≤ E 0 := by
      rw [sB_zero]; simp
      show 0 ≤ u53 * (Fn : ℚ) * (1 + 4 * ((min (0 + 1) hi - lo : ℕ) : ℚ))
      positivity
    have hEm0 : 0 ≤ Emax := le_trans (le_trans (abs_nonneg _) hmuB) (hEmax 0 (by omega))
    -- the trace
    have htrace := otsuTrace_rd hr hist N Fn hN hF hNN hFF ((hi - lo : ℕ) : ℚ) Emax E hEmono hEmax hEstep hΔ
      (hist.length - 1) 1 0 (rnd ((Fn : ℚ) / (nOOf hist 0 : ℚ))) (le_refl 1) (by omega)
      (by rw [Nat.sub_self]; exact hmuB) (by rw [Nat.sub_self]; exact hmuO)
    -- the initial `best`
    have hbest : |rnd (rnd ((nBOf hist 0 : ℚ) * (nOOf hist 0 : ℚ) *
          rnd (0 - rnd ((Fn : ℚ) / (nOOf hist 0 : ℚ)))) * rnd (0 - rnd ((Fn : ℚ) / (nOOf hist 0 : ℚ)))) -
        otsuSigma hist 0| ≤ otsuErrBound N Fn lo hi := by
      by_cases h1 : nBOf hist 0 = 0
      · rw [otsuSigma_of_nB_zero h1, h1]
        have z : rnd (0 : ℚ) = 0 := by simpa using c0
        simp [z]
        exact otsuErrBound_nonneg _ _ _ _
      · have := sigma_err hr 0 (rnd ((Fn : ℚ) / (nOOf hist 0 : ℚ))) (nBOf hist 0 : ℚ) (nOOf hist 0 : ℚ)
          (sBOf hist 0 : ℚ) ((Fn - sBOf hist 0 : ℕ) : ℚ) (N : ℚ) ((N : ℚ) * (N : ℚ))
          ((hi - lo : ℕ) : ℚ) Emax
          (by exact_mod_cast Nat.pos_of_ne_zero h1) (by exact_mod_cast Nat.pos_of_ne_zero hH)
          (by
            have : nBOf hist 0 + nOOf hist 0 = N := by
              have := hNle 0 (by omega); unfold nOOf; omega
            exact_mod_cast this)
          (by exact_mod_cast Nat.mul_le_mul (hNle 0 (by omega)) (hOle 0)) hEm0
          (le_trans hmuB (hEmax 0 (by omega))) (le_trans hmuO (hEmax 0 (by omega)))
          (hΔ 0 (by omega) h1 hH)
        have hsig : otsuSigma hist 0 = (nBOf hist 0 : ℚ) * (nOOf hist 0 : ℚ) *
            ((sBOf hist 0 : ℚ) / (nBOf hist 0 : ℚ) - ((Fn - sBOf hist 0 : ℕ) : ℚ) / (nOOf hist 0 : ℚ)) *
            ((sBOf hist 0 : ℚ) / (nBOf hist 0 : ℚ) - ((Fn - sBOf hist 0 : ℕ) : ℚ) / (nOOf hist 0 : ℚ)) := by
          unfold otsuSigma sigmaOf
          rw [if_neg (by rintro (h | h); exact h1 h; exact hH h)]
        rw [hsig]
        exact this
    -- put the initial values of the model in this form
    have einit : otsuPick
        (otsuTrace (α := Rd rnd) (rdCast rnd) (hOf hist) (nBOf hist) (nOOf hist)
          (List.range' 1 (hist.length - 1)) (rdCast rnd 0) (rdCast rnd Fn / rdCast rnd (nOOf hist 0)))
        (rdCast rnd (nBOf hist 0) * rdCast rnd (nOOf hist 0) *
          (rdCast rnd 0 - rdCast rnd Fn / rdCast rnd (nOOf hist 0)) *
          (rdCast rnd 0 - rdCast rnd Fn / rdCast rnd (nOOf hist 0))) 0 =
        otsuPick
        (otsuTrace (α := Rd rnd) (rdCast rnd) (hOf hist) (nBOf hist) (nOOf hist)
          (List.range' 1 (hist.length - 1)) (0 : ℚ) (rnd ((Fn : ℚ) / (nOOf hist 0 : ℚ)) : ℚ))
        (rnd (rnd ((nBOf hist 0 : ℚ) * (nOOf hist 0 : ℚ) *
          rnd (0 - rnd ((Fn : ℚ) / (nOOf hist 0 : ℚ)))) * rnd (0 - rnd ((Fn : ℚ) / (nOOf hist 0 : ℚ)))) : ℚ) 0 := by
      have a1 : (rdCast rnd 0 : Rd rnd) = (0 : ℚ) := c0
      have a2 : (rdCast rnd Fn / rdCast rnd (nOOf hist 0) : Rd rnd) =
          (rnd ((Fn : ℚ) / (nOOf hist 0 : ℚ)) : ℚ) := by
        show rnd (rnd ((Fn : ℕ) : ℚ) / rnd ((nOOf hist 0 : ℕ) : ℚ)) = _
        rw [cF, cH]
      have a3 : (rdCast rnd (nBOf hist 0) * rdCast rnd (nOOf hist 0) : Rd rnd) =
          ((nBOf hist 0 : ℚ) * (nOOf hist 0 : ℚ) : ℚ) := by
        show rnd (rnd ((nBOf hist 0 : ℕ) : ℚ) * rnd ((nOOf hist 0 : ℕ) : ℚ)) = _
        rw [cB, cH, cP]
      rw [a2, a3, a1]
      rfl
    rw [einit]
    exact otsuPick_near_optimal (α := Rd rnd) (Rd.val rnd) (fun _ _ => Iff.rfl) (otsuSigma hist)
      (otsuErrBound N Fn lo hi) hist.length _ _ hbest htrace (otsuSigma_nonneg hist)
      (fun T' hT' => by
        by_cases h1 : nBOf hist T' = 0
        · exact Or.inr (Or.inl (otsuSigma_of_nB_zero h1))
        · by_cases h2 : nOOf hist T' = 0
          · exact Or.inr (Or.inl (otsuSigma_of_nO_zero h2))
          · by_cases h0 : T' = 0
            · exact Or.inl h0
            · exact Or.inr (Or.inr (otsuTrace_mem _ hist (hist.length - 1) 1 _ _ (by omega) T'
                (by omega) hT' h1 h2)))
      T hT

/-! ## 6. what the check compares: `smax − sgot ≤ margin` -/

/-- the answer of `otsuPick` is the initial level or a level of the list -/
theorem otsuPick_mem {α : Type} [LT α] [DecidableLT α] (l : List (Nat × α)) :
    ∀ (best : α) (bestT : Nat), otsuPick l best bestT = bestT ∨ ∃ s, (otsuPick l best bestT, s) ∈ l := by
  induction l with
  | nil => intro best bestT; exact Or.inl rfl
  | cons p rest ih =>
    intro best bestT
    obtain ⟨T, s⟩ := p
    by_cases hb : best < s
    · simp only [otsuPick, if_pos hb]
      rcases ih s T with h | ⟨s', hs'⟩
      · right; exact ⟨s, by rw [h]; exact List.mem_cons_self⟩
      · right; exact ⟨s', List.mem_cons_of_mem _ hs'⟩
    · simp only [otsuPick, if_neg hb]
      rcases ih best bestT with h | ⟨s', hs'⟩
      · left; exact h
      · right; exact ⟨s', List.mem_cons_of_mem _ hs'⟩

/-- whatever the arithmetic, `otsu` returns a level of the histogram (or 0) -/
theorem otsuGen_lt {α : Type} [Add α] [Sub α] [Mul α] [Div α] [LT α] [DecidableLT α]
    (cast : Nat → α) (hist : List Nat) : otsuGen cast hist < hist.length ∨ otsuGen cast hist = 0 := by
  rw [otsuGen_eq_gen]
  split_ifs with hn hH
  · exact Or.inr rfl
  · exact Or.inr rfl
  · rw [otsuLoop_eq_pick]
    rcases otsuPick_mem (otsuTrace cast (hOf hist) (nBOf hist) (nOOf hist)
      (List.range' 1 (hist.length - 1)) _ _) _ 0 with h | ⟨s, hs⟩
    · exact Or.inr h
    · have := (otsuTrace_sub cast _ _ _ _ _ _ _ hs).1
      simp only [List.mem_range'_1] at this
      left; omega

/-- `sigmaAll[T]` as the driver reads it -/
theorem sigmaAll_getD (hist : List Nat) {T : Nat} (hT : T < hist.length) (d : ℚ) :
    (sigmaAll hist).getD T d = otsuSigma hist T := by
  rw [List.getD_eq_getElem?_getD, sigmaAll_getElem? hist T hT]; rfl

/-- the maximum the driver prints is the exact `σ` at the exact model's threshold -/
theorem listMax_sigmaAll (hist : List Nat) (hn : 0 < hist.length) :
    listMax (sigmaAll hist) = otsuSigma hist (otsuGen ratCast hist) := by
  obtain ⟨h1, h2, _⟩ := otsuGen_first_argmax' hist
  have hTs : otsuGen ratCast hist < hist.length := by
    rcases h1 with h | h
    · exact h
    · rw [h]; exact hn
  have hget : ∀ T (h : T < (sigmaAll hist).length), (sigmaAll hist)[T] = otsuSigma hist T := by
    intro T h
    rw [List.getElem_eq_iff]
    exact sigmaAll_getElem? _ T (by rwa [sigmaAll_length] at h)
  have hTs' : otsuGen ratCast hist < (sigmaAll hist).length := by rw [sigmaAll_length]; exact hTs
  rw [listMax_eq _ _ hTs' (by rw [hget]; exact otsuSigma_nonneg _ _)
    (fun T h => by rw [hget, hget]; exact h2 T (by rwa [sigmaAll_length] at h)), hget]

theorem otsuMargin_eq (hist : List Nat) : otsuMargin hist =
    2 * otsuErrBound (nBOf hist (hist.length - 1)) (sBOf hist (hist.length - 1))
      (loOf hist) (lastNonzero hist) := rfl

/-- **The guarded comparison of the check is sound.**  `smax − sgot ∈ [0, otsuMargin hist]` whenever
    `got` is the threshold computed in rounded arithmetic. -/
theorem otsu_margin_sound {rnd : ℚ → ℚ} (hr : Rounding rnd) (hist : List Nat)
    (hne : ∃ v ∈ hist, v ≠ 0) (hlen : hist.length ≤ 2 ^ 32)
    (hNN : nBOf hist (hist.length - 1) * nBOf hist (hist.length - 1) ≤ 2 ^ 53)
    (hFF : sBOf hist (hist.length - 1) ≤ 2 ^ 53) :
    otsuGen (α := Rd rnd) (rdCast rnd) hist < hist.length ∧
    0 ≤ listMax (sigmaAll hist) - (sigmaAll hist).getD (otsuGen (α := Rd rnd) (rdCast rnd) hist) (-1) ∧
    listMax (sigmaAll hist) - (sigmaAll hist).getD (otsuGen (α := Rd rnd) (rdCast rnd) hist) (-1) ≤
      otsuMargin hist := by
  have hn : 0 < hist.length := by
    obtain ⟨v, hv, _⟩ := hne
    exact List.length_pos_of_mem hv
  have hlt : otsuGen (α := Rd rnd) (rdCast rnd) hist < hist.length := by
    rcases otsuGen_lt (α := Rd rnd) (rdCast rnd) hist with h | h
    · exact h
    · rw [h]; exact hn
  have hTs : otsuGen ratCast hist < hist.length := by
    rcases (otsuGen_first_argmax' hist).1 with h | h
    · exact h
    · rw [h]; exact hn
  rw [sigmaAll_getD hist hlt, listMax_sigmaAll hist hn, otsuMargin_eq]
  refine ⟨hlt, ?_, ?_⟩
  · have := (otsuGen_first_argmax' hist).2.1 _ hlt
    linarith
  · have := otsuGen_rd_near_optimal hr hist hne hlen hNN hFF _ hTs
    linarith

end Mahotas.C16
