/-
C16 (round 2) — `ignore_zeros` is "remove the zero pixels", and Otsu's threshold separates the
occupied levels (two-level images as a corollary of the first-argmax theorem).
-/
import Mahotas.Proofs.C16
import Mahotas.Proofs.C16Otsu
import Mahotas.Proofs.C16Rc
namespace Mahotas.C16
open Mahotas

/-! ## `ignore_zeros` -/

theorem foldl_modify_size (l : List Nat) (h : Array Nat) :
    (l.foldl (fun h v => h.modify v (· + 1)) h).size = h.size := by
  induction l generalizing h with
  | nil => rfl
  | cons v vs ih => simp only [List.foldl_cons]; rw [ih]; simp

theorem fullhistogram_size (img : List Nat) : (fullhistogram img).size = img.foldl max 0 + 1 := by
  unfold fullhistogram
  rw [foldl_modify_size]; simp

theorem foldl_max_filter (img : List Nat) (a : Nat) :
    (img.filter (· ≠ 0)).foldl max a = img.foldl max a := by
  induction img generalizing a with
  | nil => rfl
  | cons x xs ih =>
    by_cases hx : x = 0
    · subst hx
      have e : List.filter (· ≠ 0) (0 :: xs) = List.filter (· ≠ 0) xs := by simp
      rw [e, ih]; simp
    · have e : List.filter (· ≠ 0) (x :: xs) = x :: List.filter (· ≠ 0) xs := by simp [hx]
      rw [e]
      simp only [List.foldl_cons]
      exact ih _

theorem histOf_length (img : List Nat) (iz : Bool) : (histOf img iz).length = img.foldl max 0 + 1 := by
  unfold histOf
  cases iz <;> simp [fullhistogram_size]

theorem histOf_false_getD (img : List Nat) (i : Nat) : (histOf img false).getD i 0 = img.count i := by
  have := fullhistogram_count img i
  simpa [histOf] using this

theorem histOf_true_getD (img : List Nat) (i : Nat) :
    (histOf img true).getD i 0 = if i = 0 then 0 else img.count i := by
  have := fullhistogram_count img i
  simp only [histOf, if_true]
  rw [List.getD_eq_getElem?_getD, List.getElem?_set]
  by_cases hi : i = 0
  · subst hi
    simp only [if_true]
    split <;> simp
  · have h0 : ¬ 0 = i := fun h => hi h.symm
    simp only [h0, if_false, hi]
    simpa using this

theorem count_filter_ne_zero (img : List Nat) (i : Nat) :
    (img.filter (· ≠ 0)).count i = if i = 0 then 0 else img.count i := by
  by_cases hi : i = 0
  · subst hi
    simp [List.count_eq_zero]
  · simp only [hi, if_false]
    rw [List.count_filter]
    simpa using hi

/-- clearing bin 0 of the histogram = the histogram of the image without its zero pixels
    (same number of bins: the largest level is unchanged, and an all-zero image gives `[0]` either way) -/
theorem histOf_ignore_zeros (img : List Nat) :
    histOf img true = histOf (img.filter (· ≠ 0)) false := by
  apply List.ext_getElem?
  intro i
  have h1 := histOf_true_getD img i
  have h2 := histOf_false_getD (img.filter (· ≠ 0)) i
  rw [count_filter_ne_zero, ← h1] at h2
  have l1 := histOf_length img true
  have l2 := histOf_length (img.filter (· ≠ 0)) false
  rw [foldl_max_filter] at l2
  by_cases hi : i < img.foldl max 0 + 1
  · rw [List.getD_eq_getElem?_getD, List.getD_eq_getElem?_getD,
      List.getElem?_eq_getElem (by omega), List.getElem?_eq_getElem (by omega)] at h2
    rw [List.getElem?_eq_getElem (by omega), List.getElem?_eq_getElem (by omega)]
    simpa using h2.symm
  · rw [List.getElem?_eq_none (by omega), List.getElem?_eq_none (by omega)]

/-- `rc` of the one-bin empty histogram is level 0, for every arithmetic -/
theorem rcGen_singleton_zero {α : Type} [Add α] [Sub α] [Mul α] [Div α] [LT α] [DecidableLT α]
    (cast : Nat → α) : rcGen cast [0] = cast 0 := by
  simp [rcGen, lastNonzero, rcLoop, List.range, List.range.loop]

theorem filter_ne_zero_eq_nil {img : List Nat} (h : img.count 0 = img.length) :
    img.filter (· ≠ 0) = [] := by
  rw [List.filter_eq_nil_iff]
  intro a ha
  have := List.count_eq_length.1 h a ha
  simp [this]

theorem hOf_histOf (img : List Nat) (iz : Bool) (i : Nat) :
    hOf (histOf img iz) i = if iz = true ∧ i = 0 then 0 else img.count i := by
  rw [hOf_eq]
  cases iz
  · rw [histOf_false_getD]; simp
  · rw [histOf_true_getD]; simp

/-- `rc` with `ignore_zeros` = `rc` of the image without its zero pixels (every arithmetic) -/
theorem rcImg_ignore_zeros {α : Type} [Add α] [Sub α] [Mul α] [Div α] [LT α] [DecidableLT α]
    (cast : Nat → α) (img : List Nat) :
    rcImg cast img true = rcImg cast (img.filter (· ≠ 0)) false := by
  have hr : rcImg cast (img.filter (· ≠ 0)) false = rcGen cast (histOf img true) := by
    simp only [rcImg, Bool.false_and, ← histOf_ignore_zeros]; rfl
  rw [hr]
  unfold rcImg
  by_cases hz : (fullhistogram img).getD 0 0 = img.length
  · have hc : img.count 0 = img.length := by rw [← fullhistogram_count]; exact hz
    have hnil := filter_ne_zero_eq_nil hc
    have hh : histOf img true = [0] := by
      rw [histOf_ignore_zeros, hnil]; rfl
    rw [hh, rcGen_singleton_zero]
    simp only [Bool.true_and, beq_iff_eq, hz, if_true]
  · simp only [Bool.true_and, beq_iff_eq, hz, if_false]

/-! ## Otsu separates the occupied levels -/

/-- nothing above the largest occupied level: the upper class is empty from there on -/
theorem nO_zero_of_hi (hist : List Nat) (hne : ∃ v ∈ hist, v ≠ 0) :
    nOOf hist (lastNonzero hist) = 0 := by
  have hn := hi_lt_length hist hne
  obtain ⟨b3, b4⟩ := tail_bounds hist 1 0 (show lastNonzero hist ≤ hist.length - 1 by omega) (by omega)
    (fun i hi _ h0 => absurd ((lastNonzero_spec hist hne).2 i hi) h0)
  unfold nOOf
  omega

/-- with both classes occupied the between-class variance is strictly positive
    (`μ_B ≤ t < t+1 ≤ μ_O`) -/
theorem otsuSigma_pos (hist : List Nat) (hne : ∃ v ∈ hist, v ≠ 0) {t : Nat}
    (h1 : loOf hist ≤ t) (h2 : t < lastNonzero hist) : 0 < otsuSigma hist t := by
  have hn := hi_lt_length hist hne
  obtain ⟨_, b2, b3, _⟩ := class_bounds hist hne h1 h2
  have pB : (0 : ℚ) < (nBOf hist t : ℚ) := by exact_mod_cast cB_pos hist hne h1 (by omega)
  have pO : (0 : ℚ) < (nOOf hist t : ℚ) := by exact_mod_cast cO_pos hist hne h2
  have q2 : (sBOf hist t : ℚ) / (nBOf hist t : ℚ) ≤ (t : ℚ) := by
    rw [div_le_iff₀ pB]; exact_mod_cast b2
  have q3 : (t : ℚ) + 1 ≤
      ((sBOf hist (hist.length - 1) - sBOf hist t : ℕ) : ℚ) / (nOOf hist t : ℚ) := by
    rw [le_div_iff₀ pO]; exact_mod_cast b3
  unfold otsuSigma sigmaOf
  have hB : nBOf hist t ≠ 0 := fun h => by rw [h] at pB; simp at pB
  have hO : nOOf hist t ≠ 0 := fun h => by rw [h] at pO; simp at pO
  rw [if_neg (by rintro (h | h); exact hB h; exact hO h)]
  have hd : (sBOf hist t : ℚ) / (nBOf hist t : ℚ) -
      ((sBOf hist (hist.length - 1) - sBOf hist t : ℕ) : ℚ) / (nOOf hist t : ℚ) ≤ -1 := by linarith
  have hsq : 0 < ((sBOf hist t : ℚ) / (nBOf hist t : ℚ) -
      ((sBOf hist (hist.length - 1) - sBOf hist t : ℕ) : ℚ) / (nOOf hist t : ℚ)) *
      ((sBOf hist t : ℚ) / (nBOf hist t : ℚ) -
      ((sBOf hist (hist.length - 1) - sBOf hist t : ℕ) : ℚ) / (nOOf hist t : ℚ)) := by nlinarith
  rw [mul_assoc]
  exact mul_pos (mul_pos pB pO) hsq

/-- **Otsu's threshold lies between the smallest and the largest occupied level** whenever there
    are at least two: both classes `{≤ T}` and `{> T}` are occupied. -/
theorem otsuGen_separates (hist : List Nat) (hne : ∃ v ∈ hist, v ≠ 0)
    (hlh : loOf hist < lastNonzero hist) :
    loOf hist ≤ otsuGen ratCast hist ∧ otsuGen ratCast hist < lastNonzero hist := by
  have hn := hi_lt_length hist hne
  obtain ⟨hlen, hmax, _⟩ := otsuGen_first_argmax' hist
  have hpos : 0 < otsuSigma hist (otsuGen ratCast hist) :=
    lt_of_lt_of_le (otsuSigma_pos hist hne (Nat.le_refl _) hlh) (hmax _ (by omega))
  have hTn : otsuGen ratCast hist < hist.length := by
    rcases hlen with h | h
    · exact h
    · rw [h]; omega
  constructor
  · by_contra hc
    have : nBOf hist (otsuGen ratCast hist) = 0 :=
      nB_eq_zero hist hTn (fun i hi => (loOf_spec hist hne).2 i (by omega))
    rw [otsuSigma_of_nB_zero this] at hpos
    exact lt_irrefl _ hpos
  · by_contra hc
    have : nOOf hist (otsuGen ratCast hist) = 0 :=
      nO_zero_mono hist (by omega) hTn (nO_zero_of_hi hist hne)
    rw [otsuSigma_of_nO_zero this] at hpos
    exact lt_irrefl _ hpos

/-- levels of a two-level histogram -/
theorem two_level_lo_hi (hist : List Nat) (a b : Nat) (hab : a < b)
    (ha : hOf hist a ≠ 0) (hb : hOf hist b ≠ 0) (hall : ∀ i, hOf hist i ≠ 0 → i = a ∨ i = b) :
    (∃ v ∈ hist, v ≠ 0) ∧ loOf hist = a ∧ lastNonzero hist = b := by
  have hne : ∃ v ∈ hist, v ≠ 0 := by
    have hl := lt_length_of_hOf_ne ha
    refine ⟨hist[a], List.getElem_mem hl, ?_⟩
    rw [← hOf_of_lt hist hl]; exact ha
  obtain ⟨l1, l2⟩ := loOf_spec hist hne
  obtain ⟨u1, u2⟩ := lastNonzero_spec hist hne
  refine ⟨hne, ?_, ?_⟩
  · rcases hall _ l1 with h | h
    · exact h
    · exfalso
      exact ha (l2 a (by omega))
  · rcases hall _ u1 with h | h
    · exfalso
      exact hb (u2 b (by omega))
    · exact h

end Mahotas.C16
