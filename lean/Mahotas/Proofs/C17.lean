/-
C17 — helper lemmas about the wavelet model (`Model/C17.lean`), over an arbitrary field `K`
(characteristic ≠ 2 where a division by two has to be undone).
-/
import Mahotas.Model.C17Core
import Mathlib.Tactic.Ring
import Mathlib.Tactic.FieldSimp
import Mathlib.Tactic.Linarith
namespace Mahotas.C17
open Mahotas

variable {K : Type} [Field K]

@[simp] theorem zero_eq : (zero : K) = 0 := by simp [zero]
@[simp] theorem two_eq : (two : K) = 2 := by simp [two]

/-! ### Haar rows -/

theorem haarRow_low (N : Nat) (f : Nat → K) (x : Nat) (hx : x < N / 2) :
    haarRow N f x = f (2 * x) + f (2 * x + 1) := by
  simp [haarRow, hx]

theorem haarRow_high (N : Nat) (f : Nat → K) (x : Nat) (hx : x < N / 2) :
    haarRow N f (N / 2 + x) = f (2 * x + 1) - f (2 * x) := by
  have h1 : ¬ (N / 2 + x < N / 2) := by omega
  have h2 : N / 2 + x < 2 * (N / 2) := by omega
  have h3 : N / 2 + x - N / 2 = x := by omega
  simp [haarRow, h1, h2, h3]

/-- the row round trip: `ihaar` undoes `haar` on every even-length row -/
theorem ihaarRow_haarRow (h2 : (2 : K) ≠ 0) (N : Nat) (hN : N % 2 = 0) (f : Nat → K) (k : Nat)
    (hk : k < N) : ihaarRow N (haarRow N f) k = f k := by
  have h1 : k < 2 * (N / 2) := by omega
  have h3 : k / 2 < N / 2 := by omega
  unfold ihaarRow
  simp only [h1, if_true]
  rw [haarRow_low N f _ h3, haarRow_high N f _ h3]
  rcases Nat.mod_two_eq_zero_or_one k with hk0 | hk1
  · have e : 2 * (k / 2) = k := by omega
    simp only [hk0, if_true, e, two_eq]
    field_simp
    ring
  · have e : 2 * (k / 2) + 1 = k := by omega
    have ne : ¬ (k % 2 = 0) := by omega
    simp only [ne, if_false, e, two_eq]
    field_simp
    ring

/-- `ihaarRow` only reads positions below `N` -/
theorem ihaarRow_congr (N : Nat) (g g' : Nat → K) (h : ∀ i, i < N → g i = g' i) (k : Nat) :
    ihaarRow N g k = ihaarRow N g' k := by
  unfold ihaarRow
  by_cases h1 : k < 2 * (N / 2)
  · have a1 : k / 2 < N := by omega
    have a2 : N / 2 + k / 2 < N := by omega
    simp only [h1, if_true, h _ a1, h _ a2]
  · simp only [h1, if_false]

/-! ### linearity of the four row kernels: `T (a·f + b·g) = a·T f + b·T g`, for every length and position -/

theorem haarRow_linear (N : Nat) (a b : K) (f g : Nat → K) (x : Nat) :
    haarRow N (fun i => a * f i + b * g i) x = a * haarRow N f x + b * haarRow N g x := by
  unfold haarRow
  by_cases h1 : x < N / 2
  · simp only [h1, if_true]; ring
  · by_cases h2 : x < 2 * (N / 2)
    · simp only [h1, h2, if_true, if_false]; ring
    · simp only [h1, h2, if_false, zero_eq]; ring

theorem ihaarRow_linear (N : Nat) (a b : K) (f g : Nat → K) (x : Nat) :
    ihaarRow N (fun i => a * f i + b * g i) x = a * ihaarRow N f x + b * ihaarRow N g x := by
  unfold ihaarRow
  by_cases h1 : x < 2 * (N / 2)
  · by_cases h2 : x % 2 = 0
    · simp only [h1, h2, if_true, two_eq]; ring
    · simp only [h1, h2, if_true, if_false, two_eq]; ring
  · simp only [h1, if_false, zero_eq]; ring

theorem access_linear (N : Nat) (a b : K) (f g : Nat → K) (p : Int) :
    access N (fun i => a * f i + b * g i) p = a * access N f p + b * access N g p := by
  unfold access
  by_cases h : 0 ≤ p ∧ p < (N : Int)
  · simp only [h, and_self, if_true]
  · simp only [h, if_false, zero_eq]; ring

theorem access_natCast (N : Nat) (f : Nat → K) (p : Nat) :
    access N f ((p : Nat) : Int) = if p < N then f p else 0 := by
  unfold access
  by_cases h : p < N
  · simp [h]
  · simp [h]

/-- a weighted accumulation `acc + w i * u i` is linear in `u` -/
theorem foldl_linear (l : List Nat) (w u v : Nat → K) (a b z1 z2 : K) :
    l.foldl (fun acc i => acc + w i * (a * u i + b * v i)) (a * z1 + b * z2)
      = a * l.foldl (fun acc i => acc + w i * u i) z1 + b * l.foldl (fun acc i => acc + w i * v i) z2 := by
  induction l generalizing z1 z2 with
  | nil => simp
  | cons i l ih =>
    simp only [List.foldl_cons]
    have e : a * z1 + b * z2 + w i * (a * u i + b * v i) = a * (z1 + w i * u i) + b * (z2 + w i * v i) := by ring
    rw [e, ih]

theorem foldl_linear0 (l : List Nat) (w u v : Nat → K) (a b : K) :
    l.foldl (fun acc i => acc + w i * (a * u i + b * v i)) 0
      = a * l.foldl (fun acc i => acc + w i * u i) 0 + b * l.foldl (fun acc i => acc + w i * v i) 0 := by
  have := foldl_linear l w u v a b 0 0
  simpa using this

theorem waveletRow_linear (cs : List K) (N : Nat) (a b : K) (f g : Nat → K) (x : Nat) :
    waveletRow cs N (fun i => a * f i + b * g i) x = a * waveletRow cs N f x + b * waveletRow cs N g x := by
  unfold waveletRow
  simp only [access_linear, zero_eq]
  by_cases h1 : x < N / 2
  · simp only [h1, if_true]
    exact foldl_linear0 _ (fun ci => cs.getD (cs.length - ci - 1) 0)
      (fun ci => access N f ((2 * x + ci : Nat) : Int)) (fun ci => access N g ((2 * x + ci : Nat) : Int)) a b
  · by_cases h2 : x < 2 * (N / 2)
    · simp only [h1, h2, if_true, if_false]
      exact foldl_linear0 _ (fun ci => if ci % 2 = 0 then -(cs.getD ci 0) else cs.getD ci 0)
        (fun ci => access N f ((2 * (x - N / 2) + ci : Nat) : Int))
        (fun ci => access N g ((2 * (x - N / 2) + ci : Nat) : Int)) a b
    · simp only [h1, h2, if_false]; ring

theorem iwaveletRow_linear (cs : List K) (N : Nat) (a b : K) (f g : Nat → K) (x : Nat) :
    iwaveletRow cs N (fun i => a * f i + b * g i) x
      = a * iwaveletRow cs N f x + b * iwaveletRow cs N g x := by
  unfold iwaveletRow
  simp only [access_linear, zero_eq, two_eq]
  rw [foldl_linear0, foldl_linear0]
  ring

/-! ### the 2-D glue -/

theorem rowsPass_linear (T : Nat → (Nat → K) → Nat → K)
    (hT : ∀ N a b f g x, T N (fun i => a * f i + b * g i) x = a * T N f x + b * T N g x)
    (N1 : Nat) (a b : K) (f g : Im K) :
    rowsPass T N1 (fun y x => a * f y x + b * g y x)
      = fun y x => a * rowsPass T N1 f y x + b * rowsPass T N1 g y x := by
  funext y x
  exact hT N1 a b (f y) (g y) x

theorem colsPass_linear (T : Nat → (Nat → K) → Nat → K)
    (hT : ∀ N a b f g x, T N (fun i => a * f i + b * g i) x = a * T N f x + b * T N g x)
    (N0 : Nat) (a b : K) (f g : Im K) :
    colsPass T N0 (fun y x => a * f y x + b * g y x)
      = fun y x => a * colsPass T N0 f y x + b * colsPass T N0 g y x := by
  funext y x
  exact hT N0 a b (fun k => f k x) (fun k => g k x) y

/-- a row kernel applied to the rows commutes with a linear kernel applied to the columns -/
theorem rows_cols_comm_haar (T : Nat → (Nat → K) → Nat → K)
    (hT : ∀ N a b f g x, T N (fun i => a * f i + b * g i) x = a * T N f x + b * T N g x)
    (N0 N1 : Nat) (g : Im K) :
    rowsPass T N1 (colsPass haarRow N0 g) = colsPass haarRow N0 (rowsPass T N1 g) := by
  have hz : ∀ N x, T N (fun _ => (0 : K)) x = 0 := by
    intro N x
    have := hT N 0 0 (fun _ => 0) (fun _ => 0) x
    simpa using this
  funext y x
  show T N1 (fun j => haarRow N0 (fun k => g k j) y) x = haarRow N0 (fun k => T N1 (g k) x) y
  by_cases h1 : y < N0 / 2
  · have e : (fun j => haarRow N0 (fun k => g k j) y) = fun j => 1 * g (2 * y) j + 1 * g (2 * y + 1) j := by
      funext j; rw [haarRow_low _ _ _ h1]; ring
    rw [e, hT, haarRow_low _ _ _ h1]; ring
  · by_cases h2 : y < 2 * (N0 / 2)
    · have e : (fun j => haarRow N0 (fun k => g k j) y)
          = fun j => 1 * g (2 * (y - N0 / 2) + 1) j + (-1) * g (2 * (y - N0 / 2)) j := by
        funext j; simp only [haarRow, h1, h2, if_true, if_false]; ring
      rw [e, hT]; simp only [haarRow, h1, h2, if_true, if_false]; ring
    · have e : (fun j => haarRow N0 (fun k => g k j) y) = fun _ => (0 : K) := by
        funext j; simp only [haarRow, h1, h2, if_false, zero_eq]
      rw [e, hz]; simp only [haarRow, h1, h2, if_false, zero_eq]

/-! ### sums (energy) -/

/-- `Σ_{k<n} g k` -/
def sumTo (n : Nat) (g : Nat → K) : K :=
  match n with
  | 0 => 0
  | n + 1 => sumTo n g + g n

theorem sumTo_add (n : Nat) (g h : Nat → K) : sumTo n (fun k => g k + h k) = sumTo n g + sumTo n h := by
  induction n with
  | zero => simp [sumTo]
  | succ n ih => simp only [sumTo, ih]; ring

theorem sumTo_mul (n : Nat) (c : K) (g : Nat → K) : sumTo n (fun k => c * g k) = c * sumTo n g := by
  induction n with
  | zero => simp [sumTo]
  | succ n ih => simp only [sumTo, ih]; ring

theorem sumTo_congr (n : Nat) (g h : Nat → K) (e : ∀ k, k < n → g k = h k) : sumTo n g = sumTo n h := by
  induction n with
  | zero => rfl
  | succ n ih =>
    simp only [sumTo]
    rw [ih (fun k hk => e k (by omega)), e n (by omega)]

theorem sumTo_swap (n m : Nat) (g : Nat → Nat → K) :
    sumTo n (fun y => sumTo m (g y)) = sumTo m (fun x => sumTo n (fun y => g y x)) := by
  induction n with
  | zero =>
    simp only [sumTo]
    induction m with
    | zero => rfl
    | succ m ih => simp only [sumTo, ← ih]; ring
  | succ n ih =>
    simp only [sumTo, ih, ← sumTo_add]

/-- pairs: `Σ_{k<2m} g k = Σ_{x<m} (g (2x) + g (2x+1))` -/
theorem sumTo_pairs (m : Nat) (g : Nat → K) :
    sumTo (2 * m) g = sumTo m (fun x => g (2 * x) + g (2 * x + 1)) := by
  induction m with
  | zero => rfl
  | succ m ih =>
    have e : 2 * (m + 1) = 2 * m + 1 + 1 := by ring
    rw [e]
    simp only [sumTo, ih]
    ring

/-- halves: `Σ_{k<2m} g k = Σ_{x<m} (g x + g (m+x))` -/
theorem sumTo_halves (m : Nat) (g : Nat → K) :
    sumTo (2 * m) g = sumTo m (fun x => g x + g (m + x)) := by
  have key : ∀ j, sumTo (m + j) g = sumTo m g + sumTo j (fun x => g (m + x)) := by
    intro j
    induction j with
    | zero => simp [sumTo]
    | succ j ih =>
      have e : m + (j + 1) = (m + j) + 1 := by ring
      rw [e]
      simp only [sumTo, ih]
      ring
  have e : 2 * m = m + m := by ring
  rw [e, key m, sumTo_add]

/-- energy of one Haar row: `Σ (haar f)² = 2 Σ f²` on an even-length row -/
theorem haarRow_energy (N : Nat) (hN : N % 2 = 0) (f : Nat → K) :
    sumTo N (fun k => haarRow N f k ^ 2) = 2 * sumTo N (fun k => f k ^ 2) := by
  obtain ⟨m, rfl⟩ : ∃ m, N = 2 * m := ⟨N / 2, by omega⟩
  rw [sumTo_halves, sumTo_pairs, ← sumTo_mul]
  apply sumTo_congr
  intro x hx
  have hm : 2 * m / 2 = m := by omega
  have l := haarRow_low (2 * m) f x (by omega)
  have h := haarRow_high (2 * m) f x (by omega)
  rw [hm] at h
  rw [l, h]
  ring

/-- a linear row kernel commutes with division by a scalar -/
theorem scale_of_linear (T : Nat → (Nat → K) → Nat → K)
    (hT : ∀ N a b f g x, T N (fun i => a * f i + b * g i) x = a * T N f x + b * T N g x)
    (N : Nat) (c : K) (f : Nat → K) (x : Nat) : T N (fun i => f i / c) x = T N f x / c := by
  have e : (fun i => f i / c) = fun i => (1 / c) * f i + 0 * f i := by funext i; ring
  rw [e, hT]; ring


end Mahotas.C17
