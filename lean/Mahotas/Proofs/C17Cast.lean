/-
C17 — the coefficient tables in an arbitrary ordered field: `coeffsOf code : List K` is the image of the rational
table under the cast `ℚ → K`, and so are the quadrature-mirror residuals and the error constant. This carries the
table bounds (`decide +kernel` over ℚ) to every linearly ordered field.
-/
import Mahotas.Proofs.C17Err
import Mathlib.Data.Rat.Cast.Order
import Mathlib.Algebra.BigOperators.Group.List.Basic
set_option linter.unusedSectionVars false
namespace Mahotas.C17
open Mahotas

section Cast
variable {K : Type} [Field K] [LinearOrder K] [IsStrictOrderedRing K]

theorem coef_cast (mk : Int × Nat) : (coef mk : K) = ((coef mk : ℚ) : K) := by
  unfold coef
  push_cast
  rfl

theorem coeffsOf_cast (code : Nat) : (coeffsOf code : List K) = (coeffsOf code : List ℚ).map (Rat.cast : ℚ → K) := by
  unfold coeffsOf
  rw [List.map_map]
  apply List.map_congr_left
  intro mk _
  exact coef_cast mk

theorem getD_cast (l : List ℚ) (k : Nat) : (l.map (Rat.cast : ℚ → K)).getD k 0 = ((l.getD k 0 : ℚ) : K) := by
  simp only [List.getD_eq_getElem?_getD, List.getElem?_map]
  cases l[k]? <;> simp

theorem sum_cast (l : List ℚ) : ((l.sum : ℚ) : K) = (l.map (Rat.cast : ℚ → K)).sum := by
  induction l with
  | nil => simp
  | cons a l ih => simp only [List.sum_cons, List.map_cons, Rat.cast_add, ih]

theorem qdot_cast (l : List ℚ) (s : Nat) : qdot (l.map (Rat.cast : ℚ → K)) s = ((qdot l s : ℚ) : K) := by
  unfold qdot
  rw [sum_cast, List.map_map, List.length_map]
  congr 1
  apply List.map_congr_left
  intro k _
  simp only [Function.comp, getD_cast, Rat.cast_mul]

theorem resid_cast (l : List ℚ) (s : Nat) : resid (l.map (Rat.cast : ℚ → K)) s = ((resid l s : ℚ) : K) := by
  unfold resid
  rw [qdot_cast]
  by_cases h : s = 0 <;> simp [h]

theorem errConst_cast (l : List ℚ) : errConst (l.map (Rat.cast : ℚ → K)) = ((errConst l : ℚ) : K) := by
  unfold errConst
  rw [Rat.cast_div, sum_cast, List.map_map, List.length_map]
  congr 1
  · congr 1
    apply List.map_congr_left
    intro j _
    simp only [Function.comp, resid_cast, Rat.cast_abs]
  · simp

end Cast
end Mahotas.C17
