/-
C17 — `_wavelet_center_compute` for every integer border (`Model/C17Mem.lean: centerComputeI`): the result is the
candidate of the FIRST step `c ≥ 1` whose offsets all exceed the border, it exists for every admissible input, its
sides are powers of two and the embedded image fits.
-/
import Mahotas.Model.C17Mem
import Mathlib.Tactic.Ring
import Mathlib.Tactic.Linarith
namespace Mahotas.C17.Mem
open Mahotas Mahotas.C17

theorem searchC_some (P : Nat → Bool) : ∀ (fuel c r : Nat), searchC P fuel c = some r →
    c ≤ r ∧ r < c + fuel ∧ P r = true ∧ ∀ c', c ≤ c' → c' < r → P c' = false := by
  intro fuel
  induction fuel with
  | zero => intro c r h; simp [searchC] at h
  | succ n ih =>
    intro c r h
    unfold searchC at h
    by_cases hp : P c = true
    · rw [if_pos hp] at h
      cases h
      exact ⟨le_refl _, by omega, hp, fun c' h1 h2 => absurd h2 (by omega)⟩
    · rw [if_neg hp] at h
      obtain ⟨h1, h2, h3, h4⟩ := ih (c + 1) r h
      refine ⟨by omega, by omega, h3, ?_⟩
      intro c' hc hc'
      by_cases e : c' = c
      · subst e; simpa using hp
      · exact h4 c' (by omega) hc'

theorem searchC_isSome (P : Nat → Bool) : ∀ (fuel c r : Nat), c ≤ r → r < c + fuel → P r = true →
    (searchC P fuel c).isSome = true := by
  intro fuel
  induction fuel with
  | zero => intro c r h1 h2; omega
  | succ n ih =>
    intro c r h1 h2 hp
    unfold searchC
    by_cases hc : P c = true
    · rw [if_pos hc]; rfl
    · rw [if_neg hc]
      have : c ≠ r := fun e => hc (e ▸ hp)
      exact ih (c + 1) r (by omega) (by omega) hp

/-- the offsets of candidate `c`: `(2^(⌊log₂ o⌋ + c) − o) / 2` per axis -/
theorem centerCand_snd (o : List Nat) (c : Nat) :
    (centerCand o c).2 = o.map (fun t => (2 ^ (Nat.log2 t + c) - t) / 2) := by
  unfold centerCand
  simp only
  induction o with
  | nil => rfl
  | cons a l ih => simp only [List.map_cons, List.zip_cons_cons, ih]

/-- with `c ≥ 1` every new side exceeds the old one: the image fits behind its offset -/
theorem cand_fits (t c : Nat) (hc : 1 ≤ c) : (2 ^ (Nat.log2 t + c) - t) / 2 + t ≤ 2 ^ (Nat.log2 t + c) := by
  have h1 : t < 2 ^ (Nat.log2 t + 1) := Nat.lt_log2_self
  have h2 : 2 ^ (Nat.log2 t + 1) ≤ 2 ^ (Nat.log2 t + c) := Nat.pow_le_pow_right (by omega) (by omega)
  omega

/-- step `c = 42` always clears a border below `2^40` -/
theorem cand42 (t : Nat) (border : Int) (hb : border < 2 ^ 40) :
    border < (((2 ^ (Nat.log2 t + 42) - t) / 2 : Nat) : Int) := by
  have h1 : t < 2 ^ (Nat.log2 t + 1) := Nat.lt_log2_self
  have e1 : 2 ^ (Nat.log2 t + 42) = 2 ^ Nat.log2 t * 4398046511104 := by rw [Nat.pow_add]
  have e2 : 2 ^ (Nat.log2 t + 1) = 2 ^ Nat.log2 t * 2 := by rw [Nat.pow_add]
  have hp : 1 ≤ 2 ^ Nat.log2 t := Nat.one_le_two_pow
  rw [e1]
  rw [e2] at h1
  have hb' : border < 1099511627776 := by simpa using hb
  omega

/-- what `_wavelet_center_compute` returns, for every integer border -/
theorem centerComputeI_spec (oshape : List Int) (border : Int) (ns d : List Nat)
    (h : centerComputeI oshape border = some (ns, d)) :
    border < 2 ^ 40 ∧ oshape ≠ [] ∧ (∀ o ∈ oshape, 0 < o) ∧
    ∃ c, 1 ≤ c ∧ c ≤ 63 ∧
      ns = (oshape.map Int.toNat).map (fun t => 2 ^ (Nat.log2 t + c)) ∧
      d = (oshape.map Int.toNat).map (fun t => (2 ^ (Nat.log2 t + c) - t) / 2) ∧
      (∀ x ∈ d, border < (x : Int)) ∧
      (∀ c', 1 ≤ c' → c' < c →
        ∃ t ∈ oshape.map Int.toNat, (((2 ^ (Nat.log2 t + c') - t) / 2 : Nat) : Int) ≤ border) ∧
      (border < 0 → c = 1) := by
  unfold centerComputeI at h
  by_cases h1 : border ≥ 2 ^ 40
  · rw [if_pos h1] at h; cases h
  rw [if_neg h1] at h
  by_cases h2 : oshape.isEmpty ∨ oshape.any (· ≤ 0)
  · rw [if_pos h2] at h; cases h
  rw [if_neg h2] at h
  simp only [Option.map_eq_some_iff] at h
  obtain ⟨c, hs, hc⟩ := h
  obtain ⟨g1, g2, g3, g4⟩ := searchC_some _ _ _ _ hs
  have hns : ns = (oshape.map Int.toNat).map (fun t => 2 ^ (Nat.log2 t + c)) := by
    have := congrArg Prod.fst hc
    simpa [centerCand] using this.symm
  have hd : d = (oshape.map Int.toNat).map (fun t => (2 ^ (Nat.log2 t + c) - t) / 2) := by
    have := congrArg Prod.snd hc
    rw [centerCand_snd] at this
    exact this.symm
  have hall : ∀ x ∈ d, border < (x : Int) := by
    intro x hx
    have := List.all_eq_true.mp g3 x (by rw [hc]; exact hx)
    simpa using this
  have hmin : ∀ c', 1 ≤ c' → c' < c →
      ∃ t ∈ oshape.map Int.toNat, (((2 ^ (Nat.log2 t + c') - t) / 2 : Nat) : Int) ≤ border := by
    intro c' l1 l2
    have hf := g4 c' l1 l2
    by_contra hne
    have : (centerCand (oshape.map Int.toNat) c').2.all (fun d => decide (border < (d : Int))) = true := by
      rw [List.all_eq_true]
      intro x hx
      rw [centerCand_snd, List.mem_map] at hx
      obtain ⟨t, ht, rfl⟩ := hx
      simp only [decide_eq_true_eq]
      by_contra hlt
      exact hne ⟨t, ht, by omega⟩
    rw [this] at hf
    cases hf
  refine ⟨by omega, ?_, ?_, c, g1, by omega, hns, hd, hall, hmin, ?_⟩
  · intro e; subst e; exact h2 (Or.inl rfl)
  · intro o ho
    by_contra hle
    apply h2
    right
    rw [List.any_eq_true]
    exact ⟨o, ho, by simpa using (by omega : o ≤ 0)⟩
  · intro hneg
    by_contra hc1
    obtain ⟨t, _, ht⟩ := hmin 1 (le_refl _) (by omega)
    omega

/-- `_wavelet_center_compute` succeeds for every non-empty shape with positive sides and every border below `2^40`
    (negative ones included): the loop `for c in range(1, 64)` never runs out -/
theorem centerComputeI_total (oshape : List Int) (border : Int) (hb : border < 2 ^ 40) (hne : oshape ≠ [])
    (hpos : ∀ o ∈ oshape, 0 < o) : (centerComputeI oshape border).isSome = true := by
  unfold centerComputeI
  rw [if_neg (by omega)]
  have h2 : ¬ (oshape.isEmpty ∨ oshape.any (· ≤ 0)) := by
    intro h
    rcases h with h | h
    · exact hne (List.isEmpty_iff.mp h)
    · rw [List.any_eq_true] at h
      obtain ⟨o, ho, hle⟩ := h
      have := hpos o ho
      simp only [decide_eq_true_eq] at hle
      omega
  rw [if_neg h2]
  simp only [Option.isSome_map]
  apply searchC_isSome _ 63 1 42 (by omega) (by omega)
  rw [List.all_eq_true]
  intro x hx
  rw [centerCand_snd, List.mem_map] at hx
  obtain ⟨t, _, rfl⟩ := hx
  simp only [decide_eq_true_eq]
  exact cand42 t border hb

end Mahotas.C17.Mem
