/-
C17 — energy of the Daubechies analysis transform for coefficient lists that satisfy the quadrature-mirror
identities only approximately: the analysis row kernel is (twice) the adjoint of the synthesis kernel on rows that
vanish below `n − 2`, hence `Σ (wavelet f)² = 2 Σ f² + 2 Σ f · errRow f`, and `|Σ (wavelet f)² − 2E| ≤ 2·errConst·E`.
-/
import Mahotas.Proofs.C17General
import Mathlib.Algebra.Order.BigOperators.Group.Finset
import Mathlib.Algebra.Order.BigOperators.Ring.Finset
set_option linter.unusedSectionVars false
set_option linter.unusedVariables false
namespace Mahotas.C17
open Mahotas

section Alg
variable {K : Type} [Field K]

theorem ext_eq (N : Nat) (f : Nat → K) (p : Nat) : ext N f p = if p < N then f p else 0 := by
  unfold ext; rw [access_natCast]

theorem sum_range_halves (N h : Nat) (hN : N = h + h) (F : Nat → K) :
    ∑ k ∈ Finset.range N, F k = ∑ m ∈ Finset.range h, (F m + F (h + m)) := by
  subst hN
  rw [Finset.sum_range_add, Finset.sum_add_distrib]

/-- **adjointness**: on rows that vanish below `n − 2`, the analysis kernel is twice the adjoint of the synthesis
    kernel -/
theorem wavelet_adjoint (h2 : (2 : K) ≠ 0) (cs : List K) (heven : cs.length % 2 = 0) (N : Nat) (hN : N % 2 = 0)
    (f : Nat → K) (hsupp : ∀ p, p + 2 < cs.length → f p = 0) (g : Nat → K) :
    ∑ k ∈ Finset.range N, waveletRow cs N f k * g k
      = 2 * ∑ x ∈ Finset.range N, f x * iwaveletRow cs N g x := by
  have hNh : N = N / 2 + N / 2 := by omega
  have hN2 : N = 2 * (N / 2) := by omega
  let H : Nat → Nat → K := fun m j =>
    cf cs (cs.length - 1 - j) * g m + sg j * cf cs j * g (N / 2 + m)
  rw [sum_range_halves N (N / 2) hNh]
  have stepB : ∀ m ∈ Finset.range (N / 2),
      waveletRow cs N f m * g m + waveletRow cs N f (N / 2 + m) * g (N / 2 + m)
        = ∑ j ∈ Finset.range cs.length, H m j * ext N f (2 * m + j) := by
    intro m hm
    have hm' := Finset.mem_range.mp hm
    rw [waveletRow_low' cs N f m hm', waveletRow_high cs N f m hm', Finset.sum_mul, Finset.sum_mul,
      ← Finset.sum_add_distrib]
    apply Finset.sum_congr rfl
    intro j _
    simp only [H]; ring
  rw [Finset.sum_congr rfl stepB, Finset.sum_comm]
  have stepC : ∀ j ∈ Finset.range cs.length,
      ∑ m ∈ Finset.range (N / 2), H m j * ext N f (2 * m + j)
        = ∑ x ∈ Finset.range N, if x % 2 = j % 2 ∧ j ≤ x then H ((x - j) / 2) j * f x else 0 := by
    intro j _
    rw [sum_parity_ge N (N / 2) j hN2 (fun x => H ((x - j) / 2) j * f x)]
    apply Finset.sum_congr rfl
    intro m _
    have e1 : (j + 2 * m - j) / 2 = m := by omega
    have e2 : 2 * m + j = j + 2 * m := by omega
    simp only [ext_eq, e1, e2]
    split_ifs <;> simp
  rw [Finset.sum_congr rfl stepC, Finset.sum_comm, Finset.mul_sum]
  apply Finset.sum_congr rfl
  intro x hx
  have hxN := Finset.mem_range.mp hx
  by_cases hxs : x + 2 < cs.length
  · rw [hsupp x hxs]; simp
  · have hxn : cs.length ≤ x + 2 := by omega
    rw [iwaveletRow_closed cs heven N hN g x hxn hxN]
    rw [← Finset.sum_range_reflect
      (fun i => if tap cs.length x i then cf cs i * g ((x + i + 2 - cs.length) / 2) else 0) cs.length]
    rw [← Finset.sum_add_distrib]
    have hS : ∀ S : K, 2 * (f x * (S / 2)) = f x * S := by intro S; field_simp
    rw [hS, Finset.mul_sum]
    apply Finset.sum_congr rfl
    intro j hj
    have hj' := Finset.mem_range.mp hj
    by_cases hp : x % 2 = j % 2
    · have c1 : x % 2 = j % 2 ∧ j ≤ x := ⟨hp, by omega⟩
      have t1 : tap cs.length x (cs.length - 1 - j) := by unfold tap; omega
      have t2 : ¬ tap cs.length x j := by unfold tap; omega
      have e1 : (x + (cs.length - 1 - j) + 2 - cs.length) / 2 = (x - j) / 2 := by omega
      have e2 : (x + 1 - j) / 2 = (x - j) / 2 := by omega
      simp only [c1, t1, t2, if_true, if_false, e1, e2, H, and_self]; ring
    · have c1 : ¬ (x % 2 = j % 2 ∧ j ≤ x) := fun h => hp h.1
      have t1 : ¬ tap cs.length x (cs.length - 1 - j) := by unfold tap; omega
      have t2 : tap cs.length x j := by unfold tap; omega
      simp only [c1, t1, t2, if_true, if_false]; ring

/-- **energy identity** of one analysis row -/
theorem waveletRow_energy_identity (h2 : (2 : K) ≠ 0) (cs : List K) (heven : cs.length % 2 = 0)
    (hrow : RowIdentity cs) (N : Nat) (hN : N % 2 = 0) (f : Nat → K)
    (hsupp : ∀ p, p + 2 < cs.length → f p = 0) :
    ∑ k ∈ Finset.range N, waveletRow cs N f k ^ 2
      = 2 * ∑ x ∈ Finset.range N, f x ^ 2 + 2 * ∑ x ∈ Finset.range N, f x * errRow cs N f x := by
  have h := wavelet_adjoint h2 cs heven N hN f hsupp (waveletRow cs N f)
  simp only [sq]
  rw [h, ← mul_add, ← Finset.sum_add_distrib]
  congr 1
  apply Finset.sum_congr rfl
  intro x hx
  by_cases hxs : x + 2 < cs.length
  · rw [hsupp x hxs]; ring
  · rw [hrow N hN f x (by omega) (Finset.mem_range.mp hx)]; ring

/-- the cross term, regrouped by tap -/
theorem two_mul_sum_mul_errRow (h2 : (2 : K) ≠ 0) (cs : List K) (N : Nat) (f : Nat → K) :
    2 * ∑ x ∈ Finset.range N, f x * errRow cs N f x
      = ∑ j ∈ Finset.range (cs.length - 1), resid cs (lag (cs.length / 2) j)
          * ∑ x ∈ Finset.range N, f x * ext N f (x - (cs.length - 2) + 2 * j) := by
  simp only [errRow, listsum_range]
  have hS : ∀ a S : K, 2 * (a * (S / 2)) = a * S := by intro a S; field_simp
  rw [Finset.mul_sum]
  simp only [Finset.mul_sum]
  rw [Finset.sum_comm]
  apply Finset.sum_congr rfl
  intro x _
  rw [hS, Finset.mul_sum]
  apply Finset.sum_congr rfl
  intro j _
  ring

/-- the rows and columns of an image, as a `Finset` sum -/
theorem sumTo_eq_sum (n : Nat) (g : Nat → K) : sumTo n g = ∑ k ∈ Finset.range n, g k := by
  induction n with
  | zero => simp [sumTo]
  | succ n ih => simp only [sumTo, ih, Finset.sum_range_succ]

/-- the sum of squares of an `N0 × N1` image -/
def energy2 (N0 N1 : Nat) (g : Im K) : K :=
  ∑ y ∈ Finset.range N0, ∑ x ∈ Finset.range N1, g y x ^ 2

theorem energy2_eq_sumTo (N0 N1 : Nat) (g : Im K) :
    energy2 N0 N1 g = sumTo N0 (fun y => sumTo N1 (fun x => g y x ^ 2)) := by
  unfold energy2
  rw [sumTo_eq_sum]
  apply Finset.sum_congr rfl
  intro y _
  rw [sumTo_eq_sum]

theorem energy2_swap (N0 N1 : Nat) (g : Im K) :
    energy2 N0 N1 g = ∑ x ∈ Finset.range N1, ∑ y ∈ Finset.range N0, g y x ^ 2 := by
  unfold energy2
  rw [Finset.sum_comm]

theorem access_congr (N : Nat) (f f' : Nat → K) (h : ∀ p, p < N → f p = f' p) : access N f = access N f' := by
  funext p
  unfold access
  by_cases hp : 0 ≤ p ∧ p < (N : Int)
  · simp only [hp, and_self, if_true]
    exact h _ (by omega)
  · simp only [hp, if_false]

/-- `waveletRow` only reads positions below `N` -/
theorem waveletRow_congr (cs : List K) (N : Nat) (f f' : Nat → K) (h : ∀ p, p < N → f p = f' p) :
    waveletRow cs N f = waveletRow cs N f' := by
  funext x
  unfold waveletRow
  rw [access_congr N f f' h]

theorem waveletRow_eq_zero (cs : List K) (N : Nat) (f : Nat → K) (h : ∀ p, p < N → f p = 0) (x : Nat) :
    waveletRow cs N f x = 0 := by
  rw [waveletRow_congr cs N f (fun _ => 0) h]
  exact linear_zero (waveletRow cs) (waveletRow_linear cs) N x

theorem daubechies2_congr (cs : List K) (N0 N1 : Nat) (f f' : Im K)
    (h : ∀ y x, y < N0 → x < N1 → f y x = f' y x) : daubechies2 cs N0 N1 f = daubechies2 cs N0 N1 f' := by
  funext y x
  show waveletRow cs N0 (fun k => waveletRow cs N1 (f k) x) y
    = waveletRow cs N0 (fun k => waveletRow cs N1 (f' k) x) y
  rw [waveletRow_congr cs N0 _ (fun k => waveletRow cs N1 (f' k) x)]
  intro k hk
  show waveletRow cs N1 (f k) x = waveletRow cs N1 (f' k) x
  rw [waveletRow_congr cs N1 (f k) (f' k) (fun p hp => h k p hk hp)]

theorem energy2_congr (N0 N1 : Nat) (f f' : Im K) (h : ∀ y x, y < N0 → x < N1 → f y x = f' y x) :
    energy2 N0 N1 f = energy2 N0 N1 f' := by
  unfold energy2
  apply Finset.sum_congr rfl
  intro y hy
  apply Finset.sum_congr rfl
  intro x hx
  rw [h y x (Finset.mem_range.mp hy) (Finset.mem_range.mp hx)]

end Alg

/-! ### bounds over an ordered field -/
section Bounds
variable {K : Type} [Field K] [LinearOrder K] [IsStrictOrderedRing K]

/-- a shifted partial sum of a nonnegative sequence supported in `[0,N)` -/
theorem sum_shift_le (N c d : Nat) (G : Nat → K) (h0 : ∀ p, 0 ≤ G p) (hN : ∀ p, N ≤ p → G p = 0) :
    ∑ x ∈ Finset.range N, (if c ≤ x then G (x - c + d) else 0) ≤ ∑ p ∈ Finset.range N, G p := by
  have e : ∑ x ∈ Finset.range N, (if c ≤ x then G (x - c + d) else 0)
      = ∑ x ∈ (Finset.range N).filter (fun x => c ≤ x ∧ x - c + d < N), G (x - c + d) := by
    rw [Finset.sum_filter]
    apply Finset.sum_congr rfl
    intro x _
    by_cases h1 : c ≤ x
    · by_cases h2 : x - c + d < N
      · simp [h1, h2]
      · simp [h1, h2, hN _ (by omega : N ≤ x - c + d)]
    · simp [h1]
  rw [e, ← Finset.sum_image (f := G) (g := fun x => x - c + d)]
  · apply Finset.sum_le_sum_of_subset_of_nonneg
    · intro p hp
      simp only [Finset.mem_image, Finset.mem_filter, Finset.mem_range] at hp ⊢
      obtain ⟨x, hx, rfl⟩ := hp
      exact hx.2.2
    · intro p _ _; exact h0 p
  · intro x hx y hy hxy
    simp only [Finset.mem_coe, Finset.mem_filter, Finset.mem_range] at hx hy
    simp only at hxy
    omega

/-- a shifted autocorrelation of a row that vanishes below `c` is at most the energy -/
theorem abs_corr_le (N c d : Nat) (f : Nat → K) (hf : ∀ p, p < c → f p = 0) :
    |∑ x ∈ Finset.range N, f x * ext N f (x - c + d)| ≤ ∑ x ∈ Finset.range N, f x ^ 2 := by
  have hE : ∑ p ∈ Finset.range N, ext N f p ^ 2 = ∑ p ∈ Finset.range N, f p ^ 2 := by
    apply Finset.sum_congr rfl
    intro p hp
    rw [ext_eq, if_pos (Finset.mem_range.mp hp)]
  have h1 : ∑ x ∈ Finset.range N, (if c ≤ x then ext N f (x - c + d) ^ 2 else 0)
      ≤ ∑ p ∈ Finset.range N, f p ^ 2 := by
    rw [← hE]
    apply sum_shift_le N c d (fun p => ext N f p ^ 2) (fun p => sq_nonneg _)
    intro p hp
    have : ¬ p < N := by omega
    simp only [ext_eq, this, if_false]
    ring
  have h2 : ∑ x ∈ Finset.range N, 2 * |f x * ext N f (x - c + d)|
      ≤ ∑ x ∈ Finset.range N, (f x ^ 2 + (if c ≤ x then ext N f (x - c + d) ^ 2 else 0)) := by
    apply Finset.sum_le_sum
    intro x _
    by_cases h : c ≤ x
    · simp only [h, if_true]
      rw [abs_mul]
      nlinarith [sq_nonneg (|f x| - |ext N f (x - c + d)|), sq_abs (f x), sq_abs (ext N f (x - c + d))]
    · rw [hf x (by omega)]; simp [h]
  have h3 := Finset.abs_sum_le_sum_abs (fun x => f x * ext N f (x - c + d)) (Finset.range N)
  rw [← Finset.mul_sum, Finset.sum_add_distrib] at h2
  linarith

/-- **energy of one analysis row**, approximately quadrature-mirror coefficients -/
theorem abs_waveletRow_energy_le (cs : List K) (heven : cs.length % 2 = 0) (hrow : RowIdentity cs)
    (N : Nat) (hN : N % 2 = 0) (f : Nat → K) (hsupp : ∀ p, p + 2 < cs.length → f p = 0) :
    |∑ k ∈ Finset.range N, waveletRow cs N f k ^ 2 - 2 * ∑ x ∈ Finset.range N, f x ^ 2|
      ≤ 2 * errConst cs * ∑ x ∈ Finset.range N, f x ^ 2 := by
  have h2 : (2 : K) ≠ 0 := two_ne_zero
  rw [waveletRow_energy_identity h2 cs heven hrow N hN f hsupp, add_sub_cancel_left,
    two_mul_sum_mul_errRow h2]
  have hc : 2 * errConst cs = ∑ j ∈ Finset.range (cs.length - 1), |resid cs (lag (cs.length / 2) j)| := by
    unfold errConst
    rw [listsum_range]
    field_simp
  rw [hc, Finset.sum_mul]
  refine le_trans (Finset.abs_sum_le_sum_abs _ _) ?_
  apply Finset.sum_le_sum
  intro j _
  rw [abs_mul]
  apply mul_le_mul_of_nonneg_left _ (abs_nonneg _)
  exact abs_corr_le N (cs.length - 2) (2 * j) f (fun p hp => hsupp p (by omega))

/-! ### two dimensions -/

theorem abs_sum_sub_two_le (s : Finset Nat) (A B : Nat → K) (c : K)
    (h : ∀ i ∈ s, |A i - 2 * B i| ≤ c * B i) :
    |∑ i ∈ s, A i - 2 * ∑ i ∈ s, B i| ≤ c * ∑ i ∈ s, B i := by
  rw [Finset.mul_sum, ← Finset.sum_sub_distrib, Finset.mul_sum]
  exact le_trans (Finset.abs_sum_le_sum_abs _ _) (Finset.sum_le_sum h)

/-- the row pass: every row vanishes below `n − 2` -/
theorem abs_rowsPass_energy_le (cs : List K) (heven : cs.length % 2 = 0) (hrow : RowIdentity cs)
    (N0 N1 : Nat) (h1 : N1 % 2 = 0) (f : Im K) (hx0 : ∀ y x, x + 2 < cs.length → f y x = 0) :
    |energy2 N0 N1 (rowsPass (waveletRow cs) N1 f) - 2 * energy2 N0 N1 f|
      ≤ 2 * errConst cs * energy2 N0 N1 f := by
  unfold energy2
  apply abs_sum_sub_two_le
  intro y _
  exact abs_waveletRow_energy_le cs heven hrow N1 h1 (f y) (fun p hp => hx0 y p hp)

/-- the column pass: every column vanishes below `n − 2` -/
theorem abs_colsPass_energy_le (cs : List K) (heven : cs.length % 2 = 0) (hrow : RowIdentity cs)
    (N0 N1 : Nat) (h0 : N0 % 2 = 0) (g : Im K) (hy0 : ∀ y x, y + 2 < cs.length → g y x = 0) :
    |energy2 N0 N1 (colsPass (waveletRow cs) N0 g) - 2 * energy2 N0 N1 g|
      ≤ 2 * errConst cs * energy2 N0 N1 g := by
  rw [energy2_swap N0 N1 (colsPass (waveletRow cs) N0 g), energy2_swap N0 N1 g]
  apply abs_sum_sub_two_le
  intro x _
  exact abs_waveletRow_energy_le cs heven hrow N0 h0 (fun k => g k x) (fun p hp => hy0 p x hp)

/-- **energy of the 2-D analysis transform.** With `d = errConst cs`, for an image that vanishes in the first
    `n − 2` rows and columns (what `wavelet_center` guarantees): `|E(daubechies f) − 4·E(f)| ≤ (8d + 4d²)·E(f)` -/
theorem abs_daubechies2_energy_le (cs : List K) (heven : cs.length % 2 = 0) (hrow : RowIdentity cs)
    (N0 N1 : Nat) (h0 : N0 % 2 = 0) (h1 : N1 % 2 = 0) (f : Im K)
    (hy0 : ∀ y x, y + 2 < cs.length → f y x = 0) (hx0 : ∀ y x, x + 2 < cs.length → f y x = 0) :
    |energy2 N0 N1 (daubechies2 cs N0 N1 f) - 4 * energy2 N0 N1 f|
      ≤ (8 * errConst cs + 4 * errConst cs ^ 2) * energy2 N0 N1 f := by
  have d0 := errConst_nonneg cs
  have hg0 : ∀ y x, y + 2 < cs.length → rowsPass (waveletRow cs) N1 f y x = 0 := by
    intro y x hy
    exact waveletRow_eq_zero cs N1 (f y) (fun p _ => hy0 y p hy) x
  have hR := abs_rowsPass_energy_le cs heven hrow N0 N1 h1 f hx0
  have hC := abs_colsPass_energy_le cs heven hrow N0 N1 h0 (rowsPass (waveletRow cs) N1 f) hg0
  have hD : daubechies2 cs N0 N1 f = colsPass (waveletRow cs) N0 (rowsPass (waveletRow cs) N1 f) := rfl
  rw [hD]
  rw [abs_le] at hR hC ⊢
  have hG : energy2 N0 N1 (rowsPass (waveletRow cs) N1 f) ≤ (2 + 2 * errConst cs) * energy2 N0 N1 f := by
    linarith [hR.2]
  have hdG := mul_le_mul_of_nonneg_left hG d0
  constructor
  · linarith [hR.1, hC.1]
  · linarith [hR.2, hC.2]

/-- the same with the row identity discharged by `rowIdentity_general` -/
theorem abs_daubechies2_energy_le' (cs : List K) (heven : cs.length % 2 = 0) (hpos : 2 ≤ cs.length)
    (N0 N1 : Nat) (h0 : N0 % 2 = 0) (h1 : N1 % 2 = 0) (f : Im K)
    (hy0 : ∀ y x, y + 2 < cs.length → f y x = 0) (hx0 : ∀ y x, x + 2 < cs.length → f y x = 0) :
    |energy2 N0 N1 (daubechies2 cs N0 N1 f) - 4 * energy2 N0 N1 f|
      ≤ (8 * errConst cs + 4 * errConst cs ^ 2) * energy2 N0 N1 f :=
  abs_daubechies2_energy_le cs heven (rowIdentity_general two_ne_zero cs heven hpos) N0 N1 h0 h1 f hy0 hx0

/-- one row, the support hypothesis only inside the row -/
theorem abs_waveletRow_energy_le_of_lt (cs : List K) (heven : cs.length % 2 = 0) (hrow : RowIdentity cs)
    (N : Nat) (hN : N % 2 = 0) (f : Nat → K) (hsupp : ∀ p, p < N → p + 2 < cs.length → f p = 0) :
    |∑ k ∈ Finset.range N, waveletRow cs N f k ^ 2 - 2 * ∑ x ∈ Finset.range N, f x ^ 2|
      ≤ 2 * errConst cs * ∑ x ∈ Finset.range N, f x ^ 2 := by
  have hc : ∀ p, p < N → f p = (fun p => if p < N then f p else 0) p := by
    intro p hp; simp only [hp, if_true]
  have hE : ∑ x ∈ Finset.range N, f x ^ 2
      = ∑ x ∈ Finset.range N, (fun p => if p < N then f p else 0) x ^ 2 := by
    apply Finset.sum_congr rfl
    intro x hx
    rw [← hc x (Finset.mem_range.mp hx)]
  rw [waveletRow_congr cs N f _ hc, hE]
  apply abs_waveletRow_energy_le cs heven hrow N hN
  intro p hp
  by_cases hpN : p < N
  · simp only [hpN, if_true]; exact hsupp p hpN hp
  · simp only [hpN, if_false]

/-- the 2-D bound, the support hypotheses only inside the image -/
theorem abs_daubechies2_energy_le_of_lt (cs : List K) (heven : cs.length % 2 = 0) (hrow : RowIdentity cs)
    (N0 N1 : Nat) (h0 : N0 % 2 = 0) (h1 : N1 % 2 = 0) (f : Im K)
    (hy0 : ∀ y x, y < N0 → x < N1 → y + 2 < cs.length → f y x = 0)
    (hx0 : ∀ y x, y < N0 → x < N1 → x + 2 < cs.length → f y x = 0) :
    |energy2 N0 N1 (daubechies2 cs N0 N1 f) - 4 * energy2 N0 N1 f|
      ≤ (8 * errConst cs + 4 * errConst cs ^ 2) * energy2 N0 N1 f := by
  have hc : ∀ y x, y < N0 → x < N1 → f y x = (fun y x => if y < N0 ∧ x < N1 then f y x else 0) y x := by
    intro y x hy hx; simp only [hy, hx, and_self, if_true]
  rw [daubechies2_congr cs N0 N1 f _ hc, energy2_congr N0 N1 f _ hc]
  apply abs_daubechies2_energy_le cs heven hrow N0 N1 h0 h1
  · intro y x hy
    by_cases hb : y < N0 ∧ x < N1
    · simp only [hb, and_self, if_true]; exact hy0 y x hb.1 hb.2 hy
    · simp only [hb, if_false]
  · intro y x hx
    by_cases hb : y < N0 ∧ x < N1
    · simp only [hb, and_self, if_true]; exact hx0 y x hb.1 hb.2 hx
    · simp only [hb, if_false]

end Bounds

end Mahotas.C17
