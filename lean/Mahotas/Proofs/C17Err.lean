/-
C17 — reconstruction error for coefficient lists that satisfy the quadrature-mirror identities only
approximately.  The residuals `resid cs s = Σ_k c_k c_{k+2s} − 2·δ_s` enter the reconstruction linearly:
`iwaveletRow (waveletRow f) x = f x + errRow cs N f x` with
`errRow = ½ Σ_{j<n−1} resid(|j − (n/2 − 1)|) · f[x − (n−2) + 2j]` (zero-extended) — this *row identity* is proved
per filter length in the generated `Proofs/C17Resid.lean`; here are the definitions and everything that follows
from the identity in general: the bound of one row, and of the 2-D round trip.
-/
import Mahotas.Proofs.C17PR
import Mathlib.Algebra.Order.Field.Basic
import Mathlib.Algebra.Order.AbsoluteValue.Basic
import Mathlib.Tactic.Positivity
set_option linter.unusedSectionVars false
set_option linter.unusedVariables false
namespace Mahotas.C17
open Mahotas

section Defs
variable {K : Type} [Field K]

/-- `Σ_k c_k · c_{k+2s}` (the left-hand side of the quadrature-mirror identity of lag `2s`) -/
def qdot (cs : List K) (s : Nat) : K :=
  ((List.range (cs.length - 2 * s)).map fun k => cs.getD k 0 * cs.getD (k + 2 * s) 0).sum

/-- the residual of the identity of lag `2s`: `Σ_k c_k c_{k+2s} − 2·δ_s` -/
def resid (cs : List K) (s : Nat) : K := qdot cs s - (if s = 0 then 2 else 0)

/-- `|j − (p − 1)|` in natural-number arithmetic (one of the two truncated differences is 0) -/
def lag (p j : Nat) : Nat := (j + 1 - p) + (p - 1 - j)

/-- the error term of one row at position `x ≥ n − 2`:
    `½ Σ_{j<n−1} resid(|j − (n/2 − 1)|) · ext f (x − (n−2) + 2j)` -/
def errRow (cs : List K) (N : Nat) (f : Nat → K) (x : Nat) : K :=
  ((List.range (cs.length - 1)).map fun j =>
    resid cs (lag (cs.length / 2) j) * ext N f (x - (cs.length - 2) + 2 * j)).sum / 2

/-- the *row identity*: reconstruction of a row up to the explicit error term -/
def RowIdentity (cs : List K) : Prop :=
  ∀ (N : Nat), N % 2 = 0 → ∀ (f : Nat → K) (x : Nat), cs.length ≤ x + 2 → x < N →
    iwaveletRow cs N (waveletRow cs N f) x = f x + errRow cs N f x

theorem qmfExact_iff_resid (cs : List K) : qmfExact cs ↔ ∀ s, s < cs.length / 2 → resid cs s = 0 := by
  unfold qmfExact resid qdot
  constructor
  · intro h s hs; rw [h s hs, sub_self]
  · intro h s hs; exact sub_eq_zero.mp (h s hs)

/-! ### a linear row kernel commutes with the error term taken along the other axis -/

theorem linear_zero (T : Nat → (Nat → K) → Nat → K)
    (hT : ∀ N a b f g x, T N (fun i => a * f i + b * g i) x = a * T N f x + b * T N g x)
    (N x : Nat) : T N (fun _ => (0 : K)) x = 0 := by
  have := hT N 0 0 (fun _ => 0) (fun _ => 0) x
  simpa using this

theorem linear_listsum (T : Nat → (Nat → K) → Nat → K)
    (hT : ∀ N a b f g x, T N (fun i => a * f i + b * g i) x = a * T N f x + b * T N g x)
    (N x : Nat) (l : List Nat) (a : Nat → K) (u : Nat → Nat → K) :
    T N (fun i => (l.map fun j => a j * u j i).sum) x = (l.map fun j => a j * T N (u j) x).sum := by
  induction l with
  | nil => simpa using linear_zero T hT N x
  | cons j l ih =>
    have e : (fun i => ((j :: l).map fun j => a j * u j i).sum)
        = fun i => a j * u j i + 1 * (l.map fun j => a j * u j i).sum := by
      funext i; simp
    rw [e, hT, ih]; simp

theorem linear_ext (T : Nat → (Nat → K) → Nat → K)
    (hT : ∀ N a b f g x, T N (fun i => a * f i + b * g i) x = a * T N f x + b * T N g x)
    (N x N0 q : Nat) (G : Nat → Nat → K) :
    T N (fun i => ext N0 (fun k => G k i) q) x = ext N0 (fun k => T N (G k) x) q := by
  unfold ext
  simp only [access_natCast]
  by_cases h : q < N0
  · simp only [h, if_true]
  · simp only [h, if_false]; exact linear_zero T hT N x

theorem linear_errRow (T : Nat → (Nat → K) → Nat → K)
    (hT : ∀ N a b f g x, T N (fun i => a * f i + b * g i) x = a * T N f x + b * T N g x)
    (cs : List K) (N x N0 y : Nat) (G : Nat → Nat → K) :
    T N (fun i => errRow cs N0 (fun k => G k i) y) x = errRow cs N0 (fun k => T N (G k) x) y := by
  unfold errRow
  rw [scale_of_linear T hT N 2
    (fun i => ((List.range (cs.length - 1)).map fun j =>
      resid cs (lag (cs.length / 2) j) * ext N0 (fun k => G k i) (y - (cs.length - 2) + 2 * j)).sum) x]
  rw [linear_listsum T hT N x _ (fun j => resid cs (lag (cs.length / 2) j))
    (fun j i => ext N0 (fun k => G k i) (y - (cs.length - 2) + 2 * j))]
  congr 2
  apply List.map_congr_left
  intro j _
  rw [linear_ext T hT]

/-- the 2-D round trip, exactly: the error is the column error term, plus the row error term of the
    (column-corrected) row -/
theorem round_trip_2d (cs : List K) (hrow : RowIdentity cs) (N0 N1 : Nat) (h0 : N0 % 2 = 0) (h1 : N1 % 2 = 0)
    (f : Im K) (y x : Nat) (hy : cs.length ≤ y + 2) (hyN : y < N0) (hx : cs.length ≤ x + 2) (hxN : x < N1) :
    idaubechies2 cs N0 N1 (daubechies2 cs N0 N1 f) y x
      = f y x + errRow cs N0 (fun k => f k x) y
        + errRow cs N1 (fun i => f y i + errRow cs N0 (fun k => f k i) y) x := by
  show iwaveletRow cs N1 (fun x' => iwaveletRow cs N0
      (fun k => waveletRow cs N0 (fun k' => waveletRow cs N1 (f k') x') k) y) x = _
  have e : (fun x' => iwaveletRow cs N0
      (fun k => waveletRow cs N0 (fun k' => waveletRow cs N1 (f k') x') k) y)
      = waveletRow cs N1 (fun i => f y i + errRow cs N0 (fun k => f k i) y) := by
    funext x'
    rw [hrow N0 h0 (fun k' => waveletRow cs N1 (f k') x') y hy hyN]
    have e1 : (fun i => f y i + errRow cs N0 (fun k => f k i) y)
        = fun i => 1 * f y i + 1 * errRow cs N0 (fun k => f k i) y := by funext i; ring
    rw [e1, waveletRow_linear, linear_errRow (waveletRow cs) (waveletRow_linear cs)]
    ring
  rw [e, hrow N1 h1 _ x hx hxN]

end Defs

/-! ### bounds over an ordered field -/
section Bounds
variable {K : Type} [Field K] [LinearOrder K] [IsStrictOrderedRing K]

/-- the constant of one row: `½ Σ_{j<n−1} |resid(|j − (n/2 − 1)|)|` -/
def errConst (cs : List K) : K :=
  ((List.range (cs.length - 1)).map fun j => |resid cs (lag (cs.length / 2) j)|).sum / 2

theorem abs_ext_le (N : Nat) (f : Nat → K) (M : K) (hM : 0 ≤ M) (hf : ∀ p, p < N → |f p| ≤ M) (q : Nat) :
    |ext N f q| ≤ M := by
  unfold ext
  rw [access_natCast]
  by_cases h : q < N
  · simp only [h, if_true]; exact hf q h
  · simp only [h, if_false, abs_zero]; exact hM

theorem abs_listsum_le (l : List Nat) (a b : Nat → K) (M : K) (hb : ∀ j, |b j| ≤ M) :
    |(l.map fun j => a j * b j).sum| ≤ (l.map fun j => |a j|).sum * M := by
  induction l with
  | nil => simp
  | cons j l ih =>
    simp only [List.map_cons, List.sum_cons]
    calc |a j * b j + (l.map fun j => a j * b j).sum|
        ≤ |a j * b j| + |(l.map fun j => a j * b j).sum| := abs_add_le _ _
      _ ≤ |a j| * M + (l.map fun j => |a j|).sum * M := by
          apply add_le_add _ ih
          rw [abs_mul]
          exact mul_le_mul_of_nonneg_left (hb j) (abs_nonneg _)
      _ = (|a j| + (l.map fun j => |a j|).sum) * M := by ring

theorem errConst_nonneg (cs : List K) : 0 ≤ errConst cs := by
  unfold errConst
  apply div_nonneg _ (by norm_num)
  apply List.sum_nonneg
  intro v hv
  simp only [List.mem_map] at hv
  obtain ⟨j, _, rfl⟩ := hv
  exact abs_nonneg _

/-- one row: `|errRow| ≤ errConst · max|f|` -/
theorem abs_errRow_le (cs : List K) (N : Nat) (f : Nat → K) (M : K) (hM : 0 ≤ M)
    (hf : ∀ p, p < N → |f p| ≤ M) (x : Nat) : |errRow cs N f x| ≤ errConst cs * M := by
  unfold errRow errConst
  rw [abs_div, abs_two, div_mul_eq_mul_div]
  apply div_le_div_of_nonneg_right _ (by norm_num)
  exact abs_listsum_le _ _ (fun j => ext N f (x - (cs.length - 2) + 2 * j)) M
    (fun j => abs_ext_le N f M hM hf _)

theorem lag_lt (p j : Nat) (hp : 1 ≤ p) (hj : j + 1 < 2 * p) : lag p j < p := by
  unfold lag; omega

/-- if every identity holds within `ε`, the row constant is at most `(n − 1)/2 · ε` -/
theorem errConst_le (cs : List K) (heven : cs.length % 2 = 0) (eps : K)
    (h : ∀ s, s < cs.length / 2 → |resid cs s| ≤ eps) :
    errConst cs ≤ ((cs.length - 1 : Nat) : K) / 2 * eps := by
  unfold errConst
  rw [div_mul_eq_mul_div]
  apply div_le_div_of_nonneg_right _ (by norm_num)
  have key : ∀ (l : List Nat), (∀ j ∈ l, j < cs.length - 1) →
      (l.map fun j => |resid cs (lag (cs.length / 2) j)|).sum ≤ (l.length : K) * eps := by
    intro l
    induction l with
    | nil => intro _; simp
    | cons j l ih =>
      intro hl
      simp only [List.map_cons, List.sum_cons, List.length_cons, Nat.cast_add, Nat.cast_one]
      have hj : j < cs.length - 1 := hl j (by simp)
      have h1 := h (lag (cs.length / 2) j) (lag_lt _ _ (by omega) (by omega))
      have h2 := ih (fun k hk => hl k (by simp [hk]))
      calc _ ≤ eps + (l.length : K) * eps := add_le_add h1 h2
        _ = ((l.length : K) + 1) * eps := by ring
  have := key (List.range (cs.length - 1)) (fun j hj => List.mem_range.mp hj)
  rwa [List.length_range] at this

/-- **2-D bound.** With `d = errConst cs`: `|idaubechies2 (daubechies2 f) y x − f y x| ≤ (2d + d²)·M` at the
    positions `y, x ≥ n − 2`, where `M` bounds `|f|` on the image -/
theorem abs_round_trip_2d_le (cs : List K) (hrow : RowIdentity cs) (N0 N1 : Nat) (h0 : N0 % 2 = 0)
    (h1 : N1 % 2 = 0) (f : Im K) (M : K) (hM : 0 ≤ M) (hf : ∀ y x, y < N0 → x < N1 → |f y x| ≤ M)
    (y x : Nat) (hy : cs.length ≤ y + 2) (hyN : y < N0) (hx : cs.length ≤ x + 2) (hxN : x < N1) :
    |idaubechies2 cs N0 N1 (daubechies2 cs N0 N1 f) y x - f y x|
      ≤ (2 * errConst cs + errConst cs ^ 2) * M := by
  rw [round_trip_2d cs hrow N0 N1 h0 h1 f y x hy hyN hx hxN]
  have d0 := errConst_nonneg cs
  have hF : ∀ i, i < N1 → |errRow cs N0 (fun k => f k i) y| ≤ errConst cs * M := fun i hi =>
    abs_errRow_le cs N0 (fun k => f k i) M hM (fun k hk => hf k i hk hi) y
  have hrowb : ∀ i, i < N1 → |f y i + errRow cs N0 (fun k => f k i) y| ≤ (1 + errConst cs) * M := by
    intro i hi
    calc _ ≤ |f y i| + |errRow cs N0 (fun k => f k i) y| := abs_add_le _ _
      _ ≤ M + errConst cs * M := add_le_add (hf y i hyN hi) (hF i hi)
      _ = (1 + errConst cs) * M := by ring
  have hE := abs_errRow_le cs N1 (fun i => f y i + errRow cs N0 (fun k => f k i) y)
    ((1 + errConst cs) * M) (by positivity) hrowb x
  have e : f y x + errRow cs N0 (fun k => f k x) y
        + errRow cs N1 (fun i => f y i + errRow cs N0 (fun k => f k i) y) x - f y x
      = errRow cs N0 (fun k => f k x) y
        + errRow cs N1 (fun i => f y i + errRow cs N0 (fun k => f k i) y) x := by ring
  rw [e]
  calc _ ≤ |errRow cs N0 (fun k => f k x) y|
        + |errRow cs N1 (fun i => f y i + errRow cs N0 (fun k => f k i) y) x| := abs_add_le _ _
    _ ≤ errConst cs * M + errConst cs * ((1 + errConst cs) * M) := add_le_add (hF x hxN) hE
    _ = (2 * errConst cs + errConst cs ^ 2) * M := by ring

end Bounds

end Mahotas.C17
