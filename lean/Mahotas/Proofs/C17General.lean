/-
C17 — the LENGTH-INDEPENDENT row identity: for every coefficient list of even length `n ≥ 2` (no hypothesis on the
coefficients) and every even-length row, `iwaveletRow cs N (waveletRow cs N f) x = f x + errRow cs N f x` at every
position `x ≥ n − 2` (`RowIdentity`, `Proofs/C17Err.lean`).  The generated per-length files (`C17PR`, `C17Resid`)
are instances of this one theorem.

Proof: closed forms of one analysis / synthesis sample as `Finset` sums; the double sum
`2·iw(w f) x = Σ_{a,b<n} [a ≡ b (2)] c_a c_b · ext f (x + a − b)` (the mixed-parity terms cancel termwise); regrouping by
the lag `a − b = ±2s` gives `Σ_s qdot s · ext f (x ± 2s)`.
-/
import Mahotas.Proofs.C17Err
import Mathlib.Algebra.BigOperators.Intervals
import Mathlib.Algebra.BigOperators.Ring.Finset
set_option linter.unusedSectionVars false
set_option linter.unusedVariables false
namespace Mahotas.C17
open Mahotas

variable {K : Type} [Field K]

/-! ### list folds as `Finset` sums -/

theorem foldl_add_eq (l : List Nat) (F : Nat → K) (z : K) :
    l.foldl (fun acc i => acc + F i) z = z + (l.map F).sum := by
  induction l generalizing z with
  | nil => simp
  | cons a l ih => simp only [List.foldl_cons, List.map_cons, List.sum_cons, ih]; ring

theorem listsum_range (F : Nat → K) (n : Nat) :
    ((List.range n).map F).sum = ∑ i ∈ Finset.range n, F i := by
  induction n with
  | zero => simp
  | succ n ih => simp [List.range_succ, Finset.sum_range_succ, ih]

theorem foldl_range (F : Nat → K) (n : Nat) :
    (List.range n).foldl (fun acc i => acc + F i) 0 = ∑ i ∈ Finset.range n, F i := by
  rw [foldl_add_eq, zero_add, listsum_range]

theorem foldl_filter_add (l : List Nat) (p : Nat → Bool) (F : Nat → K) (z : K) :
    (l.filter p).foldl (fun acc i => acc + F i) z = z + (l.map fun i => if p i then F i else 0).sum := by
  induction l generalizing z with
  | nil => simp
  | cons a l ih =>
    by_cases h : p a = true
    · simp only [List.filter_cons, h, if_true, List.foldl_cons, List.map_cons, List.sum_cons, ih]; ring
    · simp [h, ih]

theorem foldl_filter_range (p : Nat → Bool) (F : Nat → K) (n : Nat) :
    ((List.range n).filter p).foldl (fun acc i => acc + F i) 0
      = ∑ i ∈ Finset.range n, if p i then F i else 0 := by
  rw [foldl_filter_add, zero_add, listsum_range]

/-! ### closed forms of the row kernels -/

/-- coefficient `k`, zero beyond the list -/
def cf (cs : List K) (k : Nat) : K := cs.getD k 0

theorem cf_zero (cs : List K) (k : Nat) (hk : cs.length ≤ k) : cf cs k = 0 := by
  unfold cf
  simp [List.getD_eq_getElem?_getD, List.getElem?_eq_none hk]

/-- the sign of tap `j` in the high-pass filter: `−1` for even `j`, `+1` for odd `j` -/
def sg (j : Nat) : K := if j % 2 = 0 then -1 else 1

theorem sg_mul_self (j : Nat) : (sg j : K) * sg j = 1 := by
  unfold sg; split_ifs <;> ring

theorem sg_mul_ne (a b : Nat) (h : a % 2 ≠ b % 2) : (sg a : K) * sg b = -1 := by
  unfold sg
  rcases Nat.mod_two_eq_zero_or_one a with ha | ha <;> rcases Nat.mod_two_eq_zero_or_one b with hb | hb <;>
    simp [ha, hb] at h ⊢

/-- a low-pass sample: `low[m] = Σ_j c_{n−1−j} · ext f (2m + j)` -/
theorem waveletRow_low' (cs : List K) (N : Nat) (f : Nat → K) (m : Nat) (hm : m < N / 2) :
    waveletRow cs N f m
      = ∑ j ∈ Finset.range cs.length, cf cs (cs.length - 1 - j) * ext N f (2 * m + j) := by
  simp only [waveletRow, hm, if_true, zero_eq]
  rw [foldl_range]
  apply Finset.sum_congr rfl
  intro j _
  have : cs.length - j - 1 = cs.length - 1 - j := by omega
  simp only [cf, ext, this]

/-- a low-pass sample, reflected: `low[m] = Σ_b c_b · ext f (2m + n − 1 − b)` -/
theorem waveletRow_low (cs : List K) (N : Nat) (f : Nat → K) (m : Nat) (hm : m < N / 2) :
    waveletRow cs N f m
      = ∑ b ∈ Finset.range cs.length, cf cs b * ext N f (2 * m + (cs.length - 1 - b)) := by
  rw [waveletRow_low' cs N f m hm, ← Finset.sum_range_reflect]
  apply Finset.sum_congr rfl
  intro j hj
  have hj' := Finset.mem_range.mp hj
  have : cs.length - 1 - (cs.length - 1 - j) = j := by omega
  rw [this]

/-- a high-pass sample: `high[m] = Σ_j sg_j · c_j · ext f (2m + j)` -/
theorem waveletRow_high (cs : List K) (N : Nat) (f : Nat → K) (m : Nat) (hm : m < N / 2) :
    waveletRow cs N f (N / 2 + m)
      = ∑ j ∈ Finset.range cs.length, sg j * cf cs j * ext N f (2 * m + j) := by
  have h1 : ¬ (N / 2 + m < N / 2) := by omega
  have h2 : N / 2 + m < 2 * (N / 2) := by omega
  have h3 : N / 2 + m - N / 2 = m := by omega
  simp only [waveletRow, h1, h2, h3, if_true, if_false, zero_eq]
  rw [foldl_range]
  apply Finset.sum_congr rfl
  intro j _
  simp only [cf, ext, sg]
  split_ifs <;> ring

/-- is tap `i` of `iwavelet` used at position `x`? (`x + i − n + 2` odd) -/
def tap (n x i : Nat) : Prop := (x + i + n) % 2 = 1
instance (n x i : Nat) : Decidable (tap n x i) := by unfold tap; infer_instance

/-- one synthesis sample at a position `x ≥ n − 2` (no truncation towards zero happens, every sample read lies
    inside the half buffers): low-pass taps `i` with `x + i − n + 2` odd read `g[(x+i+2−n)/2]`; the high-pass part is
    written with the reflected tap index `a = n − 1 − i` (used iff *not* `tap a`), which reads `g[N/2 + (x+1−a)/2]` -/
theorem iwaveletRow_closed (cs : List K) (heven : cs.length % 2 = 0) (N : Nat) (hN : N % 2 = 0) (g : Nat → K)
    (x : Nat) (hx : cs.length ≤ x + 2) (hxN : x < N) :
    iwaveletRow cs N g x
      = ((∑ i ∈ Finset.range cs.length,
            if tap cs.length x i then cf cs i * g ((x + i + 2 - cs.length) / 2) else 0)
         + ∑ a ∈ Finset.range cs.length,
            if tap cs.length x a then 0 else sg a * cf cs a * g (N / 2 + (x + 1 - a) / 2)) / 2 := by
  simp only [iwaveletRow, zero_eq, two_eq]
  rw [foldl_filter_range, foldl_filter_range]
  congr 1
  congr 1
  · apply Finset.sum_congr rfl
    intro i hi
    have hi' := Finset.mem_range.mp hi
    by_cases ht : tap cs.length x i
    · have hp : ((((x + i : Nat) : Int) - ((cs.length : Nat) : Int) + 2) % 2 ≠ 0) := by
        unfold tap at ht; omega
      have hm : ((((x + i : Nat) : Int) - ((cs.length : Nat) : Int) + 2)).tdiv 2
          = (((x + i + 2 - cs.length) / 2 : Nat) : Int) := by
        rw [Int.tdiv_eq_ediv_of_nonneg (by omega)]; omega
      have hb : (x + i + 2 - cs.length) / 2 < N / 2 := by unfold tap at ht; omega
      simp only [hp, ht, decide_true, if_true, hm, access_natCast, hb, cf, ne_eq, not_false_eq_true]
    · have hp : ¬ ((((x + i : Nat) : Int) - ((cs.length : Nat) : Int) + 2) % 2 ≠ 0) := by
        unfold tap at ht; omega
      simp only [hp, ht, decide_false, if_false, Bool.false_eq_true]
  · -- the high-pass part, reflected
    rw [← Finset.sum_range_reflect]
    apply Finset.sum_congr rfl
    intro i hi
    have hi' := Finset.mem_range.mp hi
    have e1 : cs.length - (cs.length - 1 - i) - 1 = i := by omega
    by_cases ht : tap cs.length x i
    · have hp : ¬ ((((x + (cs.length - 1 - i) : Nat) : Int) - ((cs.length : Nat) : Int) + 2) % 2 ≠ 0) := by
        unfold tap at ht; omega
      simp only [hp, ht, decide_false, if_false, if_true, Bool.false_eq_true]
    · have hp : ((((x + (cs.length - 1 - i) : Nat) : Int) - ((cs.length : Nat) : Int) + 2) % 2 ≠ 0) := by
        unfold tap at ht; omega
      have hm : ((((x + (cs.length - 1 - i) : Nat) : Int) - ((cs.length : Nat) : Int) + 2)).tdiv 2
          = (((x + 1 - i) / 2 : Nat) : Int) := by
        rw [Int.tdiv_eq_ediv_of_nonneg (by omega)]; omega
      have hb : (x + 1 - i) / 2 < N / 2 := by unfold tap at ht; omega
      simp only [hp, ht, decide_true, if_true, if_false, hm, access_natCast, hb, e1, cf, sg, ne_eq,
        not_false_eq_true]
      have hpar : (cs.length - 1 - i) % 2 = 0 ↔ ¬ (i % 2 = 0) := by omega
      by_cases hi2 : i % 2 = 0
      · have : ¬ ((cs.length - 1 - i) % 2 = 0) := by omega
        simp only [hi2, this, if_true, if_false]; ring
      · have : (cs.length - 1 - i) % 2 = 0 := by omega
        simp only [hi2, this, if_true, if_false]; ring

/-! ### reindexing lemmas -/

/-- `Σ_{a<n, a ≡ b (2), a ≥ b} F a = Σ_{s<p, b+2s<n} F (b + 2s)` for `n = 2p` -/
theorem sum_parity_ge (n p b : Nat) (hn : n = 2 * p) (F : Nat → K) :
    (∑ a ∈ Finset.range n, if a % 2 = b % 2 ∧ b ≤ a then F a else 0)
      = ∑ s ∈ Finset.range p, if b + 2 * s < n then F (b + 2 * s) else 0 := by
  rw [← Finset.sum_filter, ← Finset.sum_filter]
  refine Finset.sum_nbij' (fun a => (a - b) / 2) (fun s => b + 2 * s) ?_ ?_ ?_ ?_ ?_
  · intro a ha
    simp only [Finset.mem_filter, Finset.mem_range] at ha ⊢
    omega
  · intro s hs
    simp only [Finset.mem_filter, Finset.mem_range] at hs ⊢
    omega
  · intro a ha
    simp only [Finset.mem_filter, Finset.mem_range] at ha
    show b + 2 * ((a - b) / 2) = a
    omega
  · intro s hs
    show (b + 2 * s - b) / 2 = s
    omega
  · intro a ha
    simp only [Finset.mem_filter, Finset.mem_range] at ha
    have : b + 2 * ((a - b) / 2) = a := by omega
    show F a = F (b + 2 * ((a - b) / 2))
    rw [this]

theorem sum_lt_shift (n s : Nat) (G : Nat → K) :
    (∑ b ∈ Finset.range n, if b + 2 * s < n then G b else 0) = ∑ b ∈ Finset.range (n - 2 * s), G b := by
  rw [← Finset.sum_filter]
  congr 1
  ext b
  simp only [Finset.mem_filter, Finset.mem_range]
  omega

/-- `qdot` with the zero-extended coefficient function -/
theorem qdot_eq (cs : List K) (s : Nat) :
    qdot cs s = ∑ k ∈ Finset.range (cs.length - 2 * s), cf cs k * cf cs (k + 2 * s) := by
  unfold qdot
  rw [listsum_range]
  rfl

/-- the quadratic form of the round trip, regrouped by lag -/
theorem same_parity_double_sum (cs : List K) (p : Nat) (hn : cs.length = 2 * p) (e : Nat → K) (x : Nat) :
    (∑ a ∈ Finset.range cs.length, ∑ b ∈ Finset.range cs.length,
        if a % 2 = b % 2 then cf cs a * cf cs b * e (x + a - b) else 0)
      = (∑ s ∈ Finset.range p, qdot cs s * e (x + 2 * s))
        + ∑ s ∈ Finset.range p, if 1 ≤ s then qdot cs s * e (x - 2 * s) else 0 := by
  set n := cs.length with hnn
  -- split into `b ≤ a` and `a < b`
  have split : ∀ a b : Nat, (if a % 2 = b % 2 then cf cs a * cf cs b * e (x + a - b) else 0)
      = (if a % 2 = b % 2 ∧ b ≤ a then cf cs a * cf cs b * e (x + a - b) else 0)
        + (if b % 2 = a % 2 ∧ a ≤ b then (if a < b then cf cs a * cf cs b * e (x + a - b) else 0) else 0) := by
    intro a b
    by_cases h1 : a % 2 = b % 2
    · by_cases h2 : b ≤ a
      · have h3 : ¬ a < b := by omega
        simp [h1, h2, h3]
      · have h3 : a < b := by omega
        have h4 : a ≤ b := by omega
        simp [h1, h2, h3, h4]
    · have h1' : ¬ (b % 2 = a % 2) := fun h => h1 h.symm
      simp [h1, h1']
  simp only [split, Finset.sum_add_distrib]
  congr 1
  · -- `b ≤ a`: inner variable `a = b + 2s`
    rw [Finset.sum_comm]
    have step : ∀ b ∈ Finset.range n,
        (∑ a ∈ Finset.range n, if a % 2 = b % 2 ∧ b ≤ a then cf cs a * cf cs b * e (x + a - b) else 0)
          = ∑ s ∈ Finset.range p, if b + 2 * s < n then cf cs b * cf cs (b + 2 * s) * e (x + 2 * s) else 0 := by
      intro b _
      rw [sum_parity_ge n p b hn (fun a => cf cs a * cf cs b * e (x + a - b))]
      apply Finset.sum_congr rfl
      intro s _
      have : x + (b + 2 * s) - b = x + 2 * s := by omega
      rw [this]
      split_ifs <;> ring
    rw [Finset.sum_congr rfl step, Finset.sum_comm]
    apply Finset.sum_congr rfl
    intro s _
    rw [qdot_eq, Finset.sum_mul, ← sum_lt_shift n s]
  · -- `a < b`: inner variable `b = a + 2s`, `s ≥ 1`
    have step : ∀ a ∈ Finset.range n,
        (∑ b ∈ Finset.range n, if b % 2 = a % 2 ∧ a ≤ b then
            (if a < b then cf cs a * cf cs b * e (x + a - b) else 0) else 0)
          = ∑ s ∈ Finset.range p, if a + 2 * s < n then
              (if 1 ≤ s then cf cs a * cf cs (a + 2 * s) * e (x - 2 * s) else 0) else 0 := by
      intro a _
      rw [sum_parity_ge n p a hn (fun b => if a < b then cf cs a * cf cs b * e (x + a - b) else 0)]
      apply Finset.sum_congr rfl
      intro s _
      have e1 : x + a - (a + 2 * s) = x - 2 * s := by omega
      have e2 : a < a + 2 * s ↔ 1 ≤ s := by omega
      simp only [e1, e2]
    rw [Finset.sum_congr rfl step, Finset.sum_comm]
    apply Finset.sum_congr rfl
    intro s _
    by_cases hs : 1 ≤ s
    · simp only [hs, if_true]
      rw [qdot_eq, Finset.sum_mul, ← sum_lt_shift n s]
    · simp only [hs, if_false]
      simp

/-- the error-term form: `Σ_{j<n−1} qdot(|j − (p−1)|) · e(x − (n−2) + 2j)` split at the centre -/
theorem lag_sum_split (cs : List K) (p : Nat) (hp : 1 ≤ p) (hn : cs.length = 2 * p) (e : Nat → K) (x : Nat)
    (hx : cs.length ≤ x + 2) :
    (∑ j ∈ Finset.range (cs.length - 1), qdot cs (lag (cs.length / 2) j) * e (x - (cs.length - 2) + 2 * j))
      = (∑ s ∈ Finset.range p, qdot cs s * e (x + 2 * s))
        + ∑ s ∈ Finset.range p, if 1 ≤ s then qdot cs s * e (x - 2 * s) else 0 := by
  have hh : cs.length / 2 = p := by omega
  have hl : cs.length - 1 = (p - 1) + p := by omega
  rw [hh, hl, Finset.sum_range_add, add_comm]
  congr 1
  · apply Finset.sum_congr rfl
    intro s hs
    have hs' := Finset.mem_range.mp hs
    have e1 : lag p (p - 1 + s) = s := by unfold lag; omega
    have e2 : x - (cs.length - 2) + 2 * (p - 1 + s) = x + 2 * s := by omega
    rw [e1, e2]
  · rw [← Finset.sum_filter]
    refine Finset.sum_nbij' (fun j => p - 1 - j) (fun s => p - 1 - s) ?_ ?_ ?_ ?_ ?_
    · intro j hj
      simp only [Finset.mem_filter, Finset.mem_range] at hj ⊢
      omega
    · intro s hs
      simp only [Finset.mem_filter, Finset.mem_range] at hs ⊢
      omega
    · intro j hj
      simp only [Finset.mem_range] at hj
      show p - 1 - (p - 1 - j) = j
      omega
    · intro s hs
      simp only [Finset.mem_filter, Finset.mem_range] at hs
      show p - 1 - (p - 1 - s) = s
      omega
    · intro j hj
      simp only [Finset.mem_range] at hj
      have e1 : lag p j = p - 1 - j := by unfold lag; omega
      have e2 : x - (cs.length - 2) + 2 * j = x - 2 * (p - 1 - j) := by omega
      show qdot cs (lag p j) * e (x - (cs.length - 2) + 2 * j) = qdot cs (p - 1 - j) * e (x - 2 * (p - 1 - j))
      rw [e1, e2]

/-! ### the row identity, every even length -/

/-- `2 · iwavelet(wavelet f)[x] = Σ_{a,b<n, a ≡ b (2)} c_a c_b · ext f (x + a − b)` -/
theorem round_trip_double_sum (cs : List K) (heven : cs.length % 2 = 0) (N : Nat) (hN : N % 2 = 0)
    (f : Nat → K) (x : Nat) (hx : cs.length ≤ x + 2) (hxN : x < N) :
    iwaveletRow cs N (waveletRow cs N f) x
      = (∑ a ∈ Finset.range cs.length, ∑ b ∈ Finset.range cs.length,
          if a % 2 = b % 2 then cf cs a * cf cs b * ext N f (x + a - b) else 0) / 2 := by
  rw [iwaveletRow_closed cs heven N hN _ x hx hxN]
  congr 1
  set n := cs.length with hnn
  -- low-pass part
  have hlow : (∑ i ∈ Finset.range n,
        if tap n x i then cf cs i * waveletRow cs N f ((x + i + 2 - n) / 2) else 0)
      = ∑ a ∈ Finset.range n, ∑ b ∈ Finset.range n,
          if tap n x a then cf cs a * cf cs b * ext N f (x + a - b) else 0 := by
    apply Finset.sum_congr rfl
    intro i hi
    have hi' := Finset.mem_range.mp hi
    by_cases ht : tap n x i
    · have hb : (x + i + 2 - n) / 2 < N / 2 := by unfold tap at ht; omega
      simp only [ht, if_true]
      rw [waveletRow_low cs N f _ hb, Finset.mul_sum]
      apply Finset.sum_congr rfl
      intro b hb'
      have hb'' := Finset.mem_range.mp hb'
      have : 2 * ((x + i + 2 - n) / 2) + (cs.length - 1 - b) = x + i - b := by unfold tap at ht; omega
      rw [this]; ring
    · simp only [ht, if_false]; simp
  -- high-pass part
  have hhigh : (∑ a ∈ Finset.range n,
        if tap n x a then 0 else sg a * cf cs a * waveletRow cs N f (N / 2 + (x + 1 - a) / 2))
      = ∑ a ∈ Finset.range n, ∑ b ∈ Finset.range n,
          if tap n x b then 0 else sg b * sg a * cf cs a * cf cs b * ext N f (x + a - b) := by
    rw [Finset.sum_comm]
    apply Finset.sum_congr rfl
    intro i hi
    have hi' := Finset.mem_range.mp hi
    by_cases ht : tap n x i
    · simp only [ht, if_true]; simp
    · have hb : (x + 1 - i) / 2 < N / 2 := by unfold tap at ht; omega
      simp only [ht, if_false]
      rw [waveletRow_high cs N f _ hb, Finset.mul_sum]
      apply Finset.sum_congr rfl
      intro j hj
      have : 2 * ((x + 1 - i) / 2) + j = x + j - i := by unfold tap at ht; omega
      rw [this]; ring
  rw [hlow, hhigh, ← Finset.sum_add_distrib]
  apply Finset.sum_congr rfl
  intro a ha
  rw [← Finset.sum_add_distrib]
  apply Finset.sum_congr rfl
  intro b hb
  have ha' := Finset.mem_range.mp ha
  have hb' := Finset.mem_range.mp hb
  by_cases hpar : a % 2 = b % 2
  · have hab : tap n x a ↔ tap n x b := by unfold tap; omega
    by_cases ht : tap n x a
    · have htb := hab.mp ht
      simp only [ht, htb, hpar, if_true]; ring
    · have htb : ¬ tap n x b := fun h => ht (hab.mpr h)
      have hs : (sg b : K) * sg a = 1 := by
        have : b % 2 = a % 2 := hpar.symm
        have e : (sg b : K) = sg a := by unfold sg; rw [this]
        rw [e, sg_mul_self]
      simp only [ht, htb, hpar, if_true, if_false]
      linear_combination (cf cs a * cf cs b * ext N f (x + a - b)) * hs
  · have hab : tap n x a ↔ ¬ tap n x b := by unfold tap; omega
    by_cases ht : tap n x a
    · have htb := hab.mp ht
      have hs : (sg b : K) * sg a = -1 := sg_mul_ne b a (fun h => hpar h.symm)
      simp only [ht, htb, hpar, if_true, if_false]
      linear_combination (cf cs a * cf cs b * ext N f (x + a - b)) * hs
    · have htb : tap n x b := by
        by_contra h; exact ht (hab.mpr h)
      simp only [ht, htb, hpar, if_true, if_false]; ring

/-- **the row identity for every even number of coefficients** — no hypothesis on the coefficients -/
theorem rowIdentity_general (h2 : (2 : K) ≠ 0) (cs : List K) (heven : cs.length % 2 = 0) (hpos : 2 ≤ cs.length) :
    RowIdentity cs := by
  intro N hN f x hx hxN
  obtain ⟨p, hp⟩ : ∃ p, cs.length = 2 * p := ⟨cs.length / 2, by omega⟩
  have hp1 : 1 ≤ p := by omega
  rw [round_trip_double_sum cs heven N hN f x hx hxN, same_parity_double_sum cs p hp (ext N f) x,
    ← lag_sum_split cs p hp1 hp (ext N f) x hx]
  unfold errRow
  rw [listsum_range]
  have hfx : f x = ext N f x := by simp [ext, access_natCast, hxN]
  -- `qdot = resid + 2·δ`
  have hq : ∀ j ∈ Finset.range (cs.length - 1),
      qdot cs (lag (cs.length / 2) j) * ext N f (x - (cs.length - 2) + 2 * j)
        = resid cs (lag (cs.length / 2) j) * ext N f (x - (cs.length - 2) + 2 * j)
          + (if j = p - 1 then 2 * ext N f x else 0) := by
    intro j hj
    have hj' := Finset.mem_range.mp hj
    unfold resid
    by_cases hjc : j = p - 1
    · have e1 : lag (cs.length / 2) j = 0 := by unfold lag; omega
      have e2 : x - (cs.length - 2) + 2 * j = x := by omega
      subst hjc
      rw [e1, e2]; simp only [if_true]; ring
    · have e1 : lag (cs.length / 2) j ≠ 0 := by unfold lag; omega
      simp only [hjc, e1, if_false]; ring
  rw [Finset.sum_congr rfl hq, Finset.sum_add_distrib, Finset.sum_ite_eq']
  have hmem : p - 1 ∈ Finset.range (cs.length - 1) := Finset.mem_range.mpr (by omega)
  simp only [hmem, if_true]
  rw [hfx]
  field_simp
  ring

/-- with the quadrature-mirror identities exactly, the error term vanishes -/
theorem errRow_eq_zero (cs : List K) (heven : cs.length % 2 = 0) (hpos : 2 ≤ cs.length) (hq : qmfExact cs)
    (N : Nat) (f : Nat → K) (x : Nat) : errRow cs N f x = 0 := by
  have hr := (qmfExact_iff_resid cs).mp hq
  unfold errRow
  have h0 : ∀ j ∈ List.range (cs.length - 1),
      resid cs (lag (cs.length / 2) j) * ext N f (x - (cs.length - 2) + 2 * j) = 0 * 0 := by
    intro j hj
    have hj' := List.mem_range.mp hj
    have hl : lag (cs.length / 2) j < cs.length / 2 := by unfold lag; omega
    rw [hr _ hl]; ring
  rw [List.map_congr_left h0]
  simp

end Mahotas.C17
