/-
C17 — facts about the memory-level model (`Model/C17Mem.lean`): the pointer `high = data + step*N1/2`, the row
store, and the agreement of a pass over an injective strided view with the core row kernels whenever the pointer is
right (even length or unit stride).
-/
import Mahotas.Model.C17Mem
import Mahotas.Proofs.C17
import Mahotas.Proofs.C17Energy
import Mahotas.Proofs.C17Odd
import Mathlib.Tactic.Ring
import Mathlib.Tactic.Linarith
namespace Mahotas.C17.Mem
open Mahotas Mahotas.C17

/-! ### the pointer `high = data + step*N1/2` -/

theorem tdiv2_add (p s : Int) (h : (0 ≤ p ∧ 0 ≤ s) ∨ (p ≤ 0 ∧ s ≤ 0)) :
    (2 * p + s).tdiv 2 = p + s.tdiv 2 := by
  rcases h with ⟨hp, hs⟩ | ⟨hp, hs⟩
  · rw [Int.tdiv_eq_ediv_of_nonneg (by omega), Int.tdiv_eq_ediv_of_nonneg hs]; omega
  · have e : 2 * p + s = -(2 * (-p) + (-s)) := by ring
    have e2 : s = -(-s) := by ring
    rw [e, Int.neg_tdiv, Int.tdiv_eq_ediv_of_nonneg (by omega)]
    conv_rhs => rw [e2, Int.neg_tdiv, Int.tdiv_eq_ediv_of_nonneg (by omega)]
    omega

theorem highOffPinned_even (step : Int) (N : Nat) (hN : N % 2 = 0) :
    highOffPinned step N = step * ((N / 2 : Nat) : Int) := by
  unfold highOffPinned
  have e : step * (N : Int) = 2 * (step * ((N / 2 : Nat) : Int)) + 0 := by
    have : (N : Int) = 2 * ((N / 2 : Nat) : Int) := by omega
    rw [this]; push_cast; ring_nf
  rw [e, tdiv2_add _ _ (by rcases le_total 0 (step * ((N / 2 : Nat) : Int)) with h | h <;> omega)]
  simp

theorem highOffPinned_odd (step : Int) (N : Nat) (hN : N % 2 = 1) :
    highOffPinned step N = step * ((N / 2 : Nat) : Int) + step.tdiv 2 := by
  unfold highOffPinned
  have e : step * (N : Int) = 2 * (step * ((N / 2 : Nat) : Int)) + step := by
    have : (N : Int) = 2 * ((N / 2 : Nat) : Int) + 1 := by omega
    rw [this]; ring
  rw [e]
  apply tdiv2_add
  rcases le_total 0 step with h | h
  · exact Or.inl ⟨mul_nonneg h (by omega), h⟩
  · exact Or.inr ⟨mul_nonpos_of_nonpos_of_nonneg h (by omega), h⟩

theorem highOffPinned_unit (step : Int) (N : Nat) (h : step = 1 ∨ step = -1) :
    highOffPinned step N = step * ((N / 2 : Nat) : Int) := by
  rcases Nat.mod_two_eq_zero_or_one N with hN | hN
  · exact highOffPinned_even step N hN
  · rw [highOffPinned_odd step N hN]
    rcases h with rfl | rfl <;> simp

/-- the `high` samples `ihaar` / `iwavelet` read lie inside the row's own address range
    `[data, data + step·(N−1)]` (reversed for a negative step), whatever the parity of `N`: the truncated pointer
    never leaves the array -/
theorem highPinned_read_in_row (step : Int) (N i : Nat) (hi : i < N / 2) :
    (0 ≤ step → 0 ≤ highOffPinned step N + step * (i : Int) ∧
      highOffPinned step N + step * (i : Int) ≤ step * ((N - 1 : Nat) : Int)) ∧
    (step ≤ 0 → step * ((N - 1 : Nat) : Int) ≤ highOffPinned step N + step * (i : Int) ∧
      highOffPinned step N + step * (i : Int) ≤ 0) := by
  rcases Nat.mod_two_eq_zero_or_one N with hN | hN
  · rw [highOffPinned_even step N hN]
    have e : step * ((N / 2 : Nat) : Int) + step * (i : Int) = step * ((N / 2 + i : Nat) : Int) := by
      push_cast; ring
    rw [e]
    have hq : ((N / 2 + i : Nat) : Int) ≤ ((N - 1 : Nat) : Int) := by omega
    have hq0 : (0 : Int) ≤ ((N / 2 + i : Nat) : Int) := by omega
    constructor
    · intro hs
      exact ⟨mul_nonneg hs hq0, mul_le_mul_of_nonneg_left hq hs⟩
    · intro hs
      exact ⟨mul_le_mul_of_nonpos_left hq hs, mul_nonpos_of_nonpos_of_nonneg hs hq0⟩
  · rw [highOffPinned_odd step N hN]
    have e : step * ((N / 2 : Nat) : Int) + step.tdiv 2 + step * (i : Int)
        = step * ((N / 2 + i : Nat) : Int) + step.tdiv 2 := by
      push_cast; ring
    rw [e]
    have hq : ((N / 2 + i : Nat) : Int) + 1 ≤ ((N - 1 : Nat) : Int) := by omega
    have hq0 : (0 : Int) ≤ ((N / 2 + i : Nat) : Int) := by omega
    constructor
    · intro hs
      have t0 : 0 ≤ step.tdiv 2 := by rw [Int.tdiv_eq_ediv_of_nonneg hs]; omega
      have t1 : step.tdiv 2 ≤ step := by rw [Int.tdiv_eq_ediv_of_nonneg hs]; omega
      have h1 : step * (((N / 2 + i : Nat) : Int) + 1) ≤ step * ((N - 1 : Nat) : Int) :=
        mul_le_mul_of_nonneg_left hq hs
      have h0 := mul_nonneg hs hq0
      rw [mul_add, mul_one] at h1
      exact ⟨by linarith, by linarith⟩
    · intro hs
      have e2 : step = -(-step) := by ring
      have t0 : step.tdiv 2 ≤ 0 := by
        rw [e2, Int.neg_tdiv, Int.tdiv_eq_ediv_of_nonneg (by omega)]; omega
      have t1 : step ≤ step.tdiv 2 := by
        rw [e2, Int.neg_tdiv, Int.tdiv_eq_ediv_of_nonneg (by omega)]; omega
      have h1 : step * ((N - 1 : Nat) : Int) ≤ step * (((N / 2 + i : Nat) : Int) + 1) :=
        mul_le_mul_of_nonpos_left hq hs
      have h0 := mul_nonpos_of_nonpos_of_nonneg hs hq0
      rw [mul_add, mul_one] at h1
      exact ⟨by linarith, by linarith⟩

/-- the `high` samples `ihaar` / `iwavelet` read (as repaired: `high = data + step·(N/2)`) lie inside the row's own address
    range `[data, data + step·(N−1)]` (reversed for a negative step), whatever the parity of `N` -/
theorem high_read_in_row (step : Int) (N i : Nat) (hi : i < N / 2) :
    (0 ≤ step → 0 ≤ highOff step N + step * (i : Int) ∧
      highOff step N + step * (i : Int) ≤ step * ((N - 1 : Nat) : Int)) ∧
    (step ≤ 0 → step * ((N - 1 : Nat) : Int) ≤ highOff step N + step * (i : Int) ∧
      highOff step N + step * (i : Int) ≤ 0) := by
  unfold highOff
  have e : step * ((N / 2 : Nat) : Int) + step * (i : Int) = step * ((N / 2 + i : Nat) : Int) := by
    push_cast; ring
  rw [e]
  have hq : ((N / 2 + i : Nat) : Int) ≤ ((N - 1 : Nat) : Int) := by omega
  have hq0 : (0 : Int) ≤ ((N / 2 + i : Nat) : Int) := by omega
  constructor
  · intro hs
    exact ⟨mul_nonneg hs hq0, mul_le_mul_of_nonneg_left hq hs⟩
  · intro hs
    exact ⟨mul_le_mul_of_nonpos_left hq hs, mul_nonpos_of_nonpos_of_nonneg hs hq0⟩

/-- the pointer is right: `high = data + step·(N/2)` -/
def HighOK (step : Int) (N : Nat) : Prop := highOff step N = step * ((N / 2 : Nat) : Int)

/-- as repaired the pointer is right for every stride and every length -/
theorem highOK_all (step : Int) (N : Nat) : HighOK step N := rfl

theorem highOK_of (step : Int) (N : Nat) (_h : N % 2 = 0 ∨ step = 1 ∨ step = -1) : HighOK step N := rfl

/-! ### the row store -/

section Store
variable {α : Type}

theorem writeRow_hit (m : Memory α) (data step : Int) (N : Nat) (buf : Nat → α) (x : Nat) (hx : x < N)
    (hinj : ∀ x' : Nat, x' < N → step * (x' : Int) = step * (x : Int) → x' = x) :
    writeRow m data step N buf (data + step * (x : Int)) = buf x := by
  unfold writeRow
  by_cases hs : step = 0
  · have : N - 1 = x := hinj (N - 1) (by omega) (by rw [hs]; simp)
    subst hs
    simp only [if_true, Int.zero_mul, Int.add_zero, true_and]
    rw [if_pos (by omega), this]
  · have e : data + step * (x : Int) - data = step * (x : Int) := by ring
    have h1 : (step * (x : Int)) % step = 0 := Int.mul_emod_right _ _
    have h2 : (step * (x : Int)) / step = (x : Int) := Int.mul_ediv_cancel_left _ hs
    simp only [hs, if_false, e, h1, h2, true_and]
    rw [if_pos ⟨by omega, by omega⟩]
    simp

theorem writeRow_miss (m : Memory α) (data step : Int) (N : Nat) (buf : Nat → α) (a : Int)
    (hmiss : ∀ x : Nat, x < N → a ≠ data + step * (x : Int)) :
    writeRow m data step N buf a = m a := by
  unfold writeRow
  by_cases hs : step = 0
  · subst hs
    simp only [if_true]
    by_cases h : a = data ∧ 0 < N
    · exact absurd (by simp [h.1]) (hmiss 0 h.2)
    · rw [if_neg h]
  · simp only [hs, if_false]
    by_cases h : (a - data) % step = 0 ∧ 0 ≤ (a - data) / step ∧ (a - data) / step < (N : Int)
    · exfalso
      obtain ⟨h1, h2, h3⟩ := h
      have hd : step * ((a - data) / step) = a - data := Int.mul_ediv_cancel' (Int.dvd_of_emod_eq_zero h1)
      apply hmiss ((a - data) / step).toNat (by omega)
      rw [Int.toNat_of_nonneg h2, hd]; ring
    · rw [if_neg h]

end Store

/-! ### a pass over an injective view -/

section Pass
variable {K : Type} [Field K]

/-- the core row kernel a memory-level kernel stands for -/
def coreKernel (k : Kern) (cs : List K) : Nat → (Nat → K) → Nat → K :=
  match k with
  | .haar => haarRow
  | .ihaar => ihaarRow
  | .wavelet => waveletRow cs
  | .iwavelet => iwaveletRow cs

theorem haarRow_congr (N : Nat) (f f' : Nat → K) (h : ∀ p, p < N → f p = f' p) (x : Nat) :
    haarRow N f x = haarRow N f' x := by
  unfold haarRow
  by_cases h1 : x < N / 2
  · simp only [h1, if_true]; rw [h _ (by omega), h _ (by omega)]
  · by_cases h2 : x < 2 * (N / 2)
    · simp only [h1, h2, if_true, if_false]; rw [h _ (by omega), h _ (by omega)]
    · simp only [h1, h2, if_false]

theorem iwaveletRow_congr (cs : List K) (N : Nat) (g g' : Nat → K) (h : ∀ p, p < N → g p = g' p) (x : Nat) :
    iwaveletRow cs N g x = iwaveletRow cs N g' x := by
  unfold iwaveletRow
  rw [access_congr (N / 2) g g' (fun p hp => h p (by omega)),
    access_congr (N / 2) (fun k => g (N / 2 + k)) (fun k => g' (N / 2 + k)) (fun p hp => h _ (by omega))]

/-- every core kernel reads only the `N` samples of its row -/
theorem coreKernel_congr (k : Kern) (cs : List K) (N : Nat) (f f' : Nat → K) (h : ∀ p, p < N → f p = f' p)
    (x : Nat) : coreKernel k cs N f x = coreKernel k cs N f' x := by
  cases k with
  | haar => exact haarRow_congr N f f' h x
  | ihaar => exact ihaarRow_congr N f f' h x
  | wavelet => exact congrFun (waveletRow_congr cs N f f' h) x
  | iwavelet => exact iwaveletRow_congr cs N f f' h x

/-- with the pointer right, the scratch buffer of one row is the core kernel applied to the row read through
    the stride -/
theorem rowResult_core (k : Kern) (cs : List K) (m : Memory K) (data step : Int) (N : Nat)
    (H : HighOK step N) :
    rowResult k cs m data step N = coreKernel k cs N (fun i => m (data + step * (i : Int))) := by
  have hh : (fun i : Nat => m (data + highOff step N + step * (i : Int)))
      = fun i : Nat => (fun j : Nat => m (data + step * (j : Int))) (N / 2 + i) := by
    funext i
    show m _ = m _
    congr 1
    rw [H]; push_cast; ring
  cases k with
  | haar => rfl
  | wavelet => rfl
  | ihaar =>
    simp only [rowResult, coreKernel]
    rw [hh]; rfl
  | iwavelet =>
    simp only [rowResult, coreKernel]
    rw [hh]; rfl

/-- distinct index pairs of the view have distinct addresses (no element is stored twice) -/
def View.Inj (v : View) : Prop :=
  ∀ y y' x x' : Nat, y < v.N0 → y' < v.N0 → x < v.N1 → x' < v.N1 → v.addr y x = v.addr y' x' → y = y' ∧ x = x'

theorem View.Inj.T {v : View} (h : v.Inj) : v.T.Inj := by
  intro y y' x x' hy hy' hx hx' e
  have := h x x' y y' hx hx' hy hy' (by
    simp only [View.addr, View.T] at e ⊢
    linarith)
  exact ⟨this.2, this.1⟩

/-- a row-by-row in-place update of a view: row `y` is replaced by `R m data` computed from the memory before the store -/
def foldRows (v : View) (R : Memory K → Int → Nat → K) (j : Nat) (m : Memory K) : Memory K :=
  (List.range j).foldl (fun (m : Memory K) (y : Nat) =>
    writeRow m (v.off + v.s0 * (y : Int)) v.s1 v.N1 (R m (v.off + v.s0 * (y : Int)))) m

omit [Field K] in
/-- the state after the first `j` rows of such an update, when `R` is a row operator `T` reading the row only -/
theorem fold_prefix (v : View) (hinj : v.Inj) (R : Memory K → Int → Nat → K) (T : (Nat → K) → Nat → K)
    (hT : ∀ f f' : Nat → K, (∀ p, p < v.N1 → f p = f' p) → ∀ x, x < v.N1 → T f x = T f' x)
    (hR : ∀ (m : Memory K) (data : Int), R m data = T (fun i : Nat => m (data + v.s1 * (i : Int))))
    (m : Memory K) (j : Nat) (hj : j ≤ v.N0) :
    (∀ y x, y < j → x < v.N1 → foldRows v R j m (v.addr y x) = T (v.read m y) x) ∧
    (∀ y x, j ≤ y → y < v.N0 → x < v.N1 → foldRows v R j m (v.addr y x) = m (v.addr y x)) ∧
    (∀ a, (∀ y x, y < v.N0 → x < v.N1 → a ≠ v.addr y x) → foldRows v R j m a = m a) := by
  induction j with
  | zero => exact ⟨fun y x hy => absurd hy (by omega), fun _ _ _ _ _ => rfl, fun _ _ => rfl⟩
  | succ j ih =>
    obtain ⟨iha, ihb, ihc⟩ := ih (by omega)
    have hstep : foldRows v R (j + 1) m = writeRow (foldRows v R j m) (v.off + v.s0 * (j : Int)) v.s1 v.N1
        (R (foldRows v R j m) (v.off + v.s0 * (j : Int))) := by
      simp only [foldRows, List.range_succ, List.foldl_append, List.foldl_cons, List.foldl_nil]
    rw [hstep]
    generalize foldRows v R j m = mj at iha ihb ihc ⊢
    have hjlt : j < v.N0 := by omega
    have hrow : ∀ x, x < v.N1 →
        writeRow mj (v.off + v.s0 * (j : Int)) v.s1 v.N1 (R mj (v.off + v.s0 * (j : Int))) (v.addr j x)
          = T (v.read m j) x := by
      intro x hx
      show writeRow mj (v.off + v.s0 * (j : Int)) v.s1 v.N1 _ (v.off + v.s0 * (j : Int) + v.s1 * (x : Int)) = _
      rw [writeRow_hit _ _ _ _ _ x hx (by
        intro x' hx' e
        exact (hinj j j x' x hjlt hjlt hx' hx (by simp only [View.addr]; linarith)).2)]
      rw [hR]
      exact hT _ _ (fun p hp => ihb j p (le_refl _) hjlt hp) x hx
    have hother : ∀ a, (∀ x, x < v.N1 → a ≠ v.addr j x) →
        writeRow mj (v.off + v.s0 * (j : Int)) v.s1 v.N1 (R mj (v.off + v.s0 * (j : Int))) a = mj a := by
      intro a ha
      exact writeRow_miss _ _ _ _ _ a ha
    refine ⟨?_, ?_, ?_⟩
    · intro y x hy hx
      by_cases e : y = j
      · subst e; exact hrow x hx
      · rw [hother _ (fun x' hx' e' => e (hinj y j x x' (by omega) hjlt hx hx' e').1)]
        exact iha y x (by omega) hx
    · intro y x hy hy' hx
      rw [hother _ (fun x' hx' e' => by have := (hinj y j x x' hy' hjlt hx hx' e').1; omega)]
      exact ihb y x (by omega) hy' hx
    · intro a ha
      rw [hother _ (fun x' hx' => ha j x' hjlt hx')]
      exact ihc a ha

theorem pass_eq_foldRows (k : Kern) (cs : List K) (v : View) (m : Memory K) :
    pass k cs v m = foldRows v (fun m data => rowResult k cs m data v.s1 v.N1) v.N0 m := rfl

omit [Field K] in
theorem scaleView_eq_foldRows (g : K → K) (v : View) (m : Memory K) :
    scaleView g v m = foldRows v (fun m data => fun x : Nat => g (m (data + v.s1 * (x : Int)))) v.N0 m := rfl

/-- **a pass over an injective view with the pointer right** is the core kernel on every row of the viewed image,
    and writes nothing outside the view -/
theorem pass_spec (k : Kern) (cs : List K) (v : View) (hinj : v.Inj) (H : HighOK v.s1 v.N1) (m : Memory K) :
    (∀ y x, y < v.N0 → x < v.N1 → pass k cs v m (v.addr y x) = rowsPass (coreKernel k cs) v.N1 (v.read m) y x) ∧
    (∀ a, (∀ y x, y < v.N0 → x < v.N1 → a ≠ v.addr y x) → pass k cs v m a = m a) := by
  rw [pass_eq_foldRows]
  obtain ⟨ha, _, hc⟩ := fold_prefix v hinj (fun m data => rowResult k cs m data v.s1 v.N1) (coreKernel k cs v.N1)
    (fun f f' h x _ => coreKernel_congr k cs v.N1 f f' h x)
    (fun m data => rowResult_core k cs m data v.s1 v.N1 H) m v.N0 (le_refl _)
  exact ⟨fun y x hy hx => ha y x hy hx, hc⟩

omit [Field K] in
/-- the in-place scaling touches every element of an injective view once and nothing else -/
theorem scaleView_spec (g : K → K) (v : View) (hinj : v.Inj) (m : Memory K) :
    (∀ y x, y < v.N0 → x < v.N1 → scaleView g v m (v.addr y x) = g (m (v.addr y x))) ∧
    (∀ a, (∀ y x, y < v.N0 → x < v.N1 → a ≠ v.addr y x) → scaleView g v m a = m a) := by
  rw [scaleView_eq_foldRows]
  obtain ⟨ha, _, hc⟩ := fold_prefix v hinj (fun m data => fun x : Nat => g (m (data + v.s1 * (x : Int))))
    (fun f x => g (f x)) (fun f f' h x hx => by show g (f x) = g (f' x); rw [h x hx])
    (fun m data => rfl) m v.N0 (le_refl _)
  exact ⟨fun y x hy hx => ha y x hy hx, hc⟩

theorem addr_T (v : View) (y x : Nat) : v.T.addr x y = v.addr y x := by
  simp only [View.addr, View.T]; ring

/-- a pass over the transposed view `f.T` is the core kernel on every column -/
theorem pass_T_spec (k : Kern) (cs : List K) (v : View) (hinj : v.Inj) (H : HighOK v.s0 v.N0) (m : Memory K) :
    (∀ y x, y < v.N0 → x < v.N1 →
      pass k cs v.T m (v.addr y x) = colsPass (coreKernel k cs) v.N0 (v.read m) y x) ∧
    (∀ a, (∀ y x, y < v.N0 → x < v.N1 → a ≠ v.addr y x) → pass k cs v.T m a = m a) := by
  obtain ⟨ha, hc⟩ := pass_spec k cs v.T hinj.T H m
  constructor
  · intro y x hy hx
    rw [← addr_T, ha x y hx hy]
    show coreKernel k cs v.N0 (fun i => m (v.T.addr x i)) y = coreKernel k cs v.N0 (fun k' => m (v.addr k' x)) y
    congr 1; funext i; rw [addr_T]
  · intro a h
    exact hc a (fun x y hx hy e => h y x hy hx (by rw [e, addr_T]))

/-- rows, then columns through the transposed view (`haar`, `ihaar`, `daubechies`) -/
theorem rows_then_cols (k1 k2 : Kern) (cs : List K) (v : View) (hinj : v.Inj) (H1 : HighOK v.s1 v.N1)
    (H0 : HighOK v.s0 v.N0) (m : Memory K) :
    (∀ y x, y < v.N0 → x < v.N1 → pass k2 cs v.T (pass k1 cs v m) (v.addr y x)
      = colsPass (coreKernel k2 cs) v.N0 (rowsPass (coreKernel k1 cs) v.N1 (v.read m)) y x) ∧
    (∀ a, (∀ y x, y < v.N0 → x < v.N1 → a ≠ v.addr y x) → pass k2 cs v.T (pass k1 cs v m) a = m a) := by
  obtain ⟨a1, c1⟩ := pass_spec k1 cs v hinj H1 m
  obtain ⟨a2, c2⟩ := pass_T_spec k2 cs v hinj H0 (pass k1 cs v m)
  constructor
  · intro y x hy hx
    rw [a2 y x hy hx]
    exact coreKernel_congr k2 cs v.N0 _ _ (fun i hi => a1 i x hi hx) y
  · intro a h
    rw [c2 a h, c1 a h]

/-- columns through the transposed view first, then rows (`idaubechies`) -/
theorem cols_then_rows (k1 k2 : Kern) (cs : List K) (v : View) (hinj : v.Inj) (H1 : HighOK v.s1 v.N1)
    (H0 : HighOK v.s0 v.N0) (m : Memory K) :
    (∀ y x, y < v.N0 → x < v.N1 → pass k2 cs v (pass k1 cs v.T m) (v.addr y x)
      = rowsPass (coreKernel k2 cs) v.N1 (colsPass (coreKernel k1 cs) v.N0 (v.read m)) y x) ∧
    (∀ a, (∀ y x, y < v.N0 → x < v.N1 → a ≠ v.addr y x) → pass k2 cs v (pass k1 cs v.T m) a = m a) := by
  obtain ⟨a1, c1⟩ := pass_T_spec k1 cs v hinj H0 m
  obtain ⟨a2, c2⟩ := pass_spec k2 cs v hinj H1 (pass k1 cs v.T m)
  constructor
  · intro y x hy hx
    rw [a2 y x hy hx]
    exact coreKernel_congr k2 cs v.N1 _ _ (fun i hi => a1 y i hy hi) x
  · intro a h
    rw [c2 a h, c1 a h]

/-- the 2-D core model a wrapper stands for -/
def core2 (w : Wrapper) (pe : Bool) (cs : List K) : Nat → Nat → Im K → Im K :=
  match w with
  | .haar => haar2 pe
  | .ihaar => ihaar2 pe
  | .daubechies => daubechies2 cs
  | .idaubechies => idaubechies2 cs

/-- **the memory-level wrapper body on an injective view with both pointers right is the core 2-D model**, and it
    writes nothing outside the view -/
theorem wrapperBody_spec (w : Wrapper) (pe : Bool) (cs : List K) (v : View) (hinj : v.Inj)
    (H1 : HighOK v.s1 v.N1) (H0 : HighOK v.s0 v.N0) (m : Memory K) :
    (∀ y x, y < v.N0 → x < v.N1 →
      wrapperBody w pe cs v m (v.addr y x) = core2 w pe cs v.N0 v.N1 (v.read m) y x) ∧
    (∀ a, (∀ y x, y < v.N0 → x < v.N1 → a ≠ v.addr y x) → wrapperBody w pe cs v m a = m a) := by
  cases w with
  | daubechies => exact rows_then_cols .wavelet .wavelet cs v hinj H1 H0 m
  | idaubechies => exact cols_then_rows .iwavelet .iwavelet cs v hinj H1 H0 m
  | haar =>
    obtain ⟨a1, c1⟩ := rows_then_cols .haar .haar cs v hinj H1 H0 m
    cases pe with
    | false => exact ⟨a1, c1⟩
    | true =>
      obtain ⟨a2, c2⟩ := scaleView_spec (fun t : K => t / two) v hinj (pass .haar cs v.T (pass .haar cs v m))
      constructor
      · intro y x hy hx
        show scaleView (fun t : K => t / two) v (pass .haar cs v.T (pass .haar cs v m)) (v.addr y x) = _
        rw [a2 y x hy hx, a1 y x hy hx]; rfl
      · intro a h
        show scaleView (fun t : K => t / two) v (pass .haar cs v.T (pass .haar cs v m)) a = _
        rw [c2 a h, c1 a h]
  | ihaar =>
    obtain ⟨a1, c1⟩ := rows_then_cols .ihaar .ihaar cs v hinj H1 H0 m
    cases pe with
    | false => exact ⟨a1, c1⟩
    | true =>
      obtain ⟨a2, c2⟩ := scaleView_spec (fun t : K => t * two) v hinj (pass .ihaar cs v.T (pass .ihaar cs v m))
      constructor
      · intro y x hy hx
        show scaleView (fun t : K => t * two) v (pass .ihaar cs v.T (pass .ihaar cs v m)) (v.addr y x) = _
        rw [a2 y x hy hx, a1 y x hy hx]; rfl
      · intro a h
        show scaleView (fun t : K => t * two) v (pass .ihaar cs v.T (pass .ihaar cs v m)) a = _
        rw [c2 a h, c1 a h]

/-- contiguous views are injective -/
theorem contig_inj (N0 N1 : Nat) : (View.contig N0 N1).Inj := by
  intro y y' x x' _ _ hx hx' e
  simp only [View.addr, View.contig] at e
  simp only [View.contig] at hx hx'
  have hxi : (x : Int) < N1 := by exact_mod_cast hx
  have hxi' : (x' : Int) < N1 := by exact_mod_cast hx'
  have h : (N1 : Int) * y + x = N1 * y' + x' := by linarith
  have hy : (y : Int) = y' := by
    rcases lt_trichotomy (y : Int) y' with h' | h' | h'
    · have : (N1 : Int) * (y + 1) ≤ N1 * y' := Int.mul_le_mul_of_nonneg_left (by omega) (by omega)
      rw [mul_add, mul_one] at this
      linarith [Int.natCast_nonneg x']
    · exact h'
    · have : (N1 : Int) * (y' + 1) ≤ N1 * y := Int.mul_le_mul_of_nonneg_left (by omega) (by omega)
      rw [mul_add, mul_one] at this
      linarith [Int.natCast_nonneg x]
  refine ⟨by omega, ?_⟩
  rw [hy] at h
  omega

/-- `ihaar2` reads only the pixels of the image -/
theorem ihaar2_congr (pe : Bool) (N0 N1 : Nat) (f f' : Im K) (h : ∀ y x, y < N0 → x < N1 → f y x = f' y x)
    (y x : Nat) : ihaar2 pe N0 N1 f y x = ihaar2 pe N0 N1 f' y x := by
  have core : colsPass ihaarRow N0 (rowsPass ihaarRow N1 f) y x
      = colsPass ihaarRow N0 (rowsPass ihaarRow N1 f') y x := by
    show ihaarRow N0 (fun k => ihaarRow N1 (f k) x) y = ihaarRow N0 (fun k => ihaarRow N1 (f' k) x) y
    exact ihaarRow_congr N0 _ _ (fun k hk => ihaarRow_congr N1 _ _ (fun p hp => h k p hk hp) x) y
  cases pe with
  | false => exact core
  | true =>
    show colsPass ihaarRow N0 (rowsPass ihaarRow N1 f) y x * two
      = colsPass ihaarRow N0 (rowsPass ihaarRow N1 f') y x * two
    rw [core]

/-- `haar` then `ihaar`, both in place on the same injective view with both pointers right: the view ends up holding
    the original image on `[0, 2⌊N0/2⌋) × [0, 2⌊N1/2⌋)` and `0` in the last row / column of an odd side -/
theorem haar_ihaar_mem (h2 : (2 : K) ≠ 0) (pe : Bool) (cs cs' : List K) (v : View) (hinj : v.Inj)
    (H1 : HighOK v.s1 v.N1) (H0 : HighOK v.s0 v.N0) (m : Memory K) (y x : Nat) (hy : y < v.N0) (hx : x < v.N1) :
    wrapperBody .ihaar pe cs' v (wrapperBody .haar pe cs v m) (v.addr y x)
      = if y < 2 * (v.N0 / 2) ∧ x < 2 * (v.N1 / 2) then m (v.addr y x) else 0 := by
  obtain ⟨a1, _⟩ := wrapperBody_spec .haar pe cs v hinj H1 H0 m
  obtain ⟨a2, _⟩ := wrapperBody_spec .ihaar pe cs' v hinj H1 H0 (wrapperBody .haar pe cs v m)
  rw [a2 y x hy hx]
  show ihaar2 pe v.N0 v.N1 (v.read (wrapperBody .haar pe cs v m)) y x = _
  rw [ihaar2_congr pe v.N0 v.N1 (v.read (wrapperBody .haar pe cs v m)) (haar2 pe v.N0 v.N1 (v.read m))
    (fun y' x' hy' hx' => a1 y' x' hy' hx') y x]
  exact ihaar2_haar2_any h2 pe v.N0 v.N1 (v.read m) y x

/-! ### the fresh copy (`inline=False`, integer input) -/

omit [Field K] in
/-- reading the fresh C-contiguous copy back gives the image -/
theorem fresh_read_contig (N0 N1 : Nat) (f : Im K) (y x : Nat) (hx : x < N1) :
    (View.contig N0 N1).read (freshMem (View.contig N0 N1) f) y x = f y x := by
  have hN : (N1 : Int) ≠ 0 := by omega
  have hx0 : (0 : Int) ≤ (x : Int) := by omega
  have hxl : (x : Int) < (N1 : Int) := by omega
  have e1 : ((0 : Int) + (N1 : Int) * (y : Int) + 1 * (x : Int)) / (N1 : Int) = (y : Int) := by
    rw [show (0 : Int) + (N1 : Int) * (y : Int) + 1 * (x : Int) = (x : Int) + (N1 : Int) * (y : Int) by ring,
      Int.add_mul_ediv_left _ _ hN, Int.ediv_eq_zero_of_lt hx0 hxl]; simp
  have e2 : ((0 : Int) + (N1 : Int) * (y : Int) + 1 * (x : Int)) % (N1 : Int) = (x : Int) := by
    rw [show (0 : Int) + (N1 : Int) * (y : Int) + 1 * (x : Int) = (x : Int) + (N1 : Int) * (y : Int) by ring,
      Int.add_mul_emod_self_left, Int.emod_eq_of_lt hx0 hxl]
  show freshMem (View.contig N0 N1) f ((0 : Int) + (N1 : Int) * (y : Int) + 1 * (x : Int)) = f y x
  unfold freshMem
  simp only [View.contig, if_true, e1, e2, Int.toNat_natCast]

theorem rowsPass_congr (k : Kern) (cs : List K) (N0 N1 : Nat) (f f' : Im K)
    (h : ∀ y x, y < N0 → x < N1 → f y x = f' y x) (y x : Nat) (hy : y < N0) :
    rowsPass (coreKernel k cs) N1 f y x = rowsPass (coreKernel k cs) N1 f' y x :=
  coreKernel_congr k cs N1 _ _ (fun p hp => h y p hy hp) x

theorem colsPass_congr (k : Kern) (cs : List K) (N0 N1 : Nat) (f f' : Im K)
    (h : ∀ y x, y < N0 → x < N1 → f y x = f' y x) (y x : Nat) (hx : x < N1) :
    colsPass (coreKernel k cs) N0 f y x = colsPass (coreKernel k cs) N0 f' y x :=
  coreKernel_congr k cs N0 _ _ (fun p hp => h p x hp hx) y

/-- the 2-D core models read only the pixels of the image -/
theorem core2_congr (w : Wrapper) (pe : Bool) (cs : List K) (N0 N1 : Nat) (f f' : Im K)
    (h : ∀ y x, y < N0 → x < N1 → f y x = f' y x) (y x : Nat) (hy : y < N0) (hx : x < N1) :
    core2 w pe cs N0 N1 f y x = core2 w pe cs N0 N1 f' y x := by
  have rc : ∀ k1 k2 : Kern, colsPass (coreKernel k2 cs) N0 (rowsPass (coreKernel k1 cs) N1 f) y x
      = colsPass (coreKernel k2 cs) N0 (rowsPass (coreKernel k1 cs) N1 f') y x := fun k1 k2 =>
    colsPass_congr k2 cs N0 N1 _ _ (fun y' x' hy' _ => rowsPass_congr k1 cs N0 N1 f f' h y' x' hy') y x hx
  have cr : ∀ k1 k2 : Kern, rowsPass (coreKernel k2 cs) N1 (colsPass (coreKernel k1 cs) N0 f) y x
      = rowsPass (coreKernel k2 cs) N1 (colsPass (coreKernel k1 cs) N0 f') y x := fun k1 k2 =>
    rowsPass_congr k2 cs N0 N1 _ _ (fun y' x' _ hx' => colsPass_congr k1 cs N0 N1 f f' h y' x' hx') y x hy
  cases w with
  | daubechies => exact rc .wavelet .wavelet
  | idaubechies => exact cr .iwavelet .iwavelet
  | haar =>
    cases pe with
    | false => exact rc .haar .haar
    | true =>
      show colsPass haarRow N0 (rowsPass haarRow N1 f) y x / two = colsPass haarRow N0 (rowsPass haarRow N1 f') y x / two
      rw [show colsPass haarRow N0 (rowsPass haarRow N1 f) y x
        = colsPass haarRow N0 (rowsPass haarRow N1 f') y x from rc .haar .haar]
  | ihaar =>
    cases pe with
    | false => exact rc .ihaar .ihaar
    | true =>
      show colsPass ihaarRow N0 (rowsPass ihaarRow N1 f) y x * two = colsPass ihaarRow N0 (rowsPass ihaarRow N1 f') y x * two
      rw [show colsPass ihaarRow N0 (rowsPass ihaarRow N1 f) y x
        = colsPass ihaarRow N0 (rowsPass ihaarRow N1 f') y x from rc .ihaar .ihaar]

/-- a call that does not work in place (`inline=False`, or a float-converted integer array whose axes keep the C
    order) returns the core 2-D model of the image the view shows, when the number of rows is even (any number of
    columns: the fresh array is C-contiguous, its rows have unit stride) -/
theorem wrapMem_fresh_core (w : Wrapper) (pe : Bool) (cs : List K) (isFloat inline : Bool) (v : View)
    (hfresh : ¬ (inline = true ∧ isFloat = true)) (hC : freshView isFloat inline v = View.contig v.N0 v.N1)
    (h0 : v.N0 % 2 = 0) (m : Memory K) (y x : Nat) (hy : y < v.N0) (hx : x < v.N1) :
    (wrapMem w pe cs isFloat inline v m).2 y x = core2 w pe cs v.N0 v.N1 (v.read m) y x := by
  have e : (wrapMem w pe cs isFloat inline v m).2
      = (freshView isFloat inline v).read (wrapperBody w pe cs (freshView isFloat inline v)
          (freshMem (freshView isFloat inline v) (v.read m))) := by
    revert hfresh
    cases isFloat <;> cases inline <;> simp [wrapMem, wrapMemG, wrapTarget, wrapperBody]
  rw [e, hC]
  obtain ⟨a1, _⟩ := wrapperBody_spec w pe cs (View.contig v.N0 v.N1) (contig_inj v.N0 v.N1)
    (highOK_of _ _ (Or.inr (Or.inl rfl))) (highOK_of _ _ (Or.inl h0)) (freshMem (View.contig v.N0 v.N1) (v.read m))
  have := a1 y x hy hx
  show wrapperBody w pe cs (View.contig v.N0 v.N1) (freshMem (View.contig v.N0 v.N1) (v.read m))
      ((View.contig v.N0 v.N1).addr y x) = _
  rw [this]
  exact core2_congr w pe cs v.N0 v.N1 _ _ (fun y' x' _ hx' => fresh_read_contig v.N0 v.N1 (v.read m) y' x' hx') y x hy hx

end Pass

end Mahotas.C17.Mem
