/-
C17 — facts about the memory-level model (`Model/C17Mem.lean`): the pointer `high = data + step*N1/2`, the row
store, and the agreement of a pass over an injective strided view with the core row kernels whenever the pointer is
right (even length or unit stride).
-/
import Mahotas.Model.C17Mem
import Mahotas.Proofs.C17
import Mahotas.Proofs.C17Energy
import Mathlib.Tactic.Ring
import Mathlib.Tactic.Linarith
namespace Mahotas.C17.Mem
open Mahotas Mahotas.C17

/-! ### the pointer `high = data + step*N1/2` -/

theorem tdiv2_add (p s : Int) (h : (0 ≤ p ∧ 0 ≤ s) ∨ (p ≤ 0 ∧ s ≤ 0)) :
    (2 * p + s).tdiv 2 = p + s.tdiv 2 := by
  rcases h with ⟨hp, hs⟩ | ⟨hp, hs⟩
  · rw [Int.tdiv_eq_ediv_of_nonneg (by omega), Int.tdiv_eq_ediv_of_nonneg hs]; omega
  · have e : 2 * p + s = -(2 * (-p) + (-s)) := by ring
    have e2 : s = -(-s) := by ring
    rw [e, Int.neg_tdiv, Int.tdiv_eq_ediv_of_nonneg (by omega)]
    conv_rhs => rw [e2, Int.neg_tdiv, Int.tdiv_eq_ediv_of_nonneg (by omega)]
    omega

theorem highOff_even (step : Int) (N : Nat) (hN : N % 2 = 0) :
    highOff step N = step * ((N / 2 : Nat) : Int) := by
  unfold highOff
  have e : step * (N : Int) = 2 * (step * ((N / 2 : Nat) : Int)) + 0 := by
    have : (N : Int) = 2 * ((N / 2 : Nat) : Int) := by omega
    rw [this]; push_cast; ring_nf
  rw [e, tdiv2_add _ _ (by rcases le_total 0 (step * ((N / 2 : Nat) : Int)) with h | h <;> omega)]
  simp

theorem highOff_odd (step : Int) (N : Nat) (hN : N % 2 = 1) :
    highOff step N = step * ((N / 2 : Nat) : Int) + step.tdiv 2 := by
  unfold highOff
  have e : step * (N : Int) = 2 * (step * ((N / 2 : Nat) : Int)) + step := by
    have : (N : Int) = 2 * ((N / 2 : Nat) : Int) + 1 := by omega
    rw [this]; ring
  rw [e]
  apply tdiv2_add
  rcases le_total 0 step with h | h
  · exact Or.inl ⟨mul_nonneg h (by omega), h⟩
  · exact Or.inr ⟨mul_nonpos_of_nonpos_of_nonneg h (by omega), h⟩

theorem highOff_unit (step : Int) (N : Nat) (h : step = 1 ∨ step = -1) :
    highOff step N = step * ((N / 2 : Nat) : Int) := by
  rcases Nat.mod_two_eq_zero_or_one N with hN | hN
  · exact highOff_even step N hN
  · rw [highOff_odd step N hN]
    rcases h with rfl | rfl <;> simp

/-- the pointer is right: `high = data + step·(N/2)` -/
def HighOK (step : Int) (N : Nat) : Prop := highOff step N = step * ((N / 2 : Nat) : Int)

theorem highOK_of (step : Int) (N : Nat) (h : N % 2 = 0 ∨ step = 1 ∨ step = -1) : HighOK step N := by
  rcases h with h | h
  · exact highOff_even step N h
  · exact highOff_unit step N h

/-! ### the row store -/

section Store
variable {α : Type}

theorem writeRow_hit (m : Memory α) (data step : Int) (N : Nat) (buf : Nat → α) (x : Nat) (hx : x < N)
    (hinj : ∀ x' : Nat, x' < N → step * (x' : Int) = step * (x : Int) → x' = x) :
    writeRow m data step N buf (data + step * (x : Int)) = buf x := by
  unfold writeRow
  by_cases hs : step = 0
  · have : N - 1 = x := hinj (N - 1) (by omega) (by rw [hs]; simp)
    subst hs
    simp only [if_true, Int.zero_mul, Int.add_zero, true_and]
    rw [if_pos (by omega), this]
  · have e : data + step * (x : Int) - data = step * (x : Int) := by ring
    have h1 : (step * (x : Int)) % step = 0 := Int.mul_emod_right _ _
    have h2 : (step * (x : Int)) / step = (x : Int) := Int.mul_ediv_cancel_left _ hs
    simp only [hs, if_false, e, h1, h2, true_and]
    rw [if_pos ⟨by omega, by omega⟩]
    simp

theorem writeRow_miss (m : Memory α) (data step : Int) (N : Nat) (buf : Nat → α) (a : Int)
    (hmiss : ∀ x : Nat, x < N → a ≠ data + step * (x : Int)) :
    writeRow m data step N buf a = m a := by
  unfold writeRow
  by_cases hs : step = 0
  · subst hs
    simp only [if_true]
    by_cases h : a = data ∧ 0 < N
    · exact absurd (by simp [h.1]) (hmiss 0 h.2)
    · rw [if_neg h]
  · simp only [hs, if_false]
    by_cases h : (a - data) % step = 0 ∧ 0 ≤ (a - data) / step ∧ (a - data) / step < (N : Int)
    · exfalso
      obtain ⟨h1, h2, h3⟩ := h
      have hd : step * ((a - data) / step) = a - data := Int.mul_ediv_cancel' (Int.dvd_of_emod_eq_zero h1)
      apply hmiss ((a - data) / step).toNat (by omega)
      rw [Int.toNat_of_nonneg h2, hd]; ring
    · rw [if_neg h]

end Store

/-! ### a pass over an injective view -/

section Pass
variable {K : Type} [Field K]

/-- the core row kernel a memory-level kernel stands for -/
def coreKernel (k : Kern) (cs : List K) : Nat → (Nat → K) → Nat → K :=
  match k with
  | .haar => haarRow
  | .ihaar => ihaarRow
  | .wavelet => waveletRow cs
  | .iwavelet => iwaveletRow cs

theorem haarRow_congr (N : Nat) (f f' : Nat → K) (h : ∀ p, p < N → f p = f' p) (x : Nat) :
    haarRow N f x = haarRow N f' x := by
  unfold haarRow
  by_cases h1 : x < N / 2
  · simp only [h1, if_true]; rw [h _ (by omega), h _ (by omega)]
  · by_cases h2 : x < 2 * (N / 2)
    · simp only [h1, h2, if_true, if_false]; rw [h _ (by omega), h _ (by omega)]
    · simp only [h1, h2, if_false]

theorem iwaveletRow_congr (cs : List K) (N : Nat) (g g' : Nat → K) (h : ∀ p, p < N → g p = g' p) (x : Nat) :
    iwaveletRow cs N g x = iwaveletRow cs N g' x := by
  unfold iwaveletRow
  rw [access_congr (N / 2) g g' (fun p hp => h p (by omega)),
    access_congr (N / 2) (fun k => g (N / 2 + k)) (fun k => g' (N / 2 + k)) (fun p hp => h _ (by omega))]

/-- every core kernel reads only the `N` samples of its row -/
theorem coreKernel_congr (k : Kern) (cs : List K) (N : Nat) (f f' : Nat → K) (h : ∀ p, p < N → f p = f' p)
    (x : Nat) : coreKernel k cs N f x = coreKernel k cs N f' x := by
  cases k with
  | haar => exact haarRow_congr N f f' h x
  | ihaar => exact ihaarRow_congr N f f' h x
  | wavelet => exact congrFun (waveletRow_congr cs N f f' h) x
  | iwavelet => exact iwaveletRow_congr cs N f f' h x

/-- with the pointer right, the scratch buffer of one row is the core kernel applied to the row read through
    the stride -/
theorem rowResult_core (k : Kern) (cs : List K) (m : Memory K) (data step : Int) (N : Nat)
    (H : HighOK step N) :
    rowResult k cs m data step N = coreKernel k cs N (fun i => m (data + step * (i : Int))) := by
  have hh : (fun i : Nat => m (data + highOff step N + step * (i : Int)))
      = fun i : Nat => (fun j : Nat => m (data + step * (j : Int))) (N / 2 + i) := by
    funext i
    show m _ = m _
    congr 1
    rw [H]; push_cast; ring
  cases k with
  | haar => rfl
  | wavelet => rfl
  | ihaar =>
    simp only [rowResult, coreKernel]
    rw [hh]; rfl
  | iwavelet =>
    simp only [rowResult, coreKernel]
    rw [hh]; rfl

/-- distinct index pairs of the view have distinct addresses (no element is stored twice) -/
def View.Inj (v : View) : Prop :=
  ∀ y y' x x' : Nat, y < v.N0 → y' < v.N0 → x < v.N1 → x' < v.N1 → v.addr y x = v.addr y' x' → y = y' ∧ x = x'

theorem View.Inj.T {v : View} (h : v.Inj) : v.T.Inj := by
  intro y y' x x' hy hy' hx hx' e
  have := h x x' y y' hx hx' hy hy' (by
    simp only [View.addr, View.T] at e ⊢
    linarith)
  exact ⟨this.2, this.1⟩

/-- the state after the first `j` rows of a pass -/
theorem pass_prefix (k : Kern) (cs : List K) (v : View) (hinj : v.Inj) (H : HighOK v.s1 v.N1) (m : Memory K)
    (j : Nat) (hj : j ≤ v.N0) :
    let mj := (List.range j).foldl (rowStep k cs v) m
    (∀ y x, y < j → x < v.N1 → mj (v.addr y x) = coreKernel k cs v.N1 (v.read m y) x) ∧
    (∀ y x, j ≤ y → y < v.N0 → x < v.N1 → mj (v.addr y x) = m (v.addr y x)) ∧
    (∀ a, (∀ y x, y < v.N0 → x < v.N1 → a ≠ v.addr y x) → mj a = m a) := by
  induction j with
  | zero => exact ⟨fun y x hy => absurd hy (by omega), fun _ _ _ _ _ => rfl, fun _ _ => rfl⟩
  | succ j ih =>
    obtain ⟨iha, ihb, ihc⟩ := ih (by omega)
    simp only [List.range_succ, List.foldl_append, List.foldl_cons, List.foldl_nil]
    set mj := (List.range j).foldl (rowStep k cs v) m with hmj
    have hjlt : j < v.N0 := by omega
    -- the row store of step `j`
    have hrow : ∀ x, x < v.N1 → rowStep k cs v mj j (v.addr j x) = coreKernel k cs v.N1 (v.read m j) x := by
      intro x hx
      show writeRow mj (v.off + v.s0 * (j : Int)) v.s1 v.N1 _ (v.off + v.s0 * (j : Int) + v.s1 * (x : Int)) = _
      rw [writeRow_hit _ _ _ _ _ x hx (by
        intro x' hx' e
        exact (hinj j j x' x hjlt hjlt hx' hx (by simp only [View.addr]; linarith)).2)]
      rw [rowResult_core k cs mj _ _ _ H]
      apply coreKernel_congr
      intro p hp
      exact ihb j p (le_refl _) hjlt hp
    have hother : ∀ a, (∀ x, x < v.N1 → a ≠ v.addr j x) → rowStep k cs v mj j a = mj a := by
      intro a ha
      exact writeRow_miss _ _ _ _ _ a ha
    refine ⟨?_, ?_, ?_⟩
    · intro y x hy hx
      by_cases e : y = j
      · subst e; exact hrow x hx
      · rw [hother _ (fun x' hx' e' => e (hinj y j x x' (by omega) hjlt hx hx' e').1)]
        exact iha y x (by omega) hx
    · intro y x hy hy' hx
      rw [hother _ (fun x' hx' e' => by have := (hinj y j x x' hy' hjlt hx hx' e').1; omega)]
      exact ihb y x (by omega) hy' hx
    · intro a ha
      rw [hother _ (fun x' hx' => ha j x' hjlt hx')]
      exact ihc a ha

/-- **a pass over an injective view with the pointer right** is the core kernel on every row of the viewed image,
    and writes nothing outside the view -/
theorem pass_spec (k : Kern) (cs : List K) (v : View) (hinj : v.Inj) (H : HighOK v.s1 v.N1) (m : Memory K) :
    (∀ y x, y < v.N0 → x < v.N1 → pass k cs v m (v.addr y x) = rowsPass (coreKernel k cs) v.N1 (v.read m) y x) ∧
    (∀ a, (∀ y x, y < v.N0 → x < v.N1 → a ≠ v.addr y x) → pass k cs v m a = m a) := by
  obtain ⟨ha, _, hc⟩ := pass_prefix k cs v hinj H m v.N0 (le_refl _)
  exact ⟨fun y x hy hx => ha y x hy hx, hc⟩

end Pass

end Mahotas.C17.Mem
