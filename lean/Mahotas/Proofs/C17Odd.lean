/-
C17 — the Haar round trip on rows and images of ANY length (odd included), for the core model
(`Model/C17Core.lean`): `haar` leaves the last sample of an odd row out and writes `T()` into the last slot,
`ihaar` rebuilds the first `2·⌊N/2⌋` samples and writes `T()` into the last slot.
-/
import Mahotas.Proofs.C17
namespace Mahotas.C17
open Mahotas

variable {K : Type} [Field K]

/-- the row round trip for every length: the first `2⌊N/2⌋` samples come back, every later slot holds `0` -/
theorem ihaarRow_haarRow_any (h2 : (2 : K) ≠ 0) (N : Nat) (f : Nat → K) (k : Nat) :
    ihaarRow N (haarRow N f) k = if k < 2 * (N / 2) then f k else 0 := by
  by_cases h1 : k < 2 * (N / 2)
  · have h3 : k / 2 < N / 2 := by omega
    unfold ihaarRow
    simp only [h1, if_true]
    rw [haarRow_low N f _ h3, haarRow_high N f _ h3]
    rcases Nat.mod_two_eq_zero_or_one k with hk0 | hk1
    · have e : 2 * (k / 2) = k := by omega
      simp only [hk0, if_true, e, two_eq]
      field_simp
      ring
    · have e : 2 * (k / 2) + 1 = k := by omega
      have ne : ¬ (k % 2 = 0) := by omega
      simp only [ne, if_false, e, two_eq]
      field_simp
      ring
  · unfold ihaarRow
    simp only [h1, if_false, zero_eq]

/-- `ihaarRow` of the zero row is zero -/
theorem ihaarRow_zero (N : Nat) (k : Nat) : ihaarRow N (fun _ => (0 : K)) k = 0 := by
  have := ihaarRow_linear N (0 : K) 0 (fun _ => 0) (fun _ => 0) k
  simpa using this

/-- the 2-D round trip of the core model without the scalings, every shape -/
theorem ihaar_haar_core_any (h2 : (2 : K) ≠ 0) (N0 N1 : Nat) (f : Im K) (y x : Nat) :
    colsPass ihaarRow N0 (rowsPass ihaarRow N1 (colsPass haarRow N0 (rowsPass haarRow N1 f))) y x
      = if y < 2 * (N0 / 2) ∧ x < 2 * (N1 / 2) then f y x else 0 := by
  rw [rows_cols_comm_haar ihaarRow ihaarRow_linear]
  show ihaarRow N0 (fun k => haarRow N0 (fun k' => ihaarRow N1 (haarRow N1 (f k')) x) k) y = _
  rw [ihaarRow_haarRow_any h2 N0 _ y, ihaarRow_haarRow_any h2 N1 (f y) x]
  by_cases hy : y < 2 * (N0 / 2) <;> by_cases hx : x < 2 * (N1 / 2) <;> simp [hy, hx]

/-- the 2-D round trip of the core model, every shape, `preserve_energy` on or off -/
theorem ihaar2_haar2_any (h2 : (2 : K) ≠ 0) (pe : Bool) (N0 N1 : Nat) (f : Im K) (y x : Nat) :
    ihaar2 pe N0 N1 (haar2 pe N0 N1 f) y x = if y < 2 * (N0 / 2) ∧ x < 2 * (N1 / 2) then f y x else 0 := by
  cases pe with
  | false => exact ihaar_haar_core_any h2 N0 N1 f y x
  | true =>
    simp only [ihaar2, haar2, if_true, two_eq]
    have e1 : rowsPass ihaarRow N1
          (fun y x => colsPass haarRow N0 (rowsPass haarRow N1 f) y x / 2)
        = fun y x => rowsPass ihaarRow N1 (colsPass haarRow N0 (rowsPass haarRow N1 f)) y x / 2 := by
      funext y x
      exact scale_of_linear ihaarRow ihaarRow_linear N1 2 _ x
    rw [e1]
    have e2 : colsPass ihaarRow N0
          (fun y x => rowsPass ihaarRow N1 (colsPass haarRow N0 (rowsPass haarRow N1 f)) y x / 2) y x
        = colsPass ihaarRow N0 (rowsPass ihaarRow N1 (colsPass haarRow N0 (rowsPass haarRow N1 f))) y x / 2 :=
      scale_of_linear ihaarRow ihaarRow_linear N0 2 _ y
    rw [e2, ihaar_haar_core_any h2 N0 N1 f y x]
    exact div_mul_cancel₀ _ h2

end Mahotas.C17
