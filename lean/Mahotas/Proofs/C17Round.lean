/-
C17 — the rounding of the analysis kernel in the standard model of floating-point arithmetic.

`waveletRow` is polymorphic in its scalar type; here it is instantiated at `Rnd K fl`: the ordered field `K` with every
`+ − × ÷` followed by a rounding function `fl` (negation and the casts are exact) — the very loop of the model, in its
order of operations, evaluated in rounded arithmetic. If `|fl t − t| ≤ u·|t|` for every `t`, one sample of the
transform differs from the exact one by at most `((1+u)^(n+1) − 1) · Σ_ci |c|·|f(2x+ci)|`.
-/
import Mahotas.Proofs.C17
import Mathlib.Algebra.Order.Field.Basic
import Mathlib.Algebra.Order.AbsoluteValue.Basic
import Mathlib.Tactic.Ring
import Mathlib.Tactic.Linarith
import Mathlib.Tactic.Positivity
namespace Mahotas.C17
open Mahotas

/-- `K` with rounded arithmetic: every `+ − × ÷` is followed by `fl` -/
structure Rnd (K : Type) (fl : K → K) where
  val : K

namespace Rnd
variable {K : Type} [Field K] {fl : K → K}
instance : Add (Rnd K fl) := ⟨fun a b => ⟨fl (a.val + b.val)⟩⟩
instance : Sub (Rnd K fl) := ⟨fun a b => ⟨fl (a.val - b.val)⟩⟩
instance : Mul (Rnd K fl) := ⟨fun a b => ⟨fl (a.val * b.val)⟩⟩
instance : Div (Rnd K fl) := ⟨fun a b => ⟨fl (a.val / b.val)⟩⟩
instance : Neg (Rnd K fl) := ⟨fun a => ⟨-a.val⟩⟩
instance : NatCast (Rnd K fl) := ⟨fun n => ⟨(n : K)⟩⟩
instance : IntCast (Rnd K fl) := ⟨fun n => ⟨(n : K)⟩⟩
@[simp] theorem add_val (a b : Rnd K fl) : (a + b).val = fl (a.val + b.val) := rfl
@[simp] theorem mul_val (a b : Rnd K fl) : (a * b).val = fl (a.val * b.val) := rfl
@[simp] theorem neg_val (a : Rnd K fl) : (-a).val = -a.val := rfl
@[simp] theorem zero_val : (zero : Rnd K fl).val = 0 := by
  show ((0 : Nat) : K) = 0
  simp
end Rnd

section Bound
variable {K : Type} [Field K] [LinearOrder K] [IsStrictOrderedRing K]

/-- the accumulation `acc ← fl(acc + fl(a_i·b_i))` over a list of indices against the exact sum -/
theorem fold_round (fl : K → K) (u : K) (hu : 0 ≤ u) (hfl : ∀ t, |fl t - t| ≤ u * |t|) (a b : Nat → K)
    (l : List Nat) :
    |l.foldl (fun acc i => fl (acc + fl (a i * b i))) 0 - l.foldl (fun acc i => acc + a i * b i) 0|
        ≤ ((1 + u) ^ (l.length + 1) - 1) * l.foldl (fun acc i => acc + |a i * b i|) 0 ∧
    |l.foldl (fun acc i => acc + a i * b i) 0| ≤ l.foldl (fun acc i => acc + |a i * b i|) 0 := by
  induction l using List.reverseRecOn with
  | nil => simp
  | append_singleton l i ih =>
    obtain ⟨ihE, ihS⟩ := ih
    simp only [List.foldl_append, List.foldl_cons, List.foldl_nil, List.length_append, List.length_singleton]
    set R := l.foldl (fun acc i => fl (acc + fl (a i * b i))) 0
    set S := l.foldl (fun acc i => acc + a i * b i) 0
    set T := l.foldl (fun acc i => acc + |a i * b i|) 0
    set p := a i * b i
    set n := l.length
    have hT : 0 ≤ T := le_trans (abs_nonneg _) ihS
    have hp := hfl p
    have hs := hfl (R + fl p)
    have hc1 : (1 : K) ≤ 1 + u := by linarith
    have hpow1 : (1 : K) ≤ (1 + u) ^ (n + 1) := one_le_pow₀ hc1
    have hcn : 0 ≤ (1 + u) ^ (n + 1) - 1 := by linarith
    -- |fl p| ≤ (1+u)|p|, |R| ≤ T + E
    have hflp : |fl p| ≤ (1 + u) * |p| := by
      have : |fl p| ≤ |fl p - p| + |p| := by
        have := abs_add_le (fl p - p) p; simpa using this
      linarith
    have hR : |R| ≤ T + ((1 + u) ^ (n + 1) - 1) * T := by
      have : |R| ≤ |R - S| + |S| := by
        have := abs_add_le (R - S) S; simpa using this
      linarith
    have hsum : |R + fl p| ≤ T + ((1 + u) ^ (n + 1) - 1) * T + (1 + u) * |p| :=
      le_trans (abs_add_le _ _) (by linarith)
    constructor
    · have e : fl (R + fl p) - (S + p) = (fl (R + fl p) - (R + fl p)) + (R - S) + (fl p - p) := by ring
      rw [e]
      have h3 := abs_add_three (fl (R + fl p) - (R + fl p)) (R - S) (fl p - p)
      have hstep : |fl (R + fl p) - (R + fl p)| ≤ u * (T + ((1 + u) ^ (n + 1) - 1) * T + (1 + u) * |p|) :=
        le_trans hs (mul_le_mul_of_nonneg_left hsum hu)
      have hpow2 : (1 + u) ^ (n + 1 + 1) = (1 + u) ^ (n + 1) * (1 + u) := pow_succ _ _
      have hpn : 0 ≤ |p| := abs_nonneg p
      have key : u * (T + ((1 + u) ^ (n + 1) - 1) * T + (1 + u) * |p|) + ((1 + u) ^ (n + 1) - 1) * T + u * |p|
          ≤ ((1 + u) ^ (n + 1 + 1) - 1) * (T + |p|) := by
        rw [hpow2]
        have h4 : (2 * u + u * u) * |p| ≤ ((1 + u) ^ (n + 1) * (1 + u) - 1) * |p| := by
          apply mul_le_mul_of_nonneg_right _ hpn
          have : (1 + u) * (1 + u) ≤ (1 + u) ^ (n + 1) * (1 + u) :=
            mul_le_mul_of_nonneg_right (by
              calc (1 + u) = (1 + u) ^ 1 := (pow_one _).symm
                _ ≤ (1 + u) ^ (n + 1) := pow_le_pow_right₀ hc1 (by omega)) (by linarith)
          nlinarith
        nlinarith
      linarith
    · exact le_trans (abs_add_le _ _) (by linarith)

end Bound
section Row
variable {K : Type} [Field K] {fl : K → K}

theorem access_val (N : Nat) (f : Nat → K) (p : Int) :
    (access N (fun i => (⟨f i⟩ : Rnd K fl)) p).val = access N f p := by
  unfold access
  by_cases h : 0 ≤ p ∧ p < (N : Int)
  · simp only [h, and_self, if_true]
  · simp only [h, if_false, Rnd.zero_val, zero_eq]

theorem getD_val (cs : List K) (i : Nat) :
    ((cs.map (fun c => (⟨c⟩ : Rnd K fl))).getD i zero).val = cs.getD i 0 := by
  simp only [List.getD_eq_getElem?_getD, List.getElem?_map]
  cases cs[i]? <;> simp

theorem foldl_val (l : List Nat) (g : Nat → Rnd K fl) (acc : Rnd K fl) :
    (l.foldl (fun acc i => acc + g i) acc).val = l.foldl (fun acc i => fl (acc + (g i).val)) acc.val := by
  induction l generalizing acc with
  | nil => rfl
  | cons i l ih => simp only [List.foldl_cons]; rw [ih]; rfl

end Row

section RowBound
variable {K : Type} [Field K] [LinearOrder K] [IsStrictOrderedRing K]

/-- `Σ_ci |c·f|` over the taps of one sample of `waveletRow` -/
def rowAbs (cs : List K) (N : Nat) (f : Nat → K) (x : Nat) : K :=
  let n := cs.length
  if x < N / 2 then
    (List.range n).foldl (fun acc ci => acc + |cs.getD (n - ci - 1) 0 * access N f ((2 * x + ci : Nat) : Int)|) 0
  else if x < 2 * (N / 2) then
    (List.range n).foldl (fun acc ci =>
      acc + |(if ci % 2 = 0 then -(cs.getD ci 0) else cs.getD ci 0) * access N f ((2 * (x - N / 2) + ci : Nat) : Int)|) 0
  else 0

/-- one sample of the analysis kernel in rounded arithmetic against the exact one -/
theorem waveletRow_round (fl : K → K) (u : K) (hu : 0 ≤ u) (hfl : ∀ t, |fl t - t| ≤ u * |t|) (cs : List K)
    (N : Nat) (f : Nat → K) (x : Nat) :
    |(waveletRow (cs.map (fun c => (⟨c⟩ : Rnd K fl))) N (fun i => (⟨f i⟩ : Rnd K fl)) x).val - waveletRow cs N f x|
      ≤ ((1 + u) ^ (cs.length + 1) - 1) * rowAbs cs N f x := by
  unfold waveletRow rowAbs
  simp only [List.length_map]
  by_cases h1 : x < N / 2
  · simp only [h1, if_true]
    rw [foldl_val]
    simp only [Rnd.mul_val, getD_val, access_val, Rnd.zero_val, zero_eq]
    have := (fold_round fl u hu hfl (fun ci => cs.getD (cs.length - ci - 1) 0)
      (fun ci => access N f ((2 * x + ci : Nat) : Int)) (List.range cs.length)).1
    simpa using this
  · by_cases h2 : x < 2 * (N / 2)
    · simp only [h1, h2, if_true, if_false]
      rw [foldl_val]
      have hv : ∀ ci : Nat, ((if ci % 2 = 0 then -((cs.map (fun c => (⟨c⟩ : Rnd K fl))).getD ci zero)
          else (cs.map (fun c => (⟨c⟩ : Rnd K fl))).getD ci zero)).val
          = if ci % 2 = 0 then -(cs.getD ci 0) else cs.getD ci 0 := by
        intro ci
        by_cases hc : ci % 2 = 0
        · simp only [hc, if_true, Rnd.neg_val, getD_val]
        · simp only [hc, if_false, getD_val]
      simp only [Rnd.mul_val, hv, access_val, Rnd.zero_val, zero_eq]
      have := (fold_round fl u hu hfl (fun ci => if ci % 2 = 0 then -(cs.getD ci 0) else cs.getD ci 0)
        (fun ci => access N f ((2 * (x - N / 2) + ci : Nat) : Int)) (List.range cs.length)).1
      simpa using this
    · simp only [h1, h2, if_false, Rnd.zero_val, zero_eq]
      simp

end RowBound
end Mahotas.C17
