/-
C17, round 4 — the row kernels evaluated in *rounded* arithmetic.

`RV K fl` wraps an ordered field `K`; every `+ − × ÷` of the polymorphic row kernels `waveletRow` / `iwaveletRow`
(the very definitions the driver runs at `Float`) is followed by the rounding function `fl`. Under the standard model of
floating-point arithmetic, `|fl x − x| ≤ u·|x|`, the loops' own order of operations gives

* analysis:  `|w̃ f [k] − w f [k]| ≤ ((1+u)^(2n) − 1)·C·M`,
* synthesis: `|ĩw g [x] − iw g [x]| ≤ ((1+u)^(2n+2) − 1)·C·G`,
* round trip (`x ≥ n−2`): `|ĩw (w̃ f)[x] − f[x]| ≤ (errConst cs + C²·((1+u)^(4n+2) − 1))·M`,

`n` the number of coefficients, `C = Σ|c_k|`, `M = max|f|`, `G = max|g|`.
-/
import Mahotas.Proofs.C17General
import Mathlib.Tactic.Linarith
import Mathlib.Tactic.Ring
import Mathlib.Tactic.Positivity
import Mathlib.Algebra.Order.Field.Basic

set_option linter.unusedSectionVars false

namespace Mahotas.C17.RT
open Mahotas Mahotas.C17

/-- a value of `K` computed in rounded arithmetic -/
structure RV (K : Type) (fl : K → K) where
  v : K

section
variable {K : Type} [Field K] [LinearOrder K] [IsStrictOrderedRing K] {fl : K → K}

instance : Add (RV K fl) := ⟨fun a b => ⟨fl (a.v + b.v)⟩⟩
instance : Sub (RV K fl) := ⟨fun a b => ⟨fl (a.v - b.v)⟩⟩
instance : Mul (RV K fl) := ⟨fun a b => ⟨fl (a.v * b.v)⟩⟩
instance : Div (RV K fl) := ⟨fun a b => ⟨fl (a.v / b.v)⟩⟩
/-- negation, and the conversion of the literals `0`, `2` and of inputs, are exact -/
instance : Neg (RV K fl) := ⟨fun a => ⟨-a.v⟩⟩
instance : NatCast (RV K fl) := ⟨fun n => ⟨(n : K)⟩⟩
instance : IntCast (RV K fl) := ⟨fun n => ⟨(n : K)⟩⟩

/-- an exactly representable value -/
def ex (x : K) : RV K fl := ⟨x⟩

theorem zero_eq : (zero : RV K fl) = ex 0 := by
  show (⟨((0 : Nat) : K)⟩ : RV K fl) = ⟨0⟩
  rw [Nat.cast_zero]

theorem two_eq : (two : RV K fl) = ex 2 := by
  show (⟨((2 : Nat) : K)⟩ : RV K fl) = ⟨2⟩
  norm_num

theorem zeroK : (zero : K) = 0 := by
  show ((0 : Nat) : K) = 0
  exact Nat.cast_zero

theorem getD_ex (cs : List K) (i : Nat) : (cs.map (ex (fl := fl))).getD i zero = ex (cs.getD i 0) := by
  rw [zero_eq]
  simp only [List.getD_eq_getElem?_getD, List.getElem?_map]
  cases cs[i]? <;> rfl

theorem access_ex (N : Nat) (f : Nat → K) (p : Int) :
    access N (fun q => ex (fl := fl) (f q)) p = ex (access N f p) := by
  unfold access
  split
  · rfl
  · rw [zero_eq, zeroK]

/-- `(1+u)^(2k) − 1`: the relative error of `k` multiply–add steps -/
def gam (u : K) (k : Nat) : K := (1 + u) ^ (2 * k) - 1

theorem gam_nonneg {u : K} (hu : 0 ≤ u) (k : Nat) : 0 ≤ gam u k := by
  unfold gam
  have : (1 : K) ≤ (1 + u) ^ (2 * k) := one_le_pow₀ (by linarith)
  linarith

theorem gam_mono {u : K} (hu : 0 ≤ u) {j k : Nat} (h : j ≤ k) : gam u j ≤ gam u k := by
  unfold gam
  have : (1 + u) ^ (2 * j) ≤ (1 + u) ^ (2 * k) := pow_le_pow_right₀ (by linarith) (by omega)
  linarith

theorem gam_succ (u : K) (k : Nat) : (1 + u) ^ 2 * (gam u k + 1) - 1 = gam u (k + 1) := by
  unfold gam
  rw [show 2 * (k + 1) = 2 + 2 * k by ring, pow_add]
  ring

/-- one step `acc += c·d` in rounded arithmetic -/
theorem rstep {u : K} (hu : 0 ≤ u) (hfl : ∀ x, |fl x - x| ≤ u * |x|) (acc S A t g : K) (hg : 0 ≤ g) (hA : 0 ≤ A)
    (hS : |S| ≤ A) (h : |acc - S| ≤ g * A) :
    |fl (acc + fl t) - (S + t)| ≤ ((1 + u) ^ 2 * (g + 1) - 1) * (A + |t|) := by
  have h1 := hfl t
  have h2 := hfl (acc + fl t)
  have ht := abs_nonneg t
  have hs : |acc + fl t| ≤ g * A + A + |t| + u * |t| := by
    have e : acc + fl t = (acc - S) + S + t + (fl t - t) := by ring
    rw [e]
    calc |(acc - S) + S + t + (fl t - t)|
        ≤ |(acc - S) + S + t| + |fl t - t| := abs_add_le _ _
      _ ≤ |(acc - S) + S| + |t| + |fl t - t| := by gcongr; exact abs_add_le _ _
      _ ≤ |acc - S| + |S| + |t| + |fl t - t| := by gcongr; exact abs_add_le _ _
      _ ≤ g * A + A + |t| + u * |t| := by linarith
  have e : fl (acc + fl t) - (S + t) = (fl (acc + fl t) - (acc + fl t)) + (acc - S) + (fl t - t) := by ring
  rw [e]
  have h3 : |(fl (acc + fl t) - (acc + fl t)) + (acc - S) + (fl t - t)|
      ≤ u * (g * A + A + |t| + u * |t|) + g * A + u * |t| := by
    calc |(fl (acc + fl t) - (acc + fl t)) + (acc - S) + (fl t - t)|
        ≤ |(fl (acc + fl t) - (acc + fl t)) + (acc - S)| + |fl t - t| := abs_add_le _ _
      _ ≤ |fl (acc + fl t) - (acc + fl t)| + |acc - S| + |fl t - t| := by gcongr; exact abs_add_le _ _
      _ ≤ u * |acc + fl t| + g * A + u * |t| := by linarith
      _ ≤ u * (g * A + A + |t| + u * |t|) + g * A + u * |t| := by
          have := mul_le_mul_of_nonneg_left hs hu
          linarith
  have hpos : 0 ≤ A * (u + u ^ 2 + u * g + u ^ 2 * g) + |t| * (g + 2 * u * g + u ^ 2 * g) := by positivity
  have heq : ((1 + u) ^ 2 * (g + 1) - 1) * (A + |t|) - (u * (g * A + A + |t| + u * |t|) + g * A + u * |t|)
      = A * (u + u ^ 2 + u * g + u ^ 2 * g) + |t| * (g + 2 * u * g + u ^ 2 * g) := by ring
  linarith

/-- the accumulation loop `acc += a_i·b_i` (`i` through a list) in rounded arithmetic against the exact sum -/
theorem rfold_err {ι : Type} {u : K} (hu : 0 ≤ u) (hfl : ∀ x, |fl x - x| ≤ u * |x|) (a b : ι → K) :
    ∀ (l : List ι) (acc : RV K fl) (S A : K) (k : Nat), 0 ≤ A → |S| ≤ A → |acc.v - S| ≤ gam u k * A →
      |(l.foldl (fun acc i => acc + ex (a i) * ex (b i)) acc).v - (S + (l.map fun i => a i * b i).sum)|
        ≤ gam u (k + l.length) * (A + (l.map fun i => |a i * b i|).sum)
  | [], acc, S, A, k, _, _, h => by simpa using h
  | i :: l, acc, S, A, k, hA, hS, h => by
    simp only [List.foldl_cons, List.map_cons, List.sum_cons, List.length_cons]
    have hstep : |(acc + ex (a i) * ex (b i)).v - (S + a i * b i)| ≤ gam u (k + 1) * (A + |a i * b i|) := by
      show |fl (acc.v + fl (a i * b i)) - (S + a i * b i)| ≤ _
      rw [← gam_succ]
      exact rstep hu hfl acc.v S A (a i * b i) (gam u k) (gam_nonneg hu k) hA hS h
    have hA' : 0 ≤ A + |a i * b i| := by positivity
    have hS' : |S + a i * b i| ≤ A + |a i * b i| := le_trans (abs_add_le _ _) (by linarith)
    have := rfold_err hu hfl a b l (acc + ex (a i) * ex (b i)) (S + a i * b i) (A + |a i * b i|) (k + 1) hA' hS' hstep
    rw [show k + (l.length + 1) = k + 1 + l.length by ring, ← add_assoc, ← add_assoc]
    exact this

/-- from zero -/
theorem rfold_err0 {ι : Type} {u : K} (hu : 0 ≤ u) (hfl : ∀ x, |fl x - x| ≤ u * |x|) (a b : ι → K) (l : List ι) :
    |(l.foldl (fun acc i => acc + ex (a i) * ex (b i)) (ex 0 : RV K fl)).v - (l.map fun i => a i * b i).sum|
      ≤ gam u l.length * (l.map fun i => |a i * b i|).sum := by
  have := rfold_err hu hfl a b l (ex 0) 0 0 0 le_rfl (by simp) (by simp [ex])
  simpa using this

theorem sum_abs_mul_le {ι : Type} (l : List ι) (a b : ι → K) (M : K) (hb : ∀ j, |b j| ≤ M) :
    (l.map fun j => |a j * b j|).sum ≤ (l.map fun j => |a j|).sum * M := by
  induction l with
  | nil => simp
  | cons j l ih =>
    simp only [List.map_cons, List.sum_cons]
    have : |a j * b j| ≤ |a j| * M := by
      rw [abs_mul]; exact mul_le_mul_of_nonneg_left (hb j) (abs_nonneg _)
    nlinarith

/-- `C = Σ_k |c_k|` -/
def absSum (cs : List K) : K := ((List.range cs.length).map fun k => |cs.getD k 0|).sum

theorem absSum_nonneg (cs : List K) : 0 ≤ absSum cs := by
  unfold absSum
  apply List.sum_nonneg
  intro v hv
  simp only [List.mem_map] at hv
  obtain ⟨j, _, rfl⟩ := hv
  exact abs_nonneg _

theorem absSum_reflect (cs : List K) :
    ((List.range cs.length).map fun k => |cs.getD (cs.length - k - 1) 0|).sum = absSum cs := by
  unfold absSum
  rw [listsum_range, listsum_range]
  have := Finset.sum_range_reflect (fun k => |cs.getD k 0|) cs.length
  rw [← this]
  apply Finset.sum_congr rfl
  intro k _
  rw [Nat.sub_right_comm]

theorem abs_access_le (N : Nat) (f : Nat → K) (M : K) (hM : 0 ≤ M) (hf : ∀ p, p < N → |f p| ≤ M) (p : Int) :
    |access N f p| ≤ M := by
  unfold access
  split
  · rename_i h
    apply hf
    omega
  · rw [zeroK, abs_zero]; exact hM

theorem neg_ex (c : K) : -(ex c : RV K fl) = ex (-c) := rfl

theorem ite_neg_ex (p : Prop) [Decidable p] (c : K) :
    (if p then -(ex c : RV K fl) else ex c) = ex (if p then -c else c) := by
  split <;> rfl

theorem ite_ex_neg (p : Prop) [Decidable p] (c : K) :
    (if p then (ex c : RV K fl) else -(ex c)) = ex (if p then c else -c) := by
  split <;> rfl

theorem abs_ite_neg (p : Prop) [Decidable p] (c : K) : |if p then -c else c| = |c| := by
  split
  · exact abs_neg c
  · rfl

theorem abs_ite_neg' (p : Prop) [Decidable p] (c : K) : |if p then c else -c| = |c| := by
  split
  · rfl
  · exact abs_neg c

/-- **analysis in rounded arithmetic**: every output sample of `wavelet<T>` computed with rounding after every operation
    lies within `((1+u)^(2n) − 1)·C·M` of the exact sample -/
theorem wavelet_round {u : K} (hu : 0 ≤ u) (hfl : ∀ x, |fl x - x| ≤ u * |x|) (cs : List K) (N : Nat) (f : Nat → K)
    (M : K) (hM : 0 ≤ M) (hf : ∀ p, p < N → |f p| ≤ M) (k : Nat) :
    |(waveletRow (cs.map (ex (fl := fl))) N (fun q => ex (f q)) k).v - waveletRow cs N f k|
      ≤ gam u cs.length * (absSum cs * M) := by
  have hC := absSum_nonneg cs
  have hg := gam_nonneg hu cs.length
  unfold waveletRow
  simp only [List.length_map]
  split
  · -- low-pass half
    have e1 : (fun (acc : RV K fl) ci => acc + (cs.map ex).getD (cs.length - ci - 1) zero *
          access N (fun q => ex (f q)) ((2 * k + ci : Nat) : Int)) =
        fun acc ci => acc + ex (cs.getD (cs.length - ci - 1) 0) * ex (access N f ((2 * k + ci : Nat) : Int)) := by
      funext acc ci
      rw [getD_ex, access_ex]
    rw [e1, zero_eq, foldl_add_eq, zeroK, zero_add]
    refine le_trans (rfold_err0 hu hfl _ _ _) ?_
    rw [List.length_range]
    apply mul_le_mul_of_nonneg_left _ hg
    refine le_trans (sum_abs_mul_le _ _ _ M (fun ci => abs_access_le N f M hM hf _)) ?_
    rw [absSum_reflect]
  · split
    · -- high-pass half
      have e1 : (fun (acc : RV K fl) ci => acc +
            (if ci % 2 = 0 then -((cs.map ex).getD ci zero) else (cs.map ex).getD ci zero) *
            access N (fun q => ex (f q)) ((2 * (k - N / 2) + ci : Nat) : Int)) =
          fun acc ci => acc + ex (if ci % 2 = 0 then -(cs.getD ci 0) else cs.getD ci 0) *
            ex (access N f ((2 * (k - N / 2) + ci : Nat) : Int)) := by
        funext acc ci
        rw [getD_ex, access_ex, ite_neg_ex]
      rw [e1, zero_eq, foldl_add_eq, zeroK, zero_add]
      refine le_trans (rfold_err0 hu hfl _ _ _) ?_
      rw [List.length_range]
      apply mul_le_mul_of_nonneg_left _ hg
      refine le_trans (sum_abs_mul_le _ _ _ M (fun ci => abs_access_le N f M hM hf _)) ?_
      simp only [abs_ite_neg]
      exact le_rfl
    · rw [zero_eq, zeroK]
      simp only [ex, sub_zero, abs_zero]
      positivity

/-- the last two operations of `iwavelet<T>`: `(l + h) / 2` -/
theorem rfinal {u : K} (hu : 0 ≤ u) (hfl : ∀ x, |fl x - x| ≤ u * |x|) (lt ht L H B g : K) (hg : 0 ≤ g) (hB : 0 ≤ B)
    (hl : |lt - L| ≤ g * B) (hh : |ht - H| ≤ g * B) (hL : |L| ≤ B) (hH : |H| ≤ B) :
    |fl (fl (lt + ht) / 2) - (L + H) / 2| ≤ ((1 + u) ^ 2 * (g + 1) - 1) * B := by
  have h1 := hfl (lt + ht)
  have h2 := hfl (fl (lt + ht) / 2)
  have hd : |lt + ht - (L + H)| ≤ 2 * (g * B) := by
    have e : lt + ht - (L + H) = (lt - L) + (ht - H) := by ring
    rw [e]; exact le_trans (abs_add_le _ _) (by linarith)
  have hs : |lt + ht| ≤ 2 * (g * B) + 2 * B := by
    have e : lt + ht = (lt + ht - (L + H)) + (L + H) := by ring
    rw [e]
    calc |(lt + ht - (L + H)) + (L + H)| ≤ |lt + ht - (L + H)| + |L + H| := abs_add_le _ _
      _ ≤ 2 * (g * B) + (|L| + |H|) := by gcongr; exact abs_add_le _ _
      _ ≤ 2 * (g * B) + 2 * B := by linarith
  have hfs : |fl (lt + ht)| ≤ (1 + u) * (2 * (g * B) + 2 * B) := by
    have e : fl (lt + ht) = (fl (lt + ht) - (lt + ht)) + (lt + ht) := by ring
    rw [e]
    calc |(fl (lt + ht) - (lt + ht)) + (lt + ht)| ≤ |fl (lt + ht) - (lt + ht)| + |lt + ht| := abs_add_le _ _
      _ ≤ u * |lt + ht| + |lt + ht| := by linarith
      _ = (1 + u) * |lt + ht| := by ring
      _ ≤ (1 + u) * (2 * (g * B) + 2 * B) := mul_le_mul_of_nonneg_left hs (by linarith)
  have hq : |fl (lt + ht) / 2| ≤ (1 + u) * (g * B + B) := by
    rw [abs_div, abs_two]
    rw [div_le_iff₀ (by norm_num)]
    linarith
  have e : fl (fl (lt + ht) / 2) - (L + H) / 2 =
      (fl (fl (lt + ht) / 2) - fl (lt + ht) / 2) + (fl (lt + ht) - (lt + ht)) / 2 + (lt + ht - (L + H)) / 2 := by ring
  rw [e]
  have ha : |(fl (lt + ht) - (lt + ht)) / 2| ≤ u * (g * B + B) := by
    rw [abs_div, abs_two, div_le_iff₀ (by norm_num)]
    have := mul_le_mul_of_nonneg_left hs hu
    linarith
  have hb : |(lt + ht - (L + H)) / 2| ≤ g * B := by
    rw [abs_div, abs_two, div_le_iff₀ (by norm_num)]
    linarith
  have hc : |fl (fl (lt + ht) / 2) - fl (lt + ht) / 2| ≤ u * ((1 + u) * (g * B + B)) :=
    le_trans h2 (mul_le_mul_of_nonneg_left hq hu)
  calc |(fl (fl (lt + ht) / 2) - fl (lt + ht) / 2) + (fl (lt + ht) - (lt + ht)) / 2 + (lt + ht - (L + H)) / 2|
      ≤ |(fl (fl (lt + ht) / 2) - fl (lt + ht) / 2) + (fl (lt + ht) - (lt + ht)) / 2| + |(lt + ht - (L + H)) / 2| :=
        abs_add_le _ _
    _ ≤ |fl (fl (lt + ht) / 2) - fl (lt + ht) / 2| + |(fl (lt + ht) - (lt + ht)) / 2| + |(lt + ht - (L + H)) / 2| := by
        gcongr; exact abs_add_le _ _
    _ ≤ u * ((1 + u) * (g * B + B)) + u * (g * B + B) + g * B := by linarith
    _ = ((1 + u) ^ 2 * (g + 1) - 1) * B := by ring

theorem sum_filter_le (p : Nat → Bool) (F : Nat → K) (hF : ∀ i, 0 ≤ F i) (n : Nat) :
    (((List.range n).filter p).map F).sum ≤ ((List.range n).map F).sum := by
  apply List.Sublist.sum_le_sum (List.Sublist.map F List.filter_sublist)
  intro a ha
  simp only [List.mem_map] at ha
  obtain ⟨i, _, rfl⟩ := ha
  exact hF i

/-- exact synthesis is bounded: `|iw g [x]| ≤ C·G` -/
theorem abs_iwaveletRow_le (cs : List K) (N : Nat) (g : Nat → K) (G : K) (hG : 0 ≤ G) (hg : ∀ p, p < N → |g p| ≤ G) (x : Nat) :
    |iwaveletRow cs N g x| ≤ absSum cs * G := by
  unfold iwaveletRow
  simp only
  rw [foldl_add_eq, foldl_add_eq, two]
  simp only [zeroK, zero_add, Nat.cast_ofNat]
  rw [abs_div, abs_two, div_le_iff₀ (by norm_num)]
  refine le_trans (abs_add_le _ _) ?_
  have hl := abs_listsum_le ((List.range cs.length).filter fun ci => decide ((((x + ci : Nat) : Int) - (cs.length : Int) + 2) % 2 ≠ 0))
    (fun ci => cs.getD ci 0)
    (fun ci => access (N / 2) g ((((x + ci : Nat) : Int) - (cs.length : Int) + 2).tdiv 2)) G
    (fun ci => abs_access_le _ _ G hG (fun p hp => hg p (by omega)) _)
  have hh := abs_listsum_le ((List.range cs.length).filter fun ci => decide ((((x + ci : Nat) : Int) - (cs.length : Int) + 2) % 2 ≠ 0))
    (fun ci => if ci % 2 = 0 then cs.getD (cs.length - ci - 1) 0 else -(cs.getD (cs.length - ci - 1) 0))
    (fun ci => access (N / 2) (fun k => g (N / 2 + k)) ((((x + ci : Nat) : Int) - (cs.length : Int) + 2).tdiv 2)) G
    (fun ci => abs_access_le _ _ G hG (fun p hp => hg _ (by omega)) _)
  simp only [abs_ite_neg'] at hh
  have s1 := sum_filter_le (fun ci => decide ((((x + ci : Nat) : Int) - (cs.length : Int) + 2) % 2 ≠ 0))
    (fun ci => |cs.getD ci 0|) (fun _ => abs_nonneg _) cs.length
  have s2 := sum_filter_le (fun ci => decide ((((x + ci : Nat) : Int) - (cs.length : Int) + 2) % 2 ≠ 0))
    (fun ci => |cs.getD (cs.length - ci - 1) 0|) (fun _ => abs_nonneg _) cs.length
  rw [absSum_reflect] at s2
  have s1' : _ ≤ absSum cs := s1
  have m1 := mul_le_mul_of_nonneg_right s1' hG
  have m2 := mul_le_mul_of_nonneg_right s2 hG
  linarith

/-- **synthesis in rounded arithmetic**: `|ĩw g [x] − iw g [x]| ≤ ((1+u)^(2n+2) − 1)·C·G` -/
theorem iwavelet_round {u : K} (hu : 0 ≤ u) (hfl : ∀ x, |fl x - x| ≤ u * |x|) (cs : List K) (N : Nat) (g : Nat → K)
    (G : K) (hG : 0 ≤ G) (hg : ∀ p, p < N → |g p| ≤ G) (x : Nat) :
    |(iwaveletRow (cs.map (ex (fl := fl))) N (fun q => ex (g q)) x).v - iwaveletRow cs N g x|
      ≤ gam u (cs.length + 1) * (absSum cs * G) := by
  have hC := absSum_nonneg cs
  have hB : 0 ≤ absSum cs * G := mul_nonneg hC hG
  have hgn := gam_nonneg hu cs.length
  unfold iwaveletRow
  simp only [List.length_map]
  have e1 : (fun (acc : RV K fl) ci => acc + (cs.map ex).getD ci zero *
        access (N / 2) (fun q => ex (g q)) ((((x + ci : Nat) : Int) - (cs.length : Int) + 2).tdiv 2)) =
      fun acc ci => acc + ex (cs.getD ci 0) *
        ex (access (N / 2) g ((((x + ci : Nat) : Int) - (cs.length : Int) + 2).tdiv 2)) := by
    funext acc ci
    rw [getD_ex, access_ex]
  have e2 : (fun (acc : RV K fl) ci => acc +
        (if ci % 2 = 0 then (cs.map ex).getD (cs.length - ci - 1) zero else -((cs.map ex).getD (cs.length - ci - 1) zero)) *
        access (N / 2) (fun k => (fun q => ex (g q)) (N / 2 + k)) ((((x + ci : Nat) : Int) - (cs.length : Int) + 2).tdiv 2)) =
      fun acc ci => acc +
        ex (if ci % 2 = 0 then cs.getD (cs.length - ci - 1) 0 else -(cs.getD (cs.length - ci - 1) 0)) *
        ex (access (N / 2) (fun k => g (N / 2 + k)) ((((x + ci : Nat) : Int) - (cs.length : Int) + 2).tdiv 2)) := by
    funext acc ci
    rw [getD_ex, ite_ex_neg]
    congr 2
    exact access_ex (N / 2) (fun k => g (N / 2 + k)) _
  rw [e1, e2, zero_eq, two_eq, foldl_add_eq, foldl_add_eq, two]
  simp only [zeroK, zero_add, Nat.cast_ofNat]
  -- the two accumulations
  set taps := (List.range cs.length).filter fun ci => decide ((((x + ci : Nat) : Int) - (cs.length : Int) + 2) % 2 ≠ 0)
    with htaps
  have hlen : taps.length ≤ cs.length := by
    rw [htaps]; exact le_trans (List.length_filter_le _ _) (by rw [List.length_range])
  have s1 := sum_filter_le (fun ci => decide ((((x + ci : Nat) : Int) - (cs.length : Int) + 2) % 2 ≠ 0))
    (fun ci => |cs.getD ci 0|) (fun _ => abs_nonneg _) cs.length
  have s2 := sum_filter_le (fun ci => decide ((((x + ci : Nat) : Int) - (cs.length : Int) + 2) % 2 ≠ 0))
    (fun ci => |cs.getD (cs.length - ci - 1) 0|) (fun _ => abs_nonneg _) cs.length
  rw [absSum_reflect] at s2
  have s1' : (taps.map fun ci => |cs.getD ci 0|).sum ≤ absSum cs := s1
  have s2' : (taps.map fun ci => |cs.getD (cs.length - ci - 1) 0|).sum ≤ absSum cs := s2
  -- low branch
  have bl := sum_abs_mul_le taps (fun ci => cs.getD ci 0)
    (fun ci => access (N / 2) g ((((x + ci : Nat) : Int) - (cs.length : Int) + 2).tdiv 2)) G
    (fun ci => abs_access_le _ _ G hG (fun p hp => hg p (by omega)) _)
  have bl' : (taps.map fun ci => |cs.getD ci 0 *
      access (N / 2) g ((((x + ci : Nat) : Int) - (cs.length : Int) + 2).tdiv 2)|).sum ≤ absSum cs * G :=
    le_trans bl (mul_le_mul_of_nonneg_right s1' hG)
  have rl := rfold_err0 (fl := fl) hu hfl (fun ci => cs.getD ci 0)
    (fun ci => access (N / 2) g ((((x + ci : Nat) : Int) - (cs.length : Int) + 2).tdiv 2)) taps
  have rl' := le_trans rl (mul_le_mul (gam_mono hu hlen) bl' (List.sum_nonneg (by
      intro v hv; simp only [List.mem_map] at hv; obtain ⟨j, _, rfl⟩ := hv; exact abs_nonneg _)) hgn)
  have al := abs_listsum_le taps (fun ci => cs.getD ci 0)
    (fun ci => access (N / 2) g ((((x + ci : Nat) : Int) - (cs.length : Int) + 2).tdiv 2)) G
    (fun ci => abs_access_le _ _ G hG (fun p hp => hg p (by omega)) _)
  have al' := le_trans al (mul_le_mul_of_nonneg_right s1' hG)
  -- high branch
  have bh := sum_abs_mul_le taps
    (fun ci => if ci % 2 = 0 then cs.getD (cs.length - ci - 1) 0 else -(cs.getD (cs.length - ci - 1) 0))
    (fun ci => access (N / 2) (fun k => g (N / 2 + k)) ((((x + ci : Nat) : Int) - (cs.length : Int) + 2).tdiv 2)) G
    (fun ci => abs_access_le _ _ G hG (fun p hp => hg _ (by omega)) _)
  simp only [abs_ite_neg'] at bh
  have bh' := le_trans bh (mul_le_mul_of_nonneg_right s2' hG)
  have rh := rfold_err0 (fl := fl) hu hfl
    (fun ci => if ci % 2 = 0 then cs.getD (cs.length - ci - 1) 0 else -(cs.getD (cs.length - ci - 1) 0))
    (fun ci => access (N / 2) (fun k => g (N / 2 + k)) ((((x + ci : Nat) : Int) - (cs.length : Int) + 2).tdiv 2)) taps
  have rh' := le_trans rh (mul_le_mul (gam_mono hu hlen) bh' (List.sum_nonneg (by
      intro v hv; simp only [List.mem_map] at hv; obtain ⟨j, _, rfl⟩ := hv; exact abs_nonneg _)) hgn)
  have ah := abs_listsum_le taps
    (fun ci => if ci % 2 = 0 then cs.getD (cs.length - ci - 1) 0 else -(cs.getD (cs.length - ci - 1) 0))
    (fun ci => access (N / 2) (fun k => g (N / 2 + k)) ((((x + ci : Nat) : Int) - (cs.length : Int) + 2).tdiv 2)) G
    (fun ci => abs_access_le _ _ G hG (fun p hp => hg _ (by omega)) _)
  simp only [abs_ite_neg'] at ah
  have ah' := le_trans ah (mul_le_mul_of_nonneg_right s2' hG)
  rw [← gam_succ]
  exact rfinal hu hfl _ _ _ _ (absSum cs * G) (gam u cs.length) hgn hB rl' rh' al' ah'

/-- exact analysis is bounded: `|w f [k]| ≤ C·M` -/
theorem abs_waveletRow_le (cs : List K) (N : Nat) (f : Nat → K) (M : K) (hM : 0 ≤ M) (hf : ∀ p, p < N → |f p| ≤ M)
    (k : Nat) : |waveletRow cs N f k| ≤ absSum cs * M := by
  have hC := absSum_nonneg cs
  unfold waveletRow
  simp only
  split
  · rw [foldl_add_eq, zeroK, zero_add]
    refine le_trans (abs_listsum_le _ _ _ M (fun ci => abs_access_le N f M hM hf _)) ?_
    rw [absSum_reflect]
  · split
    · rw [foldl_add_eq, zeroK, zero_add]
      refine le_trans (abs_listsum_le _ _ _ M (fun ci => abs_access_le N f M hM hf _)) ?_
      simp only [abs_ite_neg]
      exact le_rfl
    · rw [zeroK, abs_zero]; positivity

theorem gam_compose (u : K) (n : Nat) : gam u (n + 1) * (1 + gam u n) + gam u n = gam u (2 * n + 1) := by
  unfold gam
  rw [show 2 * (2 * n + 1) = 2 * (n + 1) + 2 * n by ring, pow_add]
  ring

/-- **the round trip in rounded arithmetic** (one row): analysis then synthesis, every operation of both loops rounded,
    against the input sample -/
theorem round_trip_round {u : K} (hu : 0 ≤ u) (hfl : ∀ x, |fl x - x| ≤ u * |x|) (cs : List K)
    (heven : cs.length % 2 = 0) (hpos : 2 ≤ cs.length) (N : Nat) (hN : N % 2 = 0) (f : Nat → K) (M : K) (hM : 0 ≤ M)
    (hf : ∀ p, p < N → |f p| ≤ M) (x : Nat) (hx : cs.length ≤ x + 2) (hxN : x < N) :
    |(iwaveletRow (cs.map (ex (fl := fl))) N
        (waveletRow (cs.map (ex (fl := fl))) N (fun q => ex (f q))) x).v - f x|
      ≤ (errConst cs + absSum cs ^ 2 * gam u (2 * cs.length + 1)) * M := by
  have hC := absSum_nonneg cs
  have hgn := gam_nonneg hu cs.length
  have hgn1 := gam_nonneg hu (cs.length + 1)
  -- the rounded analysis values, as elements of `K`
  set wt : Nat → K := fun k => (waveletRow (cs.map (ex (fl := fl))) N (fun q => ex (f q)) k).v with hwt
  have hw : (waveletRow (cs.map (ex (fl := fl))) N (fun q => ex (f q))) = fun q => ex (wt q) := by
    funext q; rfl
  rw [hw]
  have hd : ∀ k, |wt k - waveletRow cs N f k| ≤ gam u cs.length * (absSum cs * M) :=
    fun k => wavelet_round hu hfl cs N f M hM hf k
  have hwb : ∀ k, |waveletRow cs N f k| ≤ absSum cs * M := fun k => abs_waveletRow_le cs N f M hM hf k
  have hG : ∀ k, |wt k| ≤ (1 + gam u cs.length) * (absSum cs * M) := by
    intro k
    have e : wt k = (wt k - waveletRow cs N f k) + waveletRow cs N f k := by ring
    rw [e]
    refine le_trans (abs_add_le _ _) ?_
    have := hd k; have := hwb k
    linarith
  have hGpos : 0 ≤ (1 + gam u cs.length) * (absSum cs * M) := by positivity
  have hA := iwavelet_round hu hfl cs N wt _ hGpos (fun p _ => hG p) x
  -- exact synthesis of the perturbation
  have hlin : iwaveletRow cs N wt x - iwaveletRow cs N (waveletRow cs N f) x =
      iwaveletRow cs N (fun k => wt k - waveletRow cs N f k) x := by
    have := iwaveletRow_linear cs N 1 (-1) wt (waveletRow cs N f) x
    have e : (fun i => 1 * wt i + -1 * waveletRow cs N f i) = fun k => wt k - waveletRow cs N f k := by
      funext i; ring
    rw [e] at this
    rw [this]; ring
  have hB : |iwaveletRow cs N wt x - iwaveletRow cs N (waveletRow cs N f) x|
      ≤ absSum cs * (gam u cs.length * (absSum cs * M)) := by
    rw [hlin]
    exact abs_iwaveletRow_le cs N _ _ (by positivity) (fun p _ => hd p) x
  have hid := rowIdentity_general (two_ne_zero) cs heven hpos N hN f x hx hxN
  have hCc : |iwaveletRow cs N (waveletRow cs N f) x - f x| ≤ errConst cs * M := by
    rw [hid, add_sub_cancel_left]
    exact abs_errRow_le cs N f M hM hf x
  have e : (iwaveletRow (cs.map (ex (fl := fl))) N (fun q => ex (wt q)) x).v - f x =
      ((iwaveletRow (cs.map (ex (fl := fl))) N (fun q => ex (wt q)) x).v - iwaveletRow cs N wt x) +
      (iwaveletRow cs N wt x - iwaveletRow cs N (waveletRow cs N f) x) +
      (iwaveletRow cs N (waveletRow cs N f) x - f x) := by ring
  rw [e]
  have h3 := abs_add_three
    ((iwaveletRow (cs.map (ex (fl := fl))) N (fun q => ex (wt q)) x).v - iwaveletRow cs N wt x)
    (iwaveletRow cs N wt x - iwaveletRow cs N (waveletRow cs N f) x)
    (iwaveletRow cs N (waveletRow cs N f) x - f x)
  refine le_trans h3 ?_
  have hfin : gam u (cs.length + 1) * (absSum cs * ((1 + gam u cs.length) * (absSum cs * M))) +
      absSum cs * (gam u cs.length * (absSum cs * M)) + errConst cs * M =
      (errConst cs + absSum cs ^ 2 * gam u (2 * cs.length + 1)) * M := by
    rw [← gam_compose]; ring
  linarith

/-! ### composing passes -/

/-- an analysis pass applied to an already perturbed row -/
theorem pass_analysis {u : K} (hu : 0 ≤ u) (hfl : ∀ x, |fl x - x| ≤ u * |x|) (cs : List K) (N : Nat)
    (gt g : Nat → K) (B rho : K) (hB : 0 ≤ B) (hrho : 1 ≤ rho)
    (hd : ∀ p, p < N → |gt p - g p| ≤ (rho - 1) * B) (hg : ∀ p, p < N → |g p| ≤ B) (k : Nat) :
    |(waveletRow (cs.map (ex (fl := fl))) N (fun q => ex (gt q)) k).v - waveletRow cs N g k|
        ≤ ((1 + gam u cs.length) * rho - 1) * (absSum cs * B) ∧
      |waveletRow cs N g k| ≤ absSum cs * B := by
  have hC := absSum_nonneg cs
  have hgn := gam_nonneg hu cs.length
  have hgt : ∀ p, p < N → |gt p| ≤ rho * B := by
    intro p hp
    have e : gt p = (gt p - g p) + g p := by ring
    rw [e]
    refine le_trans (abs_add_le _ _) ?_
    have := hd p hp; have := hg p hp
    linarith
  have h1 := wavelet_round hu hfl cs N gt (rho * B) (by positivity) hgt k
  have hlin : waveletRow cs N gt k - waveletRow cs N g k = waveletRow cs N (fun i => gt i - g i) k := by
    have := waveletRow_linear cs N 1 (-1) gt g k
    have e : (fun i => 1 * gt i + -1 * g i) = fun i => gt i - g i := by funext i; ring
    rw [e] at this
    rw [this]; ring
  have h2 : |waveletRow cs N gt k - waveletRow cs N g k| ≤ absSum cs * ((rho - 1) * B) := by
    rw [hlin]
    exact abs_waveletRow_le cs N _ _ (by nlinarith) hd k
  refine ⟨?_, abs_waveletRow_le cs N g B hB hg k⟩
  have e : (waveletRow (cs.map (ex (fl := fl))) N (fun q => ex (gt q)) k).v - waveletRow cs N g k =
      ((waveletRow (cs.map (ex (fl := fl))) N (fun q => ex (gt q)) k).v - waveletRow cs N gt k) +
      (waveletRow cs N gt k - waveletRow cs N g k) := by ring
  rw [e]
  refine le_trans (abs_add_le _ _) ?_
  have : gam u cs.length * (absSum cs * (rho * B)) + absSum cs * ((rho - 1) * B) =
      ((1 + gam u cs.length) * rho - 1) * (absSum cs * B) := by ring
  linarith

/-- a synthesis pass applied to an already perturbed row -/
theorem pass_synthesis {u : K} (hu : 0 ≤ u) (hfl : ∀ x, |fl x - x| ≤ u * |x|) (cs : List K) (N : Nat)
    (gt g : Nat → K) (B rho : K) (hB : 0 ≤ B) (hrho : 1 ≤ rho)
    (hd : ∀ p, p < N → |gt p - g p| ≤ (rho - 1) * B) (hg : ∀ p, p < N → |g p| ≤ B) (x : Nat) :
    |(iwaveletRow (cs.map (ex (fl := fl))) N (fun q => ex (gt q)) x).v - iwaveletRow cs N g x|
        ≤ ((1 + gam u (cs.length + 1)) * rho - 1) * (absSum cs * B) ∧
      |iwaveletRow cs N g x| ≤ absSum cs * B := by
  have hC := absSum_nonneg cs
  have hgn := gam_nonneg hu (cs.length + 1)
  have hgt : ∀ p, p < N → |gt p| ≤ rho * B := by
    intro p hp
    have e : gt p = (gt p - g p) + g p := by ring
    rw [e]
    refine le_trans (abs_add_le _ _) ?_
    have := hd p hp; have := hg p hp
    linarith
  have h1 := iwavelet_round hu hfl cs N gt (rho * B) (by positivity) hgt x
  have hlin : iwaveletRow cs N gt x - iwaveletRow cs N g x = iwaveletRow cs N (fun i => gt i - g i) x := by
    have := iwaveletRow_linear cs N 1 (-1) gt g x
    have e : (fun i => 1 * gt i + -1 * g i) = fun i => gt i - g i := by funext i; ring
    rw [e] at this
    rw [this]; ring
  have h2 : |iwaveletRow cs N gt x - iwaveletRow cs N g x| ≤ absSum cs * ((rho - 1) * B) := by
    rw [hlin]
    exact abs_iwaveletRow_le cs N _ _ (by nlinarith) hd x
  refine ⟨?_, abs_iwaveletRow_le cs N g B hB hg x⟩
  have e : (iwaveletRow (cs.map (ex (fl := fl))) N (fun q => ex (gt q)) x).v - iwaveletRow cs N g x =
      ((iwaveletRow (cs.map (ex (fl := fl))) N (fun q => ex (gt q)) x).v - iwaveletRow cs N gt x) +
      (iwaveletRow cs N gt x - iwaveletRow cs N g x) := by ring
  rw [e]
  refine le_trans (abs_add_le _ _) ?_
  have : gam u (cs.length + 1) * (absSum cs * (rho * B)) + absSum cs * ((rho - 1) * B) =
      ((1 + gam u (cs.length + 1)) * rho - 1) * (absSum cs * B) := by ring
  linarith

theorem gam_four (u : K) (n : Nat) :
    (1 + gam u (n + 1)) * ((1 + gam u (n + 1)) * ((1 + gam u n) * ((1 + gam u n) * 1))) - 1 = gam u (4 * n + 2) := by
  unfold gam
  ring

/-- **forward error of the whole 2-D pipeline** `idaubechies(daubechies(f))` (rows, columns, columns, rows), every
    operation of the four passes rounded, against the same pipeline in exact arithmetic: at **every** pixel -/
theorem forward_2d {u : K} (hu : 0 ≤ u) (hfl : ∀ x, |fl x - x| ≤ u * |x|) (cs : List K) (N0 N1 : Nat) (f : Im K)
    (M : K) (hM : 0 ≤ M) (hf : ∀ y x, y < N0 → x < N1 → |f y x| ≤ M) (y x : Nat) :
    |(idaubechies2 (cs.map (ex (fl := fl))) N0 N1
        (daubechies2 (cs.map (ex (fl := fl))) N0 N1 (fun y x => ex (f y x))) y x).v
      - idaubechies2 cs N0 N1 (daubechies2 cs N0 N1 f) y x|
      ≤ gam u (4 * cs.length + 2) * (absSum cs ^ 4 * M) := by
  have hC := absSum_nonneg cs
  have hgn := gam_nonneg hu cs.length
  have hgn1 := gam_nonneg hu (cs.length + 1)
  -- stage 1: rows, analysis
  let at1 : Nat → Nat → K := fun k q => (waveletRow (cs.map (ex (fl := fl))) N1 (fun q => ex (f k q)) q).v
  let a1 : Nat → Nat → K := fun k q => waveletRow cs N1 (f k) q
  have s1 : ∀ k, k < N0 → ∀ q, |at1 k q - a1 k q| ≤ ((1 + gam u cs.length) * 1 - 1) * (absSum cs * M) ∧
      |a1 k q| ≤ absSum cs * M := fun k hk q =>
    pass_analysis hu hfl cs N1 (f k) (f k) M 1 hM le_rfl (fun p _ => by simp) (fun p hp => hf k p hk hp) q
  -- stage 2: columns, analysis
  let bt : Nat → Nat → K := fun k q => (waveletRow (cs.map (ex (fl := fl))) N0 (fun j => ex (at1 j q)) k).v
  let b : Nat → Nat → K := fun k q => waveletRow cs N0 (fun j => a1 j q) k
  have r1 : (1 : K) ≤ (1 + gam u cs.length) * 1 := by linarith
  have s2 : ∀ k q, |bt k q - b k q| ≤
      ((1 + gam u cs.length) * ((1 + gam u cs.length) * 1) - 1) * (absSum cs * (absSum cs * M)) ∧
      |b k q| ≤ absSum cs * (absSum cs * M) := fun k q =>
    pass_analysis hu hfl cs N0 (fun j => at1 j q) (fun j => a1 j q) (absSum cs * M) _ (by positivity) r1
      (fun p hp => (s1 p hp q).1) (fun p hp => (s1 p hp q).2) k
  -- stage 3: columns, synthesis
  let ct : Nat → Nat → K := fun k q => (iwaveletRow (cs.map (ex (fl := fl))) N0 (fun j => ex (bt j q)) k).v
  let c : Nat → Nat → K := fun k q => iwaveletRow cs N0 (fun j => b j q) k
  have r2 : (1 : K) ≤ (1 + gam u cs.length) * ((1 + gam u cs.length) * 1) := by nlinarith
  have s3 : ∀ k q, |ct k q - c k q| ≤
      ((1 + gam u (cs.length + 1)) * ((1 + gam u cs.length) * ((1 + gam u cs.length) * 1)) - 1) *
        (absSum cs * (absSum cs * (absSum cs * M))) ∧
      |c k q| ≤ absSum cs * (absSum cs * (absSum cs * M)) := fun k q =>
    pass_synthesis hu hfl cs N0 (fun j => bt j q) (fun j => b j q) (absSum cs * (absSum cs * M)) _ (by positivity) r2
      (fun p _ => (s2 p q).1) (fun p _ => (s2 p q).2) k
  -- stage 4: rows, synthesis
  have r3 : (1 : K) ≤ (1 + gam u (cs.length + 1)) * ((1 + gam u cs.length) * ((1 + gam u cs.length) * 1)) := by
    have : (1 : K) ≤ (1 + gam u (cs.length + 1)) := by linarith
    nlinarith
  have s4 := (pass_synthesis hu hfl cs N1 (fun q => ct y q) (fun q => c y q)
      (absSum cs * (absSum cs * (absSum cs * M))) _ (by positivity) r3
      (fun p _ => (s3 y p).1) (fun p _ => (s3 y p).2) x).1
  rw [gam_four] at s4
  have e1 : idaubechies2 (cs.map (ex (fl := fl))) N0 N1
        (daubechies2 (cs.map (ex (fl := fl))) N0 N1 (fun y x => ex (f y x))) y x =
      iwaveletRow (cs.map (ex (fl := fl))) N1 (fun q => ex (ct y q)) x := rfl
  have e2 : idaubechies2 cs N0 N1 (daubechies2 cs N0 N1 f) y x = iwaveletRow cs N1 (fun q => c y q) x := rfl
  rw [e1, e2]
  have : absSum cs * (absSum cs * (absSum cs * (absSum cs * M))) = absSum cs ^ 4 * M := by ring
  rw [this] at s4
  exact s4

end

end Mahotas.C17.RT
