/-
C18 — helper lemmas about the interpolation model (`Model/C18.lean`) over an ordered field `K`.
`floor` is any function with the defining property of the floor (`IsFloor`), as `Float.floor` has
on finite doubles and `Int.floor` on any floor ring.
-/
import Mahotas.Model.C18
import Mahotas.Proofs.Border
import Mathlib.Tactic.Ring
import Mathlib.Tactic.FieldSimp
import Mathlib.Tactic.Linarith
import Mathlib.Tactic.NormNum
import Mathlib.Tactic.Positivity
import Mathlib.Algebra.Order.Field.Basic
set_option linter.unusedSectionVars false
set_option linter.unusedVariables false
namespace Mahotas.C18
open Mahotas

variable {K : Type} [Field K] [LinearOrder K] [IsStrictOrderedRing K]

/-- `fl` is a floor function -/
def IsFloor (fl : K → Int) : Prop := ∀ z : K, ((fl z : Int) : K) ≤ z ∧ z < ((fl z : Int) : K) + 1

theorem IsFloor.unique {fl : K → Int} (h : IsFloor fl) (z : K) (n : Int)
    (h0 : (n : K) ≤ z) (h1 : z < (n : K) + 1) : fl z = n := by
  obtain ⟨a, b⟩ := h z
  have l1 : ((fl z : Int) : K) < ((n + 1 : Int) : K) := by push_cast; linarith
  have l2 : ((n : Int) : K) < ((fl z + 1 : Int) : K) := by push_cast; linarith
  have := Int.cast_lt.mp l1
  have := Int.cast_lt.mp l2
  omega

theorem IsFloor.int {fl : K → Int} (h : IsFloor fl) (n : Int) : fl (n : K) = n :=
  h.unique _ n le_rfl (by linarith)

theorem IsFloor.int_half {fl : K → Int} (h : IsFloor fl) (n : Int) : fl ((n : K) + 1 / 2) = n :=
  h.unique _ n (by linarith [show (0 : K) < 1 / 2 by norm_num]) (by linarith [show (1 / 2 : K) < 1 by norm_num])

/-! ### the pieces of the B-splines -/

/-- unfold one weight, decide its branch from the bounds on `t` in the context, check the polynomial -/
macro "spline_piece" : tactic =>
  `(tactic| (simp only [splineCoeff, absV, q]; push_cast; split_ifs <;>
      first | (exfalso; linarith) | ring1 | (field_simp; ring1)))

theorem w1 (t : K) (h0 : 0 ≤ t) (h1 : t < 1) :
    splineCoeff 1 (absV (0 - t)) = 1 - t ∧ splineCoeff 1 (absV (1 - t)) = t := by
  constructor
  · simp only [splineCoeff, absV]; push_cast
    split_ifs <;> first | (exfalso; linarith) | ring1 | (have ht : t = 0 := (by linarith); subst ht; ring1)
  · spline_piece

theorem w2 (t : K) (h0 : -(1 / 2) < t) (h1 : t < 1 / 2) :
    splineCoeff 2 (absV (-1 - t)) = 1 / 2 * (1 / 2 - t) ^ 2 ∧
    splineCoeff 2 (absV (0 - t)) = 3 / 4 - t ^ 2 ∧
    splineCoeff 2 (absV (1 - t)) = 1 / 2 * (1 / 2 + t) ^ 2 := by
  refine ⟨?_, ?_, ?_⟩ <;> spline_piece

theorem w3 (t : K) (h0 : 0 < t) (h1 : t < 1) :
    splineCoeff 3 (absV (-1 - t)) = (1 - t) ^ 3 / 6 ∧
    splineCoeff 3 (absV (0 - t)) = (t ^ 2 * (t - 2) * 3 + 4) / 6 ∧
    splineCoeff 3 (absV (1 - t)) = ((1 - t) ^ 2 * ((1 - t) - 2) * 3 + 4) / 6 ∧
    splineCoeff 3 (absV (2 - t)) = t ^ 3 / 6 := by
  refine ⟨?_, ?_, ?_, ?_⟩ <;> spline_piece

theorem w4 (t : K) (h0 : -(1 / 2) < t) (h1 : t < 1 / 2) :
    splineCoeff 4 (absV (-2 - t)) = (t - 1 / 2) ^ 4 / 24 ∧
    splineCoeff 4 (absV (-1 - t)) =
      (1 + t) * ((1 + t) * ((1 + t) * (5 / 6 - (1 + t) / 6) - 5 / 4) + 5 / 24) + 55 / 96 ∧
    splineCoeff 4 (absV (0 - t)) = t ^ 2 * (t ^ 2 * (1 / 4) - 5 / 8) + 115 / 192 ∧
    splineCoeff 4 (absV (1 - t)) =
      (1 - t) * ((1 - t) * ((1 - t) * (5 / 6 - (1 - t) / 6) - 5 / 4) + 5 / 24) + 55 / 96 ∧
    splineCoeff 4 (absV (2 - t)) = (t + 1 / 2) ^ 4 / 24 := by
  refine ⟨?_, ?_, ?_, ?_, ?_⟩ <;> spline_piece

theorem w5 (t : K) (h0 : 0 < t) (h1 : t < 1) :
    splineCoeff 5 (absV (-2 - t)) = (1 - t) ^ 5 / 120 ∧
    splineCoeff 5 (absV (-1 - t)) =
      (1 + t) * ((1 + t) * ((1 + t) * ((1 + t) * ((1 + t) / 24 - 3 / 8) + 5 / 4) - 7 / 4) + 5 / 8) + 17 / 40 ∧
    splineCoeff 5 (absV (0 - t)) = t ^ 2 * (t ^ 2 * (1 / 4 - t / 12) - 1 / 2) + 11 / 20 ∧
    splineCoeff 5 (absV (1 - t)) =
      (1 - t) ^ 2 * ((1 - t) ^ 2 * (1 / 4 - (1 - t) / 12) - 1 / 2) + 11 / 20 ∧
    splineCoeff 5 (absV (2 - t)) =
      (2 - t) * ((2 - t) * ((2 - t) * ((2 - t) * ((2 - t) / 24 - 3 / 8) + 5 / 4) - 7 / 4) + 5 / 8) + 17 / 40 ∧
    splineCoeff 5 (absV (3 - t)) = t ^ 5 / 120 := by
  refine ⟨?_, ?_, ?_, ?_, ?_, ?_⟩ <;> spline_piece

/-! ### the weights sum to one -/

theorem q_half : (q 1 2 : K) = 1 / 2 := by simp [q]

theorem partition1 {fl : K → Int} (h : IsFloor fl) (x : K) :
    weights fl 1 x = [1 - (x - (fl x : K)), x - (fl x : K)] := by
  obtain ⟨a, b⟩ := h x
  have r : List.range (1 + 1) = [0, 1] := rfl
  have s : startIdx fl 1 x = fl x := by simp [startIdx]
  simp only [weights, r, s, List.map_cons, List.map_nil]
  have e0 : (((fl x : Int) : K) - x + ((0 : Nat) : K)) = 0 - (x - (fl x : K)) := by push_cast; ring
  have e1 : (((fl x : Int) : K) - x + ((1 : Nat) : K)) = 1 - (x - (fl x : K)) := by push_cast; ring
  obtain ⟨p0, p1⟩ := w1 (x - (fl x : K)) (by linarith) (by linarith)
  rw [e0, e1, p0, p1]

theorem partition2 {fl : K → Int} (h : IsFloor fl) (x : K) : (weights fl 2 x).sum = 1 := by
  obtain ⟨a, b⟩ := h (x + 1 / 2)
  have r : List.range (2 + 1) = [0, 1, 2] := rfl
  have s : startIdx fl 2 x = fl (x + 1 / 2) - 1 := by simp [startIdx, q_half]
  simp only [weights, r, s, List.map_cons, List.map_nil, List.sum_cons, List.sum_nil]
  generalize fl (x + 1 / 2) = i at a b
  have e0 : (((i - 1 : Int) : K) - x + ((0 : Nat) : K)) = -1 - (x - (i : K)) := by push_cast; ring
  have e1 : (((i - 1 : Int) : K) - x + ((1 : Nat) : K)) = 0 - (x - (i : K)) := by push_cast; ring
  have e2 : (((i - 1 : Int) : K) - x + ((2 : Nat) : K)) = 1 - (x - (i : K)) := by push_cast; ring
  rw [e0, e1, e2]
  rcases eq_or_lt_of_le (show -(1 / 2) ≤ x - (i : K) by linarith) with ht | ht
  · rw [← ht]; norm_num [splineCoeff, absV, q]
  · obtain ⟨p0, p1, p2⟩ := w2 (x - (i : K)) ht (by linarith)
    rw [p0, p1, p2]; ring

theorem partition3 {fl : K → Int} (h : IsFloor fl) (x : K) : (weights fl 3 x).sum = 1 := by
  obtain ⟨a, b⟩ := h x
  have r : List.range (3 + 1) = [0, 1, 2, 3] := rfl
  have s : startIdx fl 3 x = fl x - 1 := by simp [startIdx]
  simp only [weights, r, s, List.map_cons, List.map_nil, List.sum_cons, List.sum_nil]
  generalize fl x = i at a b
  have e0 : (((i - 1 : Int) : K) - x + ((0 : Nat) : K)) = -1 - (x - (i : K)) := by push_cast; ring
  have e1 : (((i - 1 : Int) : K) - x + ((1 : Nat) : K)) = 0 - (x - (i : K)) := by push_cast; ring
  have e2 : (((i - 1 : Int) : K) - x + ((2 : Nat) : K)) = 1 - (x - (i : K)) := by push_cast; ring
  have e3 : (((i - 1 : Int) : K) - x + ((3 : Nat) : K)) = 2 - (x - (i : K)) := by push_cast; ring
  rw [e0, e1, e2, e3]
  rcases eq_or_lt_of_le (show 0 ≤ x - (i : K) by linarith) with ht | ht
  · rw [← ht]; norm_num [splineCoeff, absV, q]
  · obtain ⟨p0, p1, p2, p3⟩ := w3 (x - (i : K)) ht (by linarith)
    rw [p0, p1, p2, p3]; ring

theorem partition4 {fl : K → Int} (h : IsFloor fl) (x : K) : (weights fl 4 x).sum = 1 := by
  obtain ⟨a, b⟩ := h (x + 1 / 2)
  have r : List.range (4 + 1) = [0, 1, 2, 3, 4] := rfl
  have s : startIdx fl 4 x = fl (x + 1 / 2) - 2 := by simp [startIdx, q_half]
  simp only [weights, r, s, List.map_cons, List.map_nil, List.sum_cons, List.sum_nil]
  generalize fl (x + 1 / 2) = i at a b
  have e0 : (((i - 2 : Int) : K) - x + ((0 : Nat) : K)) = -2 - (x - (i : K)) := by push_cast; ring
  have e1 : (((i - 2 : Int) : K) - x + ((1 : Nat) : K)) = -1 - (x - (i : K)) := by push_cast; ring
  have e2 : (((i - 2 : Int) : K) - x + ((2 : Nat) : K)) = 0 - (x - (i : K)) := by push_cast; ring
  have e3 : (((i - 2 : Int) : K) - x + ((3 : Nat) : K)) = 1 - (x - (i : K)) := by push_cast; ring
  have e4 : (((i - 2 : Int) : K) - x + ((4 : Nat) : K)) = 2 - (x - (i : K)) := by push_cast; ring
  rw [e0, e1, e2, e3, e4]
  rcases eq_or_lt_of_le (show -(1 / 2) ≤ x - (i : K) by linarith) with ht | ht
  · rw [← ht]; norm_num [splineCoeff, absV, q]
  · obtain ⟨p0, p1, p2, p3, p4⟩ := w4 (x - (i : K)) ht (by linarith)
    rw [p0, p1, p2, p3, p4]; ring

theorem partition5 {fl : K → Int} (h : IsFloor fl) (x : K) : (weights fl 5 x).sum = 1 := by
  obtain ⟨a, b⟩ := h x
  have r : List.range (5 + 1) = [0, 1, 2, 3, 4, 5] := rfl
  have s : startIdx fl 5 x = fl x - 2 := by simp [startIdx]
  simp only [weights, r, s, List.map_cons, List.map_nil, List.sum_cons, List.sum_nil]
  generalize fl x = i at a b
  have e0 : (((i - 2 : Int) : K) - x + ((0 : Nat) : K)) = -2 - (x - (i : K)) := by push_cast; ring
  have e1 : (((i - 2 : Int) : K) - x + ((1 : Nat) : K)) = -1 - (x - (i : K)) := by push_cast; ring
  have e2 : (((i - 2 : Int) : K) - x + ((2 : Nat) : K)) = 0 - (x - (i : K)) := by push_cast; ring
  have e3 : (((i - 2 : Int) : K) - x + ((3 : Nat) : K)) = 1 - (x - (i : K)) := by push_cast; ring
  have e4 : (((i - 2 : Int) : K) - x + ((4 : Nat) : K)) = 2 - (x - (i : K)) := by push_cast; ring
  have e5 : (((i - 2 : Int) : K) - x + ((5 : Nat) : K)) = 3 - (x - (i : K)) := by push_cast; ring
  rw [e0, e1, e2, e3, e4, e5]
  rcases eq_or_lt_of_le (show 0 ≤ x - (i : K) by linarith) with ht | ht
  · rw [← ht]; norm_num [splineCoeff, absV, q]
  · obtain ⟨p0, p1, p2, p3, p4, p5⟩ := w5 (x - (i : K)) ht (by linarith)
    rw [p0, p1, p2, p3, p4, p5]; ring

/-! ### integer coordinates, order 1 -/

theorem roundI_int {fl : K → Int} (h : IsFloor fl) (n : Int) : roundI fl (n : K) = n := by
  unfold roundI
  rw [q_half]
  split_ifs
  · exact h.int_half n
  · have e : -((n : K) - 1 / 2) = ((-n : Int) : K) + 1 / 2 := by push_cast; ring
    rw [e, h.int_half]; omega

/-- what `zoom_shift` does with a coordinate that is an integer `n`: inside the array it is kept, outside
    it is sent through `fix_offset` -/
theorem mapCoord_int {fl : K → Int} (h : IsFloor fl) (m : Mode) (len : Nat) (n : Int) :
    mapCoord fl m len (n : K) =
      if 0 ≤ n ∧ n ≤ (len : Int) - 1 then some (n : K)
      else (fixOffset m n len).map (fun (i : Int) => (i : K)) := by
  unfold mapCoord
  rw [roundI_int h]
  by_cases c : 0 ≤ n ∧ n ≤ (len : Int) - 1
  · have c1 : ¬ ((n : K) < ((0 : Nat) : K) ∨ ((((len : Int) - 1 : Int)) : K) < (n : K)) := by
      rw [Nat.cast_zero, ← Int.cast_zero, Int.cast_lt, Int.cast_lt]; omega
    simp only [c1, c, and_self, if_true, if_false]
  · have c1 : ((n : K) < ((0 : Nat) : K) ∨ ((((len : Int) - 1 : Int)) : K) < (n : K)) := by
      rw [Nat.cast_zero, ← Int.cast_zero, Int.cast_lt, Int.cast_lt]; omega
    simp only [c1, c, if_true, if_false]
    cases fixOffset m n len <;> rfl

theorem edgeFold_inside (len : Nat) (j : Int) (h0 : 0 ≤ j) (h1 : j < len) : edgeFold len j = j := by
  have a : ¬ j < 0 := by omega
  have b : ¬ j ≥ (len : Int) := by omega
  simp [edgeFold, fixOffset, a, b]

/-- order 1 at an integer coordinate: the weights are `(1, 0)` and the first knot is the coordinate -/
theorem axisEntry_int1 {fl : K → Int} (h : IsFloor fl) (len : Nat) (j : Int) :
    startIdx fl 1 (j : K) = j ∧ weights fl 1 (j : K) = [1, 0] := by
  constructor
  · simp [startIdx, h.int]
  · rw [partition1 h, h.int]; simp

/-- the accumulation of `zoom_shift` along one axis with weights `(1, 0)` returns the first knot's sample -/
theorem tensorSum_delta1 (sample : List Int → K) (i j : Int) :
    tensorSum ((0 : Nat) : K) sample [([i, j], [1, 0])] = sample [i] := by
  simp [tensorSum, tensorTerms]

/-- order-1 accumulation along one axis: `(1−t)·f[i] + t·f[j]` -/
theorem tensorSum_linear1 (sample : List Int → K) (i j : Int) (t : K) :
    tensorSum ((0 : Nat) : K) sample [([i, j], [1 - t, t])] = (1 - t) * sample [i] + t * sample [j] := by
  simp [tensorSum, tensorTerms]; ring

/-! ### n-D: weights `(1, 0)` on every axis select the first knot on every axis -/

theorem foldl_mul_zero (ws : List K) : ws.foldl (· * ·) (0 : K) = 0 := by
  induction ws with
  | nil => rfl
  | cons w ws ih => simp [List.foldl_cons, ih]

theorem foldl_add_const (l : List (List Int × List K)) (z : K) (F : List Int × List K → K)
    (hF : ∀ pw ∈ l, F pw = 0) : l.foldl (fun t pw => t + F pw) z = z := by
  induction l generalizing z with
  | nil => rfl
  | cons a l ih =>
    simp only [List.foldl_cons]
    rw [hF a (by simp), add_zero]
    exact ih z (fun pw hp => hF pw (by simp [hp]))

/-- generalised accumulation: every term starts from `g p` instead of the sample, prefix `pre` -/
theorem tensor_delta_aux (entries : List (Int × Int)) (g : List Int → K) (z : K) :
    (tensorTerms (entries.map fun ij => ([ij.1, ij.2], [(1 : K), 0]))).foldl
        (fun t pw => t + pw.2.foldl (· * ·) (g pw.1)) z
      = z + g (entries.map fun ij => ij.1) := by
  induction entries generalizing g z with
  | nil => simp [tensorTerms]
  | cons e es ih =>
    simp only [List.map_cons, tensorTerms, List.zip_cons_cons, List.zip_nil_right, List.flatMap_cons,
      List.flatMap_nil, List.append_nil, List.foldl_append, List.foldl_map, List.foldl_cons, mul_one, mul_zero]
    have h1 := ih (fun p => g (e.1 :: p)) z
    rw [h1]
    have h2 : ∀ z' : K, (tensorTerms (es.map fun ij => ([ij.1, ij.2], [(1 : K), 0]))).foldl
        (fun t pw => t + pw.2.foldl (· * ·) (0 : K)) z' = z' := by
      intro z'
      exact foldl_add_const _ z' _ (fun pw _ => foldl_mul_zero pw.2)
    exact h2 _

theorem tensorSum_delta (sample : List Int → K) (entries : List (Int × Int)) :
    tensorSum ((0 : Nat) : K) sample (entries.map fun ij => ([ij.1, ij.2], [(1 : K), 0]))
      = sample (entries.map fun ij => ij.1) := by
  unfold tensorSum
  rw [tensor_delta_aux entries sample]
  simp

/-! ### zoom: corners and unit factor -/

theorem zoomFactor_corner (nin nout : Nat) (h : 2 ≤ nout) :
    coord (nout - 1) none (some (zoomFactor nin nout : K)) = (((nin : Int) - 1 : Int) : K) := by
  have hne : nout ≠ 1 := by omega
  have hpos : (((nout : Int) - 1 : Int) : K) ≠ 0 := by
    have : ((nout : Int) - 1 : Int) ≠ 0 := by omega
    exact_mod_cast this
  have e : (((nout - 1 : Nat)) : K) = (((nout : Int) - 1 : Int) : K) := by
    have : ((nout - 1 : Nat) : Int) = (nout : Int) - 1 := by omega
    rw [← this]; simp
  simp only [coord, zoomFactor, hne, if_false, e]
  field_simp

theorem zoomFactor_origin (z : K) : coord 0 none (some z) = 0 := by
  simp [coord]

theorem zoomFactor_unit (n : Nat) (kk : Nat) :
    coord kk none (some (zoomFactor n n : K)) = (kk : K) := by
  by_cases h : n = 1
  · simp [coord, zoomFactor, h]
  · have hn : ((n : Int) - 1 : Int) ≠ 0 ∨ n = 0 := by omega
    rcases hn with hn | hn
    · have hpos : (((n : Int) - 1 : Int) : K) ≠ 0 := by exact_mod_cast hn
      simp only [coord, zoomFactor, h, if_false]
      field_simp
    · subst hn
      simp [coord, zoomFactor]

/-! ### the weights at integer coordinates are the sampled B-splines -/

theorem weights_int2 {fl : K → Int} (h : IsFloor fl) (n : Int) :
    weights fl 2 (n : K) = [1 / 8, 3 / 4, 1 / 8] := by
  have r : List.range (2 + 1) = [0, 1, 2] := rfl
  have s : startIdx fl 2 (n : K) = n - 1 := by
    simp only [startIdx, q_half, h.int_half]; simp
  simp only [weights, r, s, List.map_cons, List.map_nil]
  have e0 : (((n - 1 : Int) : K) - (n : K) + ((0 : Nat) : K)) = -1 := by push_cast; ring
  have e1 : (((n - 1 : Int) : K) - (n : K) + ((1 : Nat) : K)) = 0 := by push_cast; ring
  have e2 : (((n - 1 : Int) : K) - (n : K) + ((2 : Nat) : K)) = 1 := by push_cast; ring
  rw [e0, e1, e2]
  norm_num [splineCoeff, absV, q]

theorem weights_int3 {fl : K → Int} (h : IsFloor fl) (n : Int) :
    weights fl 3 (n : K) = [1 / 6, 2 / 3, 1 / 6, 0] := by
  have r : List.range (3 + 1) = [0, 1, 2, 3] := rfl
  have s : startIdx fl 3 (n : K) = n - 1 := by simp [startIdx, h.int]
  simp only [weights, r, s, List.map_cons, List.map_nil]
  have e0 : (((n - 1 : Int) : K) - (n : K) + ((0 : Nat) : K)) = -1 := by push_cast; ring
  have e1 : (((n - 1 : Int) : K) - (n : K) + ((1 : Nat) : K)) = 0 := by push_cast; ring
  have e2 : (((n - 1 : Int) : K) - (n : K) + ((2 : Nat) : K)) = 1 := by push_cast; ring
  have e3 : (((n - 1 : Int) : K) - (n : K) + ((3 : Nat) : K)) = 2 := by push_cast; ring
  rw [e0, e1, e2, e3]
  norm_num [splineCoeff, absV, q]

theorem weights_int4 {fl : K → Int} (h : IsFloor fl) (n : Int) :
    weights fl 4 (n : K) = [1 / 384, 19 / 96, 115 / 192, 19 / 96, 1 / 384] := by
  have r : List.range (4 + 1) = [0, 1, 2, 3, 4] := rfl
  have s : startIdx fl 4 (n : K) = n - 2 := by
    simp only [startIdx, q_half, h.int_half]; simp
  simp only [weights, r, s, List.map_cons, List.map_nil]
  have e0 : (((n - 2 : Int) : K) - (n : K) + ((0 : Nat) : K)) = -2 := by push_cast; ring
  have e1 : (((n - 2 : Int) : K) - (n : K) + ((1 : Nat) : K)) = -1 := by push_cast; ring
  have e2 : (((n - 2 : Int) : K) - (n : K) + ((2 : Nat) : K)) = 0 := by push_cast; ring
  have e3 : (((n - 2 : Int) : K) - (n : K) + ((3 : Nat) : K)) = 1 := by push_cast; ring
  have e4 : (((n - 2 : Int) : K) - (n : K) + ((4 : Nat) : K)) = 2 := by push_cast; ring
  rw [e0, e1, e2, e3, e4]
  norm_num [splineCoeff, absV, q]

end Mahotas.C18
