/-
C18 — helper lemmas about the interpolation model (`Model/C18.lean`) over an ordered field `K`.
`floor` is any function with the defining property of the floor (`IsFloor`), as `Float.floor` has
on finite doubles and `Int.floor` on any floor ring.
-/
import Mahotas.Model.C18
import Mahotas.Proofs.Border
import Mathlib.Tactic.Ring
import Mathlib.Tactic.FieldSimp
import Mathlib.Tactic.Linarith
import Mathlib.Tactic.NormNum
import Mathlib.Tactic.Positivity
import Mathlib.Algebra.Order.Field.Basic
namespace Mahotas.C18
open Mahotas

variable {K : Type} [Field K] [LinearOrder K] [IsStrictOrderedRing K]

/-- `fl` is a floor function -/
def IsFloor (fl : K → Int) : Prop := ∀ z : K, ((fl z : Int) : K) ≤ z ∧ z < ((fl z : Int) : K) + 1

theorem IsFloor.unique {fl : K → Int} (h : IsFloor fl) (z : K) (n : Int)
    (h0 : (n : K) ≤ z) (h1 : z < (n : K) + 1) : fl z = n := by
  obtain ⟨a, b⟩ := h z
  have l1 : ((fl z : Int) : K) < ((n + 1 : Int) : K) := by push_cast; linarith
  have l2 : ((n : Int) : K) < ((fl z + 1 : Int) : K) := by push_cast; linarith
  have := Int.cast_lt.mp l1
  have := Int.cast_lt.mp l2
  omega

theorem IsFloor.int {fl : K → Int} (h : IsFloor fl) (n : Int) : fl (n : K) = n :=
  h.unique _ n le_rfl (by linarith)

theorem IsFloor.int_half {fl : K → Int} (h : IsFloor fl) (n : Int) : fl ((n : K) + 1 / 2) = n :=
  h.unique _ n (by linarith [show (0 : K) < 1 / 2 by norm_num]) (by linarith [show (1 / 2 : K) < 1 by norm_num])

/-! ### the pieces of the B-splines -/

/-- unfold one weight, decide its branch from the bounds on `t` in the context, check the polynomial -/
macro "spline_piece" : tactic =>
  `(tactic| (simp only [splineCoeff, absV, q]; push_cast; split_ifs <;>
      first | (exfalso; linarith) | ring1 | (field_simp; ring1)))

theorem w1 (t : K) (h0 : 0 ≤ t) (h1 : t < 1) :
    splineCoeff 1 (absV (0 - t)) = 1 - t ∧ splineCoeff 1 (absV (1 - t)) = t := by
  constructor
  · simp only [splineCoeff, absV]; push_cast
    split_ifs <;> first | (exfalso; linarith) | ring1 | (have ht : t = 0 := (by linarith); subst ht; ring1)
  · spline_piece

theorem w2 (t : K) (h0 : -(1 / 2) < t) (h1 : t < 1 / 2) :
    splineCoeff 2 (absV (-1 - t)) = 1 / 2 * (1 / 2 - t) ^ 2 ∧
    splineCoeff 2 (absV (0 - t)) = 3 / 4 - t ^ 2 ∧
    splineCoeff 2 (absV (1 - t)) = 1 / 2 * (1 / 2 + t) ^ 2 := by
  refine ⟨?_, ?_, ?_⟩ <;> spline_piece

theorem w3 (t : K) (h0 : 0 < t) (h1 : t < 1) :
    splineCoeff 3 (absV (-1 - t)) = (1 - t) ^ 3 / 6 ∧
    splineCoeff 3 (absV (0 - t)) = (t ^ 2 * (t - 2) * 3 + 4) / 6 ∧
    splineCoeff 3 (absV (1 - t)) = ((1 - t) ^ 2 * ((1 - t) - 2) * 3 + 4) / 6 ∧
    splineCoeff 3 (absV (2 - t)) = t ^ 3 / 6 := by
  refine ⟨?_, ?_, ?_, ?_⟩ <;> spline_piece

theorem w4 (t : K) (h0 : -(1 / 2) < t) (h1 : t < 1 / 2) :
    splineCoeff 4 (absV (-2 - t)) = (t - 1 / 2) ^ 4 / 24 ∧
    splineCoeff 4 (absV (-1 - t)) =
      (1 + t) * ((1 + t) * ((1 + t) * (5 / 6 - (1 + t) / 6) - 5 / 4) + 5 / 24) + 55 / 96 ∧
    splineCoeff 4 (absV (0 - t)) = t ^ 2 * (t ^ 2 * (1 / 4) - 5 / 8) + 115 / 192 ∧
    splineCoeff 4 (absV (1 - t)) =
      (1 - t) * ((1 - t) * ((1 - t) * (5 / 6 - (1 - t) / 6) - 5 / 4) + 5 / 24) + 55 / 96 ∧
    splineCoeff 4 (absV (2 - t)) = (t + 1 / 2) ^ 4 / 24 := by
  refine ⟨?_, ?_, ?_, ?_, ?_⟩ <;> spline_piece

theorem w5 (t : K) (h0 : 0 < t) (h1 : t < 1) :
    splineCoeff 5 (absV (-2 - t)) = (1 - t) ^ 5 / 120 ∧
    splineCoeff 5 (absV (-1 - t)) =
      (1 + t) * ((1 + t) * ((1 + t) * ((1 + t) * ((1 + t) / 24 - 3 / 8) + 5 / 4) - 7 / 4) + 5 / 8) + 17 / 40 ∧
    splineCoeff 5 (absV (0 - t)) = t ^ 2 * (t ^ 2 * (1 / 4 - t / 12) - 1 / 2) + 11 / 20 ∧
    splineCoeff 5 (absV (1 - t)) =
      (1 - t) ^ 2 * ((1 - t) ^ 2 * (1 / 4 - (1 - t) / 12) - 1 / 2) + 11 / 20 ∧
    splineCoeff 5 (absV (2 - t)) =
      (2 - t) * ((2 - t) * ((2 - t) * ((2 - t) * ((2 - t) / 24 - 3 / 8) + 5 / 4) - 7 / 4) + 5 / 8) + 17 / 40 ∧
    splineCoeff 5 (absV (3 - t)) = t ^ 5 / 120 := by
  refine ⟨?_, ?_, ?_, ?_, ?_, ?_⟩ <;> spline_piece

/-! ### the weights sum to one -/

theorem q_half : (q 1 2 : K) = 1 / 2 := by simp [q]

theorem partition1 {fl : K → Int} (h : IsFloor fl) (x : K) :
    weights fl 1 x = [1 - (x - (fl x : K)), x - (fl x : K)] := by
  obtain ⟨a, b⟩ := h x
  have r : List.range (1 + 1) = [0, 1] := rfl
  have s : startIdx fl 1 x = fl x := by simp [startIdx]
  simp only [weights, r, s, List.map_cons, List.map_nil]
  have e0 : (((fl x : Int) : K) - x + ((0 : Nat) : K)) = 0 - (x - (fl x : K)) := by push_cast; ring
  have e1 : (((fl x : Int) : K) - x + ((1 : Nat) : K)) = 1 - (x - (fl x : K)) := by push_cast; ring
  obtain ⟨p0, p1⟩ := w1 (x - (fl x : K)) (by linarith) (by linarith)
  rw [e0, e1, p0, p1]

theorem partition2 {fl : K → Int} (h : IsFloor fl) (x : K) : (weights fl 2 x).sum = 1 := by
  obtain ⟨a, b⟩ := h (x + 1 / 2)
  have r : List.range (2 + 1) = [0, 1, 2] := rfl
  have s : startIdx fl 2 x = fl (x + 1 / 2) - 1 := by simp [startIdx, q_half]
  simp only [weights, r, s, List.map_cons, List.map_nil, List.sum_cons, List.sum_nil]
  generalize fl (x + 1 / 2) = i at a b
  have e0 : (((i - 1 : Int) : K) - x + ((0 : Nat) : K)) = -1 - (x - (i : K)) := by push_cast; ring
  have e1 : (((i - 1 : Int) : K) - x + ((1 : Nat) : K)) = 0 - (x - (i : K)) := by push_cast; ring
  have e2 : (((i - 1 : Int) : K) - x + ((2 : Nat) : K)) = 1 - (x - (i : K)) := by push_cast; ring
  rw [e0, e1, e2]
  rcases eq_or_lt_of_le (show -(1 / 2) ≤ x - (i : K) by linarith) with ht | ht
  · rw [← ht]; norm_num [splineCoeff, absV, q]
  · obtain ⟨p0, p1, p2⟩ := w2 (x - (i : K)) ht (by linarith)
    rw [p0, p1, p2]; ring

theorem partition3 {fl : K → Int} (h : IsFloor fl) (x : K) : (weights fl 3 x).sum = 1 := by
  obtain ⟨a, b⟩ := h x
  have r : List.range (3 + 1) = [0, 1, 2, 3] := rfl
  have s : startIdx fl 3 x = fl x - 1 := by simp [startIdx]
  simp only [weights, r, s, List.map_cons, List.map_nil, List.sum_cons, List.sum_nil]
  generalize fl x = i at a b
  have e0 : (((i - 1 : Int) : K) - x + ((0 : Nat) : K)) = -1 - (x - (i : K)) := by push_cast; ring
  have e1 : (((i - 1 : Int) : K) - x + ((1 : Nat) : K)) = 0 - (x - (i : K)) := by push_cast; ring
  have e2 : (((i - 1 : Int) : K) - x + ((2 : Nat) : K)) = 1 - (x - (i : K)) := by push_cast; ring
  have e3 : (((i - 1 : Int) : K) - x + ((3 : Nat) : K)) = 2 - (x - (i : K)) := by push_cast; ring
  rw [e0, e1, e2, e3]
  rcases eq_or_lt_of_le (show 0 ≤ x - (i : K) by linarith) with ht | ht
  · rw [← ht]; norm_num [splineCoeff, absV, q]
  · obtain ⟨p0, p1, p2, p3⟩ := w3 (x - (i : K)) ht (by linarith)
    rw [p0, p1, p2, p3]; ring

theorem partition4 {fl : K → Int} (h : IsFloor fl) (x : K) : (weights fl 4 x).sum = 1 := by
  obtain ⟨a, b⟩ := h (x + 1 / 2)
  have r : List.range (4 + 1) = [0, 1, 2, 3, 4] := rfl
  have s : startIdx fl 4 x = fl (x + 1 / 2) - 2 := by simp [startIdx, q_half]
  simp only [weights, r, s, List.map_cons, List.map_nil, List.sum_cons, List.sum_nil]
  generalize fl (x + 1 / 2) = i at a b
  have e0 : (((i - 2 : Int) : K) - x + ((0 : Nat) : K)) = -2 - (x - (i : K)) := by push_cast; ring
  have e1 : (((i - 2 : Int) : K) - x + ((1 : Nat) : K)) = -1 - (x - (i : K)) := by push_cast; ring
  have e2 : (((i - 2 : Int) : K) - x + ((2 : Nat) : K)) = 0 - (x - (i : K)) := by push_cast; ring
  have e3 : (((i - 2 : Int) : K) - x + ((3 : Nat) : K)) = 1 - (x - (i : K)) := by push_cast; ring
  have e4 : (((i - 2 : Int) : K) - x + ((4 : Nat) : K)) = 2 - (x - (i : K)) := by push_cast; ring
  rw [e0, e1, e2, e3, e4]
  rcases eq_or_lt_of_le (show -(1 / 2) ≤ x - (i : K) by linarith) with ht | ht
  · rw [← ht]; norm_num [splineCoeff, absV, q]
  · obtain ⟨p0, p1, p2, p3, p4⟩ := w4 (x - (i : K)) ht (by linarith)
    rw [p0, p1, p2, p3, p4]; ring

theorem partition5 {fl : K → Int} (h : IsFloor fl) (x : K) : (weights fl 5 x).sum = 1 := by
  obtain ⟨a, b⟩ := h x
  have r : List.range (5 + 1) = [0, 1, 2, 3, 4, 5] := rfl
  have s : startIdx fl 5 x = fl x - 2 := by simp [startIdx]
  simp only [weights, r, s, List.map_cons, List.map_nil, List.sum_cons, List.sum_nil]
  generalize fl x = i at a b
  have e0 : (((i - 2 : Int) : K) - x + ((0 : Nat) : K)) = -2 - (x - (i : K)) := by push_cast; ring
  have e1 : (((i - 2 : Int) : K) - x + ((1 : Nat) : K)) = -1 - (x - (i : K)) := by push_cast; ring
  have e2 : (((i - 2 : Int) : K) - x + ((2 : Nat) : K)) = 0 - (x - (i : K)) := by push_cast; ring
  have e3 : (((i - 2 : Int) : K) - x + ((3 : Nat) : K)) = 1 - (x - (i : K)) := by push_cast; ring
  have e4 : (((i - 2 : Int) : K) - x + ((4 : Nat) : K)) = 2 - (x - (i : K)) := by push_cast; ring
  have e5 : (((i - 2 : Int) : K) - x + ((5 : Nat) : K)) = 3 - (x - (i : K)) := by push_cast; ring
  rw [e0, e1, e2, e3, e4, e5]
  rcases eq_or_lt_of_le (show 0 ≤ x - (i : K) by linarith) with ht | ht
  · rw [← ht]; norm_num [splineCoeff, absV, q]
  · obtain ⟨p0, p1, p2, p3, p4, p5⟩ := w5 (x - (i : K)) ht (by linarith)
    rw [p0, p1, p2, p3, p4, p5]; ring

end Mahotas.C18
