/-
C18 — the array loop of the prefilter (`filterLineP`, `filterAxisP`, `splineFilterP` of `Model/C18.lean`, what the
driver runs at `Float`) computes, position by position, the separable prefilter `prefilterNd (lineFilterL …)` the
interpolation theorems speak about.
-/
import Mahotas.Proofs.C18Interp45
import Mahotas.Proofs.C18Resize
set_option linter.unusedSectionVars false
set_option linter.unusedVariables false
namespace Mahotas.C18
open Mahotas

variable {K : Type} [Field K] [LinearOrder K] [IsStrictOrderedRing K]

/-! ### the line filter only reads the line -/

/-- the initialisation rule reads the line only at its `len` samples -/
def IniLocal (ini : K → Nat → (Nat → K) → K) : Prop :=
  ∀ (z : K) (len : Nat) (s s' : Nat → K), 2 ≤ len → (∀ k, k < len → s k = s' k) → ini z len s = ini z len s'

theorem anticausalRev_congr (z : K) (n : Nat) (hn : 2 ≤ n) (cp cp' : Nat → K) (h : ∀ i, i < n → cp i = cp' i) :
    ∀ j, anticausalRev z n cp j = anticausalRev z n cp' j := by
  intro j
  induction j with
  | zero => rw [anticausalRev, anticausalRev, h (n - 1) (by omega), h (n - 2) (by omega)]
  | succ j ih => rw [anticausalRev, anticausalRev, ih, h (n - 2 - j) (by omega)]

theorem onePole_congr (z c0 : K) (n : Nat) (hn : 2 ≤ n) (s s' : Nat → K) (h : ∀ i, i < n → s i = s' i) (k : Nat) :
    onePole z c0 n s k = onePole z c0 n s' k := by
  unfold onePole
  apply anticausalRev_congr z n hn
  intro i hi
  exact causal_congr z c0 s s' i (fun j _ hj => h j (by omega))

theorem foldPoles_congr (ini : K → Nat → (Nat → K) → K) (hini : IniLocal ini) (len : Nat) (hlen : 2 ≤ len) :
    ∀ (ps : List K) (u u' : Nat → K), (∀ i, i < len → u i = u' i) → ∀ i, i < len →
      ps.foldl (fun u z => onePole z (ini z len u) len u) u i
        = ps.foldl (fun u z => onePole z (ini z len u) len u) u' i := by
  intro ps
  induction ps with
  | nil => intro u u' h i hi; exact h i hi
  | cons z ps ih =>
    intro u u' h i hi
    simp only [List.foldl_cons]
    apply ih _ _ _ i hi
    intro j hj
    rw [hini z len u u' hlen h]
    exact onePole_congr z _ len hlen u u' h j

theorem lineFilterL_congr (w : K) (ps : List K) (ini : K → Nat → (Nat → K) → K) (hini : IniLocal ini) (len : Nat)
    (s s' : Nat → K) (h : ∀ i, i < len → s i = s' i) (k : Nat) (hk : k < len) :
    lineFilterL w ps ini len s k = lineFilterL w ps ini len s' k := by
  unfold lineFilterL
  by_cases hl : len ≤ 1
  · rw [if_pos hl, if_pos hl]; exact h k hk
  · rw [if_neg hl, if_neg hl]
    apply foldPoles_congr ini hini len (by omega) ps _ _ _ k hk
    intro i hi
    rw [h i hi]

/-! ### one line -/

theorem getD_map_range (len : Nat) (g : Nat → K) (i : Nat) (hi : i < len) :
    ((Array.range len).map g).getD i 0 = g i := by
  simp [Array.getD_eq_getD_getElem?, hi]

theorem foldLine (ini : K → Nat → (Nat → K) → K) (hini : IniLocal ini) (len : Nat) (hlen : 2 ≤ len) :
    ∀ (ps : List K) (line : Array K) (u : Nat → K), line.size = len → (∀ i, i < len → line.getD i 0 = u i) →
      (ps.foldl (fun (line : Array K) p => (Array.range len).map
          (onePole p (ini p len (fun k => line.getD k ((0 : Nat) : K))) len (fun k => line.getD k ((0 : Nat) : K))))
        line).size = len ∧
      ∀ i, i < len →
        (ps.foldl (fun (line : Array K) p => (Array.range len).map
          (onePole p (ini p len (fun k => line.getD k ((0 : Nat) : K))) len (fun k => line.getD k ((0 : Nat) : K))))
        line).getD i 0 = ps.foldl (fun u z => onePole z (ini z len u) len u) u i := by
  intro ps
  induction ps with
  | nil => intro line u hs h; exact ⟨hs, h⟩
  | cons p ps ih =>
    intro line u hs h
    simp only [List.foldl_cons]
    apply ih
    · simp
    · intro i hi
      rw [getD_map_range len _ i hi]
      have hl : ∀ k, k < len → (fun k => line.getD k ((0 : Nat) : K)) k = u k := by
        intro k hk; simp only [Nat.cast_zero]; exact h k hk
      rw [hini p len _ u hlen hl]
      exact onePole_congr p _ len hlen _ u hl i

/-- **one line**: the array `filterLineP` returns has the size of the line and holds `lineFilterL` of its samples -/
theorem filterLineP_spec (w : K) (ps : List K) (ini : K → Nat → (Nat → K) → K) (hini : IniLocal ini)
    (line0 : Array K) :
    (filterLineP w ps ini line0).size = line0.size ∧
    ∀ k, k < line0.size →
      (filterLineP w ps ini line0).getD k 0 = lineFilterL w ps ini line0.size (fun i => line0.getD i 0) k := by
  unfold filterLineP lineFilterL
  by_cases hl : line0.size ≤ 1
  · simp only [hl, if_true]
    exact ⟨trivial, fun _ _ => trivial⟩
  · simp only [hl, if_false]
    apply foldLine ini hini line0.size (by omega) ps (line0.map (· * w)) (fun i => line0.getD i 0 * w) (by simp)
    intro i hi
    simp [Array.getD_eq_getD_getElem?, hi]

/-! ### one axis -/

theorem inside_set : ∀ (shape : List Nat) (p : List Int) (axis : Nat) (v : Int), inside shape p = true →
    0 ≤ v → v < ((shape.getD axis 1 : Nat) : Int) → inside shape (p.set axis v) = true := by
  intro shape
  induction shape with
  | nil => intro p axis v h _ _; cases p <;> simp_all [inside]
  | cons d ds ih =>
    intro p axis v h h0 h1
    cases p with
    | nil => simp [inside] at h
    | cons c cs =>
      simp only [inside, Bool.and_eq_true, decide_eq_true_eq] at h
      cases axis with
      | zero =>
        simp only [List.set_cons_zero, inside, Bool.and_eq_true, decide_eq_true_eq]
        simp only [List.getD_cons_zero] at h1
        exact ⟨⟨h0, h1⟩, h.2⟩
      | succ a =>
        simp only [List.set_cons_succ, inside, Bool.and_eq_true, decide_eq_true_eq]
        simp only [List.getD_cons_succ] at h1
        exact ⟨h.1, ih cs a v h.2 h0 h1⟩

theorem set_getD_self : ∀ (shape : List Nat) (p : List Int) (axis : Nat), inside shape p = true →
    p.set axis (((p.getD axis 0).toNat : Nat) : Int) = p := by
  intro shape
  induction shape with
  | nil => intro p axis h; cases p <;> simp_all [inside]
  | cons d ds ih =>
    intro p axis h
    cases p with
    | nil => simp
    | cons c cs =>
      simp only [inside, Bool.and_eq_true, decide_eq_true_eq] at h
      cases axis with
      | zero =>
        simp only [List.set_cons_zero, List.getD_cons_zero]
        rw [Int.toNat_of_nonneg h.1.1]
      | succ a =>
        simp only [List.set_cons_succ, List.getD_cons_succ]
        rw [ih cs a h.2]

theorem getD_lt_of_inside : ∀ (shape : List Nat) (p : List Int) (axis : Nat), inside shape p = true →
    0 ≤ p.getD axis 0 ∧ p.getD axis 0 < ((shape.getD axis 1 : Nat) : Int) := by
  intro shape
  induction shape with
  | nil => intro p axis h; cases p <;> simp_all [inside]
  | cons d ds ih =>
    intro p axis h
    cases p with
    | nil => simp [inside] at h
    | cons c cs =>
      simp only [inside, Bool.and_eq_true, decide_eq_true_eq] at h
      cases axis with
      | zero => simpa using h.1
      | succ a => simpa using ih cs a h.2

theorem getD_set_zero : ∀ (shape : List Nat) (p : List Int) (axis : Nat), inside shape p = true →
    ¬ shape.getD axis 1 ≤ 1 → (p.set axis 0).getD axis 0 = 0 := by
  intro shape p axis h hl
  cases hp : (p.set axis 0)[axis]? with
  | none => simp [List.getD_eq_getElem?_getD, hp]
  | some v =>
    have hlt : axis < (p.set axis 0).length := by
      by_contra hc
      rw [List.getElem?_eq_none (by omega)] at hp
      cases hp
    rw [List.getElem?_eq_getElem hlt, List.getElem_set_self] at hp
    simp only [Option.some.injEq] at hp
    simp [List.getD_eq_getElem?_getD, List.getElem?_eq_getElem hlt]

theorem getD_map_allPos' {β : Type} (s : List Nat) (f : List Int → β) (i : Nat) (d : β) (h : i < shapeSize s) :
    (((allPos s).map f).toArray).getD i d = f (unravelI s i) := by
  simp [Array.getD_eq_getD_getElem?, allPos, List.getElem?_map, List.getElem?_range h]

theorem filterAxisP_shape (F : Array K → Array K) (im : Img K) (axis : Nat) :
    (filterAxisP F im axis).shape = im.shape := by
  unfold filterAxisP
  by_cases hl : im.shape.getD axis 1 ≤ 1
  · simp only [hl, if_true]
  · simp only [hl, if_false]; rfl

/-- the line filter `F` as a function of the line, with the rule "an axis of length ≤ 1 is left alone" -/
def flOf (F : Array K → Array K) (len : Nat) (s : Nat → K) (k : Nat) : K :=
  if len ≤ 1 then s k else (F ((Array.range len).map s)).getD k 0

/-- the filter along one axis, on functions of the position -/
def axisFn (Fl : Nat → (Nat → K) → Nat → K) (shape : List Nat) (axis : Nat) (g : List Int → K) (p : List Int) : K :=
  Fl (shape.getD axis 1) (fun i => g (p.set axis ((i : Nat) : Int))) (p.getD axis 0).toNat

/-- **one axis**: `filterAxisP` at a position inside the array = the line filter applied to the line through it -/
theorem filterAxisP_getD (F : Array K → Array K) (im : Img K) (axis : Nat) (p : List Int)
    (hin : inside im.shape p = true) :
    (filterAxisP F im axis).getD p 0 = axisFn (flOf F) im.shape axis (fun q => im.getD q 0) p := by
  unfold filterAxisP axisFn flOf
  by_cases hl : im.shape.getD axis 1 ≤ 1
  · simp only [hl, if_true]
    rw [set_getD_self im.shape p axis hin]
  · simp only [hl, if_false]
    rw [tabulate_getD' _ _ _ _ hin]
    have hq : inside im.shape (p.set axis 0) = true :=
      inside_set im.shape p axis 0 hin (le_refl _) (by omega)
    rw [getD_map_allPos' im.shape _ _ _ (C04.ravelI_lt im.shape _ hq), C04.unravelI_ravelI im.shape _ hq,
      if_pos (getD_set_zero im.shape p axis hin hl)]
    have e : lineOf im axis (p.set axis 0) (im.shape.getD axis 1) = lineOf im axis p (im.shape.getD axis 1) := by
      unfold lineOf; simp only [List.set_set]
    rw [e]
    simp only [lineOf, Nat.cast_zero]

/-! ### all axes -/

theorem flOf_congr (F : Array K → Array K) (len : Nat) (s s' : Nat → K) (h : ∀ i, i < len → s i = s' i)
    (k : Nat) (hk : k < len) : flOf F len s k = flOf F len s' k := by
  unfold flOf
  by_cases hl : len ≤ 1
  · simp only [hl, if_true]; exact h k hk
  · simp only [hl, if_false]
    have : (Array.range len).map s = (Array.range len).map s' := by
      apply Array.map_congr_left
      intro i hi
      exact h i (by simpa using hi)
    rw [this]

theorem axisFn_congr (F : Array K → Array K) (shape : List Nat) (axis : Nat) (g g' : List Int → K)
    (h : ∀ q, inside shape q = true → g q = g' q) (p : List Int) (hin : inside shape p = true) :
    axisFn (flOf F) shape axis g p = axisFn (flOf F) shape axis g' p := by
  unfold axisFn
  have hb := getD_lt_of_inside shape p axis hin
  apply flOf_congr F _ _ _ _ _ (by omega)
  intro i hi
  exact h _ (inside_set shape p axis _ hin (by omega) (by omega))

theorem applyAxes_congr (F : Array K → Array K) (shape : List Nat) : ∀ (axes : List Nat) (g g' : List Int → K),
    (∀ q, inside shape q = true → g q = g' q) → ∀ p, inside shape p = true →
      axes.foldl (fun g a => axisFn (flOf F) shape a g) g p = axes.foldl (fun g a => axisFn (flOf F) shape a g) g' p := by
  intro axes
  induction axes with
  | nil => intro g g' h p hin; exact h p hin
  | cons a axes ih =>
    intro g g' h p hin
    simp only [List.foldl_cons]
    exact ih _ _ (fun q hq => axisFn_congr F shape a g g' h q hq) p hin

/-- **all axes, array level = function level** -/
theorem foldAxes_getD (F : Array K → Array K) : ∀ (axes : List Nat) (im : Img K),
    (axes.foldl (filterAxisP F) im).shape = im.shape ∧
    ∀ p, inside im.shape p = true →
      (axes.foldl (filterAxisP F) im).getD p 0
        = axes.foldl (fun g a => axisFn (flOf F) im.shape a g) (fun q => im.getD q 0) p := by
  intro axes
  induction axes with
  | nil => intro im; exact ⟨rfl, fun p _ => rfl⟩
  | cons a axes ih =>
    intro im
    simp only [List.foldl_cons]
    obtain ⟨hs, hg⟩ := ih (filterAxisP F im a)
    rw [filterAxisP_shape] at hs hg
    refine ⟨hs, ?_⟩
    intro p hin
    rw [hg p hin]
    exact applyAxes_congr F im.shape axes _ _ (fun q hq => filterAxisP_getD F im a q hq) p hin

/-! ### function level: axis by axis = `prefilterNd` -/

theorem applyAxes_tail (Fl : Nat → (Nat → K) → Nat → K) (len : Nat) (ls : List Nat) (i : Int) :
    ∀ (axes : List Nat) (g : List Int → K) (q : List Int),
      (axes.map (· + 1)).foldl (fun g a => axisFn Fl (len :: ls) a g) g (i :: q)
        = axes.foldl (fun g a => axisFn Fl ls a g) (fun q' => g (i :: q')) q := by
  intro axes
  induction axes with
  | nil => intro g q; rfl
  | cons a axes ih =>
    intro g q
    simp only [List.map_cons, List.foldl_cons]
    rw [ih]
    rfl

theorem applyAxes_eq_prefilterNd (Fl : Nat → (Nat → K) → Nat → K) : ∀ (shape : List Nat) (g : List Int → K)
    (p : List Int), p.length = shape.length →
      (List.range shape.length).foldl (fun g a => axisFn Fl shape a g) g p = prefilterNd Fl shape g p := by
  intro shape
  induction shape with
  | nil => intro g p _; rfl
  | cons len ls ih =>
    intro g p hl
    cases p with
    | nil => simp at hl
    | cons i q =>
      have hr : List.range (len :: ls).length = 0 :: (List.range ls.length).map (· + 1) := by
        simp [List.range_succ_eq_map]
      rw [hr, List.foldl_cons, applyAxes_tail Fl len ls i, ih _ q (by simpa using hl)]
      rfl

theorem prefilterNd_congr (F F' : Nat → (Nat → K) → Nat → K) : ∀ (shape : List Nat),
    (∀ len ∈ shape, ∀ (s : Nat → K) (k : Nat), k < len → F len s k = F' len s k) →
    ∀ (g : List Int → K) (p : List Int), inside shape p = true →
      prefilterNd F shape g p = prefilterNd F' shape g p := by
  intro shape
  induction shape with
  | nil => intro _ g p _; cases p <;> rfl
  | cons len ls ih =>
    intro h g p hin
    cases p with
    | nil => rfl
    | cons i q =>
      simp only [inside, Bool.and_eq_true, decide_eq_true_eq] at hin
      simp only [prefilterNd]
      rw [ih (fun l hl => h l (by simp [hl])) _ q hin.2]
      congr 1
      funext p'
      exact h len (by simp) _ _ (by omega)

/-- **the driver's prefilter is the separable prefilter of the theorems**: for a local initialisation rule, at every
    position inside the array `splineFilterP (filterLineP w ps ini)` holds `prefilterNd (lineFilterL w ps ini)` of the
    input samples, and the shape is kept -/
theorem splineFilterP_eq_prefilterNd (w : K) (ps : List K) (ini : K → Nat → (Nat → K) → K) (hini : IniLocal ini)
    (im : Img K) :
    (splineFilterP (filterLineP w ps ini) im).shape = im.shape ∧
    ∀ p, inside im.shape p = true →
      (splineFilterP (filterLineP w ps ini) im).getD p 0
        = prefilterNd (lineFilterL w ps ini) im.shape (fun q => im.getD q 0) p := by
  unfold splineFilterP
  obtain ⟨hs, hg⟩ := foldAxes_getD (filterLineP w ps ini) (List.range im.shape.length) im
  refine ⟨hs, ?_⟩
  intro p hin
  rw [hg p hin, applyAxes_eq_prefilterNd _ im.shape _ p (inside_length im.shape p hin).symm]
  apply prefilterNd_congr _ _ im.shape _ _ p hin
  intro len _ s k hk
  unfold flOf
  by_cases hl : len ≤ 1
  · simp only [hl, if_true, lineFilterL]
  · simp only [hl, if_false]
    obtain ⟨hsz, hv⟩ := filterLineP_spec w ps ini hini ((Array.range len).map s)
    have hsz' : ((Array.range len).map s).size = len := by simp
    rw [hv k (by omega), hsz']
    apply lineFilterL_congr w ps ini hini len _ _ _ k hk
    intro i hi
    exact getD_map_range len s i hi

/-! ### the code's initialisation rule is local -/

theorem foldl_range_congr {β : Type} (f g : β → Nat → β) : ∀ (n : Nat), (∀ b i, i < n → f b i = g b i) →
    ∀ b, (List.range n).foldl f b = (List.range n).foldl g b := by
  intro n
  induction n with
  | zero => intro _ b; rfl
  | succ n ih =>
    intro h b
    rw [List.range_succ, List.foldl_append, List.foldl_append, ih (fun b i hi => h b i (by omega)) b]
    simp only [List.foldl_cons, List.foldl_nil]
    exact h _ n (by omega)

theorem initTrunc_congr (z : K) (mx len : Nat) (hlen : 2 ≤ len) (hmx : mx ≤ len) (s s' : Nat → K)
    (h : ∀ k, k < len → s k = s' k) : initTrunc z mx s = initTrunc z mx s' := by
  unfold initTrunc
  rw [h 0 (by omega)]
  congr 1
  apply foldl_range_congr
  intro b i hi
  rw [h (i + 1) (by omega)]

theorem initFull_congr (z zp : K) (len : Nat) (hlen : 2 ≤ len) (s s' : Nat → K)
    (h : ∀ k, k < len → s k = s' k) : initFull z zp len s = initFull z zp len s' := by
  unfold initFull
  simp only []
  rw [h 0 (by omega), h (len - 1) (by omega)]
  have : (List.range (len - 2)).foldl (stepFull z (1 / z) s) (s' 0 + zp * s' (len - 1), z, zp * (zp * (1 / z)))
      = (List.range (len - 2)).foldl (stepFull z (1 / z) s') (s' 0 + zp * s' (len - 1), z, zp * (zp * (1 / z))) := by
    apply foldl_range_congr
    intro b i hi
    unfold stepFull
    rw [h (i + 1) (by omega)]
  simp only [Nat.cast_one] at this ⊢
  rw [this]

/-- the code's rule (`iniCode`: truncated sum below the cut, closed form otherwise) reads only the line, whatever
    the cut and the power function are -/
theorem iniCode_local (cut : K → Int) (pw : K → Nat → K) : IniLocal (iniCode cut pw) := by
  intro z len s s' hlen h
  unfold iniCode
  by_cases hc : cut z < (len : Int)
  · rw [if_pos hc, if_pos hc]
    exact initTrunc_congr z _ len hlen (by omega) s s' h
  · rw [if_neg hc, if_neg hc]
    exact initFull_congr z _ len hlen s s' h

/-- on a line where the cut is not below the length and `pw` is the exact power, the code's rule is the exact
    mirror-symmetric initial value -/
theorem iniCode_mirrorInit (cut : K → Int) (pw : K → Nat → K) (z : K) (hz : z ≠ 0) (len : Nat) (hlen : 2 ≤ len)
    (hcut : ¬ cut z < (len : Int)) (hpw : pw z (len - 1) = z ^ (len - 1))
    (hP : 1 - z ^ (len - 1) * z ^ (len - 1) ≠ 0) (s : Nat → K) :
    MirrorInit z len s (iniCode cut pw z len s) := by
  unfold iniCode
  rw [if_neg hcut, hpw]
  exact initFull_mirrorInit z hz len hlen hP s

/-- one pole: `lineFilterL` is `lineFilter1` -/
theorem lineFilterL_single (w z : K) (ini : K → Nat → (Nat → K) → K) :
    lineFilterL w [z] ini = lineFilter1 z w (ini z) := by
  funext len s k
  unfold lineFilterL lineFilter1
  by_cases hl : len ≤ 1
  · simp only [hl, if_true]
  · simp only [hl, if_false, List.foldl_cons, List.foldl_nil]
    have : (fun i => s i * w) = (fun i => w * s i) := by funext i; ring
    rw [this]

end Mahotas.C18
