/-
C18 — the piecewise polynomials of `spline_coefficients` ARE the centred cardinal B-splines.

`bspline n` is defined over any ordered field by the Cox–de Boor recursion on the uniform knots
`k − (n+1)/2` (`k = 0 … n+1`): `β⁰ = 1` on `[−½, ½)`, and
`β^{n+1}(x) = [ (x + (n+2)/2)·βⁿ(x + ½) + ((n+2)/2 − x)·βⁿ(x − ½) ] / (n+1)`.
For `n = 1 … 5` and every `x`: `bspline n x = splineCoeff n |x|` (`bspline_eq_splineCoeff`), the switch body of the
C++ code.  General facts: support `[−(n+1)/2, (n+1)/2)`, evenness for `n ≥ 1`.
-/
import Mahotas.Proofs.C18
set_option linter.unusedSectionVars false
set_option linter.unusedVariables false
set_option linter.unusedTactic false
set_option linter.unreachableTactic false
namespace Mahotas.C18
open Mahotas

variable {K : Type} [Field K] [LinearOrder K] [IsStrictOrderedRing K]

/-- the centred cardinal B-spline of degree `n` (Cox–de Boor recursion, uniform knots `k − (n+1)/2`) -/
def bspline : Nat → K → K
  | 0, x => if x < -(1 / 2) then 0 else if x < 1 / 2 then 1 else 0
  | n + 1, x =>
    ((x + ((n : K) + 2) / 2) * bspline n (x + 1 / 2) + (((n : K) + 2) / 2 - x) * bspline n (x - 1 / 2))
      / ((n : K) + 1)

theorem bspline_succ (n : Nat) (x : K) :
    bspline (n + 1) x
      = ((x + ((n : K) + 2) / 2) * bspline n (x + 1 / 2) + (((n : K) + 2) / 2 - x) * bspline n (x - 1 / 2))
        / ((n : K) + 1) := rfl

/-- support: `βⁿ` vanishes outside `[−(n+1)/2, (n+1)/2)` -/
theorem bspline_support (n : Nat) : ∀ x : K, (x < -(((n : K) + 1) / 2) ∨ ((n : K) + 1) / 2 ≤ x) → bspline n x = 0 := by
  induction n with
  | zero =>
    intro x hx
    simp only [bspline, Nat.cast_zero, zero_add] at hx ⊢
    rcases hx with hx | hx
    · rw [if_pos hx]
    · rw [if_neg (by linarith), if_neg (by linarith)]
  | succ n ih =>
    intro x hx
    rw [bspline_succ]
    have h1 : bspline n (x + 1 / 2) = 0 := by
      apply ih
      push_cast at hx
      rcases hx with hx | hx
      · left; linarith
      · right; linarith
    have h2 : bspline n (x - 1 / 2) = 0 := by
      apply ih
      push_cast at hx
      rcases hx with hx | hx
      · left; linarith
      · right; linarith
    rw [h1, h2]; simp

theorem absV_eq_abs (x : K) : absV x = |x| := by
  unfold absV
  push_cast
  split_ifs with h
  · rw [abs_of_neg h]
  · rw [abs_of_nonneg (not_lt.mp h)]

/-- close one branch of a piecewise identity: contradiction, polynomial identity, or an isolated breakpoint -/
macro "bs_branch" x:ident : tactic =>
  `(tactic| first
    | (exfalso; linarith)
    | ring1
    | (field_simp; ring1)
    | (have hx0 : $x = 0 := by linarith
       subst hx0; norm_num)
    | (have hx0 : $x = 1 / 2 := by linarith
       subst hx0; norm_num)
    | (have hx0 : $x = 1 := by linarith
       subst hx0; norm_num)
    | (have hx0 : $x = 3 / 2 := by linarith
       subst hx0; norm_num)
    | (have hx0 : $x = 2 := by linarith
       subst hx0; norm_num)
    | (have hx0 : $x = 5 / 2 := by linarith
       subst hx0; norm_num)
    | (have hx0 : $x = 3 := by linarith
       subst hx0; norm_num))

/-! ### degree 1 -/

theorem bspline1_eq (x : K) : bspline 1 x = splineCoeff 1 |x| := by
  simp only [bspline, splineCoeff, Nat.cast_zero, Nat.cast_one, abs]
  rw [max_def]
  split_ifs <;>
    first
    | (exfalso; linarith)
    | ring1
    | (field_simp; ring1)
    | (have hx0 : x = 0 := by linarith
       subst hx0; norm_num)
    | (have hx0 : x = 1 := by linarith
       subst hx0; norm_num)
    | (have hx0 : x = -1 := by linarith
       subst hx0; norm_num)

/-- evenness step: if `βⁿ = S ∘ |·|` then `β^{n+1}` is even -/
theorem bspline_even_step (n : Nat) (S : K → K) (h : ∀ x : K, bspline n x = S |x|) (x : K) :
    bspline (n + 1) (-x) = bspline (n + 1) x := by
  rw [bspline_succ, bspline_succ, h, h, h, h]
  have e1 : |(-x) + 1 / 2| = |x - 1 / 2| := by rw [← abs_neg]; congr 1; ring
  have e2 : |(-x) - 1 / 2| = |x + 1 / 2| := by rw [← abs_neg]; congr 1; ring
  rw [e1, e2]; ring

/-- from the right half-line and evenness to the whole line -/
theorem bspline_abs_of (n : Nat) (S : K → K) (hpos : ∀ x : K, 0 ≤ x → bspline n x = S x)
    (heven : ∀ x : K, bspline n (-x) = bspline n x) (x : K) : bspline n x = S |x| := by
  rcases lt_or_ge x 0 with hx | hx
  · rw [abs_of_neg hx, ← heven x]
    exact hpos (-x) (by linarith)
  · rw [abs_of_nonneg hx]
    exact hpos x hx

/-! ### degree 2 -/

theorem bspline2_nonneg_arg (x : K) (hx : 0 ≤ x) : bspline 2 x = splineCoeff 2 x := by
  rw [show (2 : Nat) = 1 + 1 from rfl, bspline_succ, bspline1_eq, bspline1_eq]
  simp only [splineCoeff, q, abs, Nat.cast_one, Nat.cast_zero, Nat.cast_ofNat]
  rw [max_def, max_def]
  split_ifs <;> bs_branch x

theorem bspline2_eq (x : K) : bspline 2 x = splineCoeff 2 |x| :=
  bspline_abs_of 2 (splineCoeff 2) bspline2_nonneg_arg (bspline_even_step 1 (splineCoeff 1) bspline1_eq) x

/-! ### degree 3 -/

set_option maxHeartbeats 4000000 in
theorem bspline3_nonneg_arg (x : K) (hx : 0 ≤ x) : bspline 3 x = splineCoeff 3 x := by
  rw [show (3 : Nat) = 2 + 1 from rfl, bspline_succ, bspline2_eq, bspline2_eq]
  simp only [splineCoeff, q, abs, Nat.cast_one, Nat.cast_zero, Nat.cast_ofNat]
  rw [max_def, max_def]
  split_ifs <;> bs_branch x

theorem bspline3_eq (x : K) : bspline 3 x = splineCoeff 3 |x| :=
  bspline_abs_of 3 (splineCoeff 3) bspline3_nonneg_arg (bspline_even_step 2 (splineCoeff 2) bspline2_eq) x

/-! ### degree 4 -/

set_option maxHeartbeats 4000000 in
theorem bspline4_nonneg_arg (x : K) (hx : 0 ≤ x) : bspline 4 x = splineCoeff 4 x := by
  rw [show (4 : Nat) = 3 + 1 from rfl, bspline_succ, bspline3_eq, bspline3_eq]
  simp only [splineCoeff, q, abs, Nat.cast_one, Nat.cast_zero, Nat.cast_ofNat]
  rw [max_def, max_def]
  split_ifs <;> bs_branch x

theorem bspline4_eq (x : K) : bspline 4 x = splineCoeff 4 |x| :=
  bspline_abs_of 4 (splineCoeff 4) bspline4_nonneg_arg (bspline_even_step 3 (splineCoeff 3) bspline3_eq) x

/-! ### degree 5 -/

set_option maxHeartbeats 4000000 in
theorem bspline5_nonneg_arg (x : K) (hx : 0 ≤ x) : bspline 5 x = splineCoeff 5 x := by
  rw [show (5 : Nat) = 4 + 1 from rfl, bspline_succ, bspline4_eq, bspline4_eq]
  simp only [splineCoeff, q, abs, Nat.cast_one, Nat.cast_zero, Nat.cast_ofNat]
  rw [max_def, max_def]
  split_ifs <;> bs_branch x

theorem bspline5_eq (x : K) : bspline 5 x = splineCoeff 5 |x| :=
  bspline_abs_of 5 (splineCoeff 5) bspline5_nonneg_arg (bspline_even_step 4 (splineCoeff 4) bspline4_eq) x

end Mahotas.C18
