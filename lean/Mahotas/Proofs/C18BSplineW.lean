/-
C18 — the weights `spline_coefficients` computes are the values of the cardinal B-spline at the distances to the
knots, the knots cover the whole support, and the weights of order 5 at integer coordinates.
-/
import Mahotas.Proofs.C18BSpline
import Mahotas.Proofs.C18Tensor
set_option linter.unusedSectionVars false
set_option linter.unusedVariables false
namespace Mahotas.C18
open Mahotas

variable {K : Type} [Field K] [LinearOrder K] [IsStrictOrderedRing K]

/-- for the orders `spline_coefficients` implements, its switch body is the cardinal B-spline -/
theorem bspline_eq_splineCoeff (order : Nat) (h1 : 1 ≤ order) (h5 : order ≤ 5) (x : K) :
    bspline order x = splineCoeff order (absV x) := by
  rw [absV_eq_abs]
  have : order = 1 ∨ order = 2 ∨ order = 3 ∨ order = 4 ∨ order = 5 := by omega
  rcases this with rfl | rfl | rfl | rfl | rfl
  · exact bspline1_eq x
  · exact bspline2_eq x
  · exact bspline3_eq x
  · exact bspline4_eq x
  · exact bspline5_eq x

theorem bspline_even (order : Nat) (h1 : 1 ≤ order) (h5 : order ≤ 5) (x : K) :
    bspline order (-x) = bspline order x := by
  rw [bspline_eq_splineCoeff order h1 h5, bspline_eq_splineCoeff order h1 h5, absV_eq_abs, absV_eq_abs, abs_neg]

/-- weight `h` of `spline_coefficients(x)` is `βⁿ(x − (start + h))` -/
theorem weights_eq_bspline (fl : K → Int) (order : Nat) (h1 : 1 ≤ order) (h5 : order ≤ 5) (x : K) :
    weights fl order x
      = (List.range (order + 1)).map fun h =>
          bspline order (x - ((startIdx fl order x + ((h : Nat) : Int) : Int) : K)) := by
  unfold weights
  apply List.map_congr_left
  intro h _
  rw [← bspline_eq_splineCoeff order h1 h5, ← bspline_even order h1 h5]
  congr 1
  push_cast
  ring

/-- the `order + 1` knots `start … start + order` cover the support of `βⁿ(x − ·)`: at every other integer knot
    the B-spline vanishes (every order; `start` as the code computes it) -/
theorem bspline_outside_knots {fl : K → Int} (h : IsFloor fl) (order : Nat) (x : K) (k : Int)
    (hk : k < startIdx fl order x ∨ startIdx fl order x + (order : Int) < k) :
    bspline order (x - (k : K)) = 0 := by
  apply bspline_support
  rcases Nat.even_or_odd' order with ⟨m, rfl | rfl⟩
  · have hs : startIdx fl (2 * m) x = fl (x + 1 / 2) - (m : Int) := by
      have e1 : ¬ (2 * m % 2 = 1) := by omega
      have e2 : 2 * m / 2 = m := by omega
      simp only [startIdx, e1, if_false, e2, q_half]
    obtain ⟨a, b⟩ := h (x + 1 / 2)
    rw [hs] at hk
    rcases hk with hk | hk
    · right
      have hk' : k ≤ fl (x + 1 / 2) - (m : Int) - 1 := by omega
      have : (k : K) ≤ ((fl (x + 1 / 2) : Int) : K) - (m : K) - 1 := by exact_mod_cast hk'
      push_cast
      linarith
    · left
      have hk' : fl (x + 1 / 2) - (m : Int) + ((2 * m : Nat) : Int) + 1 ≤ k := by omega
      have : ((fl (x + 1 / 2) : Int) : K) - (m : K) + 2 * (m : K) + 1 ≤ (k : K) := by exact_mod_cast hk'
      push_cast
      linarith
  · have hs : startIdx fl (2 * m + 1) x = fl x - (m : Int) := by
      have e1 : (2 * m + 1) % 2 = 1 := by omega
      have e2 : (2 * m + 1) / 2 = m := by omega
      simp only [startIdx, e1, if_true, e2]
    obtain ⟨a, b⟩ := h x
    rw [hs] at hk
    rcases hk with hk | hk
    · right
      have hk' : k ≤ fl x - (m : Int) - 1 := by omega
      have : (k : K) ≤ ((fl x : Int) : K) - (m : K) - 1 := by exact_mod_cast hk'
      push_cast
      linarith
    · left
      have hk' : fl x - (m : Int) + ((2 * m + 1 : Nat) : Int) + 1 ≤ k := by omega
      have : ((fl x : Int) : K) - (m : K) + (2 * (m : K) + 1) + 1 ≤ (k : K) := by exact_mod_cast hk'
      push_cast
      linarith

/-- knots and B-spline values of every axis at the coordinates `cs` (as `splineAxes`, with the weights written as
    values of the cardinal B-spline) -/
def bsplineAxes (fl : K → Int) (order : Nat) : List Nat → List K → List (List Int × List K)
  | len :: ls, c :: cs =>
    ((List.range (order + 1)).map (fun h => edgeFold len (startIdx fl order c + (h : Nat))),
      (List.range (order + 1)).map fun h => bspline order (c - ((startIdx fl order c + ((h : Nat) : Int) : Int) : K)))
      :: bsplineAxes fl order ls cs
  | _, _ => []

theorem splineAxes_eq_bsplineAxes (fl : K → Int) (order : Nat) (h1 : 1 ≤ order) (h5 : order ≤ 5) :
    ∀ (shape : List Nat) (cs : List K), splineAxes fl order shape cs = bsplineAxes fl order shape cs := by
  intro shape
  induction shape with
  | nil => intro cs; simp [splineAxes, bsplineAxes]
  | cons len ls ih =>
    intro cs
    cases cs with
    | nil => simp [splineAxes, bsplineAxes]
    | cons c cs => simp only [splineAxes, bsplineAxes, weights_eq_bspline fl order h1 h5 c, ih cs]

/-- the weights of order 5 at an integer coordinate: the quintic B-spline sampled at the integers -/
theorem weights_int5 {fl : K → Int} (h : IsFloor fl) (n : Int) :
    weights fl 5 (n : K) = [1 / 120, 13 / 60, 11 / 20, 13 / 60, 1 / 120, 0] := by
  have r : List.range (5 + 1) = [0, 1, 2, 3, 4, 5] := rfl
  have s : startIdx fl 5 (n : K) = n - 2 := by simp [startIdx, h.int]
  simp only [weights, r, s, List.map_cons, List.map_nil]
  have e0 : (((n - 2 : Int) : K) - (n : K) + ((0 : Nat) : K)) = -2 := by push_cast; ring
  have e1 : (((n - 2 : Int) : K) - (n : K) + ((1 : Nat) : K)) = -1 := by push_cast; ring
  have e2 : (((n - 2 : Int) : K) - (n : K) + ((2 : Nat) : K)) = 0 := by push_cast; ring
  have e3 : (((n - 2 : Int) : K) - (n : K) + ((3 : Nat) : K)) = 1 := by push_cast; ring
  have e4 : (((n - 2 : Int) : K) - (n : K) + ((4 : Nat) : K)) = 2 := by push_cast; ring
  have e5 : (((n - 2 : Int) : K) - (n : K) + ((5 : Nat) : K)) = 3 := by push_cast; ring
  rw [e0, e1, e2, e3, e4, e5]
  norm_num [splineCoeff, absV, q]

end Mahotas.C18
