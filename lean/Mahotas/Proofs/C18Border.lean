/-
C18 — integer coordinates anywhere (inside the array or sent inside by the border rule) and the corners of a zoom:
`pixel.go` in general (`go_general`: the per-axis border handling `mapCoord` first, then the knots and weights at the
mapped coordinates), the mapped coordinates of an integer coordinate vector (`mapCoords_int`: the mathematical border
rule `specPos`, coordinate-wise), and the n-D coordinate vector of a corner of `zoom`.
-/
import Mahotas.Proofs.C18Interp45
set_option linter.unusedSectionVars false
set_option linter.unusedVariables false
namespace Mahotas.C18
open Mahotas

variable {K : Type} [Field K] [LinearOrder K] [IsStrictOrderedRing K]

/-- the border handling of `zoom_shift` along every axis (`none`: some axis is flagged, the pixel gets `cval`) -/
def mapCoords (fl : K → Int) (m : Mode) : List Nat → List K → Option (List K)
  | len :: ls, c :: cs =>
    match mapCoord fl m len c, mapCoords fl m ls cs with
    | some a, some as => some (a :: as)
    | _, _ => none
  | _, _ => some []

/-- what `pixel.go` precomputes, for any coordinates: knots and weights at the coordinates the border handling maps
    them to -/
theorem go_general (fl : K → Int) (order : Nat) (m : Mode) :
    ∀ (shape : List Nat) (p : List Int) (ss zs : List (Option K)),
      pixel.go fl order m shape p ss zs
        = (mapCoords fl m shape (coordsOf shape p ss zs)).map (splineAxes fl order shape) := by
  intro shape
  induction shape with
  | nil => intro p ss zs; simp [pixel.go, mapCoords, splineAxes]
  | cons len ls ih =>
    intro p ss zs
    cases p with
    | nil => simp [pixel.go, coordsOf, mapCoords, splineAxes]
    | cons kk ks =>
      cases ss with
      | nil => simp [pixel.go, coordsOf, mapCoords, splineAxes]
      | cons s ss =>
        cases zs with
        | nil => simp [pixel.go, coordsOf, mapCoords, splineAxes]
        | cons z zs =>
          simp only [pixel.go, coordsOf, mapCoords, axisEntry, ih ks ss zs]
          cases mapCoord fl m len (coord kk.toNat s z) with
          | none => simp
          | some a =>
            cases mapCoords fl m ls (coordsOf ls ks ss zs) with
            | none => simp
            | some as => simp [splineAxes]

/-- `pixel` for any coordinates: `cval` when an axis is flagged, otherwise the nested tensor-product sum at the
    mapped coordinates -/
theorem pixel_general (fl : K → Int) (order : Nat) (m : Mode) (cval : K) (im : Img K)
    (shifts zooms : List (Option K)) (p : List Int) :
    pixel fl order m cval im shifts zooms p
      = match mapCoords fl m im.shape (coordsOf im.shape p shifts zooms) with
        | none => cval
        | some cs => nestedSum (fun pos => im.getD pos 0) (splineAxes fl order im.shape cs) := by
  unfold pixel
  rw [go_general fl order m im.shape p shifts zooms]
  cases mapCoords fl m im.shape (coordsOf im.shape p shifts zooms) with
  | none => rfl
  | some cs =>
    simp only [Option.map_some]
    have := tensorSum_eq_sum (fun pos => im.getD pos (0 : K)) (splineAxes fl order im.shape cs)
    simp only [Nat.cast_zero] at this ⊢
    rw [this]
    exact flat_eq_nested (splineAxes fl order im.shape cs) (fun pos => im.getD pos (0 : K))

theorem fixOffset_inside (m : Mode) (n len : Int) (h0 : 0 ≤ n) (h1 : n < len) : fixOffset m n len = some n := by
  have a : ¬ n < 0 := by omega
  have b : ¬ n ≥ len := by omega
  cases m <;> simp [fixOffset, a, b]

/-- an integer coordinate goes through the border rule of the mode (the mathematical `borderSpec`): inside the array
    it stays, outside it is sent to the sample the mode names, or flagged -/
theorem mapCoord_int_spec {fl : K → Int} (h : IsFloor fl) (m : Mode) (len : Nat) (hlen : 0 < len) (n : Int) :
    mapCoord fl m len (n : K) = (borderSpec m n len).map (fun (i : Int) => (i : K)) := by
  rw [mapCoord_int h, ← fixOffset_eq_spec m n len (by exact_mod_cast hlen)]
  by_cases c : 0 ≤ n ∧ n ≤ (len : Int) - 1
  · rw [if_pos c, fixOffset_inside m n len c.1 (by omega)]; rfl
  · rw [if_neg c]

theorem mapCoords_int {fl : K → Int} (h : IsFloor fl) (m : Mode) :
    ∀ (shape : List Nat) (js : List Int), (∀ len ∈ shape, 0 < len) →
      mapCoords fl m shape (js.map fun (j : Int) => (j : K))
        = (specPos m shape js).map (fun js' => js'.map fun (j : Int) => (j : K)) := by
  intro shape
  induction shape with
  | nil => intro js _; cases js <;> simp [mapCoords, specPos]
  | cons len ls ih =>
    intro js hpos
    cases js with
    | nil => simp [mapCoords, specPos]
    | cons j js =>
      simp only [List.map_cons, mapCoords, specPos, mapCoord_int_spec h m len (hpos len (by simp)) j,
        ih js (fun l hl => hpos l (by simp [hl]))]
      cases borderSpec m j len with
      | none => simp
      | some a =>
        cases specPos m ls js with
        | none => simp
        | some as => simp

theorem specPos_inside (m : Mode) : ∀ (shape : List Nat) (js js' : List Int), (∀ len ∈ shape, 0 < len) →
    js.length = shape.length → specPos m shape js = some js' → inside shape js' = true := by
  intro shape
  induction shape with
  | nil =>
    intro js js' _ hl hs
    cases js with
    | nil => simp [specPos] at hs; subst hs; rfl
    | cons j js => simp at hl
  | cons len ls ih =>
    intro js js' hpos hl hs
    cases js with
    | nil => simp at hl
    | cons j js =>
      simp only [specPos] at hs
      cases hb : borderSpec m j len with
      | none => rw [hb] at hs; simp at hs
      | some a =>
        cases hr : specPos m ls js with
        | none => rw [hb, hr] at hs; simp at hs
        | some as =>
          rw [hb, hr] at hs
          simp only [Option.some.injEq] at hs
          subst hs
          have rg := borderSpec_range m j len (by exact_mod_cast hpos len (by simp)) a hb
          simp only [inside, Bool.and_eq_true, decide_eq_true_eq]
          exact ⟨⟨rg.1, rg.2⟩, ih js as (fun l hl' => hpos l (by simp [hl'])) (by simpa using hl) hr⟩

theorem specPos_length (m : Mode) : ∀ (shape : List Nat) (js js' : List Int),
    js.length = shape.length → specPos m shape js = some js' → js'.length = shape.length := by
  intro shape
  induction shape with
  | nil =>
    intro js js' hl hs
    cases js with
    | nil => simp [specPos] at hs; subst hs; rfl
    | cons j js => simp at hl
  | cons len ls ih =>
    intro js js' hl hs
    cases js with
    | nil => simp at hl
    | cons j js =>
      simp only [specPos] at hs
      cases hb : borderSpec m j len with
      | none => rw [hb] at hs; simp at hs
      | some a =>
        cases hr : specPos m ls js with
        | none => rw [hb, hr] at hs; simp at hs
        | some as =>
          rw [hb, hr] at hs
          simp only [Option.some.injEq] at hs
          subst hs
          simp [ih js as (by simpa using hl) hr]

/-- **integer coordinates anywhere**: if at every integer position `js'` inside the array the nested sum over the
    coefficient function `c` (which agrees with the image inside the array) returns `f js'` (`hcore`: the
    interpolation property inside the array), then at an output position whose coordinates are **any** integer
    vector `js`, `pixel` returns `f` at the position the border rule assigns to `js`, or `cval` -/
theorem pixel_border_of_core {fl : K → Int} (h : IsFloor fl) (order : Nat) (m : Mode) (cval : K) (im : Img K)
    (shifts zooms : List (Option K)) (p js : List Int) (hpos : ∀ len ∈ im.shape, 0 < len)
    (hl : js.length = im.shape.length)
    (hc : coordsOf im.shape p shifts zooms = js.map fun (j : Int) => (j : K))
    (f : List Int → K)
    (hcore : ∀ js', inside im.shape js' = true →
      nestedSum (fun pos => im.getD pos 0) (splineAxes fl order im.shape (js'.map fun (j : Int) => (j : K))) = f js') :
    pixel fl order m cval im shifts zooms p
      = match specPos m im.shape js with
        | some js' => f js'
        | none => cval := by
  rw [pixel_general, hc, mapCoords_int h m im.shape js hpos]
  cases hs : specPos m im.shape js with
  | none => rfl
  | some js' =>
    simp only [Option.map_some]
    exact hcore js' (specPos_inside m im.shape js js' hpos hl hs)

/-- the nested sum at an integer position inside the array only reads the array inside -/
theorem nestedSum_inside (fl : K → Int) (order : Nat) (im : Img K) (js : List Int)
    (hpos : ∀ len ∈ im.shape, 0 < len) (hin : inside im.shape js = true)
    (c : List Int → K) (hdata : ∀ pos, inside im.shape pos = true → im.getD pos 0 = c pos) :
    nestedSum (fun pos => im.getD pos 0) (splineAxes fl order im.shape (js.map fun (j : Int) => (j : K)))
      = nestedSum c (splineAxes fl order im.shape (js.map fun (j : Int) => (j : K))) := by
  apply nestedSum_congr
  intro pos hp
  apply hdata
  exact splineAxes_knots_inside fl order im.shape _ pos hpos
    (by rw [List.length_map]; exact inside_length im.shape js hin) hp

/-! ### order 1: no prefilter -/

theorem prefilterNd_id : ∀ (shape : List Nat) (g : List Int → K) (js : List Int), inside shape js = true →
    prefilterNd (fun _ s => s) shape g js = g js := by
  intro shape
  induction shape with
  | nil => intro g js _; cases js <;> rfl
  | cons len ls ih =>
    intro g js hin
    cases js with
    | nil => rfl
    | cons j js =>
      simp only [inside, Bool.and_eq_true, decide_eq_true_eq] at hin
      simp only [prefilterNd]
      rw [ih _ js hin.2, Int.toNat_of_nonneg hin.1.1]

theorem axisComb1 {fl : K → Int} (h : IsFloor fl) (len : Nat) (c : Int → K) (j : Int) :
    axisComb fl 1 len c j = c (edgeFold len j) := by
  have r : List.range (1 + 1) = [0, 1] := rfl
  obtain ⟨s1, s2⟩ := axisEntry_int1 h len j
  have e0 : j + ((0 : Nat) : Int) = j := by omega
  simp only [axisComb, r, s1, s2, List.map_cons, List.map_nil, List.zip_cons_cons, List.zip_nil_right,
    List.sum_cons, List.sum_nil, e0]
  ring

/-- order 1 at an integer position inside the array: the sample itself, any rank -/
theorem core_order1 {fl : K → Int} (h : IsFloor fl) (im : Img K) (hpos : ∀ len ∈ im.shape, 0 < len)
    (js : List Int) (hin : inside im.shape js = true) :
    nestedSum (fun pos => im.getD pos 0) (splineAxes fl 1 im.shape (js.map fun (j : Int) => (j : K)))
      = im.getD js 0 := by
  rw [nestedSum_inside fl 1 im js hpos hin (prefilterNd (fun _ s => s) im.shape (fun pos => im.getD pos 0))
    (fun pos hp => (prefilterNd_id im.shape (fun pos => im.getD pos (0 : K)) pos hp).symm)]
  apply nested_prefilter fl 1 _ im.shape js _ _ hin
  intro len hlen s j h0 h1
  rw [axisComb1 h, edgeFold_inside len j h0 h1]

/-! ### the corners of a zoom -/

/-- `p` is a corner of the output box: every index is 0 or the last one (of an axis with at least two samples) -/
def IsCorner : List Nat → List Int → Prop
  | nout :: os, p :: ps => (p = 0 ∨ (2 ≤ nout ∧ p = (nout : Int) - 1)) ∧ IsCorner os ps
  | [], [] => True
  | _, _ => False

/-- the corner of the input box that corresponds to the output corner `p` -/
def cornerSrc : List Nat → List Int → List Int
  | nin :: ns, p :: ps => (if p = 0 then 0 else (nin : Int) - 1) :: cornerSrc ns ps
  | _, _ => []

theorem coordsOf_corner : ∀ (shape oshape : List Nat) (p : List Int), shape.length = oshape.length →
    IsCorner oshape p →
    coordsOf shape p (oshape.map fun _ => (none : Option K))
        ((shape.zip oshape).map fun io => some (zoomFactor io.1 io.2 : K))
      = (cornerSrc shape p).map fun (j : Int) => (j : K) := by
  intro shape
  induction shape with
  | nil =>
    intro oshape p hl hc
    cases oshape with
    | nil => cases p <;> simp [coordsOf, cornerSrc]
    | cons o os => simp at hl
  | cons nin ns ih =>
    intro oshape p hl hc
    cases oshape with
    | nil => simp at hl
    | cons o os =>
      cases p with
      | nil => simp [IsCorner] at hc
      | cons kk ks =>
        simp only [IsCorner] at hc
        obtain ⟨hk, hrest⟩ := hc
        simp only [List.map_cons, List.zip_cons_cons, coordsOf, cornerSrc]
        rw [ih os ks (by simpa using hl) hrest]
        congr 1
        rcases hk with rfl | ⟨h2, rfl⟩
        · simp only [Int.toNat_zero, if_true, Int.cast_zero]
          exact zoomFactor_origin _
        · have e : ((o : Int) - 1).toNat = o - 1 := by omega
          have ne : ¬ ((o : Int) - 1 = 0) := by omega
          rw [e, if_neg ne]
          exact zoomFactor_corner nin o h2

theorem cornerSrc_inside : ∀ (shape oshape : List Nat) (p : List Int), shape.length = oshape.length →
    IsCorner oshape p → (∀ len ∈ shape, 0 < len) → inside shape (cornerSrc shape p) = true := by
  intro shape
  induction shape with
  | nil =>
    intro oshape p hl hc _
    cases oshape with
    | nil => cases p <;> simp [cornerSrc, inside]
    | cons o os => simp at hl
  | cons nin ns ih =>
    intro oshape p hl hc hpos
    cases oshape with
    | nil => simp at hl
    | cons o os =>
      cases p with
      | nil => simp [IsCorner] at hc
      | cons kk ks =>
        simp only [IsCorner] at hc
        have hn := hpos nin (by simp)
        simp only [cornerSrc, inside, Bool.and_eq_true, decide_eq_true_eq]
        refine ⟨?_, ih os ks (by simpa using hl) hc.2 (fun l hl' => hpos l (by simp [hl']))⟩
        split_ifs <;> omega

end Mahotas.C18

namespace Mahotas.C18
theorem isCorner_inside : ∀ (oshape : List Nat) (p : List Int), IsCorner oshape p → (∀ n ∈ oshape, 0 < n) →
    inside oshape p = true := by
  intro oshape
  induction oshape with
  | nil => intro p hc _; cases p with
    | nil => rfl
    | cons k ks => simp [IsCorner] at hc
  | cons o os ih =>
    intro p hc hpos
    cases p with
    | nil => simp [IsCorner] at hc
    | cons kk ks =>
      simp only [IsCorner] at hc
      have ho := hpos o (by simp)
      simp only [inside, Bool.and_eq_true, decide_eq_true_eq]
      refine ⟨?_, ih ks hc.2 (fun n hn => hpos n (by simp [hn]))⟩
      rcases hc.1 with rfl | ⟨h2, rfl⟩ <;> omega
end Mahotas.C18

namespace Mahotas.C18
/-- on an axis with a single sample every knot folds to that sample -/
theorem edgeFold_one (x : Int) : edgeFold 1 x = 0 := by
  unfold edgeFold fixOffset
  by_cases a : x < 0
  · simp [a]
  · by_cases b : x ≥ ((1 : Nat) : Int)
    · have b' : (1 : Int) ≤ x := by simpa using b
      simp [a, b']
    · have : x = 0 := by omega
      subst this
      simp
end Mahotas.C18

namespace Mahotas.C18
variable {K : Type} [Field K] [LinearOrder K] [IsStrictOrderedRing K]

/-- inside the array every border rule is the identity -/
theorem specPos_of_inside (m : Mode) : ∀ (shape : List Nat) (js : List Int), inside shape js = true →
    specPos m shape js = some js := by
  intro shape
  induction shape with
  | nil => intro js h; cases js <;> simp_all [inside, specPos]
  | cons len ls ih =>
    intro js h
    cases js with
    | nil => simp [inside] at h
    | cons j js =>
      simp only [inside, Bool.and_eq_true, decide_eq_true_eq] at h
      have hb : borderSpec m j len = some j := by
        rw [← fixOffset_eq_spec m j len (by omega)]
        exact fixOffset_inside m j len h.1.1 h.1.2
      simp only [specPos, hb, ih js h.2]

/-- zero shift: every output position reads its own coordinates -/
theorem coordsOf_zero_shift : ∀ (shape sh : List Nat) (p : List Int), inside shape p = true →
    sh.length = shape.length →
    coordsOf shape p ((sh.map fun _ => (0 : K)).map fun s => some (-s)) ((sh.map fun _ => (0 : K)).map fun _ => none)
      = p.map fun (j : Int) => (j : K) := by
  intro shape
  induction shape with
  | nil => intro sh p h _; cases p <;> cases sh <;> simp_all [coordsOf, inside]
  | cons len ls ih =>
    intro sh p h hl
    cases p with
    | nil => simp [inside] at h
    | cons kk ks =>
      cases sh with
      | nil => simp at hl
      | cons s ss =>
        simp only [inside, Bool.and_eq_true, decide_eq_true_eq] at h
        simp only [List.map_cons, coordsOf]
        rw [ih ss ks h.2 (by simpa using hl)]
        congr 1
        simp only [coord, natCast_toNat kk h.1.1]
        ring

/-- unit zoom: every output position reads its own coordinates -/
theorem coordsOf_unit_zoom : ∀ (shape : List Nat) (p : List Int), inside shape p = true →
    coordsOf shape p (shape.map fun _ => (none : Option K))
        ((shape.zip shape).map fun io => some (zoomFactor io.1 io.2 : K))
      = p.map fun (j : Int) => (j : K) := by
  intro shape
  induction shape with
  | nil => intro p h; cases p <;> simp_all [coordsOf, inside]
  | cons len ls ih =>
    intro p h
    cases p with
    | nil => simp [inside] at h
    | cons kk ks =>
      simp only [inside, Bool.and_eq_true, decide_eq_true_eq] at h
      simp only [List.map_cons, List.zip_cons_cons, coordsOf]
      rw [ih ks h.2, zoomFactor_unit len kk.toNat, natCast_toNat kk h.1.1]
end Mahotas.C18
