/-
C18 — the one-pole recursive prefilter (`causal`, `anticausalRev`, `onePole` of `Model/C18.lean`)
inverts the sampled B-spline at every sample but the first, for any initial value of the causal pass.
-/
import Mahotas.Model.C18
import Mathlib.Tactic.Ring
import Mathlib.Tactic.FieldSimp
import Mathlib.Tactic.LinearCombination
namespace Mahotas.C18
open Mahotas

variable {K : Type} [Field K]

/-- interior samples: `c[k−1] + λ·c[k] + c[k+1] = s[k]` for `1 ≤ k ≤ n−2` when `z² + λz + 1 = 0`,
    whatever the first value `c0` of the causal pass -/
theorem onePole_interior (z lam c0 : K) (hz : z * z + lam * z + 1 = 0) (n : Nat) (s : Nat → K)
    (k : Nat) (h1 : 1 ≤ k) (h2 : k + 2 ≤ n) :
    onePole z c0 n s (k - 1) + lam * onePole z c0 n s k + onePole z c0 n s (k + 1) = s k := by
  obtain ⟨k', rfl⟩ : ∃ k', k = k' + 1 := ⟨k - 1, by omega⟩
  obtain ⟨j, hj⟩ : ∃ j, n = k' + 1 + 2 + j := ⟨n - (k' + 1 + 2), by omega⟩
  subst hj
  have e1 : k' + 1 + 2 + j - 1 - (k' + 1 - 1) = j + 2 := by omega
  have e2 : k' + 1 + 2 + j - 1 - (k' + 1) = j + 1 := by omega
  have e3 : k' + 1 + 2 + j - 1 - (k' + 1 + 1) = j := by omega
  simp only [onePole, e1, e2, e3]
  have a1 : k' + 1 + 2 + j - 2 - (j + 1) = k' := by omega
  have a2 : k' + 1 + 2 + j - 2 - j = k' + 1 := by omega
  simp only [anticausalRev, a1, a2, causal]
  generalize anticausalRev z (k' + 1 + 2 + j) (causal z c0 s) j = A
  generalize causal z c0 s k' = C
  linear_combination (A - (s (k' + 1) + z * C)) * hz

/-- the last sample, with the mirror boundary `c[n] = c[n−2]`: `2·c[n−2] + λ·c[n−1] = s[n−1]` -/
theorem onePole_last (z lam c0 : K) (hz : z * z + lam * z + 1 = 0) (hz1 : z * z - 1 ≠ 0) (n : Nat)
    (hn : 2 ≤ n) (s : Nat → K) :
    2 * onePole z c0 n s (n - 2) + lam * onePole z c0 n s (n - 1) = s (n - 1) := by
  obtain ⟨m, rfl⟩ : ∃ m, n = m + 2 := ⟨n - 2, by omega⟩
  have e1 : m + 2 - 1 - (m + 2 - 2) = 0 + 1 := by omega
  have e2 : m + 2 - 1 - (m + 2 - 1) = 0 := by omega
  simp only [onePole, e1, e2]
  have a1 : m + 2 - 2 - 0 = m := by omega
  have a2 : m + 2 - 1 = m + 1 := by omega
  have a3 : m + 2 - 2 = m := by omega
  simp only [anticausalRev, a2, a3, causal, Nat.cast_one]
  generalize causal z c0 s m = b
  have hd : z / (z * z - 1) * (s (m + 1) + z * b + z * b) * (z * z - 1) = z * (s (m + 1) + z * b + z * b) := by
    have h0 : z / (z * z - 1) * (z * z - 1) = z := div_mul_cancel₀ z hz1
    calc z / (z * z - 1) * (s (m + 1) + z * b + z * b) * (z * z - 1)
        = (z / (z * z - 1) * (z * z - 1)) * (s (m + 1) + z * b + z * b) := by ring
      _ = z * (s (m + 1) + z * b + z * b) := by rw [h0]
  generalize z / (z * z - 1) * (s (m + 1) + z * b + z * b) = d0 at hd ⊢
  apply mul_right_cancel₀ hz1
  linear_combination (2 * z + lam) * hd + (s (m + 1) + z * b + z * b) * hz

/-- `weight = (1 − z)(1 − 1/z) = 2 + λ` for a root of `z² + λz + 1` (`init_poles`) -/
theorem poleWeight_eq (z lam : K) (hz : z * z + lam * z + 1 = 0) : (1 - z) * (1 - 1 / z) = 2 + lam := by
  have hz0 : z ≠ 0 := by
    rintro rfl
    simp at hz
  field_simp
  linear_combination (-1 : K) * hz

/-! ### two poles (order 4): the second pass runs on the output of the first -/

/-- interior samples `2 ≤ k ≤ n−3` -/
theorem twoPole_interior (z1 z2 l1 l2 c1 c2 : K) (h1 : z1 * z1 + l1 * z1 + 1 = 0)
    (h2 : z2 * z2 + l2 * z2 + 1 = 0) (n : Nat) (s : Nat → K) (k : Nat) (hk : 2 ≤ k) (hk' : k + 3 ≤ n) :
    let c := onePole z2 c2 n (onePole z1 c1 n s)
    c (k - 2) + (l1 + l2) * c (k - 1) + (2 + l1 * l2) * c k + (l1 + l2) * c (k + 1) + c (k + 2) = s k := by
  intro c
  have u0 := onePole_interior z1 l1 c1 h1 n s k (by omega) (by omega)
  have a := onePole_interior z2 l2 c2 h2 n (onePole z1 c1 n s) (k - 1) (by omega) (by omega)
  have b := onePole_interior z2 l2 c2 h2 n (onePole z1 c1 n s) k (by omega) (by omega)
  have d := onePole_interior z2 l2 c2 h2 n (onePole z1 c1 n s) (k + 1) (by omega) (by omega)
  have e1 : k - 1 - 1 = k - 2 := by omega
  have e2 : k - 1 + 1 = k := by omega
  have e3 : k + 1 - 1 = k := by omega
  have e4 : k + 1 + 1 = k + 2 := by omega
  rw [e1, e2] at a
  rw [e3, e4] at d
  show onePole z2 c2 n (onePole z1 c1 n s) (k - 2) + (l1 + l2) * onePole z2 c2 n (onePole z1 c1 n s) (k - 1)
      + (2 + l1 * l2) * onePole z2 c2 n (onePole z1 c1 n s) k
      + (l1 + l2) * onePole z2 c2 n (onePole z1 c1 n s) (k + 1) + onePole z2 c2 n (onePole z1 c1 n s) (k + 2) = s k
  linear_combination u0 + a + l1 * b + d

/-- the last two samples, with the mirrored knots `c[n] = c[n−2]`, `c[n+1] = c[n−3]` -/
theorem twoPole_last (z1 z2 l1 l2 c1 c2 : K) (h1 : z1 * z1 + l1 * z1 + 1 = 0)
    (h2 : z2 * z2 + l2 * z2 + 1 = 0) (hz1 : z1 * z1 - 1 ≠ 0) (hz2 : z2 * z2 - 1 ≠ 0)
    (n : Nat) (hn : 4 ≤ n) (s : Nat → K) :
    let c := onePole z2 c2 n (onePole z1 c1 n s)
    (c (n - 4) + (l1 + l2) * c (n - 3) + (2 + l1 * l2) * c (n - 2) + (l1 + l2) * c (n - 1) + c (n - 2) = s (n - 2)) ∧
    (c (n - 3) + (l1 + l2) * c (n - 2) + (2 + l1 * l2) * c (n - 1) + (l1 + l2) * c (n - 2) + c (n - 3) = s (n - 1)) := by
  intro c
  obtain ⟨m, rfl⟩ : ∃ m, n = m + 4 := ⟨n - 4, by omega⟩
  have ulast := onePole_last z1 l1 c1 h1 hz1 (m + 4) (by omega) s
  have uint := onePole_interior z1 l1 c1 h1 (m + 4) s (m + 2) (by omega) (by omega)
  have clast := onePole_last z2 l2 c2 h2 hz2 (m + 4) (by omega) (onePole z1 c1 (m + 4) s)
  have c2' := onePole_interior z2 l2 c2 h2 (m + 4) (onePole z1 c1 (m + 4) s) (m + 2) (by omega) (by omega)
  have c1' := onePole_interior z2 l2 c2 h2 (m + 4) (onePole z1 c1 (m + 4) s) (m + 1) (by omega) (by omega)
  have e0 : m + 4 - 4 = m := by omega
  have e1 : m + 4 - 3 = m + 1 := by omega
  have e2 : m + 4 - 2 = m + 2 := by omega
  have e3 : m + 4 - 1 = m + 3 := by omega
  have e4 : m + 2 - 1 = m + 1 := by omega
  have e5 : m + 2 + 1 = m + 3 := by omega
  have e6 : m + 1 - 1 = m := by omega
  have e7 : m + 1 + 1 = m + 2 := by omega
  simp only [e2, e3] at ulast clast
  simp only [e4, e5] at uint c2'
  simp only [e6, e7] at c1'
  simp only [e0, e1, e2, e3]
  constructor
  · show onePole z2 c2 (m + 4) (onePole z1 c1 (m + 4) s) m
        + (l1 + l2) * onePole z2 c2 (m + 4) (onePole z1 c1 (m + 4) s) (m + 1)
        + (2 + l1 * l2) * onePole z2 c2 (m + 4) (onePole z1 c1 (m + 4) s) (m + 2)
        + (l1 + l2) * onePole z2 c2 (m + 4) (onePole z1 c1 (m + 4) s) (m + 3)
        + onePole z2 c2 (m + 4) (onePole z1 c1 (m + 4) s) (m + 2) = s (m + 2)
    linear_combination uint + c1' + l1 * c2' + clast
  · show onePole z2 c2 (m + 4) (onePole z1 c1 (m + 4) s) (m + 1)
        + (l1 + l2) * onePole z2 c2 (m + 4) (onePole z1 c1 (m + 4) s) (m + 2)
        + (2 + l1 * l2) * onePole z2 c2 (m + 4) (onePole z1 c1 (m + 4) s) (m + 3)
        + (l1 + l2) * onePole z2 c2 (m + 4) (onePole z1 c1 (m + 4) s) (m + 2)
        + onePole z2 c2 (m + 4) (onePole z1 c1 (m + 4) s) (m + 1) = s (m + 3)
    linear_combination ulast + 2 * c2' + l1 * clast

end Mahotas.C18
