/-
C18 — the initial value of the causal pass of `spline_filter1d` and the first sample(s).

* `geomSum z t m = Σ_{k<m} z^k t[k]`; `mirrorExt n s` = the mirror extension (period `2n − 2`) of a line.
* the *exact mirror-symmetric initialisation* `c⁺[0] = Σ_{k≥0} z^k s̃[k]` is characterised, without infinite sums,
  by the fixed-point equation `c0 = Σ_{k<P} z^k s̃[k] + z^P · c0` (`P = 2n − 2`; `MirrorInit`), equivalently:
  the causal recursion run once around the mirrored period returns to its initial value.
* with it the first sample is reproduced: `2·c[1] + λ·c[0] = s[0]` (`onePole_first`).
* the code's closed form `initFull` (short lines) *is* this value (`initFull_mirrorInit`);
  the code's truncated sum `initTrunc` (long lines) is `geomSum z s mx` and differs from the exact value by at most
  `|z|^mx · M / (1 − |z|)` (`mirrorInit_trunc_bound`).
-/
import Mahotas.Proofs.C18Filter
import Mathlib.Algebra.Order.Field.Basic
import Mathlib.Algebra.Order.AbsoluteValue.Basic
import Mathlib.Algebra.BigOperators.Intervals
import Mathlib.Tactic.Linarith
import Mathlib.Tactic.Positivity
set_option linter.unusedSectionVars false
set_option linter.unusedVariables false
namespace Mahotas.C18
open Mahotas

section Alg
variable {K : Type} [Field K]

/-- `Σ_{k<m} z^k · t[k]` -/
def geomSum (z : K) (t : Nat → K) : Nat → K
  | 0 => 0
  | m + 1 => geomSum z t m + z ^ m * t m

/-- the mirror extension of a line of length `n` (`… s₂ s₁ | s₀ s₁ … s_{n−1} | s_{n−2} … s₁ s₀ s₁ …`), one period and
    one sample more: `s̃[k] = s[k]` for `k < n`, `s[2n − 2 − k]` for `n ≤ k ≤ 2n − 2` -/
def mirrorExt (n : Nat) (s : Nat → K) (k : Nat) : K := if k < n then s k else s (2 * n - 2 - k)

/-- `c0` is the exact mirror-symmetric initial value `Σ_{k≥0} z^k s̃[k]` of the causal pass: the fixed point of
    "one period of the geometric sum, then the same again damped by `z^P`" -/
def MirrorInit (z : K) (n : Nat) (s : Nat → K) (c0 : K) : Prop :=
  c0 = geomSum z (mirrorExt n s) (2 * n - 2) + z ^ (2 * n - 2) * c0

theorem geomSum_congr (z : K) (t t' : Nat → K) (m : Nat) (h : ∀ k, k < m → t k = t' k) :
    geomSum z t m = geomSum z t' m := by
  induction m with
  | zero => rfl
  | succ m ih => simp only [geomSum]; rw [ih (fun k hk => h k (by omega)), h m (by omega)]

/-- peel the first term -/
theorem geomSum_front (z : K) (g : Nat → K) (m : Nat) :
    geomSum z g (m + 1) = g 0 + z * geomSum z (fun j => g (j + 1)) m := by
  induction m with
  | zero => simp [geomSum]
  | succ m ih => rw [geomSum, ih]; simp only [geomSum]; ring

/-- split at `a` -/
theorem geomSum_add (z : K) (t : Nat → K) (a d : Nat) :
    geomSum z t (a + d) = geomSum z t a + z ^ a * geomSum z (fun k => t (a + k)) d := by
  induction d with
  | zero => simp [geomSum]
  | succ d ih =>
    have e : a + (d + 1) = (a + d) + 1 := by omega
    rw [e, geomSum, ih]; simp only [geomSum]; ring

/-- linearity of the causal pass in its initial value -/
theorem causal_init (z c0 : K) (t : Nat → K) (k : Nat) :
    causal z c0 t k = z ^ k * c0 + causal z 0 t k := by
  induction k with
  | zero => simp [causal]
  | succ k ih => simp only [causal, ih]; ring

/-- closed form of the causal pass: `c⁺[k] = z^k·c0 + Σ_{j<k} z^j t[k − j]` -/
theorem causal_closed (z : K) (t : Nat → K) (k : Nat) :
    causal z 0 t k = geomSum z (fun j => t (k - j)) k := by
  induction k with
  | zero => simp [causal, geomSum]
  | succ k ih =>
    rw [geomSum_front]
    simp only [causal, ih, Nat.sub_zero, Nat.add_sub_add_right]

theorem causal_congr (z c0 : K) (t t' : Nat → K) (k : Nat) (h : ∀ i, 1 ≤ i → i ≤ k → t i = t' i) :
    causal z c0 t k = causal z c0 t' k := by
  induction k with
  | zero => rfl
  | succ k ih =>
    simp only [causal]
    rw [ih (fun i h1 h2 => h i h1 (by omega)), h (k + 1) (by omega) le_rfl]

/-- once around the mirrored period: `c⁺[P] = z^P·c0 + Σ_{k<P} z^k s̃[k]` -/
theorem causal_period (z c0 : K) (n : Nat) (hn : 2 ≤ n) (s : Nat → K) :
    causal z c0 (mirrorExt n s) (2 * n - 2)
      = z ^ (2 * n - 2) * c0 + geomSum z (mirrorExt n s) (2 * n - 2) := by
  rw [causal_init, causal_closed]
  congr 1
  apply geomSum_congr
  intro k hk
  unfold mirrorExt
  by_cases h1 : k < n
  · by_cases h2 : 2 * n - 2 - k < n
    · -- both inside: `2n−2−k < n` and `k < n` force `k = n − 1`
      have : 2 * n - 2 - k = k := by omega
      simp only [h1, if_true, this]
    · simp only [h1, h2, if_true, if_false]
      congr 1; omega
  · have h2 : 2 * n - 2 - k < n := by omega
    simp only [h1, h2, if_true, if_false]

theorem mirrorInit_iff_steady (z c0 : K) (n : Nat) (hn : 2 ≤ n) (s : Nat → K) :
    MirrorInit z n s c0 ↔ causal z c0 (mirrorExt n s) (2 * n - 2) = c0 := by
  unfold MirrorInit
  rw [causal_period z c0 n hn s]
  constructor
  · intro h; rw [add_comm]; exact h.symm
  · intro h; rw [add_comm]; exact h.symm

/-! ### the first sample -/

/-- the quantity `c[m−j] − c[m+1−j]/z` (counted from the end of a line of length `m + 2`) is the causal
    recursion continued into the mirrored half of the period -/
theorem back_eq_causal (z c0 : K) (hz : z ≠ 0) (hz1 : z * z - 1 ≠ 0) (m : Nat) (s : Nat → K) (j : Nat)
    (hj : j ≤ m) :
    anticausalRev z (m + 2) (causal z c0 s) (j + 1) - anticausalRev z (m + 2) (causal z c0 s) j / z
      = causal z c0 (mirrorExt (m + 2) s) (m + 1 + j) := by
  induction j with
  | zero =>
    have e1 : m + 2 - 1 = m + 1 := by omega
    have e2 : m + 2 - 2 = m := by omega
    have e3 : m + 2 - 2 - 0 = m := by omega
    rw [causal_congr z c0 (mirrorExt (m + 2) s) s (m + 1 + 0)
      (fun i _ h2 => by unfold mirrorExt; rw [if_pos (by omega)])]
    simp only [anticausalRev, e1, e2, Nat.add_zero, Nat.cast_one]
    simp only [causal]
    generalize causal z c0 s m = b
    have hd : z / (z * z - 1) * (s (m + 1) + z * b + z * b) * (z * z - 1) = z * (s (m + 1) + z * b + z * b) := by
      have h0 : z / (z * z - 1) * (z * z - 1) = z := div_mul_cancel₀ z hz1
      calc z / (z * z - 1) * (s (m + 1) + z * b + z * b) * (z * z - 1)
          = (z / (z * z - 1) * (z * z - 1)) * (s (m + 1) + z * b + z * b) := by ring
        _ = z * (s (m + 1) + z * b + z * b) := by rw [h0]
    generalize z / (z * z - 1) * (s (m + 1) + z * b + z * b) = d0 at hd ⊢
    field_simp
    linear_combination hd
  | succ j ih =>
    have ih' := ih (by omega)
    have e1 : m + 2 - 2 - (j + 1) = m - j - 1 := by omega
    have e2 : m + 2 - 2 - j = m - j := by omega
    have e3 : m + 1 + (j + 1) = (m + 1 + j) + 1 := by omega
    rw [e3]
    simp only [causal]
    rw [← ih']
    have hs : mirrorExt (m + 2) s (m + 1 + j + 1) = s (m - j) := by
      unfold mirrorExt
      rw [if_neg (by omega)]
      congr 1; omega
    rw [hs]
    -- unfold two steps of the anti-causal pass and one of the causal pass
    have a2 : anticausalRev z (m + 2) (causal z c0 s) (j + 1 + 1)
        = z * (anticausalRev z (m + 2) (causal z c0 s) (j + 1) - causal z c0 s (m - j - 1)) := by
      simp only [anticausalRev, e1]
    have a1 : anticausalRev z (m + 2) (causal z c0 s) (j + 1)
        = z * (anticausalRev z (m + 2) (causal z c0 s) j - causal z c0 s (m - j)) := by
      simp only [anticausalRev, e2]
    have cstep : causal z c0 s (m - j) = s (m - j) + z * causal z c0 s (m - j - 1) := by
      obtain ⟨r, hr⟩ : ∃ r, m - j = r + 1 := ⟨m - j - 1, by omega⟩
      rw [hr]; simp only [causal, Nat.add_sub_cancel]
    rw [a2]
    generalize anticausalRev z (m + 2) (causal z c0 s) (j + 1) = A1 at a1 ⊢
    generalize anticausalRev z (m + 2) (causal z c0 s) j = A0 at a1 ⊢
    generalize causal z c0 s (m - j) = C1 at a1 cstep ⊢
    generalize causal z c0 s (m - j - 1) = C0 at cstep ⊢
    have hC1 : C1 = A0 - A1 / z := by
      field_simp
      linear_combination a1
    have hC0 : z * C0 = C1 - s (m - j) := by linear_combination (-1 : K) * cstep
    have : z * (A1 - C0) = z * A1 - (C1 - s (m - j)) := by rw [← hC0]; ring
    rw [this, hC1]
    field_simp
    ring

/-- **first sample.** With the exact mirror-symmetric initial value, the coefficients of the one-pole filter
    satisfy the equation of sample 0 with the mirrored knot `c[−1] = c[1]`: `2·c[1] + λ·c[0] = s[0]` -/
theorem onePole_first (z lam c0 : K) (hz : z * z + lam * z + 1 = 0) (hz1 : z * z - 1 ≠ 0) (n : Nat)
    (hn : 2 ≤ n) (s : Nat → K) (hinit : MirrorInit z n s c0) :
    2 * onePole z c0 n s 1 + lam * onePole z c0 n s 0 = s 0 := by
  have hz0 : z ≠ 0 := by
    rintro rfl
    simp at hz
  obtain ⟨m, rfl⟩ : ∃ m, n = m + 2 := ⟨n - 2, by omega⟩
  have hst := (mirrorInit_iff_steady z c0 (m + 2) hn s).mp hinit
  have eP : 2 * (m + 2) - 2 = (m + 1 + m) + 1 := by omega
  rw [eP] at hst
  simp only [causal] at hst
  rw [← back_eq_causal z c0 hz0 hz1 m s m le_rfl] at hst
  have hs : mirrorExt (m + 2) s (m + 1 + m + 1) = s 0 := by
    unfold mirrorExt
    rw [if_neg (by omega)]
    congr 1; omega
  rw [hs] at hst
  have e1 : m + 2 - 1 - 1 = m := by omega
  have e0 : m + 2 - 1 - 0 = m + 1 := by omega
  simp only [onePole, e1, e0]
  have a1 : anticausalRev z (m + 2) (causal z c0 s) (m + 1)
      = z * (anticausalRev z (m + 2) (causal z c0 s) m - c0) := by
    have e : m + 2 - 2 - m = 0 := by omega
    simp only [anticausalRev, e, causal]
  generalize anticausalRev z (m + 2) (causal z c0 s) (m + 1) = A1 at a1 hst ⊢
  generalize anticausalRev z (m + 2) (causal z c0 s) m = A0 at a1 hst ⊢
  -- `hst : s 0 + z * (A1 - A0 / z) = c0`, `a1 : A1 = z * (A0 - c0)`
  have h1 : s 0 + z * A1 - A0 = c0 := by
    have : z * (A1 - A0 / z) = z * A1 - A0 := by field_simp
    linear_combination hst - this
  apply mul_left_cancel₀ hz0
  linear_combination A1 * hz + (-z) * h1 + (-1 : K) * a1



/-! ### two poles: the first two samples -/

/-- with the exact initial values of both passes, the first two samples of the two-pole filter satisfy the
    five-tap equations with the mirrored knots `c[−1] = c[1]`, `c[−2] = c[2]` -/
theorem twoPole_first (z1 z2 l1 l2 c1 c2 : K) (h1 : z1 * z1 + l1 * z1 + 1 = 0)
    (h2 : z2 * z2 + l2 * z2 + 1 = 0) (hz1 : z1 * z1 - 1 ≠ 0) (hz2 : z2 * z2 - 1 ≠ 0)
    (n : Nat) (hn : 4 ≤ n) (s : Nat → K) (hi1 : MirrorInit z1 n s c1)
    (hi2 : MirrorInit z2 n (onePole z1 c1 n s) c2) :
    let c := onePole z2 c2 n (onePole z1 c1 n s)
    (c 2 + (l1 + l2) * c 1 + (2 + l1 * l2) * c 0 + (l1 + l2) * c 1 + c 2 = s 0) ∧
    (c 1 + (l1 + l2) * c 0 + (2 + l1 * l2) * c 1 + (l1 + l2) * c 2 + c 3 = s 1) := by
  intro c
  have f1 := onePole_first z1 l1 c1 h1 hz1 n (by omega) s hi1
  have f2 := onePole_first z2 l2 c2 h2 hz2 n (by omega) (onePole z1 c1 n s) hi2
  have u1 := onePole_interior z1 l1 c1 h1 n s 1 (by omega) (by omega)
  have v1 := onePole_interior z2 l2 c2 h2 n (onePole z1 c1 n s) 1 (by omega) (by omega)
  have v2 := onePole_interior z2 l2 c2 h2 n (onePole z1 c1 n s) 2 (by omega) (by omega)
  simp only [Nat.sub_self, Nat.reduceAdd, Nat.reduceSub] at u1 v1 v2
  constructor
  · show onePole z2 c2 n (onePole z1 c1 n s) 2 + (l1 + l2) * onePole z2 c2 n (onePole z1 c1 n s) 1
        + (2 + l1 * l2) * onePole z2 c2 n (onePole z1 c1 n s) 0
        + (l1 + l2) * onePole z2 c2 n (onePole z1 c1 n s) 1 + onePole z2 c2 n (onePole z1 c1 n s) 2 = s 0
    linear_combination f1 + 2 * v1 + l1 * f2
  · show onePole z2 c2 n (onePole z1 c1 n s) 1 + (l1 + l2) * onePole z2 c2 n (onePole z1 c1 n s) 0
        + (2 + l1 * l2) * onePole z2 c2 n (onePole z1 c1 n s) 1
        + (l1 + l2) * onePole z2 c2 n (onePole z1 c1 n s) 2 + onePole z2 c2 n (onePole z1 c1 n s) 3 = s 1
    linear_combination u1 + f2 + l1 * v1 + v2

/-! ### what the code's two initialisations compute -/

theorem initTrunc_loop (z : K) (s : Nat → K) (m : Nat) :
    (List.range m).foldl (fun (st : K × K) i => (st.1 + st.2 * s (i + 1), st.2 * z)) (s 0, z)
      = (geomSum z s (m + 1), z ^ (m + 1)) := by
  induction m with
  | zero => simp [geomSum]
  | succ m ih =>
    rw [List.range_succ, List.foldl_append, ih]
    simp only [List.foldl_cons, List.foldl_nil, geomSum]
    congr 1
    ring

/-- the truncated initialisation is the geometric sum cut after `mx` terms -/
theorem initTrunc_eq (z : K) (mx : Nat) (hmx : 1 ≤ mx) (s : Nat → K) :
    initTrunc z mx s = geomSum z s mx := by
  unfold initTrunc
  rw [initTrunc_loop]
  have : mx - 1 + 1 = mx := by omega
  simp only [this]

/-- `Σ_{i<m} g i` -/
def plainSum (g : Nat → K) : Nat → K
  | 0 => 0
  | m + 1 => plainSum g m + g m

theorem plainSum_eq_finset (g : Nat → K) (m : Nat) : plainSum g m = ∑ i ∈ Finset.range m, g i := by
  induction m with
  | zero => simp [plainSum]
  | succ m ih => rw [plainSum, ih, Finset.sum_range_succ]

theorem plainSum_congr (g g' : Nat → K) (m : Nat) (h : ∀ i, i < m → g i = g' i) :
    plainSum g m = plainSum g' m := by
  induction m with
  | zero => rfl
  | succ m ih => simp only [plainSum]; rw [ih (fun i hi => h i (by omega)), h m (by omega)]

theorem plainSum_reflect (g : Nat → K) (m : Nat) : plainSum g m = plainSum (fun i => g (m - 1 - i)) m := by
  rw [plainSum_eq_finset, plainSum_eq_finset, Finset.sum_range_reflect]

theorem plainSum_add (g h : Nat → K) (m : Nat) :
    plainSum (fun i => g i + h i) m = plainSum g m + plainSum h m := by
  induction m with
  | zero => simp [plainSum]
  | succ m ih => simp only [plainSum, ih]; ring

theorem plainSum_mul (c : K) (g : Nat → K) (m : Nat) : plainSum (fun i => c * g i) m = c * plainSum g m := by
  induction m with
  | zero => simp [plainSum]
  | succ m ih => simp only [plainSum, ih]; ring

theorem geomSum_eq_plainSum (z : K) (t : Nat → K) (m : Nat) :
    geomSum z t m = plainSum (fun k => z ^ k * t k) m := by
  induction m with
  | zero => rfl
  | succ m ih => simp only [geomSum, plainSum, ih]

theorem initFull_loop (z iz : K) (s : Nat → K) (a b : K) (m : Nat) :
    (List.range m).foldl (stepFull z iz s) (a, z, b)
      = (a + plainSum (fun i => (z ^ (i + 1) + b * iz ^ i) * s (i + 1)) m, z ^ (m + 1), b * iz ^ m) := by
  induction m with
  | zero => simp [plainSum]
  | succ m ih =>
    rw [List.range_succ, List.foldl_append, ih]
    simp only [List.foldl_cons, List.foldl_nil, stepFull, plainSum]
    refine Prod.ext ?_ (Prod.ext ?_ ?_) <;> simp only <;> ring

/-- the numerator of the code's closed form is one period of the geometric sum over the mirrored line -/
theorem initFull_numerator (z : K) (hz : z ≠ 0) (m : Nat) (s : Nat → K) :
    s 0 + z ^ (m + 1) * s (m + 1)
        + plainSum (fun i => (z ^ (i + 1) + z ^ (m + 1) * (z ^ (m + 1) * (1 / z)) * (1 / z) ^ i) * s (i + 1)) m
      = geomSum z (mirrorExt (m + 2) s) (2 * (m + 2) - 2) := by
  have eP : 2 * (m + 2) - 2 = (m + 1) + (m + 1) := by omega
  rw [eP, geomSum_add]
  have g1 : geomSum z (mirrorExt (m + 2) s) (m + 1) = s 0 + z * geomSum z (fun j => s (j + 1)) m := by
    rw [geomSum_congr z (mirrorExt (m + 2) s) s (m + 1)
      (fun k hk => by unfold mirrorExt; rw [if_pos (by omega)]), geomSum_front]
  have g2 : geomSum z (fun k => mirrorExt (m + 2) s (m + 1 + k)) (m + 1)
      = s (m + 1) + z * geomSum z (fun j => s (m - j)) m := by
    rw [geomSum_congr z (fun k => mirrorExt (m + 2) s (m + 1 + k)) (fun k => s (m + 1 - k)) (m + 1)
      (fun k hk => by
        unfold mirrorExt
        by_cases h0 : k = 0
        · subst h0; rw [if_pos (by omega)]; rfl
        · rw [if_neg (by omega)]; congr 1; omega), geomSum_front]
    simp only [Nat.sub_zero, Nat.add_sub_add_right]
  rw [g1, g2, geomSum_eq_plainSum, geomSum_eq_plainSum]
  -- reflect the second sum
  rw [plainSum_reflect (fun k => z ^ k * s (m - k)) m]
  have e1 : plainSum (fun i => (z ^ (i + 1) + z ^ (m + 1) * (z ^ (m + 1) * (1 / z)) * (1 / z) ^ i) * s (i + 1)) m
      = z * plainSum (fun k => z ^ k * s (k + 1)) m
        + z ^ (m + 1) * (z * plainSum (fun i => z ^ (m - 1 - i) * s (m - (m - 1 - i))) m) := by
    rw [← plainSum_mul, ← plainSum_mul, ← plainSum_mul, ← plainSum_add]
    apply plainSum_congr
    intro i hi
    have hs : m - (m - 1 - i) = i + 1 := by omega
    rw [hs]
    have h1 : z ^ (m - 1 - i) * z ^ (i + 1) = z ^ m := by rw [← pow_add]; congr 1; omega
    have h2 : (1 / z) ^ (i + 1) * z ^ (i + 1) = 1 := by
      rw [← mul_pow, one_div, inv_mul_cancel₀ hz, one_pow]
    have h3 : (1 / z) ^ (i + 1) = (1 / z) * (1 / z) ^ i := pow_succ' _ _
    have h4 : z ^ (i + 1) = z * z ^ i := pow_succ' _ _
    generalize z ^ (m - 1 - i) = a at h1 ⊢
    generalize z ^ (i + 1) = b at h1 h2 h4 ⊢
    rw [h3] at h2
    generalize (1 / z) ^ i = c at h2 ⊢
    have hm : z ^ (m + 1) = a * b * z := by rw [h1, pow_succ]
    rw [hm]
    linear_combination (a * b * z * s (i + 1) * a * z) * h2 + s (i + 1) * h4
  rw [e1]
  ring

/-- **the code's closed form is the exact mirror-symmetric initial value** (short lines; `zpow = pow(p, len−1)`) -/
theorem initFull_mirrorInit (z : K) (hz : z ≠ 0) (n : Nat) (hn : 2 ≤ n) (hP : 1 - z ^ (n - 1) * z ^ (n - 1) ≠ 0)
    (s : Nat → K) : MirrorInit z n s (initFull z (z ^ (n - 1)) n s) := by
  obtain ⟨m, rfl⟩ : ∃ m, n = m + 2 := ⟨n - 2, by omega⟩
  have e1 : m + 2 - 1 = m + 1 := by omega
  have e2 : m + 2 - 2 = m := by omega
  rw [e1] at hP
  unfold MirrorInit initFull
  simp only [e1, e2, Nat.cast_one]
  rw [initFull_loop]
  simp only
  rw [initFull_numerator z hz m s]
  have eP : z ^ (2 * (m + 2) - 2) = z ^ (m + 1) * z ^ (m + 1) := by rw [← pow_add]; congr 1; omega
  rw [eP]
  generalize geomSum z (mirrorExt (m + 2) s) (2 * (m + 2) - 2) = G
  generalize z ^ (m + 1) = Z at hP ⊢
  have h : G / (1 - Z * Z) * (1 - Z * Z) = G := div_mul_cancel₀ G hP
  generalize G / (1 - Z * Z) = q at h ⊢
  linear_combination h

end Alg

/-! ### the truncated sum against the exact value -/
section Bound
variable {K : Type} [Field K] [LinearOrder K] [IsStrictOrderedRing K]

theorem geomSum_tail (z : K) (t : Nat → K) (M : K) (hz : |z| < 1) (ht : ∀ k, |t k| ≤ M) (a d : Nat) :
    |geomSum z t (a + d) - geomSum z t a| ≤ M * (|z| ^ a - |z| ^ (a + d)) / (1 - |z|) := by
  have h1 : 0 < 1 - |z| := by linarith
  induction d with
  | zero => simp
  | succ d ih =>
    have e : a + (d + 1) = (a + d) + 1 := by omega
    rw [e]
    simp only [geomSum]
    have hterm : |z ^ (a + d) * t (a + d)| ≤ |z| ^ (a + d) * M := by
      rw [abs_mul, abs_pow]
      exact mul_le_mul_of_nonneg_left (ht _) (pow_nonneg (abs_nonneg z) _)
    calc |geomSum z t (a + d) + z ^ (a + d) * t (a + d) - geomSum z t a|
        = |(geomSum z t (a + d) - geomSum z t a) + z ^ (a + d) * t (a + d)| := by congr 1; ring
      _ ≤ |geomSum z t (a + d) - geomSum z t a| + |z ^ (a + d) * t (a + d)| := abs_add_le _ _
      _ ≤ M * (|z| ^ a - |z| ^ (a + d)) / (1 - |z|) + |z| ^ (a + d) * M := add_le_add ih hterm
      _ = M * (|z| ^ a - |z| ^ (a + d + 1)) / (1 - |z|) := by
          rw [pow_succ]; field_simp; ring

theorem periodic_mul (t : Nat → K) (P : Nat) (hper : ∀ k, t (k + P) = t k) (m k : Nat) :
    t (m * P + k) = t k := by
  induction m with
  | zero => simp
  | succ m ih =>
    have e : (m + 1) * P + k = (m * P + k) + P := by ring
    rw [e, hper, ih]

theorem fixed_periods (z : K) (t : Nat → K) (P : Nat) (hper : ∀ k, t (k + P) = t k) (c0 : K)
    (hfix : c0 = geomSum z t P + z ^ P * c0) (m : Nat) :
    c0 = geomSum z t (m * P) + z ^ (m * P) * c0 := by
  induction m with
  | zero => simp [geomSum]
  | succ m ih =>
    have e : (m + 1) * P = m * P + P := by ring
    rw [e, geomSum_add]
    have : geomSum z (fun k => t (m * P + k)) P = geomSum z t P :=
      geomSum_congr z _ _ P (fun k _ => periodic_mul t P hper m k)
    rw [this, pow_add]
    linear_combination ih + z ^ (m * P) * hfix

/-- the exact value of a bounded periodic signal is at most `M / (1 − |z|)` -/
theorem fixed_abs_le (z : K) (t : Nat → K) (M : K) (hz : |z| < 1) (ht : ∀ k, |t k| ≤ M) (P : Nat) (hP : 1 ≤ P)
    (c0 : K) (hfix : c0 = geomSum z t P + z ^ P * c0) : |c0| ≤ M / (1 - |z|) := by
  have h1 : 0 < 1 - |z| := by linarith
  have hr : |z| ^ P < 1 := pow_lt_one₀ (abs_nonneg z) hz (by omega)
  have h2 : 0 < 1 - |z| ^ P := by linarith
  have hg := geomSum_tail z t M hz ht 0 P
  simp only [geomSum, Nat.zero_add, sub_zero, pow_zero] at hg
  have hc : c0 * (1 - z ^ P) = geomSum z t P := by linear_combination hfix
  have h3 : |c0| * (1 - |z| ^ P) ≤ |c0| * |1 - z ^ P| := by
    apply mul_le_mul_of_nonneg_left _ (abs_nonneg _)
    have := abs_sub_abs_le_abs_sub (1 : K) (z ^ P)
    rw [abs_one, abs_pow] at this
    exact this
  rw [← abs_mul, hc] at h3
  have h4 : |c0| * (1 - |z| ^ P) ≤ M / (1 - |z|) * (1 - |z| ^ P) := by
    calc _ ≤ |geomSum z t P| := h3
      _ ≤ M * (1 - |z| ^ P) / (1 - |z|) := hg
      _ = M / (1 - |z|) * (1 - |z| ^ P) := by ring
  exact le_of_mul_le_mul_right h4 h2

/-- **truncation bound.** For a bounded periodic signal and `|z| < 1`, the geometric sum cut after `h` terms differs
    from the exact value (the fixed point) by at most `|z|^h · M / (1 − |z|)` -/
theorem fixed_trunc_bound (z : K) (t : Nat → K) (M : K) (hz : |z| < 1) (ht : ∀ k, |t k| ≤ M) (P : Nat)
    (hP : 1 ≤ P) (hper : ∀ k, t (k + P) = t k) (c0 : K) (hfix : c0 = geomSum z t P + z ^ P * c0) (h : Nat) :
    |c0 - geomSum z t h| ≤ |z| ^ h * M / (1 - |z|) := by
  have h1 : 0 < 1 - |z| := by linarith
  have hm := fixed_periods z t P hper c0 hfix h
  obtain ⟨d, hd⟩ : ∃ d, h * P = h + d := ⟨h * P - h, by
    have : h ≤ h * P := Nat.le_mul_of_pos_right h (by omega)
    omega⟩
  have htail := geomSum_tail z t M hz ht h d
  have hc := fixed_abs_le z t M hz ht P hP c0 hfix
  rw [hd] at hm
  have e : c0 - geomSum z t h = (geomSum z t (h + d) - geomSum z t h) + z ^ (h + d) * c0 := by
    linear_combination hm
  rw [e]
  calc _ ≤ |geomSum z t (h + d) - geomSum z t h| + |z ^ (h + d) * c0| := abs_add_le _ _
    _ ≤ M * (|z| ^ h - |z| ^ (h + d)) / (1 - |z|) + |z| ^ (h + d) * (M / (1 - |z|)) := by
        apply add_le_add htail
        rw [abs_mul, abs_pow]
        exact mul_le_mul_of_nonneg_left hc (pow_nonneg (abs_nonneg z) _)
    _ = |z| ^ h * M / (1 - |z|) := by field_simp; ring

/-- the mirror extension continued periodically over all of ℕ -/
def mirrorPer (n : Nat) (s : Nat → K) (k : Nat) : K := mirrorExt n s (k % (2 * n - 2))

theorem mirrorPer_bound (n : Nat) (hn : 2 ≤ n) (s : Nat → K) (M : K) (hs : ∀ k, k < n → |s k| ≤ M) (k : Nat) :
    |mirrorPer n s k| ≤ M := by
  unfold mirrorPer mirrorExt
  have : k % (2 * n - 2) < 2 * n - 2 := Nat.mod_lt _ (by omega)
  by_cases h : k % (2 * n - 2) < n
  · rw [if_pos h]; exact hs _ h
  · rw [if_neg h]; exact hs _ (by omega)


/-- **the code's truncated initialisation against the exact one** (long lines, `mx ≤ n` terms summed):
    `|c0 − initTrunc z mx s| ≤ |z|^mx · M / (1 − |z|)` when `|s| ≤ M` on the line -/
theorem mirrorInit_trunc_bound (z : K) (hz : |z| < 1) (n : Nat) (hn : 2 ≤ n) (s : Nat → K) (M : K)
    (hs : ∀ k, k < n → |s k| ≤ M) (c0 : K) (hinit : MirrorInit z n s c0) (mx : Nat) (h1 : 1 ≤ mx)
    (h2 : mx ≤ n) : |c0 - initTrunc z mx s| ≤ |z| ^ mx * M / (1 - |z|) := by
  rw [initTrunc_eq z mx h1 s]
  have hP : 1 ≤ 2 * n - 2 := by omega
  have hper : ∀ k, mirrorPer n s (k + (2 * n - 2)) = mirrorPer n s k := by
    intro k; unfold mirrorPer; rw [Nat.add_mod_right]
  have hfix : c0 = geomSum z (mirrorPer n s) (2 * n - 2) + z ^ (2 * n - 2) * c0 := by
    rw [geomSum_congr z (mirrorPer n s) (mirrorExt n s) (2 * n - 2)
      (fun k hk => by unfold mirrorPer; rw [Nat.mod_eq_of_lt hk])]
    exact hinit
  have hb := fixed_trunc_bound z (mirrorPer n s) M hz (mirrorPer_bound n hn s M hs) (2 * n - 2) hP hper c0 hfix mx
  rw [geomSum_congr z (mirrorPer n s) s mx (fun k hk => by
    unfold mirrorPer mirrorExt
    rw [Nat.mod_eq_of_lt (by omega), if_pos (by omega)])] at hb
  exact hb

end Bound

end Mahotas.C18
