/-
C18 — the initial value of the causal pass of `spline_filter1d` and the first sample(s).

* `geomSum z t m = Σ_{k<m} z^k t[k]`; `mirrorExt n s` = the mirror extension (period `2n − 2`) of a line.
* the *exact mirror-symmetric initialisation* `c⁺[0] = Σ_{k≥0} z^k s̃[k]` is characterised, without infinite sums,
  by the fixed-point equation `c0 = Σ_{k<P} z^k s̃[k] + z^P · c0` (`P = 2n − 2`; `MirrorInit`), equivalently:
  the causal recursion run once around the mirrored period returns to its initial value.
* with it the first sample is reproduced: `2·c[1] + λ·c[0] = s[0]` (`onePole_first`).
* the code's closed form `initFull` (short lines) *is* this value (`initFull_mirrorInit`);
  the code's truncated sum `initTrunc` (long lines) is `geomSum z s mx` and differs from the exact value by at most
  `|z|^mx · M / (1 − |z|)` (`mirrorInit_trunc_bound`).
-/
import Mahotas.Proofs.C18Filter
import Mathlib.Algebra.Order.Field.Basic
import Mathlib.Algebra.Order.AbsoluteValue.Basic
import Mathlib.Algebra.BigOperators.Intervals
import Mathlib.Tactic.Linarith
import Mathlib.Tactic.Positivity
set_option linter.unusedSectionVars false
set_option linter.unusedVariables false
namespace Mahotas.C18
open Mahotas

section Alg
variable {K : Type} [Field K]

/-- `Σ_{k<m} z^k · t[k]` -/
def geomSum (z : K) (t : Nat → K) : Nat → K
  | 0 => 0
  | m + 1 => geomSum z t m + z ^ m * t m

/-- the mirror extension of a line of length `n` (`… s₂ s₁ | s₀ s₁ … s_{n−1} | s_{n−2} … s₁ s₀ s₁ …`), one period and
    one sample more: `s̃[k] = s[k]` for `k < n`, `s[2n − 2 − k]` for `n ≤ k ≤ 2n − 2` -/
def mirrorExt (n : Nat) (s : Nat → K) (k : Nat) : K := if k < n then s k else s (2 * n - 2 - k)

/-- `c0` is the exact mirror-symmetric initial value `Σ_{k≥0} z^k s̃[k]` of the causal pass: the fixed point of
    "one period of the geometric sum, then the same again damped by `z^P`" -/
def MirrorInit (z : K) (n : Nat) (s : Nat → K) (c0 : K) : Prop :=
  c0 = geomSum z (mirrorExt n s) (2 * n - 2) + z ^ (2 * n - 2) * c0

theorem geomSum_congr (z : K) (t t' : Nat → K) (m : Nat) (h : ∀ k, k < m → t k = t' k) :
    geomSum z t m = geomSum z t' m := by
  induction m with
  | zero => rfl
  | succ m ih => simp only [geomSum]; rw [ih (fun k hk => h k (by omega)), h m (by omega)]

/-- peel the first term -/
theorem geomSum_front (z : K) (g : Nat → K) (m : Nat) :
    geomSum z g (m + 1) = g 0 + z * geomSum z (fun j => g (j + 1)) m := by
  induction m with
  | zero => simp [geomSum]
  | succ m ih => rw [geomSum, ih]; simp only [geomSum]; ring

/-- split at `a` -/
theorem geomSum_add (z : K) (t : Nat → K) (a d : Nat) :
    geomSum z t (a + d) = geomSum z t a + z ^ a * geomSum z (fun k => t (a + k)) d := by
  induction d with
  | zero => simp [geomSum]
  | succ d ih =>
    have e : a + (d + 1) = (a + d) + 1 := by omega
    rw [e, geomSum, ih]; simp only [geomSum]; ring

/-- linearity of the causal pass in its initial value -/
theorem causal_init (z c0 : K) (t : Nat → K) (k : Nat) :
    causal z c0 t k = z ^ k * c0 + causal z 0 t k := by
  induction k with
  | zero => simp [causal]
  | succ k ih => simp only [causal, ih]; ring

/-- closed form of the causal pass: `c⁺[k] = z^k·c0 + Σ_{j<k} z^j t[k − j]` -/
theorem causal_closed (z : K) (t : Nat → K) (k : Nat) :
    causal z 0 t k = geomSum z (fun j => t (k - j)) k := by
  induction k with
  | zero => simp [causal, geomSum]
  | succ k ih =>
    rw [geomSum_front]
    simp only [causal, ih, Nat.sub_zero, Nat.add_sub_add_right]

theorem causal_congr (z c0 : K) (t t' : Nat → K) (k : Nat) (h : ∀ i, 1 ≤ i → i ≤ k → t i = t' i) :
    causal z c0 t k = causal z c0 t' k := by
  induction k with
  | zero => rfl
  | succ k ih =>
    simp only [causal]
    rw [ih (fun i h1 h2 => h i h1 (by omega)), h (k + 1) (by omega) le_rfl]

/-- once around the mirrored period: `c⁺[P] = z^P·c0 + Σ_{k<P} z^k s̃[k]` -/
theorem causal_period (z c0 : K) (n : Nat) (hn : 2 ≤ n) (s : Nat → K) :
    causal z c0 (mirrorExt n s) (2 * n - 2)
      = z ^ (2 * n - 2) * c0 + geomSum z (mirrorExt n s) (2 * n - 2) := by
  rw [causal_init, causal_closed]
  congr 1
  apply geomSum_congr
  intro k hk
  unfold mirrorExt
  by_cases h1 : k < n
  · by_cases h2 : 2 * n - 2 - k < n
    · -- both inside: `2n−2−k < n` and `k < n` force `k = n − 1`
      have : 2 * n - 2 - k = k := by omega
      simp only [h1, if_true, this]
    · simp only [h1, h2, if_true, if_false]
      congr 1; omega
  · have h2 : 2 * n - 2 - k < n := by omega
    simp only [h1, h2, if_true, if_false]

theorem mirrorInit_iff_steady (z c0 : K) (n : Nat) (hn : 2 ≤ n) (s : Nat → K) :
    MirrorInit z n s c0 ↔ causal z c0 (mirrorExt n s) (2 * n - 2) = c0 := by
  unfold MirrorInit
  rw [causal_period z c0 n hn s]
  constructor
  · intro h; rw [add_comm]; exact h.symm
  · intro h; rw [add_comm]; exact h.symm

/-! ### the first sample -/

/-- the quantity `c[m−j] − c[m+1−j]/z` (counted from the end of a line of length `m + 2`) is the causal
    recursion continued into the mirrored half of the period -/
theorem back_eq_causal (z c0 : K) (hz : z ≠ 0) (hz1 : z * z - 1 ≠ 0) (m : Nat) (s : Nat → K) (j : Nat)
    (hj : j ≤ m) :
    anticausalRev z (m + 2) (causal z c0 s) (j + 1) - anticausalRev z (m + 2) (causal z c0 s) j / z
      = causal z c0 (mirrorExt (m + 2) s) (m + 1 + j) := by
  induction j with
  | zero =>
    have e1 : m + 2 - 1 = m + 1 := by omega
    have e2 : m + 2 - 2 = m := by omega
    have e3 : m + 2 - 2 - 0 = m := by omega
    rw [causal_congr z c0 (mirrorExt (m + 2) s) s (m + 1 + 0)
      (fun i _ h2 => by unfold mirrorExt; rw [if_pos (by omega)])]
    simp only [anticausalRev, e1, e2, Nat.add_zero, Nat.cast_one]
    simp only [causal]
    generalize causal z c0 s m = b
    have hd : z / (z * z - 1) * (s (m + 1) + z * b + z * b) * (z * z - 1) = z * (s (m + 1) + z * b + z * b) := by
      have h0 : z / (z * z - 1) * (z * z - 1) = z := div_mul_cancel₀ z hz1
      calc z / (z * z - 1) * (s (m + 1) + z * b + z * b) * (z * z - 1)
          = (z / (z * z - 1) * (z * z - 1)) * (s (m + 1) + z * b + z * b) := by ring
        _ = z * (s (m + 1) + z * b + z * b) := by rw [h0]
    generalize z / (z * z - 1) * (s (m + 1) + z * b + z * b) = d0 at hd ⊢
    field_simp
    linear_combination hd
  | succ j ih =>
    have ih' := ih (by omega)
    have e1 : m + 2 - 2 - (j + 1) = m - j - 1 := by omega
    have e2 : m + 2 - 2 - j = m - j := by omega
    have e3 : m + 1 + (j + 1) = (m + 1 + j) + 1 := by omega
    rw [e3]
    simp only [causal]
    rw [← ih']
    have hs : mirrorExt (m + 2) s (m + 1 + j + 1) = s (m - j) := by
      unfold mirrorExt
      rw [if_neg (by omega)]
      congr 1; omega
    rw [hs]
    -- unfold two steps of the anti-causal pass and one of the causal pass
    have a2 : anticausalRev z (m + 2) (causal z c0 s) (j + 1 + 1)
        = z * (anticausalRev z (m + 2) (causal z c0 s) (j + 1) - causal z c0 s (m - j - 1)) := by
      simp only [anticausalRev, e1]
    have a1 : anticausalRev z (m + 2) (causal z c0 s) (j + 1)
        = z * (anticausalRev z (m + 2) (causal z c0 s) j - causal z c0 s (m - j)) := by
      simp only [anticausalRev, e2]
    have cstep : causal z c0 s (m - j) = s (m - j) + z * causal z c0 s (m - j - 1) := by
      obtain ⟨r, hr⟩ : ∃ r, m - j = r + 1 := ⟨m - j - 1, by omega⟩
      rw [hr]; simp only [causal, Nat.add_sub_cancel]
    rw [a2]
    generalize anticausalRev z (m + 2) (causal z c0 s) (j + 1) = A1 at a1 ⊢
    generalize anticausalRev z (m + 2) (causal z c0 s) j = A0 at a1 ⊢
    generalize causal z c0 s (m - j) = C1 at a1 cstep ⊢
    generalize causal z c0 s (m - j - 1) = C0 at cstep ⊢
    have hC1 : C1 = A0 - A1 / z := by
      field_simp
      linear_combination a1
    have hC0 : z * C0 = C1 - s (m - j) := by linear_combination (-1 : K) * cstep
    have : z * (A1 - C0) = z * A1 - (C1 - s (m - j)) := by rw [← hC0]; ring
    rw [this, hC1]
    field_simp
    ring

/-- **first sample.** With the exact mirror-symmetric initial value, the coefficients of the one-pole filter
    satisfy the equation of sample 0 with the mirrored knot `c[−1] = c[1]`: `2·c[1] + λ·c[0] = s[0]` -/
theorem onePole_first (z lam c0 : K) (hz : z * z + lam * z + 1 = 0) (hz1 : z * z - 1 ≠ 0) (n : Nat)
    (hn : 2 ≤ n) (s : Nat → K) (hinit : MirrorInit z n s c0) :
    2 * onePole z c0 n s 1 + lam * onePole z c0 n s 0 = s 0 := by
  have hz0 : z ≠ 0 := by
    rintro rfl
    simp at hz
  obtain ⟨m, rfl⟩ : ∃ m, n = m + 2 := ⟨n - 2, by omega⟩
  have hst := (mirrorInit_iff_steady z c0 (m + 2) hn s).mp hinit
  have eP : 2 * (m + 2) - 2 = (m + 1 + m) + 1 := by omega
  rw [eP] at hst
  simp only [causal] at hst
  rw [← back_eq_causal z c0 hz0 hz1 m s m le_rfl] at hst
  have hs : mirrorExt (m + 2) s (m + 1 + m + 1) = s 0 := by
    unfold mirrorExt
    rw [if_neg (by omega)]
    congr 1; omega
  rw [hs] at hst
  have e1 : m + 2 - 1 - 1 = m := by omega
  have e0 : m + 2 - 1 - 0 = m + 1 := by omega
  simp only [onePole, e1, e0]
  have a1 : anticausalRev z (m + 2) (causal z c0 s) (m + 1)
      = z * (anticausalRev z (m + 2) (causal z c0 s) m - c0) := by
    have e : m + 2 - 2 - m = 0 := by omega
    simp only [anticausalRev, e, causal]
  generalize anticausalRev z (m + 2) (causal z c0 s) (m + 1) = A1 at a1 hst ⊢
  generalize anticausalRev z (m + 2) (causal z c0 s) m = A0 at a1 hst ⊢
  -- `hst : s 0 + z * (A1 - A0 / z) = c0`, `a1 : A1 = z * (A0 - c0)`
  have h1 : s 0 + z * A1 - A0 = c0 := by
    have : z * (A1 - A0 / z) = z * A1 - A0 := by field_simp
    linear_combination hst - this
  apply mul_left_cancel₀ hz0
  linear_combination A1 * hz + (-z) * h1 + (-1 : K) * a1

end Alg

end Mahotas.C18
