/-
C18 — the interpolation property in any rank: composing "the one-pole prefilter reproduces every sample"
(`onePole_first/_interior/_last`, mirror boundaries) with "`zoom_shift` evaluates the tensor-product expansion"
(`nestedSum` over `splineAxes`): at integer coordinates inside the array the interpolant returns the sample.

The separable prefilter is written as a function of the position (`prefilterNd`): along axis 0, then 1, …, every
line is replaced by the output of the line filter — what `splineFilter` does with `filterAxis` on the flat array.
-/
import Mahotas.Proofs.C18Tensor
import Mahotas.Proofs.C18Order3b
set_option linter.unusedSectionVars false
set_option linter.unusedVariables false
namespace Mahotas.C18
open Mahotas

theorem inside_length : ∀ (shape : List Nat) (js : List Int), inside shape js = true → shape.length = js.length := by
  intro shape
  induction shape with
  | nil => intro js h; cases js <;> simp_all [inside]
  | cons len ls ih =>
    intro js h
    cases js with
    | nil => simp [inside] at h
    | cons j js =>
      simp only [inside, Bool.and_eq_true] at h
      simp [ih js h.2]

variable {K : Type} [Field K] [LinearOrder K] [IsStrictOrderedRing K]

/-! ### mirror folding of the neighbours of an inside index -/

theorem edgeFold_range (len : Nat) (hlen : 0 < len) (i : Int) : 0 ≤ edgeFold len i ∧ edgeFold len i < (len : Int) := by
  unfold edgeFold
  cases h : fixOffset .mirror i len with
  | none => simp only [Option.getD_none]; omega
  | some r =>
    simp only [Option.getD_some]
    exact fixOffset_range .mirror i len (by omega) r h

theorem edgeFold_pred (n : Nat) (hn : 2 ≤ n) (j : Int) (h0 : 0 ≤ j) (h1 : j < n) :
    edgeFold n (j - 1) = if j = 0 then 1 else j - 1 := by
  by_cases hj : j = 0
  · subst hj
    rw [if_pos rfl]
    exact edgeFold_start n hn
  · rw [if_neg hj]
    exact edgeFold_inside n _ (by omega) (by omega)

theorem edgeFold_succ (n : Nat) (hn : 2 ≤ n) (j : Int) (h0 : 0 ≤ j) (h1 : j < n) :
    edgeFold n (j + 1) = if j + 1 = n then j - 1 else j + 1 := by
  by_cases hj : j + 1 = n
  · rw [if_pos hj, hj, edgeFold_end n hn]; omega
  · rw [if_neg hj]
    exact edgeFold_inside n _ (by omega) (by omega)

/-- **every sample, mirror boundaries, one statement**: with an exact pole and the exact initial value, the
    coefficients `c` of the one-pole filter satisfy `c[fold(j−1)] + λ·c[j] + c[fold(j+1)] = s[j]` at every `0 ≤ j < n` -/
theorem onePole_all (z lam c0 : K) (hz : z * z + lam * z + 1 = 0) (hz1 : z * z - 1 ≠ 0) (n : Nat) (hn : 2 ≤ n)
    (s : Nat → K) (hinit : MirrorInit z n s c0) (j : Int) (h0 : 0 ≤ j) (h1 : j < n) :
    onePole z c0 n s (edgeFold n (j - 1)).toNat + lam * onePole z c0 n s j.toNat
      + onePole z c0 n s (edgeFold n (j + 1)).toNat = s j.toNat := by
  rw [edgeFold_pred n hn j h0 h1, edgeFold_succ n hn j h0 h1]
  obtain ⟨i, rfl⟩ : ∃ i : Nat, j = (i : Int) := ⟨j.toNat, by omega⟩
  simp only [Int.toNat_natCast]
  by_cases hi0 : i = 0
  · subst hi0
    have e2 : ¬ (1 : Int) = (n : Int) := by omega
    simp only [Nat.cast_zero, if_true, zero_add]
    rw [if_neg e2]
    have := onePole_first z lam c0 hz hz1 n hn s hinit
    have t1 : (1 : Int).toNat = 1 := rfl
    rw [t1]
    linear_combination this
  · have e1 : ¬ ((i : Nat) : Int) = 0 := by omega
    simp only [e1, if_false]
    have t1 : ((i : Int) - 1).toNat = i - 1 := by omega
    by_cases hl : i + 1 = n
    · have e2 : ((i : Nat) : Int) + 1 = (n : Int) := by omega
      simp only [e2, if_true, t1]
      have := onePole_last z lam c0 hz hz1 n hn s
      have a1 : n - 2 = i - 1 := by omega
      have a2 : n - 1 = i := by omega
      rw [a1, a2] at this
      linear_combination this
    · have e2 : ¬ ((i : Nat) : Int) + 1 = (n : Int) := by omega
      have t2 : ((i : Int) + 1).toNat = i + 1 := by omega
      simp only [e2, if_false, t1, t2]
      exact onePole_interior z lam c0 hz n s i (by omega) (by omega)

/-! ### the separable prefilter as a function of the position -/

/-- `spline_filter`: along axis 0, then axis 1, …, every line `i ↦ g (…, i, …)` is replaced by `F len line` -/
def prefilterNd (F : Nat → (Nat → K) → Nat → K) : List Nat → (List Int → K) → List Int → K
  | len :: ls, g, i :: p =>
    prefilterNd F ls (fun p' => F len (fun i' => g (((i' : Nat) : Int) :: p')) i.toNat) p
  | _, g, p => g p

/-- one line of `spline_filter1d` for a single pole `z` (orders 2 and 3): lines of at most one sample are returned
    as they are, otherwise `line *= weight`, the causal pass from the initial value `ini len line`, the anti-causal
    pass (`onePole`, what `filterLine` runs) -/
def lineFilter1 (z w : K) (ini : Nat → (Nat → K) → K) (len : Nat) (s : Nat → K) (k : Nat) : K :=
  if len ≤ 1 then s k else onePole z (ini len (fun i => w * s i)) len (fun i => w * s i) k

/-! ### the nested sum only reads the knots -/

theorem nestedSum_congr : ∀ (axes : List (List Int × List K)) (s s' : List Int → K),
    (∀ pos, List.Forall₂ (fun (k : Int) (e : List Int × List K) => k ∈ e.1) pos axes → s pos = s' pos) →
    nestedSum s axes = nestedSum s' axes := by
  intro axes
  induction axes with
  | nil =>
    intro s s' h
    rw [nestedSum, nestedSum]
    exact h [] List.Forall₂.nil
  | cons e rest ih =>
    intro s s' h
    obtain ⟨idx, w⟩ := e
    rw [nestedSum, nestedSum]
    congr 1
    apply List.map_congr_left
    intro iw hiw
    have hk : iw.1 ∈ idx := (List.of_mem_zip (a := iw.1) (b := iw.2) (by simpa using hiw)).1
    rw [ih (fun pos => s (iw.1 :: pos)) (fun pos => s' (iw.1 :: pos))
      (fun pos hp => h (iw.1 :: pos) (List.Forall₂.cons hk hp))]

theorem splineAxes_knots_inside (fl : K → Int) (order : Nat) :
    ∀ (shape : List Nat) (cs : List K) (pos : List Int), (∀ len ∈ shape, 0 < len) → shape.length = cs.length →
      List.Forall₂ (fun (k : Int) (e : List Int × List K) => k ∈ e.1) pos (splineAxes fl order shape cs) →
      inside shape pos = true := by
  intro shape
  induction shape with
  | nil =>
    intro cs pos _ hl h
    cases cs with
    | nil =>
      simp only [splineAxes] at h
      cases h
      rfl
    | cons c cs => simp at hl
  | cons len ls ih =>
    intro cs pos hpos hl h
    cases cs with
    | nil => simp at hl
    | cons c cs =>
      simp only [splineAxes] at h
      cases h with
      | cons hk hrest =>
        rename_i k pos'
        simp only [List.mem_map] at hk
        obtain ⟨hh, _, rfl⟩ := hk
        have hr := edgeFold_range len (hpos len (by simp)) (startIdx fl order c + (hh : Nat))
        simp only [inside, Bool.and_eq_true, decide_eq_true_eq]
        exact ⟨⟨hr.1, hr.2⟩, ih cs pos' (fun l hl' => hpos l (by simp [hl'])) (by simpa using hl) hrest⟩

/-! ### the generic composition -/

/-- the combination `zoom_shift` forms along one axis of length `len` at the integer coordinate `j`, applied to a
    line of coefficients `c` -/
def axisComb (fl : K → Int) (order : Nat) (len : Nat) (c : Int → K) (j : Int) : K :=
  ((((List.range (order + 1)).map fun h => edgeFold len (startIdx fl order (j : K) + ((h : Nat) : Int))).zip
      (weights fl order (j : K))).map fun iw => iw.2 * c iw.1).sum

/-- if along every axis the line filter `F` inverts the per-axis combination (`hline`), the nested sum over the
    prefiltered array at an integer position inside the array returns the sample -/
theorem nested_prefilter (fl : K → Int) (order : Nat) (F : Nat → (Nat → K) → Nat → K) :
    ∀ (shape : List Nat) (js : List Int) (g : List Int → K),
      (∀ len ∈ shape, ∀ (s : Nat → K) (j : Int), 0 ≤ j → j < (len : Int) →
        axisComb fl order len (fun k => F len s k.toNat) j = s j.toNat) →
      inside shape js = true →
      nestedSum (prefilterNd F shape g) (splineAxes fl order shape (js.map fun (j : Int) => (j : K))) = g js := by
  intro shape
  induction shape with
  | nil =>
    intro js g _ hin
    cases js with
    | nil => simp [splineAxes, nestedSum, prefilterNd]
    | cons j js => simp [inside] at hin
  | cons len ls ih =>
    intro js g hline hin
    cases js with
    | nil => simp [inside] at hin
    | cons j js =>
      simp only [inside, Bool.and_eq_true, decide_eq_true_eq] at hin
      obtain ⟨⟨h0, h1⟩, hin'⟩ := hin
      simp only [List.map_cons, splineAxes]
      rw [nestedSum]
      have step : ∀ iw ∈ (((List.range (order + 1)).map fun h =>
            edgeFold len (startIdx fl order (j : K) + ((h : Nat) : Int))).zip (weights fl order (j : K))),
          iw.2 * nestedSum (fun pos => prefilterNd F (len :: ls) g (iw.1 :: pos))
              (splineAxes fl order ls (js.map fun (j : Int) => (j : K)))
            = iw.2 * (fun k : Int => F len (fun i' => g (((i' : Nat) : Int) :: js)) k.toNat) iw.1 := by
        intro iw _
        have e : (fun pos => prefilterNd F (len :: ls) g (iw.1 :: pos))
            = prefilterNd F ls (fun p' => F len (fun i' => g (((i' : Nat) : Int) :: p')) iw.1.toNat) := by
          funext pos; rfl
        rw [e, ih js _ (fun l hl => hline l (by simp [hl])) hin']
      rw [List.map_congr_left step]
      have := hline len (by simp) (fun i' => g (((i' : Nat) : Int) :: js)) j h0 h1
      unfold axisComb at this
      rw [this]
      have : ((j.toNat : Nat) : Int) = j := Int.toNat_of_nonneg h0
      rw [this]

/-! ### orders 2 and 3 -/

theorem axisComb2 {fl : K → Int} (h : IsFloor fl) (len : Nat) (c : Int → K) (j : Int) :
    axisComb fl 2 len c j
      = 1 / 8 * c (edgeFold len (j - 1)) + 3 / 4 * c (edgeFold len j) + 1 / 8 * c (edgeFold len (j + 1)) := by
  have r : List.range (2 + 1) = [0, 1, 2] := rfl
  have s : startIdx fl 2 (j : K) = j - 1 := by
    simp only [startIdx, q_half, h.int_half]; simp
  have e0 : j - 1 + ((0 : Nat) : Int) = j - 1 := by omega
  have e1 : j - 1 + ((1 : Nat) : Int) = j := by omega
  have e2 : j - 1 + ((2 : Nat) : Int) = j + 1 := by omega
  simp only [axisComb, r, s, weights_int2 h, List.map_cons, List.map_nil, List.zip_cons_cons, List.zip_nil_right,
    List.sum_cons, List.sum_nil, e0, e1, e2]
  ring

theorem axisComb3 {fl : K → Int} (h : IsFloor fl) (len : Nat) (c : Int → K) (j : Int) :
    axisComb fl 3 len c j
      = 1 / 6 * c (edgeFold len (j - 1)) + 2 / 3 * c (edgeFold len j) + 1 / 6 * c (edgeFold len (j + 1)) := by
  have r : List.range (3 + 1) = [0, 1, 2, 3] := rfl
  have s : startIdx fl 3 (j : K) = j - 1 := by simp [startIdx, h.int]
  have e0 : j - 1 + ((0 : Nat) : Int) = j - 1 := by omega
  have e1 : j - 1 + ((1 : Nat) : Int) = j := by omega
  have e2 : j - 1 + ((2 : Nat) : Int) = j + 1 := by omega
  simp only [axisComb, r, s, weights_int3 h, List.map_cons, List.map_nil, List.zip_cons_cons, List.zip_nil_right,
    List.sum_cons, List.sum_nil, e0, e1, e2]
  ring

/-- the hypothesis `hline` of `nested_prefilter` for one exact pole: `w = 2 + λ`, per-axis weights
    `(1, λ, 1)/(2 + λ)` (order 2: `λ = 6`, order 3: `λ = 4`) -/
theorem line_inverts (z lam : K) (hz : z * z + lam * z + 1 = 0) (hz1 : z * z - 1 ≠ 0) (hw : (2 + lam : K) ≠ 0)
    (ini : Nat → (Nat → K) → K) (len : Nat) (hlen : 2 ≤ len)
    (hini : ∀ s : Nat → K, MirrorInit z len s (ini len s)) (s : Nat → K) (j : Int) (h0 : 0 ≤ j)
    (h1 : j < (len : Int)) :
    1 / (2 + lam) * lineFilter1 z (2 + lam) ini len s (edgeFold len (j - 1)).toNat
      + lam / (2 + lam) * lineFilter1 z (2 + lam) ini len s (edgeFold len j).toNat
      + 1 / (2 + lam) * lineFilter1 z (2 + lam) ini len s (edgeFold len (j + 1)).toNat = s j.toNat := by
  have hl : ¬ len ≤ 1 := by omega
  simp only [lineFilter1, hl, if_false]
  rw [edgeFold_inside len j h0 h1]
  have := onePole_all z lam _ hz hz1 len hlen (fun i => (2 + lam) * s i) (hini _) j h0 h1
  field_simp
  linear_combination this

/-- in-range: an integer position inside the array -/
theorem inRange_of_inside : ∀ (shape : List Nat) (js : List Int), inside shape js = true →
    InRange shape (js.map fun (j : Int) => (j : K)) := by
  intro shape
  induction shape with
  | nil => intro js _; cases js <;> simp [InRange]
  | cons len ls ih =>
    intro js hin
    cases js with
    | nil => simp [InRange]
    | cons j js =>
      simp only [inside, Bool.and_eq_true, decide_eq_true_eq] at hin
      obtain ⟨⟨h0, h1⟩, hin'⟩ := hin
      simp only [List.map_cons, InRange]
      refine ⟨⟨by exact_mod_cast h0, ?_⟩, ih js hin'⟩
      have : j ≤ (len : Int) - 1 := by omega
      exact_mod_cast this

/-- `pixel` at coordinates that are an integer position inside the array = the nested sum of the per-axis
    combinations at that position, over any sample function that agrees with the image inside the array -/
theorem pixel_at_integer (fl : K → Int) (order : Nat) (m : Mode) (cval : K) (im : Img K)
    (shifts zooms : List (Option K)) (p js : List Int) (hpos : ∀ len ∈ im.shape, 0 < len)
    (hin : inside im.shape js = true)
    (hc : coordsOf im.shape p shifts zooms = js.map fun (j : Int) => (j : K))
    (c : List Int → K) (hdata : ∀ pos, inside im.shape pos = true → im.getD pos 0 = c pos) :
    pixel fl order m cval im shifts zooms p
      = nestedSum c (splineAxes fl order im.shape (js.map fun (j : Int) => (j : K))) := by
  have hr : InRange im.shape (coordsOf im.shape p shifts zooms) := by
    rw [hc]; exact inRange_of_inside im.shape js hin
  have e : pixel fl order m cval im shifts zooms p
      = nestedSum (fun pos => im.getD pos 0) (splineAxes fl order im.shape (coordsOf im.shape p shifts zooms)) := by
    unfold pixel
    rw [go_inrange fl order m im.shape p shifts zooms hr]
    have := tensorSum_eq_sum (fun pos => im.getD pos (0 : K))
      (splineAxes fl order im.shape (coordsOf im.shape p shifts zooms))
    simp only [Nat.cast_zero] at this ⊢
    rw [this]
    exact flat_eq_nested (splineAxes fl order im.shape (coordsOf im.shape p shifts zooms))
      (fun pos => im.getD pos (0 : K))
  rw [e, hc]
  apply nestedSum_congr
  intro pos hp
  apply hdata
  exact splineAxes_knots_inside fl order im.shape _ pos hpos
    (by rw [List.length_map]; exact inside_length im.shape js hin) hp

end Mahotas.C18
