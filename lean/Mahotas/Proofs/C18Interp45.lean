/-
C18 — the interpolation property for the two-pole orders 4 and 5 in any rank: the five-tap equations of the
two-pole prefilter at every sample (mirror boundaries: two folded knots per side) composed with the
tensor-product evaluation of `zoom_shift` at integer coordinates (`nested_prefilter`).

`lineFilterL` is one line of `spline_filter1d` for any list of poles: `line *= weight`, then for every pole the
causal pass from its initial value and the anti-causal pass (`onePole`), each pass on the output of the one before.
-/
import Mahotas.Proofs.C18Interp
import Mahotas.Proofs.C18BSplineW
set_option linter.unusedSectionVars false
set_option linter.unusedVariables false
namespace Mahotas.C18
open Mahotas

variable {K : Type} [Field K] [LinearOrder K] [IsStrictOrderedRing K]

/-- one line of `spline_filter1d`, any number of poles: lines of at most one sample are returned as they are;
    otherwise `line *= w` and, pole after pole, `line[0] = ini z len line`, causal pass, anti-causal pass -/
def lineFilterL (w : K) (ps : List K) (ini : K → Nat → (Nat → K) → K) (len : Nat) (s : Nat → K) : Nat → K :=
  if len ≤ 1 then s else ps.foldl (fun u z => onePole z (ini z len u) len u) (fun i => s i * w)

/-! ### two folded knots per side -/

theorem edgeFold_m2 (n : Nat) (hn : 4 ≤ n) : edgeFold n (-2) = 2 := by
  have a : ((-2 : Int) < 0) := by omega
  have c : ¬ ((n : Int) ≤ 1) := by omega
  have e : (-(-2 : Int)).tdiv (2 * (n : Int) - 2) = 0 := Int.tdiv_eq_zero_of_lt (by omega) (by omega)
  simp only [edgeFold, fixOffset, a, c, if_true, if_false, e, Int.mul_zero, Int.zero_add]
  by_cases h : (-2 : Int) ≤ 1 - (n : Int)
  · simp only [h, if_true, Option.getD_some]; omega
  · simp only [h, if_false, Option.getD_some]; omega

theorem edgeFold_end1 (n : Nat) (hn : 4 ≤ n) : edgeFold n ((n : Int) + 1) = (n : Int) - 3 := by
  have a : ¬ ((n : Int) + 1 < 0) := by omega
  have b : (n : Int) + 1 ≥ (n : Int) := by omega
  have c : ¬ ((n : Int) ≤ 1) := by omega
  have e : ((n : Int) + 1).tdiv (2 * (n : Int) - 2) = 0 := Int.tdiv_eq_zero_of_lt (by omega) (by omega)
  simp only [edgeFold, fixOffset, a, b, c, if_true, if_false, e, Int.mul_zero, Int.sub_zero]
  simp only [Option.getD_some]
  omega

theorem edgeFold_pred2 (n : Nat) (hn : 4 ≤ n) (j : Int) (h0 : 0 ≤ j) (h1 : j < n) :
    edgeFold n (j - 2) = if j = 0 then 2 else if j = 1 then 1 else j - 2 := by
  by_cases hj : j = 0
  · subst hj
    rw [if_pos rfl]
    exact edgeFold_m2 n hn
  · rw [if_neg hj]
    by_cases hj1 : j = 1
    · subst hj1
      rw [if_pos rfl]
      exact edgeFold_start n (by omega)
    · rw [if_neg hj1]
      exact edgeFold_inside n _ (by omega) (by omega)

theorem edgeFold_succ2 (n : Nat) (hn : 4 ≤ n) (j : Int) (h0 : 0 ≤ j) (h1 : j < n) :
    edgeFold n (j + 2) = if j + 1 = n then j - 2 else if j + 2 = n then j else j + 2 := by
  by_cases hj : j + 1 = n
  · rw [if_pos hj]
    have e : j + 2 = (n : Int) + 1 := by omega
    rw [e, edgeFold_end1 n hn]; omega
  · rw [if_neg hj]
    by_cases hj2 : j + 2 = n
    · rw [if_pos hj2, hj2, edgeFold_end n (by omega)]; omega
    · rw [if_neg hj2]
      exact edgeFold_inside n _ (by omega) (by omega)

/-- **every sample, mirror boundaries, two poles, one statement**: with exact poles and the exact initial values of
    both causal passes, the coefficients `c` of the two-pole filter satisfy
    `c[fold(j−2)] + (λ₁+λ₂)·c[fold(j−1)] + (2+λ₁λ₂)·c[j] + (λ₁+λ₂)·c[fold(j+1)] + c[fold(j+2)] = s[j]` at every `0 ≤ j < n` -/
theorem twoPole_all (z1 z2 l1 l2 c1 c2 : K) (h1 : z1 * z1 + l1 * z1 + 1 = 0)
    (h2 : z2 * z2 + l2 * z2 + 1 = 0) (hz1 : z1 * z1 - 1 ≠ 0) (hz2 : z2 * z2 - 1 ≠ 0)
    (n : Nat) (hn : 4 ≤ n) (s : Nat → K) (hi1 : MirrorInit z1 n s c1)
    (hi2 : MirrorInit z2 n (onePole z1 c1 n s) c2) (j : Int) (h0 : 0 ≤ j) (hj : j < n) :
    onePole z2 c2 n (onePole z1 c1 n s) (edgeFold n (j - 2)).toNat
      + (l1 + l2) * onePole z2 c2 n (onePole z1 c1 n s) (edgeFold n (j - 1)).toNat
      + (2 + l1 * l2) * onePole z2 c2 n (onePole z1 c1 n s) j.toNat
      + (l1 + l2) * onePole z2 c2 n (onePole z1 c1 n s) (edgeFold n (j + 1)).toNat
      + onePole z2 c2 n (onePole z1 c1 n s) (edgeFold n (j + 2)).toNat = s j.toNat := by
  rw [edgeFold_pred2 n hn j h0 hj, edgeFold_succ2 n hn j h0 hj, edgeFold_pred n (by omega) j h0 hj,
    edgeFold_succ n (by omega) j h0 hj]
  obtain ⟨i, rfl⟩ : ∃ i : Nat, j = (i : Int) := ⟨j.toNat, by omega⟩
  have first := twoPole_first z1 z2 l1 l2 c1 c2 h1 h2 hz1 hz2 n hn s hi1 hi2
  have last := twoPole_last z1 z2 l1 l2 c1 c2 h1 h2 hz1 hz2 n hn s
  simp only [] at first last
  simp only [Int.toNat_natCast]
  by_cases hi0 : i = 0
  · subst hi0
    have e1 : ¬ ((0 : Nat) : Int) + 1 = (n : Int) := by omega
    have e2 : ¬ ((0 : Nat) : Int) + 2 = (n : Int) := by omega
    simp only [Nat.cast_zero, if_true] at e1 e2 ⊢
    rw [if_neg e1, if_neg e1, if_neg e2]
    have t1 : ((0 : Int) + 1).toNat = 1 := rfl
    have t2 : ((0 : Int) + 2).toNat = 2 := rfl
    have t3 : (2 : Int).toNat = 2 := rfl
    have t4 : (1 : Int).toNat = 1 := rfl
    rw [t1, t2, t3, t4]
    exact first.1
  by_cases hi1' : i = 1
  · subst hi1'
    have e0 : ¬ ((1 : Nat) : Int) = 0 := by omega
    have e0' : ((1 : Nat) : Int) = 1 := rfl
    have e1 : ¬ ((1 : Nat) : Int) + 1 = (n : Int) := by omega
    have e2 : ¬ ((1 : Nat) : Int) + 2 = (n : Int) := by omega
    rw [if_neg e0, if_pos e0', if_neg e0, if_neg e1, if_neg e1, if_neg e2]
    have t0 : (((1 : Nat) : Int) - 1).toNat = 0 := rfl
    have t1 : (((1 : Nat) : Int) + 1).toNat = 2 := rfl
    have t2 : (((1 : Nat) : Int) + 2).toNat = 3 := rfl
    have t4 : (1 : Int).toNat = 1 := rfl
    rw [t0, t1, t2, t4]
    exact first.2
  have e0 : ¬ ((i : Nat) : Int) = 0 := by omega
  have e0' : ¬ ((i : Nat) : Int) = 1 := by omega
  rw [if_neg e0, if_neg e0', if_neg e0]
  have t1 : ((i : Int) - 1).toNat = i - 1 := by omega
  have t2 : ((i : Int) - 2).toNat = i - 2 := by omega
  rw [t1, t2]
  by_cases hl1 : i + 1 = n
  · have e1 : ((i : Nat) : Int) + 1 = (n : Int) := by omega
    rw [if_pos e1, if_pos e1, t1, t2]
    have a3 : n - 3 = i - 2 := by omega
    have a2 : n - 2 = i - 1 := by omega
    have a1 : n - 1 = i := by omega
    rw [a3, a2, a1] at last
    exact last.2
  by_cases hl2 : i + 2 = n
  · have e1 : ¬ ((i : Nat) : Int) + 1 = (n : Int) := by omega
    have e2 : ((i : Nat) : Int) + 2 = (n : Int) := by omega
    rw [if_neg e1, if_neg e1, if_pos e2]
    have t3 : ((i : Int) + 1).toNat = i + 1 := by omega
    rw [t3, Int.toNat_natCast]
    have a4 : n - 4 = i - 2 := by omega
    have a3 : n - 3 = i - 1 := by omega
    have a2 : n - 2 = i := by omega
    have a1 : n - 1 = i + 1 := by omega
    rw [a4, a3, a2, a1] at last
    exact last.1
  · have e1 : ¬ ((i : Nat) : Int) + 1 = (n : Int) := by omega
    have e2 : ¬ ((i : Nat) : Int) + 2 = (n : Int) := by omega
    rw [if_neg e1, if_neg e1, if_neg e2]
    have t3 : ((i : Int) + 1).toNat = i + 1 := by omega
    have t4 : ((i : Int) + 2).toNat = i + 2 := by omega
    rw [t3, t4]
    exact twoPole_interior z1 z2 l1 l2 c1 c2 h1 h2 n s i (by omega) (by omega)

/-- the two-pole five-tap equations on lines of 2 and 3 samples (every knot outside folds back, some of them twice) -/
theorem twoPole_all_small (z1 z2 l1 l2 c1 c2 : K) (h1 : z1 * z1 + l1 * z1 + 1 = 0)
    (h2 : z2 * z2 + l2 * z2 + 1 = 0) (hz1 : z1 * z1 - 1 ≠ 0) (hz2 : z2 * z2 - 1 ≠ 0)
    (n : Nat) (hn : n = 2 ∨ n = 3) (s : Nat → K) (hi1 : MirrorInit z1 n s c1)
    (hi2 : MirrorInit z2 n (onePole z1 c1 n s) c2) (j : Int) (h0 : 0 ≤ j) (hj : j < n) :
    onePole z2 c2 n (onePole z1 c1 n s) (edgeFold n (j - 2)).toNat
      + (l1 + l2) * onePole z2 c2 n (onePole z1 c1 n s) (edgeFold n (j - 1)).toNat
      + (2 + l1 * l2) * onePole z2 c2 n (onePole z1 c1 n s) j.toNat
      + (l1 + l2) * onePole z2 c2 n (onePole z1 c1 n s) (edgeFold n (j + 1)).toNat
      + onePole z2 c2 n (onePole z1 c1 n s) (edgeFold n (j + 2)).toNat = s j.toNat := by
  have t0 : (0 : Int).toNat = 0 := rfl
  have t1 : (1 : Int).toNat = 1 := rfl
  have t2 : (2 : Int).toNat = 2 := rfl
  rcases hn with rfl | rfl
  · have A := fun j h0 hj => onePole_all z1 l1 c1 h1 hz1 2 (by omega) s hi1 j h0 hj
    have B := fun j h0 hj => onePole_all z2 l2 c2 h2 hz2 2 (by omega) (onePole z1 c1 2 s) hi2 j h0 hj
    have f_m2 : edgeFold 2 (-2) = 0 := by decide
    have f_m1 : edgeFold 2 (-1) = 1 := by decide
    have f_0 : edgeFold 2 0 = 0 := by decide
    have f_1 : edgeFold 2 1 = 1 := by decide
    have f_2 : edgeFold 2 2 = 0 := by decide
    have f_3 : edgeFold 2 3 = 1 := by decide
    have hj' : j = 0 ∨ j = 1 := by omega
    rcases hj' with rfl | rfl
    · have a0 := A 0 (by omega) (by decide)
      have b0 := B 0 (by omega) (by decide)
      have b1 := B 1 (by omega) (by decide)
      norm_num [f_m2, f_m1, f_0, f_1, f_2, f_3, t0, t1, t2] at a0 b0 b1 ⊢
      linear_combination a0 + l1 * b0 + 2 * b1
    · have a1 := A 1 (by omega) (by decide)
      have b0 := B 0 (by omega) (by decide)
      have b1 := B 1 (by omega) (by decide)
      norm_num [f_m2, f_m1, f_0, f_1, f_2, f_3, t0, t1, t2] at a1 b0 b1 ⊢
      linear_combination a1 + l1 * b1 + 2 * b0
  · have A := fun j h0 hj => onePole_all z1 l1 c1 h1 hz1 3 (by omega) s hi1 j h0 hj
    have B := fun j h0 hj => onePole_all z2 l2 c2 h2 hz2 3 (by omega) (onePole z1 c1 3 s) hi2 j h0 hj
    have f_m2 : edgeFold 3 (-2) = 2 := by decide
    have f_m1 : edgeFold 3 (-1) = 1 := by decide
    have f_0 : edgeFold 3 0 = 0 := by decide
    have f_1 : edgeFold 3 1 = 1 := by decide
    have f_2 : edgeFold 3 2 = 2 := by decide
    have f_3 : edgeFold 3 3 = 1 := by decide
    have f_4 : edgeFold 3 4 = 0 := by decide
    have hj' : j = 0 ∨ j = 1 ∨ j = 2 := by omega
    rcases hj' with rfl | rfl | rfl
    · have a0 := A 0 (by omega) (by decide)
      have b0 := B 0 (by omega) (by decide)
      have b1 := B 1 (by omega) (by decide)
      norm_num [f_m2, f_m1, f_0, f_1, f_2, f_3, f_4, t0, t1, t2] at a0 b0 b1 ⊢
      linear_combination a0 + l1 * b0 + 2 * b1
    · have a1 := A 1 (by omega) (by decide)
      have b0 := B 0 (by omega) (by decide)
      have b1 := B 1 (by omega) (by decide)
      have b2 := B 2 (by omega) (by decide)
      norm_num [f_m2, f_m1, f_0, f_1, f_2, f_3, f_4, t0, t1, t2] at a1 b0 b1 b2 ⊢
      linear_combination a1 + b0 + l1 * b1 + b2
    · have a2 := A 2 (by omega) (by decide)
      have b1 := B 1 (by omega) (by decide)
      have b2 := B 2 (by omega) (by decide)
      norm_num [f_m2, f_m1, f_0, f_1, f_2, f_3, f_4, t0, t1, t2] at a2 b1 b2 ⊢
      linear_combination a2 + l1 * b2 + 2 * b1

/-! ### the per-axis combination at integer coordinates, orders 4 and 5 -/

theorem axisComb4 {fl : K → Int} (h : IsFloor fl) (len : Nat) (c : Int → K) (j : Int) :
    axisComb fl 4 len c j
      = 1 / 384 * c (edgeFold len (j - 2)) + 19 / 96 * c (edgeFold len (j - 1)) + 115 / 192 * c (edgeFold len j)
        + 19 / 96 * c (edgeFold len (j + 1)) + 1 / 384 * c (edgeFold len (j + 2)) := by
  have r : List.range (4 + 1) = [0, 1, 2, 3, 4] := rfl
  have s : startIdx fl 4 (j : K) = j - 2 := by
    simp only [startIdx, q_half, h.int_half]; simp
  have e0 : j - 2 + ((0 : Nat) : Int) = j - 2 := by omega
  have e1 : j - 2 + ((1 : Nat) : Int) = j - 1 := by omega
  have e2 : j - 2 + ((2 : Nat) : Int) = j := by omega
  have e3 : j - 2 + ((3 : Nat) : Int) = j + 1 := by omega
  have e4 : j - 2 + ((4 : Nat) : Int) = j + 2 := by omega
  simp only [axisComb, r, s, weights_int4 h, List.map_cons, List.map_nil, List.zip_cons_cons, List.zip_nil_right,
    List.sum_cons, List.sum_nil, e0, e1, e2, e3, e4]
  ring

theorem axisComb5 {fl : K → Int} (h : IsFloor fl) (len : Nat) (c : Int → K) (j : Int) :
    axisComb fl 5 len c j
      = 1 / 120 * c (edgeFold len (j - 2)) + 13 / 60 * c (edgeFold len (j - 1)) + 11 / 20 * c (edgeFold len j)
        + 13 / 60 * c (edgeFold len (j + 1)) + 1 / 120 * c (edgeFold len (j + 2)) := by
  have r : List.range (5 + 1) = [0, 1, 2, 3, 4, 5] := rfl
  have s : startIdx fl 5 (j : K) = j - 2 := by simp [startIdx, h.int]
  have e0 : j - 2 + ((0 : Nat) : Int) = j - 2 := by omega
  have e1 : j - 2 + ((1 : Nat) : Int) = j - 1 := by omega
  have e2 : j - 2 + ((2 : Nat) : Int) = j := by omega
  have e3 : j - 2 + ((3 : Nat) : Int) = j + 1 := by omega
  have e4 : j - 2 + ((4 : Nat) : Int) = j + 2 := by omega
  simp only [axisComb, r, s, weights_int5 h, List.map_cons, List.map_nil, List.zip_cons_cons, List.zip_nil_right,
    List.sum_cons, List.sum_nil, e0, e1, e2, e3, e4]
  ring

/-- the hypothesis `hline` of `nested_prefilter` for two exact poles: `w = (2 + λ₁)(2 + λ₂) = 4 + 2(λ₁+λ₂) + λ₁λ₂`,
    per-axis weights `(1, λ₁+λ₂, 2+λ₁λ₂, λ₁+λ₂, 1)/w` -/
theorem line_inverts2 (z1 z2 l1 l2 w : K) (h1 : z1 * z1 + l1 * z1 + 1 = 0) (h2 : z2 * z2 + l2 * z2 + 1 = 0)
    (hz1 : z1 * z1 - 1 ≠ 0) (hz2 : z2 * z2 - 1 ≠ 0) (hw : w ≠ 0)
    (ini : K → Nat → (Nat → K) → K) (len : Nat) (hlen : 2 ≤ len)
    (hini : ∀ z, z = z1 ∨ z = z2 → ∀ s : Nat → K, MirrorInit z len s (ini z len s)) (s : Nat → K) (j : Int)
    (h0 : 0 ≤ j) (hj : j < (len : Int)) :
    let c := fun k : Int => lineFilterL w [z1, z2] ini len s k.toNat
    c (edgeFold len (j - 2)) + (l1 + l2) * c (edgeFold len (j - 1)) + (2 + l1 * l2) * c (edgeFold len j)
      + (l1 + l2) * c (edgeFold len (j + 1)) + c (edgeFold len (j + 2)) = w * s j.toNat := by
  intro c
  have hl : ¬ len ≤ 1 := by omega
  simp only [c, lineFilterL, hl, if_false, List.foldl_cons, List.foldl_nil]
  rw [edgeFold_inside len j h0 hj]
  by_cases h4 : 4 ≤ len
  · have := twoPole_all z1 z2 l1 l2 _ _ h1 h2 hz1 hz2 len h4 (fun i => s i * w)
      (hini z1 (Or.inl rfl) _) (hini z2 (Or.inr rfl) _) j h0 hj
    linear_combination this
  · have := twoPole_all_small z1 z2 l1 l2 _ _ h1 h2 hz1 hz2 len (by omega) (fun i => s i * w)
      (hini z1 (Or.inl rfl) _) (hini z2 (Or.inr rfl) _) j h0 hj
    linear_combination this

end Mahotas.C18
