/-
C18 — integer shifts at order 3 on a line: `zoom_shift` applied to coefficients that satisfy the
sampled-B-spline equations returns the samples (composition of `weights_int3`, the mirror folding and the
prefilter lemmas).
-/
import Mahotas.Proofs.C18Shift
import Mahotas.Proofs.C18Filter
namespace Mahotas.C18
open Mahotas

variable {K : Type} [Field K] [LinearOrder K] [IsStrictOrderedRing K]

/-- the mirror folding of the first knot beyond the end: `c[n] = c[n−2]` -/
theorem edgeFold_end (n : Nat) (hn : 2 ≤ n) : edgeFold n (n : Int) = (n : Int) - 2 := by
  have a : ¬ ((n : Int) < 0) := by omega
  have b : (n : Int) ≥ (n : Int) := le_refl _
  have c : ¬ ((n : Int) ≤ 1) := by omega
  simp only [edgeFold, fixOffset, a, b, c, if_true, if_false, ge_iff_le]
  by_cases h2 : n = 2
  · subst h2; decide
  · have h3 : (n : Int) < 2 * (n : Int) - 2 := by omega
    have e : (n : Int).tdiv (2 * (n : Int) - 2) = 0 := Int.tdiv_eq_zero_of_lt (by omega) h3
    simp only [e, Int.mul_zero, Int.sub_zero, le_refl, if_true, Option.getD_some]
    omega

/-- one output sample of `zoom_shift`, order 3, on a line of length `n`, at the integer coordinate `i`
    (`1 ≤ i ≤ n−1`): the sampled cubic B-spline combination of the coefficients around `i`, with the mirrored
    knot at the end -/
theorem pixel3_line {fl : K → Int} (h : IsFloor fl) (m : Mode) (cval : K) (im : Img K) (n : Nat)
    (hshape : im.shape = [n]) (kk d : Int) (i : Nat) (hkk : 0 ≤ kk) (hi : kk - d = (i : Int))
    (h1 : 1 ≤ i) (h2 : i + 1 ≤ n) :
    pixel fl 3 m cval im [some (-(d : K))] [none] [kk]
      = 1 / 6 * im.getD [((i : Int) - 1)] 0 + 2 / 3 * im.getD [(i : Int)] 0
        + 1 / 6 * im.getD [(if i + 1 = n then (i : Int) - 1 else (i : Int) + 1)] 0 := by
  have hc : coord kk.toNat (some (-(d : K))) none = (((i : Nat) : Int) : K) := by
    have : ((kk.toNat : Nat) : K) = (kk : K) := by
      have e : ((kk.toNat : Nat) : Int) = kk := Int.toNat_of_nonneg hkk
      rw [← Int.cast_natCast, e]
    rw [← hi]
    simp only [coord, this]; push_cast; ring
  have hm : mapCoord fl m n ((((i : Nat) : Int)) : K) = some ((((i : Nat) : Int)) : K) := by
    rw [mapCoord_int h]
    have c : 0 ≤ ((i : Nat) : Int) ∧ ((i : Nat) : Int) ≤ (n : Int) - 1 := by omega
    simp only [c, and_self, if_true]
  have hs : startIdx fl 3 ((((i : Nat) : Int)) : K) = (i : Int) - 1 := by
    unfold startIdx
    rw [if_pos (by decide), h.int]
    norm_num
  have r : List.range (3 + 1) = [0, 1, 2, 3] := rfl
  have k0 : edgeFold n ((i : Int) - 1 + ((0 : Nat) : Int)) = (i : Int) - 1 := by
    have e : (i : Int) - 1 + ((0 : Nat) : Int) = (i : Int) - 1 := by omega
    rw [e]; exact edgeFold_inside n _ (by omega) (by omega)
  have k1 : edgeFold n ((i : Int) - 1 + ((1 : Nat) : Int)) = (i : Int) := by
    have e : (i : Int) - 1 + ((1 : Nat) : Int) = (i : Int) := by omega
    rw [e]; exact edgeFold_inside n _ (by omega) (by omega)
  have k2 : edgeFold n ((i : Int) - 1 + ((2 : Nat) : Int))
      = (if i + 1 = n then (i : Int) - 1 else (i : Int) + 1) := by
    by_cases e : i + 1 = n
    · have e' : (i : Int) - 1 + ((2 : Nat) : Int) = (n : Int) := by omega
      rw [e', edgeFold_end n (by omega), if_pos e]; omega
    · have e' : (i : Int) - 1 + ((2 : Nat) : Int) = (i : Int) + 1 := by omega
      rw [e', edgeFold_inside n _ (by omega) (by omega), if_neg e]
  unfold pixel
  simp only [hshape, pixel.go, hc, axisEntry, hm, hs, r, List.map_cons, List.map_nil, k0, k1, k2,
    weights_int3 h]
  simp [tensorSum, tensorTerms]
  ring

end Mahotas.C18
