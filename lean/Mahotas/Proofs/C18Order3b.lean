/-
C18 — integer shifts at order 3 on a line, source index 0: the knot before the start folds to `c[1]`.
-/
import Mahotas.Proofs.C18Order3
import Mahotas.Proofs.C18Init
namespace Mahotas.C18
open Mahotas
variable {K : Type} [Field K] [LinearOrder K] [IsStrictOrderedRing K]

/-- the mirror folding of the first knot before the start: `c[−1] = c[1]` -/
theorem edgeFold_start (n : Nat) (hn : 2 ≤ n) : edgeFold n (-1) = 1 := by
  have a : ((-1 : Int) < 0) := by omega
  have c : ¬ ((n : Int) ≤ 1) := by omega
  have e : (-(-1 : Int)).tdiv (2 * (n : Int) - 2) = 0 := Int.tdiv_eq_zero_of_lt (by omega) (by omega)
  simp only [edgeFold, fixOffset, a, c, if_true, if_false, e, Int.mul_zero, Int.zero_add]
  by_cases h : (-1 : Int) ≤ 1 - (n : Int)
  · simp only [h, if_true, Option.getD_some]; omega
  · simp only [h, if_false, Option.getD_some]; omega

/-- one output sample of `zoom_shift`, order 3, on a line of length `n ≥ 2`, at the integer coordinate 0 -/
theorem pixel3_line0 {fl : K → Int} (h : IsFloor fl) (m : Mode) (cval : K) (im : Img K) (n : Nat)
    (hn : 2 ≤ n) (hshape : im.shape = [n]) (kk d : Int) (hkk : 0 ≤ kk) (hi : kk - d = 0) :
    pixel fl 3 m cval im [some (-(d : K))] [none] [kk]
      = 1 / 6 * im.getD [1] 0 + 2 / 3 * im.getD [0] 0 + 1 / 6 * im.getD [1] 0 := by
  have hc : coord kk.toNat (some (-(d : K))) none = (((0 : Int)) : K) := by
    have : ((kk.toNat : Nat) : K) = (kk : K) := by
      have e : ((kk.toNat : Nat) : Int) = kk := Int.toNat_of_nonneg hkk
      rw [← Int.cast_natCast, e]
    rw [← hi]
    simp only [coord, this]; push_cast; ring
  have hm : mapCoord fl m n (((0 : Int)) : K) = some (((0 : Int)) : K) := by
    rw [mapCoord_int h]
    have c : 0 ≤ (0 : Int) ∧ (0 : Int) ≤ (n : Int) - 1 := by omega
    simp only [c, and_self, if_true]
  have hs : startIdx fl 3 (((0 : Int)) : K) = -1 := by
    unfold startIdx
    rw [if_pos (by decide), h.int]
    norm_num
  have r : List.range (3 + 1) = [0, 1, 2, 3] := rfl
  have k0 : edgeFold n ((-1 : Int) + ((0 : Nat) : Int)) = 1 := by
    have e : (-1 : Int) + ((0 : Nat) : Int) = -1 := by omega
    rw [e]; exact edgeFold_start n hn
  have k1 : edgeFold n ((-1 : Int) + ((1 : Nat) : Int)) = 0 := by
    have e : (-1 : Int) + ((1 : Nat) : Int) = 0 := by omega
    rw [e]; exact edgeFold_inside n _ (by omega) (by omega)
  have k2 : edgeFold n ((-1 : Int) + ((2 : Nat) : Int)) = 1 := by
    have e : (-1 : Int) + ((2 : Nat) : Int) = 1 := by omega
    rw [e]; exact edgeFold_inside n _ (by omega) (by omega)
  unfold pixel
  simp only [hshape, pixel.go, hc, axisEntry, hm, hs, r, List.map_cons, List.map_nil, k0, k1, k2,
    weights_int3 h]
  simp [tensorSum, tensorTerms]
  ring
end Mahotas.C18
