/-
C18 — the wrappers of `resize.py` (`resizeTo`, `imresizeInt`, `resizeRgbTo` of `Model/C18.lean`): requested shape,
and the per-channel structure of `resize_rgb_to`.
-/
import Mahotas.Proofs.C18
import Mahotas.Proofs.C04Index
set_option linter.unusedSectionVars false
set_option linter.unusedVariables false
namespace Mahotas.C18
open Mahotas

theorem tabulate_getD' {α : Type} (shape : List Nat) (f : List Int → α) (p : List Int) (d : α)
    (hp : inside shape p = true) : (Img.tabulate shape f).getD p d = f p := by
  unfold Img.getD Img.tabulate allPos
  simp only [hp, if_true, List.map_map]
  have hlt := C04.ravelI_lt shape p hp
  simp only [Array.getD_eq_getD_getElem?, List.getElem?_toArray, List.getElem?_map,
    List.getElem?_range hlt, Option.map_some, Option.getD_some, Function.comp]
  rw [C04.unravelI_ravelI shape p hp]

variable {K : Type} [Field K] [LinearOrder K] [IsStrictOrderedRing K]

theorem resizeTo_some (fl : K → Int) (pre : Img K → Img K) (order : Nat) (im : Img K) (nsize : List Nat)
    (hl : nsize.length = im.shape.length) :
    resizeTo fl pre order im nsize = some (zoomGlue fl order .constant 0 (pre im) nsize) := by
  unfold resizeTo
  rw [if_neg (by simp [hl])]
  simp

theorem resizeTo_none (fl : K → Int) (pre : Img K → Img K) (order : Nat) (im : Img K) (nsize : List Nat)
    (hl : nsize.length ≠ im.shape.length) : resizeTo fl pre order im nsize = none := by
  unfold resizeTo
  rw [if_pos hl]

theorem channel_shape (im : Img K) (c : Nat) : (channel im c).shape = im.shape.take 2 := rfl

theorem channel_getD (im : Img K) (h w k : Nat) (hs : im.shape = [h, w, k]) (c : Nat) (y x : Int)
    (hy : 0 ≤ y ∧ y < h) (hx : 0 ≤ x ∧ x < w) :
    (channel im c).getD [y, x] 0 = im.getD [y, x, (c : Int)] 0 := by
  unfold channel
  rw [hs]
  have hin : inside (List.take 2 [h, w, k]) [y, x] = true := by
    simp [inside, hy.1, hy.2, hx.1, hx.2]
  rw [tabulate_getD' _ _ _ _ hin]
  simp

/-- `resize_rgb_to` on an `(h, w, 3)` array with a two-element size: the stack of the three resized channels -/
theorem resizeRgbTo_some (fl : K → Int) (pre : Img K → Img K) (order : Nat) (im : Img K) (h w : Nat)
    (hs : im.shape = [h, w, 3]) (nsize : List Nat) (hl : nsize.length = 2) :
    resizeRgbTo fl pre order im nsize
      = some (dstack nsize ((List.range 3).map fun c =>
          zoomGlue fl order .constant 0 (pre (channel im c)) nsize)) := by
  have hc : ∀ c, resizeTo fl pre order (channel im c) nsize
      = some (zoomGlue fl order .constant 0 (pre (channel im c)) nsize) := by
    intro c
    apply resizeTo_some
    rw [channel_shape, hs, hl]; rfl
  unfold resizeRgbTo
  have e1 : ¬ (im.shape.length ≠ 3 ∨ im.shape.getD 2 0 ≠ 3) := by rw [hs]; simp
  rw [if_neg e1]
  have r : List.range 3 = [0, 1, 2] := rfl
  simp only [r, List.filterMap_cons, List.filterMap_nil, hc, List.map_cons, List.map_nil, List.length_cons,
    List.length_nil]
  simp

end Mahotas.C18
