/-
C18 — the output shape a zoom factor asks for (`zoomOutShape`: `int(s * z)` per axis) and the truncation of the
interpolated values to an integer dtype (`castToInt`), over an ordered field with a floor function.
-/
import Mahotas.Proofs.C18
set_option linter.unusedSectionVars false
set_option linter.unusedVariables false
namespace Mahotas.C18
open Mahotas

variable {K : Type} [Field K] [LinearOrder K] [IsStrictOrderedRing K]

theorem IsFloor.mono {fl : K → Int} (h : IsFloor fl) (a b : K) (hab : a ≤ b) : fl a ≤ fl b := by
  obtain ⟨a0, _⟩ := h a
  obtain ⟨_, b1⟩ := h b
  have l : ((fl a : Int) : K) < ((fl b + 1 : Int) : K) := by push_cast; linarith
  have := Int.cast_lt.mp l
  omega

theorem IsFloor.nonneg {fl : K → Int} (h : IsFloor fl) (a : K) (ha : 0 ≤ a) : 0 ≤ fl a := by
  have := h.mono 0 a ha
  have z : fl (0 : K) = 0 := by simpa using h.int 0
  omega

theorem truncI_nonneg (fl : K → Int) (v : K) (hv : 0 ≤ v) : truncI fl v = fl v := by
  unfold truncI
  rw [if_neg (by rw [Nat.cast_zero]; exact not_lt.mpr hv)]

theorem truncI_neg (fl : K → Int) (v : K) (hv : v < 0) : truncI fl v = -(fl (-v)) := by
  unfold truncI
  rw [if_pos (by rw [Nat.cast_zero]; exact hv)]

theorem truncI_int {fl : K → Int} (h : IsFloor fl) (n : Int) : truncI fl (n : K) = n := by
  by_cases hn : (n : K) < 0
  · rw [truncI_neg fl _ hn]
    have e : -(n : K) = ((-n : Int) : K) := by push_cast; ring
    rw [e, h.int]; omega
  · rw [truncI_nonneg fl _ (not_lt.mp hn), h.int]

theorem truncI_mono {fl : K → Int} (h : IsFloor fl) (a b : K) (hab : a ≤ b) : truncI fl a ≤ truncI fl b := by
  by_cases ha : a < 0
  · by_cases hb : b < 0
    · rw [truncI_neg fl a ha, truncI_neg fl b hb]
      have := h.mono (-b) (-a) (by linarith)
      omega
    · rw [truncI_neg fl a ha, truncI_nonneg fl b (not_lt.mp hb)]
      have p := h.nonneg (-a) (by linarith)
      have q' := h.nonneg b (not_lt.mp hb)
      omega
  · have hb : 0 ≤ b := le_trans (not_lt.mp ha) hab
    rw [truncI_nonneg fl a (not_lt.mp ha), truncI_nonneg fl b hb]
    exact h.mono a b hab

/-- truncation toward zero: the result lies between 0 and `v`, less than one away from `v` -/
theorem truncI_bounds {fl : K → Int} (h : IsFloor fl) (v : K) :
    (0 ≤ v → 0 ≤ truncI fl v ∧ ((truncI fl v : Int) : K) ≤ v ∧ v < ((truncI fl v : Int) : K) + 1) ∧
    (v ≤ 0 → truncI fl v ≤ 0 ∧ v ≤ ((truncI fl v : Int) : K) ∧ ((truncI fl v : Int) : K) - 1 < v) := by
  constructor
  · intro hv
    rw [truncI_nonneg fl v hv]
    exact ⟨h.nonneg v hv, (h v).1, (h v).2⟩
  · intro hv
    rcases lt_or_eq_of_le hv with hlt | heq
    · rw [truncI_neg fl v hlt]
      have p := h.nonneg (-v) (by linarith)
      obtain ⟨a, b⟩ := h (-v)
      refine ⟨by omega, ?_, ?_⟩ <;> push_cast <;> linarith
    · subst heq
      have z : truncI fl (0 : K) = 0 := by simpa using truncI_int h 0
      rw [z]; simp

theorem zoomOutLen_one {fl : K → Int} (h : IsFloor fl) (s : Nat) : zoomOutLen fl s (1 : K) = s := by
  unfold zoomOutLen
  rw [mul_one]
  have := truncI_int h (s : Int)
  simpa using this

theorem zoomOutLen_nat {fl : K → Int} (h : IsFloor fl) (s k : Nat) :
    zoomOutLen fl s ((k : Nat) : K) = (s : Int) * (k : Int) := by
  unfold zoomOutLen
  have := truncI_int h ((s : Int) * (k : Int))
  push_cast at this
  exact this

theorem zoomOutLen_mono {fl : K → Int} (h : IsFloor fl) (s : Nat) (z z' : K) (hz : z ≤ z') :
    zoomOutLen fl s z ≤ zoomOutLen fl s z' := by
  unfold zoomOutLen
  exact truncI_mono h _ _ (mul_le_mul_of_nonneg_left hz (Nat.cast_nonneg s))

/-- the requested shape: lengths and entries of a successful `zoomOutShape` -/
theorem zoomOutShape_some (fl : K → Int) : ∀ (shape : List Nat) (zs : List K) (os : List Nat),
    zoomOutShape fl shape zs = some os →
      zs.length = shape.length ∧ os.length = shape.length ∧
      os.map (fun (o : Nat) => (o : Int)) = List.zipWith (zoomOutLen fl) shape zs := by
  intro shape
  induction shape with
  | nil =>
    intro zs os hs
    cases zs with
    | nil => simp [zoomOutShape] at hs; subst hs; simp
    | cons z zs => simp [zoomOutShape] at hs
  | cons s ss ih =>
    intro zs os hs
    cases zs with
    | nil => simp [zoomOutShape] at hs
    | cons z zs =>
      simp only [zoomOutShape] at hs
      by_cases ht : zoomOutLen fl s z < 0
      · rw [if_pos ht] at hs; cases hs
      · rw [if_neg ht] at hs
        cases hr : zoomOutShape fl ss zs with
        | none => rw [hr] at hs; cases hs
        | some r =>
          rw [hr] at hs
          simp only [Option.some.injEq] at hs
          subst hs
          obtain ⟨a, b, c⟩ := ih zs r hr
          refine ⟨by simp [a], by simp [b], ?_⟩
          simp only [List.map_cons, List.zipWith_cons_cons, c]
          congr 1
          omega

theorem zoomOutShape_length_ne (fl : K → Int) : ∀ (shape : List Nat) (zs : List K),
    zs.length ≠ shape.length → zoomOutShape fl shape zs = none := by
  intro shape zs hl
  cases h : zoomOutShape fl shape zs with
  | none => rfl
  | some os => exact absurd (zoomOutShape_some fl shape zs os h).1 hl

/-- factors that are all non-negative never raise -/
theorem zoomOutShape_nonneg {fl : K → Int} (h : IsFloor fl) : ∀ (shape : List Nat) (zs : List K),
    zs.length = shape.length → (∀ z ∈ zs, 0 ≤ z) → ∃ os, zoomOutShape fl shape zs = some os := by
  intro shape
  induction shape with
  | nil =>
    intro zs hl _
    cases zs with
    | nil => exact ⟨[], rfl⟩
    | cons z zs => simp at hl
  | cons s ss ih =>
    intro zs hl hz
    cases zs with
    | nil => simp at hl
    | cons z zs =>
      obtain ⟨r, hr⟩ := ih zs (by simpa using hl) (fun z' hz' => hz z' (by simp [hz']))
      have hnn : ¬ zoomOutLen fl s z < 0 := by
        have : 0 ≤ (s : K) * z := mul_nonneg (Nat.cast_nonneg s) (hz z (by simp))
        have := ((truncI_bounds h _).1 this).1
        unfold zoomOutLen; omega
      exact ⟨(zoomOutLen fl s z).toNat :: r, by simp only [zoomOutShape, if_neg hnn, hr]⟩

/-- the factor 1 (scalar, broadcast to every axis) asks for the input's own shape -/
theorem zoomOutShape_unit {fl : K → Int} (h : IsFloor fl) : ∀ (shape : List Nat),
    zoomOutShape fl shape (List.replicate shape.length (1 : K)) = some shape := by
  intro shape
  induction shape with
  | nil => rfl
  | cons s ss ih =>
    have hnn : ¬ zoomOutLen fl s (1 : K) < 0 := by rw [zoomOutLen_one h]; omega
    simp only [List.length_cons, List.replicate_succ, zoomOutShape, ih, zoomOutLen_one h]
    simp

/-- integer factors `k_r` ask for exact multiples `s_r · k_r` -/
theorem zoomOutShape_nat {fl : K → Int} (h : IsFloor fl) : ∀ (shape ks : List Nat), ks.length = shape.length →
    zoomOutShape fl shape (ks.map fun (k : Nat) => (k : K)) = some (List.zipWith (· * ·) shape ks) := by
  intro shape
  induction shape with
  | nil =>
    intro ks hl
    cases ks with
    | nil => rfl
    | cons k ks => simp at hl
  | cons s ss ih =>
    intro ks hl
    cases ks with
    | nil => simp at hl
    | cons k ks =>
      have hnn : ¬ zoomOutLen fl s ((k : Nat) : K) < 0 := by
        rw [zoomOutLen_nat h]; have := Int.mul_nonneg (Int.natCast_nonneg s) (Int.natCast_nonneg k); omega
      simp only [List.map_cons, zoomOutShape, ih ks (by simpa using hl), zoomOutLen_nat h,
        List.zipWith_cons_cons]
      have e : ((s : Int) * (k : Int)).toNat = s * k := by rw [← Int.natCast_mul, Int.toNat_natCast]
      have hnn' : ¬ (s : Int) * (k : Int) < 0 := by rw [zoomOutLen_nat h] at hnn; exact hnn
      simp [hnn', e]

/-! ### integer dtypes -/

theorem castToInt_int {fl : K → Int} (h : IsFloor fl) (dt : DT) (n : Int) (hlo : dt.lo ≤ n) (hhi : n ≤ dt.hi) :
    castToInt fl dt (n : K) = some n := by
  unfold castToInt
  simp only [truncI_int h, hlo, hhi, and_self, if_true]

theorem castToInt_some (fl : K → Int) (dt : DT) (v : K) (t : Int) (hc : castToInt fl dt v = some t) :
    t = truncI fl v ∧ dt.lo ≤ t ∧ t ≤ dt.hi := by
  unfold castToInt at hc
  by_cases hr : dt.lo ≤ truncI fl v ∧ truncI fl v ≤ dt.hi
  · simp only [hr, and_self, if_true, Option.some.injEq] at hc
    subst hc
    exact ⟨rfl, hr.1, hr.2⟩
  · simp only [hr, if_false] at hc
    cases hc

end Mahotas.C18
