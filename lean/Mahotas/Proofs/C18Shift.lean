/-
C18 — the specification of an integer shift (`shiftPos`) and the lemma that `zoom_shift`'s per-axis
precomputation agrees with it at order 1 (used by `C18_integer_shift_exact`).
-/
import Mahotas.Proofs.C18
namespace Mahotas.C18
open Mahotas

/-- where an integer shift reads along one axis: inside the array the sample itself, outside the sample
    the border rule of the mode assigns (the mathematical `borderSpec`), or nothing (`constant`/`ignore`) -/
def shiftIndex (m : Mode) (len : Nat) (n : Int) : Option Int :=
  if 0 ≤ n ∧ n ≤ (len : Int) - 1 then some n else borderSpec m n len

/-- the source position of output position `p` under the integer shift `d`, axis by axis -/
def shiftPos (m : Mode) : List Nat → List Int → List Int → Option (List Int)
  | len :: ls, kk :: ks, d :: ds =>
    match shiftIndex m len (kk - d), shiftPos m ls ks ds with
    | some j, some js => some (j :: js)
    | _, _ => none
  | _, _, _ => some []

section
variable {K : Type} [Field K] [LinearOrder K] [IsStrictOrderedRing K]

/-- order 1 at an integer coordinate `n`: what `zoom_shift` precomputes along the axis -/
theorem axisEntry_int {fl : K → Int} (h : IsFloor fl) (m : Mode) (len : Nat) (hlen : 0 < len) (n : Int) :
    axisEntry fl 1 m len ((n : Int) : K)
      = (shiftIndex m len n).map fun j => ([j, edgeFold len (j + 1)], [(1 : K), 0]) := by
  unfold axisEntry
  rw [mapCoord_int h]
  unfold shiftIndex
  rw [← fixOffset_eq_spec m n len (by exact_mod_cast hlen)]
  by_cases c : 0 ≤ n ∧ n ≤ (len : Int) - 1
  · have r : List.range (1 + 1) = [0, 1] := rfl
    obtain ⟨s1, s2⟩ := axisEntry_int1 h len n
    simp only [c, and_self, if_true, Option.map_some, s1, s2, r, List.map_cons, List.map_nil]
    rw [edgeFold_inside len (n + ((0 : Nat) : Int)) (by simp; omega) (by simp; omega)]
    simp
  · simp only [c, if_false]
    cases hf : fixOffset m n len with
    | none => simp
    | some j =>
      have rg := fixOffset_range m n len (by exact_mod_cast hlen) j hf
      have r : List.range (1 + 1) = [0, 1] := rfl
      obtain ⟨s1, s2⟩ := axisEntry_int1 h len j
      simp only [Option.map_some, s1, s2, r, List.map_cons, List.map_nil]
      rw [edgeFold_inside len (j + ((0 : Nat) : Int)) (by simp; omega) (by simp; omega)]
      simp

/-- the knot entries `zoom_shift` precomputes for an integer shift, order 1 -/
theorem go_int {fl : K → Int} (h : IsFloor fl) (m : Mode) :
    ∀ (shape : List Nat) (p ds : List Int), (∀ len ∈ shape, 0 < len) → (∀ kk ∈ p, 0 ≤ kk) →
      pixel.go fl 1 m shape p (ds.map fun (d : Int) => some (-(d : K))) (ds.map fun _ => none)
        = (shiftPos m shape p ds).map
            (fun pos => (pos.zip shape).map fun jl => ([jl.1, edgeFold jl.2 (jl.1 + 1)], [(1 : K), 0])) := by
  intro shape
  induction shape with
  | nil => intro p ds _ _; cases p <;> cases ds <;> simp [pixel.go, shiftPos]
  | cons len ls ih =>
    intro p ds hs hp
    cases p with
    | nil => cases ds <;> simp [pixel.go, shiftPos]
    | cons kk ks =>
      cases ds with
      | nil => simp [pixel.go, shiftPos]
      | cons d ds =>
        have hlen : 0 < len := hs len (by simp)
        have hkk : 0 ≤ kk := hp kk (by simp)
        have ih' := ih ks ds (fun l hl => hs l (by simp [hl])) (fun k hk => hp k (by simp [hk]))
        have hc : coord kk.toNat (some (-(d : K))) none = ((kk - d : Int) : K) := by
          have : ((kk.toNat : Nat) : K) = (kk : K) := by
            have e : ((kk.toNat : Nat) : Int) = kk := Int.toNat_of_nonneg hkk
            rw [← Int.cast_natCast, e]
          simp only [coord, this]; push_cast; ring
        have hax := axisEntry_int h m len hlen (kk - d)
        simp only [List.map_cons, pixel.go, hc, hax, ih', shiftPos]
        cases shiftIndex m len (kk - d) <;> cases shiftPos m ls ks ds <;> simp

/-- the knot entries for a unit zoom (equal input and output lengths), order 1: every position inside the
    array reads itself -/
theorem go_unit {fl : K → Int} (h : IsFloor fl) (m : Mode) :
    ∀ (shape : List Nat) (p : List Int), inside shape p = true →
      pixel.go fl 1 m shape p (shape.map fun _ => (none : Option K))
          ((shape.zip shape).map fun io => some (zoomFactor io.1 io.2 : K))
        = some ((p.zip shape).map fun jl => ([jl.1, edgeFold jl.2 (jl.1 + 1)], [(1 : K), 0])) := by
  intro shape
  induction shape with
  | nil => intro p hp; cases p <;> simp_all [pixel.go, inside]
  | cons len ls ih =>
    intro p hp
    cases p with
    | nil => simp [inside] at hp
    | cons kk ks =>
      simp only [inside, Bool.and_eq_true, decide_eq_true_eq] at hp
      obtain ⟨⟨h0, h1⟩, h2⟩ := hp
      have hlen : 0 < len := by omega
      have hc : coord kk.toNat none (some (zoomFactor len len : K)) = ((kk : Int) : K) := by
        rw [zoomFactor_unit]
        have e : ((kk.toNat : Nat) : Int) = kk := Int.toNat_of_nonneg h0
        rw [← Int.cast_natCast, e]
      have hax := axisEntry_int h m len hlen kk
      have c : 0 ≤ kk ∧ kk ≤ (len : Int) - 1 := by omega
      simp only [shiftIndex, c, and_self, if_true, Option.map_some] at hax
      simp only [List.map_cons, List.zip_cons_cons, pixel.go, hc, hax, ih ks h2]

end

/-- with a zero shift every position inside the array reads itself -/
theorem shiftPos_zero (m : Mode) : ∀ (shape : List Nat) (p : List Int), inside shape p = true →
    shiftPos m shape p (p.map fun _ => (0 : Int)) = some p := by
  intro shape
  induction shape with
  | nil => intro p hp; cases p <;> simp_all [inside, shiftPos]
  | cons len ls ih =>
    intro p hp
    cases p with
    | nil => simp [inside] at hp
    | cons kk ks =>
      simp only [inside, Bool.and_eq_true, decide_eq_true_eq] at hp
      obtain ⟨⟨h0, h1⟩, h2⟩ := hp
      have c : 0 ≤ kk ∧ kk ≤ (len : Int) - 1 := by omega
      have e := ih ks h2
      simp only [List.map_cons, shiftPos, shiftIndex, Int.sub_zero, c, and_self, if_true, e]


end Mahotas.C18
