/-
C18 — `zoom_shift` evaluates the tensor-product B-spline expansion: for coordinates inside `[0, len−1]` on
every axis the knot/weight entries that `pixel.go` precomputes are `startIdx`/`weights` of the mapped
coordinate, and the flat accumulation `tensorSum` is the sum over all knot tuples of the product of the
per-axis weights times the coefficient (equivalently the nested sum, axis by axis).  Order 1 in any rank is
multilinear interpolation.  Coordinate maps of `shift` and `zoom`.
-/
import Mahotas.Proofs.C18Shift
set_option linter.unusedSectionVars false
set_option linter.unusedVariables false
namespace Mahotas.C18
open Mahotas

variable {K : Type} [Field K] [LinearOrder K] [IsStrictOrderedRing K]

/-! ### the accumulation is a sum of products -/

theorem foldl_mul_prod (ws : List K) (a : K) : ws.foldl (· * ·) a = a * ws.prod := by
  induction ws generalizing a with
  | nil => simp
  | cons w ws ih => simp only [List.foldl_cons, List.prod_cons, ih]; ring

theorem foldl_add_sum {ι : Type} (l : List ι) (F : ι → K) (z : K) :
    l.foldl (fun t x => t + F x) z = z + (l.map F).sum := by
  induction l generalizing z with
  | nil => simp
  | cons a l ih => simp only [List.foldl_cons, List.map_cons, List.sum_cons, ih]; ring

/-- the flat accumulation of `zoom_shift` (`t += ((data·w₀)·w₁)…` over all knot tuples) is the sum over all
    knot tuples of (product of the per-axis weights) × (coefficient at the knot tuple) -/
theorem tensorSum_eq_sum (sample : List Int → K) (entries : List (List Int × List K)) :
    tensorSum ((0 : Nat) : K) sample entries
      = ((tensorTerms entries).map fun pw => pw.2.prod * sample pw.1).sum := by
  unfold tensorSum
  rw [foldl_add_sum]
  simp only [Nat.cast_zero, zero_add, foldl_mul_prod]
  congr 1
  apply List.map_congr_left
  intro pw _
  ring

/-- the mathematical (nested, axis by axis) tensor-product sum:
    `Σ_{h₀} w₀[h₀] · Σ_{h₁} w₁[h₁] · … · c[k₀[h₀], k₁[h₁], …]` -/
def nestedSum (sample : List Int → K) : List (List Int × List K) → K
  | [] => sample []
  | (idx, w) :: rest =>
    ((idx.zip w).map fun iw => iw.2 * nestedSum (fun pos => sample (iw.1 :: pos)) rest).sum
termination_by l => l.length

theorem sum_map_flatMap {ι κ : Type} (l : List ι) (g : ι → List κ) (F : κ → K) :
    ((l.flatMap g).map F).sum = (l.map fun a => ((g a).map F).sum).sum := by
  induction l with
  | nil => simp
  | cons a l ih => simp only [List.flatMap_cons, List.map_append, List.sum_append, List.map_cons, List.sum_cons, ih]

theorem sum_map_mul_left' {ι : Type} (l : List ι) (c : K) (F : ι → K) :
    (l.map fun a => c * F a).sum = c * (l.map F).sum := by
  induction l with
  | nil => simp
  | cons a l ih => simp only [List.map_cons, List.sum_cons, ih]; ring

/-- flat sum over all knot tuples = nested sum (distributivity) -/
theorem flat_eq_nested (entries : List (List Int × List K)) (sample : List Int → K) :
    ((tensorTerms entries).map fun pw => pw.2.prod * sample pw.1).sum = nestedSum sample entries := by
  induction entries generalizing sample with
  | nil => simp [tensorTerms, nestedSum]
  | cons e rest ih =>
    obtain ⟨idx, w⟩ := e
    rw [nestedSum]
    simp only [tensorTerms]
    rw [sum_map_flatMap]
    congr 1
    apply List.map_congr_left
    intro iw _
    rw [List.map_map, ← ih (fun pos => sample (iw.1 :: pos)), ← sum_map_mul_left']
    congr 1
    apply List.map_congr_left
    intro pw _
    simp only [Function.comp, List.prod_cons]
    ring

/-- the knot tuples are all of `∏ (number of knots per axis)` -/
theorem tensorTerms_length (entries : List (List Int × List K)) :
    (tensorTerms entries).length = (entries.map fun e => (e.1.zip e.2).length).prod := by
  induction entries with
  | nil => simp [tensorTerms]
  | cons e rest ih =>
    obtain ⟨idx, w⟩ := e
    simp only [tensorTerms, List.map_cons, List.prod_cons, List.length_flatMap, List.length_map, ih]
    generalize (List.map (fun e => (e.1.zip e.2).length) rest).prod = P
    induction (idx.zip w) with
    | nil => simp
    | cons a l ih2 => simp only [List.map_cons, List.sum_cons, List.length_cons, ih2]; ring

/-! ### what `pixel.go` precomputes for in-range coordinates -/

/-- the input coordinate of every axis for output position `p` (the recursion pattern of `pixel.go`) -/
def coordsOf : List Nat → List Int → List (Option K) → List (Option K) → List K
  | _ :: ls, kk :: ks, s :: ss, z :: zs => coord kk.toNat s z :: coordsOf ls ks ss zs
  | _, _, _, _ => []

/-- every coordinate lies inside `[0, len − 1]` of its axis -/
def InRange : List Nat → List K → Prop
  | len :: ls, c :: cs => (0 ≤ c ∧ c ≤ (((len : Int) - 1 : Int) : K)) ∧ InRange ls cs
  | _, _ => True

/-- knots (mirror-folded where they stick out) and weights of every axis at the coordinates `cs`:
    `start = startIdx order c`, knots `start + h`, weights `weights order c`, `h = 0..order` -/
def splineAxes (fl : K → Int) (order : Nat) : List Nat → List K → List (List Int × List K)
  | len :: ls, c :: cs =>
    ((List.range (order + 1)).map (fun h => edgeFold len (startIdx fl order c + (h : Nat))), weights fl order c)
      :: splineAxes fl order ls cs
  | _, _ => []

theorem mapCoord_inrange (fl : K → Int) (m : Mode) (len : Nat) (c : K)
    (h0 : 0 ≤ c) (h1 : c ≤ (((len : Int) - 1 : Int) : K)) : mapCoord fl m len c = some c := by
  unfold mapCoord
  have : ¬ (c < ((0 : Nat) : K) ∨ (((len : Int) - 1 : Int) : K) < c) := by
    rw [Nat.cast_zero]
    rintro (h | h)
    · exact absurd h (not_lt.mpr h0)
    · exact absurd h (not_lt.mpr h1)
  rw [if_neg this]

theorem go_inrange (fl : K → Int) (order : Nat) (m : Mode) :
    ∀ (shape : List Nat) (p : List Int) (ss zs : List (Option K)),
      InRange shape (coordsOf shape p ss zs) →
      pixel.go fl order m shape p ss zs = some (splineAxes fl order shape (coordsOf shape p ss zs)) := by
  intro shape
  induction shape with
  | nil => intro p ss zs _; simp [pixel.go, splineAxes]
  | cons len ls ih =>
    intro p ss zs hr
    cases p with
    | nil => simp [pixel.go, coordsOf, splineAxes]
    | cons kk ks =>
      cases ss with
      | nil => simp [pixel.go, coordsOf, splineAxes]
      | cons s ss =>
        cases zs with
        | nil => simp [pixel.go, coordsOf, splineAxes]
        | cons z zs =>
          simp only [coordsOf, InRange] at hr
          obtain ⟨⟨h0, h1⟩, hr'⟩ := hr
          simp only [pixel.go, coordsOf, splineAxes, axisEntry, mapCoord_inrange fl m len _ h0 h1, ih ks ss zs hr']

/-! ### order 1: multilinear interpolation -/

/-- multilinear interpolation at the coordinates `cs` (axis lengths alongside): along every axis
    `(1 − t)·(…at ⌊c⌋) + t·(…at ⌊c⌋ + 1)`, `t = c − ⌊c⌋`; the upper neighbour goes through the mirror folding
    of the knots, which is the identity whenever `⌊c⌋ + 1 < len` (`edgeFold_inside`) — at `c = len − 1` its
    weight `t` is zero -/
def multilinear (fl : K → Int) (sample : List Int → K) : List Nat → List K → K
  | len :: ls, c :: cs =>
    (1 - (c - (fl c : K))) * multilinear fl (fun pos => sample (fl c :: pos)) ls cs
      + (c - (fl c : K)) * multilinear fl (fun pos => sample (edgeFold len (fl c + 1) :: pos)) ls cs
  | _, _ => sample []

theorem floor_inrange {fl : K → Int} (h : IsFloor fl) (len : Nat) (c : K)
    (h0 : 0 ≤ c) (h1 : c ≤ (((len : Int) - 1 : Int) : K)) : 0 ≤ fl c ∧ fl c < (len : Int) := by
  obtain ⟨a, b⟩ := h c
  constructor
  · have : ((-1 : Int) : K) < ((fl c : Int) : K) := by push_cast; linarith
    have := Int.cast_lt.mp this
    omega
  · have : ((fl c : Int) : K) < (((len : Int) - 1 + 1 : Int) : K) := by
      push_cast; push_cast at h1; linarith
    have := Int.cast_lt.mp this
    omega

theorem nested_order1 {fl : K → Int} (h : IsFloor fl) :
    ∀ (shape : List Nat) (cs : List K) (sample : List Int → K), InRange shape cs →
      nestedSum sample (splineAxes fl 1 shape cs) = multilinear fl sample shape cs := by
  intro shape
  induction shape with
  | nil => intro cs sample _; simp [splineAxes, nestedSum, multilinear]
  | cons len ls ih =>
    intro cs sample hr
    cases cs with
    | nil => simp [splineAxes, nestedSum, multilinear]
    | cons c cs =>
      simp only [InRange] at hr
      obtain ⟨⟨h0, h1⟩, hr'⟩ := hr
      obtain ⟨f0, f1⟩ := floor_inrange h len c h0 h1
      have r : List.range (1 + 1) = [0, 1] := rfl
      have s : startIdx fl 1 c = fl c := by simp [startIdx]
      have e0 : edgeFold len (fl c + ((0 : Nat) : Int)) = fl c := by
        rw [Nat.cast_zero, add_zero]; exact edgeFold_inside len _ f0 f1
      simp only [splineAxes, r, s, List.map_cons, List.map_nil, e0, partition1 h c]
      rw [nestedSum]
      simp only [List.zip_cons_cons, List.zip_nil_right, List.map_cons, List.map_nil, List.sum_cons,
        List.sum_nil, add_zero, Nat.cast_one, multilinear]
      rw [ih cs _ hr', ih cs _ hr']

/-! ### coordinate maps -/

theorem natCast_toNat (kk : Int) (hkk : 0 ≤ kk) : ((kk.toNat : Nat) : K) = (kk : K) := by
  have e : ((kk.toNat : Nat) : Int) = kk := Int.toNat_of_nonneg hkk
  rw [← Int.cast_natCast, e]

/-- `shift`: output index `kk` reads input coordinate `kk − s` (the glue negates the shift, `zoom_shift` adds) -/
theorem coord_shift (kk : Int) (hkk : 0 ≤ kk) (s : K) : coord kk.toNat (some (-s)) none = (kk : K) - s := by
  simp only [coord, natCast_toNat kk hkk]; ring

/-- `zoom`: output index `kk` reads input coordinate `kk·(n_in − 1)/(n_out − 1)` (`n_out ≥ 2`) -/
theorem coord_zoom (kk : Int) (hkk : 0 ≤ kk) (nin nout : Nat) (h2 : 2 ≤ nout) :
    coord kk.toNat none (some (zoomFactor nin nout : K))
      = (kk : K) * ((nin : K) - 1) / ((nout : K) - 1) := by
  have hne : nout ≠ 1 := by omega
  simp only [coord, zoomFactor, hne, if_false, natCast_toNat kk hkk]
  push_cast
  ring

theorem coordsOf_shift : ∀ (shape : List Nat) (p : List Int) (sh : List K), (∀ kk ∈ p, 0 ≤ kk) →
    shape.length = p.length → p.length = sh.length →
    coordsOf shape p (sh.map fun s => some (-s)) (sh.map fun _ => (none : Option K))
      = List.zipWith (fun (kk : Int) (s : K) => (kk : K) - s) p sh := by
  intro shape
  induction shape with
  | nil => intro p sh _ h1 h2; cases p <;> cases sh <;> simp_all [coordsOf]
  | cons len ls ih =>
    intro p sh hp h1 h2
    cases p with
    | nil => simp at h1
    | cons kk ks =>
      cases sh with
      | nil => simp at h2
      | cons s ss =>
        simp only [List.map_cons, coordsOf, List.zipWith_cons_cons]
        rw [coord_shift kk (hp kk (by simp)) s,
          ih ks ss (fun k hk => hp k (by simp [hk])) (by simpa using h1) (by simpa using h2)]

theorem coordsOf_zoom : ∀ (shape oshape : List Nat) (p : List Int), (∀ kk ∈ p, 0 ≤ kk) →
    (∀ n ∈ oshape, 2 ≤ n) → shape.length = p.length → p.length = oshape.length →
    coordsOf shape p (oshape.map fun _ => (none : Option K))
        ((shape.zip oshape).map fun io => some (zoomFactor io.1 io.2 : K))
      = List.zipWith (fun (kk : Int) (io : Nat × Nat) => (kk : K) * ((io.1 : K) - 1) / ((io.2 : K) - 1))
          p (shape.zip oshape) := by
  intro shape
  induction shape with
  | nil => intro oshape p _ _ h1 h2; cases p <;> cases oshape <;> simp_all [coordsOf]
  | cons len ls ih =>
    intro oshape p hp ho h1 h2
    cases p with
    | nil => simp at h1
    | cons kk ks =>
      cases oshape with
      | nil => simp at h2
      | cons o os =>
        simp only [List.map_cons, List.zip_cons_cons, coordsOf, List.zipWith_cons_cons]
        rw [coord_zoom kk (hp kk (by simp)) len o (ho o (by simp)),
          ih os ks (fun k hk => hp k (by simp [hk])) (fun n hn => ho n (by simp [hn]))
            (by simpa using h1) (by simpa using h2)]

end Mahotas.C18
