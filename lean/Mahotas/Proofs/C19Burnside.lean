/-
C19 (round 3) — the number of LBP bins for every `P ≥ 1`: Burnside's lemma for the cyclic group.

`ZMod P` acts on the `P`-bit codes by `k +ᵥ v = rollRight^k v`; its orbits are the rotation classes of
`Proofs/C19Necklace.lean` (whose number is the number of pivots = bins). A code is fixed by `k` iff its bit
pattern is `gcd(k, P)`-periodic, so `k` has `2^gcd(k,P)` fixed points, and Burnside's lemma
(`AddAction.sum_card_fixedBy_eq_card_orbits_mul_card_addGroup`) gives
`#bins · P = Σ_{k < P} 2^{gcd(k,P)} = Σ_{d ∣ P} φ(d) 2^{P/d}`.
-/
import Mahotas.Proofs.C19Necklace
import Mathlib.GroupTheory.GroupAction.Quotient
import Mathlib.Data.ZMod.Basic
import Mathlib.Data.Nat.Totient
import Mathlib.NumberTheory.Divisors
import Mathlib.Data.Fintype.BigOperators
import Mathlib.Tactic.Ring
namespace Mahotas.C19
open Finset

/-! ## arithmetic: `Σ_{k<P} 2^{gcd(P,k)} = Σ_{d∣P} φ(d) 2^{P/d}` -/

theorem sum_pow_gcd (P : ℕ) (hP : 0 < P) :
    ∑ k ∈ range P, 2 ^ Nat.gcd P k = ∑ d ∈ P.divisors, Nat.totient d * 2 ^ (P / d) := by
  have hmaps : ∀ k ∈ range P, Nat.gcd P k ∈ P.divisors := fun k _ =>
    Nat.mem_divisors.2 ⟨Nat.gcd_dvd_left P k, by omega⟩
  rw [← Finset.sum_fiberwise_of_maps_to' hmaps (fun d => 2 ^ d)]
  rw [← Nat.sum_div_divisors P (fun d => Nat.totient d * 2 ^ (P / d))]
  refine Finset.sum_congr rfl fun d hd => ?_
  have hd' := (Nat.mem_divisors.1 hd).1
  rw [Finset.sum_const, smul_eq_mul, ← Nat.totient_div_of_dvd hd', Nat.div_div_self hd' (by omega)]

/-! ## the cyclic group acts on the codes by rotation -/

/-- the `P`-bit codes -/
abbrev Code (P : ℕ) := {v : ℕ // v < 2 ^ P}

theorem one_le_of_neZero (P : ℕ) [NeZero P] : 1 ≤ P := Nat.one_le_iff_ne_zero.2 (NeZero.ne P)

variable {P : ℕ} [NeZero P]

instance rotAction : AddAction (ZMod P) (Code P) where
  vadd g v := ⟨iter (rollRight P) g.val v.1, iter_rollRight_lt P v.1 (one_le_of_neZero P) v.2 g.val⟩
  zero_vadd v := by
    apply Subtype.ext
    show iter (rollRight P) (0 : ZMod P).val v.1 = v.1
    rw [ZMod.val_zero]; rfl
  add_vadd g h v := by
    apply Subtype.ext
    show iter (rollRight P) (g + h).val v.1 = iter (rollRight P) g.val (iter (rollRight P) h.val v.1)
    rw [ZMod.val_add, ← iter_rollRight_mod P v.1 (one_le_of_neZero P) v.2, Nat.add_comm, iter_add]

theorem vadd_val (g : ZMod P) (v : Code P) : (g +ᵥ v).1 = iter (rollRight P) g.val v.1 := rfl

/-- the orbits are the rotation classes -/
theorem orbitRel_iff (a b : Code P) :
    (AddAction.orbitRel (ZMod P) (Code P)).r a b ↔ (rotSetoid P (one_le_of_neZero P)).r a b := by
  have hP := one_le_of_neZero P
  show a ∈ AddAction.orbit (ZMod P) b ↔ RotEq P a.1 b.1
  rw [AddAction.mem_orbit_iff]
  constructor
  · rintro ⟨g, hg⟩
    have : RotEq P b.1 a.1 := ⟨g.val, by rw [← vadd_val, hg]⟩
    exact this.symm hP b.2
  · intro h
    obtain ⟨k, hk⟩ := h.symm hP a.2
    refine ⟨(k : ZMod P), Subtype.ext ?_⟩
    rw [vadd_val, ZMod.val_natCast, ← iter_rollRight_mod P b.1 hP b.2]
    exact hk

/-- number of orbits = number of pivots (bins) -/
theorem card_orbits :
    Nat.card (Quotient (AddAction.orbitRel (ZMod P) (Code P))) = (pivots P).length := by
  rw [← card_classes P (one_le_of_neZero P)]
  exact Nat.card_congr (Quotient.congr (Equiv.refl _) (fun a b => orbitRel_iff a b))

/-! ## bits of a code as a function on `ZMod P` -/

/-- bit `t` of the code, `t ∈ ZMod P` -/
def bitsEquiv : Code P ≃ (ZMod P → Bool) where
  toFun v t := v.1.testBit t.val
  invFun F := ⟨Nat.ofBits (fun i : Fin P => F (i.val : ZMod P)), Nat.ofBits_lt_two_pow _⟩
  left_inv v := by
    apply Subtype.ext
    show Nat.ofBits (fun i : Fin P => v.1.testBit ((i.val : ZMod P)).val) = v.1
    have : (fun i : Fin P => v.1.testBit ((i.val : ZMod P)).val) = fun i : Fin P => v.1.testBit i := by
      funext i; rw [ZMod.val_natCast, Nat.mod_eq_of_lt i.2]
    rw [this, Nat.ofBits_testBit, Nat.mod_eq_of_lt v.2]
  right_inv F := by
    funext t
    show (Nat.ofBits fun i : Fin P => F (i.val : ZMod P)).testBit t.val = F t
    rw [Nat.testBit_ofBits_lt _ _ (ZMod.val_lt t)]
    simp

/-- rotating by `g` shifts the bit pattern by `g` -/
theorem bits_vadd (g : ZMod P) (v : Code P) (t : ZMod P) : bitsEquiv (g +ᵥ v) t = bitsEquiv v (t + g) := by
  show (iter (rollRight P) g.val v.1).testBit t.val = v.1.testBit (t + g).val
  rw [testBit_iter_rollRight P v.1 (one_le_of_neZero P) v.2, ZMod.val_add]
  simp [ZMod.val_lt t]

theorem fixed_iff (g : ZMod P) (v : Code P) :
    g +ᵥ v = v ↔ ∀ t, bitsEquiv v (t + g) = bitsEquiv v t := by
  constructor
  · intro h t
    rw [← bits_vadd, h]
  · intro h
    apply bitsEquiv.injective
    funext t
    rw [bits_vadd, h]

/-! ## `g`-periodic patterns are the patterns on `gcd(P, g)` positions -/

omit [NeZero P] in
theorem periodic_nsmul (g : ZMod P) (F : ZMod P → Bool) (hF : ∀ t, F (t + g) = F t) (n : ℕ) (t : ZMod P) :
    F (t + n • g) = F t := by
  induction n with
  | zero => simp
  | succ n ih => rw [succ_nsmul, ← add_assoc, hF, ih]

/-- Bézout in `ZMod P`: `gcd(P, g)` is a multiple of `g` -/
theorem gcd_eq_nsmul (g : ZMod P) : ∃ n : ℕ, ((Nat.gcd P g.val : ℕ) : ZMod P) = n • g := by
  refine ⟨((Nat.gcdB P g.val : ℤ) : ZMod P).val, ?_⟩
  have h := Nat.gcd_eq_gcd_ab P g.val
  have h2 : ((Nat.gcd P g.val : ℕ) : ZMod P) = (((Nat.gcd P g.val : ℕ) : ℤ) : ZMod P) := by simp
  rw [h2, h]
  push_cast
  rw [ZMod.natCast_self, zero_mul, zero_add, ZMod.natCast_zmod_val, nsmul_eq_mul, ZMod.natCast_zmod_val, mul_comm]

theorem periodic_gcd (g : ZMod P) (F : ZMod P → Bool) (hF : ∀ t, F (t + g) = F t) (t : ZMod P) :
    F t = F ((t.val % Nat.gcd P g.val : ℕ) : ZMod P) := by
  obtain ⟨n0, hn0⟩ := gcd_eq_nsmul g
  have ht : t = ((t.val % Nat.gcd P g.val : ℕ) : ZMod P) +
      (n0 * (t.val / Nat.gcd P g.val)) • g := by
    rw [mul_nsmul, ← hn0, nsmul_eq_mul, ← Nat.cast_mul, ← Nat.cast_add, Nat.mod_add_div',
      ZMod.natCast_zmod_val]
  conv_lhs => rw [ht]
  exact periodic_nsmul g F hF _ _

theorem gcd_pos' (g : ZMod P) : 0 < Nat.gcd P g.val :=
  Nat.gcd_pos_of_pos_left _ (one_le_of_neZero P)

/-- periodic patterns ≃ patterns on `gcd(P, g)` positions -/
def perEquiv (g : ZMod P) :
    {F : ZMod P → Bool // ∀ t, F (t + g) = F t} ≃ (Fin (Nat.gcd P g.val) → Bool) where
  toFun F j := F.1 ((j.val : ℕ) : ZMod P)
  invFun h := ⟨fun t => h ⟨t.val % Nat.gcd P g.val, Nat.mod_lt _ (gcd_pos' g)⟩, by
    intro t
    have e : (t + g).val % Nat.gcd P g.val = t.val % Nat.gcd P g.val := by
      rw [ZMod.val_add, Nat.mod_mod_of_dvd _ (Nat.gcd_dvd_left P g.val), Nat.add_mod,
        Nat.mod_eq_zero_of_dvd (Nat.gcd_dvd_right P g.val), Nat.add_zero, Nat.mod_mod]
    simp only [e]⟩
  left_inv F := by
    apply Subtype.ext
    funext t
    exact (periodic_gcd g F.1 F.2 t).symm
  right_inv h := by
    funext j
    have hj : ((j.val : ℕ) : ZMod P).val % Nat.gcd P g.val = j.val := by
      have hle : Nat.gcd P g.val ≤ P := Nat.le_of_dvd (one_le_of_neZero P) (Nat.gcd_dvd_left P g.val)
      have hjP : j.val < P := lt_of_lt_of_le j.2 hle
      rw [ZMod.val_natCast, Nat.mod_eq_of_lt hjP, Nat.mod_eq_of_lt j.2]
    show h ⟨((j.val : ℕ) : ZMod P).val % Nat.gcd P g.val, _⟩ = h j
    congr 1
    exact Fin.ext hj

/-- **a rotation by `g` fixes exactly `2^gcd(P, g)` codes** -/
theorem card_fixedBy (g : ZMod P) :
    Nat.card (AddAction.fixedBy (Code P) g) = 2 ^ Nat.gcd P g.val := by
  have e1 : AddAction.fixedBy (Code P) g ≃ {F : ZMod P → Bool // ∀ t, F (t + g) = F t} :=
    bitsEquiv.subtypeEquiv (fun v => by rw [AddAction.mem_fixedBy]; exact fixed_iff g v)
  rw [Nat.card_congr (e1.trans (perEquiv g)), Nat.card_eq_fintype_card]
  simp

/-! ## Burnside -/

theorem sum_zmod_val (P : ℕ) [NeZero P] (f : ℕ → ℕ) : ∑ g : ZMod P, f g.val = ∑ k ∈ range P, f k := by
  obtain ⟨n, rfl⟩ := Nat.exists_eq_succ_of_ne_zero (NeZero.ne P)
  exact Fin.sum_univ_eq_sum_range f (n + 1)

/-- **`#bins · P = Σ_{d ∣ P} φ(d) · 2^{P/d}`** for every `P ≥ 1` -/
theorem pivots_burnside (P : ℕ) (hP : 1 ≤ P) :
    (pivots P).length * P = ∑ d ∈ P.divisors, Nat.totient d * 2 ^ (P / d) := by
  have : NeZero P := ⟨by omega⟩
  classical
  have : Finite (Code P) := Finite.of_equiv _ Fin.equivSubtype
  have : Fintype (Code P) := Fintype.ofFinite _
  have : Fintype (Quotient (AddAction.orbitRel (ZMod P) (Code P))) := Fintype.ofFinite _
  have : ∀ g : ZMod P, Fintype (AddAction.fixedBy (Code P) g) := fun g => Fintype.ofFinite _
  have hb := AddAction.sum_card_fixedBy_eq_card_orbits_mul_card_addGroup (ZMod P) (Code P)
  rw [← Nat.card_eq_fintype_card, card_orbits, ZMod.card] at hb
  rw [← hb, ← sum_pow_gcd P (by omega), ← sum_zmod_val P (fun k => 2 ^ Nat.gcd P k)]
  refine Finset.sum_congr rfl fun g _ => ?_
  rw [← Nat.card_eq_fintype_card, card_fixedBy]

end Mahotas.C19
