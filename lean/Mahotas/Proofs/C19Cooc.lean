/-
C19 — grey-level co-occurrence matrices: symmetries of the specification `coocCount` / `coocSym`.

* `mem_boxPos`, `nodup_boxPos`: `boxPos s` enumerates exactly the positions inside the box, once each.
* `countP_bij`: counting lemma (a bijection between the counted elements of two nodup lists).
* `coocCount_neg`: negating the direction transposes the matrix.
* `coocCount_rot180`: the 180°-rotated image has the transposed matrix.
* `coocCount_swap01`: swapping the first two axes of image and direction leaves the matrix unchanged.
* `coocSym_neg`, `coocSym_rot180`, `coocSym_swap01`: the symmetric matrix is invariant under all three.

Core Lean only (no Mathlib import).
-/
import Mahotas.Model.C19
namespace Mahotas.C19
open Mahotas

theorem mem_boxPos (s : List Nat) (p : List Int) : p ∈ boxPos s ↔ inside s p = true := by
  induction s generalizing p with
  | nil => cases p <;> simp [boxPos, inside]
  | cons d ds ih =>
    cases p with
    | nil => simp [boxPos, inside]
    | cons x xs =>
      simp only [boxPos, inside, List.mem_flatMap, List.mem_map, List.mem_range,
        Bool.and_eq_true, decide_eq_true_eq, List.cons.injEq]
      constructor
      · rintro ⟨i, hi, t, ht, rfl, rfl⟩
        exact ⟨⟨by omega, by omega⟩, (ih t).1 ht⟩
      · rintro ⟨⟨h0, h1⟩, h2⟩
        exact ⟨x.toNat, by omega, xs, (ih xs).2 h2, by omega, rfl⟩

theorem nodup_boxPos (s : List Nat) : (boxPos s).Nodup := by
  induction s with
  | nil => simp [boxPos]
  | cons d ds ih =>
    simp only [boxPos, List.Nodup]
    rw [List.pairwise_flatMap]
    constructor
    · intro i _
      rw [List.pairwise_map]
      refine List.Pairwise.imp ?_ ih
      intro a b hne h
      exact hne (List.cons.inj h).2
    · refine List.Pairwise.imp ?_ (List.nodup_range (n := d))
      intro i j hij x hx y hy hxy
      simp only [List.mem_map] at hx hy
      obtain ⟨t, _, rfl⟩ := hx
      obtain ⟨u, _, rfl⟩ := hy
      have := (List.cons.inj hxy).1
      omega

theorem countP_bij {α : Type} (l₁ l₂ : List α) (h₁ : l₁.Nodup) (h₂ : l₂.Nodup)
    (P Q : α → Bool) (g g' : α → α)
    (hg : ∀ x ∈ l₁, P x = true → g x ∈ l₂ ∧ Q (g x) = true ∧ g' (g x) = x)
    (hg' : ∀ y ∈ l₂, Q y = true → g' y ∈ l₁ ∧ P (g' y) = true ∧ g (g' y) = y) :
    l₁.countP P = l₂.countP Q := by
  rw [List.countP_eq_length_filter, List.countP_eq_length_filter,
    ← List.length_map (f := g)]
  apply List.Perm.length_eq
  have hf : (l₁.filter P).Nodup := h₁.sublist List.filter_sublist
  rw [List.perm_ext_iff_of_nodup]
  · intro a
    simp only [List.mem_map, List.mem_filter]
    constructor
    · rintro ⟨x, ⟨hx, hP⟩, rfl⟩
      have := hg x hx hP
      exact ⟨this.1, this.2.1⟩
    · rintro ⟨ha, hQ⟩
      have := hg' a ha hQ
      exact ⟨g' a, ⟨this.1, this.2.1⟩, this.2.2⟩
  · unfold List.Nodup
    rw [List.pairwise_map]
    refine List.Pairwise.imp_of_mem ?_ hf
    intro a b ha hb hne heq
    apply hne
    simp only [List.mem_filter] at ha hb
    rw [← (hg a ha.1 ha.2).2.2, heq, (hg b hb.1 hb.2).2.2]
  · exact h₂.sublist List.filter_sublist

theorem inside_length {s : List Nat} {p : List Int} (h : inside s p = true) :
    p.length = s.length := by
  induction s generalizing p with
  | nil => cases p <;> simp_all [inside]
  | cons d ds ih =>
    cases p with
    | nil => simp [inside] at h
    | cons x xs =>
      simp only [inside, Bool.and_eq_true] at h
      simp [ih h.2]

theorem addPos_add_neg (p d : List Int) (h : d.length = p.length) :
    addPos (addPos p d) (negPos d) = p := by
  induction p generalizing d with
  | nil => cases d <;> simp [addPos, negPos]
  | cons x xs ih =>
    cases d with
    | nil => simp at h
    | cons y ys =>
      simp only [List.length_cons, Nat.add_right_cancel_iff] at h
      have := ih ys h
      simp only [negPos] at this
      simp only [addPos, negPos, List.map_cons, this]
      congr 1; omega

theorem addPos_neg_add (p d : List Int) (h : d.length = p.length) :
    addPos (addPos p (negPos d)) d = p := by
  induction p generalizing d with
  | nil => cases d <;> simp [addPos]
  | cons x xs ih =>
    cases d with
    | nil => simp at h
    | cons y ys =>
      simp only [List.length_cons, Nat.add_right_cancel_iff] at h
      have := ih ys h
      simp only [negPos] at this
      simp only [addPos, negPos, List.map_cons, this]
      congr 1; omega

theorem coocCount_neg (s : List Nat) (f : List Int → Int) (d : List Int) (a b : Int)
    (hd : d.length = s.length) :
    coocCount s f (negPos d) a b = coocCount s f d b a := by
  unfold coocCount
  apply countP_bij _ _ (nodup_boxPos s) (nodup_boxPos s) _ _
    (fun q => addPos q (negPos d)) (fun p => addPos p d)
  · intro q hq hP
    have hlen : d.length = q.length := by rw [hd, inside_length ((mem_boxPos _ _).1 hq)]
    simp only [Bool.and_eq_true, beq_iff_eq] at hP
    simp only [addPos_neg_add q d hlen, Bool.and_eq_true, beq_iff_eq]
    exact ⟨(mem_boxPos _ _).2 hP.1, ⟨(mem_boxPos _ _).1 hq, hP.2.2, hP.2.1⟩, trivial⟩
  · intro p hp hQ
    have hlen : d.length = p.length := by rw [hd, inside_length ((mem_boxPos _ _).1 hp)]
    simp only [Bool.and_eq_true, beq_iff_eq] at hQ
    simp only [addPos_add_neg p d hlen, Bool.and_eq_true, beq_iff_eq]
    exact ⟨(mem_boxPos _ _).2 hQ.1, ⟨(mem_boxPos _ _).1 hp, hQ.2.2, hQ.2.1⟩, trivial⟩


theorem revPos_revPos (s : List Nat) (p : List Int) (h : p.length = s.length) :
    revPos s (revPos s p) = p := by
  induction s generalizing p with
  | nil => cases p <;> simp_all [revPos]
  | cons d ds ih =>
    cases p with
    | nil => simp at h
    | cons x xs =>
      simp only [List.length_cons, Nat.add_right_cancel_iff] at h
      simp only [revPos, ih xs h]
      congr 1; omega

theorem inside_revPos {s : List Nat} {p : List Int} (h : inside s p = true) :
    inside s (revPos s p) = true := by
  induction s generalizing p with
  | nil => cases p <;> simp_all [inside, revPos]
  | cons d ds ih =>
    cases p with
    | nil => simp [inside] at h
    | cons x xs =>
      simp only [inside, revPos, Bool.and_eq_true, decide_eq_true_eq] at h ⊢
      exact ⟨⟨by omega, by omega⟩, ih h.2⟩

theorem addPos_revPos_addPos (s : List Nat) (p d : List Int)
    (hp : p.length = s.length) (hd : d.length = s.length) :
    addPos (revPos s (addPos p d)) d = revPos s p := by
  induction s generalizing p d with
  | nil => cases p <;> cases d <;> simp_all [revPos, addPos]
  | cons n ns ih =>
    cases p with
    | nil => simp at hp
    | cons x xs =>
      cases d with
      | nil => simp at hd
      | cons y ys =>
        simp only [List.length_cons, Nat.add_right_cancel_iff] at hp hd
        simp only [addPos, revPos, ih xs ys hp hd]
        congr 1; omega

theorem coocCount_rot180 (s : List Nat) (f : List Int → Int) (d : List Int) (a b : Int)
    (hd : d.length = s.length) :
    coocCount s (fun p => f (revPos s p)) d a b = coocCount s f d b a := by
  unfold coocCount
  apply countP_bij _ _ (nodup_boxPos s) (nodup_boxPos s) _ _
    (fun p => revPos s (addPos p d)) (fun q => revPos s (addPos q d))
  · intro p hp hP
    have hin := (mem_boxPos _ _).1 hp
    have hlen : p.length = s.length := inside_length hin
    simp only [Bool.and_eq_true, beq_iff_eq] at hP
    simp only [addPos_revPos_addPos s p d hlen hd, Bool.and_eq_true, beq_iff_eq]
    exact ⟨(mem_boxPos _ _).2 (inside_revPos hP.1),
      ⟨inside_revPos hin, hP.2.2, hP.2.1⟩, revPos_revPos s p hlen⟩
  · intro q hq hQ
    have hin := (mem_boxPos _ _).1 hq
    have hlen : q.length = s.length := inside_length hin
    simp only [Bool.and_eq_true, beq_iff_eq] at hQ
    simp only [addPos_revPos_addPos s q d hlen hd, Bool.and_eq_true, beq_iff_eq,
      revPos_revPos s q hlen, revPos_revPos s (addPos q d) (inside_length hQ.1)]
    exact ⟨(mem_boxPos _ _).2 (inside_revPos hQ.1),
      ⟨inside_revPos hin, hQ.2.2, hQ.2.1⟩, trivial⟩

theorem coocSym_rot180 (s : List Nat) (f : List Int → Int) (d : List Int) (a b : Int)
    (hd : d.length = s.length) :
    coocSym s (fun p => f (revPos s p)) d a b = coocSym s f d a b := by
  unfold coocSym
  rw [coocCount_rot180 s f d a b hd, coocCount_rot180 s f d b a hd, Nat.add_comm]

theorem coocSym_neg (s : List Nat) (f : List Int → Int) (d : List Int) (a b : Int)
    (hd : d.length = s.length) :
    coocSym s f (negPos d) a b = coocSym s f d a b := by
  unfold coocSym
  rw [coocCount_neg s f d a b hd, coocCount_neg s f d b a hd, Nat.add_comm]

theorem swap01_swap01 {α : Type} (l : List α) : swap01 (swap01 l) = l := by
  match l with
  | [] => rfl
  | [_] => rfl
  | _ :: _ :: _ => rfl

theorem length_swap01 {α : Type} (l : List α) : (swap01 l).length = l.length := by
  match l with
  | [] => rfl
  | [_] => rfl
  | _ :: _ :: _ => rfl

theorem inside_swap01 (s : List Nat) (p : List Int) :
    inside (swap01 s) (swap01 p) = inside s p := by
  match s, p with
  | [], [] => rfl
  | [], [_] => rfl
  | [], _ :: _ :: _ => rfl
  | [_], [] => rfl
  | [_], [_] => rfl
  | [_], _ :: _ :: _ => simp [swap01, inside]
  | _ :: _ :: _, [] => rfl
  | _ :: _ :: _, [_] => simp [swap01, inside]
  | _ :: _ :: _, _ :: _ :: _ =>
    simp only [swap01, inside]
    grind

theorem addPos_swap01 (p d : List Int) (h : p.length = d.length) :
    addPos (swap01 p) (swap01 d) = swap01 (addPos p d) := by
  match p, d with
  | [], [] => rfl
  | [], _ :: _ => simp at h
  | _ :: _, [] => simp at h
  | [_], [_] => rfl
  | [_], _ :: _ :: _ => simp at h
  | _ :: _ :: _, [_] => simp at h
  | _ :: _ :: _, _ :: _ :: _ => rfl

theorem coocCount_swap01 (s : List Nat) (f : List Int → Int) (d : List Int) (a b : Int)
    (hd : d.length = s.length) :
    coocCount (swap01 s) (fun p => f (swap01 p)) (swap01 d) a b = coocCount s f d a b := by
  unfold coocCount
  apply countP_bij _ _ (nodup_boxPos _) (nodup_boxPos s) _ _ swap01 swap01
  · intro p hp hP
    have hin := (mem_boxPos _ _).1 hp
    have hlen : (swap01 p).length = d.length := by
      rw [length_swap01, inside_length hin, length_swap01, hd]
    have e : addPos (swap01 p) d = swap01 (addPos p (swap01 d)) := by
      have := addPos_swap01 (swap01 p) d hlen
      rw [swap01_swap01] at this
      rw [this, swap01_swap01]
    simp only [Bool.and_eq_true, beq_iff_eq] at hP
    refine ⟨(mem_boxPos _ _).2 ?_, ?_, swap01_swap01 p⟩
    · rw [← inside_swap01, swap01_swap01]; exact hin
    · simp only [e, Bool.and_eq_true, beq_iff_eq]
      refine ⟨?_, hP.2⟩
      rw [← inside_swap01, swap01_swap01]; exact hP.1
  · intro q hq hQ
    have hin := (mem_boxPos _ _).1 hq
    have hlen : q.length = d.length := by rw [inside_length hin, hd]
    simp only [Bool.and_eq_true, beq_iff_eq] at hQ
    refine ⟨(mem_boxPos _ _).2 ?_, ?_, swap01_swap01 q⟩
    · rw [inside_swap01]; exact hin
    · simp only [addPos_swap01 q d hlen, swap01_swap01, inside_swap01, Bool.and_eq_true,
        beq_iff_eq]
      exact hQ

theorem coocSym_swap01 (s : List Nat) (f : List Int → Int) (d : List Int) (a b : Int)
    (hd : d.length = s.length) :
    coocSym (swap01 s) (fun p => f (swap01 p)) (swap01 d) a b = coocSym s f d a b := by
  unfold coocSym
  rw [coocCount_swap01 s f d a b hd, coocCount_swap01 s f d b a hd]

end Mahotas.C19
