/-
C19 (round 3) — the 180° rotation on the *data*: reversing the C-order data array of an image
(`f[::-1, ::-1, …]` made contiguous) realises the index map `p ↦ shape − 1 − p` of `C19_cooc_rot180`,
so the symmetric co-occurrence matrix the model computes from the reversed data is the same array.
-/
import Mahotas.Proofs.C19Cooc
import Mahotas.Proofs.C19CoocModel
import Mahotas.Proofs.C05Nd
namespace Mahotas.C19
open Mahotas

/-- flat index of an inside position is below the size, and the flat index of the mirrored position
    is the mirrored flat index -/
theorem ravelI_revPos (s : List Nat) (p : List Int) (h : inside s p = true) :
    ravelI s p < shapeSize s ∧ ravelI s (revPos s p) = shapeSize s - 1 - ravelI s p := by
  induction s generalizing p with
  | nil => cases p <;> simp_all [inside, ravelI, shapeSize]
  | cons d ds ih =>
    cases p with
    | nil => simp [inside] at h
    | cons x xs =>
      simp only [inside, Bool.and_eq_true, decide_eq_true_eq] at h
      obtain ⟨⟨h0, h1⟩, h2⟩ := h
      obtain ⟨ihl, ihe⟩ := ih xs h2
      simp only [ravelI, revPos, shapeSize, ihe]
      have hX : x.toNat < d := by omega
      obtain ⟨k, hk⟩ : ∃ k, d = k + 1 + x.toNat := ⟨d - 1 - x.toNat, by omega⟩
      have hk' : ((d : Int) - 1 - x).toNat = k := by omega
      rw [hk', hk]
      simp only [Nat.add_mul, Nat.one_mul]
      constructor <;> omega

theorem getD_reverse (a : Array Int) (i : Nat) (hi : i < a.size) :
    a.reverse.getD i 0 = a.getD (a.size - 1 - i) 0 := by
  have h1 : i < a.reverse.size := by simpa using hi
  have h2 : a.size - 1 - i < a.size := by omega
  simp [Array.getD, h2, hi]

/-- the image with reversed data reads the mirrored position -/
theorem getD_reverse_img (im : Img Int) (hsz : im.data.size = shapeSize im.shape) (p : List Int)
    (h : inside im.shape p = true) :
    ({ shape := im.shape, data := im.data.reverse } : Img Int).getD p 0 = im.getD (revPos im.shape p) 0 := by
  obtain ⟨hl, he⟩ := ravelI_revPos im.shape p h
  unfold Img.getD
  simp only [h, inside_revPos h, if_true]
  rw [getD_reverse _ _ (by rw [hsz]; exact hl), he, hsz]

/-- counts only look at the image inside the box -/
theorem coocCount_congr (s : List Nat) (f g : List Int → Int) (d : List Int) (a b : Int)
    (h : ∀ p, inside s p = true → f p = g p) : coocCount s f d a b = coocCount s g d a b := by
  unfold coocCount
  apply List.countP_congr
  intro p hp
  have hin := (mem_boxPos _ _).1 hp
  by_cases hq : inside s (addPos p d) = true
  · simp [hq, h p hin, h _ hq]
  · simp [hq]

theorem coocSym_congr (s : List Nat) (f g : List Int → Int) (d : List Int) (a b : Int)
    (h : ∀ p, inside s p = true → f p = g p) : coocSym s f d a b = coocSym s g d a b := by
  unfold coocSym
  rw [coocCount_congr s f g d a b h, coocCount_congr s f g d b a h]

/-- a position outside every box of this rank -/
theorem not_inside_long (s : List Nat) : inside s (List.replicate (s.length + 1) 0) = false := by
  induction s with
  | nil => rfl
  | cons d ds ih =>
    simp only [List.length_cons, List.replicate_succ, inside, Bool.and_eq_false_iff]
    right
    simpa [List.replicate_succ] using ih

/-- **the symmetric matrix of the reversed data is the same array** -/
theorem symFold_reverse (m : Nat) (im : Img Int) (d : List Int) (hsz : im.data.size = shapeSize im.shape)
    (hd : d.length = im.shape.length) (hv : ∀ p, 0 ≤ im.getD p 0 ∧ im.getD p 0 < (m : Int)) :
    symFold m (coocModel m { shape := im.shape, data := im.data.reverse } d) = symFold m (coocModel m im d) := by
  have hm : (0 : Int) < m := by
    have := hv (List.replicate (im.shape.length + 1) 0)
    unfold Img.getD at this
    rw [not_inside_long] at this
    simpa using this.2
  have hv' : ∀ p, 0 ≤ ({ shape := im.shape, data := im.data.reverse } : Img Int).getD p 0 ∧
      ({ shape := im.shape, data := im.data.reverse } : Img Int).getD p 0 < (m : Int) := by
    intro p
    by_cases hin : inside im.shape p = true
    · rw [getD_reverse_img im hsz p hin]; exact hv _
    · have : ({ shape := im.shape, data := im.data.reverse } : Img Int).getD p 0 = 0 := by
        unfold Img.getD; simp [hin]
      rw [this]; exact ⟨Int.le_refl _, hm⟩
  apply Array.toList_inj.mp
  rw [coocModel_sym_toList m _ d hv', coocModel_sym_toList m im d hv]
  unfold coocSpecMat
  apply List.map_congr_left
  intro k _
  simp only [if_true]
  rw [coocSym_congr im.shape _ (fun p => im.getD (revPos im.shape p) 0) d _ _
    (fun p hp => getD_reverse_img im hsz p hp)]
  exact coocSym_rot180 im.shape (fun p => im.getD p 0) d _ _ hd

/-! ## axis swap on the data -/

/-- the C-contiguous copy of `swapaxes(0, 1)`: element `p` of the result is element `swap01 p` of the image -/
def swapImg (im : Img Int) : Img Int := Img.tabulate (swap01 im.shape) fun p => im.getD (swap01 p) 0

theorem swapImg_getD (im : Img Int) (p : List Int) (h : inside (swap01 im.shape) p = true) :
    (swapImg im).getD p 0 = im.getD (swap01 p) 0 :=
  C05.tabulate_getD _ _ p 0 h

/-- **the symmetric matrix of the axis-swapped image with the swapped direction is the same array** -/
theorem symFold_swap (m : Nat) (im : Img Int) (d : List Int)
    (hd : d.length = im.shape.length) (hv : ∀ p, 0 ≤ im.getD p 0 ∧ im.getD p 0 < (m : Int)) :
    symFold m (coocModel m (swapImg im) (swap01 d)) = symFold m (coocModel m im d) := by
  have hm : (0 : Int) < m := by
    have := hv (List.replicate (im.shape.length + 1) 0)
    unfold Img.getD at this
    rw [not_inside_long] at this
    simpa using this.2
  have hshape : (swapImg im).shape = swap01 im.shape := rfl
  have hv' : ∀ p, 0 ≤ (swapImg im).getD p 0 ∧ (swapImg im).getD p 0 < (m : Int) := by
    intro p
    by_cases hin : inside (swap01 im.shape) p = true
    · rw [swapImg_getD im p hin]; exact hv _
    · have : (swapImg im).getD p 0 = 0 := by
        unfold Img.getD; rw [hshape]; simp [hin]
      rw [this]; exact ⟨Int.le_refl _, hm⟩
  apply Array.toList_inj.mp
  rw [coocModel_sym_toList m _ _ hv', coocModel_sym_toList m im d hv]
  unfold coocSpecMat
  apply List.map_congr_left
  intro k _
  simp only [if_true]
  rw [hshape, coocSym_congr (swap01 im.shape) _ (fun p => im.getD (swap01 p) 0) (swap01 d) _ _
    (fun p hp => swapImg_getD im p hp)]
  exact coocSym_swap01 im.shape (fun p => im.getD p 0) d _ _ hd

end Mahotas.C19
