/-
C19 — grey-level co-occurrence matrices: the fold model `coocModel` (the C++ scan loop of
`_texture.cpp: cooccurence<T>`) computes the counting specification `coocCount`.

* `coocFold_getD`: the scan loop over any list of positions and any accumulator adds, to entry `k`,
  the number of scanned positions whose (inside) neighbour pair encodes to index `k`.
* `coocModel_eq_count`: entry `a*m+b` of the model = `coocCount … a b`, when all values lie in `[0,m)`.
* `symFold_getD`: the symmetric fold computes `C + Cᵀ` entrywise.
* `coocModel_sym_eq`: entry `a*m+b` of the symmetrised model = `coocSym … a b`.
* `coocModel_toList`, `coocModel_sym_toList`: the whole output equals `coocSpecMat` (sym = false / true).

Core Lean only (no Mathlib import).
-/
import Mahotas.Proofs.C19Cooc
namespace Mahotas.C19
open Mahotas

theorem cooc_getD_modify (acc : Array Nat) (i k : Nat) (g : Nat → Nat) (hk : k < acc.size) :
    (acc.modify i g).getD k 0 = if i = k then g (acc.getD k 0) else acc.getD k 0 := by
  simp only [Array.getD_eq_getD_getElem?, Array.getElem?_modify]
  split
  · simp [hk]
  · rfl

theorem cooc_digits_unique (m x y a b : Nat) (hy : y < m) (hb : b < m)
    (h : x * m + y = a * m + b) : x = a ∧ y = b := by
  have hm : 0 < m := by omega
  have h1 : (x * m + y) / m = x := by
    rw [Nat.add_comm, Nat.add_mul_div_right _ _ hm, Nat.div_eq_of_lt hy]; omega
  have h2 : (a * m + b) / m = a := by
    rw [Nat.add_comm, Nat.add_mul_div_right _ _ hm, Nat.div_eq_of_lt hb]; omega
  have hxa : x = a := by rw [← h1, ← h2, h]
  subst hxa
  exact ⟨rfl, by omega⟩

/-- the scan loop, over an arbitrary list of positions and an arbitrary accumulator -/
theorem coocFold_getD (m : Nat) (s : List Nat) (f : List Int → Int) (d : List Int)
    (l : List (List Int)) (acc : Array Nat) (k : Nat) (hk : k < acc.size) :
    (l.foldl (fun acc p =>
        if inside s (addPos p d) then
          acc.modify ((f p).toNat * m + (f (addPos p d)).toNat) (· + 1)
        else acc) acc).getD k 0
      = acc.getD k 0 + l.countP (fun p => inside s (addPos p d) &&
          ((f p).toNat * m + (f (addPos p d)).toNat == k)) := by
  induction l generalizing acc with
  | nil => simp
  | cons p l ih =>
    rw [List.foldl_cons, List.countP_cons]
    by_cases hin : inside s (addPos p d) = true
    · rw [if_pos hin, ih _ (by rw [Array.size_modify]; exact hk), cooc_getD_modify _ _ _ _ hk]
      by_cases hik : (f p).toNat * m + (f (addPos p d)).toNat = k
      · simp [hin, hik]; omega
      · simp [hin, hik]
    · rw [if_neg hin, ih _ hk]
      simp [hin]

theorem coocModel_getD (m : Nat) (im : Img Int) (d : List Int) (k : Nat) (hk : k < m * m) :
    (coocModel m im d).getD k 0 = (boxPos im.shape).countP (fun p => inside im.shape (addPos p d) &&
          ((im.getD p 0).toNat * m + (im.getD (addPos p d) 0).toNat == k)) := by
  have h := coocFold_getD m im.shape (fun p => im.getD p 0) d (boxPos im.shape)
    (Array.replicate (m * m) 0) k (by simpa using hk)
  have h0 : (Array.replicate (m * m) 0 : Array Nat).getD k 0 = 0 := by
    simp [Array.getD_eq_getD_getElem?, hk]
  rw [h0, Nat.zero_add] at h
  exact h

theorem coocModel_eq_count (m : Nat) (im : Img Int) (d : List Int)
    (hv : ∀ p, 0 ≤ im.getD p 0 ∧ im.getD p 0 < (m : Int)) (a b : Nat) (ha : a < m) (hb : b < m) :
    (coocModel m im d).getD (a * m + b) 0
      = coocCount im.shape (fun p => im.getD p 0) d (a : Int) (b : Int) := by
  have hk : a * m + b < m * m := by
    have : (a + 1) * m ≤ m * m := Nat.mul_le_mul_right m ha
    rw [Nat.add_mul] at this; omega
  rw [coocModel_getD m im d _ hk, coocCount]
  apply List.countP_congr
  intro p _
  have hp := hv p
  have hq := hv (addPos p d)
  simp only [Bool.and_eq_true, beq_iff_eq]
  constructor
  · rintro ⟨hin, he⟩
    have := cooc_digits_unique m _ _ a b (by omega) hb he
    exact ⟨hin, by omega, by omega⟩
  · rintro ⟨hin, h1, h2⟩
    refine ⟨hin, ?_⟩
    rw [h1, h2]; simp

theorem symFold_getD (m : Nat) (c : Array Nat) (a b : Nat) (ha : a < m) (hb : b < m) :
    (symFold m c).getD (a * m + b) 0 = c.getD (a * m + b) 0 + c.getD (b * m + a) 0 := by
  have hk : a * m + b < m * m := by
    have : (a + 1) * m ≤ m * m := Nat.mul_le_mul_right m ha
    rw [Nat.add_mul] at this; omega
  have hm : 0 < m := by omega
  have h1 : (a * m + b) / m = a := by
    rw [Nat.add_comm, Nat.add_mul_div_right _ _ hm, Nat.div_eq_of_lt hb]; omega
  have h2 : (a * m + b) % m = b := by
    rw [Nat.add_comm, Nat.add_mul_mod_self_right, Nat.mod_eq_of_lt hb]
  simp [symFold, Array.getD_eq_getD_getElem?, hk, h1, h2]

theorem coocModel_sym_eq (m : Nat) (im : Img Int) (d : List Int)
    (hv : ∀ p, 0 ≤ im.getD p 0 ∧ im.getD p 0 < (m : Int)) (a b : Nat) (ha : a < m) (hb : b < m) :
    (symFold m (coocModel m im d)).getD (a * m + b) 0
      = coocSym im.shape (fun p => im.getD p 0) d (a : Int) (b : Int) := by
  rw [symFold_getD m _ a b ha hb, coocModel_eq_count m im d hv a b ha hb,
    coocModel_eq_count m im d hv b a hb ha, coocSym]


/-! ## whole-matrix form: the model output is the specification matrix `coocSpecMat` -/

theorem coocFold_size (m : Nat) (s : List Nat) (f : List Int → Int) (d : List Int)
    (l : List (List Int)) (acc : Array Nat) :
    (l.foldl (fun acc p =>
        if inside s (addPos p d) then
          acc.modify ((f p).toNat * m + (f (addPos p d)).toNat) (· + 1)
        else acc) acc).size = acc.size := by
  induction l generalizing acc with
  | nil => rfl
  | cons p l ih =>
    rw [List.foldl_cons, ih]
    split
    · exact Array.size_modify
    · rfl

theorem coocModel_size (m : Nat) (im : Img Int) (d : List Int) :
    (coocModel m im d).size = m * m := by
  have h := coocFold_size m im.shape (fun p => im.getD p 0) d (boxPos im.shape)
    (Array.replicate (m * m) 0)
  rw [Array.size_replicate] at h
  exact h

theorem symFold_size (m : Nat) (c : Array Nat) : (symFold m c).size = m * m := by
  simp [symFold]

theorem cooc_split_index (m k : Nat) (hk : k < m * m) :
    k / m < m ∧ k % m < m ∧ k / m * m + k % m = k := by
  have hm : 0 < m := by
    rcases Nat.eq_zero_or_pos m with h | h
    · subst h; simp at hk
    · exact h
  refine ⟨(Nat.div_lt_iff_lt_mul hm).2 hk, Nat.mod_lt _ hm, ?_⟩
  rw [Nat.mul_comm]; exact Nat.div_add_mod k m

theorem coocModel_toList (m : Nat) (im : Img Int) (d : List Int)
    (hv : ∀ p, 0 ≤ im.getD p 0 ∧ im.getD p 0 < (m : Int)) :
    (coocModel m im d).toList = coocSpecMat m im d false := by
  apply List.ext_getElem
  · simp [coocSpecMat, coocModel_size]
  · intro k h1 h2
    have hk : k < m * m := by simpa [coocModel_size] using h1
    obtain ⟨ha, hb, he⟩ := cooc_split_index m k hk
    have h := coocModel_eq_count m im d hv (k / m) (k % m) ha hb
    rw [he, Array.getD_eq_getD_getElem?] at h
    have hsz : k < (coocModel m im d).size := by rw [coocModel_size]; exact hk
    simp only [Array.getElem?_eq_getElem hsz, Option.getD_some] at h
    simp [coocSpecMat, h]

theorem coocModel_sym_toList (m : Nat) (im : Img Int) (d : List Int)
    (hv : ∀ p, 0 ≤ im.getD p 0 ∧ im.getD p 0 < (m : Int)) :
    (symFold m (coocModel m im d)).toList = coocSpecMat m im d true := by
  apply List.ext_getElem
  · simp [coocSpecMat, symFold_size]
  · intro k h1 h2
    have hk : k < m * m := by simpa [symFold_size] using h1
    obtain ⟨ha, hb, he⟩ := cooc_split_index m k hk
    have h := coocModel_sym_eq m im d hv (k / m) (k % m) ha hb
    rw [he, Array.getD_eq_getD_getElem?] at h
    have hsz : k < (symFold m (coocModel m im d)).size := by rw [symFold_size]; exact hk
    simp only [Array.getElem?_eq_getElem hsz, Option.getD_some] at h
    simp [coocSpecMat, h]

end Mahotas.C19
