/-
C19 (round 3) — the entropy features over the reals.

`entropyG`, `hxy1G` are the generic definitions of `Model/C19.lean` from which `haralick13` takes
f8, f9, f11, HX, HY, HXY1 at `Float` with `Float.log2`; here they are instantiated at `ℝ` with
`Real.logb 2`. Proved: every entropy of a list of numbers in `[0,1]` is `≥ 0`; Gibbs' inequality
`HXY = f9 ≤ HXY1`, i.e. the numerator of the information measure f12 is `≤ 0`.
-/
import Mahotas.Proofs.C19HaralickFeat
import Mathlib.Analysis.SpecialFunctions.Log.Base
namespace Mahotas.C19
open Mahotas
open Finset (range)

noncomputable section

/-- `log₂` on the reals -/
def log2R (x : ℝ) : ℝ := Real.logb 2 x

/-- one term `p log₂ q` of a cross entropy, `0` when `p = 0` -/
def xlog (p q : ℝ) : ℝ := if p = 0 then 0 else p * log2R q

theorem entropyG_eq (xs : List ℝ) : entropyG 0 log2R xs = -(xs.map fun p => xlog p p).sum := by
  unfold entropyG
  rw [gsum_eq_sum]
  congr 2
  apply List.map_congr_left
  intro p _
  unfold xlog
  by_cases h : p = 0 <;> simp [h]

theorem xlog_self_nonpos (p : ℝ) (h0 : 0 ≤ p) (h1 : p ≤ 1) : xlog p p ≤ 0 := by
  unfold xlog log2R
  split
  · exact le_refl _
  · exact mul_nonpos_of_nonneg_of_nonpos h0 (Real.logb_nonpos (by norm_num) h0 h1)

theorem list_sum_nonpos (l : List ℝ) (h : ∀ x ∈ l, x ≤ 0) : l.sum ≤ 0 := by
  induction l with
  | nil => simp
  | cons a t ih =>
    rw [List.sum_cons]
    exact add_nonpos (h a (by simp)) (ih fun x hx => h x (by simp [hx]))

/-- **entropies are non-negative** -/
theorem entropyG_nonneg (xs : List ℝ) (h : ∀ x ∈ xs, 0 ≤ x ∧ x ≤ 1) : 0 ≤ entropyG 0 log2R xs := by
  rw [entropyG_eq, neg_nonneg]
  apply list_sum_nonpos
  intro y hy
  obtain ⟨p, hp, rfl⟩ := List.mem_map.1 hy
  exact xlog_self_nonpos p (h p hp).1 (h p hp).2

/-- termwise Gibbs: `p log₂ q − p log₂ p ≤ (q − p)/ln 2` -/
theorem xlog_gibbs (p q : ℝ) (hp : 0 ≤ p) (hq : 0 ≤ q) (hpq : 0 < p → 0 < q) :
    xlog p q - xlog p p ≤ (q - p) / Real.log 2 := by
  have hl2 : 0 < Real.log 2 := Real.log_pos (by norm_num)
  unfold xlog log2R
  by_cases h : p = 0
  · simp only [h, if_true, sub_zero]
    exact div_nonneg hq hl2.le
  · have hp' : 0 < p := lt_of_le_of_ne hp (Ne.symm h)
    have hq' : 0 < q := hpq hp'
    simp only [h, if_false]
    have hlog : Real.log q - Real.log p ≤ q / p - 1 := by
      rw [← Real.log_div (ne_of_gt hq') (ne_of_gt hp')]
      exact Real.log_le_sub_one_of_pos (div_pos hq' hp')
    have e : p * Real.logb 2 q - p * Real.logb 2 p = p * (Real.log q - Real.log p) / Real.log 2 := by
      unfold Real.logb; ring
    rw [e]
    apply div_le_div_of_nonneg_right _ hl2.le
    calc p * (Real.log q - Real.log p) ≤ p * (q / p - 1) := mul_le_mul_of_nonneg_left hlog hp
      _ = q - p := by field_simp

/-- **Gibbs' inequality** on a finite index set: `Σ p log₂ q ≤ Σ p log₂ p` when `Σ q ≤ Σ p` -/
theorem gibbs {ι : Type} (s : Finset ι) (p q : ι → ℝ) (hp : ∀ x ∈ s, 0 ≤ p x) (hq : ∀ x ∈ s, 0 ≤ q x)
    (hpq : ∀ x ∈ s, 0 < p x → 0 < q x) (hsum : ∑ x ∈ s, q x ≤ ∑ x ∈ s, p x) :
    ∑ x ∈ s, xlog (p x) (q x) ≤ ∑ x ∈ s, xlog (p x) (p x) := by
  have hl2 : 0 < Real.log 2 := Real.log_pos (by norm_num)
  have h1 : ∑ x ∈ s, (xlog (p x) (q x) - xlog (p x) (p x)) ≤ ∑ x ∈ s, (q x - p x) / Real.log 2 :=
    Finset.sum_le_sum fun x hx => xlog_gibbs _ _ (hp x hx) (hq x hx) (hpq x hx)
  rw [Finset.sum_sub_distrib, ← Finset.sum_div, Finset.sum_sub_distrib] at h1
  have h2 : (∑ x ∈ s, q x - ∑ x ∈ s, p x) / Real.log 2 ≤ 0 :=
    div_nonpos_of_nonpos_of_nonneg (by linarith) hl2.le
  linarith

/-! ## the features -/

/-- entropy of the list of all entries of the normalised matrix, as a double sum over `matAt` -/
theorem entropy_matrix (m : ℕ) (c : List ℕ) (hlen : c.length = m * m) :
    entropyG 0 log2R (normMat (Nat.cast : ℕ → ℝ) c).toList =
      -(∑ i ∈ range m, ∑ j ∈ range m,
        xlog (matAt (0 : ℝ) m (normMat Nat.cast c) i j) (matAt (0 : ℝ) m (normMat Nat.cast c) i j)) := by
  rw [entropyG_eq]
  congr 1
  unfold matAt
  rw [sum_pairs (fun k => xlog ((normMat (Nat.cast : ℕ → ℝ) c).getD k 0) ((normMat (Nat.cast : ℕ → ℝ) c).getD k 0)),
    ← hlen]
  have hsz : (normMat (Nat.cast : ℕ → ℝ) c).toList.length = c.length := by simp [normMat]
  have : ∀ (l : List ℝ) (f : ℝ → ℝ), (l.map f).sum = ∑ k ∈ range l.length, f (l.getD k 0) := by
    intro l f
    induction l with
    | nil => simp
    | cons x t ih =>
      rw [List.map_cons, List.sum_cons, ih, List.length_cons, Finset.sum_range_succ']
      simp only [List.getD_cons_succ, List.getD_cons_zero]
      ring
  rw [this, hsz]
  refine Finset.sum_congr rfl fun k _ => ?_
  simp [Array.getD_eq_getD_getElem?, List.getD_eq_getElem?_getD]

theorem hxy1_eq (m : ℕ) (P : ℕ → ℕ → ℝ) (px py : List ℝ) :
    hxy1G 0 log2R m P px py =
      -(∑ i ∈ range m, ∑ j ∈ range m, xlog (P i j) (px.getD j 0 * py.getD i 0)) := by
  unfold hxy1G
  rw [gsum_allPairs]
  congr 1
  refine Finset.sum_congr rfl fun i _ => Finset.sum_congr rfl fun j _ => ?_
  unfold xlog
  by_cases h : P i j = 0 <;> simp [h]

/-- **Gibbs for the co-occurrence matrix: `f9 = HXY ≤ HXY1`** (the numerator of f12 is `≤ 0`) -/
theorem entropy_le_hxy1 (m : ℕ) (c : List ℕ) (hlen : c.length = m * m) (hT : c.sum ≠ 0) :
    entropyG 0 log2R (normMat (Nat.cast : ℕ → ℝ) c).toList ≤
      hxy1G 0 log2R m (matAt (0 : ℝ) m (normMat Nat.cast c))
        (colSumG 0 m (matAt (0 : ℝ) m (normMat Nat.cast c))) (rowSumG 0 m (matAt (0 : ℝ) m (normMat Nat.cast c))) := by
  rw [entropy_matrix m c hlen, hxy1_eq, neg_le_neg_iff]
  set P := matAt (0 : ℝ) m (normMat Nat.cast c) with hPdef
  have h0 : ∀ i j, 0 ≤ P i j := fun i j => matAt_nonneg m c i j
  have h1 : ∑ i ∈ range m, ∑ j ∈ range m, P i j = 1 := matAt_total m c hlen hT
  rw [dsum_eq_prod, dsum_eq_prod]
  have hcol : ∀ j ∈ range m, (colSumG (0 : ℝ) m P).getD j 0 = ∑ i ∈ range m, P i j :=
    fun j hj => colSum_getD m P j (Finset.mem_range.1 hj)
  have hrow : ∀ i ∈ range m, (rowSumG (0 : ℝ) m P).getD i 0 = ∑ j ∈ range m, P i j :=
    fun i hi => rowSum_getD m P i (Finset.mem_range.1 hi)
  apply gibbs (range m ×ˢ range m) (fun x => P x.1 x.2)
    (fun x => (colSumG (0 : ℝ) m P).getD x.2 0 * (rowSumG (0 : ℝ) m P).getD x.1 0)
  · intro x _; exact h0 _ _
  · intro x hx
    obtain ⟨hx1, hx2⟩ := Finset.mem_product.1 hx
    rw [hcol _ hx2, hrow _ hx1]
    exact mul_nonneg (Finset.sum_nonneg fun i _ => h0 _ _) (Finset.sum_nonneg fun j _ => h0 _ _)
  · intro x hx hpos
    obtain ⟨hx1, hx2⟩ := Finset.mem_product.1 hx
    rw [hcol _ hx2, hrow _ hx1]
    apply mul_pos
    · exact lt_of_lt_of_le hpos (Finset.single_le_sum (f := fun i => P i x.2) (fun i _ => h0 _ _) hx1)
    · exact lt_of_lt_of_le hpos (Finset.single_le_sum (f := fun j => P x.1 j) (fun j _ => h0 _ _) hx2)
  · rw [← dsum_eq_prod m (fun i j => (colSumG (0 : ℝ) m P).getD j 0 * (rowSumG (0 : ℝ) m P).getD i 0),
      ← dsum_eq_prod m (fun i j => P i j), h1]
    have : ∑ i ∈ range m, ∑ j ∈ range m, (colSumG (0 : ℝ) m P).getD j 0 * (rowSumG (0 : ℝ) m P).getD i 0 =
        (∑ j ∈ range m, (colSumG (0 : ℝ) m P).getD j 0) * (∑ i ∈ range m, (rowSumG (0 : ℝ) m P).getD i 0) := by
      rw [Finset.sum_mul_sum, Finset.sum_comm]
    rw [this, Finset.sum_congr rfl hcol, Finset.sum_congr rfl hrow, Finset.sum_comm, h1, one_mul]

/-! ## `HXY1 = HXY2 = HX + HY` -/

theorem sum_map_getD (l : List ℝ) (f : ℝ → ℝ) : (l.map f).sum = ∑ k ∈ range l.length, f (l.getD k 0) := by
  induction l with
  | nil => simp
  | cons x t ih =>
    rw [List.map_cons, List.sum_cons, ih, List.length_cons, Finset.sum_range_succ']
    simp only [List.getD_cons_succ, List.getD_cons_zero]
    ring

theorem entropy_list (l : List ℝ) :
    entropyG 0 log2R l = -(∑ k ∈ range l.length, xlog (l.getD k 0) (l.getD k 0)) := by
  rw [entropyG_eq, sum_map_getD l (fun p => xlog p p)]

/-- `xlog p (a·b) = p·(ℓ a + ℓ b)` with `ℓ x = log₂ x` for `x ≠ 0`, when `p ≠ 0 → a, b ≠ 0` -/
theorem xlog_mul (p a b : ℝ) (h : p ≠ 0 → a ≠ 0 ∧ b ≠ 0) :
    xlog p (a * b) = p * (log2R a + log2R b) := by
  unfold xlog log2R
  by_cases hp : p = 0
  · simp [hp]
  · obtain ⟨ha, hb⟩ := h hp
    rw [if_neg hp, Real.logb_mul ha hb]

theorem mul_log_eq_xlog (x : ℝ) : x * log2R x = xlog x x := by
  unfold xlog
  by_cases h : x = 0
  · rw [if_pos h, h, zero_mul]
  · rw [if_neg h]

theorem xlog_prod_self (a b : ℝ) : xlog (a * b) (a * b) = b * xlog a a + a * xlog b b := by
  unfold xlog log2R
  by_cases ha : a = 0
  · simp [ha]
  · by_cases hb : b = 0
    · simp [hb]
    · rw [if_neg (mul_ne_zero ha hb), if_neg ha, if_neg hb, Real.logb_mul ha hb]; ring

theorem hxy2_eq (m : ℕ) (P : ℕ → ℕ → ℝ) (px py : List ℝ) :
    hxy2G 0 log2R m P px py =
      -(∑ i ∈ range m, ∑ j ∈ range m, xlog (px.getD j 0 * py.getD i 0) (px.getD j 0 * py.getD i 0)) := by
  unfold hxy2G
  rw [gsum_allPairs]
  congr 1
  refine Finset.sum_congr rfl fun i _ => Finset.sum_congr rfl fun j _ => ?_
  unfold xlog
  by_cases h : px.getD j 0 * py.getD i 0 = 0 <;> simp [h]

/-- **`HXY1 = HX + HY` and `HXY2 = HX + HY`** for the marginals of a non-negative matrix with total 1 -/
theorem hxy_eq_hx_add_hy (m : ℕ) (P : ℕ → ℕ → ℝ) (h0 : ∀ i j, 0 ≤ P i j)
    (h1 : ∑ i ∈ range m, ∑ j ∈ range m, P i j = 1) :
    hxy1G 0 log2R m P (colSumG 0 m P) (rowSumG 0 m P) =
      entropyG 0 log2R (colSumG 0 m P) + entropyG 0 log2R (rowSumG 0 m P) ∧
    hxy2G 0 log2R m P (colSumG 0 m P) (rowSumG 0 m P) =
      entropyG 0 log2R (colSumG 0 m P) + entropyG 0 log2R (rowSumG 0 m P) := by
  have hcol : ∀ j ∈ range m, (colSumG (0 : ℝ) m P).getD j 0 = ∑ i ∈ range m, P i j :=
    fun j hj => colSum_getD m P j (Finset.mem_range.1 hj)
  have hrow : ∀ i ∈ range m, (rowSumG (0 : ℝ) m P).getD i 0 = ∑ j ∈ range m, P i j :=
    fun i hi => rowSum_getD m P i (Finset.mem_range.1 hi)
  have hlc : (colSumG (0 : ℝ) m P).length = m := by simp [colSumG]
  have hlr : (rowSumG (0 : ℝ) m P).length = m := by simp [rowSumG]
  have hsc : ∑ j ∈ range m, (colSumG (0 : ℝ) m P).getD j 0 = 1 := by
    rw [Finset.sum_congr rfl hcol, Finset.sum_comm, h1]
  have hsr : ∑ i ∈ range m, (rowSumG (0 : ℝ) m P).getD i 0 = 1 := by
    rw [Finset.sum_congr rfl hrow, h1]
  rw [entropy_list, entropy_list, hlc, hlr, hxy1_eq, hxy2_eq]
  set px := colSumG (0 : ℝ) m P
  set py := rowSumG (0 : ℝ) m P
  constructor
  · -- HXY1
    rw [← neg_add, neg_inj]
    have hterm : ∀ i ∈ range m, ∀ j ∈ range m, xlog (P i j) (px.getD j 0 * py.getD i 0) =
        P i j * log2R (px.getD j 0) + P i j * log2R (py.getD i 0) := by
      intro i hi j hj
      rw [xlog_mul, mul_add]
      intro hp
      have hpos : 0 < P i j := lt_of_le_of_ne (h0 i j) (Ne.symm hp)
      constructor
      · rw [hcol j hj]
        exact ne_of_gt (lt_of_lt_of_le hpos (Finset.single_le_sum (f := fun i => P i j) (fun i _ => h0 _ _) hi))
      · rw [hrow i hi]
        exact ne_of_gt (lt_of_lt_of_le hpos (Finset.single_le_sum (f := fun j => P i j) (fun j _ => h0 _ _) hj))
    rw [Finset.sum_congr rfl fun i hi => Finset.sum_congr rfl fun j hj => hterm i hi j hj]
    simp only [Finset.sum_add_distrib]
    congr 1
    · rw [Finset.sum_comm]
      refine Finset.sum_congr rfl fun j hj => ?_
      rw [← Finset.sum_mul, ← hcol j hj]
      exact mul_log_eq_xlog _
    · refine Finset.sum_congr rfl fun i hi => ?_
      rw [← Finset.sum_mul, ← hrow i hi]
      exact mul_log_eq_xlog _
  · -- HXY2
    rw [← neg_add, neg_inj]
    simp only [xlog_prod_self, Finset.sum_add_distrib]
    congr 1
    · rw [Finset.sum_comm]
      refine Finset.sum_congr rfl fun j _ => ?_
      rw [← Finset.sum_mul, hsr, one_mul]
    · refine Finset.sum_congr rfl fun i _ => ?_
      rw [← Finset.sum_mul, hsc, one_mul]

/-- the argument of f13: `0 ≤ 1 − exp(−2 (HXY2 − HXY)) < 1` -/
theorem f13_arg_bounds (hxy2 f9 : ℝ) (h : f9 ≤ hxy2) :
    0 ≤ 1 - Real.exp (-2 * (hxy2 - f9)) ∧ 1 - Real.exp (-2 * (hxy2 - f9)) < 1 := by
  have hexp : Real.exp (-2 * (hxy2 - f9)) ≤ 1 := by
    rw [← Real.exp_zero]
    exact Real.exp_le_exp.2 (by linarith)
  have hpos := Real.exp_pos (-2 * (hxy2 - f9))
  constructor <;> linarith

/-! ## all five entropies of `haralick13` are non-negative -/

theorem entropy_nonneg_of_prob (l : List ℝ) (h0 : ∀ x ∈ l, 0 ≤ x) (hs : l.sum = 1) : 0 ≤ entropyG 0 log2R l :=
  entropyG_nonneg l fun x hx => ⟨h0 x hx, hs ▸ List.single_le_sum h0 x hx⟩

theorem pminus_nonneg (m : ℕ) (P : ℕ → ℕ → ℝ) (h0 : ∀ i j, 0 ≤ P i j) : ∀ x ∈ pminusG (0 : ℝ) m P, 0 ≤ x := by
  intro x hx
  unfold pminusG at hx
  obtain ⟨k, _, rfl⟩ := List.mem_map.1 hx
  apply gsum_nonneg
  intro y hy
  obtain ⟨i, _, hy⟩ := List.mem_flatMap.1 hy
  obtain ⟨j, _, hj⟩ := List.mem_filterMap.1 hy
  split at hj
  · cases hj; exact h0 _ _
  · cases hj

theorem entropies_nonneg (m : ℕ) (c : List ℕ) (hlen : c.length = m * m) (hT : c.sum ≠ 0) :
    let P := matAt (0 : ℝ) m (normMat Nat.cast c)
    0 ≤ entropyG 0 log2R (pplusG 0 m P) ∧ 0 ≤ entropyG 0 log2R (normMat (Nat.cast : ℕ → ℝ) c).toList ∧
    0 ≤ entropyG 0 log2R (pminusG 0 m P) ∧ 0 ≤ entropyG 0 log2R (colSumG 0 m P) ∧
    0 ≤ entropyG 0 log2R (rowSumG 0 m P) := by
  intro P
  have h0 : ∀ i j, 0 ≤ P i j := fun i j => matAt_nonneg m c i j
  have h1 : ∑ i ∈ range m, ∑ j ∈ range m, P i j = 1 := matAt_total m c hlen hT
  refine ⟨?_, ?_, ?_, ?_, ?_⟩
  · apply entropy_nonneg_of_prob _ (pplus_nonneg m P h0)
    rw [← gsum_eq_sum, pplus_sum, h1]
  · apply entropy_nonneg_of_prob
    · intro x hx
      unfold normMat at hx
      rw [List.toList_toArray] at hx
      obtain ⟨v, _, rfl⟩ := List.mem_map.1 hx
      exact div_nonneg (Nat.cast_nonneg _) (Nat.cast_nonneg _)
    · rw [← gsum_eq_sum]; exact normMat_sum c hT
  · apply entropy_nonneg_of_prob _ (pminus_nonneg m P h0)
    rw [← gsum_eq_sum, pminus_sum, h1]
  · apply entropy_nonneg_of_prob
    · intro x hx
      unfold colSumG at hx
      obtain ⟨j, _, rfl⟩ := List.mem_map.1 hx
      apply gsum_nonneg
      intro y hy
      obtain ⟨i, _, rfl⟩ := List.mem_map.1 hy
      exact h0 _ _
    · unfold colSumG
      rw [sum_map_range]
      simp only [gsum_eq_sum, sum_map_range]
      rw [Finset.sum_comm, h1]
  · apply entropy_nonneg_of_prob
    · intro x hx
      unfold rowSumG at hx
      obtain ⟨i, _, rfl⟩ := List.mem_map.1 hx
      apply gsum_nonneg
      intro y hy
      obtain ⟨j, _, rfl⟩ := List.mem_map.1 hy
      exact h0 _ _
    · unfold rowSumG
      rw [sum_map_range]
      simp only [gsum_eq_sum, sum_map_range]
      rw [h1]

end

end Mahotas.C19
