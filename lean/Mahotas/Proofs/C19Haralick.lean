/-
C19 (round 2) — sanity of the normalised co-occurrence matrix and its marginals (over any ordered field),
and scale invariance of the Zernike pixel weights. The definitions (`gsum`, `normMat`, `matAt`, `pplusG`,
`pminusG`, `asmG`, `zernikeFrac`) are the generic ones of `Model/C19.lean` that the driver runs at `Float`.
-/
import Mahotas.Model.C19
import Mathlib.Algebra.BigOperators.Group.Finset.Basic
import Mathlib.Algebra.BigOperators.Group.Finset.Piecewise
import Mathlib.Algebra.BigOperators.Group.Finset.Sigma
import Mathlib.Algebra.BigOperators.Ring.Finset
import Mathlib.Algebra.BigOperators.Field
import Mathlib.Algebra.Order.BigOperators.Group.Finset
import Mathlib.Algebra.Order.BigOperators.Group.List
import Mathlib.Algebra.Order.Field.Basic
import Mathlib.Tactic.Linarith
import Mathlib.Tactic.Ring
namespace Mahotas.C19
open Mahotas
open Finset (range)

/-! ## list sums as finite sums -/

theorem foldl_add_eq {β : Type} [AddMonoid β] (xs : List β) (a : β) :
    xs.foldl (· + ·) a = a + xs.sum := by
  induction xs generalizing a with
  | nil => simp
  | cons x t ih => simp [List.foldl_cons, List.sum_cons, ih, add_assoc]

theorem gsum_eq_sum {β : Type} [AddMonoid β] (xs : List β) : gsum 0 xs = xs.sum := by
  unfold gsum; rw [foldl_add_eq]; simp

theorem sum_map_range {β : Type} [AddCommMonoid β] (f : ℕ → β) (n : ℕ) :
    ((List.range n).map f).sum = ∑ i ∈ range n, f i := by
  induction n with
  | zero => simp
  | succ n ih =>
    rw [List.range_succ, List.map_append, List.sum_append, ih, Finset.sum_range_succ]
    simp

theorem sum_flatMap' {β γ : Type} [AddMonoid β] (l : List γ) (g : γ → List β) :
    (l.flatMap g).sum = (l.map fun a => (g a).sum).sum := by
  induction l with
  | nil => simp
  | cons a t ih => simp [List.flatMap_cons, List.sum_append, ih]

theorem sum_filterMap_ite {β : Type} [AddMonoid β] (l : List ℕ) (c : ℕ → Bool) (f : ℕ → β) :
    (l.filterMap fun j => if c j then some (f j) else none).sum = (l.map fun j => if c j then f j else 0).sum := by
  induction l with
  | nil => simp
  | cons a t ih =>
    by_cases h : c a <;> simp [h, ih]

/-- sum over all index pairs = double finite sum -/
theorem gsum_allPairs {β : Type} [AddCommMonoid β] (m : ℕ) (F : ℕ × ℕ → β) :
    gsum 0 ((allPairs m).map F) = ∑ i ∈ range m, ∑ j ∈ range m, F (i, j) := by
  rw [gsum_eq_sum, allPairs, List.map_flatMap, sum_flatMap', sum_map_range]
  refine Finset.sum_congr rfl fun i _ => ?_
  rw [List.map_map, sum_map_range]
  rfl

/-- row-major flattening of a double sum -/
theorem sum_pairs {β : Type} [AddCommMonoid β] (f : ℕ → β) (n m : ℕ) :
    ∑ i ∈ range n, ∑ j ∈ range m, f (i * m + j) = ∑ k ∈ range (n * m), f k := by
  induction n with
  | zero => simp
  | succ n ih =>
    rw [Finset.sum_range_succ, ih, Nat.succ_mul, Finset.sum_range_add]

section field
variable {α : Type} [Field α] [LinearOrder α] [IsStrictOrderedRing α]

/-! ## the normalised matrix -/

omit [LinearOrder α] [IsStrictOrderedRing α] in
theorem sum_map_cast_div (c : List ℕ) (t : α) :
    (c.map fun (v : ℕ) => (v : α) / t).sum = ((c.sum : ℕ) : α) / t := by
  induction c with
  | nil => simp
  | cons x xs ih => simp [ih, add_div]

theorem nat_foldl_eq_sum (c : List ℕ) : c.foldl (· + ·) 0 = c.sum := by
  rw [foldl_add_eq]; simp

omit [LinearOrder α] [IsStrictOrderedRing α] in
/-- the entries of `p = c / Σc` (0 outside the matrix) -/
theorem normMat_getD (c : List ℕ) (k : ℕ) :
    (normMat (Nat.cast : ℕ → α) c).getD k 0 = ((c.getD k 0 : ℕ) : α) / ((c.sum : ℕ) : α) := by
  unfold normMat
  rw [nat_foldl_eq_sum]
  by_cases hk : k < c.length
  · simp [Array.getD, hk, List.getD_eq_getElem?_getD]
  · simp [Array.getD, hk, List.getD_eq_getElem?_getD]

/-- **`Σ p = 1`** -/
theorem normMat_sum (c : List ℕ) (hT : c.sum ≠ 0) :
    gsum 0 (normMat (Nat.cast : ℕ → α) c).toList = 1 := by
  rw [gsum_eq_sum]
  unfold normMat
  rw [nat_foldl_eq_sum, List.toList_toArray, sum_map_cast_div]
  exact div_self (Nat.cast_ne_zero.2 hT)

omit [LinearOrder α] [IsStrictOrderedRing α] in
theorem sum_range_getD (c : List ℕ) :
    ∑ k ∈ range c.length, ((c.getD k 0 : ℕ) : α) = ((c.sum : ℕ) : α) := by
  induction c with
  | nil => simp
  | cons x xs ih =>
    rw [List.length_cons, Finset.sum_range_succ']
    simp only [List.getD_cons_succ, List.getD_cons_zero, List.sum_cons, Nat.cast_add]
    rw [ih, add_comm]

theorem normMat_nonneg (c : List ℕ) (k : ℕ) : (0 : α) ≤ (normMat (Nat.cast : ℕ → α) c).getD k 0 := by
  rw [normMat_getD]
  exact div_nonneg (Nat.cast_nonneg _) (Nat.cast_nonneg _)

/-- `Σ_{k < |c|} p_k = 1` as a finite sum -/
theorem normMat_sum_range (c : List ℕ) (hT : c.sum ≠ 0) :
    ∑ k ∈ range c.length, (normMat (Nat.cast : ℕ → α) c).getD k 0 = 1 := by
  simp only [normMat_getD]
  rw [← Finset.sum_div, sum_range_getD]
  exact div_self (Nat.cast_ne_zero.2 hT)

theorem normMat_le_one (c : List ℕ) (hT : c.sum ≠ 0) (k : ℕ) :
    (normMat (Nat.cast : ℕ → α) c).getD k 0 ≤ 1 := by
  by_cases hk : k < c.length
  · rw [← normMat_sum_range (α := α) c hT]
    exact Finset.single_le_sum (f := fun k => (normMat (Nat.cast : ℕ → α) c).getD k 0)
      (fun i _ => normMat_nonneg c i) (Finset.mem_range.2 hk)
  · rw [normMat_getD, List.getD_eq_getElem?_getD, List.getElem?_eq_none (Nat.le_of_not_lt hk)]
    simp

/-- total of the `m × m` matrix read through `matAt` -/
theorem matAt_total (m : ℕ) (c : List ℕ) (hlen : c.length = m * m) (hT : c.sum ≠ 0) :
    ∑ i ∈ range m, ∑ j ∈ range m, matAt (0 : α) m (normMat (Nat.cast : ℕ → α) c) i j = 1 := by
  unfold matAt
  rw [sum_pairs (fun k => (normMat (Nat.cast : ℕ → α) c).getD k 0), ← hlen]
  exact normMat_sum_range c hT

/-- **angular second moment in `[0, 1]`** -/
theorem asm_bounds (m : ℕ) (c : List ℕ) (hlen : c.length = m * m) (hT : c.sum ≠ 0) :
    0 ≤ asmG (0 : α) m (matAt 0 m (normMat (Nat.cast : ℕ → α) c)) ∧
    asmG (0 : α) m (matAt 0 m (normMat (Nat.cast : ℕ → α) c)) ≤ 1 := by
  unfold asmG
  rw [gsum_allPairs]
  constructor
  · exact Finset.sum_nonneg fun i _ => Finset.sum_nonneg fun j _ => mul_self_nonneg _
  · rw [← matAt_total (α := α) m c hlen hT]
    refine Finset.sum_le_sum fun i _ => Finset.sum_le_sum fun j _ => ?_
    unfold matAt
    have h0 := normMat_nonneg (α := α) c (i * m + j)
    have h1 := normMat_le_one (α := α) c hT (i * m + j)
    calc _ ≤ (normMat (Nat.cast : ℕ → α) c).getD (i * m + j) 0 * 1 := mul_le_mul_of_nonneg_left h1 h0
      _ = _ := mul_one _

/-! ## the marginals `p_{x+y}` and `p_{x−y}` (for any matrix `P`) -/

omit [LinearOrder α] [IsStrictOrderedRing α] in
theorem pplus_inner (m : ℕ) (P : ℕ → ℕ → α) (i k : ℕ) :
    ∑ j ∈ range m, (if i + j = k then P i j else 0) = if i ≤ k ∧ k - i < m then P i (k - i) else 0 := by
  by_cases h : i ≤ k
  · have e : ∀ j, (i + j = k ↔ j = k - i) := fun j => by omega
    simp only [e, Finset.sum_ite_eq', Finset.mem_range, h, true_and]
  · have e : ∀ j, ¬ (i + j = k) := fun j => by omega
    simp [e, h]

omit [LinearOrder α] [IsStrictOrderedRing α] in
/-- entry `k` of the model's `p_{x+y}` is the stated fold `Σ_{i+j=k} p(i,j)` -/
theorem pplus_getD (m : ℕ) (P : ℕ → ℕ → α) (k : ℕ) (hk : k < 2 * m) :
    (pplusG (0 : α) m P).getD k 0 =
      gsum 0 ((allPairs m).map fun (ij : ℕ × ℕ) => if ij.1 + ij.2 = k then P ij.1 ij.2 else 0) := by
  rw [gsum_allPairs]
  unfold pplusG
  rw [List.getD_eq_getElem?_getD, List.getElem?_map, List.getElem?_range hk]
  simp only [Option.map_some, Option.getD_some]
  rw [gsum_eq_sum, sum_map_range]
  exact Finset.sum_congr rfl fun i _ => (pplus_inner m P i k).symm

omit [LinearOrder α] [IsStrictOrderedRing α] in
/-- `Σ_k p_{x+y}(k) = Σ_{i,j} p(i,j)` -/
theorem pplus_sum (m : ℕ) (P : ℕ → ℕ → α) :
    gsum 0 (pplusG (0 : α) m P) = ∑ i ∈ range m, ∑ j ∈ range m, P i j := by
  unfold pplusG
  rw [gsum_eq_sum, sum_map_range]
  simp only [gsum_eq_sum, sum_map_range, ← pplus_inner]
  rw [Finset.sum_comm]
  refine Finset.sum_congr rfl fun i hi => ?_
  rw [Finset.sum_comm]
  refine Finset.sum_congr rfl fun j hj => ?_
  rw [Finset.sum_ite_eq]
  have : i + j ∈ range (2 * m) := by
    have := Finset.mem_range.1 hi; have := Finset.mem_range.1 hj
    exact Finset.mem_range.2 (by omega)
  simp [this]

omit [LinearOrder α] [IsStrictOrderedRing α] in
theorem pminus_entry (m : ℕ) (P : ℕ → ℕ → α) (k : ℕ) :
    gsum (0 : α) ((List.range m).flatMap fun i => (List.range m).filterMap fun j =>
      if absDiff i j == k then some (P i j) else none) =
    ∑ i ∈ range m, ∑ j ∈ range m, (if absDiff i j = k then P i j else 0) := by
  rw [gsum_eq_sum, sum_flatMap', sum_map_range]
  refine Finset.sum_congr rfl fun i _ => ?_
  rw [sum_filterMap_ite (List.range m) (fun j => absDiff i j == k) (fun j => P i j), sum_map_range]
  refine Finset.sum_congr rfl fun j _ => ?_
  simp only [beq_iff_eq]

omit [LinearOrder α] [IsStrictOrderedRing α] in
/-- entry `k` of the model's `p_{x−y}` is the stated fold `Σ_{|i−j|=k} p(i,j)` -/
theorem pminus_getD (m : ℕ) (P : ℕ → ℕ → α) (k : ℕ) (hk : k < m) :
    (pminusG (0 : α) m P).getD k 0 =
      gsum 0 ((allPairs m).map fun (ij : ℕ × ℕ) => if absDiff ij.1 ij.2 = k then P ij.1 ij.2 else 0) := by
  rw [gsum_allPairs]
  unfold pminusG
  rw [List.getD_eq_getElem?_getD, List.getElem?_map, List.getElem?_range hk]
  simp only [Option.map_some, Option.getD_some]
  exact pminus_entry m P k

theorem absDiff_lt {i j m : ℕ} (hi : i < m) (hj : j < m) : absDiff i j < m := by
  unfold absDiff; split <;> omega

omit [LinearOrder α] [IsStrictOrderedRing α] in
/-- `Σ_k p_{x−y}(k) = Σ_{i,j} p(i,j)` -/
theorem pminus_sum (m : ℕ) (P : ℕ → ℕ → α) :
    gsum 0 (pminusG (0 : α) m P) = ∑ i ∈ range m, ∑ j ∈ range m, P i j := by
  unfold pminusG
  rw [gsum_eq_sum, sum_map_range]
  simp only [pminus_entry]
  rw [Finset.sum_comm]
  refine Finset.sum_congr rfl fun i hi => ?_
  rw [Finset.sum_comm]
  refine Finset.sum_congr rfl fun j hj => ?_
  rw [Finset.sum_ite_eq]
  have : absDiff i j ∈ range m :=
    Finset.mem_range.2 (absDiff_lt (Finset.mem_range.1 hi) (Finset.mem_range.1 hj))
  simp [this]

/-! ## Zernike: the pixel weights do not depend on the intensity scale -/

theorem zernike_select_scale (inDisc : List Bool) (P : List α) (s : α) (hs : 0 < s) :
    ((inDisc.zip (P.map (s * ·))).filter fun dv => dv.1 && decide ((0 : α) < dv.2)).map (·.2) =
      (((inDisc.zip P).filter fun dv => dv.1 && decide ((0 : α) < dv.2)).map (·.2)).map (s * ·) := by
  induction inDisc generalizing P with
  | nil => simp
  | cons d ds ih =>
    cases P with
    | nil => simp
    | cons v vs =>
      have hv : (0 < s * v) ↔ (0 < v) := by
        constructor
        · intro h; exact (pos_iff_pos_of_mul_pos h).1 hs
        · intro h; exact mul_pos hs h
      simp only [List.map_cons, List.zip_cons_cons, List.filter_cons]
      by_cases hc : d = true ∧ 0 < v
      · have h1 : (d && decide ((0 : α) < s * v)) = true := by simp [hc.1, hv.2 hc.2]
        have h2 : (d && decide ((0 : α) < v)) = true := by simp [hc.1, hc.2]
        simp only [h1, h2, if_true, List.map_cons]
        rw [ih]
      · have h1 : (d && decide ((0 : α) < s * v)) = false := by
          rcases Bool.eq_false_or_eq_true d with hd | hd
          · have : ¬ 0 < v := fun h => hc ⟨hd, h⟩
            simp [hd, hv, this]
          · simp [hd]
        have h2 : (d && decide ((0 : α) < v)) = false := by
          rcases Bool.eq_false_or_eq_true d with hd | hd
          · have : ¬ 0 < v := fun h => hc ⟨hd, h⟩
            simp [hd, this]
          · simp [hd]
        simp only [h1, h2, Bool.false_eq_true, if_false]
        rw [ih]

omit [LinearOrder α] [IsStrictOrderedRing α] in
theorem sum_map_mul_left' (l : List α) (s : α) : (l.map (s * ·)).sum = s * l.sum := by
  induction l with
  | nil => simp
  | cons x t ih => simp [ih, mul_add]

/-- **scaling all intensities by `s > 0` leaves the normalised weights unchanged** -/
theorem zernikeFrac_scale (inDisc : List Bool) (P : List α) (s : α) (hs : 0 < s) :
    zernikeFrac 0 inDisc (P.map (s * ·)) = zernikeFrac 0 inDisc P := by
  simp only [zernikeFrac, zernike_select_scale inDisc P s hs, gsum_eq_sum]
  rw [sum_map_mul_left', List.map_map]
  apply List.map_congr_left
  intro v _
  simp only [Function.comp]
  exact mul_div_mul_left _ _ (ne_of_gt hs)

omit [IsStrictOrderedRing α] in
/-- the weights sum to 1 as soon as some pixel is selected with positive total -/
theorem zernikeFrac_sum (inDisc : List Bool) (P : List α)
    (h : (((inDisc.zip P).filter fun dv => dv.1 && decide ((0 : α) < dv.2)).map (·.2)).sum ≠ 0) :
    gsum 0 (zernikeFrac 0 inDisc P) = 1 := by
  unfold zernikeFrac
  simp only [gsum_eq_sum]
  have : ∀ (l : List α) (t : α), (l.map (· / t)).sum = l.sum / t := by
    intro l t
    induction l with
    | nil => simp
    | cons x xs ih => simp [ih, add_div]
  rw [this]
  exact div_self h

/-- some pixel inside the disc is positive ⇒ the weights sum to 1 -/
theorem zernikeFrac_sum_of_exists (inDisc : List Bool) (P : List α)
    (h : ∃ dv ∈ inDisc.zip P, dv.1 = true ∧ 0 < dv.2) :
    gsum 0 (zernikeFrac 0 inDisc P) = 1 := by
  apply zernikeFrac_sum
  apply ne_of_gt
  apply List.sum_pos
  · intro x hx
    obtain ⟨dv, hdv, rfl⟩ := List.mem_map.1 hx
    have := (List.mem_filter.1 hdv).2
    simp only [Bool.and_eq_true, decide_eq_true_eq] at this
    exact this.2
  · obtain ⟨dv, hm, h1, h2⟩ := h
    intro hnil
    have hmem : dv ∈ (inDisc.zip P).filter fun dv => dv.1 && decide ((0 : α) < dv.2) :=
      List.mem_filter.2 ⟨hm, by simp [h1, h2]⟩
    have : dv.2 ∈ ((inDisc.zip P).filter fun dv => dv.1 && decide ((0 : α) < dv.2)).map (·.2) :=
      List.mem_map.2 ⟨dv, hmem, rfl⟩
    rw [hnil] at this
    exact absurd this (List.not_mem_nil)

end field

end Mahotas.C19
