/-
C19 (round 3) — the Haralick features that do not involve logarithms, over any ordered field.

`colSumG`, `rowSumG`, `meanG`, `meanSqG`, `varG`, `contrastG`, `covG`, `idmG`, `sumAvgG`, `sumVarG`, `diffVarG`
are the generic definitions of `Model/C19.lean` from which `haralick13` (the model the driver runs at `Float`)
is assembled. Here `P` is any matrix; where needed it is non-negative with total 1 (true for the
normalised matrix `p = c / Σc`: `normMat_nonneg`, `matAt_total`).
-/
import Mahotas.Proofs.C19Haralick
import Mathlib.Algebra.Order.BigOperators.Ring.Finset
import Mathlib.Tactic.Positivity
namespace Mahotas.C19
open Mahotas
open Finset (range)

section field
variable {α : Type} [Field α] [LinearOrder α] [IsStrictOrderedRing α]

/-! ## entries of the marginals -/

omit [LinearOrder α] [IsStrictOrderedRing α] in
theorem getD_map_range (f : ℕ → α) (n k : ℕ) (hk : k < n) : ((List.range n).map f).getD k 0 = f k := by
  rw [List.getD_eq_getElem?_getD, List.getElem?_map, List.getElem?_range hk]
  rfl

omit [LinearOrder α] [IsStrictOrderedRing α] in
theorem colSum_getD (m : ℕ) (P : ℕ → ℕ → α) (k : ℕ) (hk : k < m) :
    (colSumG (0 : α) m P).getD k 0 = ∑ i ∈ range m, P i k := by
  unfold colSumG
  rw [getD_map_range _ _ _ hk, gsum_eq_sum, sum_map_range]

omit [LinearOrder α] [IsStrictOrderedRing α] in
theorem rowSum_getD (m : ℕ) (P : ℕ → ℕ → α) (k : ℕ) (hk : k < m) :
    (rowSumG (0 : α) m P).getD k 0 = ∑ j ∈ range m, P k j := by
  unfold rowSumG
  rw [getD_map_range _ _ _ hk, gsum_eq_sum, sum_map_range]

omit [LinearOrder α] [IsStrictOrderedRing α] in
/-- finite-sum form of `pminus_getD` -/
theorem pminus_getD' (m : ℕ) (P : ℕ → ℕ → α) (k : ℕ) (hk : k < m) :
    (pminusG (0 : α) m P).getD k 0 = ∑ i ∈ range m, ∑ j ∈ range m, (if absDiff i j = k then P i j else 0) := by
  rw [pminus_getD m P k hk, gsum_allPairs]

omit [LinearOrder α] [IsStrictOrderedRing α] in
/-- finite-sum form of `pplus_getD` -/
theorem pplus_getD' (m : ℕ) (P : ℕ → ℕ → α) (k : ℕ) (hk : k < 2 * m) :
    (pplusG (0 : α) m P).getD k 0 = ∑ i ∈ range m, ∑ j ∈ range m, (if i + j = k then P i j else 0) := by
  rw [pplus_getD m P k hk, gsum_allPairs]

/-! ## moments of the marginals as double sums -/

omit [LinearOrder α] [IsStrictOrderedRing α] in
/-- `Σ_k g(k) p_x(k) = Σ_{i,j} g(j) p(i,j)` -/
theorem colSum_moment (m : ℕ) (P : ℕ → ℕ → α) (g : ℕ → α) :
    gsum 0 ((List.range m).map fun k => (colSumG (0 : α) m P).getD k 0 * g k) =
      ∑ i ∈ range m, ∑ j ∈ range m, P i j * g j := by
  rw [gsum_eq_sum, sum_map_range, Finset.sum_comm]
  refine Finset.sum_congr rfl fun k hk => ?_
  rw [colSum_getD m P k (Finset.mem_range.1 hk), Finset.sum_mul]

omit [LinearOrder α] [IsStrictOrderedRing α] in
/-- `Σ_k g(k) p_y(k) = Σ_{i,j} g(i) p(i,j)` -/
theorem rowSum_moment (m : ℕ) (P : ℕ → ℕ → α) (g : ℕ → α) :
    gsum 0 ((List.range m).map fun k => (rowSumG (0 : α) m P).getD k 0 * g k) =
      ∑ i ∈ range m, ∑ j ∈ range m, P i j * g i := by
  rw [gsum_eq_sum, sum_map_range]
  refine Finset.sum_congr rfl fun k hk => ?_
  rw [rowSum_getD m P k (Finset.mem_range.1 hk), Finset.sum_mul]

/-! ## f2: contrast -/

omit [LinearOrder α] [IsStrictOrderedRing α] in
theorem cast_absDiff_sq (i j : ℕ) : ((absDiff i j * absDiff i j : ℕ) : α) = ((i : α) - (j : α)) ^ 2 := by
  unfold absDiff
  split
  · rename_i h; rw [Nat.cast_mul, Nat.cast_sub h]; ring
  · rename_i h; rw [Nat.cast_mul, Nat.cast_sub (by omega)]; ring

omit [LinearOrder α] [IsStrictOrderedRing α] in
/-- **contrast** `Σ_k k² p_{x−y}(k) = Σ_{i,j} (i − j)² p(i,j)` -/
theorem contrast_eq (m : ℕ) (P : ℕ → ℕ → α) :
    contrastG (0 : α) Nat.cast m (pminusG 0 m P) = ∑ i ∈ range m, ∑ j ∈ range m, ((i : α) - (j : α)) ^ 2 * P i j := by
  unfold contrastG
  rw [gsum_eq_sum, sum_map_range]
  have h1 : ∀ k ∈ range m, ((k * k : ℕ) : α) * (pminusG (0 : α) m P).getD k 0 =
      ∑ i ∈ range m, ∑ j ∈ range m, (if absDiff i j = k then ((k * k : ℕ) : α) * P i j else 0) := by
    intro k hk
    rw [pminus_getD' m P k (Finset.mem_range.1 hk), Finset.mul_sum]
    refine Finset.sum_congr rfl fun i _ => ?_
    rw [Finset.mul_sum]
    refine Finset.sum_congr rfl fun j _ => ?_
    split <;> simp
  rw [Finset.sum_congr rfl h1, Finset.sum_comm]
  refine Finset.sum_congr rfl fun i hi => ?_
  rw [Finset.sum_comm]
  refine Finset.sum_congr rfl fun j hj => ?_
  have hmem : absDiff i j ∈ range m :=
    Finset.mem_range.2 (absDiff_lt (Finset.mem_range.1 hi) (Finset.mem_range.1 hj))
  rw [Finset.sum_ite_eq, if_pos hmem, cast_absDiff_sq]

/-! ## f6: sum average -/

omit [LinearOrder α] [IsStrictOrderedRing α] in
/-- **sum average** `Σ_k k p_{x+y}(k) = Σ_{i,j} (i + j) p(i,j)` -/
theorem sumAvg_eq (m : ℕ) (P : ℕ → ℕ → α) :
    sumAvgG (0 : α) Nat.cast m (pplusG 0 m P) = ∑ i ∈ range m, ∑ j ∈ range m, ((i : α) + (j : α)) * P i j := by
  unfold sumAvgG
  rw [gsum_eq_sum, sum_map_range]
  have h1 : ∀ k ∈ range (2 * m), (k : α) * (pplusG (0 : α) m P).getD k 0 =
      ∑ i ∈ range m, ∑ j ∈ range m, (if i + j = k then (k : α) * P i j else 0) := by
    intro k hk
    rw [pplus_getD' m P k (Finset.mem_range.1 hk), Finset.mul_sum]
    refine Finset.sum_congr rfl fun i _ => ?_
    rw [Finset.mul_sum]
    refine Finset.sum_congr rfl fun j _ => ?_
    split <;> simp
  rw [Finset.sum_congr rfl h1, Finset.sum_comm]
  refine Finset.sum_congr rfl fun i hi => ?_
  rw [Finset.sum_comm]
  refine Finset.sum_congr rfl fun j hj => ?_
  have hmem : i + j ∈ range (2 * m) := by
    have := Finset.mem_range.1 hi; have := Finset.mem_range.1 hj
    exact Finset.mem_range.2 (by omega)
  rw [Finset.sum_ite_eq, if_pos hmem, Nat.cast_add]

omit [LinearOrder α] [IsStrictOrderedRing α] in
/-- the sum average is the sum of the two marginal means: `f6 = μ_x + μ_y` -/
theorem sumAvg_eq_means (m : ℕ) (P : ℕ → ℕ → α) :
    sumAvgG (0 : α) Nat.cast m (pplusG 0 m P) =
      meanG 0 Nat.cast (rowSumG 0 m P) m + meanG 0 Nat.cast (colSumG 0 m P) m := by
  rw [sumAvg_eq]
  unfold meanG
  rw [rowSum_moment, colSum_moment, ← Finset.sum_add_distrib]
  refine Finset.sum_congr rfl fun i _ => ?_
  rw [← Finset.sum_add_distrib]
  refine Finset.sum_congr rfl fun j _ => ?_
  ring

/-! ## f5: inverse difference moment -/

/-- **inverse difference moment** in `[0, 1]` -/
theorem idm_bounds (m : ℕ) (P : ℕ → ℕ → α) (h0 : ∀ i j, 0 ≤ P i j)
    (h1 : ∑ i ∈ range m, ∑ j ∈ range m, P i j = 1) :
    0 ≤ idmG (0 : α) 1 Nat.cast m P ∧ idmG (0 : α) 1 Nat.cast m P ≤ 1 := by
  unfold idmG
  rw [gsum_allPairs]
  have hden : ∀ i j : ℕ, (1 : α) ≤ 1 + ((absDiff i j * absDiff i j : ℕ) : α) := fun i j =>
    le_add_of_nonneg_right (Nat.cast_nonneg _)
  constructor
  · exact Finset.sum_nonneg fun i _ => Finset.sum_nonneg fun j _ =>
      div_nonneg (h0 i j) (le_trans zero_le_one (hden i j))
  · refine le_trans (Finset.sum_le_sum fun i _ => Finset.sum_le_sum fun j _ => ?_) (le_of_eq h1)
    exact div_le_self (h0 i j) (hden i j)

/-! ## f4: variances, f3: correlation -/

omit [LinearOrder α] [IsStrictOrderedRing α] in
/-- weighted variance identity and Cauchy–Schwarz on a finite index set -/
theorem weighted_var {ι : Type} (s : Finset ι) (w a : ι → α) (h1 : ∑ x ∈ s, w x = 1) :
    ∑ x ∈ s, w x * a x ^ 2 - (∑ x ∈ s, w x * a x) ^ 2 = ∑ x ∈ s, w x * (a x - ∑ y ∈ s, w y * a y) ^ 2 := by
  have e : ∀ x, w x * (a x - ∑ y ∈ s, w y * a y) ^ 2 =
      w x * a x ^ 2 - 2 * (∑ y ∈ s, w y * a y) * (w x * a x) + (∑ y ∈ s, w y * a y) ^ 2 * w x := fun x => by ring
  simp only [e]
  rw [Finset.sum_add_distrib, Finset.sum_sub_distrib, ← Finset.mul_sum, ← Finset.mul_sum, h1]
  ring

omit [LinearOrder α] [IsStrictOrderedRing α] in
theorem weighted_cov {ι : Type} (s : Finset ι) (w a b : ι → α) (h1 : ∑ x ∈ s, w x = 1) :
    ∑ x ∈ s, w x * (a x * b x) - (∑ x ∈ s, w x * a x) * (∑ x ∈ s, w x * b x) =
      ∑ x ∈ s, w x * ((a x - ∑ y ∈ s, w y * a y) * (b x - ∑ y ∈ s, w y * b y)) := by
  have e : ∀ x, w x * ((a x - ∑ y ∈ s, w y * a y) * (b x - ∑ y ∈ s, w y * b y)) =
      w x * (a x * b x) - (∑ y ∈ s, w y * b y) * (w x * a x) - (∑ y ∈ s, w y * a y) * (w x * b x)
        + (∑ y ∈ s, w y * a y) * (∑ y ∈ s, w y * b y) * w x := fun x => by ring
  simp only [e]
  rw [Finset.sum_add_distrib, Finset.sum_sub_distrib, Finset.sum_sub_distrib, ← Finset.mul_sum, ← Finset.mul_sum,
    ← Finset.mul_sum, h1]
  ring

theorem weighted_var_nonneg {ι : Type} (s : Finset ι) (w a : ι → α) (h0 : ∀ x ∈ s, 0 ≤ w x)
    (h1 : ∑ x ∈ s, w x = 1) : 0 ≤ ∑ x ∈ s, w x * a x ^ 2 - (∑ x ∈ s, w x * a x) ^ 2 := by
  rw [weighted_var s w a h1]
  exact Finset.sum_nonneg fun x hx => mul_nonneg (h0 x hx) (sq_nonneg _)

/-- `cov² ≤ var_a · var_b` (weighted Cauchy–Schwarz, no square roots) -/
theorem weighted_cov_sq_le {ι : Type} (s : Finset ι) (w a b : ι → α) (h0 : ∀ x ∈ s, 0 ≤ w x)
    (h1 : ∑ x ∈ s, w x = 1) :
    (∑ x ∈ s, w x * (a x * b x) - (∑ x ∈ s, w x * a x) * (∑ x ∈ s, w x * b x)) ^ 2 ≤
      (∑ x ∈ s, w x * a x ^ 2 - (∑ x ∈ s, w x * a x) ^ 2) * (∑ x ∈ s, w x * b x ^ 2 - (∑ x ∈ s, w x * b x) ^ 2) := by
  rw [weighted_cov s w a b h1, weighted_var s w a h1, weighted_var s w b h1]
  refine Finset.sum_sq_le_sum_mul_sum_of_sq_le_mul s
    (fun x hx => mul_nonneg (h0 x hx) (sq_nonneg _)) (fun x hx => mul_nonneg (h0 x hx) (sq_nonneg _))
    (fun x _ => le_of_eq (by ring))

omit [LinearOrder α] [IsStrictOrderedRing α] in
/-- double sums over `range m × range m` as sums over the product finset -/
theorem dsum_eq_prod (m : ℕ) (F : ℕ → ℕ → α) :
    ∑ i ∈ range m, ∑ j ∈ range m, F i j = ∑ x ∈ range m ×ˢ range m, F x.1 x.2 :=
  (Finset.sum_product' _ _ _).symm

omit [LinearOrder α] [IsStrictOrderedRing α] in
theorem mean_colSum (m : ℕ) (P : ℕ → ℕ → α) :
    meanG (0 : α) Nat.cast (colSumG 0 m P) m = ∑ x ∈ range m ×ˢ range m, P x.1 x.2 * (x.2 : α) := by
  unfold meanG; rw [colSum_moment, dsum_eq_prod]

omit [LinearOrder α] [IsStrictOrderedRing α] in
theorem mean_rowSum (m : ℕ) (P : ℕ → ℕ → α) :
    meanG (0 : α) Nat.cast (rowSumG 0 m P) m = ∑ x ∈ range m ×ˢ range m, P x.1 x.2 * (x.1 : α) := by
  unfold meanG; rw [rowSum_moment, dsum_eq_prod]

omit [LinearOrder α] [IsStrictOrderedRing α] in
theorem var_colSum (m : ℕ) (P : ℕ → ℕ → α) :
    varG (0 : α) Nat.cast (colSumG 0 m P) m =
      ∑ x ∈ range m ×ˢ range m, P x.1 x.2 * (x.2 : α) ^ 2 - (∑ x ∈ range m ×ˢ range m, P x.1 x.2 * (x.2 : α)) ^ 2 := by
  unfold varG
  rw [mean_colSum]
  unfold meanSqG
  rw [colSum_moment, dsum_eq_prod]
  simp only [← sq, Nat.cast_pow]

omit [LinearOrder α] [IsStrictOrderedRing α] in
theorem var_rowSum (m : ℕ) (P : ℕ → ℕ → α) :
    varG (0 : α) Nat.cast (rowSumG 0 m P) m =
      ∑ x ∈ range m ×ˢ range m, P x.1 x.2 * (x.1 : α) ^ 2 - (∑ x ∈ range m ×ˢ range m, P x.1 x.2 * (x.1 : α)) ^ 2 := by
  unfold varG
  rw [mean_rowSum]
  unfold meanSqG
  rw [rowSum_moment, dsum_eq_prod]
  simp only [← sq, Nat.cast_pow]

/-- **variances are non-negative** (f4 = `varG … p_x`) -/
theorem var_nonneg (m : ℕ) (P : ℕ → ℕ → α) (h0 : ∀ i j, 0 ≤ P i j)
    (h1 : ∑ i ∈ range m, ∑ j ∈ range m, P i j = 1) :
    0 ≤ varG (0 : α) Nat.cast (colSumG 0 m P) m ∧ 0 ≤ varG (0 : α) Nat.cast (rowSumG 0 m P) m := by
  rw [dsum_eq_prod] at h1
  rw [var_colSum, var_rowSum]
  exact ⟨weighted_var_nonneg _ (fun x : ℕ × ℕ => P x.1 x.2) (fun x : ℕ × ℕ => (x.2 : α)) (fun x _ => h0 _ _) h1,
    weighted_var_nonneg _ (fun x : ℕ × ℕ => P x.1 x.2) (fun x : ℕ × ℕ => (x.1 : α)) (fun x _ => h0 _ _) h1⟩

omit [LinearOrder α] [IsStrictOrderedRing α] in
theorem cov_eq (m : ℕ) (P : ℕ → ℕ → α) :
    covG (0 : α) Nat.cast m P (meanG 0 Nat.cast (colSumG 0 m P) m) (meanG 0 Nat.cast (rowSumG 0 m P) m) =
      ∑ x ∈ range m ×ˢ range m, P x.1 x.2 * ((x.2 : α) * (x.1 : α)) -
        (∑ x ∈ range m ×ˢ range m, P x.1 x.2 * (x.2 : α)) * (∑ x ∈ range m ×ˢ range m, P x.1 x.2 * (x.1 : α)) := by
  unfold covG
  rw [mean_colSum, mean_rowSum, gsum_allPairs, dsum_eq_prod]
  congr 1
  refine Finset.sum_congr rfl fun x _ => ?_
  rw [Nat.cast_mul]; ring

/-- **covariance² ≤ variance · variance** — the correlation lies in `[−1, 1]` wherever it is defined -/
theorem cov_sq_le (m : ℕ) (P : ℕ → ℕ → α) (h0 : ∀ i j, 0 ≤ P i j)
    (h1 : ∑ i ∈ range m, ∑ j ∈ range m, P i j = 1) :
    covG (0 : α) Nat.cast m P (meanG 0 Nat.cast (colSumG 0 m P) m) (meanG 0 Nat.cast (rowSumG 0 m P) m) ^ 2 ≤
      varG (0 : α) Nat.cast (colSumG 0 m P) m * varG (0 : α) Nat.cast (rowSumG 0 m P) m := by
  rw [dsum_eq_prod] at h1
  rw [cov_eq, var_colSum, var_rowSum]
  exact weighted_cov_sq_le _ (fun x : ℕ × ℕ => P x.1 x.2) (fun x : ℕ × ℕ => (x.2 : α)) (fun x : ℕ × ℕ => (x.1 : α)) (fun x _ => h0 _ _) h1

/-- with any square roots `sx² = vx`, `sy² = vy`, `sx, sy > 0`: `−1 ≤ cov / (sx · sy) ≤ 1` -/
theorem corr_bounds (cov vx vy sx sy : α) (h : cov ^ 2 ≤ vx * vy) (hx : sx ^ 2 = vx) (hy : sy ^ 2 = vy)
    (px : 0 < sx) (py : 0 < sy) : -1 ≤ cov / (sx * sy) ∧ cov / (sx * sy) ≤ 1 := by
  have hpos : 0 < sx * sy := mul_pos px py
  have h2 : cov ^ 2 ≤ (sx * sy) ^ 2 := by rw [mul_pow, hx, hy]; exact h
  have habs := abs_le_of_sq_le_sq' h2 hpos.le
  constructor
  · rw [le_div_iff₀ hpos]; linarith [habs.1]
  · rw [div_le_iff₀ hpos]; linarith [habs.2]

/-! ## f7, f10: sum variance and difference variance are non-negative -/

omit [IsStrictOrderedRing α] in
theorem getD_nonneg (l : List α) (h : ∀ x ∈ l, 0 ≤ x) (k : ℕ) : 0 ≤ l.getD k 0 := by
  rw [List.getD_eq_getElem?_getD]
  cases hk : l[k]? with
  | none => simp
  | some v => exact h v (List.mem_of_getElem? hk)

theorem gsum_nonneg (l : List α) (h : ∀ x ∈ l, 0 ≤ x) : 0 ≤ gsum 0 l := by
  rw [gsum_eq_sum]; exact List.sum_nonneg h

theorem pplus_nonneg (m : ℕ) (P : ℕ → ℕ → α) (h0 : ∀ i j, 0 ≤ P i j) : ∀ x ∈ pplusG (0 : α) m P, 0 ≤ x := by
  intro x hx
  unfold pplusG at hx
  obtain ⟨k, _, rfl⟩ := List.mem_map.1 hx
  apply gsum_nonneg
  intro y hy
  obtain ⟨i, _, rfl⟩ := List.mem_map.1 hy
  split
  · exact h0 _ _
  · exact le_refl _

/-- **sum variance ≥ 0** (for any centre `μ`, in particular `μ = f6`) -/
theorem sumVar_nonneg (m : ℕ) (P : ℕ → ℕ → α) (h0 : ∀ i j, 0 ≤ P i j) (mu : α) :
    0 ≤ sumVarG (0 : α) Nat.cast m (pplusG 0 m P) mu := by
  unfold sumVarG
  apply gsum_nonneg
  intro y hy
  obtain ⟨k, _, rfl⟩ := List.mem_map.1 hy
  exact mul_nonneg (mul_self_nonneg _) (getD_nonneg _ (pplus_nonneg m P h0) k)

/-- **difference variance ≥ 0** (for any list of values) -/
theorem diffVar_nonneg (m : ℕ) (q : List α) : 0 ≤ diffVarG (0 : α) Nat.cast m q := by
  unfold diffVarG
  apply div_nonneg _ (Nat.cast_nonneg _)
  apply gsum_nonneg
  intro y hy
  obtain ⟨v, _, rfl⟩ := List.mem_map.1 hy
  exact mul_self_nonneg _

/-! ## textbook (centred) forms of f4 and f7 -/

omit [LinearOrder α] [IsStrictOrderedRing α] in
/-- **sum of squares: variance** in its textbook form `Σ_{i,j} (j − μ_x)² p(i,j)` (and the same for rows) -/
theorem var_centered (m : ℕ) (P : ℕ → ℕ → α) (h1 : ∑ i ∈ range m, ∑ j ∈ range m, P i j = 1) :
    varG (0 : α) Nat.cast (colSumG 0 m P) m =
      ∑ i ∈ range m, ∑ j ∈ range m, P i j * ((j : α) - meanG 0 Nat.cast (colSumG 0 m P) m) ^ 2 ∧
    varG (0 : α) Nat.cast (rowSumG 0 m P) m =
      ∑ i ∈ range m, ∑ j ∈ range m, P i j * ((i : α) - meanG 0 Nat.cast (rowSumG 0 m P) m) ^ 2 := by
  rw [dsum_eq_prod] at h1
  constructor
  · rw [var_colSum, mean_colSum, dsum_eq_prod]
    exact weighted_var _ (fun x : ℕ × ℕ => P x.1 x.2) (fun x : ℕ × ℕ => (x.2 : α)) h1
  · rw [var_rowSum, mean_rowSum, dsum_eq_prod]
    exact weighted_var _ (fun x : ℕ × ℕ => P x.1 x.2) (fun x : ℕ × ℕ => (x.1 : α)) h1

omit [LinearOrder α] [IsStrictOrderedRing α] in
/-- `Σ_k g(k) p_{x+y}(k) = Σ_{i,j} g(i+j) p(i,j)` -/
theorem pplus_moment (m : ℕ) (P : ℕ → ℕ → α) (g : ℕ → α) :
    gsum 0 ((List.range (2 * m)).map fun k => g k * (pplusG (0 : α) m P).getD k 0) =
      ∑ i ∈ range m, ∑ j ∈ range m, g (i + j) * P i j := by
  rw [gsum_eq_sum, sum_map_range]
  have h1 : ∀ k ∈ range (2 * m), g k * (pplusG (0 : α) m P).getD k 0 =
      ∑ i ∈ range m, ∑ j ∈ range m, (if i + j = k then g k * P i j else 0) := by
    intro k hk
    rw [pplus_getD' m P k (Finset.mem_range.1 hk), Finset.mul_sum]
    refine Finset.sum_congr rfl fun i _ => ?_
    rw [Finset.mul_sum]
    refine Finset.sum_congr rfl fun j _ => ?_
    split <;> simp
  rw [Finset.sum_congr rfl h1, Finset.sum_comm]
  refine Finset.sum_congr rfl fun i hi => ?_
  rw [Finset.sum_comm]
  refine Finset.sum_congr rfl fun j hj => ?_
  have hmem : i + j ∈ range (2 * m) := by
    have := Finset.mem_range.1 hi; have := Finset.mem_range.1 hj
    exact Finset.mem_range.2 (by omega)
  rw [Finset.sum_ite_eq, if_pos hmem]

omit [LinearOrder α] [IsStrictOrderedRing α] in
/-- **sum variance** in its textbook form `Σ_{i,j} (i + j − μ)² p(i,j)` -/
theorem sumVar_eq (m : ℕ) (P : ℕ → ℕ → α) (mu : α) :
    sumVarG (0 : α) Nat.cast m (pplusG 0 m P) mu =
      ∑ i ∈ range m, ∑ j ∈ range m, ((i : α) + (j : α) - mu) ^ 2 * P i j := by
  unfold sumVarG
  rw [pplus_moment m P (fun k => ((k : α) - mu) * ((k : α) - mu))]
  refine Finset.sum_congr rfl fun i _ => Finset.sum_congr rfl fun j _ => ?_
  rw [Nat.cast_add]; ring

omit [LinearOrder α] [IsStrictOrderedRing α] in
/-- the form `texture.py` computes: `np.dot(tk2, px_plus_y) − feats[5]**2` equals the textbook `Σ_k (k − f6)² p_{x+y}(k)` -/
theorem sumVar_code_form (m : ℕ) (P : ℕ → ℕ → α) (h1 : ∑ i ∈ range m, ∑ j ∈ range m, P i j = 1) :
    sumVarG (0 : α) Nat.cast m (pplusG 0 m P) (sumAvgG 0 Nat.cast m (pplusG 0 m P)) =
      gsum 0 ((List.range (2 * m)).map fun k => ((k * k : ℕ) : α) * (pplusG (0 : α) m P).getD k 0) -
        sumAvgG 0 Nat.cast m (pplusG 0 m P) * sumAvgG 0 Nat.cast m (pplusG 0 m P) := by
  rw [sumVar_eq, pplus_moment m P (fun k => ((k * k : ℕ) : α)), sumAvg_eq, dsum_eq_prod, dsum_eq_prod, dsum_eq_prod]
  rw [dsum_eq_prod] at h1
  have hv := weighted_var (range m ×ˢ range m) (fun x : ℕ × ℕ => P x.1 x.2) (fun x : ℕ × ℕ => (x.1 : α) + (x.2 : α)) h1
  have e1 : ∀ x : ℕ × ℕ, (((x.1 + x.2) * (x.1 + x.2) : ℕ) : α) * P x.1 x.2 = P x.1 x.2 * ((x.1 : α) + (x.2 : α)) ^ 2 := by
    intro x; push_cast; ring
  have e2 : ∀ x : ℕ × ℕ, ((x.1 : α) + (x.2 : α)) * P x.1 x.2 = P x.1 x.2 * ((x.1 : α) + (x.2 : α)) := by
    intro x; ring
  have e3 : ∀ (mu : α) (x : ℕ × ℕ), ((x.1 : α) + (x.2 : α) - mu) ^ 2 * P x.1 x.2 =
      P x.1 x.2 * ((x.1 : α) + (x.2 : α) - mu) ^ 2 := by
    intro mu x; ring
  simp only [e1, e2, e3]
  simp only [← sq]
  exact hv.symm

omit [LinearOrder α] [IsStrictOrderedRing α] in
/-- `Σ_k p_{x−y}(k) g(k) = Σ_{i,j} p(i,j) g(|i−j|)` -/
theorem pminus_moment (m : ℕ) (P : ℕ → ℕ → α) (g : ℕ → α) :
    gsum 0 ((List.range m).map fun k => (pminusG (0 : α) m P).getD k 0 * g k) =
      ∑ i ∈ range m, ∑ j ∈ range m, P i j * g (absDiff i j) := by
  rw [gsum_eq_sum, sum_map_range]
  have h1 : ∀ k ∈ range m, (pminusG (0 : α) m P).getD k 0 * g k =
      ∑ i ∈ range m, ∑ j ∈ range m, (if absDiff i j = k then P i j * g k else 0) := by
    intro k hk
    rw [pminus_getD' m P k (Finset.mem_range.1 hk), Finset.sum_mul]
    refine Finset.sum_congr rfl fun i _ => ?_
    rw [Finset.sum_mul]
    refine Finset.sum_congr rfl fun j _ => ?_
    split <;> simp
  rw [Finset.sum_congr rfl h1, Finset.sum_comm]
  refine Finset.sum_congr rfl fun i hi => ?_
  rw [Finset.sum_comm]
  refine Finset.sum_congr rfl fun j hj => ?_
  have hmem : absDiff i j ∈ range m :=
    Finset.mem_range.2 (absDiff_lt (Finset.mem_range.1 hi) (Finset.mem_range.1 hj))
  rw [Finset.sum_ite_eq, if_pos hmem]

/-- `use_x_minus_y_variance`: **`VAR[|x−y|] = Σ k² p_{x−y}(k) − (Σ k p_{x−y}(k))² ≥ 0`** -/
theorem diffVarAlt_nonneg (m : ℕ) (P : ℕ → ℕ → α) (h0 : ∀ i j, 0 ≤ P i j)
    (h1 : ∑ i ∈ range m, ∑ j ∈ range m, P i j = 1) :
    0 ≤ varG (0 : α) Nat.cast (pminusG 0 m P) m := by
  unfold varG meanSqG meanG
  rw [pminus_moment, pminus_moment, dsum_eq_prod, dsum_eq_prod]
  rw [dsum_eq_prod] at h1
  have := weighted_var_nonneg (range m ×ˢ range m) (fun x : ℕ × ℕ => P x.1 x.2)
    (fun x : ℕ × ℕ => ((absDiff x.1 x.2 : ℕ) : α)) (fun x _ => h0 _ _) h1
  simp only [← sq, Nat.cast_pow] at this ⊢
  exact this

/-! ## the normalised matrix satisfies the hypotheses -/

theorem matAt_nonneg (m : ℕ) (c : List ℕ) (i j : ℕ) : (0 : α) ≤ matAt 0 m (normMat (Nat.cast : ℕ → α) c) i j :=
  normMat_nonneg c _

end field

end Mahotas.C19
