/-
C19 (round 4) — `return_mean` / `return_mean_ptp` (`Model/C19.lean: colMeanG`, `colPtpG`) over any ordered field, and the
marginals of the normalised co-occurrence matrix.
-/
import Mahotas.Proofs.C19HaralickFeat
namespace Mahotas.C19
open Mahotas
open Finset (range)

/-! ## column folds -/

theorem zipWith_getD {α : Type} (f : α → α → α) (a b : List α) (j : ℕ) (d : α) (ha : j < a.length) (hb : j < b.length) :
    (List.zipWith f a b).getD j d = f (a.getD j d) (b.getD j d) := by
  simp [List.getD_eq_getElem?_getD, List.getElem?_zipWith, List.getElem?_eq_getElem ha, List.getElem?_eq_getElem hb]

theorem colFold_aux {α : Type} (f : α → α → α) (w : ℕ) (rest : List (List α)) (r0 : List α) (h0 : r0.length = w)
    (hr : ∀ r ∈ rest, r.length = w) (j : ℕ) (hj : j < w) (d : α) :
    (rest.foldl (fun acc r => List.zipWith f acc r) r0).length = w ∧
    (rest.foldl (fun acc r => List.zipWith f acc r) r0).getD j d
      = (rest.map (·.getD j d)).foldl f (r0.getD j d) := by
  induction rest generalizing r0 with
  | nil => exact ⟨h0, rfl⟩
  | cons r1 rest ih =>
    have h1 : r1.length = w := hr r1 List.mem_cons_self
    have hz : (List.zipWith f r0 r1).length = w := by simp [h0, h1]
    have := ih (List.zipWith f r0 r1) hz (fun r hr' => hr r (List.mem_cons_of_mem _ hr'))
    simp only [List.foldl_cons, List.map_cons]
    rw [this.2, zipWith_getD f r0 r1 j d (by omega) (by omega)]
    exact ⟨this.1, rfl⟩

section field
variable {α : Type} [Field α] [LinearOrder α] [IsStrictOrderedRing α]

theorem maxG_eq (a b : α) : maxG a b = max a b := by
  unfold maxG; split
  · rw [max_eq_right (le_of_lt ‹_›)]
  · rw [max_eq_left (not_lt.1 ‹_›)]

theorem minG_eq (a b : α) : minG a b = min a b := by
  unfold minG; split
  · rw [min_eq_right (le_of_lt ‹_›)]
  · rw [min_eq_left (not_lt.1 ‹_›)]

theorem foldl_max_props (xs : List α) (a : α) :
    xs.foldl maxG a ∈ a :: xs ∧ ∀ x ∈ a :: xs, x ≤ xs.foldl maxG a := by
  induction xs generalizing a with
  | nil => simp
  | cons y ys ih =>
    obtain ⟨hm, hle⟩ := ih (maxG a y)
    simp only [List.foldl_cons]
    constructor
    · rcases List.mem_cons.1 hm with h | h
      · rw [h, maxG_eq]
        rcases max_choice a y with h' | h' <;> simp [h']
      · exact List.mem_cons_of_mem _ (List.mem_cons_of_mem _ h)
    · intro x hx
      have hmax := hle (maxG a y) List.mem_cons_self
      have ha : a ≤ maxG a y := by rw [maxG_eq]; exact le_max_left _ _
      have hy : y ≤ maxG a y := by rw [maxG_eq]; exact le_max_right _ _
      rcases List.mem_cons.1 hx with rfl | hx
      · exact le_trans ha hmax
      · rcases List.mem_cons.1 hx with rfl | hx
        · exact le_trans hy hmax
        · exact hle x (List.mem_cons_of_mem _ hx)

theorem foldl_min_props (xs : List α) (a : α) :
    xs.foldl minG a ∈ a :: xs ∧ ∀ x ∈ a :: xs, xs.foldl minG a ≤ x := by
  induction xs generalizing a with
  | nil => simp
  | cons y ys ih =>
    obtain ⟨hm, hle⟩ := ih (minG a y)
    simp only [List.foldl_cons]
    constructor
    · rcases List.mem_cons.1 hm with h | h
      · rw [h, minG_eq]
        rcases min_choice a y with h' | h' <;> simp [h']
      · exact List.mem_cons_of_mem _ (List.mem_cons_of_mem _ h)
    · intro x hx
      have hmin := hle (minG a y) List.mem_cons_self
      have ha : minG a y ≤ a := by rw [minG_eq]; exact min_le_left _ _
      have hy : minG a y ≤ y := by rw [minG_eq]; exact min_le_right _ _
      rcases List.mem_cons.1 hx with rfl | hx
      · exact le_trans hmin ha
      · rcases List.mem_cons.1 hx with rfl | hx
        · exact le_trans hmin hy
        · exact hle x (List.mem_cons_of_mem _ hx)

theorem foldl_add_sum (xs : List α) (a : α) : xs.foldl (· + ·) a = (a :: xs).sum := by
  rw [foldl_add_eq, List.sum_cons]

theorem sum_bounds (xs : List α) (lo hi : α) (h : ∀ x ∈ xs, lo ≤ x ∧ x ≤ hi) :
    (xs.length : α) * lo ≤ xs.sum ∧ xs.sum ≤ (xs.length : α) * hi := by
  induction xs with
  | nil => simp
  | cons x xs ih =>
    obtain ⟨h1, h2⟩ := ih (fun y hy => h y (List.mem_cons_of_mem _ hy))
    obtain ⟨hx1, hx2⟩ := h x List.mem_cons_self
    simp only [List.length_cons, List.sum_cons, Nat.cast_add, Nat.cast_one]
    constructor <;> nlinarith

/-- mean and point-to-point range of one column of the feature matrix -/
theorem col_mean_ptp (w : ℕ) (r0 : List α) (rest : List (List α)) (h0 : r0.length = w)
    (hr : ∀ r ∈ rest, r.length = w) (j : ℕ) (hj : j < w) :
    let rows := r0 :: rest
    let col := rows.map (·.getD j 0)
    let mean := (colMeanG (Nat.cast : ℕ → α) rows).getD j 0
    let ptp := (colPtpG rows).getD j 0
    mean = col.sum / (rows.length : α) ∧
    ∃ hi ∈ col, ∃ lo ∈ col, (∀ x ∈ col, lo ≤ x ∧ x ≤ hi) ∧ ptp = hi - lo ∧ lo ≤ mean ∧ mean ≤ hi ∧ 0 ≤ ptp ∧
      (ptp = 0 → ∀ x ∈ col, x = mean) := by
  intro rows col mean ptp
  have hsum := colFold_aux (· + ·) w rest r0 h0 hr j hj (0 : α)
  have hmax := colFold_aux maxG w rest r0 h0 hr j hj (0 : α)
  have hmin := colFold_aux minG w rest r0 h0 hr j hj (0 : α)
  have hcol : col = r0.getD j 0 :: rest.map (·.getD j 0) := rfl
  have hmean : mean = col.sum / (rows.length : α) := by
    show (List.map (· / ((rows.length : ℕ) : α)) (colFoldG (· + ·) rows)).getD j 0 = _
    rw [List.getD_eq_getElem?_getD, List.getElem?_map]
    have hl : j < (colFoldG (· + ·) rows).length := by
      show j < (rest.foldl (fun acc r => List.zipWith (· + ·) acc r) r0).length
      rw [hsum.1]; exact hj
    rw [List.getElem?_eq_getElem hl]
    simp only [Option.map_some, Option.getD_some]
    have : (colFoldG (· + ·) rows)[j] = (colFoldG (· + ·) rows).getD j 0 := by
      rw [List.getD_eq_getElem?_getD, List.getElem?_eq_getElem hl]; rfl
    rw [this]
    show (rest.foldl (fun acc r => List.zipWith (· + ·) acc r) r0).getD j 0 / _ = _
    rw [hsum.2, foldl_add_sum, hcol]
  have hptp : ptp = (rest.map (·.getD j 0)).foldl maxG (r0.getD j 0) - (rest.map (·.getD j 0)).foldl minG (r0.getD j 0) := by
    show (List.zipWith (· - ·) (colFoldG maxG rows) (colFoldG minG rows)).getD j 0 = _
    rw [zipWith_getD _ _ _ j 0 (by show j < (rest.foldl _ r0).length; rw [hmax.1]; exact hj)
      (by show j < (rest.foldl _ r0).length; rw [hmin.1]; exact hj)]
    show (rest.foldl _ r0).getD j 0 - (rest.foldl _ r0).getD j 0 = _
    rw [hmax.2, hmin.2]
  obtain ⟨hmaxm, hmaxle⟩ := foldl_max_props (rest.map (·.getD j 0)) (r0.getD j 0)
  obtain ⟨hminm, hminle⟩ := foldl_min_props (rest.map (·.getD j 0)) (r0.getD j 0)
  rw [← hcol] at hmaxm hmaxle hminm hminle
  set hi := (rest.map (·.getD j 0)).foldl maxG (r0.getD j 0)
  set lo := (rest.map (·.getD j 0)).foldl minG (r0.getD j 0)
  have hb : ∀ x ∈ col, lo ≤ x ∧ x ≤ hi := fun x hx => ⟨hminle x hx, hmaxle x hx⟩
  have hn : (0 : α) < (rows.length : α) := by
    have : 0 < rows.length := by simp [rows]
    exact_mod_cast this
  have hlen : col.length = rows.length := by simp [col]
  obtain ⟨s1, s2⟩ := sum_bounds col lo hi hb
  rw [hlen] at s1 s2
  have hlm : lo ≤ mean := by rw [hmean, le_div_iff₀ hn]; linarith
  have hmh : mean ≤ hi := by rw [hmean, div_le_iff₀ hn]; linarith
  refine ⟨hmean, hi, hmaxm, lo, hminm, hb, hptp, hlm, hmh, by rw [hptp]; linarith, ?_⟩
  intro hz x hx
  have : hi = lo := by rw [hptp] at hz; linarith
  obtain ⟨a, b⟩ := hb x hx
  rw [this] at b hmh
  linarith [le_antisymm b a, le_antisymm hmh hlm]

/-! ## marginals of the normalised matrix -/

theorem marginals_sum (m : ℕ) (c : List ℕ) (hlen : c.length = m * m) (hT : c.sum ≠ 0) :
    let P := matAt (0 : α) m (normMat (Nat.cast : ℕ → α) c)
    ∑ k ∈ range m, (rowSumG (0 : α) m P).getD k 0 = 1 ∧ ∑ k ∈ range m, (colSumG (0 : α) m P).getD k 0 = 1 ∧
    (∀ k < m, 0 ≤ (rowSumG (0 : α) m P).getD k 0 ∧ (rowSumG (0 : α) m P).getD k 0 ≤ 1) ∧
    (∀ k < m, 0 ≤ (colSumG (0 : α) m P).getD k 0 ∧ (colSumG (0 : α) m P).getD k 0 ≤ 1) := by
  intro P
  have hP : ∀ i j, 0 ≤ P i j := fun i j => normMat_nonneg c _
  have htot := matAt_total (α := α) m c hlen hT
  have hrow : ∑ k ∈ range m, (rowSumG (0 : α) m P).getD k 0 = 1 := by
    rw [← htot]
    exact Finset.sum_congr rfl fun k hk => rowSum_getD m P k (Finset.mem_range.1 hk)
  have hcol : ∑ k ∈ range m, (colSumG (0 : α) m P).getD k 0 = 1 := by
    rw [← htot, Finset.sum_comm]
    exact Finset.sum_congr rfl fun k hk => colSum_getD m P k (Finset.mem_range.1 hk)
  have hrn : ∀ k ∈ range m, 0 ≤ (rowSumG (0 : α) m P).getD k 0 := fun k hk => by
    rw [rowSum_getD m P k (Finset.mem_range.1 hk)]; exact Finset.sum_nonneg fun j _ => hP k j
  have hcn : ∀ k ∈ range m, 0 ≤ (colSumG (0 : α) m P).getD k 0 := fun k hk => by
    rw [colSum_getD m P k (Finset.mem_range.1 hk)]; exact Finset.sum_nonneg fun j _ => hP j k
  refine ⟨hrow, hcol, fun k hk => ⟨hrn k (Finset.mem_range.2 hk), ?_⟩, fun k hk => ⟨hcn k (Finset.mem_range.2 hk), ?_⟩⟩
  · rw [← hrow]; exact Finset.single_le_sum hrn (Finset.mem_range.2 hk)
  · rw [← hcol]; exact Finset.single_le_sum hcn (Finset.mem_range.2 hk)

end field
end Mahotas.C19
