/-
C19 (round 4) — Haralick's matrix `Q` (feature 14, `Model/C19.lean: qMatG`) over any ordered field, for every matrix with
non-negative entries: entries `≥ 0`; every non-empty row sums to 1 (so `Q·1 = 1` on the occupied levels: 1 is an
eigenvalue, and — `Q` being non-negative and row-stochastic — the largest one); `Q` is reversible with respect to the
row marginal, `p_x(i) Q(i,j) = p_x(j) Q(j,i)` (so `Q` is similar to a symmetric matrix and its eigenvalues are real).
-/
import Mahotas.Proofs.C19HaralickFeat
import Mathlib.Tactic.FieldSimp
import Mahotas.Proofs.C19CoocModel
namespace Mahotas.C19
open Mahotas
open Finset (range)

section field
variable {α : Type} [Field α] [LinearOrder α] [IsStrictOrderedRing α]

theorem qMat_eq (m : ℕ) (P : ℕ → ℕ → α) (i j : ℕ) (hi : i < m) :
    qMatG (0 : α) m P i j = ∑ k ∈ range m,
      (if (∑ l ∈ range m, P i l) = 0 ∨ (∑ l ∈ range m, P l k) = 0 then 0
       else P i k * P j k / ((∑ l ∈ range m, P i l) * (∑ l ∈ range m, P l k))) := by
  unfold qMatG qEntryG
  rw [gsum_eq_sum, sum_map_range]
  refine Finset.sum_congr rfl fun k hk => ?_
  rw [rowSum_getD m P i hi, colSum_getD m P k (Finset.mem_range.1 hk)]
  simp only [Bool.or_eq_true, beq_iff_eq]

theorem entry_zero_of_sum_zero (m : ℕ) (g : ℕ → α) (hg : ∀ l < m, 0 ≤ g l) (h : ∑ l ∈ range m, g l = 0)
    (k : ℕ) (hk : k < m) : g k = 0 :=
  (Finset.sum_eq_zero_iff_of_nonneg (fun l hl => hg l (Finset.mem_range.1 hl))).1 h k (Finset.mem_range.2 hk)

theorem qMat_nonneg (m : ℕ) (P : ℕ → ℕ → α) (hP : ∀ i < m, ∀ j < m, 0 ≤ P i j) (i j : ℕ) (hi : i < m) (hj : j < m) :
    0 ≤ qMatG (0 : α) m P i j := by
  rw [qMat_eq m P i j hi]
  refine Finset.sum_nonneg fun k hk => ?_
  have hk' := Finset.mem_range.1 hk
  split
  · exact le_rfl
  · exact div_nonneg (mul_nonneg (hP i hi k hk') (hP j hj k hk'))
      (mul_nonneg (Finset.sum_nonneg fun l hl => hP i hi l (Finset.mem_range.1 hl))
        (Finset.sum_nonneg fun l hl => hP l (Finset.mem_range.1 hl) k hk'))

/-- every non-empty row of `Q` sums to 1 -/
theorem qMat_row_sum (m : ℕ) (P : ℕ → ℕ → α) (hP : ∀ i < m, ∀ j < m, 0 ≤ P i j) (i : ℕ) (hi : i < m)
    (hr : (∑ l ∈ range m, P i l) ≠ 0) :
    ∑ j ∈ range m, qMatG (0 : α) m P i j = 1 := by
  have h1 : ∀ j ∈ range m, qMatG (0 : α) m P i j = ∑ k ∈ range m,
      (if (∑ l ∈ range m, P l k) = 0 then 0
       else P i k * P j k / ((∑ l ∈ range m, P i l) * (∑ l ∈ range m, P l k))) := by
    intro j _
    rw [qMat_eq m P i j hi]
    refine Finset.sum_congr rfl fun k _ => ?_
    simp only [hr, false_or]
  rw [Finset.sum_congr rfl h1, Finset.sum_comm]
  have h2 : ∀ k ∈ range m, (∑ j ∈ range m, (if (∑ l ∈ range m, P l k) = 0 then (0 : α)
       else P i k * P j k / ((∑ l ∈ range m, P i l) * (∑ l ∈ range m, P l k))))
      = P i k / (∑ l ∈ range m, P i l) := by
    intro k hk
    have hk' := Finset.mem_range.1 hk
    by_cases hc : (∑ l ∈ range m, P l k) = 0
    · simp only [hc, if_true, Finset.sum_const_zero]
      rw [entry_zero_of_sum_zero m (fun l => P l k) (fun l hl => hP l hl k hk') hc i hi, zero_div]
    · simp only [hc, if_false]
      rw [← Finset.sum_div, ← Finset.mul_sum]
      field_simp
  rw [Finset.sum_congr rfl h2, ← Finset.sum_div, div_self hr]

/-- reversibility: `p_x(i) Q(i,j) = p_x(j) Q(j,i)` -/
theorem qMat_reversible (m : ℕ) (P : ℕ → ℕ → α) (hP : ∀ i < m, ∀ j < m, 0 ≤ P i j) (i j : ℕ) (hi : i < m) (hj : j < m) :
    (∑ l ∈ range m, P i l) * qMatG (0 : α) m P i j = (∑ l ∈ range m, P j l) * qMatG (0 : α) m P j i := by
  rw [qMat_eq m P i j hi, qMat_eq m P j i hj, Finset.mul_sum, Finset.mul_sum]
  refine Finset.sum_congr rfl fun k hk => ?_
  have hk' := Finset.mem_range.1 hk
  by_cases hc : (∑ l ∈ range m, P l k) = 0
  · simp [hc]
  · by_cases hri : (∑ l ∈ range m, P i l) = 0
    · have : P i k = 0 := entry_zero_of_sum_zero m (fun l => P i l) (fun l hl => hP i hi l hl) hri k hk'
      simp [hri, this]
    · by_cases hrj : (∑ l ∈ range m, P j l) = 0
      · have : P j k = 0 := entry_zero_of_sum_zero m (fun l => P j l) (fun l hl => hP j hj l hl) hrj k hk'
        simp [hrj, this]
      · simp only [hc, hri, hrj, or_self, if_false]
        field_simp

/-- `p_x(i) Q(i,j) = Σ_k p(i,k) p(j,k) / p_y(k)` (terms of empty columns dropped) -/
theorem qMat_weighted (m : ℕ) (P : ℕ → ℕ → α) (hP : ∀ i < m, ∀ j < m, 0 ≤ P i j) (i j : ℕ) (hi : i < m) :
    (∑ l ∈ range m, P i l) * qMatG (0 : α) m P i j
      = ∑ k ∈ range m, (if (∑ l ∈ range m, P l k) = 0 then 0 else P i k * P j k / (∑ l ∈ range m, P l k)) := by
  rw [qMat_eq m P i j hi, Finset.mul_sum]
  refine Finset.sum_congr rfl fun k hk => ?_
  have hk' := Finset.mem_range.1 hk
  by_cases hc : (∑ l ∈ range m, P l k) = 0
  · simp [hc]
  · by_cases hri : (∑ l ∈ range m, P i l) = 0
    · have : P i k = 0 := entry_zero_of_sum_zero m (fun l => P i l) (fun l hl => hP i hi l hl) hri k hk'
      simp [hri, this]
    · simp only [hc, hri, or_self, if_false]
      field_simp

/-- the quadratic form of `Q` weighted by the row marginal is a sum of squares: `Q` has no negative eigenvalue -/
theorem qMat_psd (m : ℕ) (P : ℕ → ℕ → α) (hP : ∀ i < m, ∀ j < m, 0 ≤ P i j) (x : ℕ → α) :
    ∑ i ∈ range m, ∑ j ∈ range m, (∑ l ∈ range m, P i l) * qMatG (0 : α) m P i j * (x i * x j)
      = ∑ k ∈ range m, (if (∑ l ∈ range m, P l k) = 0 then 0
          else (∑ i ∈ range m, P i k * x i) ^ 2 / (∑ l ∈ range m, P l k)) ∧
    0 ≤ ∑ i ∈ range m, ∑ j ∈ range m, (∑ l ∈ range m, P i l) * qMatG (0 : α) m P i j * (x i * x j) := by
  have key : ∑ i ∈ range m, ∑ j ∈ range m, (∑ l ∈ range m, P i l) * qMatG (0 : α) m P i j * (x i * x j)
      = ∑ k ∈ range m, (if (∑ l ∈ range m, P l k) = 0 then 0
          else (∑ i ∈ range m, P i k * x i) ^ 2 / (∑ l ∈ range m, P l k)) := by
    have h1 : ∀ i ∈ range m, ∀ j ∈ range m,
        (∑ l ∈ range m, P i l) * qMatG (0 : α) m P i j * (x i * x j)
          = ∑ k ∈ range m, (if (∑ l ∈ range m, P l k) = 0 then 0
              else (P i k * x i) * (P j k * x j) / (∑ l ∈ range m, P l k)) := by
      intro i hi j _
      rw [qMat_weighted m P hP i j (Finset.mem_range.1 hi), Finset.sum_mul]
      refine Finset.sum_congr rfl fun k _ => ?_
      split
      · simp
      · ring
    rw [Finset.sum_congr rfl fun i hi => Finset.sum_congr rfl fun j hj => h1 i hi j hj]
    rw [Finset.sum_congr rfl fun i _ => Finset.sum_comm]
    rw [Finset.sum_comm]
    refine Finset.sum_congr rfl fun k _ => ?_
    by_cases hc : (∑ l ∈ range m, P l k) = 0
    · simp [hc]
    · simp only [hc, if_false]
      rw [pow_two, Finset.sum_mul_sum, Finset.sum_div]
      refine Finset.sum_congr rfl fun i _ => ?_
      rw [Finset.sum_div]
  refine ⟨key, ?_⟩
  rw [key]
  refine Finset.sum_nonneg fun k hk => ?_
  split
  · exact le_rfl
  · exact div_nonneg (sq_nonneg _) (Finset.sum_nonneg fun l hl => hP l (Finset.mem_range.1 hl) k (Finset.mem_range.1 hk))

/-- Rayleigh quotient of `Q` is at most 1: `Σ_ij p_x(i) Q(i,j) x_i x_j ≤ Σ_i p_x(i) x_i²` -/
theorem qMat_le_one (m : ℕ) (P : ℕ → ℕ → α) (hP : ∀ i < m, ∀ j < m, 0 ≤ P i j) (x : ℕ → α) :
    ∑ i ∈ range m, ∑ j ∈ range m, (∑ l ∈ range m, P i l) * qMatG (0 : α) m P i j * (x i * x j)
      ≤ ∑ i ∈ range m, (∑ l ∈ range m, P i l) * x i ^ 2 := by
  rw [(qMat_psd m P hP x).1]
  have hR : ∑ i ∈ range m, (∑ l ∈ range m, P i l) * x i ^ 2 = ∑ k ∈ range m, ∑ i ∈ range m, P i k * x i ^ 2 := by
    rw [Finset.sum_comm]
    refine Finset.sum_congr rfl fun i _ => ?_
    rw [Finset.sum_mul]
  rw [hR]
  refine Finset.sum_le_sum fun k hk => ?_
  have hk' := Finset.mem_range.1 hk
  have hnn : ∀ i ∈ range m, 0 ≤ P i k := fun i hi => hP i (Finset.mem_range.1 hi) k hk'
  split
  · exact Finset.sum_nonneg fun i hi => mul_nonneg (hnn i hi) (sq_nonneg _)
  · rename_i hc
    have hpos : 0 < ∑ l ∈ range m, P l k := lt_of_le_of_ne (Finset.sum_nonneg hnn) (Ne.symm hc)
    rw [div_le_iff₀ hpos]
    have cs := Finset.sum_sq_le_sum_mul_sum_of_sq_le_mul (range m) (r := fun i => P i k * x i)
      (f := fun i => P i k) (g := fun i => P i k * x i ^ 2) hnn
      (fun i hi => mul_nonneg (hnn i hi) (sq_nonneg _)) (fun i _ => le_of_eq (by ring))
    linarith [cs, mul_comm (∑ l ∈ range m, P l k) (∑ i ∈ range m, P i k * x i ^ 2)]

/-- every eigenvalue of `Q` (with an eigenvector that is not supported on empty rows only) lies in `[0, 1]` -/
theorem qMat_eigenvalue_bounds (m : ℕ) (P : ℕ → ℕ → α) (hP : ∀ i < m, ∀ j < m, 0 ≤ P i j) (x : ℕ → α) (lam : α)
    (hx : ∀ i < m, ∑ j ∈ range m, qMatG (0 : α) m P i j * x j = lam * x i)
    (hS : 0 < ∑ i ∈ range m, (∑ l ∈ range m, P i l) * x i ^ 2) : 0 ≤ lam ∧ lam ≤ 1 := by
  have hform : ∑ i ∈ range m, ∑ j ∈ range m, (∑ l ∈ range m, P i l) * qMatG (0 : α) m P i j * (x i * x j)
      = lam * ∑ i ∈ range m, (∑ l ∈ range m, P i l) * x i ^ 2 := by
    rw [Finset.mul_sum]
    refine Finset.sum_congr rfl fun i hi => ?_
    have : ∑ j ∈ range m, (∑ l ∈ range m, P i l) * qMatG (0 : α) m P i j * (x i * x j)
        = (∑ l ∈ range m, P i l) * x i * ∑ j ∈ range m, qMatG (0 : α) m P i j * x j := by
      rw [Finset.mul_sum]
      exact Finset.sum_congr rfl fun j _ => by ring
    rw [this, hx i (Finset.mem_range.1 hi)]
    ring
  have h0 := (qMat_psd m P hP x).2
  have h1 := qMat_le_one m P hP x
  rw [hform] at h0 h1
  constructor
  · by_contra hneg
    have : lam * ∑ i ∈ range m, (∑ l ∈ range m, P i l) * x i ^ 2 < 0 := mul_neg_of_neg_of_pos (not_le.1 hneg) hS
    linarith
  · by_contra hgt
    have : 1 * ∑ i ∈ range m, (∑ l ∈ range m, P i l) * x i ^ 2 < lam * ∑ i ∈ range m, (∑ l ∈ range m, P i l) * x i ^ 2 :=
      mul_lt_mul_of_pos_right (not_le.1 hgt) hS
    linarith

end field

/-! ## `ignore_zeros`: row and column 0 of the count matrix cleared -/

theorem stripZeros_getD (m : ℕ) (c : List ℕ) (a b : ℕ) (ha : a < m) (hb : b < m) :
    (stripZeros m c).getD (a * m + b) 0 = if a = 0 ∨ b = 0 then 0 else c.getD (a * m + b) 0 := by
  have hk : a * m + b < m * m := by
    have : (a + 1) * m ≤ m * m := Nat.mul_le_mul_right m ha
    rw [Nat.add_mul] at this; omega
  have hm : 0 < m := by omega
  have h1 : (a * m + b) / m = a := by
    rw [Nat.add_comm, Nat.add_mul_div_right _ _ hm, Nat.div_eq_of_lt hb, Nat.zero_add]
  have h2 : (a * m + b) % m = b := by
    rw [Nat.add_comm, Nat.add_mul_mod_self_right, Nat.mod_eq_of_lt hb]
  unfold stripZeros
  rw [List.getD_eq_getElem?_getD, List.getElem?_map, List.getElem?_range hk]
  simp only [Option.map_some, Option.getD_some, h1, h2, Bool.or_eq_true, beq_iff_eq]

end Mahotas.C19
