/-
C19 (round 3) — the integral image over ANY additive commutative group.

The same proof as `Proofs/C19Integral.lean` (which is at `Int`), for every `[AddCommGroup α]`: in particular
for `ZMod (2^bits)`, i.e. for the wrap-around arithmetic of the C++ template `integral<T>` at the integer
dtypes — the in-place recurrence computed *with* wrap-around is the prefix sum computed with wrap-around.
-/
import Mahotas.Model.C19
import Mathlib.Tactic.Abel
import Mathlib.Tactic.Ring
import Mathlib.Algebra.Group.Basic

namespace Mahotas.C19.Gen
open Mahotas Mahotas.C19

variable {α : Type} [AddCommGroup α]

/-- shifting a `sumTo` over a `cons` (generic in the summand `F`) -/
theorem sumTo_getD_cons {β : Type} (F : β → α) (d : β) (r : β) (rs : List β) (i : Nat) :
    sumTo (fun a => F ((r :: rs).getD a d)) (i + 1) = F r + sumTo (fun a => F (rs.getD a d)) i := by
  induction i with
  | zero => simp [sumTo]
  | succ n ih =>
    rw [sumTo, ih]
    simp only [sumTo, List.getD_cons_succ]
    abel

theorem scanRow_length (row : List α) : ∀ (above : List α) (L D : α),
    above.length = row.length → (scanRow L D above row).length = row.length := by
  induction row with
  | nil => intro above L D _; cases above <;> simp [scanRow]
  | cons x xs ih =>
    intro above L D h
    cases above with
    | nil => simp at h
    | cons a as =>
      simp only [scanRow, List.length_cons]
      rw [ih as _ _ (by simpa using h)]

/-- closed form of one scanned row -/
theorem scanRow_getD (row : List α) : ∀ (above : List α) (L D : α),
    above.length = row.length → ∀ j, j < row.length →
    (scanRow L D above row).getD j 0
      = sumTo (fun b => row.getD b 0) j + above.getD j 0 + L - D := by
  induction row with
  | nil => intro above L D _ j hj; simp at hj
  | cons x xs ih =>
    intro above L D h j hj
    cases above with
    | nil => simp at h
    | cons a as =>
      have hl : as.length = xs.length := by simpa using h
      cases j with
      | zero =>
        simp only [scanRow, sumTo, List.getD_cons_zero]
        abel
      | succ j =>
        have hj' : j < xs.length := by simpa using hj
        simp only [scanRow, List.getD_cons_succ]
        rw [ih as _ _ hl j hj']
        have := sumTo_getD_cons (fun v : α => v) 0 x xs j
        rw [this]
        abel

theorem integralAux_length (rows : List (List α)) : ∀ prev : List α,
    (integralAux prev rows).length = rows.length := by
  induction rows with
  | nil => intro prev; simp [integralAux]
  | cons r rs ih => intro prev; simp [integralAux, ih]

theorem integralAux_row_length (w : Nat) (rows : List (List α)) : ∀ prev : List α,
    prev.length = w → (∀ r ∈ rows, r.length = w) →
    ∀ r ∈ integralAux prev rows, r.length = w := by
  induction rows with
  | nil => intro prev _ _ r hr; simp [integralAux] at hr
  | cons r rs ih =>
    intro prev hp hw q hq
    have hr : r.length = w := hw r (by simp)
    have hc : (scanRow 0 0 prev r).length = w := by
      rw [scanRow_length r prev 0 0 (by omega)]; exact hr
    simp only [integralAux, List.mem_cons] at hq
    rcases hq with hq | hq
    · rw [hq]; exact hc
    · exact ih _ hc (fun r' hr' => hw r' (by simp [hr'])) q hq

/-- generalised statement: `prev` is the integral row above the first of `rows` -/
theorem integralAux_getD (w : Nat) (rows : List (List α)) : ∀ prev : List α,
    prev.length = w → (∀ r ∈ rows, r.length = w) →
    ∀ i j, i < rows.length → j < w →
    ((integralAux prev rows).getD i []).getD j 0 = prev.getD j 0 + prefix2 rows i j := by
  induction rows with
  | nil => intro prev _ _ i j hi _; simp at hi
  | cons r rs ih =>
    intro prev hp hw i j hi hj
    have hr : r.length = w := hw r (by simp)
    have hc : (scanRow 0 0 prev r).length = w := by
      rw [scanRow_length r prev 0 0 (by omega)]; exact hr
    have hcur := scanRow_getD r prev 0 0 (by omega) j (by omega)
    cases i with
    | zero =>
      simp only [integralAux, List.getD_cons_zero, prefix2, sumTo]
      rw [hcur]; abel
    | succ i =>
      have hi' : i < rs.length := by simpa using hi
      simp only [integralAux, List.getD_cons_succ]
      rw [ih _ hc (fun r' hr' => hw r' (by simp [hr'])) i j hi' hj, hcur]
      have := sumTo_getD_cons (fun row : List α => sumTo (fun b => row.getD b 0) j) [] r rs i
      simp only [prefix2]
      rw [this]
      abel

theorem integral_length (w : Nat) (rows : List (List α)) :
    (integral w rows).length = rows.length :=
  integralAux_length rows _

theorem integral_row_length (w : Nat) (rows : List (List α)) (hw : ∀ r ∈ rows, r.length = w) :
    ∀ r ∈ integral w rows, r.length = w :=
  integralAux_row_length w rows _ (by simp) hw

/-- **the integral image is the two-dimensional prefix sum** (rectangular input) -/
theorem integral_eq_prefix2 (w : Nat) (rows : List (List α)) (hw : ∀ r ∈ rows, r.length = w)
    (i j : Nat) (hi : i < rows.length) (hj : j < w) :
    ((integral w rows).getD i []).getD j 0 = prefix2 rows i j := by
  unfold integral
  rw [integralAux_getD w rows _ (by simp) hw i j hi hj]
  simp [List.getD_eq_getElem?_getD, hj]


end Mahotas.C19.Gen

/-! ## moments over any commutative ring -/

namespace Mahotas.C19.Gen
open Mahotas Mahotas.C19

variable {R : Type} [CommRing R]

theorem dotFrom_mul (w : Nat → R) (u : R) (r : List R) : ∀ k : Nat,
    dotFrom w k r * u = dotFrom (fun j => u * w j) k r := by
  induction r with
  | nil => intro k; simp [dotFrom]
  | cons x xs ih =>
    intro k
    simp only [dotFrom]
    rw [← ih (k + 1)]
    ring

theorem moments_rowsFrom (cast : Nat → R) (rows : List (List R)) (p0 p1 : Nat) (c0 c1 : R) : ∀ i : Nat,
    dotFrom (fun i => powN (cast i - c0) p0) i
        (rows.map fun r => dotFrom (fun j => powN (cast j - c1) p1) 0 r)
      = momentsSpec.rowsFrom cast p0 p1 c0 c1 i rows := by
  induction rows with
  | nil => intro i; simp [dotFrom, momentsSpec.rowsFrom]
  | cons r rs ih =>
    intro i
    simp only [List.map_cons, dotFrom, momentsSpec.rowsFrom]
    rw [ih (i + 1), dotFrom_mul]

/-- **`moments` equals its defining double sum** over any commutative ring, any embedding of the indices,
    any (also non-integer) centre -/
theorem moments_eq_spec (cast : Nat → R) (rows : List (List R)) (p0 p1 : Nat) (c0 c1 : R) :
    moments cast rows p0 p1 c0 c1 = momentsSpec cast rows p0 p1 c0 c1 := by
  unfold moments momentsSpec
  exact moments_rowsFrom cast rows p0 p1 c0 c1 0

end Mahotas.C19.Gen
