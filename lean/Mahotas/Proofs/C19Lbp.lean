/-
C19 — LBP code mapping (`_lbp.cpp: roll_right`, `map`): general theorems for every `P ≥ 1`
and every `P`-bit code `v < 2^P`:

* `rollRight` is the cyclic right rotation of the `P` low bits (`testBit_rollRight`), keeps the
  code inside `[0, 2^P)` and has period `P`;
* `lbpMap P v` is the minimum of the rotation orbit of `v`: it is below every rotation, it is
  one of the rotations, it is rotation invariant and idempotent.
-/
import Mahotas.Model.C19
namespace Mahotas.C19

/-! ## generic facts on `iter` -/

theorem iter_succ' {α : Type} (f : α → α) (n : Nat) (x : α) :
    iter f (n + 1) x = f (iter f n x) := by
  induction n generalizing x with
  | zero => rfl
  | succ n ih =>
    show iter f (n + 1) (f x) = f (iter f n (f x))
    exact ih (f x)

/-! ## bits of a rotation -/

theorem testBit_eq_false_of_ge {P v i : Nat} (hv : v < 2 ^ P) (hi : P ≤ i) :
    v.testBit i = false :=
  Nat.testBit_lt_two_pow (Nat.lt_of_lt_of_le hv (Nat.pow_le_pow_right (by decide) hi))

/-- bit `i` of the rotated code is bit `i+1 (mod P)` of the code -/
theorem testBit_rollRight (P v : Nat) (hP : 1 ≤ P) (hv : v < 2 ^ P) (i : Nat) :
    (rollRight P v).testBit i = (decide (i < P) && v.testBit ((i + 1) % P)) := by
  unfold rollRight
  rw [Nat.testBit_or, Nat.testBit_shiftRight, Nat.testBit_shiftLeft, Nat.testBit_and]
  by_cases h1 : i + 1 < P
  · have h2 : ¬ (i ≥ P - 1) := by omega
    have h3 : i < P := by omega
    simp [h2, h3, Nat.mod_eq_of_lt h1, Nat.add_comm]
  · by_cases h2 : i + 1 = P
    · have h3 : i < P := by omega
      have h4 : i ≥ P - 1 := by omega
      have h5 : i - (P - 1) = 0 := by omega
      have h6 : v.testBit (1 + i) = false := testBit_eq_false_of_ge hv (by omega)
      have h7 : (i + 1) % P = 0 := by rw [h2]; exact Nat.mod_self P
      simp [h3, h4, h5, h6, h7]
    · have h3 : ¬ (i < P) := by omega
      have h6 : v.testBit (1 + i) = false := testBit_eq_false_of_ge hv (by omega)
      have h5 : i - (P - 1) ≠ 0 := by omega
      have h8 : Nat.testBit 1 (i - (P - 1)) = false := by
        cases h : Nat.testBit 1 (i - (P - 1)) with
        | false => rfl
        | true => exact absurd (Nat.testBit_one_eq_true_iff_self_eq_zero.mp h) h5
      simp [h3, h6, h8]

theorem rollRight_lt (P v : Nat) (hP : 1 ≤ P) (hv : v < 2 ^ P) : rollRight P v < 2 ^ P := by
  apply Nat.lt_pow_two_of_testBit
  intro i hi
  have h : ¬ (i < P) := by omega
  rw [testBit_rollRight P v hP hv]
  simp [h]

theorem iter_rollRight_lt (P v : Nat) (hP : 1 ≤ P) (hv : v < 2 ^ P) (k : Nat) :
    iter (rollRight P) k v < 2 ^ P := by
  induction k generalizing v with
  | zero => exact hv
  | succ k ih => exact ih (rollRight P v) (rollRight_lt P v hP hv)

/-- bit `i` of the `k`-fold rotation is bit `i+k (mod P)` of the code -/
theorem testBit_iter_rollRight (P v : Nat) (hP : 1 ≤ P) (hv : v < 2 ^ P) (k i : Nat) :
    (iter (rollRight P) k v).testBit i = (decide (i < P) && v.testBit ((i + k) % P)) := by
  induction k generalizing v with
  | zero =>
    show v.testBit i = _
    by_cases h : i < P
    · simp [h, Nat.mod_eq_of_lt h]
    · simp [h, testBit_eq_false_of_ge hv (by omega : P ≤ i)]
  | succ k ih =>
    show (iter (rollRight P) k (rollRight P v)).testBit i = _
    rw [ih (rollRight P v) (rollRight_lt P v hP hv), testBit_rollRight P v hP hv]
    have hm : (i + k) % P < P := Nat.mod_lt _ (by omega)
    have he : ((i + k) % P + 1) % P = (i + (k + 1)) % P := by
      rw [Nat.mod_add_mod, Nat.add_assoc]
    simp [hm, he]

/-- rotations only depend on the count modulo `P` -/
theorem iter_rollRight_mod (P v : Nat) (hP : 1 ≤ P) (hv : v < 2 ^ P) (k : Nat) :
    iter (rollRight P) k v = iter (rollRight P) (k % P) v := by
  apply Nat.eq_of_testBit_eq
  intro i
  rw [testBit_iter_rollRight P v hP hv, testBit_iter_rollRight P v hP hv, Nat.add_mod_mod]

theorem iter_rollRight_period (P v : Nat) (hP : 1 ≤ P) (hv : v < 2 ^ P) :
    iter (rollRight P) P v = v := by
  rw [iter_rollRight_mod P v hP hv P, Nat.mod_self]
  rfl

/-! ## the loop of `map` computes the orbit minimum -/

/-- characterisation of the loop state after `n` steps from `(x, m)` -/
theorem iter_mapStep (P : Nat) (n x m : Nat) :
    (iter (mapStep P) n (x, m)).1 = iter (rollRight P) n x ∧
    (iter (mapStep P) n (x, m)).2 ≤ m ∧
    (∀ j, 1 ≤ j → j ≤ n → (iter (mapStep P) n (x, m)).2 ≤ iter (rollRight P) j x) ∧
    ((iter (mapStep P) n (x, m)).2 = m ∨
      ∃ j, 1 ≤ j ∧ j ≤ n ∧ (iter (mapStep P) n (x, m)).2 = iter (rollRight P) j x) := by
  induction n generalizing x m with
  | zero =>
    refine ⟨rfl, Nat.le_refl _, ?_, Or.inl rfl⟩
    intro j h1 h2; omega
  | succ n ih =>
    have hstep : iter (mapStep P) (n + 1) (x, m)
        = iter (mapStep P) n (rollRight P x, if rollRight P x < m then rollRight P x else m) := rfl
    rw [hstep]
    obtain ⟨h1, h2, h3, h4⟩ :=
      ih (rollRight P x) (if rollRight P x < m then rollRight P x else m)
    have hm1 : (if rollRight P x < m then rollRight P x else m) ≤ m := by
      by_cases h : rollRight P x < m
      · simp [h]; omega
      · simp [h]
    have hm2 : (if rollRight P x < m then rollRight P x else m) ≤ rollRight P x := by
      by_cases h : rollRight P x < m
      · simp [h]
      · simp [h]; omega
    refine ⟨h1, Nat.le_trans h2 hm1, ?_, ?_⟩
    · intro j hj1 hj2
      cases j with
      | zero => omega
      | succ j =>
        cases j with
        | zero => exact Nat.le_trans h2 hm2
        | succ j => exact h3 (j + 1) (by omega) (by omega)
    · rcases h4 with h4 | ⟨j, hj1, hj2, hj3⟩
      · by_cases h : rollRight P x < m
        · right
          refine ⟨1, Nat.le_refl _, by omega, ?_⟩
          rw [h4]; simp [h]; rfl
        · left
          rw [h4]; simp [h]
      · right
        exact ⟨j + 1, by omega, by omega, hj3⟩

theorem lbpMap_le_orbit (P v : Nat) (hP : 1 ≤ P) (hv : v < 2 ^ P) (k : Nat) :
    lbpMap P v ≤ iter (rollRight P) k v := by
  obtain ⟨_, h2, h3, _⟩ := iter_mapStep P P v v
  rw [iter_rollRight_mod P v hP hv k]
  have hk : k % P < P := Nat.mod_lt _ (by omega)
  unfold lbpMap
  by_cases h0 : k % P = 0
  · rw [h0]; exact h2
  · exact h3 (k % P) (by omega) (by omega)

theorem lbpMap_mem_orbit (P v : Nat) (hP : 1 ≤ P) (hv : v < 2 ^ P) :
    ∃ k, k < P ∧ lbpMap P v = iter (rollRight P) k v := by
  obtain ⟨_, _, _, h4⟩ := iter_mapStep P P v v
  unfold lbpMap
  rcases h4 with h4 | ⟨j, hj1, hj2, hj3⟩
  · exact ⟨0, by omega, h4⟩
  · by_cases hj : j < P
    · exact ⟨j, hj, hj3⟩
    · have hjP : j = P := by omega
      refine ⟨0, by omega, ?_⟩
      rw [hj3, hjP, iter_rollRight_period P v hP hv]
      rfl

theorem lbpMap_rollRight (P v : Nat) (hP : 1 ≤ P) (hv : v < 2 ^ P) :
    lbpMap P (rollRight P v) = lbpMap P v := by
  have hr := rollRight_lt P v hP hv
  apply Nat.le_antisymm
  · obtain ⟨k, _, hk⟩ := lbpMap_mem_orbit P v hP hv
    have h := lbpMap_le_orbit P (rollRight P v) hP hr (k + (P - 1))
    have e : iter (rollRight P) (k + (P - 1)) (rollRight P v) = iter (rollRight P) k v := by
      show iter (rollRight P) (k + (P - 1) + 1) v = _
      have : k + (P - 1) + 1 = k + P := by omega
      rw [this, iter_rollRight_mod P v hP hv (k + P), Nat.add_mod_right,
        ← iter_rollRight_mod P v hP hv k]
    rw [e] at h
    rw [hk]; exact h
  · obtain ⟨k, _, hk⟩ := lbpMap_mem_orbit P (rollRight P v) hP hr
    rw [hk]
    exact lbpMap_le_orbit P v hP hv (k + 1)

theorem lbpMap_iter (P v k : Nat) (hP : 1 ≤ P) (hv : v < 2 ^ P) :
    lbpMap P (iter (rollRight P) k v) = lbpMap P v := by
  induction k with
  | zero => rfl
  | succ k ih =>
    rw [iter_succ', lbpMap_rollRight P _ hP (iter_rollRight_lt P v hP hv k), ih]

theorem lbpMap_idem (P v : Nat) (hP : 1 ≤ P) (hv : v < 2 ^ P) :
    lbpMap P (lbpMap P v) = lbpMap P v := by
  obtain ⟨k, _, hk⟩ := lbpMap_mem_orbit P v hP hv
  have h := lbpMap_iter P v k hP hv
  rw [← hk] at h
  exact h

theorem lbpMap_lt (P v : Nat) (hP : 1 ≤ P) (hv : v < 2 ^ P) : lbpMap P v < 2 ^ P := by
  obtain ⟨k, _, hk⟩ := lbpMap_mem_orbit P v hP hv
  rw [hk]
  exact iter_rollRight_lt P v hP hv k

end Mahotas.C19
