/-
C19 — LBP feature histogram (`lbpCompress`) properties.

* `sum_count_eq_length` : general counting lemma (sum of counts over a
  duplicate-free list of bins covering the data = number of data items).
* `lbpCompress_sum`     : the LBP histogram sums to the number of pixels.
* `count_nonpivot_zero` : a code that is not a pivot (not the minimum of its
  rotation class) never occurs among the mapped codes.
-/
import Mahotas.Proofs.C19Lbp

namespace Mahotas.C19

theorem sum_map_add_nat (L : List Nat) (f g : Nat → Nat) :
    (L.map fun c => f c + g c).sum = (L.map f).sum + (L.map g).sum := by
  induction L with
  | nil => simp
  | cons a L ih => simp only [List.map_cons, List.sum_cons, ih]; omega

theorem sum_indicator_eq_count (L : List Nat) (x : Nat) :
    (L.map fun c => if (x == c) = true then 1 else 0).sum = L.count x := by
  induction L with
  | nil => simp
  | cons a L ih =>
    simp only [List.map_cons, List.sum_cons, ih, List.count_cons]
    have : (x == a) = (a == x) := by
      by_cases h : x = a
      · subst h; rfl
      · have h' : a ≠ x := fun e => h e.symm
        rw [beq_eq_false_iff_ne.2 h, beq_eq_false_iff_ne.2 h']
    rw [this]; omega

/-- general counting lemma -/
theorem sum_count_eq_length (L M : List Nat) (hL : L.Nodup) (hM : ∀ x ∈ M, x ∈ L) :
    (L.map fun c => M.count c).sum = M.length := by
  induction M with
  | nil =>
    simp only [List.count_nil, List.length_nil]
    clear hL hM
    induction L with
    | nil => rfl
    | cons a L ih => simp only [List.map_cons, List.sum_cons, ih]
  | cons x M ih =>
    have hx : x ∈ L := hM x (by simp)
    have ih' := ih (fun y hy => hM y (by simp [hy]))
    simp only [List.count_cons, List.length_cons]
    rw [sum_map_add_nat, ih', sum_indicator_eq_count, hL.count, if_pos hx]

theorem nodup_filter_nat (p : Nat → Bool) (L : List Nat) (h : L.Nodup) : (L.filter p).Nodup :=
  List.Pairwise.filter p h

theorem mem_pivots (P : Nat) (hP : 1 ≤ P) (v : Nat) (hv : v < 2 ^ P) :
    lbpMap P v ∈ (List.range (2 ^ P)).filter fun c => lbpMap P c == c := by
  simp only [List.mem_filter, List.mem_range, beq_iff_eq]
  exact ⟨lbpMap_lt P v hP hv, lbpMap_idem P v hP hv⟩

/-- the histogram sums to the number of pixels considered -/
theorem lbpCompress_sum (P : Nat) (hP : 1 ≤ P) (codes : List Nat) (hc : ∀ v ∈ codes, v < 2 ^ P) :
    (lbpCompress P (codes.map (lbpMap P))).sum = codes.length := by
  unfold lbpCompress
  rw [sum_count_eq_length _ _ (nodup_filter_nat _ _ List.nodup_range)]
  · simp
  · intro x hx
    obtain ⟨v, hv, rfl⟩ := List.mem_map.1 hx
    exact mem_pivots P hP v (hc v hv)

/-- a code that is not a pivot never occurs among mapped codes (its bin is empty) -/
theorem count_nonpivot_zero (P : Nat) (hP : 1 ≤ P) (codes : List Nat) (hc : ∀ v ∈ codes, v < 2 ^ P)
    (c : Nat) (hnp : lbpMap P c ≠ c) : (codes.map (lbpMap P)).count c = 0 := by
  rw [List.count_eq_zero]
  intro hx
  obtain ⟨v, hv, rfl⟩ := List.mem_map.1 hx
  exact hnp (lbpMap_idem P v hP (hc v hv))

end Mahotas.C19
