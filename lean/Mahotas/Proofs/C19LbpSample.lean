/-
C19 (round 4) — LBP sampling (`Model/C19Lbp.lean`): bits of the raw code, rotation of the sampling pattern, and the
sample values as linear interpolation (through the C18 theorems about `interpolate.shift(order=1)`).
-/
import Mahotas.Model.C19
import Mahotas.Proofs.C19Lbp
import Mahotas.Properties.C18
namespace Mahotas.C19Lbp
open Mahotas Mahotas.C19

/-! ## the raw code as a bit pattern -/

theorem codeOfBits_lt (bs : List Bool) : codeOfBits bs < 2 ^ bs.length := by
  induction bs with
  | nil => simp [codeOfBits]
  | cons b bs ih =>
    simp only [codeOfBits, List.length_cons, Nat.pow_succ]
    split <;> omega

theorem testBit_codeOfBits (bs : List Bool) (i : Nat) : (codeOfBits bs).testBit i = bs.getD i false := by
  induction bs generalizing i with
  | nil => simp [codeOfBits]
  | cons b bs ih =>
    cases i with
    | zero =>
      simp only [codeOfBits, Nat.testBit_zero, List.getD_cons_zero]
      cases b <;> simp
    | succ i =>
      rw [Nat.testBit_succ, List.getD_cons_succ, ← ih i]
      congr 1
      simp only [codeOfBits]
      split <;> omega

/-- moving the first sample to the end (the sampling pattern turned by one angular step) rotates the code -/
theorem codeOfBits_rotate (b : Bool) (rest : List Bool) :
    codeOfBits (rest ++ [b]) = rollRight (rest.length + 1) (codeOfBits (b :: rest)) := by
  have hlt : codeOfBits (b :: rest) < 2 ^ (rest.length + 1) := by
    simpa using codeOfBits_lt (b :: rest)
  apply Nat.eq_of_testBit_eq
  intro i
  rw [testBit_rollRight _ _ (by omega) hlt, testBit_codeOfBits, testBit_codeOfBits]
  by_cases h1 : i < rest.length
  · have h2 : (i + 1) % (rest.length + 1) = i + 1 := Nat.mod_eq_of_lt (by omega)
    have h3 : i < rest.length + 1 := by omega
    rw [h2, List.getD_cons_succ]
    simp only [h3, decide_true, Bool.true_and]
    rw [List.getD_eq_getElem?_getD, List.getD_eq_getElem?_getD, List.getElem?_append_left h1]
  · by_cases h2 : i = rest.length
    · subst h2
      have h3 : (rest.length + 1) % (rest.length + 1) = 0 := Nat.mod_self _
      rw [h3]
      simp [List.getD_eq_getElem?_getD]
    · have h3 : ¬ i < rest.length + 1 := by omega
      simp only [h3, decide_false, Bool.false_and]
      rw [List.getD_eq_getElem?_getD, List.getElem?_eq_none (by simp; omega)]
      rfl

theorem lbpMap_rotate (b : Bool) (rest : List Bool) :
    lbpMap (rest.length + 1) (codeOfBits (rest ++ [b])) = lbpMap (rest.length + 1) (codeOfBits (b :: rest)) := by
  rw [codeOfBits_rotate]
  exact lbpMap_rollRight _ _ (by omega) (by simpa using codeOfBits_lt (b :: rest))

/-! ## sample values -/

section field
variable {K : Type} [Field K] [LinearOrder K] [IsStrictOrderedRing K]

theorem sample_getD (fl : K → Int) (im : Img K) (r : K) (d : K × K) (p : List Int) (hp : inside im.shape p = true) :
    (sample fl im r d).getD p 0
      = C18.pixel fl 1 .constant 0 im [some (-(r * d.1)), some (-(r * d.2))] [none, none] p := by
  unfold sample C18.shiftGlue C18.zoomShift
  rw [C18.tabulate_getD' _ _ _ _ hp]
  simp

theorem bitsAt_getD (im : Img K) (samples : List (Img K)) (p : List Int) (i : Nat) (hi : i < samples.length) :
    (bitsAt im samples p).getD i false = decide (im.getD p 0 < (samples.getD i im).getD p 0) := by
  unfold bitsAt
  rw [List.getD_eq_getElem?_getD, List.getElem?_map, List.getD_eq_getElem?_getD, List.getElem?_eq_getElem hi]
  simp

end field

theorem inside_nonneg (shape : List Nat) (p : List Int) (h : inside shape p = true) : ∀ kk ∈ p, 0 ≤ kk := by
  induction shape generalizing p with
  | nil => cases p <;> simp_all [inside]
  | cons d ds ih =>
    cases p with
    | nil => simp [inside] at h
    | cons x xs =>
      simp only [inside, Bool.and_eq_true, decide_eq_true_eq] at h
      intro kk hkk
      rcases List.mem_cons.1 hkk with rfl | hkk
      · exact h.1.1
      · exact ih xs h.2 kk hkk

end Mahotas.C19Lbp
