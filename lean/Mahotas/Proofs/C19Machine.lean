/-
C19, round 4 — helper lemmas for
* the integer dtypes of `integral<T>`: the recurrence run in machine arithmetic (`MInt`: every `+`/`-` reduced into
  the dtype's range) is the exact prefix sum reduced once at the end (`integralMachine_eq`);
* `moments(normalize=…, cm=None)` (`momentsFull`);
* the radial polynomial of `znl` (`zRadial`): `fact` is the factorial, the coefficients are the textbook ones.
-/
import Mahotas.Proofs.C19IntegralRing
import Mahotas.Proofs.C19Zernike
import Mathlib.Tactic.Ring
import Mathlib.Tactic.Linarith
import Mathlib.Tactic.FieldSimp
import Mathlib.Algebra.Field.Basic
import Mathlib.Algebra.CharZero.Defs
import Mathlib.Data.Nat.Factorial.Basic
import Mathlib.Data.Nat.Cast.Basic

namespace Mahotas.C19.Machine
open Mahotas Mahotas.C19 Mahotas.Generated

/-! ## `wrapTo` -/

theorem wrapTo_congr (b : Nat) (s : Bool) {x y : Int} (h : x % 2 ^ b = y % 2 ^ b) :
    wrapTo b s x = wrapTo b s y := by
  unfold wrapTo
  simp only [h]

theorem wrapTo_emod (b : Nat) (s : Bool) (x : Int) : wrapTo b s x % 2 ^ b = x % 2 ^ b := by
  unfold wrapTo
  simp only
  split
  · rw [Int.sub_emod_right, Int.emod_emod]
  · rw [Int.emod_emod]

theorem wrapTo_add (b : Nat) (s : Bool) (x y : Int) :
    wrapTo b s (wrapTo b s x + wrapTo b s y) = wrapTo b s (x + y) := by
  apply wrapTo_congr
  rw [Int.add_emod, wrapTo_emod, wrapTo_emod, ← Int.add_emod]

theorem wrapTo_sub (b : Nat) (s : Bool) (x y : Int) :
    wrapTo b s (wrapTo b s x - wrapTo b s y) = wrapTo b s (x - y) := by
  apply wrapTo_congr
  rw [Int.sub_emod, wrapTo_emod, wrapTo_emod, ← Int.sub_emod]

theorem wrapTo_zero (b : Nat) (s : Bool) (hb : 0 < b) : wrapTo b s 0 = 0 := by
  unfold wrapTo
  have h2 : (2 : Int) ^ b = 2 * 2 ^ (b - 1) := by
    obtain ⟨k, rfl⟩ : ∃ k, b = k + 1 := ⟨b - 1, by omega⟩
    simp [pow_succ, mul_comm]
  have hp : (0 : Int) < 2 ^ (b - 1) := by positivity
  have hn : ¬ ((s && decide ((0 : Int) % 2 ^ b ≥ 2 ^ b / 2)) = true) := by
    intro h
    simp only [Bool.and_eq_true, decide_eq_true_eq] at h
    have := h.2
    rw [Int.zero_emod, h2] at this
    omega
  simp only
  rw [if_neg hn, Int.zero_emod]

/-- unsigned: the value lies in `[0, 2^b)` -/
theorem wrapTo_range_unsigned (b : Nat) (x : Int) : 0 ≤ wrapTo b false x ∧ wrapTo b false x < 2 ^ b := by
  unfold wrapTo
  have hp : (0 : Int) < 2 ^ b := by positivity
  simp only [Bool.false_and, Bool.false_eq_true, if_false]
  exact ⟨Int.emod_nonneg _ (ne_of_gt hp), Int.emod_lt_of_pos _ hp⟩

/-- signed (two's complement): the value lies in `[-2^(b-1), 2^(b-1))` -/
theorem wrapTo_range_signed (b : Nat) (hb : 0 < b) (x : Int) :
    -(2 ^ (b - 1)) ≤ wrapTo b true x ∧ wrapTo b true x < 2 ^ (b - 1) := by
  unfold wrapTo
  have h2 : (2 : Int) ^ b = 2 * 2 ^ (b - 1) := by
    obtain ⟨k, rfl⟩ : ∃ k, b = k + 1 := ⟨b - 1, by omega⟩
    simp [pow_succ, mul_comm]
  have hp : (0 : Int) < 2 ^ (b - 1) := by positivity
  have hm : (0 : Int) < 2 ^ b := by positivity
  have h0 := Int.emod_nonneg x (ne_of_gt hm)
  have h1 := Int.emod_lt_of_pos x hm
  simp only [Bool.true_and, decide_eq_true_eq]
  rw [h2] at h0 h1 ⊢
  have hd : (2 * 2 ^ (b - 1) : Int) / 2 = 2 ^ (b - 1) := by omega
  rw [hd]
  split <;> constructor <;> omega

/-! ## a homomorphism commutes with the recurrence -/

section hom
variable {α β : Type} [Add α] [Sub α] [OfNat α 0] [Add β] [Sub β] [OfNat β 0] (φ : α → β)
  (hadd : ∀ a b, φ (a + b) = φ a + φ b) (hsub : ∀ a b, φ (a - b) = φ a - φ b) (h0 : φ 0 = 0)
include hadd hsub

omit [OfNat α 0] [OfNat β 0] in
theorem scanRow_map : ∀ (above row : List α) (L D : α),
    scanRow (φ L) (φ D) (above.map φ) (row.map φ) = (scanRow L D above row).map φ
  | [], _, _, _ => by simp [scanRow]
  | _ :: _, [], _, _ => by simp [scanRow]
  | a :: as, x :: xs, L, D => by
    simp only [List.map_cons, scanRow]
    rw [← hadd, ← hsub, ← hadd, scanRow_map as xs]

include h0

theorem integralAux_map : ∀ (rows : List (List α)) (prev : List α),
    integralAux (prev.map φ) (rows.map fun r => r.map φ) = (integralAux prev rows).map fun r => r.map φ
  | [], _ => by simp [integralAux]
  | row :: rest, prev => by
    simp only [List.map_cons, integralAux]
    have h := scanRow_map φ hadd hsub prev row 0 0
    rw [h0] at h
    rw [h, integralAux_map rest]

theorem integral_map (w : Nat) (rows : List (List α)) :
    integral w (rows.map fun r => r.map φ) = (integral w rows).map fun r => r.map φ := by
  unfold integral
  have h := integralAux_map φ hadd hsub h0 rows (List.replicate w 0)
  rw [List.map_replicate, h0] at h
  exact h

end hom

/-- **machine arithmetic = exact arithmetic reduced once**: the recurrence of `integral<T>` evaluated in the dtype's own
    wrap-around arithmetic returns, entry by entry, `wrapTo` of the recurrence evaluated over `ℤ`. -/
theorem integralMachine_eq (b : Nat) (s : Bool) (hb : 0 < b) (w : Nat) (rows : List (List Int)) :
    integralMachine b s w rows = (integral w rows).map fun r => r.map (wrapTo b s) := by
  unfold integralMachine
  rw [integral_map (MInt.ofInt b s)]
  · simp [List.map_map, Function.comp_def, MInt.ofInt]
  · intro x y
    show (⟨wrapTo b s (x + y)⟩ : MInt b s) = ⟨wrapTo b s (wrapTo b s x + wrapTo b s y)⟩
    rw [wrapTo_add]
  · intro x y
    show (⟨wrapTo b s (x - y)⟩ : MInt b s) = ⟨wrapTo b s (wrapTo b s x - wrapTo b s y)⟩
    rw [wrapTo_sub]
  · show (⟨wrapTo b s 0⟩ : MInt b s) = ⟨0⟩
    rw [wrapTo_zero b s hb]

/-- entry `(i, j)` of the machine result is `wrapTo` of the exact two-dimensional prefix sum -/
theorem integralMachine_getD (b : Nat) (s : Bool) (hb : 0 < b) (w : Nat) (rows : List (List Int))
    (hw : ∀ r ∈ rows, r.length = w) (i j : Nat) (hi : i < rows.length) (hj : j < w) :
    ((integralMachine b s w rows).getD i []).getD j 0 = wrapTo b s (prefix2 rows i j) := by
  rw [integralMachine_eq b s hb]
  have hl := Gen.integral_length w rows
  have hr := Gen.integral_row_length w rows hw
  have hp := Gen.integral_eq_prefix2 w rows hw i j hi hj
  have hi' : i < (integral w rows).length := by rw [hl]; exact hi
  have hrow : ((integral w rows)[i]).length = w := hr _ (List.getElem_mem hi')
  simp only [List.getD_eq_getElem?_getD, List.getElem?_map, List.getElem?_eq_getElem hi', Option.map_some,
    Option.getD_some] at hp ⊢
  have hj' : j < ((integral w rows)[i]).length := by rw [hrow]; exact hj
  simp only [List.getElem?_eq_getElem hj', Option.map_some, Option.getD_some] at hp ⊢
  rw [hp]

/-! ## `moments(normalize=…, cm=None)` -/

section field
variable {α : Type} [Field α]

theorem dotList_range' (f : Nat → α) : ∀ (xs : List α) (k : Nat),
    dotList xs ((List.range' k xs.length).map f) = dotFrom f k xs
  | [], _ => by simp [dotList, dotFrom]
  | x :: xs, k => by
    simp only [List.length_cons, List.range'_succ, List.map_cons, dotList, dotFrom]
    rw [dotList_range' f xs (k + 1)]

theorem dotList_range (f : Nat → α) (xs : List α) :
    dotList xs ((List.range xs.length).map f) = dotFrom f 0 xs := by
  rw [List.range_eq_range']
  exact dotList_range' f xs 0

/-- dividing the weights divides the dot product -/
theorem dotList_div_right (s : α) : ∀ xs ws : List α,
    dotList xs (ws.map (· / s)) = dotList xs ws / s
  | [], _ => by simp [dotList]
  | _ :: _, [] => by simp [dotList]
  | x :: xs, w :: ws => by
    simp only [List.map_cons, dotList]
    rw [dotList_div_right s xs ws, add_div, mul_div_assoc]

theorem dotList_div_left (s : α) : ∀ xs ws : List α,
    dotList (xs.map (· / s)) ws = dotList xs ws / s
  | [], _ => by simp [dotList]
  | _ :: _, [] => by simp [dotList]
  | x :: xs, w :: ws => by
    simp only [List.map_cons, dotList]
    rw [dotList_div_left s xs ws, add_div, div_mul_eq_mul_div]

/-- the unnormalised weight vector `((j − c)^p)_j` -/
def rawWeights (cast : Nat → α) (n pw : Nat) (c : α) : List α :=
  (List.range n).map fun j => powN (cast j - c) pw

theorem momentWeights_false_some (cast : Nat → α) (n pw : Nat) (c : α) :
    momentWeights cast n pw (some c) false = rawWeights cast n pw c := by
  simp [momentWeights, rawWeights]

theorem momentWeights_none (cast : Nat → α) (n pw : Nat) (nz : Bool) :
    momentWeights cast n pw none nz = momentWeights cast n pw (some 0) nz := by
  simp [momentWeights]

theorem momentWeights_true_some (cast : Nat → α) (n pw : Nat) (c : α) :
    momentWeights cast n pw (some c) true =
      (rawWeights cast n pw c).map (· / gsum 0 (rawWeights cast n pw c)) := by
  simp [momentWeights, rawWeights]

/-- `normalize=False` with a centre on a rectangular image is the round-1 model `moments` -/
theorem momentsFull_eq_moments (cast : Nat → α) (R C : Nat) (rows : List (List α)) (p0 p1 : Nat) (c0 c1 : α)
    (hR : rows.length = R) (hC : ∀ r ∈ rows, r.length = C) :
    momentsFull cast R C rows p0 p1 (some (c0, c1)) false = moments cast rows p0 p1 c0 c1 := by
  unfold momentsFull moments
  simp only [Option.map_some, momentWeights_false_some, rawWeights]
  have h1 : (rows.map fun r => dotList r ((List.range C).map fun j => powN (cast j - c1) p1)) =
      rows.map fun r => dotFrom (fun j => powN (cast j - c1) p1) 0 r := by
    apply List.map_congr_left
    intro r hr
    rw [← hC r hr]
    exact dotList_range _ r
  rw [h1]
  have h2 := dotList_range (fun i => powN (cast i - c0) p0)
    (rows.map fun r => dotFrom (fun j => powN (cast j - c1) p1) 0 r)
  rw [List.length_map, hR] at h2
  exact h2

/-- `normalize=True` divides the plain moment by the two weight sums -/
theorem momentsFull_normalize (cast : Nat → α) (R C : Nat) (rows : List (List α)) (p0 p1 : Nat) (c0 c1 : α) :
    momentsFull cast R C rows p0 p1 (some (c0, c1)) true =
      momentsFull cast R C rows p0 p1 (some (c0, c1)) false /
        (gsum 0 (rawWeights cast C p1 c1) * gsum 0 (rawWeights cast R p0 c0)) := by
  unfold momentsFull
  simp only [Option.map_some, momentWeights_false_some, momentWeights_true_some]
  rw [dotList_div_right]
  have h : (rows.map fun r => dotList r ((rawWeights cast C p1 c1).map (· / gsum 0 (rawWeights cast C p1 c1)))) =
      (rows.map fun r => dotList r (rawWeights cast C p1 c1)).map (· / gsum 0 (rawWeights cast C p1 c1)) := by
    rw [List.map_map]
    apply List.map_congr_left
    intro r _
    simp [dotList_div_right]
  rw [h, dotList_div_left, div_div]

theorem momentsFull_none (cast : Nat → α) (R C : Nat) (rows : List (List α)) (p0 p1 : Nat) (nz : Bool) :
    momentsFull cast R C rows p0 p1 none nz = momentsFull cast R C rows p0 p1 (some (0, 0)) nz := by
  unfold momentsFull
  simp [momentWeights_none]

end field

/-! ## the radial polynomial -/

theorem factorialTable_eq : ∀ i < 13, factorialTable.getD i 0 = i.factorial := by decide

section radial
variable {α : Type} [Field α]

/-- `fact(n)` of `_zernike.cpp` is `n!` -/
theorem zfact_eq_factorial : ∀ n : Nat, zfact (Nat.cast : Nat → α) n = ((n.factorial : Nat) : α)
  | 0 => by
    unfold zfact
    rw [factorialTable_eq 0 (by decide)]
  | n + 1 => by
    unfold zfact
    split
    · rename_i h
      have h13 : factorialTable.length = 13 := rfl
      rw [factorialTable_eq (n + 1) (by omega)]
    · rw [zfact_eq_factorial n, Nat.factorial_succ, Nat.cast_mul]

theorem sign_eq_pow (m : Nat) : (if m % 2 = 1 then -(1 : α) else 1) = (-1) ^ m := by
  rcases Nat.even_or_odd m with h | h
  · rw [if_neg (by rcases h with ⟨k, rfl⟩; omega), h.neg_one_pow]
  · rw [if_pos (by rcases h with ⟨k, rfl⟩; omega), h.neg_one_pow]

/-- the coefficient `g_m[m]` of `znl` is the textbook coefficient of `ρ^(n−2m)` in `R_n^l` -/
theorem zcoef_textbook (n l m : Nat) (hm : 2 * m + l ≤ n) :
    zcoef (1 : α) Nat.cast n l m =
      (-1) ^ m * ((n - m).factorial : α) /
        ((m.factorial : α) * (((n + l) / 2 - m).factorial : α) * (((n - l) / 2 - m).factorial : α)) := by
  unfold zcoef
  rw [sign_eq_pow, zfact_eq_factorial, zfact_eq_factorial, zfact_eq_factorial, zfact_eq_factorial]
  have e1 : (n - 2 * m + l) / 2 = (n + l) / 2 - m := by omega
  have e2 : (n - 2 * m - l) / 2 = (n - l) / 2 - m := by omega
  rw [e1, e2]

theorem foldl_add_eq_sum (f : Nat → α) : ∀ (ms : List Nat) (z : α),
    ms.foldl (fun acc m => acc + f m) z = z + (ms.map f).sum
  | [], z => by simp
  | m :: ms, z => by
    simp only [List.foldl_cons, List.map_cons, List.sum_cons]
    rw [foldl_add_eq_sum f ms, add_assoc]

theorem zRadial_eq_sum (pow : α → Nat → α) (n l : Nat) (d : α) :
    zRadial 0 1 Nat.cast pow n l d =
      ((List.range ((n - l) / 2 + 1)).map fun m => zcoef 1 Nat.cast n l m * pow d (n - 2 * m)).sum := by
  unfold zRadial
  rw [foldl_add_eq_sum, zero_add]

/-- the inner loop of `znl` is `R_n^l(d) · a` with the model's `zRadial` -/
theorem zVnl_eq_zRadial (pow : α → Nat → α) (n l : Nat) (d : α) (a : α × α) :
    zVnl 0 1 Nat.cast pow n l d a = cxScale (zRadial 0 1 Nat.cast pow n l d) a := by
  rw [zVnl_eq, zRadial_eq_sum]

/-- `R_n^n(d) = d^n` -/
theorem zRadial_diag [CharZero α] (pow : α → Nat → α) (n : Nat) (d : α) :
    zRadial 0 1 Nat.cast pow n n d = pow d n := by
  rw [zRadial_eq_sum]
  have hn : ((n.factorial : Nat) : α) ≠ 0 := Nat.cast_ne_zero.mpr (Nat.factorial_ne_zero n)
  have e : (n + n) / 2 = n := by omega
  simp [zcoef_textbook n n 0 (by omega), e, hn]

end radial

/-! ## central moments do not see a translation of the image together with its centre -/

section shift
variable {R : Type} [CommRing R]

theorem dotFrom_shift (w : Nat → R) : ∀ (xs : List R) (k : Nat),
    dotFrom w (k + 1) xs = dotFrom (fun i => w (i + 1)) k xs
  | [], _ => by simp [dotFrom]
  | x :: xs, k => by
    simp only [dotFrom]
    rw [dotFrom_shift w xs (k + 1)]

theorem dotFrom_zeros (w : Nat → R) : ∀ (n k : Nat), dotFrom w k (List.replicate n (0 : R)) = 0
  | 0, _ => by simp [dotFrom]
  | n + 1, k => by
    simp only [List.replicate_succ, dotFrom]
    rw [dotFrom_zeros w n (k + 1)]
    ring

theorem dotFrom_congr {w v : Nat → R} (h : ∀ i, w i = v i) : ∀ (xs : List R) (k : Nat),
    dotFrom w k xs = dotFrom v k xs
  | [], _ => by simp [dotFrom]
  | x :: xs, k => by
    simp only [dotFrom]
    rw [dotFrom_congr h xs (k + 1), h k]

/-- a row of zeros on top and the centre moved down by one: the same moment -/
theorem moments_shift_rows (rows : List (List R)) (n p0 p1 : Nat) (c0 c1 : R) :
    moments (Nat.cast : Nat → R) (List.replicate n 0 :: rows) p0 p1 (c0 + 1) c1 =
      moments Nat.cast rows p0 p1 c0 c1 := by
  unfold moments
  simp only [List.map_cons, dotFrom]
  rw [dotFrom_zeros, dotFrom_shift, zero_mul, zero_add]
  apply dotFrom_congr
  intro i
  congr 1
  push_cast
  ring

/-- a column of zeros on the left and the centre moved right by one: the same moment -/
theorem moments_shift_cols (rows : List (List R)) (p0 p1 : Nat) (c0 c1 : R) :
    moments (Nat.cast : Nat → R) (rows.map fun r => (0 : R) :: r) p0 p1 c0 (c1 + 1) =
      moments Nat.cast rows p0 p1 c0 c1 := by
  unfold moments
  rw [List.map_map]
  congr 1
  apply List.map_congr_left
  intro r _
  simp only [Function.comp, dotFrom]
  rw [dotFrom_shift, zero_mul, zero_add]
  apply dotFrom_congr
  intro j
  congr 1
  push_cast
  ring

end shift

end Mahotas.C19.Machine
