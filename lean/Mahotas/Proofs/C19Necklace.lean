/-
C19 (round 3) — the bins of the compressed LBP histogram are the rotation classes (binary necklaces).

`pivots P` (the codes `c = map c` among all `2^P` codes: one bin each in `lbpCompress`) is a system of
distinct representatives of the rotation classes of `P`-bit codes, for every `P ≥ 1`; hence the number
of bins is the number of classes. For `P ≤ 12` the number is checked against the closed form
`(1/P) Σ_{d | P} φ(d) 2^{P/d}` by kernel evaluation of the model's own `lbpMap`.
-/
import Mahotas.Proofs.C19LbpHist
import Mathlib.SetTheory.Cardinal.Finite
import Mathlib.Data.Fintype.Card
import Mathlib.Data.Finset.Card
import Mathlib.NumberTheory.Divisors
import Mathlib.Data.Nat.Totient
namespace Mahotas.C19

/-- the pivot codes: the bins `lbp` keeps -/
def pivots (P : Nat) : List Nat := (List.range (2 ^ P)).filter fun c => lbpMap P c == c

theorem lbpCompress_length (P : Nat) (mapped : List Nat) :
    (lbpCompress P mapped).length = (pivots P).length := by
  simp [lbpCompress, pivots]

theorem pivots_nodup (P : Nat) : (pivots P).Nodup := nodup_filter_nat _ _ List.nodup_range

theorem mem_pivots_iff (P c : Nat) : c ∈ pivots P ↔ c < 2 ^ P ∧ lbpMap P c = c := by
  simp [pivots]

/-- `w` is a cyclic rotation of `v` -/
def RotEq (P v w : Nat) : Prop := ∃ k, iter (rollRight P) k v = w

theorem iter_add {α : Type} (f : α → α) (a b : Nat) (x : α) :
    iter f (a + b) x = iter f b (iter f a x) := by
  induction a generalizing x with
  | zero => rw [Nat.zero_add]; rfl
  | succ a ih =>
    rw [Nat.add_right_comm]
    exact ih (f x)

theorem RotEq.refl (P v : Nat) : RotEq P v v := ⟨0, rfl⟩

theorem RotEq.lt {P v w : Nat} (hP : 1 ≤ P) (hv : v < 2 ^ P) (h : RotEq P v w) : w < 2 ^ P := by
  obtain ⟨k, rfl⟩ := h
  exact iter_rollRight_lt P v hP hv k

theorem RotEq.symm {P v w : Nat} (hP : 1 ≤ P) (hv : v < 2 ^ P) (h : RotEq P v w) : RotEq P w v := by
  obtain ⟨k, rfl⟩ := h
  refine ⟨P - k % P, ?_⟩
  rw [← iter_add, iter_rollRight_mod P v hP hv]
  have h1 := Nat.div_add_mod k P
  have h2 := Nat.mod_lt k (by omega : P > 0)
  have h3 : k + (P - k % P) = P * (k / P + 1) := by
    rw [Nat.mul_add, Nat.mul_one]; omega
  rw [h3, Nat.mul_mod_right]
  rfl

theorem RotEq.trans {P u v w : Nat} (h1 : RotEq P u v) (h2 : RotEq P v w) : RotEq P u w := by
  obtain ⟨k, rfl⟩ := h1
  obtain ⟨j, rfl⟩ := h2
  exact ⟨k + j, iter_add _ k j u⟩

theorem rotEq_lbpMap (P v : Nat) (hP : 1 ≤ P) (hv : v < 2 ^ P) : RotEq P v (lbpMap P v) := by
  obtain ⟨k, _, hk⟩ := lbpMap_mem_orbit P v hP hv
  exact ⟨k, hk.symm⟩

/-- two codes share a bin iff they are rotations of one another -/
theorem lbpMap_eq_iff (P v w : Nat) (hP : 1 ≤ P) (hv : v < 2 ^ P) (hw : w < 2 ^ P) :
    lbpMap P v = lbpMap P w ↔ RotEq P v w := by
  constructor
  · intro h
    have h1 := rotEq_lbpMap P v hP hv
    have h2 := (rotEq_lbpMap P w hP hw).symm hP hw
    rw [h] at h1
    exact h1.trans h2
  · rintro ⟨k, rfl⟩
    exact (lbpMap_iter P v k hP hv).symm

/-- every rotation class contains exactly one pivot -/
theorem pivot_unique (P v : Nat) (hP : 1 ≤ P) (hv : v < 2 ^ P) : ∃! c, c ∈ pivots P ∧ RotEq P v c := by
  refine ⟨lbpMap P v, ⟨mem_pivots P hP v hv, rotEq_lbpMap P v hP hv⟩, ?_⟩
  rintro c ⟨hc, hr⟩
  obtain ⟨hc1, hc2⟩ := (mem_pivots_iff P c).1 hc
  rw [← hc2]
  exact ((lbpMap_eq_iff P v c hP hv hc1).2 hr).symm

/-- the rotation relation on `P`-bit codes -/
def rotSetoid (P : Nat) (hP : 1 ≤ P) : Setoid {v : Nat // v < 2 ^ P} where
  r a b := RotEq P a.1 b.1
  iseqv := ⟨fun a => RotEq.refl P a.1, fun {a _} h => h.symm hP a.2, fun h1 h2 => h1.trans h2⟩

/-- classes ≃ pivots -/
def classEquiv (P : Nat) (hP : 1 ≤ P) : Quotient (rotSetoid P hP) ≃ {c : Nat // c ∈ pivots P} where
  toFun := Quotient.lift (fun a => ⟨lbpMap P a.1, mem_pivots P hP a.1 a.2⟩)
    (fun a b h => Subtype.ext ((lbpMap_eq_iff P a.1 b.1 hP a.2 b.2).2 h))
  invFun c := Quotient.mk _ ⟨c.1, ((mem_pivots_iff P c.1).1 c.2).1⟩
  left_inv := by
    intro q
    induction q using Quotient.ind with
    | _ a =>
      apply Quotient.sound
      exact (rotEq_lbpMap P a.1 hP a.2).symm hP a.2
  right_inv := by
    intro c
    apply Subtype.ext
    exact ((mem_pivots_iff P c.1).1 c.2).2

theorem natCard_mem_list (l : List Nat) (h : l.Nodup) : Nat.card {c : Nat // c ∈ l} = l.length := by
  rw [← List.toFinset_card_of_nodup h, ← Fintype.card_coe, ← Nat.card_eq_fintype_card]
  exact Nat.card_congr (Equiv.subtypeEquivRight (by simp))

/-- **number of bins = number of rotation classes**, for every `P ≥ 1` -/
theorem card_classes (P : Nat) (hP : 1 ≤ P) : Nat.card (Quotient (rotSetoid P hP)) = (pivots P).length := by
  rw [Nat.card_congr (classEquiv P hP), natCard_mem_list _ (pivots_nodup P)]

/-! ## the closed form for `P ≤ 12` -/

/-- Euler's `φ` by counting (kernel-friendly) -/
def phiN (n : Nat) : Nat := ((List.range n).filter fun k => Nat.gcd n k == 1).length

/-- `Σ_{d | P} φ(d) 2^{P/d}` (= `P ·` number of binary necklaces of length `P`, Burnside) -/
def necklaceSum (P : Nat) : Nat :=
  (((List.range (P + 1)).filter fun d => decide (1 ≤ d) && P % d == 0).map fun d => phiN d * 2 ^ (P / d)).sum

theorem pivots_closed_form : ∀ P, 1 ≤ P → P ≤ 12 → (pivots P).length * P = necklaceSum P := by
  decide +kernel

/-- the same sum with Mathlib's `Nat.divisors` and `Nat.totient` -/
theorem necklaceSum_mathlib : ∀ P, 1 ≤ P → P ≤ 12 →
    necklaceSum P = ∑ d ∈ P.divisors, Nat.totient d * 2 ^ (P / d) := by
  decide +kernel

end Mahotas.C19
