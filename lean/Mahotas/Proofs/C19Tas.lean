/-
C19 — Threshold Adjacency Statistics (`Model/C19Tas.lean`): the convolution/histogram model of `_ctas` equals the
counting specification; the kept bins partition the unselected pixels; the complement half is Hamilton's statistic.
Core Lean only.
-/
import Mahotas.Model.C19Tas
import Mahotas.Proofs.C19Cooc
import Mahotas.Model.Border
namespace Mahotas.C19Tas
open Mahotas

theorem boxPos_eq (s : List Nat) : boxPos s = C19.boxPos s := by
  induction s with
  | nil => rfl
  | cons d ds ih => simp [boxPos, C19.boxPos, ih]

theorem mem_boxPos (s : List Nat) (p : List Int) : p ∈ boxPos s ↔ inside s p = true := by
  rw [boxPos_eq]; exact C19.mem_boxPos s p

/-! ### the weighted window sum splits into the centre term and the neighbour count -/

theorem sum_split {α : Type} (L : List α) (z x : α → Bool) (w0 : Nat) :
    (L.map fun d => (if z d then w0 else 1) * bit (x d)).sum
      = w0 * (L.filter z).countP x + (L.filter (fun d => !z d)).countP x := by
  induction L with
  | nil => simp
  | cons a L ih =>
    simp only [List.map_cons, List.sum_cons, ih, List.filter_cons]
    cases hz : z a <;> cases hx : x a <;> simp [bit, hx, Nat.mul_add] <;> omega

theorem offs_filter_zero (n : Nat) : (offs n).filter isZero = [List.replicate n 0] := by
  induction n with
  | zero => simp [offs, isZero]
  | succ n ih =>
    have h : ∀ (c : Int), ((offs n).map (c :: ·)).filter isZero
        = if c = 0 then ((offs n).filter isZero).map (c :: ·) else [] := by
      intro c
      rw [List.filter_map]
      by_cases hc : c = 0
      · subst hc
        simp only [if_true]
        congr 1
      · simp only [if_neg hc]
        have : (isZero ∘ fun x => c :: x) = fun _ => false := by
          funext x; simp [isZero, hc]
        rw [this]; simp
    simp only [offs, List.flatMap_cons, List.flatMap_nil, List.filter_append, h, ih]
    simp [List.replicate_succ]

theorem reflectPos_add_zero (s : List Nat) (p : List Int) (h : inside s p = true) :
    reflectPos s (addPos p (List.replicate s.length 0)) = p := by
  induction s generalizing p with
  | nil => cases p <;> simp_all [inside, reflectPos]
  | cons d ds ih =>
    cases p with
    | nil => simp [inside] at h
    | cons x xs =>
      simp only [inside, Bool.and_eq_true, decide_eq_true_eq] at h
      simp only [List.length_cons, List.replicate_succ, addPos, reflectPos, ih xs h.2, Int.add_zero]
      congr 1
      unfold reflect1
      rw [if_neg (by omega), if_neg (by omega)]

/-- `V[p] = w0 · [b p] + #selected neighbours of p` at every pixel of the image -/
theorem convAt_eq (s : List Nat) (w0 : Nat) (b : List Int → Bool) (p : List Int) (hp : p ∈ boxPos s) :
    convAt s w0 b p = w0 * bit (b p) + nbCount s b p := by
  unfold convAt nbCount
  rw [sum_split, offs_filter_zero]
  simp only [List.countP_cons, List.countP_nil, Nat.zero_add]
  rw [reflectPos_add_zero s p ((mem_boxPos s p).1 hp)]
  cases b p <;> simp [bit]

theorem nbCount_le (s : List Nat) (b : List Int → Bool) (p : List Int) :
    nbCount s b p ≤ ((offs s.length).filter (fun d => !isZero d)).length := List.countP_le_length

theorem nb_len2 : ((offs 2).filter (fun d => !isZero d)).length = 8 := by decide
theorem nb_len3 : ((offs 3).filter (fun d => !isZero d)).length = 26 := by decide

/-! ### histogram of the convolution = the counting specification -/

theorem count_map_eq_countP {α : Type} (L : List α) (g : α → Nat) (k : Nat) :
    (L.map g).count k = L.countP (fun p => g p == k) := by
  induction L with
  | nil => rfl
  | cons a L ih => simp [List.count_cons, List.countP_cons, ih]

theorem V_count (s : List Nat) (w0 N : Nat) (b : List Int → Bool) (k : Nat)
    (hN : ((offs s.length).filter (fun d => !isZero d)).length = N) (hw : N < w0) (hk : k ≤ N) :
    ((boxPos s).map (convAt s w0 b)).count k = tasCount s b k := by
  rw [count_map_eq_countP]
  unfold tasCount
  apply List.countP_congr
  intro p hp
  rw [convAt_eq s w0 b p hp]
  have hle := nbCount_le s b p
  rw [hN] at hle
  cases hb : b p <;> simp [bit]
  omega

theorem V_count_none (s : List Nat) (w0 N : Nat) (b : List Int → Bool) (k : Nat)
    (hN : ((offs s.length).filter (fun d => !isZero d)).length = N) (hk : N < k) (hkw : k < w0) :
    ((boxPos s).map (convAt s w0 b)).count k = 0 := by
  rw [count_map_eq_countP, List.countP_eq_zero]
  intro p hp
  rw [convAt_eq s w0 b p hp]
  have hle := nbCount_le s b p
  rw [hN] at hle
  cases hb : b p <;> simp [bit] <;> omega

/-- rank 2: the nine kept bins of `np.histogram(convolve(b, _M2), arange(11))` are the counts of the specification -/
theorem ctasCounts_2d (s : List Nat) (hs : s.length = 2) (b : List Int → Bool) :
    ctasCounts s b = (List.range 9).map (tasCount s b) := by
  have hN : ((offs s.length).filter (fun d => !isZero d)).length = 8 := by rw [hs]; exact nb_len2
  unfold ctasCounts params npHistogram
  simp only [hs, beq_self_eq_true, if_true]
  rw [← List.map_take, List.take_range]
  apply List.map_congr_left
  intro k hk
  have hk9 : k < 9 := by simpa using hk
  rw [V_count s 10 8 b k hN (by omega) (by omega), if_neg (by omega), Nat.add_zero]

/-- rank 3: the 27 bins of `np.histogram(convolve(b, _M3), arange(28))` (the last one closed: it would also take
    `V = 27`, which never occurs) are the counts of the specification -/
theorem ctasCounts_3d (s : List Nat) (hs : s.length = 3) (b : List Int → Bool) :
    ctasCounts s b = (List.range 27).map (tasCount s b) := by
  have hN : ((offs s.length).filter (fun d => !isZero d)).length = 26 := by rw [hs]; exact nb_len3
  unfold ctasCounts params npHistogram
  simp only [hs, show ((3 : Nat) == 2) = false from rfl, Bool.false_eq_true, if_false]
  rw [List.take_of_length_le (by simp)]
  apply List.map_congr_left
  intro k hk
  have hk27 : k < 27 := by simpa using hk
  rw [V_count s 28 26 b k hN (by omega) (by omega), V_count_none s 28 26 b 27 hN (by omega) (by omega)]
  simp

/-! ### the kept bins partition the unselected pixels -/

theorem sum_map_zero {α : Type} (R : List α) : (R.map fun _ => (0 : Nat)).sum = 0 := by
  induction R with
  | nil => rfl
  | cons r R ih => simpa using ih

theorem sum_map_add {α : Type} (R : List α) (f g : α → Nat) :
    (R.map fun k => f k + g k).sum = (R.map f).sum + (R.map g).sum := by
  induction R with
  | nil => rfl
  | cons r R ih => simp only [List.map_cons, List.sum_cons, ih]; omega

theorem sum_indicator (M v : Nat) :
    ((List.range M).map fun k => if v = k then 1 else 0).sum = if v < M then 1 else 0 := by
  induction M with
  | zero => simp
  | succ M ihM =>
    rw [List.range_succ, List.map_append, List.sum_append, ihM]
    simp only [List.map_cons, List.map_nil, List.sum_cons, List.sum_nil, Nat.add_zero]
    by_cases h1 : v < M
    · rw [if_pos h1, if_neg (by omega), if_pos (by omega)]
    · by_cases h2 : v = M
      · rw [if_neg h1, if_pos h2, if_pos (by omega)]
      · rw [if_neg h1, if_neg h2, if_neg (by omega)]

theorem sum_countP_partition {α : Type} (L : List α) (q : α → Bool) (g : α → Nat) (N : Nat)
    (hg : ∀ p ∈ L, g p < N) :
    ((List.range N).map fun k => L.countP fun p => q p && g p == k).sum = L.countP q := by
  induction L with
  | nil => simp only [List.countP_nil]; exact sum_map_zero _
  | cons a L ih =>
    simp only [List.countP_cons]
    rw [sum_map_add, ih (fun p hp => hg p (List.mem_cons_of_mem _ hp))]
    congr 1
    cases hq : q a
    · simp only [Bool.false_and, Bool.false_eq_true, if_false]; exact sum_map_zero _
    · simp only [Bool.true_and, beq_iff_eq, if_true]
      rw [sum_indicator N (g a), if_pos (hg a List.mem_cons_self)]

theorem tasCount_sum (s : List Nat) (b : List Int → Bool) (N : Nat)
    (hN : ((offs s.length).filter (fun d => !isZero d)).length = N) :
    ((List.range (N + 1)).map (tasCount s b)).sum = offCount s b := by
  unfold tasCount offCount
  exact sum_countP_partition (boxPos s) (fun p => !b p) (nbCount s b) (N + 1)
    (fun p _ => by have := nbCount_le s b p; rw [hN] at this; omega)

/-! ### complement: the statistic of `~b` is Hamilton's statistic of `b`, index reversed -/

theorem nbCount_not (s : List Nat) (b : List Int → Bool) (p : List Int) :
    nbCount s (fun q => !b q) p + nbCount s b p = ((offs s.length).filter (fun d => !isZero d)).length := by
  unfold nbCount
  generalize ((offs s.length).filter (fun d => !isZero d)) = L
  induction L with
  | nil => simp
  | cons a L ih =>
    simp only [List.countP_cons, List.length_cons]
    have ih' : List.countP (fun d => !b (reflectPos s (addPos p d))) L
        + List.countP (fun d => b (reflectPos s (addPos p d))) L = L.length := ih
    cases b (reflectPos s (addPos p a)) <;> simp <;> omega

theorem tasCount_not (s : List Nat) (b : List Int → Bool) (N k : Nat)
    (hN : ((offs s.length).filter (fun d => !isZero d)).length = N) (hk : k ≤ N) :
    tasCount s (fun q => !b q) k = hamiltonCount s b (N - k) := by
  unfold tasCount hamiltonCount
  apply List.countP_congr
  intro p _
  have h := nbCount_not s b p
  rw [hN] at h
  cases hb : b p <;> simp [hb]
  omega

/-- for the window offsets `−1, 0, 1` the ad-hoc `reflect1` is the shared transliteration of `fix_offset(ExtendReflect)` -/
theorem reflect1_eq_fixOffset (n : Nat) (hn : 1 ≤ n) (i : Int) (h0 : -1 ≤ i) (h1 : i ≤ n) :
    fixOffset .reflect i n = some (reflect1 n i) := by
  unfold fixOffset reflect1
  by_cases hneg : i < 0
  · have hi : i = -1 := by omega
    subst hi
    simp only [show (-1 : Int) < 0 by decide, if_true]
    by_cases hl : (n : Int) ≤ 1
    · simp [hl]
    · simp only [hl, if_false]
      have h2 : ¬ ((-1 : Int) < -(2 * (n : Int))) := by omega
      simp only [h2, if_false]
      have h3 : ¬ ((-1 : Int) < -(n : Int)) := by omega
      simp [h3]
  · simp only [hneg, if_false]
    by_cases hge : i ≥ (n : Int)
    · have hi : i = n := by omega
      subst hi
      simp only [ge_iff_le, Int.le_refl, if_true]
      by_cases hl : (n : Int) ≤ 1
      · have : (n : Int) = 1 := by omega
        simp [this]
      · simp only [hl, if_false]
        have ht : (n : Int).tdiv (2 * (n : Int)) = 0 := Int.tdiv_eq_zero_of_lt (by omega) (by omega)
        simp only [ht, Int.mul_zero, Int.sub_zero, Int.le_refl, if_true]
        congr 1; omega
    · simp [hge]

end Mahotas.C19Tas
