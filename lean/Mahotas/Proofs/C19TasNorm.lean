/-
C19 — Threshold Adjacency Statistics: the normalisation step `values / float(values.sum())` of `_ctas`
(`Model/C19Tas.lean: normalise`) over any ordered field: entries in `[0,1]`, sum 1, or all zero when nothing is counted.
-/
import Mahotas.Model.C19Tas
import Mathlib.Algebra.Order.Field.Basic
namespace Mahotas.C19Tas

theorem le_sum_of_mem (vals : List Nat) (v : Nat) (h : v ∈ vals) : v ≤ vals.sum := by
  induction vals with
  | nil => cases h
  | cons a l ih =>
    rcases List.mem_cons.1 h with rfl | h
    · simp
    · have := ih h; simp; omega

theorem eq_zero_of_sum_eq_zero (vals : List Nat) (h : vals.sum = 0) (v : Nat) (hv : v ∈ vals) : v = 0 := by
  have := le_sum_of_mem vals v hv; omega

variable {α : Type} [Field α] [LinearOrder α] [IsStrictOrderedRing α]

theorem sum_map_div (vals : List Nat) (S : α) :
    (vals.map fun (v : Nat) => (v : α) / S).sum = ((vals.sum : Nat) : α) / S := by
  induction vals with
  | nil => simp
  | cons a l ih => simp only [List.map_cons, List.sum_cons, ih, Nat.cast_add, add_div]

theorem normalise_mem (vals : List Nat) (x : α) (hx : x ∈ normalise (Nat.cast : Nat → α) vals) :
    0 ≤ x ∧ x ≤ 1 := by
  unfold normalise at hx
  split at hx
  · rename_i hpos
    obtain ⟨v, hv, rfl⟩ := List.mem_map.1 hx
    have hS : (0 : α) < ((vals.sum : Nat) : α) := by exact_mod_cast hpos
    have hle : (v : α) ≤ ((vals.sum : Nat) : α) := by exact_mod_cast le_sum_of_mem vals v hv
    exact ⟨div_nonneg (Nat.cast_nonneg v) hS.le, (div_le_one hS).2 hle⟩
  · rename_i hz
    obtain ⟨v, hv, rfl⟩ := List.mem_map.1 hx
    have : v = 0 := eq_zero_of_sum_eq_zero vals (by omega) v hv
    subst this; simp

theorem normalise_sum (vals : List Nat) (h : 0 < vals.sum) :
    (normalise (Nat.cast : Nat → α) vals).sum = 1 := by
  unfold normalise
  rw [if_pos h, sum_map_div]
  have hS : ((vals.sum : Nat) : α) ≠ 0 := by exact_mod_cast (Nat.pos_iff_ne_zero.1 h)
  exact div_self hS

theorem normalise_zero (vals : List Nat) (h : vals.sum = 0) (x : α)
    (hx : x ∈ normalise (Nat.cast : Nat → α) vals) : x = 0 := by
  unfold normalise at hx
  rw [if_neg (by omega)] at hx
  obtain ⟨v, hv, rfl⟩ := List.mem_map.1 hx
  have : v = 0 := eq_zero_of_sum_eq_zero vals h v hv
  subst this; simp

end Mahotas.C19Tas
