/-
C19 (round 3) — Zernike moments: rotating the image by 90° about the chosen centre multiplies every
`z_nl` by the unit `i^l`.

The definitions (`znlG`, `zVnl`, `zcoef`, `zernikeSel`, `zernikeZ`, `cx…`) are the generic ones of
`Model/C19.lean` that the driver runs at `Float`; here the scalar type is an arbitrary field with a
decidable linear order (no order axioms are used), and the square root, the power function, `eps` and
`pi` are arbitrary — only the ring identities matter.
-/
import Mahotas.Proofs.C19Haralick
import Mathlib.Algebra.BigOperators.Intervals
namespace Mahotas.C19
open Mahotas
open Finset (range)

/-! ## pairs as complex numbers -/

section ring
variable {α : Type} [CommRing α]

theorem cxAdd_eq (z w : α × α) : cxAdd z w = z + w := rfl

theorem cxMul_add (u z w : α × α) : cxMul u (z + w) = cxMul u z + cxMul u w := by
  ext <;> simp [cxMul] <;> ring

theorem cxMul_zero (u : α × α) : cxMul u 0 = 0 := by ext <;> simp [cxMul]

theorem cxMul_list_sum (u : α × α) (l : List (α × α)) : cxMul u l.sum = (l.map (cxMul u)).sum := by
  induction l with
  | nil => simp [cxMul_zero]
  | cons a t ih => simp [cxMul_add, ih]

theorem cxScale_cxMul (s : α) (u z : α × α) : cxScale s (cxMul u z) = cxMul u (cxScale s z) := by
  ext <;> simp [cxMul, cxScale] <;> ring

theorem cxConj_cxMul (u z : α × α) : cxConj (cxMul u z) = cxMul (cxConj u) (cxConj z) := by
  ext <;> simp [cxMul, cxConj] <;> ring

theorem cxPow_cxMul (u z : α × α) (k : ℕ) :
    cxPow 0 1 (cxMul u z) k = cxMul (cxPow 0 1 u k) (cxPow 0 1 z k) := by
  induction k with
  | zero => ext <;> simp [cxPow, cxMul]
  | succ k ih =>
    simp only [cxPow, ih]
    ext <;> simp [cxMul] <;> ring

theorem cxConj_cxPow (u : α × α) (k : ℕ) : cxConj (cxPow 0 1 u k) = cxPow 0 1 (cxConj u) k := by
  induction k with
  | zero => ext <;> simp [cxPow, cxConj]
  | succ k ih => simp only [cxPow, cxConj_cxMul, ih]

theorem cxNormSq_cxMul (u z : α × α) : cxNormSq (cxMul u z) = cxNormSq u * cxNormSq z := by
  simp only [cxNormSq, cxMul]; ring

/-- `|i^k|² = 1` -/
theorem cxNormSq_pow_i (k : ℕ) : cxNormSq (cxPow 0 1 ((0 : α), 1) k) = 1 := by
  induction k with
  | zero => simp [cxPow, cxNormSq]
  | succ k ih => rw [cxPow, cxNormSq_cxMul, ih]; simp [cxNormSq]

/-- the accumulation `v += φ(s)` over a list is the list sum -/
theorem foldl_cxAdd {γ : Type} (φ : γ → α × α) (l : List γ) (acc : α × α) :
    l.foldl (fun v s => cxAdd v (φ s)) acc = acc + (l.map φ).sum := by
  induction l generalizing acc with
  | nil => simp
  | cons a t ih => rw [List.foldl_cons, ih, List.map_cons, List.sum_cons, cxAdd_eq, add_assoc]

theorem cxScale_sum (a : α × α) (ks : List α) : (ks.map fun k => cxScale k a).sum = cxScale ks.sum a := by
  induction ks with
  | nil => ext <;> simp [cxScale]
  | cons k t ih =>
    rw [List.map_cons, List.sum_cons, ih, List.sum_cons]
    ext <;> simp [cxScale] <;> ring

end ring

/-! ## sums over the selected pixels as double finite sums -/

theorem sum_map_filterMap {β γ δ : Type} [AddMonoid β] (l : List δ) (g : δ → Option γ) (φ : γ → β) :
    ((l.filterMap g).map φ).sum = (l.map fun x => (g x).elim 0 φ).sum := by
  induction l with
  | nil => simp
  | cons a t ih =>
    cases h : g a <;> simp [h, ih]

theorem sel_sum {β γ : Type} [AddCommMonoid β] (g : ℕ → ℕ → Option γ) (φ : γ → β) (R C : ℕ) :
    (((List.range R).flatMap fun y => (List.range C).filterMap (g y)).map φ).sum =
      ∑ y ∈ range R, ∑ x ∈ range C, (g y x).elim 0 φ := by
  rw [List.map_flatMap, sum_flatMap', sum_map_range]
  refine Finset.sum_congr rfl fun y _ => ?_
  rw [sum_map_filterMap, sum_map_range]

/-- rotating the index grid by 90°: the sum over the `C × R` grid of `g' i j = (g j (C-1-i)).map ρ`
    is the sum over the `R × C` grid of `g` with `φ ∘ ρ` -/
theorem sel_sum_rot {β γ : Type} [AddCommMonoid β] (g g' : ℕ → ℕ → Option γ) (ρ : γ → γ) (φ : γ → β) (R C : ℕ)
    (h : ∀ i j, i < C → j < R → g' i j = (g j (C - 1 - i)).map ρ) :
    (((List.range C).flatMap fun i => (List.range R).filterMap (g' i)).map φ).sum =
      (((List.range R).flatMap fun y => (List.range C).filterMap (g y)).map (φ ∘ ρ)).sum := by
  rw [sel_sum, sel_sum, Finset.sum_comm]
  refine Finset.sum_congr rfl fun y hy => ?_
  rw [← Finset.sum_range_reflect (fun x => (g y x).elim 0 (φ ∘ ρ)) C]
  refine Finset.sum_congr rfl fun i hi => ?_
  rw [h i y (Finset.mem_range.1 hi) (Finset.mem_range.1 hy)]
  cases g y (C - 1 - i) <;> rfl

/-! ## the kernel as a sum -/

section field
variable {α : Type} [Field α]

theorem foldl_cxScale (k : ℕ → α) (a : α × α) (ms : List ℕ) (acc : α × α) :
    ms.foldl (fun acc m => cxAdd acc (cxScale (k m) a)) acc = acc + cxScale ((ms.map k).sum) a := by
  rw [foldl_cxAdd, ← cxScale_sum, List.map_map]
  rfl

/-- the radial polynomial factors out of the inner loop: `Vnl = R_nl(d) · a` -/
theorem zVnl_eq (cast : ℕ → α) (pow : α → ℕ → α) (n l : ℕ) (d : α) (a : α × α) :
    zVnl 0 1 cast pow n l d a =
      cxScale (((List.range ((n - l) / 2 + 1)).map fun m => zcoef 1 cast n l m * pow d (n - 2 * m)).sum) a := by
  unfold zVnl
  rw [foldl_cxScale]
  simp

theorem zVnl_cxMul (cast : ℕ → α) (pow : α → ℕ → α) (n l : ℕ) (d : α) (u a : α × α) :
    zVnl 0 1 cast pow n l d (cxMul u a) = cxMul u (zVnl 0 1 cast pow n l d a) := by
  rw [zVnl_eq, zVnl_eq, cxScale_cxMul]

/-- contribution of one selected pixel `s = (Dn, An, P)` to `z_nl` (before the factor `(n+1)/π`) -/
def zTerm (cast : ℕ → α) (pow : α → ℕ → α) (n l : ℕ) (tot : α) (s : α × (α × α) × α) : α × α :=
  cxScale (s.2.2 / tot) (cxConj (zVnl 0 1 cast pow n l s.1 (cxPow 0 1 s.2.1 l)))

/-- a selected pixel seen from the rotated image: same distance and value, angle multiplied by `-i` -/
def rotRec (s : α × (α × α) × α) : α × (α × α) × α := (s.1, cxMul (0, -1) s.2.1, s.2.2)

theorem zTerm_rotRec (cast : ℕ → α) (pow : α → ℕ → α) (n l : ℕ) (tot : α) (s : α × (α × α) × α) :
    zTerm cast pow n l tot (rotRec s) = cxMul (cxPow 0 1 (0, 1) l) (zTerm cast pow n l tot s) := by
  unfold zTerm rotRec
  simp only
  rw [cxPow_cxMul, zVnl_cxMul, cxConj_cxMul, cxScale_cxMul, cxConj_cxPow]
  congr 2
  simp [cxConj]

variable [LinearOrder α]

/-- `z_nl = (n+1)/π · Σ_{selected pixels} (P/ΣP) · conj(R_nl(Dn) · An^l)` -/
theorem zernikeZ_eq (sqrt : α → α) (pow : α → ℕ → α) (eps pi : α) (R C : ℕ) (im : ℕ → ℕ → α)
    (c0 c1 radius : α) (n l : ℕ) :
    zernikeZ 0 1 Nat.cast sqrt pow eps pi R C im c0 c1 radius n l =
      cxScale (((n + 1 : ℕ) : α) / pi)
        (((zernikeSel 0 1 Nat.cast sqrt eps R C im c0 c1 radius).map
          (zTerm Nat.cast pow n l
            (((zernikeSel 0 1 Nat.cast sqrt eps R C im c0 c1 radius).map fun s => s.2.2).sum))).sum) := by
  unfold zernikeZ znlG
  simp only
  rw [gsum_eq_sum, List.zip_map', List.zip_map', List.foldl_map, foldl_cxAdd]
  rw [Prod.mk_zero_zero, zero_add]
  rfl

/-- the record of a pixel with distance `dn`, normalised coordinates `(xn, yn)` and value `p`, if selected -/
def zRec (dn xn yn p : α) : Option (α × (α × α) × α) :=
  if dn ≤ 1 ∧ 0 < p then some (dn, (xn / dn, yn / dn), p) else none

/-- the pixel record at `(y, x)`, if selected -/
def zPix (sqrt : α → α) (eps : α) (im : ℕ → ℕ → α) (c0 c1 radius : α) (y x : ℕ) : Option (α × (α × α) × α) :=
  let yn := ((y : α) - c0) / radius
  let xn := ((x : α) - c1) / radius
  zRec (let d0 := sqrt (xn * xn + yn * yn); if d0 < eps then eps else d0) xn yn (im y x)

theorem zernikeSel_eq (sqrt : α → α) (eps : α) (R C : ℕ) (im : ℕ → ℕ → α) (c0 c1 radius : α) :
    zernikeSel 0 1 Nat.cast sqrt eps R C im c0 c1 radius =
      (List.range R).flatMap fun y => (List.range C).filterMap (zPix sqrt eps im c0 c1 radius y) := rfl

theorem zRec_rot (dn xn yn p : α) : zRec dn yn (-xn) p = (zRec dn xn yn p).map rotRec := by
  unfold zRec
  split <;> simp [rotRec, cxMul, neg_div]

/-- pixel `(i, j)` of the rotated image (`rot[i][j] = im[j][C-1-i]`, centre `(C-1-c1, c0)`) is pixel
    `(j, C-1-i)` of the image with the angle multiplied by `-i` -/
theorem zPix_rot (sqrt : α → α) (eps : α) (C : ℕ) (im : ℕ → ℕ → α) (c0 c1 radius : α) (i j : ℕ) (hi : i < C) :
    zPix sqrt eps (fun i j => im j (C - 1 - i)) ((C : α) - 1 - c1) c0 radius i j =
      (zPix sqrt eps im c0 c1 radius j (C - 1 - i)).map rotRec := by
  have hx : ((C - 1 - i : ℕ) : α) = (C : α) - 1 - (i : α) := by
    rw [Nat.cast_sub (by omega), Nat.cast_sub (by omega)]; simp
  have hyn : ((i : α) - ((C : α) - 1 - c1)) / radius = -((((C - 1 - i : ℕ) : α) - c1) / radius) := by
    rw [hx]; ring
  unfold zPix
  simp only
  rw [hyn]
  have hd : ∀ a b : α, a * a + -b * -b = b * b + a * a := fun a b => by ring
  rw [hd, zRec_rot]

theorem zernikeSel_sum_rot {β : Type} [AddCommMonoid β] (sqrt : α → α) (eps : α) (R C : ℕ) (im : ℕ → ℕ → α)
    (c0 c1 radius : α) (φ : α × (α × α) × α → β) :
    ((zernikeSel 0 1 Nat.cast sqrt eps C R (fun i j => im j (C - 1 - i)) ((C : α) - 1 - c1) c0 radius).map φ).sum =
      ((zernikeSel 0 1 Nat.cast sqrt eps R C im c0 c1 radius).map (φ ∘ rotRec)).sum := by
  rw [zernikeSel_eq, zernikeSel_eq]
  exact sel_sum_rot _ _ rotRec φ R C fun i j hi _ => zPix_rot sqrt eps C im c0 c1 radius i j hi

/-- **rotation by 90° multiplies `z_nl` by `i^l`** -/
theorem zernikeZ_rot90 (sqrt : α → α) (pow : α → ℕ → α) (eps pi : α) (R C : ℕ) (im : ℕ → ℕ → α)
    (c0 c1 radius : α) (n l : ℕ) :
    zernikeZ 0 1 Nat.cast sqrt pow eps pi C R (fun i j => im j (C - 1 - i)) ((C : α) - 1 - c1) c0 radius n l =
      cxMul (cxPow 0 1 (0, 1) l) (zernikeZ 0 1 Nat.cast sqrt pow eps pi R C im c0 c1 radius n l) := by
  rw [zernikeZ_eq, zernikeZ_eq]
  have htot := zernikeSel_sum_rot sqrt eps R C im c0 c1 radius (fun s => s.2.2)
  have hcomp : ((fun s : α × (α × α) × α => s.2.2) ∘ rotRec) = fun s => s.2.2 := rfl
  rw [hcomp] at htot
  rw [htot, zernikeSel_sum_rot, ← cxScale_cxMul, cxMul_list_sum, List.map_map]
  congr 3
  funext s
  exact zTerm_rotRec _ _ _ _ _ s

theorem zernikeZ_rot90_normSq (sqrt : α → α) (pow : α → ℕ → α) (eps pi : α) (R C : ℕ) (im : ℕ → ℕ → α)
    (c0 c1 radius : α) (n l : ℕ) :
    cxNormSq (zernikeZ 0 1 Nat.cast sqrt pow eps pi C R (fun i j => im j (C - 1 - i)) ((C : α) - 1 - c1) c0 radius n l) =
      cxNormSq (zernikeZ 0 1 Nat.cast sqrt pow eps pi R C im c0 c1 radius n l) := by
  rw [zernikeZ_rot90, cxNormSq_cxMul, cxNormSq_pow_i, one_mul]

end field

end Mahotas.C19

/-! ## intensity scaling on the full model, and rotation by 180° -/

namespace Mahotas.C19
open Mahotas

section scale
variable {α : Type} [Field α] [LinearOrder α] [IsStrictOrderedRing α]

/-- a selected pixel of the image scaled by `s` -/
def scaleRec (s : α) (r : α × (α × α) × α) : α × (α × α) × α := (r.1, r.2.1, s * r.2.2)

theorem zRec_scale (s : α) (hs : 0 < s) (dn xn yn p : α) :
    zRec dn xn yn (s * p) = (zRec dn xn yn p).map (scaleRec s) := by
  unfold zRec
  have hp : 0 < s * p ↔ 0 < p := ⟨fun h => (pos_iff_pos_of_mul_pos h).1 hs, fun h => mul_pos hs h⟩
  by_cases h : dn ≤ 1 ∧ 0 < p
  · rw [if_pos h, if_pos ⟨h.1, hp.2 h.2⟩]; rfl
  · rw [if_neg h, if_neg (fun h' => h ⟨h'.1, hp.1 h'.2⟩)]; rfl

theorem zernikeSel_scale (sqrt : α → α) (eps : α) (R C : ℕ) (im : ℕ → ℕ → α) (c0 c1 radius s : α) (hs : 0 < s) :
    zernikeSel 0 1 Nat.cast sqrt eps R C (fun y x => s * im y x) c0 c1 radius =
      (zernikeSel 0 1 Nat.cast sqrt eps R C im c0 c1 radius).map (scaleRec s) := by
  rw [zernikeSel_eq, zernikeSel_eq, List.map_flatMap]
  refine List.flatMap_congr fun y _ => ?_
  rw [List.map_filterMap]
  refine List.filterMap_congr fun x _ => ?_
  unfold zPix
  simp only
  rw [zRec_scale s hs]

omit [LinearOrder α] [IsStrictOrderedRing α] in
theorem zTerm_scale (cast : ℕ → α) (pow : α → ℕ → α) (n l : ℕ) (tot s : α) (hs : s ≠ 0) (r : α × (α × α) × α) :
    zTerm cast pow n l (s * tot) (scaleRec s r) = zTerm cast pow n l tot r := by
  unfold zTerm scaleRec
  simp only
  rw [mul_div_mul_left _ _ hs]

/-- **multiplying every pixel by `s > 0` leaves every `z_nl` unchanged** (full model) -/
theorem zernikeZ_scale (sqrt : α → α) (pow : α → ℕ → α) (eps pi : α) (R C : ℕ) (im : ℕ → ℕ → α)
    (c0 c1 radius s : α) (hs : 0 < s) (n l : ℕ) :
    zernikeZ 0 1 Nat.cast sqrt pow eps pi R C (fun y x => s * im y x) c0 c1 radius n l =
      zernikeZ 0 1 Nat.cast sqrt pow eps pi R C im c0 c1 radius n l := by
  rw [zernikeZ_eq, zernikeZ_eq, zernikeSel_scale sqrt eps R C im c0 c1 radius s hs, List.map_map, List.map_map]
  have htot : ((zernikeSel 0 1 Nat.cast sqrt eps R C im c0 c1 radius).map
      ((fun r : α × (α × α) × α => r.2.2) ∘ scaleRec s)).sum =
      s * ((zernikeSel 0 1 Nat.cast sqrt eps R C im c0 c1 radius).map fun r => r.2.2).sum := by
    rw [← sum_map_mul_left', List.map_map]; rfl
  rw [htot]
  congr 2
  apply List.map_congr_left
  intro r _
  exact zTerm_scale _ _ _ _ _ s (ne_of_gt hs) r

end scale

section rot180
variable {α : Type} [Field α] [LinearOrder α]

/-- **rotation by 180°** (two quarter turns): `z_nl ↦ (i^l)² z_nl = (−1)^l z_nl` -/
theorem zernikeZ_rot180 (sqrt : α → α) (pow : α → ℕ → α) (eps pi : α) (R C : ℕ) (im : ℕ → ℕ → α)
    (c0 c1 radius : α) (n l : ℕ) :
    zernikeZ 0 1 Nat.cast sqrt pow eps pi R C (fun i j => im (R - 1 - i) (C - 1 - j))
        ((R : α) - 1 - c0) ((C : α) - 1 - c1) radius n l =
      cxMul (cxPow 0 1 (0, 1) l) (cxMul (cxPow 0 1 (0, 1) l)
        (zernikeZ 0 1 Nat.cast sqrt pow eps pi R C im c0 c1 radius n l)) := by
  have h1 := zernikeZ_rot90 sqrt pow eps pi R C im c0 c1 radius n l
  have h2 := zernikeZ_rot90 sqrt pow eps pi C R (fun i j => im j (C - 1 - i)) ((C : α) - 1 - c1) c0 radius n l
  rw [h1] at h2
  exact h2

end rot180

end Mahotas.C19
