/-
Helper lemmas for C20: exact rational facts about the extracted colour tables, and the
order-theoretic facts about `stretch` over ℚ.
-/
import Mahotas.Model.C20
import Mathlib.Tactic.NormNum
import Mathlib.Tactic.Linarith
import Mathlib.Algebra.Order.Field.Basic
import Mathlib.Tactic.FieldSimp
import Mathlib.Tactic.Ring
namespace Mahotas.C20
open Mahotas Mahotas.Generated

/-! ## tables -/

theorem white_point : matVec rgb2xyzMQ [1, 1, 1] = [(9505 : Rat) / 10000, 1, (1089 : Rat) / 1000] := by
  norm_num [matVec, dot, rgb2xyzMQ]

theorem black_point : matVec rgb2xyzMQ [0, 0, 0] = [0, 0, 0] := by
  norm_num [matVec, dot, rgb2xyzMQ]

theorem matVec_rgb2xyz (r g b : Rat) :
    matVec rgb2xyzMQ [r, g, b] =
      [(1031 : Rat) / 2500 * r + ((447 : Rat) / 1250 * g + ((361 : Rat) / 2000 * b + 0)),
       (1063 : Rat) / 5000 * r + ((447 : Rat) / 625 * g + ((361 : Rat) / 5000 * b + 0)),
       (193 : Rat) / 10000 * r + ((149 : Rat) / 1250 * g + ((1901 : Rat) / 2000 * b + 0))] := by
  simp [matVec, dot, rgb2xyzMQ]

/-! ## stretch over ℚ -/

theorem stretchCore_mono (mn ptp lo hi x y : Rat) (hp : 0 < ptp) (h : lo ≤ hi) (hxy : x ≤ y) :
    stretchCore mn ptp lo hi x ≤ stretchCore mn ptp lo hi y := by
  unfold stretchCore
  have hs : 0 ≤ (hi - lo) / ptp := div_nonneg (by linarith) (le_of_lt hp)
  have : (x - mn) * ((hi - lo) / ptp) ≤ (y - mn) * ((hi - lo) / ptp) :=
    mul_le_mul_of_nonneg_right (by linarith) hs
  linarith

theorem stretchCore_min (mn ptp lo hi : Rat) : stretchCore mn ptp lo hi mn = lo := by
  unfold stretchCore; simp

theorem stretchCore_max (mn ptp lo hi : Rat) (hp : 0 < ptp) : stretchCore mn ptp lo hi (mn + ptp) = hi := by
  unfold stretchCore
  have : ptp ≠ 0 := ne_of_gt hp
  field_simp
  ring

theorem capHi_mono (lo hi x y : Rat) (hxy : x ≤ y) : capHi lo hi x ≤ capHi lo hi y := by
  unfold capHi
  by_cases h : hi < lo
  · simp only [h, if_true]; exact hxy
  · simp only [h, if_false]
    by_cases hx : hi < x <;> by_cases hy : hi < y <;> simp only [hx, hy, if_true, if_false] <;> linarith

theorem capHi_range (lo hi y : Rat) (h : lo ≤ hi) (hy : lo ≤ y) : lo ≤ capHi lo hi y ∧ capHi lo hi y ≤ hi := by
  unfold capHi
  have hnl : ¬ hi < lo := not_lt.mpr h
  simp only [hnl, if_false]
  by_cases hy' : hi < y <;> simp only [hy', if_true, if_false]
  · exact ⟨h, le_refl _⟩
  · exact ⟨hy, not_lt.mp hy'⟩

theorem minL_le (m : Rat) (xs : List Rat) : minL m xs ≤ m ∧ ∀ x ∈ xs, minL m xs ≤ x := by
  induction xs generalizing m with
  | nil => simp [minL]
  | cons a t ih =>
    by_cases h : a < m
    · have e : minL m (a :: t) = minL a t := by simp [minL, h]
      rw [e]
      obtain ⟨h1, h2⟩ := ih a
      refine ⟨by linarith, ?_⟩
      intro x hx
      rcases List.mem_cons.mp hx with rfl | hx
      · exact h1
      · exact h2 x hx
    · have e : minL m (a :: t) = minL m t := by simp [minL, h]
      rw [e]
      obtain ⟨h1, h2⟩ := ih m
      refine ⟨h1, ?_⟩
      intro x hx
      rcases List.mem_cons.mp hx with rfl | hx
      · linarith [not_lt.mp h]
      · exact h2 x hx

theorem minL_mem (m : Rat) (xs : List Rat) : minL m xs = m ∨ minL m xs ∈ xs := by
  induction xs generalizing m with
  | nil => simp [minL]
  | cons a t ih =>
    by_cases h : a < m
    · have e : minL m (a :: t) = minL a t := by simp [minL, h]
      rw [e]
      rcases ih a with h' | h'
      · right; rw [h']; simp
      · right; exact List.mem_cons_of_mem _ h'
    · have e : minL m (a :: t) = minL m t := by simp [minL, h]
      rw [e]
      rcases ih m with h' | h'
      · left; exact h'
      · right; exact List.mem_cons_of_mem _ h'

theorem le_maxL (m : Rat) (xs : List Rat) : m ≤ maxL m xs ∧ ∀ x ∈ xs, x ≤ maxL m xs := by
  induction xs generalizing m with
  | nil => simp [maxL]
  | cons a t ih =>
    by_cases h : m < a
    · have e : maxL m (a :: t) = maxL a t := by simp [maxL, h]
      rw [e]
      obtain ⟨h1, h2⟩ := ih a
      refine ⟨by linarith, ?_⟩
      intro x hx
      rcases List.mem_cons.mp hx with rfl | hx
      · exact h1
      · exact h2 x hx
    · have e : maxL m (a :: t) = maxL m t := by simp [maxL, h]
      rw [e]
      obtain ⟨h1, h2⟩ := ih m
      refine ⟨h1, ?_⟩
      intro x hx
      rcases List.mem_cons.mp hx with rfl | hx
      · linarith [not_lt.mp h]
      · exact h2 x hx

/-- `stretchList` is `map g` for a monotone `g` that sends the minimum to `lo` and every pixel into `[lo, hi]`. -/
theorem stretchList_spec (xs : List Rat) (lo hi : Rat) (h : lo ≤ hi) :
    ∃ g : Rat → Rat, (∀ x y, x ≤ y → g x ≤ g y) ∧ stretchList xs lo hi = xs.map g ∧
      (∀ x ∈ xs, lo ≤ g x ∧ g x ≤ hi) ∧ (∀ m ∈ xs, (∀ x ∈ xs, m ≤ x) → g m = lo) := by
  cases xs with
  | nil => exact ⟨fun _ => lo, fun _ _ _ => le_refl _, by simp [stretchList], by simp, by simp⟩
  | cons x0 rest =>
    by_cases hp : 0 < maxL (x0 - minL x0 rest) (rest.map (· - minL x0 rest))
    · have hnl : ¬ hi < lo := not_lt.mpr h
      refine ⟨fun x => capHi lo hi (stretchCore (minL x0 rest)
          (maxL (x0 - minL x0 rest) (rest.map (· - minL x0 rest))) lo hi x),
        fun x y hxy => capHi_mono lo hi _ _ (stretchCore_mono _ _ _ _ _ _ hp h hxy),
        by simp [stretchList, hp], ?_, ?_⟩
      · intro x hx
        have hmn : minL x0 rest ≤ x := by
          rcases List.mem_cons.mp hx with rfl | hx
          · exact (minL_le _ _).1
          · exact (minL_le _ _).2 x hx
        have := stretchCore_mono (minL x0 rest) _ lo hi _ _ hp h hmn
        rw [stretchCore_min] at this
        exact capHi_range lo hi _ h this
      · intro m hm hmin
        have hmem : minL x0 rest ∈ x0 :: rest := by
          rcases minL_mem x0 rest with e | e
          · rw [e]; simp
          · exact List.mem_cons_of_mem _ e
        have h1 : m ≤ minL x0 rest := hmin _ hmem
        have h2 : minL x0 rest ≤ m := by
          rcases List.mem_cons.mp hm with rfl | hm
          · exact (minL_le _ _).1
          · exact (minL_le _ _).2 m hm
        have : m = minL x0 rest := le_antisymm h1 h2
        show capHi lo hi (stretchCore _ _ lo hi m) = lo
        rw [this, stretchCore_min]
        simp [capHi, hnl]
    · exact ⟨fun _ => lo, fun _ _ _ => le_refl _, by simp [stretchList, hp],
        fun _ _ => ⟨le_refl _, h⟩, fun _ _ _ => rfl⟩

end Mahotas.C20
