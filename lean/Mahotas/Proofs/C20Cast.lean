/-
C20 (round 3) — the final cast of `stretch` for integer output dtypes: truncation towards zero
(`truncQ`, the exact counterpart of the driver's `truncF`) of a value already capped to `[lo, hi]`.
-/
import Mahotas.Proofs.C20
namespace Mahotas.C20
open Mahotas

/-- truncation towards zero is non-decreasing -/
theorem truncQ_mono {x y : Rat} (h : x ≤ y) : truncQ x ≤ truncQ y := by
  unfold truncQ
  by_cases hx : 0 ≤ x
  · have hy : 0 ≤ y := le_trans hx h
    rw [if_pos hx, if_pos hy]
    exact Rat.floor_monotone h
  · rw [if_neg hx]
    have hx' : (0 : Rat) ≤ -x := by linarith [not_le.mp hx]
    have h0 : (0 : Int) ≤ (-x).floor := Rat.le_floor_iff.mpr (by exact_mod_cast hx')
    by_cases hy : 0 ≤ y
    · rw [if_pos hy]
      have h1 : (0 : Int) ≤ y.floor := Rat.le_floor_iff.mpr (by exact_mod_cast hy)
      omega
    · rw [if_neg hy]
      have : (-y).floor ≤ (-x).floor := Rat.floor_monotone (by linarith)
      omega

/-- integers are fixed points of the truncation -/
theorem truncQ_intCast (n : Int) : truncQ (n : Rat) = n := by
  unfold truncQ
  by_cases h : (0 : Rat) ≤ (n : Rat)
  · rw [if_pos h, Rat.floor_intCast]
  · rw [if_neg h]
    have : (-(n : Rat)) = ((-n : Int) : Rat) := by push_cast; ring
    rw [this, Rat.floor_intCast]
    omega

/-- a value inside an interval with integer end points stays inside after truncation -/
theorem truncQ_range {lo hi : Int} {q : Rat} (h1 : (lo : Rat) ≤ q) (h2 : q ≤ (hi : Rat)) :
    lo ≤ truncQ q ∧ truncQ q ≤ hi := by
  have a := truncQ_mono h1
  have b := truncQ_mono h2
  rw [truncQ_intCast] at a b
  exact ⟨a, b⟩

/-- `stretch` with an integer output dtype, over ℚ: the truncated image is `map G` for a non-decreasing
    `G : ℚ → ℤ`, with values in `[lo, hi]`, minimal pixels ↦ `lo` -/
theorem stretch_int_cast (xs : List Rat) (lo hi : Int) (h : lo ≤ hi) :
    ∃ G : Rat → Int, (∀ x y, x ≤ y → G x ≤ G y) ∧
      (stretchList xs (lo : Rat) (hi : Rat)).map truncQ = xs.map G ∧
      (∀ x ∈ xs, lo ≤ G x ∧ G x ≤ hi) ∧ (∀ m ∈ xs, (∀ x ∈ xs, m ≤ x) → G m = lo) := by
  obtain ⟨g, gm, ge, gr, gmin⟩ := stretchList_spec xs (lo : Rat) (hi : Rat) (by exact_mod_cast h)
  refine ⟨fun x => truncQ (g x), fun x y hxy => truncQ_mono (gm x y hxy), ?_, ?_, ?_⟩
  · rw [ge, List.map_map]; rfl
  · intro x hx
    exact truncQ_range (gr x hx).1 (gr x hx).2
  · intro m hm hmin
    show truncQ (g m) = lo
    rw [gmin m hm hmin, truncQ_intCast]

end Mahotas.C20
