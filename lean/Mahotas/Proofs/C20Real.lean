/-
C20 (round 2) — the transfer functions over the reals.

The generic definitions of `Model/C20.lean` (`srgbToLinearG`, `labFG`, `rgb2xyzG`, `xyz2labG`: the ones the
driver runs at `Float` with `Float.pow`) are instantiated here at `ℝ` with `Real.rpow` and the exact
rationals `…Q` of the extracted decimal literals.
-/
import Mahotas.Model.C20
import Mathlib.Analysis.SpecialFunctions.Pow.Real
import Mathlib.Tactic.NormNum
import Mathlib.Tactic.Linarith
import Mathlib.Tactic.Positivity
import Mathlib.Tactic.Ring
import Mathlib.Tactic.FieldSimp
namespace Mahotas.C20
open Mahotas Mahotas.Generated

noncomputable section

/-- the integer literals of `colors.py` at `ℝ` -/
def litsR : Lits ℝ := ⟨1, 3, 4, 6, 29, 16, 116, 200, 500⟩

/-- a table of rationals read as reals -/
def castM (m : List (List Rat)) : List (List ℝ) := m.map (fun r => r.map (fun q => (q : ℝ)))

/-! ## sRGB decoding -/

/-- the model's sRGB decoding (`srgbToLinearG`, selections and constants as extracted) at `ℝ` -/
def srgbR (c : ℝ) : ℝ :=
  srgbToLinearG Real.rpow litsR.one (srgbScaleQ : ℝ) (srgbAQ : ℝ) (srgbGammaQ : ℝ) (srgbSlopeQ : ℝ)
    (srgbKneeQ : ℝ) fwdLowWhenBelow c

theorem srgbR_eq (c : ℝ) :
    srgbR c = if c / 255 ≤ 809 / 20000 then c / 255 / (323 / 25)
      else ((c / 255 + 11 / 200) / (1 + 11 / 200)) ^ ((12 : ℝ) / 5) := by
  simp only [srgbR, srgbToLinearG, litsR, fwdLowWhenBelow, srgbScaleQ, srgbAQ, srgbGammaQ, srgbSlopeQ,
    srgbKneeQ, if_true]
  push_cast
  simp only [div_one, Real.rpow_eq_pow]

/-- `q ≤ b^(12/5)` follows from the rational inequality `q⁵ ≤ b¹²` -/
theorem le_rpow_twelve_fifths {q b : ℝ} (hq : 0 ≤ q) (hb : 0 ≤ b) (h : q ^ 5 ≤ b ^ 12) :
    q ≤ b ^ ((12 : ℝ) / 5) := by
  have e1 : b ^ ((12 : ℝ) / 5) = (b ^ 12) ^ ((5 : ℝ)⁻¹) := by
    rw [show ((12 : ℝ) / 5) = ((12 : ℕ) : ℝ) * (5 : ℝ)⁻¹ by norm_num, Real.rpow_mul hb, Real.rpow_natCast]
  have e2 : q = (q ^ 5) ^ ((5 : ℝ)⁻¹) := by
    have := Real.pow_rpow_inv_natCast hq (n := 5) (by norm_num)
    simpa using this.symm
  rw [e1, e2]
  exact Real.rpow_le_rpow (by positivity) h (by norm_num)

/-- the linear segment is strictly increasing -/
theorem srgbR_low_strict {c c' : ℝ} (h : c < c') (hk : c' / 255 ≤ 809 / 20000) : srgbR c < srgbR c' := by
  have hk' : c / 255 ≤ 809 / 20000 := by linarith
  rw [srgbR_eq, srgbR_eq, if_pos hk, if_pos hk']
  linarith

/-- the power-law segment is strictly increasing -/
theorem srgbR_high_strict {c c' : ℝ} (h : c < c') (hk : 809 / 20000 < c / 255) : srgbR c < srgbR c' := by
  have hk' : ¬ c' / 255 ≤ 809 / 20000 := by
    have : c / 255 < c' / 255 := by linarith
    linarith
  rw [srgbR_eq, srgbR_eq, if_neg hk', if_neg (not_le.2 hk)]
  apply Real.rpow_lt_rpow
  · apply div_nonneg <;> linarith
  · apply div_lt_div_of_pos_right _ (by norm_num)
    linarith
  · norm_num

/-- across the knee: the end of the linear segment lies below the start of the power-law segment
    (`0.04045/12.92 ≤ ((0.04045+0.055)/1.055)^2.4`, from the rational inequality between the 5th and
    12th powers) -/
theorem srgbR_knee : (809 / 20000 : ℝ) / (323 / 25) ≤ (((809 / 20000 : ℝ) + 11 / 200) / (1 + 11 / 200)) ^ ((12 : ℝ) / 5) := by
  apply le_rpow_twelve_fifths
  · norm_num
  · norm_num
  · norm_num

/-- **the sRGB decoding is strictly increasing on the whole real line** (both segments and the knee) -/
theorem srgbR_strictMono : StrictMono srgbR := by
  intro c c' h
  by_cases hk' : c' / 255 ≤ 809 / 20000
  · exact srgbR_low_strict h hk'
  · by_cases hk : c / 255 ≤ 809 / 20000
    · rw [srgbR_eq, srgbR_eq, if_pos hk, if_neg hk']
      have h1 : c / 255 / (323 / 25) ≤ (809 / 20000 : ℝ) / (323 / 25) := by linarith
      have h2 : (((809 / 20000 : ℝ) + 11 / 200) / (1 + 11 / 200)) ^ ((12 : ℝ) / 5) <
          ((c' / 255 + 11 / 200) / (1 + 11 / 200)) ^ ((12 : ℝ) / 5) := by
        apply Real.rpow_lt_rpow
        · norm_num
        · apply div_lt_div_of_pos_right _ (by norm_num)
          linarith [not_le.1 hk']
        · norm_num
      linarith [srgbR_knee]
    · exact srgbR_high_strict h (not_le.1 hk)

theorem srgbR_zero : srgbR 0 = 0 := by
  rw [srgbR_eq, if_pos (by norm_num)]; norm_num

theorem srgbR_255 : srgbR 255 = 1 := by
  rw [srgbR_eq, if_neg (by norm_num)]
  have : (((255 : ℝ) / 255 + 11 / 200) / (1 + 11 / 200)) = 1 := by norm_num
  rw [this, Real.one_rpow]

/-! ## rgb2xyz over the reals -/

/-- the model's `rgb2xyz` (`rgb2xyzG`: transfer function on each channel, then the extracted matrix) at `ℝ` -/
def rgb2xyzR (rgb : List ℝ) : List ℝ := rgb2xyzG (castM rgb2xyzMQ) srgbR rgb

theorem rgb2xyzR_eq (r g b : ℝ) :
    rgb2xyzR [r, g, b] =
      [(1031 : ℝ) / 2500 * srgbR r + ((447 : ℝ) / 1250 * srgbR g + ((361 : ℝ) / 2000 * srgbR b + 0)),
       (1063 : ℝ) / 5000 * srgbR r + ((447 : ℝ) / 625 * srgbR g + ((361 : ℝ) / 5000 * srgbR b + 0)),
       (193 : ℝ) / 10000 * srgbR r + ((149 : ℝ) / 1250 * srgbR g + ((1901 : ℝ) / 2000 * srgbR b + 0))] := by
  simp [rgb2xyzR, rgb2xyzG, castM, matVec, dot, rgb2xyzMQ]

theorem rgb2xyzR_mono {r g b r' g' b' : ℝ} (hr : r ≤ r') (hg : g ≤ g') (hb : b ≤ b') :
    List.Forall₂ (· ≤ ·) (rgb2xyzR [r, g, b]) (rgb2xyzR [r', g', b']) := by
  rw [rgb2xyzR_eq, rgb2xyzR_eq]
  have h1 := srgbR_strictMono.monotone hr
  have h2 := srgbR_strictMono.monotone hg
  have h3 := srgbR_strictMono.monotone hb
  refine List.Forall₂.cons ?_ (List.Forall₂.cons ?_ (List.Forall₂.cons ?_ List.Forall₂.nil)) <;> linarith

/-! ## the CIE L*a*b* helper `f` -/

/-- the model's `f` (`labFG`, selection, `δ` and exponent as extracted) at `ℝ` -/
def labFR (t : ℝ) : ℝ :=
  labFG Real.rpow (fun n => (n : ℝ)) litsR (labDeltaNumQ : ℝ) (labDeltaDenQ : ℝ) labSmallWhenBelow labKneeExp t

theorem labFR_eq (t : ℝ) :
    labFR t = if t ≤ (6 / 29 : ℝ) ^ 3 then (1 / 3 * (29 / 6) * (29 / 6)) * t + 4 / 29 else t ^ ((3 : ℝ)⁻¹) := by
  simp only [labFR, labFG, litsR, labSmallWhenBelow, labKneeExp, labDeltaNumQ, labDeltaDenQ, if_true]
  push_cast
  simp only [div_one, Real.rpow_eq_pow, one_div]
  rw [show ((3 : ℝ)) = ((3 : ℕ) : ℝ) by norm_num, Real.rpow_natCast]

/-- continuity at the knee, exactly: the linear branch at `δ³` is `δ`, the cube root of the knee -/
theorem lab_knee_linear : (1 / 3 * (29 / 6) * (29 / 6)) * (6 / 29 : ℝ) ^ 3 + 4 / 29 = 6 / 29 := by norm_num

theorem lab_knee_root : ((6 / 29 : ℝ) ^ 3) ^ ((3 : ℝ)⁻¹) = 6 / 29 := by
  have := Real.pow_rpow_inv_natCast (show (0 : ℝ) ≤ 6 / 29 by norm_num) (n := 3) (by norm_num)
  simpa using this

/-- **`f` is non-decreasing on the whole real line**: both branches increase and they meet at the knee -/
theorem labFR_mono : Monotone labFR := by
  intro t t' h
  have hK : (0 : ℝ) < (6 / 29 : ℝ) ^ 3 := by norm_num
  by_cases hk' : t' ≤ (6 / 29 : ℝ) ^ 3
  · have hk : t ≤ (6 / 29 : ℝ) ^ 3 := le_trans h hk'
    rw [labFR_eq, labFR_eq, if_pos hk, if_pos hk']
    linarith
  · by_cases hk : t ≤ (6 / 29 : ℝ) ^ 3
    · rw [labFR_eq, labFR_eq, if_pos hk, if_neg hk']
      have h1 : (1 / 3 * (29 / 6) * (29 / 6)) * t + 4 / 29 ≤ (6 / 29 : ℝ) := by
        rw [← lab_knee_linear]; linarith
      have h2 : (6 / 29 : ℝ) ≤ t' ^ ((3 : ℝ)⁻¹) := by
        rw [← lab_knee_root]
        exact Real.rpow_le_rpow (le_of_lt hK) (le_of_lt (not_le.1 hk')) (by norm_num)
      linarith
    · rw [labFR_eq, labFR_eq, if_neg hk, if_neg hk']
      exact Real.rpow_le_rpow (le_of_lt (lt_trans hK (not_le.1 hk))) h (by norm_num)

theorem labFR_one : labFR 1 = 1 := by
  rw [labFR_eq, if_neg (by norm_num), Real.one_rpow]

/-! ## xyz2lab over the reals -/

/-- the model's `xyz2lab` (`xyz2labG` with the extracted white point) at `ℝ` -/
def xyz2labR (xyz : List ℝ) : List ℝ := xyz2labG labFR litsR (labWhiteQ.map (fun q => (q : ℝ))) xyz

theorem xyz2labR_eq (x y z : ℝ) :
    xyz2labR [x, y, z] =
      [116 * labFR (y / 1) - 16, 500 * (labFR (x / (95047 / 100000)) - labFR (y / 1)),
       200 * (labFR (y / 1) - labFR (z / (108883 / 100000)))] := by
  simp [xyz2labR, xyz2labG, litsR, labWhiteQ]

/-- `a* = b* = 0` for every grey when the matrix rows sum to the white point: generic in the matrix,
    the white point, the helper `f` and the grey level -/
theorem xyz2labG_grey (f : ℝ → ℝ) (m11 m12 m13 m21 m22 m23 m31 m32 m33 xn yn zn s : ℝ)
    (hx : m11 + m12 + m13 = xn) (hy : m21 + m22 + m23 = yn) (hz : m31 + m32 + m33 = zn)
    (hxn : xn ≠ 0) (hyn : yn ≠ 0) (hzn : zn ≠ 0) :
    xyz2labG f litsR [xn, yn, zn] (matVec [[m11, m12, m13], [m21, m22, m23], [m31, m32, m33]] [s, s, s]) =
      [116 * f s - 16, 0, 0] := by
  have e1 : (m11 * s + (m12 * s + (m13 * s + 0))) / xn = s := by
    rw [← hx] at hxn ⊢; field_simp; ring
  have e2 : (m21 * s + (m22 * s + (m23 * s + 0))) / yn = s := by
    rw [← hy] at hyn ⊢; field_simp; ring
  have e3 : (m31 * s + (m32 * s + (m33 * s + 0))) / zn = s := by
    rw [← hz] at hzn ⊢; field_simp; ring
  simp only [xyz2labG, matVec, dot, List.map_cons, List.map_nil, litsR, e1, e2, e3, sub_self, mul_zero]

/-! ## the actual white-point mismatch (4-digit matrix, 5-digit white point) -/

/-- `u^(1/3) ≤ v` from `u ≤ v³` -/
theorem rpow_third_le {u v : ℝ} (hu : 0 ≤ u) (hv : 0 ≤ v) (h : u ≤ v ^ 3) : u ^ ((3 : ℝ)⁻¹) ≤ v := by
  have e : (v ^ 3) ^ ((3 : ℝ)⁻¹) = v := by
    have := Real.pow_rpow_inv_natCast hv (n := 3) (by norm_num)
    simpa using this
  calc u ^ ((3 : ℝ)⁻¹) ≤ (v ^ 3) ^ ((3 : ℝ)⁻¹) := Real.rpow_le_rpow hu h (by norm_num)
    _ = v := e

/-- relative perturbation of the argument: for a linear grey level `0 ≤ s ≤ 1` and `ε ≥ 0`,
    `0 ≤ f(s(1+ε)) − f(s) ≤ ε/3` (cube-root branch: `(1+ε)^(1/3) ≤ 1+ε/3`; linear branch: slope
    `·δ³ = δ/3 = 2/29`; across the knee: the tangent of the cube root at the knee is the linear branch) -/
theorem labFR_rel_bound {s ε : ℝ} (hs0 : 0 ≤ s) (hs1 : s ≤ 1) (hε : 0 ≤ ε) :
    labFR s ≤ labFR (s * (1 + ε)) ∧ labFR (s * (1 + ε)) - labFR s ≤ ε / 3 := by
  have hsε : 0 ≤ s * ε := mul_nonneg hs0 hε
  refine ⟨labFR_mono (by nlinarith), ?_⟩
  have hKv : (6 / 29 : ℝ) ^ 3 = 216 / 24389 := by norm_num
  by_cases hk' : s * (1 + ε) ≤ (6 / 29 : ℝ) ^ 3
  · -- both on the linear branch
    have hk : s ≤ (6 / 29 : ℝ) ^ 3 := by nlinarith
    rw [labFR_eq, labFR_eq, if_pos hk, if_pos hk']
    rw [hKv] at hk
    have : s * ε ≤ 216 / 24389 * ε := mul_le_mul_of_nonneg_right hk hε
    nlinarith
  · by_cases hk : s ≤ (6 / 29 : ℝ) ^ 3
    · -- across the knee
      rw [labFR_eq, labFR_eq, if_pos hk, if_neg hk']
      rw [hKv] at hk hk'
      have hu : (216 / 24389 : ℝ) < s * (1 + ε) := not_le.1 hk'
      have hw : 0 ≤ 841 / 108 * (s * (1 + ε) - 216 / 24389) := by nlinarith
      have hroot : (s * (1 + ε)) ^ ((3 : ℝ)⁻¹) ≤ 6 / 29 + 841 / 108 * (s * (1 + ε) - 216 / 24389) := by
        apply rpow_third_le (by linarith) (by linarith)
        have e : ((6 / 29 : ℝ) + 841 / 108 * (s * (1 + ε) - 216 / 24389)) ^ 3 =
            s * (1 + ε) + 3 * (6 / 29) * (841 / 108 * (s * (1 + ε) - 216 / 24389)) ^ 2 +
              (841 / 108 * (s * (1 + ε) - 216 / 24389)) ^ 3 := by ring
        rw [e]
        have p2 : 0 ≤ (841 / 108 * (s * (1 + ε) - 216 / 24389)) ^ 2 := by positivity
        have p3 : 0 ≤ (841 / 108 * (s * (1 + ε) - 216 / 24389)) ^ 3 := pow_nonneg hw 3
        linarith
      have : s * ε ≤ 216 / 24389 * ε := mul_le_mul_of_nonneg_right hk hε
      nlinarith
    · -- both on the cube-root branch
      rw [labFR_eq, labFR_eq, if_neg hk, if_neg hk']
      have h1ε : (0 : ℝ) ≤ 1 + ε := by linarith
      rw [Real.mul_rpow hs0 h1ε]
      have hA0 : 0 ≤ s ^ ((3 : ℝ)⁻¹) := Real.rpow_nonneg hs0 _
      have hA1 : s ^ ((3 : ℝ)⁻¹) ≤ 1 := Real.rpow_le_one hs0 hs1 (by norm_num)
      have hB : (1 + ε) ^ ((3 : ℝ)⁻¹) ≤ 1 + ε / 3 := by
        apply rpow_third_le h1ε (by linarith)
        have e : (1 + ε / 3) ^ 3 = 1 + ε + ε ^ 2 / 3 + ε ^ 3 / 27 := by ring
        rw [e]
        have p2 : 0 ≤ ε ^ 2 := by positivity
        have p3 : 0 ≤ ε ^ 3 := pow_nonneg hε 3
        linarith
      have m1 : s ^ ((3 : ℝ)⁻¹) * (1 + ε) ^ ((3 : ℝ)⁻¹) ≤ s ^ ((3 : ℝ)⁻¹) * (1 + ε / 3) :=
        mul_le_mul_of_nonneg_left hB hA0
      have m2 : s ^ ((3 : ℝ)⁻¹) * (ε / 3) ≤ 1 * (ε / 3) :=
        mul_le_mul_of_nonneg_right hA1 (by linarith)
      nlinarith

/-- exact rational form of the mismatch: the `X` and `Z` row sums over the white point used by `xyz2lab` -/
theorem white_mismatch :
    ((9505 : ℝ) / 10000) / (95047 / 100000) = 1 + 3 / 95047 ∧
    ((1089 : ℝ) / 1000) / (108883 / 100000) = 1 + 17 / 108883 := by
  constructor <;> norm_num

/-- `rgb2lab` of a grey with linear level `s` (the model over `ℝ`: extracted matrix, extracted white
    point): `L* = 116 f(s) − 16`, `0 ≤ a* ≤ 500/95047 (≈ 0.00526)`, `−3400/326649 (≈ −0.01041) ≤ b* ≤ 0` -/
theorem lab_grey_bound {s : ℝ} (hs0 : 0 ≤ s) (hs1 : s ≤ 1) :
    ∃ a b : ℝ, xyz2labR (matVec (castM rgb2xyzMQ) [s, s, s]) = [116 * labFR s - 16, a, b] ∧
      0 ≤ a ∧ a ≤ 500 / 95047 ∧ -(3400 / 326649) ≤ b ∧ b ≤ 0 := by
  have hm : matVec (castM rgb2xyzMQ) [s, s, s] =
      [(9505 : ℝ) / 10000 * s, 1 * s, (1089 : ℝ) / 1000 * s] := by
    simp [castM, matVec, dot, rgb2xyzMQ]
    refine ⟨?_, ?_, ?_⟩ <;> ring
  rw [hm, xyz2labR_eq]
  have ex : (9505 : ℝ) / 10000 * s / (95047 / 100000) = s * (1 + 3 / 95047) := by
    field_simp; ring
  have ez : (1089 : ℝ) / 1000 * s / (108883 / 100000) = s * (1 + 17 / 108883) := by
    field_simp; ring
  have ey : 1 * s / 1 = s := by ring
  rw [ex, ez, ey]
  obtain ⟨x1, x2⟩ := labFR_rel_bound hs0 hs1 (show (0 : ℝ) ≤ 3 / 95047 by norm_num)
  obtain ⟨z1, z2⟩ := labFR_rel_bound hs0 hs1 (show (0 : ℝ) ≤ 17 / 108883 by norm_num)
  refine ⟨_, _, rfl, ?_, ?_, ?_, ?_⟩ <;> linarith

end

end Mahotas.C20
