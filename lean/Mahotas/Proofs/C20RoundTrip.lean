/-
C20 (round 3) — `xyz2rgb ∘ rgb2xyz` over the reals.

The generic definitions `linearToSrgbG` / `xyz2rgbG` of `Model/C20.lean` (run by the driver at `Float` with
`Float.pow` and the extracted `…F` constants) are instantiated at `ℝ` with `Real.rpow` and the exact
rationals `…Q` of the same extracted literals (`encR`, `xyz2rgbR`). The two literals of `xyz2rgb` that the
translator does not extract (`2.4` in `1./2.4`, `255.` in `srgb *= 255.`) are written as their exact
decimals `12/5` and `255`.
-/
import Mahotas.Proofs.C20Real
import Mathlib.Analysis.Convex.SpecificFunctions.Basic
namespace Mahotas.C20
open Mahotas Mahotas.Generated

noncomputable section

/-! ## the encoder at `ℝ` -/

/-- the model's sRGB encoding (`linearToSrgbG`, selection and constants as extracted) at `ℝ` -/
def encR (v : ℝ) : ℝ :=
  linearToSrgbG Real.rpow (srgbOneInvQ : ℝ) (srgbGammaInvQ : ℝ) (srgbAInvQ : ℝ) (srgbSlopeInvQ : ℝ) (srgbKneeInvQ : ℝ)
    (srgbScaleInvQ : ℝ) invLowWhenBelow v

/-- the model's `xyz2rgb` (`xyz2rgbG`: the extracted matrix, then the encoding on each channel) at `ℝ` -/
def xyz2rgbR (xyz : List ℝ) : List ℝ := xyz2rgbG (castM xyz2rgbMQ) encR xyz

theorem encR_eq (v : ℝ) :
    encR v = (if v ≤ 7827 / 2500000 then 323 / 25 * v else (1 + 11 / 200) * v ^ ((5 : ℝ) / 12) - 11 / 200) * 255 := by
  simp only [encR, linearToSrgbG, invLowWhenBelow, srgbAInvQ, srgbSlopeInvQ, srgbKneeInvQ, srgbOneInvQ, srgbGammaInvQ,
    srgbScaleInvQ, if_true]
  push_cast
  simp only [Real.rpow_eq_pow]
  rw [show (1 : ℝ) / 1 / (12 / 5) = 5 / 12 by norm_num, show (1 : ℝ) / 1 = 1 by norm_num,
    show (255 : ℝ) / 1 = 255 by norm_num]

/-- linear branch -/
theorem encR_low {v : ℝ} (h : v ≤ 7827 / 2500000) : encR v = 16473 / 5 * v := by
  rw [encR_eq, if_pos h]; ring

/-- power branch -/
theorem encR_high {v : ℝ} (h : 7827 / 2500000 < v) :
    encR v = ((1 + 11 / 200) * v ^ ((5 : ℝ) / 12) - 11 / 200) * 255 := by
  rw [encR_eq, if_neg (not_le.2 h)]

/-! ## the encoder inverts the decoder (outside the gap between the two knees) -/

/-- `(y^(12/5))^(5/12) = y` for `y ≥ 0` -/
theorem rpow_rpow_inv_gamma {y : ℝ} (hy : 0 ≤ y) : (y ^ ((12 : ℝ) / 5)) ^ ((5 : ℝ) / 12) = y := by
  rw [← Real.rpow_mul hy, show ((12 : ℝ) / 5) * (5 / 12) = 1 by norm_num, Real.rpow_one]

/-- decoder and encoder both on their linear segments: `c/255 ≤ 12.92 · 0.0031308` -/
theorem encR_srgbR_low {c : ℝ} (h : c / 255 ≤ 323 / 25 * (7827 / 2500000)) : encR (srgbR c) = c := by
  have h1 : c / 255 ≤ 809 / 20000 := by linarith
  rw [srgbR_eq, if_pos h1]
  have h2 : c / 255 / (323 / 25) ≤ 7827 / 2500000 := by
    rw [div_le_iff₀ (by norm_num)]; linarith
  rw [encR_low h2]
  field_simp
  ring

/-- above the decoder's knee the decoded value lies above the encoder's knee -/
theorem srgbR_above_knee {c : ℝ} (h : 809 / 20000 < c / 255) : 7827 / 2500000 < srgbR c := by
  have hc : 255 * (809 / 20000 : ℝ) < c := by
    have := (lt_div_iff₀ (show (0 : ℝ) < 255 by norm_num)).1 h
    linarith
  have h0 : srgbR (255 * (809 / 20000)) = (809 / 20000 : ℝ) / (323 / 25) := by
    rw [srgbR_eq, if_pos (by norm_num)]
    norm_num
  have := srgbR_strictMono hc
  rw [h0] at this
  have e : (7827 / 2500000 : ℝ) < (809 / 20000 : ℝ) / (323 / 25) := by norm_num
  linarith

/-- decoder and encoder both on their power segments: `c/255 > 0.04045` -/
theorem encR_srgbR_high {c : ℝ} (h : 809 / 20000 < c / 255) : encR (srgbR c) = c := by
  rw [encR_high (srgbR_above_knee h), srgbR_eq, if_neg (not_le.2 h)]
  have hy : 0 ≤ (c / 255 + 11 / 200) / (1 + 11 / 200 : ℝ) := by
    apply div_nonneg <;> linarith
  rw [rpow_rpow_inv_gamma hy]
  field_simp
  ring

/-- the gap between the knees, `12.92·0.0031308 < c/255 ≤ 0.04045` (`10.31473 < c ≤ 10.31475`), contains no
    integer: on the whole lattice of integer channel values the encoder inverts the decoder exactly -/
theorem encR_srgbR_nat (k : Nat) : encR (srgbR (k : ℝ)) = (k : ℝ) := by
  by_cases hk : k ≤ 10
  · apply encR_srgbR_low
    have : (k : ℝ) ≤ 10 := by exact_mod_cast hk
    rw [div_le_iff₀ (by norm_num)]
    linarith
  · apply encR_srgbR_high
    have : (11 : ℝ) ≤ (k : ℝ) := by exact_mod_cast (by omega : 11 ≤ k)
    rw [lt_div_iff₀ (by norm_num)]
    linarith

/-! ## Lipschitz constants of the two branches -/

/-- `q^(5/12) ≤ u` follows from `q⁵ ≤ u¹²` -/
theorem rpow_five_twelfths_le {q u : ℝ} (hq : 0 ≤ q) (hu : 0 ≤ u) (h : q ^ 5 ≤ u ^ 12) :
    q ^ ((5 : ℝ) / 12) ≤ u := by
  have e1 : q ^ ((5 : ℝ) / 12) = (q ^ 5) ^ ((12 : ℝ)⁻¹) := by
    rw [show ((5 : ℝ) / 12) = ((5 : ℕ) : ℝ) * (12 : ℝ)⁻¹ by norm_num, Real.rpow_mul hq, Real.rpow_natCast]
  have e2 : u = (u ^ 12) ^ ((12 : ℝ)⁻¹) := by
    have := Real.pow_rpow_inv_natCast hu (n := 12) (by norm_num)
    simpa using this.symm
  rw [e1, e2]
  exact Real.rpow_le_rpow (by positivity) h (by norm_num)

/-- above the encoder's knee `x^(5/12) ≤ (31008/1055)·x` (i.e. `(5/12)·x^(−7/12) ≤ 12.92/1.055`), from the
    rational inequality `1 ≤ (31008/1055)¹² · 0.0031308⁷` -/
theorem rpow_le_mul_above_knee {x : ℝ} (hx : 7827 / 2500000 ≤ x) : x ^ ((5 : ℝ) / 12) ≤ 31008 / 1055 * x := by
  have hx0 : 0 ≤ x := le_trans (by norm_num) hx
  apply rpow_five_twelfths_le hx0 (by positivity)
  have h7 : (7827 / 2500000 : ℝ) ^ 7 ≤ x ^ 7 := pow_le_pow_left₀ (by norm_num) hx 7
  have hc : (1 : ℝ) ≤ (31008 / 1055) ^ 12 * (7827 / 2500000) ^ 7 := by norm_num
  have h1 : (1 : ℝ) ≤ (31008 / 1055) ^ 12 * x ^ 7 :=
    le_trans hc (mul_le_mul_of_nonneg_left h7 (by positivity))
  have e : (31008 / 1055 * x) ^ 12 = x ^ 5 * ((31008 / 1055) ^ 12 * x ^ 7) := by ring
  rw [e]
  exact le_mul_of_one_le_right (by positivity) h1

/-- the power `t ↦ t^(5/12)` above the encoder's knee: increasing, with slope at most `12.92/1.055` -/
theorem rpow_five_twelfths_lip {x y : ℝ} (hx : 7827 / 2500000 ≤ x) (hxy : x ≤ y) :
    0 ≤ y ^ ((5 : ℝ) / 12) - x ^ ((5 : ℝ) / 12) ∧
      y ^ ((5 : ℝ) / 12) - x ^ ((5 : ℝ) / 12) ≤ 2584 / 211 * (y - x) := by
  have hx0 : 0 < x := lt_of_lt_of_le (by norm_num) hx
  constructor
  · have := Real.rpow_le_rpow (le_of_lt hx0) hxy (show (0 : ℝ) ≤ 5 / 12 by norm_num)
    linarith
  · have hu : 0 ≤ (y - x) / x := div_nonneg (by linarith) (le_of_lt hx0)
    have ey : y = x * (1 + (y - x) / x) := by field_simp; ring
    have hB : (1 + (y - x) / x) ^ ((5 : ℝ) / 12) ≤ 1 + 5 / 12 * ((y - x) / x) :=
      rpow_one_add_le_one_add_mul_self (by linarith) (by norm_num) (by norm_num)
    have hxp : 0 ≤ x ^ ((5 : ℝ) / 12) := Real.rpow_nonneg (le_of_lt hx0) _
    have h1 : y ^ ((5 : ℝ) / 12) = x ^ ((5 : ℝ) / 12) * (1 + (y - x) / x) ^ ((5 : ℝ) / 12) := by
      conv_lhs => rw [ey]
      exact Real.mul_rpow (le_of_lt hx0) (by linarith)
    have h2 : y ^ ((5 : ℝ) / 12) ≤ x ^ ((5 : ℝ) / 12) * (1 + 5 / 12 * ((y - x) / x)) := by
      rw [h1]; exact mul_le_mul_of_nonneg_left hB hxp
    have h3 : x ^ ((5 : ℝ) / 12) * ((y - x) / x) ≤ 31008 / 1055 * x * ((y - x) / x) :=
      mul_le_mul_of_nonneg_right (rpow_le_mul_above_knee hx) hu
    have h4 : 31008 / 1055 * x * ((y - x) / x) = 31008 / 1055 * (y - x) := by
      field_simp
    nlinarith

/-- the encoder on its power branch is Lipschitz with the slope `12.92·255 = 3294.6` of the linear branch -/
theorem encR_high_lip {x y : ℝ} (hx : 7827 / 2500000 < x) (hy : 7827 / 2500000 < y) :
    |encR x - encR y| ≤ 16473 / 5 * |x - y| := by
  rw [encR_high hx, encR_high hy]
  rcases le_total x y with h | h
  · obtain ⟨a, b⟩ := rpow_five_twelfths_lip (le_of_lt hx) h
    rw [abs_of_nonpos (by nlinarith), abs_of_nonpos (by linarith)]
    nlinarith
  · obtain ⟨a, b⟩ := rpow_five_twelfths_lip (le_of_lt hy) h
    rw [abs_of_nonneg (by nlinarith), abs_of_nonneg (by linarith)]
    nlinarith

/-- the encoder on its linear branch has slope exactly `3294.6` -/
theorem encR_low_lip {x y : ℝ} (hx : x ≤ 7827 / 2500000) (hy : y ≤ 7827 / 2500000) :
    |encR x - encR y| = 16473 / 5 * |x - y| := by
  rw [encR_low hx, encR_low hy, ← mul_sub, abs_mul, abs_of_nonneg (by norm_num : (0 : ℝ) ≤ 16473 / 5)]

/-! ## the matrix part: `M⁻¹ M = I + D` with the extracted 4-digit matrices -/

theorem matRoundTrip_eq (s1 s2 s3 : ℝ) :
    matVec (castM xyz2rgbMQ) (matVec (castM rgb2xyzMQ) [s1, s2, s3]) =
      [s1 + (-(413 / 50000000) * s1 + 579 / 25000000 * s3),
       s2 + (2167 / 100000000 * s1 + 63 / 1562500 * s2 + -(397 / 50000000) * s3),
       s3 + (19 / 50000000 * s1 + 149 / 12500000 * s2 + 71 / 20000000 * s3)] := by
  simp [castM, matVec, dot, xyz2rgbMQ, rgb2xyzMQ]
  refine ⟨?_, ?_, ?_⟩ <;> ring

/-- linear values in `[0,1]` come back within the absolute row sums of `M⁻¹M − I`
    (`1571/50000000`, `6993/100000000`, `317/20000000`: the entries of `inverseDefect`, all `≤ 7·10⁻⁵`) -/
theorem matRoundTrip_bound {s1 s2 s3 : ℝ} (h1 : 0 ≤ s1 ∧ s1 ≤ 1) (h2 : 0 ≤ s2 ∧ s2 ≤ 1) (h3 : 0 ≤ s3 ∧ s3 ≤ 1) :
    ∃ t1 t2 t3 : ℝ, matVec (castM xyz2rgbMQ) (matVec (castM rgb2xyzMQ) [s1, s2, s3]) = [t1, t2, t3] ∧
      |t1 - s1| ≤ 1571 / 50000000 ∧ |t2 - s2| ≤ 6993 / 100000000 ∧ |t3 - s3| ≤ 317 / 20000000 := by
  refine ⟨_, _, _, matRoundTrip_eq s1 s2 s3, ?_, ?_, ?_⟩ <;>
    (rw [abs_le]; constructor <;> linarith [h1.1, h1.2, h2.1, h2.2, h3.1, h3.2])

theorem srgbR_unit {c : ℝ} (h0 : 0 ≤ c) (h1 : c ≤ 255) : 0 ≤ srgbR c ∧ srgbR c ≤ 1 := by
  constructor
  · rw [← srgbR_zero]; exact srgbR_strictMono.monotone h0
  · rw [← srgbR_255]; exact srgbR_strictMono.monotone h1

theorem roundTrip_unfold (enc : ℝ → ℝ) (r g b : ℝ) :
    xyz2rgbG (castM xyz2rgbMQ) enc (rgb2xyzR [r, g, b]) =
      (matVec (castM xyz2rgbMQ) (matVec (castM rgb2xyzMQ) [srgbR r, srgbR g, srgbR b])).map enc := rfl

/-! ## (a) any encoder that inverts the decoder at the pixel and is Lipschitz around its linear values -/

/-- For **any** encoder `enc` that is `L`-Lipschitz on an interval `[lo, hi]`, and any pixel `(r,g,b)` in
    `[0,255]³` whose decoded channels `T(c)` lie in `[lo + 7·10⁻⁵, hi − 7·10⁻⁵]` and are inverted by `enc`
    (`enc (T c) = c`): the round trip through the extracted matrices returns every channel within `L` times
    the corresponding row sum of `|M⁻¹M − I|` (each `≤ 7·10⁻⁵`). -/
theorem roundTrip_any_encoder (enc : ℝ → ℝ) (L lo hi : ℝ)
    (hlip : ∀ x y : ℝ, lo ≤ x → x ≤ hi → lo ≤ y → y ≤ hi → |enc x - enc y| ≤ L * |x - y|)
    {r g b : ℝ} (hr : 0 ≤ r ∧ r ≤ 255) (hg : 0 ≤ g ∧ g ≤ 255) (hb : 0 ≤ b ∧ b ≤ 255)
    (ir : enc (srgbR r) = r ∧ lo + 7 / 100000 ≤ srgbR r ∧ srgbR r + 7 / 100000 ≤ hi)
    (ig : enc (srgbR g) = g ∧ lo + 7 / 100000 ≤ srgbR g ∧ srgbR g + 7 / 100000 ≤ hi)
    (ib : enc (srgbR b) = b ∧ lo + 7 / 100000 ≤ srgbR b ∧ srgbR b + 7 / 100000 ≤ hi) :
    ∃ r' g' b' : ℝ, xyz2rgbG (castM xyz2rgbMQ) enc (rgb2xyzR [r, g, b]) = [r', g', b'] ∧
      |r' - r| ≤ L * (1571 / 50000000) ∧ |g' - g| ≤ L * (6993 / 100000000) ∧
      |b' - b| ≤ L * (317 / 20000000) := by
  obtain ⟨t1, t2, t3, e, b1, b2, b3⟩ :=
    matRoundTrip_bound (srgbR_unit hr.1 hr.2) (srgbR_unit hg.1 hg.2) (srgbR_unit hb.1 hb.2)
  have hL : 0 ≤ L := by
    have hlt : lo < hi := by linarith [ir.2.1, ir.2.2]
    have := hlip lo hi (le_refl _) (le_of_lt hlt) (le_of_lt hlt) (le_refl _)
    have h2 : (0 : ℝ) ≤ |enc lo - enc hi| := abs_nonneg _
    have h3 : 0 < |lo - hi| := abs_pos.2 (by linarith)
    by_contra hneg
    have : L * |lo - hi| < 0 := mul_neg_of_neg_of_pos (not_le.1 hneg) h3
    linarith
  have key : ∀ (c t d : ℝ), d ≤ 7 / 100000 →
      (enc (srgbR c) = c ∧ lo + 7 / 100000 ≤ srgbR c ∧ srgbR c + 7 / 100000 ≤ hi) →
      |t - srgbR c| ≤ d → |enc t - c| ≤ L * d := by
    intro c t d hd ic ht
    obtain ⟨ta, tb⟩ := abs_le.1 ht
    have := hlip t (srgbR c) (by linarith [ic.2.1]) (by linarith [ic.2.2]) (by linarith [ic.2.1])
      (by linarith [ic.2.2])
    rw [ic.1] at this
    exact le_trans this (mul_le_mul_of_nonneg_left ht hL)
  refine ⟨enc t1, enc t2, enc t3, by rw [roundTrip_unfold, e]; rfl, ?_, ?_, ?_⟩
  · exact key r t1 _ (by norm_num) ir b1
  · exact key g t2 _ (by norm_num) ig b2
  · exact key b t3 _ (by norm_num) ib b3

/-! ## (b)+(c) the model's own encoder; the two knees: the encoder's jump and the gap, bounded explicitly -/

/-- `q ≤ u^(5/12)` follows from `q¹² ≤ u⁵` -/
theorem le_rpow_five_twelfths {q u : ℝ} (hq : 0 ≤ q) (hu : 0 ≤ u) (h : q ^ 12 ≤ u ^ 5) :
    q ≤ u ^ ((5 : ℝ) / 12) := by
  have e1 : u ^ ((5 : ℝ) / 12) = (u ^ 5) ^ ((12 : ℝ)⁻¹) := by
    rw [show ((5 : ℝ) / 12) = ((5 : ℕ) : ℝ) * (12 : ℝ)⁻¹ by norm_num, Real.rpow_mul hu, Real.rpow_natCast]
  have e2 : q = (q ^ 12) ^ ((12 : ℝ)⁻¹) := by
    have := Real.pow_rpow_inv_natCast hq (n := 12) (by norm_num)
    simpa using this.symm
  rw [e1, e2]
  exact Real.rpow_le_rpow (by positivity) h (by norm_num)

/-- the power branch of the encoder, as a function on all of `ℝ` -/
def encHigh (x : ℝ) : ℝ := ((1 + 11 / 200) * x ^ ((5 : ℝ) / 12) - 11 / 200) * 255

theorem encR_high' {v : ℝ} (h : 7827 / 2500000 < v) : encR v = encHigh v := encR_high h

/-- at the encoder's knee `0.0031308` the power branch lies **below** the linear branch (the encoder steps
    down there), by less than `1.02·10⁻⁵` 8-bit units (`≈ 7.3·10⁻⁶`): two rational inequalities between
    12th and 5th powers -/
theorem encHigh_knee :
    16473 / 5 * (7827 / 2500000 : ℝ) - 102 / 10000000 ≤ encHigh (7827 / 2500000) ∧
      encHigh (7827 / 2500000) ≤ 16473 / 5 * (7827 / 2500000 : ℝ) := by
  have hU : (7827 / 2500000 : ℝ) ^ ((5 : ℝ) / 12) ≤ 5965621 / 65937500 := by
    apply rpow_five_twelfths_le <;> norm_num
  have hL : (11931237 / 131875000 : ℝ) ≤ (7827 / 2500000 : ℝ) ^ ((5 : ℝ) / 12) := by
    apply le_rpow_five_twelfths <;> norm_num
  unfold encHigh
  constructor <;> nlinarith

/-- the power branch above the knee: increasing with slope at most `3294.6` -/
theorem encHigh_lip {x y : ℝ} (hx : 7827 / 2500000 ≤ x) (hxy : x ≤ y) :
    encHigh x ≤ encHigh y ∧ encHigh y - encHigh x ≤ 16473 / 5 * (y - x) := by
  obtain ⟨a, b⟩ := rpow_five_twelfths_lip hx hxy
  unfold encHigh
  constructor <;> nlinarith

/-- the power branch of the encoder inverts the power branch of the decoder -/
theorem encHigh_srgbR {c : ℝ} (h : 809 / 20000 < c / 255) : encHigh (srgbR c) = c := by
  rw [← encR_high' (srgbR_above_knee h)]; exact encR_srgbR_high h

/-- one channel, **every** real `c`: a linear value within `d` of `T(c)` (`10⁻⁸ ≤ d`) is encoded within
    `3294.6·d` of `c`. Same branch on both sides: the slope; different branches (only possible for `c` near
    `10.3147`): the power branch lies at most `1.02·10⁻⁵` below the linear one at the knee and the gap
    between the two knees is `255·(0.04045 − 12.92·0.0031308) = 1.632·10⁻⁵`, both far below `3294.6·d`. -/
theorem encR_near_all {c t d : ℝ} (hd0 : 1 / 100000000 ≤ d) (ht : |t - srgbR c| ≤ d) :
    |encR t - c| ≤ 16473 / 5 * d := by
  obtain ⟨ta, tb⟩ := abs_le.1 ht
  obtain ⟨k1, k2⟩ := encHigh_knee
  by_cases hk : c / 255 ≤ 809 / 20000
  · have es : srgbR c = c / 255 / (323 / 25) := by rw [srgbR_eq, if_pos hk]
    have ec : c = 16473 / 5 * srgbR c := by rw [es]; field_simp; ring
    have hs2 : srgbR c ≤ (809 / 20000 : ℝ) / (323 / 25) := by
      rw [es]; exact div_le_div_of_nonneg_right hk (by norm_num)
    by_cases htk : t ≤ 7827 / 2500000
    · rw [encR_low htk, abs_le]
      constructor <;> nlinarith
    · have htk' : 7827 / 2500000 < t := not_le.1 htk
      obtain ⟨m1, m2⟩ := encHigh_lip (le_refl _) (le_of_lt htk')
      rw [encR_high' htk', abs_le]
      have e2 : (16473 / 5 : ℝ) * ((809 / 20000 : ℝ) / (323 / 25)) = 16473 / 5 * (7827 / 2500000) + 1632 / 100000000 := by
        norm_num
      have : 16473 / 5 * srgbR c ≤ 16473 / 5 * ((809 / 20000 : ℝ) / (323 / 25)) :=
        mul_le_mul_of_nonneg_left hs2 (by norm_num)
      constructor <;> nlinarith
  · have hk' : 809 / 20000 < c / 255 := not_le.1 hk
    have hs : 7827 / 2500000 < srgbR c := srgbR_above_knee hk'
    have ec := encHigh_srgbR hk'
    by_cases htk : t ≤ 7827 / 2500000
    · obtain ⟨m1, m2⟩ := encHigh_lip (le_refl _) (le_of_lt hs)
      rw [encR_low htk, abs_le]
      constructor <;> nlinarith
    · have htk' : 7827 / 2500000 < t := not_le.1 htk
      have := encR_high_lip htk' hs
      rw [encR_srgbR_high hk'] at this
      exact le_trans this (mul_le_mul_of_nonneg_left ht (by norm_num))

/-- round trip with the model's own encoder, every real channel value in `[0,255]` -/
theorem roundTrip_encR_all {r g b : ℝ} (hr : 0 ≤ r ∧ r ≤ 255) (hg : 0 ≤ g ∧ g ≤ 255) (hb : 0 ≤ b ∧ b ≤ 255) :
    ∃ r' g' b' : ℝ, xyz2rgbR (rgb2xyzR [r, g, b]) = [r', g', b'] ∧
      |r' - r| ≤ 16473 / 5 * (1571 / 50000000) ∧ |g' - g| ≤ 16473 / 5 * (6993 / 100000000) ∧
      |b' - b| ≤ 16473 / 5 * (317 / 20000000) := by
  obtain ⟨t1, t2, t3, e, b1, b2, b3⟩ :=
    matRoundTrip_bound (srgbR_unit hr.1 hr.2) (srgbR_unit hg.1 hg.2) (srgbR_unit hb.1 hb.2)
  refine ⟨encR t1, encR t2, encR t3, by rw [xyz2rgbR, roundTrip_unfold, e]; rfl, ?_, ?_, ?_⟩
  · exact encR_near_all (by norm_num) b1
  · exact encR_near_all (by norm_num) b2
  · exact encR_near_all (by norm_num) b3

/-! ## round 4: the sign structure of the defect matrix -/

/-- the sign structure of `D = M⁻¹M − I`: over the box `[0,1]³` the deviation `Σ_j D_ij s_j` lies between the sum of
    the negative and the sum of the positive entries of row `i`; the larger of the two magnitudes is
    `579/25000000` (R), `6199/100000000` (G), `317/20000000` (B) — below the absolute row sums for R and G -/
theorem matRoundTrip_bound_sharp {s1 s2 s3 : ℝ} (h1 : 0 ≤ s1 ∧ s1 ≤ 1) (h2 : 0 ≤ s2 ∧ s2 ≤ 1) (h3 : 0 ≤ s3 ∧ s3 ≤ 1) :
    ∃ t1 t2 t3 : ℝ, matVec (castM xyz2rgbMQ) (matVec (castM rgb2xyzMQ) [s1, s2, s3]) = [t1, t2, t3] ∧
      (-(413 / 50000000) ≤ t1 - s1 ∧ t1 - s1 ≤ 579 / 25000000) ∧
      (-(397 / 50000000) ≤ t2 - s2 ∧ t2 - s2 ≤ 6199 / 100000000) ∧
      (0 ≤ t3 - s3 ∧ t3 - s3 ≤ 317 / 20000000) := by
  refine ⟨_, _, _, matRoundTrip_eq s1 s2 s3, ⟨?_, ?_⟩, ⟨?_, ?_⟩, ⟨?_, ?_⟩⟩ <;>
    nlinarith [h1.1, h1.2, h2.1, h2.2, h3.1, h3.2]

theorem roundTrip_encR_sharp {r g b : ℝ} (hr : 0 ≤ r ∧ r ≤ 255) (hg : 0 ≤ g ∧ g ≤ 255) (hb : 0 ≤ b ∧ b ≤ 255) :
    ∃ r' g' b' : ℝ, xyz2rgbR (rgb2xyzR [r, g, b]) = [r', g', b'] ∧
      |r' - r| ≤ 16473 / 5 * (579 / 25000000) ∧ |g' - g| ≤ 16473 / 5 * (6199 / 100000000) ∧
      |b' - b| ≤ 16473 / 5 * (317 / 20000000) := by
  obtain ⟨t1, t2, t3, e, b1, b2, b3⟩ :=
    matRoundTrip_bound_sharp (srgbR_unit hr.1 hr.2) (srgbR_unit hg.1 hg.2) (srgbR_unit hb.1 hb.2)
  refine ⟨encR t1, encR t2, encR t3, by rw [xyz2rgbR, roundTrip_unfold, e]; rfl, ?_, ?_, ?_⟩
  · exact encR_near_all (by norm_num) (abs_le.2 ⟨by linarith [b1.1], b1.2⟩)
  · exact encR_near_all (by norm_num) (abs_le.2 ⟨by linarith [b2.1], b2.2⟩)
  · exact encR_near_all (by norm_num) (abs_le.2 ⟨by linarith [b3.1], b3.2⟩)

/-- the R bound is attained: the pixel `(0, 255, 255)` comes back with `R = 3294.6 · 579/25000000 = 0.0763…` -/
theorem roundTrip_cyan_red : ∃ g' b' : ℝ,
    xyz2rgbR (rgb2xyzR [0, 255, 255]) = [16473 / 5 * (579 / 25000000), g', b'] := by
  rw [xyz2rgbR, roundTrip_unfold, srgbR_zero, srgbR_255, matRoundTrip_eq]
  refine ⟨encR (1 + (2167 / 100000000 * 0 + 63 / 1562500 * 1 + -(397 / 50000000) * 1)),
    encR (1 + (19 / 50000000 * 0 + 149 / 12500000 * 1 + 71 / 20000000 * 1)), ?_⟩
  simp only [List.map_cons, List.map_nil]
  congr 1
  rw [encR_low (by norm_num)]
  norm_num

end

end Mahotas.C20
