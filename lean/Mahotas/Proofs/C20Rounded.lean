/-
C20 (round 4) — `stretch` in *rounded* arithmetic: the same polymorphic `stretchList` the driver runs at `Float`,
instantiated at `RQ r` = ℚ with every operation followed by a rounding function `r`. If `r` is monotone and fixes
`0` and the two bounds (what IEEE round-to-nearest does for representable bounds), the pipeline is still a
non-decreasing map into `[lo, hi]` with min ↦ `lo`; with the truncating cast behind it, too.
-/
import Mahotas.Proofs.C20Cast
import Mathlib.Tactic.Positivity
import Mathlib.Tactic.FieldSimp
namespace Mahotas.C20
open Mahotas

/-- ℚ with every arithmetic result passed through a rounding function `r` (a model of floating-point
    arithmetic in which each operation returns the rounding of the exact result); order and `0` are those of ℚ -/
def RQ (_r : Rat → Rat) : Type := Rat

namespace RQ
variable {r : Rat → Rat}
def val (a : RQ r) : Rat := a
def mk (q : Rat) : RQ r := q
instance : Add (RQ r) := ⟨fun a b => mk (r (a.val + b.val))⟩
instance : Sub (RQ r) := ⟨fun a b => mk (r (a.val - b.val))⟩
instance : Mul (RQ r) := ⟨fun a b => mk (r (a.val * b.val))⟩
instance : Div (RQ r) := ⟨fun a b => mk (r (a.val / b.val))⟩
instance : LT (RQ r) := ⟨fun a b => a.val < b.val⟩
instance : DecidableLT (RQ r) := fun a b => inferInstanceAs (Decidable (a.val < b.val))
instance : OfNat (RQ r) 0 := ⟨mk 0⟩
end RQ

/-- `stretchList` at `RQ r`, with rational lists in and out (for examples) -/
def stretchRounded (r : Rat → Rat) (xs : List Rat) (lo hi : Rat) : List Rat := @stretchList (RQ r) _ _ _ _ _ _ _ xs lo hi

/-- the hypotheses on the rounding: monotone, and `0`, `lo`, `hi` are representable -/
structure Rounding (r : Rat → Rat) (lo hi : Rat) : Prop where
  mono : ∀ x y, x ≤ y → r x ≤ r y
  zero : r 0 = 0
  lo_fix : r lo = lo
  hi_fix : r hi = hi

theorem minL_RQ (r : Rat → Rat) (m : Rat) (xs : List Rat) :
    (minL (α := RQ r) m xs : Rat) = minL (α := Rat) m xs := by
  induction xs generalizing m with
  | nil => rfl
  | cons x xs ih => exact ih _

/-- the minimum / the range `stretch` computes in rounded arithmetic, as rationals -/
def mnRQ (r : Rat → Rat) (x0 : Rat) (rest : List Rat) : Rat := @minL (RQ r) _ _ x0 rest
def ptpRQ (r : Rat → Rat) (x0 : Rat) (rest : List Rat) : Rat :=
  @maxL (RQ r) _ _ (@HSub.hSub (RQ r) (RQ r) (RQ r) _ x0 (@minL (RQ r) _ _ x0 rest))
    (@List.map (RQ r) (RQ r) (fun x => x - @minL (RQ r) _ _ x0 rest) rest)

/-- `stretchList` at `RQ r`, written out over ℚ: every operation of `stretchCore` is followed by `r` -/
theorem stretchList_RQ_cons (r : Rat → Rat) (x0 : Rat) (rest : List Rat) (lo hi : Rat) :
    (@stretchList (RQ r) _ _ _ _ _ _ _ (x0 :: rest) lo hi : List Rat) =
      if (0 : Rat) < ptpRQ r x0 rest then
        (x0 :: rest).map (fun x => capHi (α := Rat) lo hi
          (r (r (r (x - mnRQ r x0 rest) * r (r (hi - lo) / ptpRQ r x0 rest)) + lo)))
      else (x0 :: rest).map (fun _ => lo) := rfl

/-- the written-out form is `map g` for a non-decreasing `g` with values in `[lo, hi]` on the pixels, min ↦ `lo` -/
theorem stretch_rounded_form (r : Rat → Rat) (x0 : Rat) (rest : List Rat) (lo hi : Rat) (h : lo ≤ hi) (R : Rounding r lo hi) :
    ∃ g : Rat → Rat, (∀ x y, x ≤ y → g x ≤ g y) ∧
      (if (0 : Rat) < ptpRQ r x0 rest then
        (x0 :: rest).map (fun x => capHi (α := Rat) lo hi
          (r (r (r (x - mnRQ r x0 rest) * r (r (hi - lo) / ptpRQ r x0 rest)) + lo)))
      else (x0 :: rest).map (fun _ => lo)) = (x0 :: rest).map g ∧
      (∀ x ∈ x0 :: rest, lo ≤ g x ∧ g x ≤ hi) ∧ (∀ m ∈ x0 :: rest, (∀ x ∈ x0 :: rest, m ≤ x) → g m = lo) := by
    have hmn : mnRQ r x0 rest = minL (α := Rat) x0 rest := minL_RQ r x0 rest
    generalize ptpRQ r x0 rest = ptp
    rw [hmn]
    generalize hmn' : minL (α := Rat) x0 rest = mn
    have hle : ∀ x ∈ x0 :: rest, mn ≤ x := by
      intro x hx
      rw [← hmn']
      rcases List.mem_cons.mp hx with rfl | hx
      · exact (minL_le _ _).1
      · exact (minL_le _ _).2 x hx
    have hmem : mn ∈ x0 :: rest := by
      rw [← hmn']
      rcases minL_mem x0 rest with e | e
      · rw [e]; simp
      · exact List.mem_cons_of_mem _ e
    by_cases hp : (0 : Rat) < ptp
    · rw [if_pos hp]
      have hnl : ¬ hi < lo := not_lt.mpr h
      have hf : 0 ≤ r (r (hi - lo) / ptp) := by
        have h1 : 0 ≤ r (hi - lo) := by rw [← R.zero]; exact R.mono _ _ (by linarith)
        have h2 : 0 ≤ r (hi - lo) / ptp := div_nonneg h1 (le_of_lt hp)
        rw [← R.zero]; exact R.mono _ _ h2
      have inner : ∀ x y, x ≤ y →
          r (r (r (x - mn) * r (r (hi - lo) / ptp)) + lo) ≤ r (r (r (y - mn) * r (r (hi - lo) / ptp)) + lo) := by
        intro x y hxy
        apply R.mono
        have h1 : r (x - mn) ≤ r (y - mn) := R.mono _ _ (by linarith)
        have h2 := R.mono _ _ (mul_le_mul_of_nonneg_right h1 hf)
        linarith
      have inner_mn : r (r (r (mn - mn) * r (r (hi - lo) / ptp)) + lo) = lo := by
        rw [sub_self, R.zero, zero_mul, R.zero, zero_add, R.lo_fix]
      refine ⟨fun x => capHi lo hi (r (r (r (x - mn) * r (r (hi - lo) / ptp)) + lo)),
        fun x y hxy => capHi_mono lo hi _ _ (inner x y hxy), rfl, ?_, ?_⟩
      · intro x hx
        have := inner mn x (hle x hx)
        rw [inner_mn] at this
        exact capHi_range lo hi _ h this
      · intro m hm hmin
        have : m = mn := le_antisymm (hmin _ hmem) (hle m hm)
        show capHi lo hi _ = lo
        rw [this, inner_mn]
        simp [capHi, hnl]
    · rw [if_neg hp]
      exact ⟨fun _ => lo, fun _ _ _ => le_refl _, rfl, fun _ _ => ⟨le_refl _, h⟩, fun _ _ _ => rfl⟩

/-- `stretchList` in rounded arithmetic is still `map g` for a non-decreasing `g` with values in `[lo, hi]` on the
    pixels and minimal pixels ↦ `lo` -/
theorem stretchList_rounded (r : Rat → Rat) (xs : List Rat) (lo hi : Rat) (h : lo ≤ hi) (R : Rounding r lo hi) :
    ∃ g : Rat → Rat, (∀ x y, x ≤ y → g x ≤ g y) ∧ (@stretchList (RQ r) _ _ _ _ _ _ _ xs lo hi : List Rat) = xs.map g ∧
      (∀ x ∈ xs, lo ≤ g x ∧ g x ≤ hi) ∧ (∀ m ∈ xs, (∀ x ∈ xs, m ≤ x) → g m = lo) := by
  cases xs with
  | nil => exact ⟨fun _ => lo, fun _ _ _ => le_refl _, rfl, by simp, by simp⟩
  | cons x0 rest =>
    obtain ⟨g, gm, ge, gr, gmin⟩ := stretch_rounded_form r x0 rest lo hi h R
    exact ⟨g, gm, (stretchList_RQ_cons r x0 rest lo hi).trans ge, gr, gmin⟩

/-- with an integer cast behind it: the integer image is non-decreasing in the pixel, within `[lo, hi]`, min ↦ `lo` -/
theorem stretch_rounded_int_cast (r : Rat → Rat) (xs : List Rat) (lo hi : Int) (h : lo ≤ hi) (R : Rounding r lo hi) :
    ∃ G : Rat → Int, (∀ x y, x ≤ y → G x ≤ G y) ∧
      (@stretchList (RQ r) _ _ _ _ _ _ _ xs (lo : Rat) (hi : Rat) : List Rat).map truncQ = xs.map G ∧
      (∀ x ∈ xs, lo ≤ G x ∧ G x ≤ hi) ∧ (∀ m ∈ xs, (∀ x ∈ xs, m ≤ x) → G m = lo) := by
  obtain ⟨g, gm, ge, gr, gmin⟩ := stretchList_rounded r xs (lo : Rat) (hi : Rat) (by exact_mod_cast h) R
  refine ⟨fun x => truncQ (g x), fun x y hxy => truncQ_mono (gm x y hxy), ?_, ?_, ?_⟩
  · rw [ge, List.map_map]; rfl
  · intro x hx
    exact truncQ_range (gr x hx).1 (gr x hx).2
  · intro m hm hmin
    show truncQ (g m) = lo
    rw [gmin m hm hmin, truncQ_intCast]

/-- non-vacuity: exact arithmetic (`r = id`) is a rounding, and so is rounding to a grid that contains the bounds -/
theorem rounding_id (lo hi : Rat) : Rounding id lo hi := ⟨fun _ _ h => h, rfl, rfl, rfl⟩

/-- rounding down to multiples of `1/2^k` (a fixed-point grid) is a rounding for integer bounds -/
theorem rounding_floor_grid (k : Nat) (lo hi : Int) :
    Rounding (fun q => ((q * 2 ^ k).floor : Rat) / 2 ^ k) (lo : Rat) (hi : Rat) := by
  have hpos : (0 : Rat) < 2 ^ k := by positivity
  have fix : ∀ n : Int, (((n : Rat) * 2 ^ k).floor : Rat) / 2 ^ k = (n : Rat) := by
    intro n
    have : ((n : Rat) * 2 ^ k) = ((n * 2 ^ k : Int) : Rat) := by push_cast; ring
    rw [this, Rat.floor_intCast]; push_cast; field_simp
  refine ⟨fun x y hxy => ?_, ?_, fix lo, fix hi⟩
  · apply div_le_div_of_nonneg_right _ (le_of_lt hpos)
    exact_mod_cast Rat.floor_monotone (mul_le_mul_of_nonneg_right hxy (le_of_lt hpos))
  · have := fix 0
    simpa using this

end Mahotas.C20
