/-
C20 (round 4) — the call level of `stretch` / `stretch_rgb` / `as_rgb` (`Model/C20Stretch.lean`):
the cast to an integer dtype does not wrap when the requested range lies in the dtype's range; bool outputs;
`np.dstack` indexing; `stretch_rgb` is `stretch` per channel; `as_rgb`.
-/
import Mahotas.Proofs.C20Cast
import Mathlib.Tactic.Ring
import Mathlib.Tactic.Linarith
import Mathlib.Tactic.NormNum
namespace Mahotas.C20
open Mahotas

/-! ## the dtype reduction is the identity on the dtype's range -/

theorem DT.wrap_of_mem (dt : DT) {x : Int} (h1 : dt.lo ≤ x) (h2 : x ≤ dt.hi) : dt.wrap x = x := by
  unfold DT.wrap DT.card
  rw [Int.emod_eq_of_lt (by omega) (by omega)]
  omega

/-- clamp of an integer to `[lo, hi]` -/
def clampI (lo hi x : Int) : Int := max lo (min x hi)

theorem clampI_mono (lo hi : Int) {x y : Int} (h : x ≤ y) : clampI lo hi x ≤ clampI lo hi y := by
  unfold clampI; omega

theorem clampI_of_mem {lo hi x : Int} (h1 : lo ≤ x) (h2 : x ≤ hi) : clampI lo hi x = x := by
  unfold clampI; omega

theorem clampI_range {lo hi : Int} (h : lo ≤ hi) (x : Int) : lo ≤ clampI lo hi x ∧ clampI lo hi x ≤ hi := by
  unfold clampI; omega

/-- `stretch(img, lo, hi, dtype)` for an integer dtype whose range contains `[lo, hi]`, over ℚ: the result (cast and
    dtype reduction included) is `map G` for a `G : ℚ → ℤ` that is non-decreasing **everywhere**, takes values in
    `[lo, hi]` everywhere, sends minimal pixels to `lo`, and coincides with the un-reduced truncation (no wrap) -/
theorem stretchIntG_int (dt : DT) (hb : dt.isBool = false) (xs : List Rat) (lo hi : Int) (h : lo ≤ hi)
    (hlo : dt.lo ≤ lo) (hhi : hi ≤ dt.hi) (arg0 arg1 : Option Int) (hd : decodeArgs arg0 arg1 = (lo, hi)) :
    ∃ G : Rat → Int, (∀ x y, x ≤ y → G x ≤ G y) ∧
      stretchIntG (fun n : Int => (n : Rat)) truncQ dt xs arg0 arg1 = xs.map G ∧
      stretchIntG (fun n : Int => (n : Rat)) truncQ dt xs arg0 arg1 = (stretchList xs (lo : Rat) (hi : Rat)).map truncQ ∧
      (∀ x, lo ≤ G x ∧ G x ≤ hi) ∧ (∀ x, dt.lo ≤ G x ∧ G x ≤ dt.hi) ∧
      (∀ m ∈ xs, (∀ x ∈ xs, m ≤ x) → G m = lo) := by
  obtain ⟨G, gm, ge, gr, gmin⟩ := stretch_int_cast xs lo hi h
  have key : stretchIntG (fun n : Int => (n : Rat)) truncQ dt xs arg0 arg1 = xs.map G := by
    unfold stretchIntG
    simp only [hd]
    have : (stretchList xs (lo : Rat) (hi : Rat)).map (castInt truncQ dt) =
        ((stretchList xs (lo : Rat) (hi : Rat)).map truncQ).map dt.wrap := by
      rw [List.map_map]; apply List.map_congr_left; intro y _; simp [castInt, hb]
    rw [this, ge, List.map_map]
    apply List.map_congr_left
    intro x hx
    exact DT.wrap_of_mem dt (le_trans hlo (gr x hx).1) (le_trans (gr x hx).2 hhi)
  refine ⟨fun x => clampI lo hi (G x), fun x y hxy => clampI_mono lo hi (gm x y hxy), ?_, ?_, ?_, ?_, ?_⟩
  · rw [key]; apply List.map_congr_left; intro x hx
    exact (clampI_of_mem (gr x hx).1 (gr x hx).2).symm
  · rw [key, ge]
  · intro x; exact clampI_range h _
  · intro x; have := clampI_range h (G x); exact ⟨le_trans hlo this.1, le_trans this.2 hhi⟩
  · intro m hm hmin
    show clampI lo hi (G m) = lo
    rw [gmin m hm hmin]; exact clampI_of_mem (le_refl _) h

/-- every unsigned / signed dtype of any width is such a dtype (`dtU bits`: `[0, 2^bits − 1]`,
    `dtI bits`: `[−2^(bits−1), 2^(bits−1) − 1]`) -/
theorem dtU_notBool (bits : Nat) : (dtU bits).isBool = false := rfl
theorem dtI_notBool (bits : Nat) : (dtI bits).isBool = false := rfl

/-! ## bool output -/

/-- `dtype=bool`, over ℚ, for a request inside the bool range (`0 ≤ lo ≤ hi ≤ 1`): `map G` with `G` non-decreasing,
    values in `[lo, hi]`, minimal pixels ↦ `lo`. (`astype(bool)` is "non-zero", not truncation: with `lo = 0, hi = 1`
    every non-minimal pixel is `True`.) -/
theorem stretchIntG_bool (xs : List Rat) (lo hi : Int) (h : lo ≤ hi) (h0 : 0 ≤ lo) (h1 : hi ≤ 1)
    (arg0 arg1 : Option Int) (hd : decodeArgs arg0 arg1 = (lo, hi)) :
    ∃ G : Rat → Int, (∀ x y, x ≤ y → G x ≤ G y) ∧
      stretchIntG (fun n : Int => (n : Rat)) truncQ dtBool xs arg0 arg1 = xs.map G ∧
      (∀ x ∈ xs, lo ≤ G x ∧ G x ≤ hi) ∧ (∀ m ∈ xs, (∀ x ∈ xs, m ≤ x) → G m = lo) := by
  obtain ⟨g, gm, ge, gr, gmin⟩ := stretchList_spec xs (lo : Rat) (hi : Rat) (by exact_mod_cast h)
  -- `G x = [max 0 (g x) ≠ 0]`: on pixels `g x ≥ lo ≥ 0`
  refine ⟨fun x => if 0 < g x then 1 else 0, ?_, ?_, ?_, ?_⟩
  · intro x y hxy
    have := gm x y hxy
    by_cases hx : 0 < g x
    · have hy : 0 < g y := lt_of_lt_of_le hx this
      simp [hx, hy]
    · by_cases hy : 0 < g y <;> simp [hx, hy]
  · unfold stretchIntG
    simp only [hd]
    rw [ge, List.map_map]
    apply List.map_congr_left
    intro x hx
    have hge : (0 : Rat) ≤ g x := le_trans (by exact_mod_cast h0) (gr x hx).1
    have hnl : ¬ g x < 0 := not_lt.mpr hge
    simp [castInt, dtBool, hnl]
  · intro x hx
    have hl := (gr x hx).1
    have hu := (gr x hx).2
    by_cases hp : 0 < g x
    · simp only [hp, if_true]
      have : (0 : Rat) < (hi : Rat) := lt_of_lt_of_le hp hu
      have : 0 < hi := by exact_mod_cast this
      omega
    · simp only [hp, if_false]
      have : (lo : Rat) ≤ 0 := le_trans hl (not_lt.mp hp)
      have : lo ≤ 0 := by exact_mod_cast this
      omega
  · intro m hm hmin
    show (if 0 < g m then (1 : Int) else 0) = lo
    rw [gmin m hm hmin]
    by_cases hl : lo = 0
    · subst hl; simp
    · have : lo = 1 := by omega
      subst this; simp

/-! ## `np.dstack` indexing (pixel-interleaved data) -/

theorem getD_toArray' {β : Type} (l : List β) (i : Nat) (d : β) : l.toArray.getD i d = l.getD i d := by
  simp [Array.getD, List.getD_eq_getElem?_getD]
  split <;> simp_all

theorem getD_map_toArray {β : Type} (chs : List (List β)) (i : Nat) :
    (chs.map List.toArray).getD i #[] = (chs.getD i []).toArray := by
  rw [List.getD_eq_getElem?_getD, List.getD_eq_getElem?_getD, List.getElem?_map]
  cases chs[i]? <;> rfl

theorem dstackData_length (B d n : Nat) (chs : List (List Int)) : (dstackData B d n chs).length = n * d * B := by
  simp [dstackData]

/-- element `(p, i)` of the pixel-interleaved stack (`B = 1`) is element `p` of array `i` -/
theorem dstackData_get (d n : Nat) (chs : List (List Int)) {p i : Nat} (hp : p < n) (hi : i < d) :
    (dstackData 1 d n chs).getD (p * d + i) 0 = (chs.getD i []).getD p 0 := by
  have hlt : p * d + i < n * d * 1 := by
    have : (p + 1) * d ≤ n * d := Nat.mul_le_mul_right d hp
    rw [Nat.add_mul] at this
    omega
  unfold dstackData
  rw [List.getD_eq_getElem?_getD, List.getElem?_map, List.getElem?_range hlt]
  simp only [Option.map_some, Option.getD_some, Nat.div_one, Nat.one_mul, Nat.mod_one, Nat.add_zero, Nat.mul_one,
    getD_map_toArray, getD_toArray']
  have e1 : (p * d + i) % d = i := by
    rw [Nat.mul_comm, Nat.mul_add_mod]; exact Nat.mod_eq_of_lt hi
  have e2 : (p * d + i) / d = p := by
    rw [Nat.mul_comm, Nat.mul_add_div (by omega), Nat.div_eq_of_lt hi]; omega
  rw [e1, e2]

/-! ## channels of interleaved data -/

theorem channel_length {β : Type} (dflt : β) (d i : Nat) (xs : List β) : (channel dflt d i xs).length = xs.length / d := by
  simp [channel]

theorem channel_get {β : Type} (dflt : β) (d i : Nat) (xs : List β) {p : Nat} (hp : p < xs.length / d) :
    (channel dflt d i xs).getD p dflt = xs.getD (p * d + i) dflt := by
  unfold channel
  rw [List.getD_eq_getElem?_getD, List.getElem?_map, List.getElem?_range hp]
  simp

/-! ## `stretch_rgb` is `stretch` on every channel -/

theorem stretchRgbG_channels {α : Type} [Add α] [Sub α] [Mul α] [Div α] [LT α] [DecidableLT α] [OfNat α 0]
    (ofInt : Int → α) (trunc : α → Int) (dt : DT) (h w d : Nat) (xs : List α) (arg0 arg1 : Option Int) :
    ∃ data, stretchRgbG ofInt trunc dt [h, w, d] xs arg0 arg1 = .ok data ∧ data.length = h * w * d ∧
      ∀ p < h * w, ∀ i < d,
        data.getD (p * d + i) 0 = (stretchIntG ofInt trunc dt (channel 0 d i xs) arg0 arg1).getD p 0 := by
  refine ⟨_, rfl, ?_, ?_⟩
  · rw [dstackData_length]; ring
  · intro p hp i hi
    rw [dstackData_get d (h * w) _ hp hi]
    congr 1
    rw [List.getD_eq_getElem?_getD, List.getElem?_map, List.getElem?_range hi]
    rfl

/-! ## `as_rgb` -/

/-- what `s(c)` returns for one argument of `as_rgb`, over ℚ -/
theorem asRgbChan_spec (shape : List Nat) (hne : shape ≠ []) (num : Bool) (c : Chan Rat)
    (hc : ∀ s d, c = .arr s d → s = shape) :
    ∃ vals, asRgbChan (fun n : Int => (n : Rat)) truncQ shape num c = .ok vals ∧
      (c = .none → vals = List.replicate (shapeSize shape) 0) ∧
      (∀ v, c = .scalar v → vals = List.replicate (shapeSize shape) (v % 256)) ∧
      (∀ s d, c = .arr s d → ∃ G : Rat → Int, (∀ x y, x ≤ y → G x ≤ G y) ∧ vals = d.map G ∧
          (∀ x, 0 ≤ G x ∧ G x ≤ 255) ∧ (∀ m ∈ d, (∀ x ∈ d, m ≤ x) → G m = 0)) := by
  cases c with
  | none =>
    refine ⟨_, rfl, ?_, ?_, ?_⟩
    · intro _; rfl
    · intro v h; cases h
    · intro s d h; cases h
  | scalar v =>
    refine ⟨_, rfl, ?_, ?_, ?_⟩
    · intro h; cases h
    · intro v' h
      cases h
      have : (dtU 8).wrap v = v % 256 := by simp [DT.wrap, DT.card, dtU]
      rw [this]
    · intro s d h; cases h
  | arr s d =>
    have hs : s = shape := hc s d rfl
    subst hs
    obtain ⟨G, gm, ge, _, gr, _, gmin⟩ := stretchIntG_int (dtU 8) rfl d 0 255 (by norm_num) (by simp [dtU]) (by simp [dtU])
      none none rfl
    refine ⟨stretchU8G (fun n : Int => (n : Rat)) truncQ d, by simp [asRgbChan, hne], ?_, ?_, ?_⟩
    · intro h; cases h
    · intro v h; cases h
    · intro s' d' h
      cases h
      exact ⟨G, gm, ge, gr, gmin⟩

/-- generic in the scalar type (so also for the `Float` instance the driver runs): an array argument of the right
    shape is `stretch(c)` with the defaults `0, 255, uint8`; `None` is a zero channel; a number fills the channel
    (reduced to `uint8`) -/
theorem asRgbChan_ok {α : Type} [Add α] [Sub α] [Mul α] [Div α] [LT α] [DecidableLT α] [OfNat α 0]
    (ofInt : Int → α) (trunc : α → Int) (shape : List Nat) (hne : shape ≠ []) (num : Bool) (c : Chan α)
    (hc : ∀ s d, c = .arr s d → s = shape) :
    ∃ vals, asRgbChan ofInt trunc shape num c = .ok vals ∧
      (c = .none → vals = List.replicate (shapeSize shape) 0) ∧
      (∀ v, c = .scalar v → vals = List.replicate (shapeSize shape) ((dtU 8).wrap v)) ∧
      (∀ s d, c = .arr s d → vals = stretchIntG ofInt trunc (dtU 8) d none none) := by
  cases c with
  | none =>
    refine ⟨_, rfl, ?_, ?_, ?_⟩
    · intro _; rfl
    · intro v h; cases h
    · intro s d h; cases h
  | scalar v =>
    refine ⟨_, rfl, ?_, ?_, ?_⟩
    · intro h; cases h
    · intro v' h; cases h; rfl
    · intro s d h; cases h
  | arr s d =>
    have hs : s = shape := hc s d rfl
    subst hs
    refine ⟨stretchU8G ofInt trunc d, by simp [asRgbChan, hne], ?_, ?_, ?_⟩
    · intro h; cases h
    · intro v h; cases h
    · intro s' d' h; cases h; rfl

/-- `as_rgb(r, g, b)` for `(h, w)` images, generic in the scalar type: when the first array argument has shape
    `(h, w)` and every array argument has that shape, the call succeeds, the result has shape `(h, w, 3)` and
    `3hw` elements, and element `(p, k)` (pixel `p`, channel `k`) is element `p` of what `s(c)` returns for
    argument `k` -/
theorem asRgbG_image {α : Type} [Add α] [Sub α] [Mul α] [Div α] [LT α] [DecidableLT α] [OfNat α 0]
    (ofInt : Int → α) (trunc : α → Int) (h w : Nat) (r g b : Chan α)
    (hs : firstShape [r, g, b] = some [h, w])
    (hr : ∀ s d, r = .arr s d → s = [h, w]) (hg : ∀ s d, g = .arr s d → s = [h, w])
    (hb : ∀ s d, b = .arr s d → s = [h, w]) :
    ∃ cr cg cb data, asRgbG ofInt trunc r g b = .ok ([h, w, 3], data) ∧ data.length = h * w * 3 ∧
      asRgbChan ofInt trunc [h, w] (r.isScalar || g.isScalar || b.isScalar) r = .ok cr ∧
      asRgbChan ofInt trunc [h, w] (r.isScalar || g.isScalar || b.isScalar) g = .ok cg ∧
      asRgbChan ofInt trunc [h, w] (r.isScalar || g.isScalar || b.isScalar) b = .ok cb ∧
      ∀ p < h * w, data.getD (p * 3) 0 = cr.getD p 0 ∧ data.getD (p * 3 + 1) 0 = cg.getD p 0 ∧
        data.getD (p * 3 + 2) 0 = cb.getD p 0 := by
  obtain ⟨cr, er, _⟩ := asRgbChan_ok ofInt trunc [h, w] (by simp) (r.isScalar || g.isScalar || b.isScalar) r hr
  obtain ⟨cg, eg, _⟩ := asRgbChan_ok ofInt trunc [h, w] (by simp) (r.isScalar || g.isScalar || b.isScalar) g hg
  obtain ⟨cb, eb, _⟩ := asRgbChan_ok ofInt trunc [h, w] (by simp) (r.isScalar || g.isScalar || b.isScalar) b hb
  have hsz : shapeSize [h, w] / dstackBlock [h, w] = h * w := by simp [shapeSize, dstackBlock]
  refine ⟨cr, cg, cb, dstackData 1 3 (h * w) [cr, cg, cb], ?_, ?_, er, eg, eb, ?_⟩
  · unfold asRgbG
    simp only [hs, er, eg, eb, hsz]
    rfl
  · rw [dstackData_length, Nat.mul_one]
  · intro p hp
    have h0 := dstackData_get 3 (h * w) [cr, cg, cb] hp (show 0 < 3 by norm_num)
    have h1 := dstackData_get 3 (h * w) [cr, cg, cb] hp (show 1 < 3 by norm_num)
    have h2 := dstackData_get 3 (h * w) [cr, cg, cb] hp (show 2 < 3 by norm_num)
    exact ⟨by simpa using h0, by simpa using h1, by simpa using h2⟩

end Mahotas.C20
