/-
Ties between the definitions that `translator/cscalar.py` regenerates on every run from the *text* of the C++
helper functions (`Mahotas/Generated/CScalar.lean`) and the hand-written model definitions the driver runs.

Each theorem `cscalar_<function>_eq_model` states: generated definition = model definition, for ALL arguments
(or under the guard the callers guarantee, which is then stated and explained). When the C++ function is edited the
generated text changes and the corresponding theorem is re-checked against it; an edit that changes the function's
value somewhere makes the theorem false, hence the proof fails: a broken obligation of every property whose model
uses the function. The proofs are `unfold` + case analysis (`grind`, `omega`), not `rfl` on syntax, so that
re-arrangements of the C++ that the translator understands and that do not change the value keep passing.
-/
import Mahotas.Generated.CScalar
import Mahotas.Model.Border
import Mahotas.Model.C04
import Mahotas.Proofs.DType
namespace Mahotas
open Generated.C

/-! ### `_filters.h`: `fix_offset` -/

/-- **`fix_offset` (C++ text) = `fixOffset` (model)** for every mode, coordinate and length; the generated function
    takes the numeric value of the `ExtendMode` enumerator (`Mode.code`, itself checked against the enum by
    `Proofs/Modes.lean`), and `border_flag_value` is `none`. -/
theorem cscalar_fix_offset_eq_model (m : Mode) (cc len : Int) :
    fix_offset (m.code : Int) cc len = fixOffset m cc len := by
  unfold fix_offset fixOffset
  cases m <;> simp only [Mode.code] <;> grind

example : fix_offset 3 (-4) 3 = some 0 ∧ fix_offset 2 7 3 = some 1 ∧ fix_offset 1 (-1) 5 = some 4
    ∧ fix_offset 0 9 4 = some 3 ∧ fix_offset 4 (-1) 4 = none ∧ fix_offset 5 2 4 = some 2 := by decide

/-! ### `_morph.cpp`: saturating helpers -/

/-- **`erode_sub<T>` and `erode_sub<bool>` (C++ text) = `erodeSub`**: the model dispatches on `dt.isBool` the way the
    compiler selects the `bool` specialisation. All arguments, every dtype. -/
theorem cscalar_erode_sub_eq_model (dt : DT) (a b : Int) :
    erodeSub dt a b = if dt.isBool then erode_sub_bool a b else erode_sub dt a b := by
  unfold erodeSub erode_sub erode_sub_bool
  grind

example : erode_sub (dtI 8) (-100) 100 = -128 ∧ erode_sub (dtU 8) 3 5 = 0 ∧ erode_sub (dtI 8) 5 (-128) = 127
    ∧ erode_sub_bool 1 1 = 1 ∧ erode_sub_bool 1 0 = 0 := by decide

/-- **`dilate_add<T>` and `dilate_add<bool>` (C++ text) = `dilateAdd`** for heights `b ≥ 0` or `b` the dtype minimum
    ("absent"): the standing assumption of C01/C02/C07 on structuring elements (`ASSUMPTIONS` of `harness/props/c01.py`).
    The C++ tests `b >= 0 && r < a`; the model (written for such heights) tests `r < a` only — for a negative height
    that is not the minimum the two differ, which is outside the domain the properties speak about. -/
theorem cscalar_dilate_add_eq_model (dt : DT) (a b : Int) (hb : 0 ≤ b ∨ b = dt.lo) :
    dilateAdd dt a b = if dt.isBool then dilate_add_bool a b else dilate_add dt a b := by
  unfold dilateAdd dilate_add dilate_add_bool
  grind

example : dilate_add (dtI 8) 100 100 = 127 ∧ dilate_add (dtI 8) (-5) 1 = -4 ∧ dilate_add (dtU 8) 200 100 = 255
    ∧ dilate_add (dtI 8) (-128) 3 = -128 ∧ dilate_add_bool 1 1 = 1 := by decide

/-- **`t_abs` (C++ text, at the index types) = `Int.natAbs`** (what `C04.chebStep` and the model of `distance` use). -/
theorem cscalar_t_abs_eq_model (x : Int) : t_abs x = (x.natAbs : Int) := by
  unfold t_abs; split <;> omega

example : t_abs (-3) = 3 ∧ t_abs 4 = 4 := by decide

/-- **element body of `subm<T>` (C++ text) = `submElem`** for values of the dtype (`a`, `b` in range — they are read
    from arrays of that dtype). In the unsigned branch the C++ stores `*ita -= *itb` (a store: `dt.wrap`), the model
    writes the exact `a - b`; they agree because `b ≤ a` there. The signed branch agrees for all integers. -/
theorem cscalar_subm_elem_eq_model (dt : DT) (wf : dt.WF) (a b : Int) (ha : dt.InRange a) (hb : dt.InRange b) :
    submElem dt a b = subm_elem dt a b := by
  unfold submElem subm_elem
  by_cases hs : dt.signed = true
  · simp only [hs]; grind
  · have hl : dt.lo = 0 := by
      rcases wf.lo_cases with h | h
      · exact h
      · exfalso; apply hs; rw [DT.signed_iff]; have := wf.hi_pos; omega
    unfold DT.InRange at ha hb
    simp only [hs]
    by_cases hba : b > a
    · simp [hba]
    · simp [hba]
      rw [DT.wrap_in dt (a - b) (by omega)]

example : subm_elem (dtI 8) (-100) 100 = -128 ∧ subm_elem (dtU 8) 3 5 = 0 ∧ subm_elem (dtU 8) 9 5 = 4
    ∧ subm_elem (dtI 8) 100 (-100) = 127 := by decide

/-! ### `_morph.cpp`: `margin_of` (a loop over the axes) -/

/-- a `for (d = 0; d != n; ++d)` loop that reads two arrays at `[d]` only is a fold over the zipped lists -/
theorem foldl_range_getD2 {σ : Type} (f : σ → Int → Int → σ) :
    ∀ (xs ys : List Int) (s : σ), ys.length = xs.length →
      (List.range xs.length).foldl (fun s (k : Nat) => f s (xs.getD k 0) (ys.getD k 0)) s
        = (List.zip xs ys).foldl (fun s xy => f s xy.1 xy.2) s
  | [], ys, s, _ => by simp
  | x :: xs, [], s, h => by simp at h
  | x :: xs, y :: ys, s, h => by
      have ih := foldl_range_getD2 f xs ys (f s x y) (by simpa using h)
      simp only [List.length_cons, List.range_succ_eq_map, List.foldl_cons, List.foldl_map, List.zip_cons_cons,
        List.getD_cons_zero, List.getD_cons_succ]
      exact ih

theorem marginOf_zip : ∀ (ds : List Nat) (ps : List Int) (m : Int), ps.length = ds.length → m ≤ C04.idxMax →
    (List.zip (ds.map Int.ofNat) ps).foldl (fun m xy => min (min m xy.2) (xy.1 - xy.2 - 1)) m = min m (C04.marginOf ds ps)
  | [], [], m, _, hm => by simp [C04.marginOf]; omega
  | [], _ :: _, m, h, _ => by simp at h
  | _ :: _, [], m, h, _ => by simp at h
  | d :: ds, p :: ps, m, h, hm => by
      have ih := marginOf_zip ds ps (min (min m p) ((d : Int) - p - 1)) (by simpa using h) (by omega)
      simp only [List.map_cons, List.zip_cons_cons, List.foldl_cons, C04.marginOf, C04.axisMargin]
      simp only [Int.ofNat_eq_natCast]
      rw [ih]; omega

/-- the generated loop of `margin_of`, with the two `if (x < margin) margin = x;` updates read as `min` -/
theorem margin_of_fold (dims pos : List Int) :
    margin_of dims pos = (List.range dims.length).foldl
      (fun m (k : Nat) => min (min m (pos.getD k 0)) (dims.getD k 0 - pos.getD k 0 - 1)) C04.idxMax := by
  unfold margin_of
  simp only [Int.toNat_natCast, C04.idxMax]
  congr 1
  funext m k
  grind

theorem marginOf_le : ∀ (shape : List Nat) (pos : List Int), C04.marginOf shape pos ≤ C04.idxMax
  | [], _ => by simp [C04.marginOf]
  | _ :: _, [] => by simp [C04.marginOf]
  | d :: ds, p :: ps => by simp only [C04.marginOf]; have := marginOf_le ds ps; omega

/-- **`margin_of` (C++ text) = `C04.marginOf`** for every shape and every position with as many coordinates as the
    array has axes (`numpy::position` objects handed to `margin_of` are positions of `markers`: `nd_ = ndims()`). -/
theorem cscalar_margin_of_eq_model (shape : List Nat) (pos : List Int) (h : pos.length = shape.length) :
    margin_of (shape.map Int.ofNat) pos = C04.marginOf shape pos := by
  rw [margin_of_fold]
  have := foldl_range_getD2 (fun (m : Int) x y => min (min m y) (x - y - 1)) (shape.map Int.ofNat) pos C04.idxMax
    (by simpa using h)
  rw [this, marginOf_zip shape pos _ h (Int.le_refl _)]
  have := marginOf_le shape pos
  omega

example : margin_of [5, 7] [1, 3] = 1 ∧ margin_of [5, 7] [2, 6] = 0 ∧ margin_of [] [] = 9223372036854775807 := by decide

end Mahotas
