/-
Ties between the definitions that `translator/cscalar.py` regenerates on every run from the *text* of the C++
helper functions (`Mahotas/Generated/CScalar.lean`) and the hand-written model definitions the driver runs.

Each theorem `cscalar_<function>_eq_model` states: generated definition = model definition, for ALL arguments
(or under the guard the callers guarantee, which is then stated and explained). When the C++ function is edited the
generated text changes and the corresponding theorem is re-checked against it; an edit that changes the function's
value somewhere makes the theorem false, hence the proof fails: a broken obligation of every property whose model
uses the function. The proofs are `unfold` + case analysis (`grind`, `omega`), not `rfl` on syntax, so that
re-arrangements of the C++ that the translator understands and that do not change the value keep passing.
(Round 4b: the whole-kernel ties `Find2d`, `Find2dAcc`, `UnionFind` first restate the generated loop nest with the loop
combinators of `Loops.lean` — a definitional bridge, `rfl` — and argue semantically from there; `Spline`, `CurRank`,
`FastPositions`, `DtIntersect` are `unfold` + `grind`/`ring` as before.)

One file per function under `Proofs/CScalarTies/` (so that a broken tie breaks only the properties whose model uses that
function, see `harness/foundation/cscalar.py`); this file imports them all.
-/
import Mahotas.Proofs.CScalarTies.FixOffset
import Mahotas.Proofs.CScalarTies.ErodeSub
import Mahotas.Proofs.CScalarTies.DilateAdd
import Mahotas.Proofs.CScalarTies.TAbs
import Mahotas.Proofs.CScalarTies.SubmElem
import Mahotas.Proofs.CScalarTies.MarginOf
import Mahotas.Proofs.CScalarTies.Convex
import Mahotas.Proofs.CScalarTies.AtFlat
import Mahotas.Proofs.CScalarTies.PosToFlat
import Mahotas.Proofs.CScalarTies.FlatToPos
import Mahotas.Proofs.CScalarTies.Surf
import Mahotas.Proofs.CScalarTies.Lbp
import Mahotas.Proofs.CScalarTies.Find2d
import Mahotas.Proofs.CScalarTies.Find2dAcc
import Mahotas.Proofs.CScalarTies.Spline
import Mahotas.Proofs.CScalarTies.CurRank
import Mahotas.Proofs.CScalarTies.DtIntersect
import Mahotas.Proofs.CScalarTies.FastPositions
import Mahotas.Proofs.CScalarTies.UnionFind
import Mahotas.Proofs.CScalarTies.FastRow
