/- Tie of the generated `at_flat` of `numpypp/array.hpp` (see `Proofs/CScalarTies.lean` for the scheme). -/
import Mahotas.Generated.CScalar
import Mahotas.Model.C08
import Mahotas.Proofs.CScalarTies.Loops
namespace Mahotas
open Generated.C

/-- the generated loop of `at_flat` in normal form: state `(p, base)`, one step per axis from the last to the first -/
theorem at_flat_fold (p : Int) (c : Bool) (data : Int) (dims strides : List Int) :
    at_flat p c data dims strides = if c = true then data + p else
      ((List.range dims.length).foldl (fun (s : Int × Int) (k : Nat) =>
          (fun (s : Int × Int) (x y : Int) => (Int.tdiv s.1 x, s.2 + Int.tmod s.1 x * y)) s
            (dims.getD (Int.toNat (((dims.length : Int) - 1) - (k : Int))) 0)
            (strides.getD (Int.toNat (((dims.length : Int) - 1) - (k : Int))) 0)) (p, data)).2 := by
  unfold at_flat
  have hn : Int.toNat (((dims.length : Int) - 1) + 1) = dims.length := by omega
  simp only [hn]
  all_goals (split <;> first | rfl | (congr 2; funext s k; rfl) | grind)

theorem atFlatGo_zip : ∀ (ds : List Nat) (ss : List Int) (p : Nat) (b : Int), ss.length = ds.length →
    ((List.zip (ds.map Int.ofNat) ss).foldl (fun (s : Int × Int) xy => (Int.tdiv s.1 xy.1, s.2 + Int.tmod s.1 xy.1 * xy.2)) ((p : Int), b)).2
      = C08.atFlatGo ds ss p b
  | [], [], p, b, _ => by simp [C08.atFlatGo]
  | [], _ :: _, _, _, h => by simp at h
  | _ :: _, [], _, _, h => by simp at h
  | d :: ds, s :: ss, p, b, h => by
      have ih := atFlatGo_zip ds ss (p / d) (b + ((p % d : Nat) : Int) * s) (by simpa using h)
      simp only [List.map_cons, List.zip_cons_cons, List.foldl_cons, C08.atFlatGo, Int.ofNat_eq_natCast]
      rw [← ih]
      simp only [Int.tdiv_eq_ediv_of_nonneg (Int.natCast_nonneg p), Int.tmod_eq_emod_of_nonneg (Int.natCast_nonneg p), Int.natCast_ediv, Int.natCast_emod]

/-- **`aligned_array::at_flat` (C++ text, the non-const overload with the loop) = `C08.View.atFlat`** for every view
    with one stride per axis and every flat index `p ≥ 0`: the element offset the returned reference designates. The
    model computes on `Nat` (`/`, `%`), the C++ on `npy_intp`/`int` (`Int.tdiv`, `Int.tmod`): equal for `p ≥ 0`. -/
theorem cscalar_at_flat_eq_model (v : C08.View) (p : Nat) (h : v.strides.length = v.shape.length) :
    at_flat (p : Int) v.carray v.base (v.shape.map Int.ofNat) v.strides = v.atFlat p := by
  rw [at_flat_fold]
  unfold C08.View.atFlat
  split
  · rfl
  · have := foldl_range_desc_getD2 (fun (s : Int × Int) (x y : Int) => (Int.tdiv s.1 x, s.2 + Int.tmod s.1 x * y))
      (v.shape.map Int.ofNat) v.strides ((p : Int), v.base) (by simpa using h)
    rw [this, ← List.map_reverse]
    exact atFlatGo_zip v.shape.reverse v.strides.reverse p v.base (by simpa using h)

example : at_flat 5 false 10 [2, 3] [100, 7] = 10 + 1 * 100 + 2 * 7 ∧ at_flat 5 true 10 [2, 3] [100, 7] = 15 := by decide

end Mahotas
