/- Ties of the generated `isLeft`, `forward_cmp`, `reverse_cmp` of `_convex.cpp` (see `Proofs/CScalarTies.lean` for the scheme). -/
import Mahotas.Generated.CScalar
import Mahotas.Model.C15
namespace Mahotas
open Generated.C

/-- **`isLeft` (C++ text) = `C15.isLeft`**, all points (members are `long`: exact integers) -/
theorem cscalar_isLeft_eq_model (p0 p1 p2 : C15.Pt) : isLeft p0.1 p0.2 p1.1 p1.2 p2.1 p2.2 = C15.isLeft p0 p1 p2 := by
  unfold isLeft C15.isLeft; grind

/-- **`forward_cmp` (C++ text) = `C15.forwardCmp`** -/
theorem cscalar_forward_cmp_eq_model (a b : C15.Pt) : forward_cmp a.1 a.2 b.1 b.2 = C15.forwardCmp a b := by
  unfold forward_cmp C15.forwardCmp; grind

/-- **`reverse_cmp` (C++ text) = `C15.reverseCmp`** -/
theorem cscalar_reverse_cmp_eq_model (a b : C15.Pt) : reverse_cmp a.1 a.2 b.1 b.2 = C15.reverseCmp a b := by
  unfold reverse_cmp C15.reverseCmp; grind

example : isLeft 0 0 1 0 0 1 = 1 ∧ isLeft 0 0 0 1 1 0 = -1 ∧ forward_cmp 1 2 1 3 = true ∧ forward_cmp 2 0 1 9 = false
    ∧ reverse_cmp 1 2 1 3 = false ∧ reverse_cmp 2 0 1 9 = true := by decide

end Mahotas
