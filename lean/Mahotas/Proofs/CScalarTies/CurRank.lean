/- Tie of the generated `rank_currank` (the `currank` statements of `rank_filter`, `_convolve.cpp`) to `C07.curRankG`. -/
import Mahotas.Generated.CScalar
import Mahotas.Model.C07
namespace Mahotas
open Generated.C

/-- **`rank_filter`: `npy_intp currank = rank; if (n != N2) currank = npy_intp(n * rank/double(N2));` (C++ text) =
    `C07.curRankG`**, for every number of retrieved samples `n`, footprint size `N2`, rank, and every arithmetic `o` (conversion,
    division, truncation): the product `n * rank` is formed in the integers, converted, divided by the converted `N2`, truncated —
    in this order. `C07_currank_double_eq_floor` is about `curRankG`, hence about the text. -/
theorem cscalar_rank_currank_eq_model {α : Type} (o : C07.RankOps α) (n N2 rank : Nat) :
    rank_currank o.ofNat o.div o.trunc (n : Int) (N2 : Int) (rank : Int) = ((C07.curRankG o n N2 rank : Nat) : Int) := by
  unfold rank_currank C07.curRankG
  have h1 : Int.toNat ((n : Int) * (rank : Int)) = n * rank := by
    rw [← Int.natCast_mul]; exact Int.toNat_natCast _
  simp only [h1, Int.toNat_natCast]
  by_cases h : n = N2
  · subst h; simp
  · have : (n : Int) ≠ (N2 : Int) := by omega
    simp [h, this]

example : rank_currank (α := Nat) id (· / ·) id 3 9 4 = 1 ∧ rank_currank (α := Nat) id (· / ·) id 9 9 4 = 4 := by decide

end Mahotas
