/- Tie of the generated `dilate_add` (see `Proofs/CScalarTies.lean` for the scheme). -/
import Mahotas.Generated.CScalar
import Mahotas.Model.DType
namespace Mahotas
open Generated.C

/-- **`dilate_add<T>` and `dilate_add<bool>` (C++ text) = `dilateAdd`** for heights `b ≥ 0` or `b` the dtype minimum
    ("absent"): the standing assumption of C01/C02/C07 on structuring elements (`ASSUMPTIONS` of `harness/props/c01.py`).
    The C++ tests `b >= 0 && r < a`; the model (written for such heights) tests `r < a` only — for a negative height
    that is not the minimum the two differ, which is outside the domain the properties speak about. -/
theorem cscalar_dilate_add_eq_model (dt : DT) (a b : Int) (hb : 0 ≤ b ∨ b = dt.lo) :
    dilateAdd dt a b = if dt.isBool then dilate_add_bool a b else dilate_add dt a b := by
  unfold dilateAdd dilate_add dilate_add_bool
  grind

example : dilate_add (dtI 8) 100 100 = 127 ∧ dilate_add (dtI 8) (-5) 1 = -4 ∧ dilate_add (dtU 8) 200 100 = 255
    ∧ dilate_add (dtI 8) (-128) 3 = -128 ∧ dilate_add_bool 1 1 = 1 := by decide

end Mahotas
