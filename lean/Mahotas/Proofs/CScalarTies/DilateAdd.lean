/- Tie of the generated `dilate_add` (see `Proofs/CScalarTies.lean` for the scheme). -/
import Mahotas.Generated.CScalar
import Mahotas.Model.DType
namespace Mahotas
open Generated.C

/-- **`dilate_add<T>` and `dilate_add<bool>` (C++ text) = `dilateAdd`** for ALL values `a`, `b` (no hypothesis on the
    height): the model tests `b ≥ 0 ∧ r < a` exactly as the repaired C++ does, so negative heights that are not the dtype
    minimum (outside the documented domain of C01/C02/C07) are covered too. -/
theorem cscalar_dilate_add_eq_model (dt : DT) (a b : Int) :
    dilateAdd dt a b = if dt.isBool then dilate_add_bool a b else dilate_add dt a b := by
  unfold dilateAdd dilate_add dilate_add_bool
  grind

example : dilate_add (dtI 8) 100 100 = 127 ∧ dilate_add (dtI 8) (-5) 1 = -4 ∧ dilate_add (dtU 8) 200 100 = 255
    ∧ dilate_add (dtI 8) (-128) 3 = -128 ∧ dilate_add (dtI 8) 5 (-3) = 2 ∧ dilateAdd (dtI 8) 5 (-3) = 2 ∧ dilate_add_bool 1 1 = 1 := by decide

end Mahotas
