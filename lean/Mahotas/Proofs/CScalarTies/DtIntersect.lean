/- Tie of the generated `dt_intersect` (the assignment to `s` in `dist_transform`, `_distance.cpp`) to `C05.sInt`, at the exact
rationals the model of C05 computes in. -/
import Mahotas.Generated.CScalar
import Mahotas.Model.C05
import Mathlib.Tactic.Ring
import Mathlib.Data.Rat.Defs
import Mathlib.Data.Rat.Cast.Order
namespace Mahotas
open Generated.C

/-- **`dist_transform`: `s = ((f[q] + q²) − (f[v[k]] + v[k]²)) / 2 / (q − v[k])` (C++ text) = `C05.sInt`** over the rationals
    (where the model of C05 evaluates it), for every sampled function `g`, every root `u = v[k]` and every `q`: the same
    numerator, the same two divisions. -/
theorem cscalar_dt_intersect_eq_model (g : Nat → Rat) (u v : Nat) (s0 : Rat) :
    dt_intersect (α := Rat) (g v) (v : Int) (g u) (u : Int) s0 = C05.sInt g u v := by
  unfold dt_intersect C05.sInt
  push_cast
  simp only [div_div]
  ring

example : dt_intersect (α := Int) 0 2 4 0 0 = 0 ∧ dt_intersect (α := Int) 5 3 0 1 0 = 3 := by decide

end Mahotas
