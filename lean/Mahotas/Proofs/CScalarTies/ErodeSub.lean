/- Tie of the generated `erode_sub` (see `Proofs/CScalarTies.lean` for the scheme). -/
import Mahotas.Generated.CScalar
import Mahotas.Model.DType
namespace Mahotas
open Generated.C

/-! ### `_morph.cpp`: saturating helpers -/

/-- **`erode_sub<T>` and `erode_sub<bool>` (C++ text) = `erodeSub`**: the model dispatches on `dt.isBool` the way the
    compiler selects the `bool` specialisation. All arguments, every dtype. -/
theorem cscalar_erode_sub_eq_model (dt : DT) (a b : Int) :
    erodeSub dt a b = if dt.isBool then erode_sub_bool a b else erode_sub dt a b := by
  unfold erodeSub erode_sub erode_sub_bool
  grind

example : erode_sub (dtI 8) (-100) 100 = -128 ∧ erode_sub (dtU 8) 3 5 = 0 ∧ erode_sub (dtI 8) 5 (-128) = 127
    ∧ erode_sub_bool 1 1 = 1 ∧ erode_sub_bool 1 0 = 0 := by decide

end Mahotas
