/- Tie of the generated `fast_positions` (the statements of `fast_binary_dilate_erode_2d`, `_morph.cpp`, that build the offset list)
to `C01.fastPositions`. -/
import Mahotas.Generated.CScalar
import Mahotas.Model.C01
import Mahotas.Proofs.CScalarTies.Loops
namespace Mahotas
open Generated.C

/-- row-major enumeration: `for y < a: for x < b` visits the flat indices `0 … a*b - 1` in order -/
theorem range_mul_eq_flatMap (a b : Nat) :
    List.range (a * b) = (List.range a).flatMap fun y => (List.range b).map fun x => y * b + x := by
  induction a with
  | zero => simp
  | succ a ih =>
    rw [Nat.succ_mul, List.range_add, ih, List.range_succ, List.flatMap_append]
    simp

/-- what one structuring-element entry contributes to `positions` (clamp first, then the test `dy || dx`, as the C++ does) -/
def fastEntry (Nx Cy Cx : Int) (y x : Nat) : List Int :=
  let dy : Int := (y : Int) - Cy
  let dx : Int := (x : Int) - Cx
  let dx : Int := if dx > Nx then Nx else dx
  let dx : Int := if dx < -Nx then -Nx else dx
  if dy ≠ 0 ∨ dx ≠ 0 then [dy, dx] else []

theorem fast_positions_nf (bc : Int → Int → Bool) (Nx : Int) (By Bx : Nat) :
    fast_positions bc Nx [(By : Int), (Bx : Int)] =
      (List.range By).flatMap fun (y : Nat) => (List.range Bx).flatMap fun (x : Nat) =>
        if bc y x = true then fastEntry Nx (Int.tdiv By 2) (Int.tdiv Bx 2) y x else [] := by
  have h : fast_positions bc Nx [(By : Int), (Bx : Int)] =
      (List.range By).foldl (fun acc (y : Nat) => (List.range Bx).foldl (fun acc (x : Nat) =>
        acc ++ (if bc y x = true then fastEntry Nx (Int.tdiv By 2) (Int.tdiv Bx 2) y x else [])) acc) [] := by
    unfold fast_positions fastEntry
    simp only [List.getD_cons_zero, List.getD_cons_succ, Int.toNat_natCast, Int.toNat_zero, Int.toNat_one]
    congr 1
    funext acc y
    congr 1
    funext acc x
    grind
  rw [h]
  simp only [foldl_append_flatMap, List.nil_append]

theorem flatMap_congr_mem {α β : Type} (f g : α → List β) : ∀ (l : List α), (∀ a ∈ l, f a = g a) → l.flatMap f = l.flatMap g
  | [], _ => rfl
  | a :: l, h => by
      simp only [List.flatMap_cons]
      rw [h a (by simp), flatMap_congr_mem f g l (fun b hb => h b (by simp [hb]))]

theorem filterMap_flatMap_list {α β γ : Type} (F : α → Option β) (g : β → List γ) : ∀ (l : List α),
    (l.filterMap F).flatMap g = l.flatMap fun a => match F a with | none => [] | some b => g b
  | [] => rfl
  | a :: l => by
      simp only [List.filterMap_cons, List.flatMap_cons]
      cases h : F a <;> simp [filterMap_flatMap_list F g l]

/-- **the offset list of `fast_binary_dilate_erode_2d` (C++ text: `By`, `Bx`, `Cy`, `Cx`, the two loops with `continue`, the clamps
    `dx > Nx`, `dx < -Nx`, the test `dy || dx`, the two `push_back`) = `C01.fastPositions … true`**, flattened to `dy, dx, dy, dx, …`,
    for every structuring element `By × Bx` and every image with at least one column (`Nx ≥ 1`: the C++ tests `dy || dx` after the
    clamp, the model before it — for `Nx = 0`, an image without pixels, a clamped `dx = 0` would differ). `Bc.at(y, x)` is read
    as `bc[y * Bx + x] != 0`. -/
theorem cscalar_fast_positions_eq_model (Nx : Int) (hN : 1 ≤ Nx) (By Bx : Nat) (bc : Array Int) :
    fast_positions (fun y x => bc.getD (Int.toNat (y * (Bx : Int) + x)) 0 != 0) Nx [(By : Int), (Bx : Int)]
      = (C01.fastPositions Nx [By, Bx] bc true).flatMap fun p => [p.1, p.2] := by
  rw [fast_positions_nf]
  unfold C01.fastPositions
  simp only [range_mul_eq_flatMap, filterMap_flatMap_list, List.flatMap_assoc, List.flatMap_map]
  apply flatMap_congr_mem
  intro y _
  apply flatMap_congr_mem
  intro x hx
  have hx' : x < Bx := by simpa using hx
  have e1 : (y * Bx + x) / Bx = y := by
    rw [Nat.add_comm, Nat.add_mul_div_right _ _ (by omega), Nat.div_eq_of_lt hx']; omega
  have e2 : (y * Bx + x) % Bx = x := by
    rw [Nat.add_comm, Nat.add_mul_mod_self_right, Nat.mod_eq_of_lt hx']
  have e3 : Int.toNat ((y : Int) * (Bx : Int) + (x : Int)) = y * Bx + x := by
    rw [← Int.natCast_mul, ← Int.natCast_add]; exact Int.toNat_natCast _
  have c1 : Int.tdiv (By : Int) 2 = ((By / 2 : Nat) : Int) := by
    rw [Int.tdiv_eq_ediv_of_nonneg (Int.natCast_nonneg By)]; omega
  have c2 : Int.tdiv (Bx : Int) 2 = ((Bx / 2 : Nat) : Int) := by
    rw [Int.tdiv_eq_ediv_of_nonneg (Int.natCast_nonneg Bx)]; omega
  simp only [e1, e2, e3, c1, c2, fastEntry]
  grind

example : fast_positions (fun _ _ => true) 5 [3, 3] = [-1, -1, -1, 0, -1, 1, 0, -1, 0, 1, 1, -1, 1, 0, 1, 1]
    ∧ fast_positions (fun _ _ => true) 1 [1, 7] = [0, -1, 0, -1, 0, -1, 0, 1, 0, 1, 0, 1] := by decide

end Mahotas
