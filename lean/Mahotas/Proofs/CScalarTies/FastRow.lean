/- Tie of the generated `fast_row_dy` / `fast_row_n` (the per-row statements of `fast_binary_dilate_erode_2d`, `_morph.cpp`: the clamp
of the row offset and the length of the main loop) to `C01.fastRow` and the `n` of `C01.fastErodeRow`. -/
import Mahotas.Generated.CScalar
import Mahotas.Model.C01
namespace Mahotas
open Generated.C

/-- **`if ((y + dy) < 0) dy = -y; if ((y + dy) >= Ny) dy = -y+(Ny-1);` (C++ text) = `C01.fastRow`**: the row the pass reads
    (erosion) or writes (dilation), for every row `y`, height `Ny` and offset entry `dy` (the `dx` entry plays no role). -/
theorem cscalar_fast_row_dy_eq_model (Ny y : Nat) (dy dx : Int) :
    Int.toNat ((y : Int) + fast_row_dy (y : Int) (Ny : Int) dy dx) = C01.fastRow Ny y dy := by
  unfold fast_row_dy C01.fastRow
  grind

/-- **`n = Nx - t_abs(dx)` (C++ text) = the `n` of `C01.fastErodeRow`** (`Nx - dx.natAbs`, truncated at 0), for every `dx` -/
theorem cscalar_fast_row_n_eq_model (Nx : Nat) (y Ny dy dx : Int) :
    Int.toNat (fast_row_n y Ny (Nx : Int) dy dx) = Nx - dx.natAbs := by
  unfold fast_row_n t_abs
  grind

example : fast_row_dy 0 5 (-2) 1 = 0 ∧ fast_row_dy 4 5 3 0 = 0 ∧ fast_row_dy 2 5 1 0 = 1 ∧ fast_row_n 0 5 7 0 (-3) = 4 := by decide

end Mahotas
