/- Tie of the generated `find2d_marks` (the whole kernel `find2d` of `_convolve.cpp`: four nested loops, the compound loop
conditions `y < N0 && y + Nt0 <= N0`, `goto next_pos`, the store) to `C07.findMarks`. -/
import Mahotas.Generated.CScalar
import Mahotas.Model.C07
import Mahotas.Proofs.CScalarTies.Loops
namespace Mahotas
open Generated.C

/-! ### `find2d_marks` -/

/-- the generated kernel in terms of the loop forms above (definitional: structure eta for the state tuples, `Int.toNat ↑n = n`) -/
theorem find2d_marks_nf (ne : Int → Int → Int → Int → Bool) (N0 N1 Nt0 Nt1 : Nat) :
    find2d_marks ne [(N0 : Int), (N1 : Int)] [(Nt0 : Int), (Nt1 : Int)] =
      loopAlive N0 (fun y => (y : Int) + (Nt0 : Int) ≤ (N0 : Int)) (fun acc y =>
        loopAlive N1 (fun x => (x : Int) + (Nt1 : Int) ≤ (N1 : Int)) (fun acc x =>
          if ¬ ((List.range Nt0).foldl (fun b (sy : Nat) => if ¬ (b = true) then
                  (List.range Nt1).foldl (fun b (sx : Nat) =>
                    if ¬ (b = true) then (if ne ((y : Int) + (sy : Int)) ((x : Int) + (sx : Int)) (sy : Int) (sx : Int) = true then true else b) else b) b
                else b) false = true)
          then acc ++ [((y : Int), (x : Int))] else acc) acc) [] := by
  rfl

/-- `find2d` marks, in loop order, the corners `(y, x)` of the longest prefixes `y + Nt0 ≤ N0`, `x + Nt1 ≤ N1` at which no
    element comparison fails -/
theorem find2d_marks_eq (ne : Int → Int → Int → Int → Bool) (N0 N1 Nt0 Nt1 : Nat) :
    find2d_marks ne [(N0 : Int), (N1 : Int)] [(Nt0 : Int), (Nt1 : Int)] =
      ((List.range N0).takeWhile fun y => decide (y + Nt0 ≤ N0)).flatMap fun (y : Nat) =>
        ((((List.range N1).takeWhile fun x => decide (x + Nt1 ≤ N1)).filter fun (x : Nat) =>
          !((List.range Nt0).any fun sy => (List.range Nt1).any fun sx =>
              ne ((y : Int) + (sy : Int)) ((x : Int) + (sx : Int)) sy sx)).map fun (x : Nat) => ((y : Int), (x : Int))) := by
  rw [find2d_marks_nf]
  simp only [loopAlive_eq]
  have hin : ∀ (y x : Nat),
      (List.range Nt0).foldl (fun b (sy : Nat) => if ¬ (b = true) then
          (List.range Nt1).foldl (fun b (sx : Nat) =>
            if ¬ (b = true) then (if ne ((y : Int) + (sy : Int)) ((x : Int) + (sx : Int)) (sy : Int) (sx : Int) = true then true else b) else b) b
        else b) false
      = (List.range Nt0).any fun sy => (List.range Nt1).any fun sx => ne ((y : Int) + (sy : Int)) ((x : Int) + (sx : Int)) sy sx := by
    intro y x
    rw [foldl_sticky (r := fun (sy : Nat) => (List.range Nt1).any fun (sx : Nat) => ne ((y : Int) + (sy : Int)) ((x : Int) + (sx : Int)) sy sx)]
    · simp
    · intro k; simp
    · intro sy
      simp only [Bool.false_eq_true, not_false_eq_true, if_true]
      rw [foldl_sticky (r := fun (sx : Nat) => ne ((y : Int) + (sy : Int)) ((x : Int) + (sx : Int)) sy sx)]
      · simp
      · intro k; simp
      · intro sx; cases ne ((y : Int) + (sy : Int)) ((x : Int) + (sx : Int)) sy sx <;> simp
  simp only [hin, foldl_guarded_append]
  have hxy : ∀ (a b c : Nat), ((a : Int) + (b : Int) ≤ (c : Int)) ↔ a + b ≤ c := by intros; omega
  simp only [hxy]
  rw [foldl_append_flatMap]
  simp

theorem matchesAt_eq (f t : Img Int) (Nt0 Nt1 : Nat) (ht : t.shape = [Nt0, Nt1]) (y x : Nat) :
    C07.matchesAt f t y x = !((List.range Nt0).any fun sy => (List.range Nt1).any fun sx =>
      f.getD [(y : Int) + (sy : Int), (x : Int) + (sx : Int)] 0 != t.getD [(sy : Int), (sx : Int)] 0) := by
  unfold C07.matchesAt
  simp only [ht, Int.natCast_add]
  simp [List.all_eq_not_any_not]
  rfl

/-- **`find2d` (C++ text: loop headers, comparison loops, `goto next_pos`, the store) = `C07.findMarks`**: for every 2-D image and
    2-D template, the positions the kernel marks — with `array.at(i, j) != target.at(k, l)` read as the comparison of the model's
    elements — are exactly the list the model computes, in the same order. -/
theorem cscalar_find2d_marks_eq_model (f t : Img Int) (N0 N1 Nt0 Nt1 : Nat) (hf : f.shape = [N0, N1]) (ht : t.shape = [Nt0, Nt1]) :
    find2d_marks (fun i j k l => f.getD [i, j] 0 != t.getD [k, l] 0) (f.shape.map Int.ofNat) (t.shape.map Int.ofNat)
      = (C07.findMarks f t).map fun p => ((p.1 : Int), (p.2 : Int)) := by
  rw [hf, ht]
  simp only [List.map_cons, List.map_nil, Int.ofNat_eq_natCast]
  rw [find2d_marks_eq]
  unfold C07.findMarks
  simp only [hf, ht, List.map_flatMap, List.map_map]
  congr 1
  funext y
  simp only [matchesAt_eq f t Nt0 Nt1 ht]
  rfl

example : find2d_marks (fun i j k l => decide (i + j ≠ k + l + 1)) [3, 4] [2, 2] = [(0, 1), (1, 0)]
    ∧ find2d_marks (fun _ _ _ _ => false) [2, 2] [3, 1] = [] := by decide

end Mahotas
