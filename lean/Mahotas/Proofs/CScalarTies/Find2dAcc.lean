/- Tie of the generated `find2d_accesses` (every index pair the kernel `find2d` of `_convolve.cpp` can use, in source order) to
`C10.find2dAccesses`, the list `C10_find2d_in_bounds` speaks about. -/
import Mahotas.Generated.CScalar
import Mahotas.Model.C10
import Mahotas.Proofs.CScalarTies.Loops
namespace Mahotas
open Generated.C

theorem find2d_accesses_nf (N0 N1 Nt0 Nt1 : Nat) :
    find2d_accesses [(N0 : Int), (N1 : Int)] [(Nt0 : Int), (Nt1 : Int)] =
      loopAlive N0 (fun y => (y : Int) + (Nt0 : Int) ≤ (N0 : Int)) (fun acc y =>
        loopAlive N1 (fun x => (x : Int) + (Nt1 : Int) ≤ (N1 : Int)) (fun acc x =>
          let st := (List.range Nt0).foldl (fun (st : List (Int × Int × Int) × Bool) (sy : Nat) => if ¬ (st.2 = true) then
                  (List.range Nt1).foldl (fun (st : List (Int × Int × Int) × Bool) (sx : Nat) =>
                    if ¬ (st.2 = true) then
                      (st.1 ++ [(0, (y : Int) + (sy : Int), (x : Int) + (sx : Int))] ++ [(1, (sy : Int), (sx : Int))], st.2)
                    else st) st
                else st) (acc, false)
          if ¬ (st.2 = true) then st.1 ++ [(2, (y : Int), (x : Int))] else st.1) acc) [] := by
  rfl

theorem takeWhile_range_fit (n t : Nat) (ht : 1 ≤ t) :
    (List.range n).takeWhile (fun y => decide (y + t ≤ n)) = List.range (n + 1 - t) := by
  by_cases h : t ≤ n
  · have e : n = (n + 1 - t) + (t - 1) := by omega
    conv => lhs; rw [e, List.range_add]
    rw [List.takeWhile_append_of_pos (by intro a ha; simp at ha; simp; omega)]
    have : ((List.range (t - 1)).map fun x => n + 1 - t + x).takeWhile (fun y => decide (y + t ≤ n + 1 - t + (t - 1))) = [] := by
      cases ht' : t - 1 with
      | zero => simp
      | succ m =>
        rw [List.range_succ_eq_map, List.map_cons, List.takeWhile_cons_of_neg]
        simp; omega
    rw [this]; simp
  · have e : n + 1 - t = 0 := by omega
    rw [e]
    cases n with
    | zero => simp
    | succ m =>
      rw [List.range_succ_eq_map, List.takeWhile_cons_of_neg]
      · rfl
      · simp only [decide_eq_true_eq]; omega

/-- the accesses one trace event stands for: index pair on `array` / `out` (extents `N0 × N1`) or on `target` (`Nt0 × Nt1`) -/
def find2dAcc (N0 N1 Nt0 Nt1 : Int) (e : Int × Int × Int) : List C10.Acc :=
  if e.1 = 1 then [⟨e.2.1, Nt0⟩, ⟨e.2.2, Nt1⟩] else [⟨e.2.1, N0⟩, ⟨e.2.2, N1⟩]

/-- **`find2d` (C++ text), every index pair it can use = `C10.find2dAccesses … true`** (the list `C10_find2d_in_bounds` speaks
    about), for every image and every template with at least one element per axis: same accesses, same order. -/
theorem cscalar_find2d_accesses_eq_model (N0 N1 Nt0 Nt1 : Nat) (h0 : 1 ≤ Nt0) (h1 : 1 ≤ Nt1) :
    (find2d_accesses [(N0 : Int), (N1 : Int)] [(Nt0 : Int), (Nt1 : Int)]).flatMap (find2dAcc N0 N1 Nt0 Nt1)
      = C10.find2dAccesses N0 N1 Nt0 Nt1 true := by
  rw [find2d_accesses_nf]
  have hxy : ∀ (a b c : Nat), ((a : Int) + (b : Int) ≤ (c : Int)) ↔ a + b ≤ c := by intros; omega
  simp only [loopAlive_eq, hxy, takeWhile_range_fit _ _ h0, takeWhile_range_fit _ _ h1]
  have hin : ∀ (y x : Nat) (acc : List (Int × Int × Int)),
      (List.range Nt0).foldl (fun (st : List (Int × Int × Int) × Bool) (sy : Nat) => if ¬ (st.2 = true) then
            (List.range Nt1).foldl (fun (st : List (Int × Int × Int) × Bool) (sx : Nat) =>
              if ¬ (st.2 = true) then
                (st.1 ++ [(0, (y : Int) + (sy : Int), (x : Int) + (sx : Int))] ++ [(1, (sy : Int), (sx : Int))], st.2)
              else st) st
          else st) (acc, false)
      = (acc ++ (List.range Nt0).flatMap fun (sy : Nat) => (List.range Nt1).flatMap fun (sx : Nat) =>
          [((0 : Int), (y : Int) + (sy : Int), (x : Int) + (sx : Int)), ((1 : Int), (sy : Int), (sx : Int))], false) := by
    intro y x acc
    rw [foldl_flag_false _ (fun acc (sy : Nat) => acc ++ (List.range Nt1).flatMap fun (sx : Nat) =>
          [((0 : Int), (y : Int) + (sy : Int), (x : Int) + (sx : Int)), ((1 : Int), (sy : Int), (sx : Int))])]
    · rw [foldl_append_flatMap]
    · intro a sy
      simp only [Bool.false_eq_true, not_false_eq_true, if_true]
      rw [foldl_flag_false _ (fun acc (sx : Nat) => acc ++ [((0 : Int), (y : Int) + (sy : Int), (x : Int) + (sx : Int)), ((1 : Int), (sy : Int), (sx : Int))])]
      · rw [foldl_append_flatMap]
      · intro a sx; simp
  simp only [hin, Bool.false_eq_true, not_false_eq_true, if_true]
  simp only [List.append_assoc]
  simp only [foldl_append_flatMap, List.nil_append]
  unfold C10.find2dAccesses C10.rangeI
  have e0 : ((N0 : Int) - (Nt0 : Int) + 1).toNat = N0 + 1 - Nt0 := by omega
  have e1 : ((N1 : Int) - (Nt1 : Int) + 1).toNat = N1 + 1 - Nt1 := by omega
  simp [e0, e1, List.flatMap_assoc, find2dAcc]
  simp only [List.flatMap_map, Int.ofNat_eq_natCast]

example : (find2d_accesses [3, 3] [2, 2]).length = 36 ∧ (find2d_accesses [2, 2] [3, 1]) = [] := by decide

end Mahotas
