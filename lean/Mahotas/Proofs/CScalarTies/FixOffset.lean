/- Tie of the generated `fix_offset` (see `Proofs/CScalarTies.lean` for the scheme). -/
import Mahotas.Generated.CScalar
import Mahotas.Model.Border
namespace Mahotas
open Generated.C

/-! ### `_filters.h`: `fix_offset` -/

/-- **`fix_offset` (C++ text) = `fixOffset` (model)** for every mode, coordinate and length; the generated function
    takes the numeric value of the `ExtendMode` enumerator (`Mode.code`, itself checked against the enum by
    `Proofs/Modes.lean`), and `border_flag_value` is `none`. -/
theorem cscalar_fix_offset_eq_model (m : Mode) (cc len : Int) :
    fix_offset (m.code : Int) cc len = fixOffset m cc len := by
  unfold fix_offset fixOffset
  cases m <;> simp only [Mode.code, Int.tmod_def] <;> grind

example : fix_offset 3 (-4) 3 = some 0 ∧ fix_offset 2 7 3 = some 1 ∧ fix_offset 1 (-1) 5 = some 4
    ∧ fix_offset 0 9 4 = some 3 ∧ fix_offset 4 (-1) 4 = none ∧ fix_offset 5 2 4 = some 2 := by decide

end Mahotas
