/- Tie of the generated `flat_to_pos` of `numpypp/array.hpp` (see `Proofs/CScalarTies.lean` for the scheme). -/
import Mahotas.Generated.CScalar
import Mahotas.Model.C08
import Mahotas.Proofs.CScalarTies.Loops
namespace Mahotas
open Generated.C C08

theorem flatToPosGo_snoc : ∀ (l : List Nat) (x : Nat) (p : Int),
    flatToPosGo (l ++ [x]) p = ((flatToPosGo l p).1 ++ [Int.tmod (flatToPosGo l p).2 (x : Int)], Int.tdiv (flatToPosGo l p).2 (x : Int))
  | [], x, p => by simp [flatToPosGo]
  | d :: l, x, p => by
      simp only [List.cons_append, flatToPosGo, flatToPosGo_snoc l x]

/-- one iteration of the loop of `flat_to_pos` at index `k` (axis `n - 1 - k`) -/
def ftpStep (n : Nat) (dims : List Int) (s : List Int × Int) (k : Nat) : List Int × Int :=
  (s.1.set (n - 1 - k) (Int.tmod s.2 (dims.getD (n - 1 - k) 0)), Int.tdiv s.2 (dims.getD (n - 1 - k) 0))

theorem ftp_loop : ∀ (tl hd : List Nat) (p : Int),
    (List.range tl.length).foldl (ftpStep (hd.length + tl.length) ((hd ++ tl).map Int.ofNat))
        (List.replicate (hd.length + tl.length) (0 : Int), p)
      = (List.replicate hd.length (0 : Int) ++ (flatToPosGo tl.reverse p).1.reverse, (flatToPosGo tl.reverse p).2)
  | [], hd, p => by simp [flatToPosGo]
  | x :: tl, hd, p => by
      have ih := ftp_loop tl (hd ++ [x]) p
      have e1 : (hd ++ [x]).length + tl.length = hd.length + (tl.length + 1) := by simp; omega
      have e2 : (hd ++ [x]) ++ tl = hd ++ x :: tl := by simp
      rw [e1, e2] at ih
      rw [List.length_cons, List.range_succ, List.foldl_append, ih]
      simp only [List.foldl_cons, List.foldl_nil, ftpStep, List.reverse_cons, flatToPosGo_snoc]
      have e3 : hd.length + (tl.length + 1) - 1 - tl.length = hd.length := by omega
      rw [e3]
      have e4 : (List.map Int.ofNat (hd ++ x :: tl)).getD hd.length 0 = (x : Int) := by
        simp [List.getD_eq_getElem?_getD]
      rw [e4]
      congr 1
      simp only [List.length_append, List.length_cons, List.length_nil, List.replicate_succ', List.append_assoc, List.reverse_append,
        List.reverse_cons, List.reverse_nil, List.nil_append, List.cons_append]
      rw [List.set_append_right _ _ (by simp)]
      simp

theorem flatToPosGo_length : ∀ (l : List Nat) (p : Int), (flatToPosGo l p).1.length = l.length
  | [], p => by simp [flatToPosGo]
  | d :: l, p => by simp [flatToPosGo, flatToPosGo_length l]

/-- the generated definition in normal form: the loop as `ftpStep`, then the carry into axis 0 -/
theorem flat_to_pos_fold (p : Int) (dims : List Int) :
    flat_to_pos p dims =
      (let r := (List.range dims.length).foldl (ftpStep dims.length dims) (List.replicate dims.length (0 : Int), p)
       if r.2 ≠ 0 then r.1.set 0 (r.1.getD 0 0 + r.2 * dims.getD 0 0) else r.1) := by
  unfold flat_to_pos
  have hn : Int.toNat (((dims.length : Int) - 1) + 1) = dims.length := by omega
  simp only [hn, Int.toNat_zero]
  have : (List.range dims.length).foldl (fun (x : List Int × Int) (k_ : Nat) =>
        (x.1.set (Int.toNat (((dims.length : Int) - 1) - (k_ : Int))) (Int.tmod x.2 (dims.getD (Int.toNat (((dims.length : Int) - 1) - (k_ : Int))) 0)),
         Int.tdiv x.2 (dims.getD (Int.toNat (((dims.length : Int) - 1) - (k_ : Int))) 0))) (List.replicate dims.length (0 : Int), p)
      = (List.range dims.length).foldl (ftpStep dims.length dims) (List.replicate dims.length (0 : Int), p) := by
    apply foldl_congr_mem
    intro s k hk
    have hk' : k < dims.length := by simpa using hk
    have e : Int.toNat (((dims.length : Int) - 1) - (k : Int)) = dims.length - 1 - k := by omega
    simp only [e, ftpStep]
  rw [← this]
  all_goals (first | rfl | grind)

/-- **`aligned_array::flat_to_pos` (C++ text) = `C08.View.flatToPos`** for every shape and every flat index (negative ones
    included: C `%` and `/` truncate, and what is left of `p` is carried into axis 0, on both sides) -/
theorem cscalar_flat_to_pos_eq_model (v : View) (p : Int) :
    flat_to_pos p (v.shape.map Int.ofNat) = v.flatToPos p := by
  rw [flat_to_pos_fold]
  have h := ftp_loop v.shape [] p
  simp only [List.length_nil, Nat.zero_add, List.nil_append, List.replicate_zero] at h
  simp only [List.length_map, h]
  unfold View.flatToPos
  have hl := flatToPosGo_length v.shape.reverse p
  generalize flatToPosGo v.shape.reverse p = r at hl ⊢
  cases hs : v.shape with
  | nil =>
    have : r.1 = [] := by simpa [hs] using hl
    simp [this]
  | cons d0 ds =>
    have hr : r.1.reverse.length = ds.length + 1 := by simp [hl, hs]
    cases hrr : r.1.reverse with
    | nil => simp [hrr] at hr
    | cons x xs => by_cases hp : r.2 = 0 <;> simp [hp, hrr]


example : flat_to_pos 17 [4, 5] = [3, 2] ∧ flat_to_pos 23 [4, 5] = [4 + 0, 3] ∧ flat_to_pos 0 [] = [] := by decide

end Mahotas
