/- Ties of the generated `roll_right` and `map` of `features/_lbp.cpp` (see `Proofs/CScalarTies.lean` for the scheme). -/
import Mahotas.Generated.CScalar
import Mahotas.Model.C10Misc
namespace Mahotas
open Generated.C C10Misc

theorem roll_right_lt (v : Nat) (points : Int) (hv : v < 4294967296) : roll_right v points < 4294967296 := by
  unfold roll_right
  have h1 : v >>> 1 < 2 ^ 32 := by
    have := Nat.shiftRight_le v 1; omega
  have h2 : (v &&& 1) <<< ((points - 1) % 32).toNat % 4294967296 < 2 ^ 32 := Nat.mod_lt _ (by decide)
  have := Nat.or_lt_two_pow h1 h2
  omega

/-- **`roll_right` (C++ text) = `C10Misc.rollRight32`** for every 32-bit value and every `points` (the shift count is taken
    mod 32 on both sides: the x86 behaviour, made explicit by the model and by the translator) -/
theorem cscalar_roll_right_eq_model (v : Nat) (points : Int) (hv : v < 4294967296) :
    roll_right v points = rollRight32 points v := by
  have h := roll_right_lt v points hv
  unfold roll_right at h
  unfold roll_right rollRight32 u32
  exact (Nat.mod_eq_of_lt h).symm

theorem lbpMapLoop_fold (points : Int) : ∀ (n : Nat) (v mn : Nat), v < 4294967296 →
    ((List.range n).foldl (fun (s : Nat × Nat) (_ : Nat) =>
        (roll_right s.1 points, if roll_right s.1 points < s.2 then roll_right s.1 points else s.2)) (v, mn)).2
      = lbpMapLoop points n v mn
  | 0, v, mn, _ => by simp [lbpMapLoop]
  | n + 1, v, mn, hv => by
      simp only [List.range_succ_eq_map, List.foldl_cons, List.foldl_map, lbpMapLoop]
      rw [← cscalar_roll_right_eq_model v points hv]
      exact lbpMapLoop_fold points n _ _ (roll_right_lt v points hv)

/-- **`map` of `_lbp.cpp` (C++ text) = `C10Misc.lbpMap32`** for every 32-bit value and every `points` -/
theorem cscalar_lbp_map_eq_model (v : Nat) (points : Int) (hv : v < 4294967296) :
    lbp_map v points = lbpMap32 points v := by
  unfold lbp_map lbpMap32
  rw [← lbpMapLoop_fold points points.toNat v v hv]
  all_goals (first | rfl | (congr 2; funext s k; rfl) | grind)

example : roll_right 5 4 = 10 ∧ lbp_map 6 4 = 3 ∧ lbp_map 4294967295 32 = 4294967295 := by decide

end Mahotas
