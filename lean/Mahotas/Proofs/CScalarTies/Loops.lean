/- Loops of the generated definitions (`List.foldl` over `List.range` with `List.getD` reads at the loop index) as folds
over the zipped argument lists: what the recursive hand-written models compute. Shared by the ties of the loop functions. -/
namespace Mahotas

/-- a `for (d = 0; d != n; ++d)` loop that reads two arrays at `[d]` only is a fold over the zipped lists -/
theorem foldl_range_getD2 {σ : Type} (f : σ → Int → Int → σ) :
    ∀ (xs ys : List Int) (s : σ), ys.length = xs.length →
      (List.range xs.length).foldl (fun s (k : Nat) => f s (xs.getD k 0) (ys.getD k 0)) s
        = (List.zip xs ys).foldl (fun s xy => f s xy.1 xy.2) s
  | [], ys, s, _ => by simp
  | x :: xs, [], s, h => by simp at h
  | x :: xs, y :: ys, s, h => by
      have ih := foldl_range_getD2 f xs ys (f s x y) (by simpa using h)
      simp only [List.length_cons, List.range_succ_eq_map, List.foldl_cons, List.foldl_map, List.zip_cons_cons,
        List.getD_cons_zero, List.getD_cons_succ]
      exact ih

theorem foldl_congr_mem {σ α : Type} (f g : σ → α → σ) : ∀ (l : List α) (s : σ), (∀ s, ∀ k ∈ l, f s k = g s k) →
    l.foldl f s = l.foldl g s
  | [], _, _ => rfl
  | k :: l, s, h => by
      simp only [List.foldl_cons]
      rw [h s k (by simp)]
      exact foldl_congr_mem f g l _ (fun s k hk => h s k (by simp [hk]))

theorem getD_reverse_idx (xs : List Int) (k : Nat) (hk : k < xs.length) :
    xs.getD (xs.length - 1 - k) 0 = xs.reverse.getD k 0 := by
  simp only [List.getD_eq_getElem?_getD, List.getElem?_reverse hk]

/-- descending loop `for (d = n - 1; d >= 0; --d)` reading two arrays at `[d]` only = fold over the reversed zipped lists -/
theorem foldl_range_desc_getD2 {σ : Type} (f : σ → Int → Int → σ) (xs ys : List Int) (s : σ) (h : ys.length = xs.length) :
    (List.range xs.length).foldl (fun s (k : Nat) =>
        f s (xs.getD (Int.toNat (((xs.length : Int) - 1) - (k : Int))) 0)
            (ys.getD (Int.toNat (((xs.length : Int) - 1) - (k : Int))) 0)) s
      = (List.zip xs.reverse ys.reverse).foldl (fun s xy => f s xy.1 xy.2) s := by
  have := foldl_range_getD2 f xs.reverse ys.reverse s (by simp [h])
  simp only [List.length_reverse] at this
  rw [← this]
  apply foldl_congr_mem
  intro s k hk
  have hk' : k < xs.length := by simpa using hk
  have e : Int.toNat (((xs.length : Int) - 1) - (k : Int)) = xs.length - 1 - k := by omega
  rw [e, getD_reverse_idx xs k hk']
  have e2 : xs.length - 1 - k = ys.length - 1 - k := by omega
  rw [e2, getD_reverse_idx ys k (by omega)]

/-! ### loop forms the translator emits -/

/-- `for (i = 0; i < n && P i; ++i) s = f s i`: a fold with an `alive` flag -/
def loopAlive {σ : Type} (n : Nat) (P : Nat → Prop) [DecidablePred P] (f : σ → Nat → σ) (s : σ) : σ :=
  ((List.range n).foldl (fun (st : Bool × σ) k => if st.1 = true ∧ P k then (true, f st.2 k) else (false, st.2)) (true, s)).2

theorem foldl_dead {σ : Type} (P : Nat → Prop) [DecidablePred P] (f : σ → Nat → σ) :
    ∀ (l : List Nat) (s : σ),
      l.foldl (fun (st : Bool × σ) k => if st.1 = true ∧ P k then (true, f st.2 k) else (false, st.2)) (false, s) = (false, s)
  | [], _ => rfl
  | k :: l, s => by simp only [List.foldl_cons]; simpa using foldl_dead P f l s

theorem foldl_alive {σ : Type} (P : Nat → Prop) [DecidablePred P] (f : σ → Nat → σ) :
    ∀ (l : List Nat) (s : σ),
      (l.foldl (fun (st : Bool × σ) k => if st.1 = true ∧ P k then (true, f st.2 k) else (false, st.2)) (true, s)).2
        = (l.takeWhile (fun k => decide (P k))).foldl f s
  | [], _ => rfl
  | k :: l, s => by
      simp only [List.foldl_cons, List.takeWhile_cons, true_and]
      by_cases h : P k
      · simp only [h, if_true, decide_true, List.foldl_cons]
        exact foldl_alive P f l (f s k)
      · simp only [h, if_false, decide_false]
        rw [foldl_dead P f l s]; simp

/-- the loop stops at the first index where the extra test fails: it is the fold over the longest prefix satisfying it -/
theorem loopAlive_eq {σ : Type} (n : Nat) (P : Nat → Prop) [DecidablePred P] (f : σ → Nat → σ) (s : σ) :
    loopAlive n P f s = ((List.range n).takeWhile (fun k => decide (P k))).foldl f s :=
  foldl_alive P f _ s

theorem foldl_append_flatMap {α β : Type} (g : α → List β) : ∀ (l : List α) (a : List β),
    l.foldl (fun acc k => acc ++ g k) a = a ++ l.flatMap g
  | [], a => by simp
  | k :: l, a => by simp [foldl_append_flatMap g l (a ++ g k)]

/-- a flag that, once set, stays set and disables the body (`goto` out of the loops): `b || any` -/
theorem foldl_sticky {α : Type} (F : Bool → α → Bool) (r : α → Bool) (h1 : ∀ k, F true k = true) (h0 : ∀ k, F false k = r k) :
    ∀ (l : List α) (b : Bool), l.foldl F b = (b || l.any r)
  | [], b => by simp
  | k :: l, b => by
      simp only [List.foldl_cons, List.any_cons]
      rw [foldl_sticky F r h1 h0 l]
      cases b <;> simp [h1, h0]

/-- a guarded append per index = the filtered list, mapped -/
theorem foldl_guarded_append {α β : Type} (c : α → Bool) (g : α → β) : ∀ (l : List α) (a : List β),
    l.foldl (fun acc k => if ¬ (c k = true) then acc ++ [g k] else acc) a = a ++ (l.filter fun k => !c k).map g
  | [], a => by simp
  | k :: l, a => by
      simp only [List.foldl_cons, List.filter_cons]
      rw [foldl_guarded_append c g l]
      cases h : c k <;> simp

/-- a loop whose `goto` flag is never set -/
theorem foldl_flag_false {A α : Type} (F : A × Bool → α → A × Bool) (g : A → α → A) (h : ∀ a k, F (a, false) k = (g a k, false)) :
    ∀ (l : List α) (a : A), l.foldl F (a, false) = (l.foldl g a, false)
  | [], _ => rfl
  | k :: l, a => by simp only [List.foldl_cons, h]; exact foldl_flag_false F g h l _

end Mahotas
