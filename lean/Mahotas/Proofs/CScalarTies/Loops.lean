/- Loops of the generated definitions (`List.foldl` over `List.range` with `List.getD` reads at the loop index) as folds
over the zipped argument lists: what the recursive hand-written models compute. Shared by the ties of the loop functions. -/
namespace Mahotas

/-- a `for (d = 0; d != n; ++d)` loop that reads two arrays at `[d]` only is a fold over the zipped lists -/
theorem foldl_range_getD2 {σ : Type} (f : σ → Int → Int → σ) :
    ∀ (xs ys : List Int) (s : σ), ys.length = xs.length →
      (List.range xs.length).foldl (fun s (k : Nat) => f s (xs.getD k 0) (ys.getD k 0)) s
        = (List.zip xs ys).foldl (fun s xy => f s xy.1 xy.2) s
  | [], ys, s, _ => by simp
  | x :: xs, [], s, h => by simp at h
  | x :: xs, y :: ys, s, h => by
      have ih := foldl_range_getD2 f xs ys (f s x y) (by simpa using h)
      simp only [List.length_cons, List.range_succ_eq_map, List.foldl_cons, List.foldl_map, List.zip_cons_cons,
        List.getD_cons_zero, List.getD_cons_succ]
      exact ih

theorem foldl_congr_mem {σ α : Type} (f g : σ → α → σ) : ∀ (l : List α) (s : σ), (∀ s, ∀ k ∈ l, f s k = g s k) →
    l.foldl f s = l.foldl g s
  | [], _, _ => rfl
  | k :: l, s, h => by
      simp only [List.foldl_cons]
      rw [h s k (by simp)]
      exact foldl_congr_mem f g l _ (fun s k hk => h s k (by simp [hk]))

theorem getD_reverse_idx (xs : List Int) (k : Nat) (hk : k < xs.length) :
    xs.getD (xs.length - 1 - k) 0 = xs.reverse.getD k 0 := by
  simp only [List.getD_eq_getElem?_getD, List.getElem?_reverse hk]

/-- descending loop `for (d = n - 1; d >= 0; --d)` reading two arrays at `[d]` only = fold over the reversed zipped lists -/
theorem foldl_range_desc_getD2 {σ : Type} (f : σ → Int → Int → σ) (xs ys : List Int) (s : σ) (h : ys.length = xs.length) :
    (List.range xs.length).foldl (fun s (k : Nat) =>
        f s (xs.getD (Int.toNat (((xs.length : Int) - 1) - (k : Int))) 0)
            (ys.getD (Int.toNat (((xs.length : Int) - 1) - (k : Int))) 0)) s
      = (List.zip xs.reverse ys.reverse).foldl (fun s xy => f s xy.1 xy.2) s := by
  have := foldl_range_getD2 f xs.reverse ys.reverse s (by simp [h])
  simp only [List.length_reverse] at this
  rw [← this]
  apply foldl_congr_mem
  intro s k hk
  have hk' : k < xs.length := by simpa using hk
  have e : Int.toNat (((xs.length : Int) - 1) - (k : Int)) = xs.length - 1 - k := by omega
  rw [e, getD_reverse_idx xs k hk']
  have e2 : xs.length - 1 - k = ys.length - 1 - k := by omega
  rw [e2, getD_reverse_idx ys k (by omega)]

end Mahotas
