/- Tie of the generated `margin_of` (see `Proofs/CScalarTies.lean` for the scheme). -/
import Mahotas.Generated.CScalar
import Mahotas.Model.C04
import Mahotas.Proofs.CScalarTies.Loops
namespace Mahotas
open Generated.C

/-! ### `_morph.cpp`: `margin_of` (a loop over the axes) -/

theorem marginOf_zip : ∀ (ds : List Nat) (ps : List Int) (m : Int), ps.length = ds.length → m ≤ C04.idxMax →
    (List.zip (ds.map Int.ofNat) ps).foldl (fun m xy => min (min m xy.2) (xy.1 - xy.2 - 1)) m = min m (C04.marginOf ds ps)
  | [], [], m, _, hm => by simp [C04.marginOf]; omega
  | [], _ :: _, m, h, _ => by simp at h
  | _ :: _, [], m, h, _ => by simp at h
  | d :: ds, p :: ps, m, h, hm => by
      have ih := marginOf_zip ds ps (min (min m p) ((d : Int) - p - 1)) (by simpa using h) (by omega)
      simp only [List.map_cons, List.zip_cons_cons, List.foldl_cons, C04.marginOf, C04.axisMargin]
      simp only [Int.ofNat_eq_natCast]
      rw [ih]; omega

/-- the generated loop of `margin_of`, with the two `if (x < margin) margin = x;` updates read as `min` -/
theorem margin_of_fold (dims pos : List Int) :
    margin_of dims pos = (List.range dims.length).foldl
      (fun m (k : Nat) => min (min m (pos.getD k 0)) (dims.getD k 0 - pos.getD k 0 - 1)) C04.idxMax := by
  unfold margin_of
  simp only [Int.toNat_natCast, C04.idxMax]
  congr 1
  funext m k
  grind

theorem marginOf_le : ∀ (shape : List Nat) (pos : List Int), C04.marginOf shape pos ≤ C04.idxMax
  | [], _ => by simp [C04.marginOf]
  | _ :: _, [] => by simp [C04.marginOf]
  | d :: ds, p :: ps => by simp only [C04.marginOf]; have := marginOf_le ds ps; omega

/-- **`margin_of` (C++ text) = `C04.marginOf`** for every shape and every position with as many coordinates as the
    array has axes (`numpy::position` objects handed to `margin_of` are positions of `markers`: `nd_ = ndims()`). -/
theorem cscalar_margin_of_eq_model (shape : List Nat) (pos : List Int) (h : pos.length = shape.length) :
    margin_of (shape.map Int.ofNat) pos = C04.marginOf shape pos := by
  rw [margin_of_fold]
  have := foldl_range_getD2 (fun (m : Int) x y => min (min m y) (x - y - 1)) (shape.map Int.ofNat) pos C04.idxMax
    (by simpa using h)
  rw [this, marginOf_zip shape pos _ h (Int.le_refl _)]
  have := marginOf_le shape pos
  omega

example : margin_of [5, 7] [1, 3] = 1 ∧ margin_of [5, 7] [2, 6] = 0 ∧ margin_of [] [] = 9223372036854775807 := by decide

end Mahotas
