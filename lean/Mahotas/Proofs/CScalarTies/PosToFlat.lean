/- Tie of the generated `pos_to_flat` of `numpypp/array.hpp` (see `Proofs/CScalarTies.lean` for the scheme). -/
import Mahotas.Generated.CScalar
import Mahotas.Model.C08
import Mahotas.Proofs.CScalarTies.Loops
namespace Mahotas
open Generated.C

/-- the generated loop of `pos_to_flat` in normal form: state `(res, cummul)` -/
theorem pos_to_flat_fold (dims pos : List Int) :
    pos_to_flat dims pos =
      ((List.range dims.length).foldl (fun (s : Int × Int) (k : Nat) =>
          (fun (s : Int × Int) (x y : Int) => (s.1 + y * s.2, s.2 * x)) s
            (dims.getD (Int.toNat (((dims.length : Int) - 1) - (k : Int))) 0)
            (pos.getD (Int.toNat (((dims.length : Int) - 1) - (k : Int))) 0)) (0, 1)).1 := by
  unfold pos_to_flat
  have hn : Int.toNat (((dims.length : Int) - 1) + 1) = dims.length := by omega
  simp only [hn]
  all_goals (first | rfl | (congr 2; funext s k; rfl) | grind)

theorem posToFlatGo_zip : ∀ (ds : List Nat) (ps : List Int) (r c : Int), ps.length = ds.length →
    ((List.zip (ds.map Int.ofNat) ps).foldl (fun (s : Int × Int) xy => (s.1 + xy.2 * s.2, s.2 * xy.1)) (r, c)).1
      = r + C08.posToFlatGo ds ps c
  | [], [], r, c, _ => by simp [C08.posToFlatGo]
  | [], _ :: _, _, _, h => by simp at h
  | _ :: _, [], _, _, h => by simp at h
  | d :: ds, p :: ps, r, c, h => by
      have ih := posToFlatGo_zip ds ps (r + p * c) (c * (d : Int)) (by simpa using h)
      simp only [List.map_cons, List.zip_cons_cons, List.foldl_cons, C08.posToFlatGo, Int.ofNat_eq_natCast]
      rw [ih]; omega

/-- **`aligned_array::pos_to_flat` (C++ text) = `C08.View.posToFlat`** for every shape and every position (entries may be
    negative: offsets) with one coordinate per axis. -/
theorem cscalar_pos_to_flat_eq_model (v : C08.View) (pos : List Int) (h : pos.length = v.shape.length) :
    pos_to_flat (v.shape.map Int.ofNat) pos = v.posToFlat pos := by
  rw [pos_to_flat_fold]
  unfold C08.View.posToFlat
  have := foldl_range_desc_getD2 (fun (s : Int × Int) (x y : Int) => (s.1 + y * s.2, s.2 * x))
      (v.shape.map Int.ofNat) pos ((0 : Int), (1 : Int)) (by simpa using h)
  rw [this, ← List.map_reverse]
  have := posToFlatGo_zip v.shape.reverse pos.reverse 0 1 (by simpa using h)
  simpa using this

example : pos_to_flat [4, 5, 6] [1, 2, 3] = 1 * 30 + 2 * 6 + 3 ∧ pos_to_flat [4, 5] [-1, 1] = -4 := by decide

end Mahotas
