/- Tie of the generated `spline_coeff` (the `switch (order)` of `spline_coefficients`, `_interpolate.cpp`) to `C18.splineCoeff`,
over EVERY scalar type with the bare operator classes the model is written over (no laws: the two are the same sequence of operations). -/
import Mahotas.Generated.CScalar
import Mahotas.Model.C18
namespace Mahotas
open Generated.C

section
variable {α : Type} [Add α] [Sub α] [Mul α] [Div α] [Neg α] [NatCast α] [IntCast α] [LT α] [DecidableLT α]

/-- **`spline_coefficients`, the weight formula of each order (C++ text) = `C18.splineCoeff`**, for the orders 1–5 the `switch`
    has a case for, for every distance `y` and every scalar type (so at `Float`, where the driver runs it, and over the ordered
    fields of the theorems): same operations in the same order, decimal constants as the same quotients of naturals. -/
theorem cscalar_spline_coeff_eq_model (order : Nat) (ho : 1 ≤ order ∧ order ≤ 5) (y r0 : α) :
    spline_coeff (order : Int) y r0 = C18.splineCoeff order y := by
  obtain ⟨h1, h5⟩ := ho
  have : order = 1 ∨ order = 2 ∨ order = 3 ∨ order = 4 ∨ order = 5 := by omega
  rcases this with rfl | rfl | rfl | rfl | rfl <;>
    (unfold spline_coeff C18.splineCoeff C18.q; grind)

end

/- evaluated at `Int` (truncating `/`): order 1 at distance 0 is `1 - 0`; order 3 at distance 1 is `(2 - 1)^3 / 6`; an order
   without a case leaves `result[hh]` as it was -/
example : spline_coeff (α := Int) 1 0 7 = 1 ∧ spline_coeff (α := Int) 3 1 7 = 0 ∧ spline_coeff (α := Int) 2 0 7 = 0
    ∧ spline_coeff (α := Int) 7 1 9 = 9 ∧ C18.splineCoeff (α := Int) 1 0 = 1 := by decide

end Mahotas
