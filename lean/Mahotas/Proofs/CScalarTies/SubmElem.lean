/- Tie of the generated `subm element body` (see `Proofs/CScalarTies.lean` for the scheme). -/
import Mahotas.Generated.CScalar
import Mahotas.Proofs.DType
namespace Mahotas
open Generated.C

/-- **element body of `subm<T>` (C++ text) = `submElem`** for values of the dtype (`a`, `b` in range — they are read
    from arrays of that dtype). In the unsigned branch the C++ stores `*ita -= *itb` (a store: `dt.wrap`), the model
    writes the exact `a - b`; they agree because `b ≤ a` there. The signed branch agrees for all integers. -/
theorem cscalar_subm_elem_eq_model (dt : DT) (wf : dt.WF) (a b : Int) (ha : dt.InRange a) (hb : dt.InRange b) :
    submElem dt a b = subm_elem dt a b := by
  unfold submElem subm_elem
  by_cases hs : dt.signed = true
  · simp only [hs]; grind
  · have hl : dt.lo = 0 := by
      rcases wf.lo_cases with h | h
      · exact h
      · exfalso; apply hs; rw [DT.signed_iff]; have := wf.hi_pos; omega
    unfold DT.InRange at ha hb
    simp only [hs]
    by_cases hba : b > a
    · simp [hba]
    · simp [hba]
      rw [DT.wrap_in dt (a - b) (by omega)]

example : subm_elem (dtI 8) (-100) 100 = -128 ∧ subm_elem (dtU 8) 3 5 = 0 ∧ subm_elem (dtU 8) 9 5 = 4
    ∧ subm_elem (dtI 8) 100 (-100) = 127 := by decide

end Mahotas
