/- Ties of the generated (trace-translated) `sum_rect`, `csum_rect`, `haar_x`, `haar_y` of `features/_surf.cpp`
   (see `Proofs/CScalarTies.lean` for the scheme). The trace translation keeps the index arithmetic and records every
   `integral.at(r, c)` read in source order; element values are opaque. -/
import Mahotas.Generated.CScalar
import Mahotas.Model.C10Surf
namespace Mahotas
open Generated.C C10Surf

/-- the reads `integral.at(r, c)` of a trace as bounds obligations on an `n0 x n1` integral image -/
def surfTrace (n0 n1 : Int) (l : List (Int × Int)) : List SAcc := l.flatMap fun p => at2 n0 n1 p.1 p.2

/-- **`sum_rect` (C++ text, trace translation) = `C10Surf.sumRectAccesses`**: the same four reads, each index paired with the
    length of its axis, for every image size and every window (the clamps are what the safety theorems of C10 rest on) -/
theorem cscalar_sum_rect_eq_model (n0 n1 y0 x0 y1 x1 : Int) :
    surfTrace n0 n1 (sum_rect [n0, n1] y0 x0 y1 x1) = sumRectAccesses n0 n1 y0 x0 y1 x1 := by
  unfold sum_rect sumRectAccesses surfTrace
  simp only [List.getD_cons_zero, List.getD_cons_succ, Int.toNat_zero, Int.toNat_one]
  split <;> simp [at2] <;> grind

/-- **`csum_rect` (C++ text) = `C10Surf.csumRectAccesses`** -/
theorem cscalar_csum_rect_eq_model (n0 n1 y x dy dx h w : Int) :
    surfTrace n0 n1 (csum_rect [n0, n1] y x dy dx h w) = csumRectAccesses n0 n1 y x dy dx h w := by
  unfold csum_rect csumRectAccesses
  simp only [List.nil_append]
  exact cscalar_sum_rect_eq_model ..

theorem surfTrace_append (n0 n1 : Int) (a b : List (Int × Int)) :
    surfTrace n0 n1 (a ++ b) = surfTrace n0 n1 a ++ surfTrace n0 n1 b := by
  simp [surfTrace]

/-- **`haar_x` (C++ text) = `C10Surf.haarXAccesses`** -/
theorem cscalar_haar_x_eq_model (n0 n1 y x w : Int) :
    surfTrace n0 n1 (haar_x [n0, n1] y x w) = haarXAccesses n0 n1 y x w := by
  unfold haar_x haarXAccesses
  simp only [List.nil_append, surfTrace_append, cscalar_sum_rect_eq_model]

/-- **`haar_y` (C++ text) = `C10Surf.haarYAccesses`** -/
theorem cscalar_haar_y_eq_model (n0 n1 y x w : Int) :
    surfTrace n0 n1 (haar_y [n0, n1] y x w) = haarYAccesses n0 n1 y x w := by
  unfold haar_y haarYAccesses
  simp only [List.nil_append, surfTrace_append, cscalar_sum_rect_eq_model]

example : sum_rect [4, 5] 0 0 9 9 = [(0, 0), (0, 4), (3, 0), (3, 4)] ∧ sum_rect [0, 5] 1 1 2 2 = [] := by decide

end Mahotas
