/- Tie of the generated `t_abs` (see `Proofs/CScalarTies.lean` for the scheme). -/
import Mahotas.Generated.CScalar
namespace Mahotas
open Generated.C

/-- **`t_abs` (C++ text, at the index types) = `Int.natAbs`** (what `C04.chebStep` and the model of `distance` use). -/
theorem cscalar_t_abs_eq_model (x : Int) : t_abs x = (x.natAbs : Int) := by
  unfold t_abs; split <;> omega

example : t_abs (-3) = 3 ∧ t_abs 4 = 4 := by decide

end Mahotas
