/- Tie of the generated `uf_find` / `uf_compress` / `uf_join` (`_labeled.cpp`: `find` — iterative since 7ef3338: root search loop,
then path compression loop — `compress`, `join`) to the recursive `C03.find` / `C03.compress` / `C03.join` of the model. -/
import Mahotas.Generated.CScalar
import Mahotas.Model.C03
namespace Mahotas
open Generated.C

namespace UF

theorem getD_set (a : Array Int) (i x : Nat) (v : Int) :
    (a.setIfInBounds i v).getD x (-1) = if i = x ∧ i < a.size then v else a.getD x (-1) := by
  simp only [Array.getD_eq_getD_getElem?, Array.getElem?_setIfInBounds]
  by_cases h1 : i = x
  · by_cases h2 : i < a.size
    · subst h1; simp [h2]
    · subst h1; simp [h2]
  · simp [h1]

/-- `Chain a i r k`: following the parent entries from node `i` reaches the root `r` (`a[r] = r`) after exactly `k` steps, every
    parent on the way being a (non-negative) node number different from the node itself -/
def Chain (a : Array Int) : Nat → Nat → Nat → Prop
  | i, r, 0 => i = r ∧ a.getD r (-1) = (r : Int)
  | i, r, k + 1 => a.getD i (-1) ≠ (i : Int) ∧ 0 ≤ a.getD i (-1) ∧ Chain a (a.getD i (-1)).toNat r k

theorem chain_unique (a : Array Int) : ∀ (k k' i r : Nat), Chain a i r k → Chain a i r k' → k = k'
  | 0, 0, _, _, _, _ => rfl
  | 0, k' + 1, i, r, h, h' => by
      obtain ⟨rfl, hr⟩ := h
      exact absurd hr h'.1
  | k + 1, 0, i, r, h, h' => by
      obtain ⟨rfl, hr⟩ := h'
      exact absurd hr h.1
  | k + 1, k' + 1, i, r, h, h' => by
      have := chain_unique a k k' _ r h.2.2 h'.2.2
      omega

theorem chain_root (a : Array Int) (r : Nat) : ∀ (k i : Nat), Chain a i r k → a.getD r (-1) = (r : Int)
  | 0, _, c => c.2
  | k + 1, _, c => chain_root a r k _ c.2.2

/-- the nodes `i`, parent of `i`, … : the first `k` nodes of the path -/
def OnPath (a : Array Int) : Nat → Nat → Nat → Prop
  | _, 0, _ => False
  | i, k + 1, n => n = i ∨ OnPath a (a.getD i (-1)).toNat k n

/-- a node on the first `k` nodes of a path of length `k' ≥ k` is at distance more than `k' - k` from the root -/
theorem onPath_chain (a : Array Int) (r : Nat) : ∀ (k k' i n : Nat), Chain a i r k' → k ≤ k' → OnPath a i k n →
    ∃ m, k' - k < m ∧ m ≤ k' ∧ Chain a n r m
  | 0, _, _, _, _, _, h => absurd h (by simp [OnPath])
  | k + 1, 0, _, _, _, hk, _ => by omega
  | k + 1, k' + 1, i, n, hc, hk, h => by
      rcases h with rfl | h
      · exact ⟨k' + 1, by omega, by omega, hc⟩
      · obtain ⟨m, h1, h2, h3⟩ := onPath_chain a r k k' _ n hc.2.2 (by omega) h
        exact ⟨m, by omega, by omega, h3⟩

/-! ### the model -/

/-- the buffer the recursive `find` leaves: the nodes of the path are set on the way back -/
def setPath (a : Array Int) (r : Int) : Nat → Nat → Array Int
  | _, 0 => a
  | i, k + 1 => (setPath a r (a.getD i (-1)).toNat k).setIfInBounds i r

theorem model_find (a : Array Int) (r : Nat) : ∀ (k f i : Nat), Chain a i r k → k ≤ f →
    C03.find f a i = (setPath a (r : Int) i k, r)
  | 0, 0, i, h, _ => by obtain ⟨rfl, _⟩ := h; rfl
  | 0, f + 1, i, h, _ => by
      obtain ⟨rfl, hr⟩ := h
      simp [C03.find, hr, setPath]
  | k + 1, 0, _, _, hk => by omega
  | k + 1, f + 1, i, h, hk => by
      have ih := model_find a r k f _ h.2.2 (by omega)
      simp only [C03.find, h.1, if_false, ih, setPath]

theorem setPath_size (a : Array Int) (r : Int) : ∀ (k i : Nat), (setPath a r i k).size = a.size
  | 0, _ => rfl
  | k + 1, i => by simp [setPath, setPath_size a r k]

open Classical in
theorem setPath_getD (a : Array Int) (r : Int) : ∀ (k i n : Nat),
    (setPath a r i k).getD n (-1) = if OnPath a i k n ∧ n < a.size then r else a.getD n (-1)
  | 0, _, _ => by simp [setPath, OnPath]
  | k + 1, i, n => by
      simp only [setPath, getD_set, setPath_size, setPath_getD a r k, OnPath]
      by_cases h1 : i = n
      · subst h1; by_cases h2 : i < a.size <;> simp [h2]
      · have : ¬ n = i := fun h => h1 h.symm
        simp [h1, this]

/-! ### the two loops of the C++ -/

theorem loop_root (a : Array Int) (r : Nat) : ∀ (k f i : Nat), Chain a i r k → k ≤ f →
    whileFuel f (fun (root : Int) => decide (a.getD (Int.toNat root) (-1) ≠ root))
      (fun (root : Int) => a.getD (Int.toNat root) (-1)) (i : Int) = (r : Int)
  | 0, 0, i, h, _ => by obtain ⟨rfl, _⟩ := h; rfl
  | 0, f + 1, i, h, _ => by
      obtain ⟨rfl, hr⟩ := h
      simp [whileFuel, hr]
  | k + 1, 0, _, _, hk => by omega
  | k + 1, f + 1, i, h, hk => by
      have ih := loop_root a r k f _ h.2.2 (by omega)
      have e : ((a.getD i (-1)).toNat : Int) = a.getD i (-1) := Int.toNat_of_nonneg h.2.1
      simp only [whileFuel, Int.toNat_natCast, h.1, ne_eq, not_false_eq_true, decide_true, if_true]
      rw [← e]; exact ih

/-- the buffer the compression loop leaves, started on `d`: the nodes at distance two or more from the root are set, front first -/
def setIter (a : Array Int) (r : Int) : Array Int → Nat → Nat → Array Int
  | d, _, 0 => d
  | d, _, 1 => d
  | d, i, k + 2 => setIter a r (d.setIfInBounds i r) (a.getD i (-1)).toNat (k + 1)

theorem loop_compress (a : Array Int) (r : Nat) : ∀ (k f : Nat) (d : Array Int) (i : Nat), Chain a i r k → k ≤ f →
    (∀ n m, Chain a n r m → m ≤ k → d.getD n (-1) = a.getD n (-1)) →
    (whileFuel f (fun (st : Array Int × Int) => decide (st.1.getD (Int.toNat st.2) (-1) ≠ (r : Int)))
      (fun (st : Array Int × Int) => (st.1.setIfInBounds (Int.toNat st.2) (r : Int), st.1.getD (Int.toNat st.2) (-1))) (d, (i : Int))).1
      = setIter a (r : Int) d i k
  | 0, 0, d, i, _, _, _ => rfl
  | 0, f + 1, d, i, h, _, hd => by
      have hr := h.2
      obtain ⟨rfl, _⟩ := h
      have := hd i 0 ⟨rfl, hr⟩ (by omega)
      simp [whileFuel, this, hr, setIter]
  | k + 1, 0, _, _, _, hk, _ => by omega
  | 1, f + 1, d, i, h, _, hd => by
      have h0 := h.2.2
      have e : ((a.getD i (-1)).toNat : Int) = a.getD i (-1) := Int.toNat_of_nonneg h.2.1
      have := hd i 1 h (by omega)
      have hp : a.getD i (-1) = (r : Int) := by rw [← e, h0.1]
      simp [whileFuel, this, hp, setIter]
  | k + 2, f + 1, d, i, h, hk, hd => by
      have e : ((a.getD i (-1)).toNat : Int) = a.getD i (-1) := Int.toNat_of_nonneg h.2.1
      have hdi := hd i (k + 2) h (by omega)
      -- the parent of `i` is not the root: it is at distance `k + 1 ≥ 1`
      have hne : a.getD i (-1) ≠ (r : Int) := by
        intro hp
        have h1 := h.2.2
        rw [hp, Int.toNat_natCast] at h1
        exact h1.1 (chain_root a r _ _ h1)
      have ih := loop_compress a r (k + 1) f (d.setIfInBounds i (r : Int)) _ h.2.2 (by omega) (by
        intro n m hc hm
        rw [getD_set]
        by_cases hin : i = n
        · subst hin
          have := chain_unique a _ _ _ _ hc h
          omega
        · simp [hin, hd n m hc (by omega)])
      simp only [whileFuel, Int.toNat_natCast, hdi, hne, ne_eq, not_false_eq_true, decide_true, if_true, setIter]
      rw [← e]; exact ih

theorem setIter_size (a : Array Int) (r : Int) : ∀ (k : Nat) (d : Array Int) (i : Nat), (setIter a r d i k).size = d.size
  | 0, _, _ => rfl
  | 1, _, _ => rfl
  | k + 2, d, i => by simp [setIter, setIter_size a r (k + 1)]

open Classical in
theorem setIter_getD (a : Array Int) (r : Int) : ∀ (k : Nat) (d : Array Int) (i n : Nat),
    (setIter a r d i k).getD n (-1) = if OnPath a i (k - 1) n ∧ n < d.size then r else d.getD n (-1)
  | 0, _, _, _ => by simp [setIter, OnPath]
  | 1, _, _, _ => by simp [setIter, OnPath]
  | k + 2, d, i, n => by
      have e : k + 2 - 1 = k + 1 := by omega
      have e' : k + 1 - 1 = k := by omega
      simp only [setIter, setIter_getD a r (k + 1), e, e', OnPath, getD_set, Array.size_setIfInBounds]
      by_cases h1 : i = n
      · subst h1; by_cases h2 : i < d.size <;> simp [h2]
      · have : ¬ n = i := fun h => h1 h.symm
        simp [h1, this]

theorem onPath_mono (a : Array Int) : ∀ (k i n : Nat), OnPath a i k n → OnPath a i (k + 1) n
  | 0, _, _, h => absurd h (by simp [OnPath])
  | k + 1, i, n, h => by
      rcases h with h | h
      · exact Or.inl h
      · exact Or.inr (onPath_mono a k _ n h)

/-- the last node of the path already points to the root -/
theorem onPath_last (a : Array Int) (r : Nat) : ∀ (k i n : Nat), Chain a i r k → OnPath a i k n → ¬ OnPath a i (k - 1) n →
    a.getD n (-1) = (r : Int)
  | 0, _, _, _, h, _ => absurd h (by simp [OnPath])
  | 1, i, n, hc, h, _ => by
      rcases h with rfl | h
      · have e : ((a.getD n (-1)).toNat : Int) = a.getD n (-1) := Int.toNat_of_nonneg hc.2.1
        rw [← e, hc.2.2.1]
      · exact absurd h (by simp [OnPath])
  | k + 2, i, n, hc, h, hn => by
      have e : k + 2 - 1 = k + 1 := by omega
      rw [e] at hn
      rcases h with rfl | h
      · exact absurd (Or.inl rfl) hn
      · exact onPath_last a r (k + 1) _ n hc.2.2 h (by
          have e' : k + 1 - 1 = k := by omega
          rw [e']
          exact fun h' => hn (Or.inr h'))

theorem ext_getD (a b : Array Int) (hs : a.size = b.size) (h : ∀ n, a.getD n (-1) = b.getD n (-1)) : a = b := by
  apply Array.ext hs
  intro i h1 h2
  have := h i
  simpa [Array.getD_eq_getD_getElem?, h1, h2] using this

/-- front-first compression (C++) and compression on the way back (model) leave the same buffer -/
theorem setIter_eq_setPath (a : Array Int) (r : Nat) (k i : Nat) (hc : Chain a i r k) :
    setIter a (r : Int) a i k = setPath a (r : Int) i k := by
  apply ext_getD
  · rw [setIter_size, setPath_size]
  · intro n
    rw [setIter_getD, setPath_getD]
    by_cases hs : n < a.size
    · by_cases h1 : OnPath a i (k - 1) n
      · have : OnPath a i k n := by
          cases k with
          | zero => exact h1
          | succ k => exact onPath_mono a k i n h1
        simp [h1, this, hs]
      · by_cases h2 : OnPath a i k n
        · simp [h1, h2, hs, onPath_last a r k i n hc h2 h1]
        · simp [h1, h2]
    · simp [hs]

theorem uf_find_unfold (f : Nat) (a : Array Int) (i : Int) :
    uf_find f a i =
      ((whileFuel f (fun (st : Array Int × Int) => decide (st.1.getD (Int.toNat st.2) (-1) ≠
            whileFuel f (fun (root : Int) => decide (a.getD (Int.toNat root) (-1) ≠ root)) (fun (root : Int) => a.getD (Int.toNat root) (-1)) i))
          (fun (st : Array Int × Int) => (st.1.setIfInBounds (Int.toNat st.2)
            (whileFuel f (fun (root : Int) => decide (a.getD (Int.toNat root) (-1) ≠ root)) (fun (root : Int) => a.getD (Int.toNat root) (-1)) i),
            st.1.getD (Int.toNat st.2) (-1))) (a, i)).1,
        whileFuel f (fun (root : Int) => decide (a.getD (Int.toNat root) (-1) ≠ root)) (fun (root : Int) => a.getD (Int.toNat root) (-1)) i) :=
  rfl

end UF

/-- **`find` (C++ text: root search loop, then path compression loop) = `C03.find`** (recursive, compression on the way back)
    on every buffer and node from which the parent entries lead, through non-negative entries, to a root within `fuel` steps —
    the situation `label` calls it in (the parent forest of a union-find is acyclic and `fuel = N + 1`): same buffer afterwards,
    same root. -/
theorem cscalar_uf_find_eq_model (fuel : Nat) (a : Array Int) (i r k : Nat) (hc : UF.Chain a i r k) (hk : k ≤ fuel) :
    uf_find fuel a (i : Int) = ((C03.find fuel a i).1, ((C03.find fuel a i).2 : Int)) := by
  rw [UF.uf_find_unfold, UF.loop_root a r k fuel i hc hk, UF.model_find a r k fuel i hc hk,
    UF.loop_compress a r k fuel a i hc hk (fun _ _ _ _ => rfl), UF.setIter_eq_setPath a r k i hc]

/-- **`compress` (C++ text) = `C03.compress`**, under the hypothesis of `cscalar_uf_find_eq_model` -/
theorem cscalar_uf_compress_eq_model (fuel : Nat) (a : Array Int) (i r k : Nat) (hc : UF.Chain a i r k) (hk : k ≤ fuel) :
    uf_compress fuel a (i : Int) = C03.compress fuel a i := by
  unfold uf_compress C03.compress
  rw [cscalar_uf_find_eq_model fuel a i r k hc hk]

/-- **`join` (C++ text) = `C03.join`** when both `find`s it performs (the second on the buffer the first one leaves) are in the
    situation of `cscalar_uf_find_eq_model` -/
theorem cscalar_uf_join_eq_model (fuel : Nat) (a : Array Int) (i j ri ki rj kj : Nat)
    (hi : UF.Chain a i ri ki) (hki : ki ≤ fuel) (hj : UF.Chain (C03.find fuel a i).1 j rj kj) (hkj : kj ≤ fuel) :
    uf_join fuel a (i : Int) (j : Int) = C03.join fuel a i j := by
  unfold uf_join C03.join
  simp only [cscalar_uf_find_eq_model fuel a i ri ki hi hki, cscalar_uf_find_eq_model fuel _ j rj kj hj hkj, Int.toNat_natCast]

example : uf_find 5 #[0, 0, 1, 2, -1] 3 = (#[0, 0, 0, 0, -1], 0) ∧ C03.find 5 #[0, 0, 1, 2, -1] 3 = (#[0, 0, 0, 0, -1], 0)
    ∧ uf_join 5 #[0, 0, 2, 2] 1 3 = #[2, 0, 2, 2] := by decide

/-- the hypothesis is satisfiable: node 3 of `[0, 0, 1, 2, -1]` reaches the root 0 in three steps -/
example : UF.Chain #[0, 0, 1, 2, -1] 3 0 3 := by
  refine ⟨by decide, by decide, ?_⟩
  refine ⟨by decide, by decide, ?_⟩
  refine ⟨by decide, by decide, ?_⟩
  exact ⟨by decide, by decide⟩

end Mahotas
