/-
F10: the saturating helpers of `_morph.cpp`, transliterated with two's-complement wrap-around,
equal exact arithmetic clamped to the dtype range — for every integer dtype at once
(generic in `lo`, `hi` with `lo = 0` or `lo = -(hi+1)`).
-/
import Mahotas.Proofs.Border
import Mahotas.Model.DType
namespace Mahotas

/-- the shapes of range numpy integer dtypes have -/
structure DT.WF (dt : DT) : Prop where
  hi_pos : 0 < dt.hi
  lo_cases : dt.lo = 0 ∨ dt.lo = -(dt.hi + 1)
  notBool : dt.isBool = false

def DT.InRange (dt : DT) (x : Int) : Prop := dt.lo ≤ x ∧ x ≤ dt.hi

theorem DT.wrap_in (dt : DT) (x : Int) (h : dt.lo ≤ x ∧ x ≤ dt.hi) : dt.wrap x = x := by
  unfold DT.wrap DT.card
  have := mod_unique (x - dt.lo) (dt.hi - dt.lo + 1) (x - dt.lo) 0 (by omega) (by omega) (by omega)
  omega

theorem DT.wrap_below (dt : DT) (x : Int) (h : dt.lo - dt.card ≤ x ∧ x < dt.lo) :
    dt.wrap x = x + dt.card := by
  unfold DT.wrap; unfold DT.card at *
  have := mod_unique (x - dt.lo) (dt.hi - dt.lo + 1) (x - dt.lo + (dt.hi - dt.lo + 1)) (-1)
    (by omega) (by omega) (by omega)
  omega

theorem DT.wrap_above (dt : DT) (x : Int) (h : dt.hi < x ∧ x ≤ dt.hi + dt.card) :
    dt.wrap x = x - dt.card := by
  unfold DT.wrap; unfold DT.card at *
  have := mod_unique (x - dt.lo) (dt.hi - dt.lo + 1) (x - dt.lo - (dt.hi - dt.lo + 1)) 1
    (by omega) (by omega) (by omega)
  omega

theorem DT.signed_iff (dt : DT) : dt.signed = true ↔ dt.lo < 0 := by
  unfold DT.signed; simp

/-- `erode_sub a b = max lo (a − b)` for a height `b ≥ 0` that is not the "absent" marker;
    the dtype minimum as a height means "absent" (identity of `min`). -/
theorem erodeSub_spec (dt : DT) (wf : dt.WF) (a b : Int) (ha : dt.InRange a) (hb : dt.InRange b)
    (hb0 : 0 ≤ b) :
    erodeSub dt a b = if b = dt.lo then dt.hi else dt.clamp (a - b) := by
  obtain ⟨hp, hlo, hnb⟩ := wf
  unfold DT.InRange at ha hb
  unfold erodeSub
  simp only [hnb, Bool.false_eq_true, if_false]
  by_cases hbl : b = dt.lo
  · simp only [hbl, if_true]
  · simp only [hbl, if_false]
    unfold DT.clamp
    rcases hlo with hlo | hlo
    · -- unsigned
      have hs : dt.signed = false := by unfold DT.signed; simp [hlo]
      simp only [hs, Bool.not_false, Bool.true_and, Bool.false_and, Bool.false_eq_true, if_false,
        decide_eq_true_eq]
      by_cases hba : b > a
      · simp only [hba, if_true]; omega
      · simp only [hba, if_false]
        rw [DT.wrap_in dt (a - b) (by omega)]; omega
    · -- signed
      have hs : dt.signed = true := by unfold DT.signed; simp; omega
      simp only [hs, Bool.not_true, Bool.false_and, Bool.true_and, Bool.false_eq_true, if_false,
        decide_eq_true_eq]
      by_cases hu : dt.lo ≤ a - b
      · rw [DT.wrap_in dt (a - b) (by omega)]
        have : ¬ (a - b > a) := by omega
        simp only [this, if_false]; omega
      · rw [DT.wrap_below dt (a - b) (by unfold DT.card; omega)]
        have : a - b + dt.card > a := by unfold DT.card; omega
        simp only [this, if_true]; omega

/-- `dilate_add a b = min hi (a + b)` for `a`, `b` not the dtype minimum and `b ≥ 0`;
    the dtype minimum is absorbing on either side. -/
theorem dilateAdd_spec (dt : DT) (wf : dt.WF) (a b : Int) (ha : dt.InRange a) (hb : dt.InRange b)
    (hb0 : 0 ≤ b) :
    dilateAdd dt a b = if a = dt.lo ∨ b = dt.lo then dt.lo else dt.clamp (a + b) := by
  obtain ⟨hp, hlo, hnb⟩ := wf
  unfold DT.InRange at ha hb
  unfold dilateAdd
  simp only [hnb, Bool.false_eq_true, if_false]
  by_cases hal : a = dt.lo
  · simp [hal]
  · by_cases hbl : b = dt.lo
    · simp [hal, hbl]
    · simp only [hal, hbl, if_false, or_self]
      unfold DT.clamp
      by_cases hu : a + b ≤ dt.hi
      · rw [DT.wrap_in dt (a + b) (by omega)]
        have : ¬ (b ≥ 0 ∧ a + b < a) := by omega
        simp only [this, if_false]; omega
      · rw [DT.wrap_above dt (a + b) (by unfold DT.card; omega)]
        have : b ≥ 0 ∧ a + b - dt.card < a := by unfold DT.card; omega
        rw [if_pos this]; omega

/-- `subm` is exact subtraction clamped to the dtype range, for every pair of values. -/
theorem submElem_spec (dt : DT) (wf : dt.WF) (a b : Int) (ha : dt.InRange a) (hb : dt.InRange b) :
    submElem dt a b = dt.clamp (a - b) := by
  obtain ⟨hp, hlo, hnb⟩ := wf
  unfold DT.InRange at ha hb
  unfold submElem DT.clamp
  rcases hlo with hlo | hlo
  · have hs : dt.signed = false := by unfold DT.signed; simp [hlo]
    simp only [hs, Bool.false_eq_true, if_false]
    split <;> omega
  · have hs : dt.signed = true := by unfold DT.signed; simp; omega
    simp only [hs, if_true]
    by_cases hb0 : b ≥ 0
    · by_cases hu : dt.lo ≤ a - b
      · rw [DT.wrap_in dt (a - b) (by omega)]
        have : a - b ≤ a := by omega
        simp only [hb0, this, and_self, if_true]; omega
      · rw [DT.wrap_below dt (a - b) (by unfold DT.card; omega)]
        have h1 : ¬ (a - b + dt.card ≤ a) := by unfold DT.card; omega
        have h2 : ¬ (b < 0) := by omega
        simp only [hb0, h1, h2, and_false, false_and, if_false, if_true]; omega
    · have hb1 : b < 0 := by omega
      by_cases hu : a - b ≤ dt.hi
      · rw [DT.wrap_in dt (a - b) (by omega)]
        have : a - b > a := by omega
        simp only [hb0, hb1, this, false_and, and_self, if_false, if_true]; omega
      · rw [DT.wrap_above dt (a - b) (by unfold DT.card; omega)]
        have h1 : ¬ (a - b - dt.card > a) := by unfold DT.card; omega
        simp only [hb0, hb1, h1, false_and, and_false, if_false]; omega

theorem wf_u8 : (dtU 8).WF := ⟨by decide, Or.inl rfl, rfl⟩
theorem wf_u16 : (dtU 16).WF := ⟨by decide, Or.inl rfl, rfl⟩
theorem wf_u32 : (dtU 32).WF := ⟨by decide, Or.inl rfl, rfl⟩
theorem wf_u64 : (dtU 64).WF := ⟨by decide, Or.inl rfl, rfl⟩
theorem wf_i8 : (dtI 8).WF := ⟨by decide, Or.inr (by decide), rfl⟩
theorem wf_i16 : (dtI 16).WF := ⟨by decide, Or.inr (by decide), rfl⟩
theorem wf_i32 : (dtI 32).WF := ⟨by decide, Or.inr (by decide), rfl⟩
theorem wf_i64 : (dtI 64).WF := ⟨by decide, Or.inr (by decide), rfl⟩

end Mahotas
