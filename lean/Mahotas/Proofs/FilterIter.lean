/-
F6 — `filterIter_refines`: the offset-table mechanism of `filter_iterator`
(`init_filter_offsets` + `init_filter_iterator` + `iterate_both` + `retrieve`) retrieves, at every
array position in C scan order and for every footprint element, exactly what the closed form says.
All ranks, all shapes with entries ≥ 1 (filter smaller than / equal to / larger than the array,
even and odd), all six border modes, any footprint.
-/
import Mahotas.Proofs.FilterIterAxis
import Mahotas.Proofs.FilterIterOdo
import Mathlib.Tactic.Ring
namespace Mahotas
namespace FilterIter

/-- axes as pairs (array length, filter length), last axis first -/
abbrev Axes := List (Nat × Nat)

def AxPos (X : Axes) : Prop := ∀ x ∈ X, 0 < x.1 ∧ 0 < x.2

theorem AxPos.tail {x : Nat × Nat} {X : Axes} (h : AxPos (x :: X)) : AxPos X :=
  fun y hy => h y (by simp [hy])

theorem AxPos.head {x : Nat × Nat} {X : Axes} (h : AxPos (x :: X)) : 0 < x.1 ∧ 0 < x.2 :=
  h x (by simp)

def nReg (x : Nat × Nat) : Nat := nRegions x.1 x.2
def repDig (x : Nat × Nat) (r : Nat) : Int := ((rep x.1 x.2 r : Nat) : Int)

/-- the region (index of the set of offsets in the table) of the position with flat index `i` -/
def regionOf : Axes → Nat → Nat
  | [], _ => 0
  | (a, f) :: X, i => regionIdx a f (i % a) + nRegions a f * regionOf X (i / a)

/-- the position `init_filter_offsets` was at when it stored the offsets of the region of `i` -/
def repDigits : Axes → Nat → List Int
  | [], _ => []
  | (a, f) :: X, i => ((rep a f (regionIdx a f (i % a)) : Nat) : Int) :: repDigits X (i / a)

theorem regionOf_lt (X : Axes) (hX : AxPos X) (i : Nat) : regionOf X i < radProd nReg X := by
  induction X generalizing i with
  | nil => simp [regionOf, radProd]
  | cons x X ih =>
    obtain ⟨a, f⟩ := x
    have ⟨ha, hf⟩ := hX.head
    simp only at ha hf
    simp only [regionOf, radProd, nReg]
    have h1 := regionIdx_lt (a := a) (f := f) (p := i % a) hf (Nat.mod_lt _ ha)
    have h2 := ih hX.tail (i / a)
    have h3 : nRegions a f * (regionOf X (i / a) + 1) ≤ nRegions a f * radProd nReg X :=
      Nat.mul_le_mul_left _ h2
    rw [Nat.mul_add, Nat.mul_one] at h3
    omega

theorem digits_regionOf (X : Axes) (hX : AxPos X) (i : Nat) :
    digits nReg repDig X (regionOf X i) = repDigits X i := by
  induction X generalizing i with
  | nil => rfl
  | cons x X ih =>
    obtain ⟨a, f⟩ := x
    have ⟨ha, hf⟩ := hX.head
    simp only at ha hf
    have h1 := regionIdx_lt (a := a) (f := f) (p := i % a) hf (Nat.mod_lt _ ha)
    have hn : 0 < nRegions a f := nRegions_pos ha hf
    simp only [digits, regionOf, repDigits, nReg, repDig]
    rw [Nat.add_mul_mod_self_left, Nat.mod_eq_of_lt h1, Nat.add_mul_div_left _ _ hn,
      Nat.div_eq_of_lt h1, Nat.zero_add, ih hX.tail]

/-! ### the three odometers of the code -/

theorem posOdo (X : Axes) (hX : AxPos X) (l : Nat) :
    odoRev posSucc X (digits nReg repDig X l) = digits nReg repDig X (l + 1) := by
  apply odoRev_digits
  · intro x _; simp [repDig, rep_zero]
  · intro x hx; exact nRegions_pos (hX x hx).1 (hX x hx).2
  · intro x _ r hr
    obtain ⟨a, f⟩ := x
    exact posSucc_rep hr

theorem coordOdo (F : List Nat) (hF : ∀ f ∈ F, 0 < f) (k : Nat) :
    odoRev coordSucc F (digits id natDig F k) = digits id natDig F (k + 1) := by
  apply odoRev_digits
  · intro x _; rfl
  · intro x hx; exact hF x hx
  · intro x _ r hr
    simp only [id] at hr
    unfold coordSucc natDig
    simp only [id]
    by_cases h : r + 1 < x
    · have : (r : Int) < (x : Int) - 1 := by omega
      simp only [h, this, if_true]; rfl
    · have : ¬ (r : Int) < (x : Int) - 1 := by omega
      simp only [h, this, if_false]

theorem itOdo (A : List Nat) (hA : ∀ a ∈ A, 0 < a) (i : Nat) :
    odoRev itSucc A (digits id natDig A i) = digits id natDig A (i + 1) := by
  apply odoRev_digits
  · intro x _; rfl
  · intro x hx; exact hA x hx
  · intro x _ r hr
    simp only [id] at hr
    unfold itSucc natDig
    simp only [id]
    by_cases h : r + 1 < x
    · have : (r : Int) + 1 ≠ (x : Int) := by omega
      simp only [h, this, if_true, ne_eq, not_false_eq_true]; rfl
    · have : ¬ ((r : Int) + 1 ≠ (x : Int)) := by omega
      simp only [h, this, if_false]

/-! ### `init_filter_iterator`: the reversed arrays, last axis first -/

def stepI (a f : Nat) : Int := if a < f then (a : Int) else (f : Int)

theorem stepI_eq (a f : Nat) : stepI a f = ((nRegions a f : Nat) : Int) := by
  unfold stepI nRegions; split <;> rfl

def mkAx (a f : Nat) (stride : Int) : AxisIt :=
  { stride := stride, backstride := (stepI a f - 1) * stride,
    minbound := (f : Int) / 2, maxbound := (a : Int) - (f : Int) + (f : Int) / 2 }

/-- the four arrays of `init_filter_iterator` after the `std::reverse`s, by a running product -/
def axLE (s : Int) : Axes → List AxisIt
  | [] => []
  | (a, f) :: X => mkAx a f s :: axLE (s * stepI a f) X

def stepProd : Axes → Int
  | [] => 1
  | (a, f) :: X => stepI a f * stepProd X

theorem stepProd_append (X Y : Axes) : stepProd (X ++ Y) = stepProd X * stepProd Y := by
  induction X with
  | nil => simp [stepProd]
  | cons x X ih => obtain ⟨a, f⟩ := x; simp only [List.cons_append, stepProd, ih]; ring

theorem stepProd_reverse (X : Axes) : stepProd X.reverse = stepProd X := by
  induction X with
  | nil => rfl
  | cons x X ih =>
    obtain ⟨a, f⟩ := x
    simp only [List.reverse_cons, stepProd_append, ih, stepProd]; ring

theorem axLE_snoc (s : Int) (X : Axes) (a f : Nat) :
    axLE s (X ++ [(a, f)]) = axLE s X ++ [mkAx a f (s * stepProd X)] := by
  induction X generalizing s with
  | nil => simp [axLE, stepProd]
  | cons x X ih =>
    obtain ⟨a1, f1⟩ := x
    simp only [List.cons_append, axLE, ih, stepProd]
    rw [Int.mul_assoc]

theorem initAxes_unfold (fsz : Int) (a f : Nat) (as fs : List Nat) :
    initAxes fsz (a :: as) (f :: fs) =
      mkAx a f (match initAxes fsz as fs, as, fs with
                | r :: _, a1 :: _, f1 :: _ => r.stride * stepI a1 f1
                | _, _, _ => fsz) :: initAxes fsz as fs := rfl

theorem initAxes_cons (fsz : Int) (a f : Nat) (as fs : List Nat) :
    initAxes fsz (a :: as) (f :: fs) =
      mkAx a f (fsz * stepProd (as.zip fs)) :: initAxes fsz as fs := by
  rw [initAxes_unfold]
  congr 2
  cases as with
  | nil => simp [stepProd]
  | cons a1 as =>
    cases fs with
    | nil => simp [stepProd, initAxes]
    | cons f1 fs =>
      induction as generalizing a1 f1 fs with
      | nil =>
        rw [initAxes_unfold]
        simp [stepProd, initAxes, mkAx]
      | cons a2 as ih =>
        cases fs with
        | nil =>
          rw [initAxes_unfold]
          simp [stepProd, initAxes, mkAx]
        | cons f2 fs =>
          rw [initAxes_unfold]
          simp only [mkAx, List.zip_cons_cons, stepProd]
          rw [ih a2 f2 fs]
          simp only [List.zip_cons_cons, stepProd]
          ring

theorem initAxes_reverse (fsz : Int) (as fs : List Nat) :
    (initAxes fsz as fs).reverse = axLE fsz (as.zip fs).reverse := by
  induction as generalizing fs with
  | nil => simp [initAxes, axLE]
  | cons a as ih =>
    cases fs with
    | nil => simp [initAxes, axLE]
    | cons f fs =>
      rw [initAxes_cons, List.reverse_cons, ih, List.zip_cons_cons, List.reverse_cons, axLE_snoc,
        stepProd_reverse]

/-! ### `iterate_both`: the table pointer follows the region of the position -/

/-- invariant of the carry loop: if the pointer is at (running stride) × (region of `i`) before
    `iterate_both`, it is at (running stride) × (region of `i+1`) afterwards -/
theorem iterateBoth_regionOf (X : Axes) (hX : AxPos X) (s c0 : Int) (i : Nat) :
    iterateBoth (axLE s X) (digits id natDig (X.map Prod.fst) i) (X.map Prod.fst)
        (c0 + s * ((regionOf X i : Nat) : Int)) = c0 + s * ((regionOf X (i + 1) : Nat) : Int) := by
  induction X generalizing s c0 i with
  | nil => simp [iterateBoth, axLE, regionOf]
  | cons x X ih =>
    obtain ⟨a, f⟩ := x
    have ⟨ha, hf⟩ := hX.head
    simp only at ha hf
    simp only [List.map_cons, digits, axLE, iterateBoth, id, natDig, mkAx, regionOf]
    have hsd := succ_divmod i a ha
    have hlt := Nat.mod_lt i ha
    by_cases h : i % a + 1 < a
    · obtain ⟨e1, e2⟩ := hsd.1 h
      have c : ((i % a : Nat) : Int) < (a : Int) - 1 := by omega
      simp only [c, if_true, e1, e2]
      rw [regionIdx_succ hf]
      by_cases hc : ((i % a : Nat) : Int) < (f : Int) / 2 ∨
          ((i % a : Nat) : Int) ≥ (a : Int) - (f : Int) + (f : Int) / 2
      · simp only [hc, if_true]; push_cast; ring
      · simp only [hc, if_false]; push_cast; ring
    · obtain ⟨e1, e2⟩ := hsd.2 h
      have c : ¬ ((i % a : Nat) : Int) < (a : Int) - 1 := by omega
      simp only [c, if_false, e1, e2]
      have e3 : i % a = a - 1 := by omega
      rw [e3, regionIdx_last ha hf, regionIdx_zero]
      have hn := nRegions_pos ha hf
      have e4 : ((nRegions a f - 1 : Nat) : Int) = ((nRegions a f : Nat) : Int) - 1 := by omega
      have e5 : c0 + s * ((nRegions a f - 1 + nRegions a f * regionOf X (i / a) : Nat) : Int)
            - (stepI a f - 1) * s
          = c0 + (s * stepI a f) * ((regionOf X (i / a) : Nat) : Int) := by
        rw [stepI_eq]; push_cast; rw [e4]; ring
      rw [e5, ih hX.tail, stepI_eq]
      push_cast; ring

/-! ### the axes of a concrete call -/

/-- the axes of a call, last axis first -/
def axesOf (ashape fshape : List Nat) : Axes := (ashape.zip fshape).reverse

theorem axesOf_fst (ashape fshape : List Nat) (hlen : ashape.length = fshape.length) :
    (axesOf ashape fshape).map Prod.fst = ashape.reverse := by
  unfold axesOf
  rw [List.map_reverse, List.map_fst_zip (by omega)]

theorem axesOf_pos (ashape fshape : List Nat) (ha : ∀ a ∈ ashape, 0 < a) (hf : ∀ f ∈ fshape, 0 < f) :
    AxPos (axesOf ashape fshape) := by
  intro x hx
  unfold axesOf at hx
  rw [List.mem_reverse] at hx
  obtain ⟨a, f⟩ := x
  have := List.of_mem_zip hx
  exact ⟨ha a this.1, hf f this.2⟩

theorem offsetsSize_eq (ashape fshape : List Nat) :
    offsetsSize ashape fshape = radProd nReg (axesOf ashape fshape) := by
  unfold axesOf
  rw [radProd_reverse]
  induction ashape generalizing fshape with
  | nil => simp [offsetsSize, radProd]
  | cons a as ih =>
    cases fshape with
    | nil => simp [offsetsSize, radProd]
    | cons f fs =>
      simp only [offsetsSize, List.zip_cons_cons, radProd, nReg, nRegions, ih fs]

theorem regionOf_zero (X : Axes) : regionOf X 0 = 0 := by
  induction X with
  | nil => rfl
  | cons x X ih =>
    obtain ⟨a, f⟩ := x
    simp [regionOf, regionIdx_zero, ih]

theorem zeros_reverse {α : Type} (l : List α) :
    (l.reverse.map fun _ => (0 : Int)) = l.map fun _ => (0 : Int) := by
  simp [List.map_const']

/-- the state of the walk after `n` calls of `iterate_both`: the array iterator is at the position
    with flat index `n` and the table pointer at `size × (region of that position)` -/
theorem stateAfter_eq (m : Mode) (ashape fshape : List Nat) (fp : Array Bool)
    (hlen : ashape.length = fshape.length)
    (ha : ∀ a ∈ ashape, 0 < a) (hf : ∀ f ∈ fshape, 0 < f) (n : Nat) :
    stateAfter (mkFIter m ashape fshape fp) ashape n =
      { posRev := digits id natDig ashape.reverse n,
        cur := ((footprintSize fshape fp : Nat) : Int) *
                 ((regionOf (axesOf ashape fshape) n : Nat) : Int) } := by
  induction n with
  | zero =>
    simp only [stateAfter, initState, regionOf_zero]
    rw [digits_zero id natDig ashape.reverse (fun _ _ => rfl), zeros_reverse]
    simp
  | succ n ih =>
    simp only [stateAfter, ih, step]
    have hits : (mkFIter m ashape fshape fp).its =
        axLE ((footprintSize fshape fp : Nat) : Int) (axesOf ashape fshape) := by
      simp only [mkFIter, initFilterOffsets, initFilterIterator, initAxes_reverse, axesOf]
    rw [hits, itOdo _ (fun a h => ha a (List.mem_reverse.mp h))]
    congr 1
    have := iterateBoth_regionOf (axesOf ashape fshape) (axesOf_pos ashape fshape ha hf)
      ((footprintSize fshape fp : Nat) : Int) 0 n
    rw [axesOf_fst ashape fshape hlen, Int.zero_add, Int.zero_add] at this
    exact this

/-! ### `init_filter_offsets`: the structure of the table -/

/-- filter flat indices of the footprint elements, in the order they are stored -/
def fpIdx (fshape : List Nat) (fp : Array Bool) : List Nat :=
  (List.range (shapeSize fshape)).filter fun kk => fp.getD kk false

/-- `coordinates` (last axis first) when the `kk` loop is at filter element `k` -/
def digC (fshape : List Nat) (k : Nat) : List Int := digits id natDig fshape.reverse k

/-- the offsets stored for one region, computed at `position = pR.reverse` -/
def regionEntries (m : Mode) (ashape fshape : List Nat) (fp : Array Bool) (pR : List Int) : List Entry :=
  (fpIdx fshape fp).map fun k => entry m ashape fshape (digC fshape k).reverse pR.reverse

theorem regionEntries_length (m : Mode) (ashape fshape : List Nat) (fp : Array Bool) (pR : List Int) :
    (regionEntries m ashape fshape fp pR).length = footprintSize fshape fp := by
  simp [regionEntries, fpIdx, footprintSize]

theorem kkLoop_spec (m : Mode) (ashape fshape : List Nat) (fp : Array Bool)
    (hf : ∀ f ∈ fshape, 0 < f) (pR : List Int) (n kk : Nat) :
    kkLoop m ashape fshape fp pR n kk (digC fshape kk) =
      (((List.range' kk n).filter fun k => fp.getD k false).map
          (fun k => entry m ashape fshape (digC fshape k).reverse pR.reverse),
       digC fshape (kk + n)) := by
  induction n generalizing kk with
  | zero => simp [kkLoop]
  | succ n ih =>
    have hodo : odoRev coordSucc fshape.reverse (digC fshape kk) = digC fshape (kk + 1) :=
      coordOdo _ (fun f h => hf f (List.mem_reverse.mp h)) kk
    simp only [kkLoop, hodo, ih (kk + 1)]
    rw [List.range'_succ, List.filter_cons]
    have e : kk + 1 + n = kk + (n + 1) := by omega
    by_cases hb : fp.getD kk false = true
    · simp only [hb, if_true, List.map_cons, e]
    · simp only [hb, e]; simp

theorem digC_size (fshape : List Nat) (hf : ∀ f ∈ fshape, 0 < f) :
    digC fshape (0 + shapeSize fshape) = digC fshape 0 := by
  unfold digC
  have := digits_radProd id natDig fshape.reverse (fun f h => hf f (List.mem_reverse.mp h))
  rw [radProd_id, shapeSize_reverse] at this
  rw [Nat.zero_add, this]

/-- entry `size·L + j` of what the region loop stores is entry `j` of the `L`-th region visited -/
theorem llLoop_get (m : Mode) (ashape fshape : List Nat) (fp : Array Bool)
    (ha : ∀ a ∈ ashape, 0 < a) (hf : ∀ f ∈ fshape, 0 < f)
    (n l L j : Nat) (hL : L < n) (hj : j < footprintSize fshape fp) :
    (llLoop m ashape fshape fp n (digC fshape 0)
        (digits nReg repDig (axesOf ashape fshape) l))[footprintSize fshape fp * L + j]? =
      (regionEntries m ashape fshape fp (digits nReg repDig (axesOf ashape fshape) (l + L)))[j]? := by
  induction n generalizing l L with
  | zero => omega
  | succ n ih =>
    simp only [llLoop]
    rw [kkLoop_spec m ashape fshape fp hf, digC_size fshape hf, ← List.range_eq_range']
    have hodo : odoRev posSucc (ashape.zip fshape).reverse (digits nReg repDig (axesOf ashape fshape) l)
        = digits nReg repDig (axesOf ashape fshape) (l + 1) :=
      posOdo (axesOf ashape fshape) (axesOf_pos ashape fshape ha hf) l
    rw [hodo]
    have hlen := regionEntries_length m ashape fshape fp (digits nReg repDig (axesOf ashape fshape) l)
    unfold regionEntries fpIdx at hlen
    cases L with
    | zero =>
      rw [Nat.mul_zero, Nat.zero_add, Nat.add_zero, List.getElem?_append_left (by rw [hlen]; exact hj)]
      rfl
    | succ L =>
      rw [List.getElem?_append_right (by rw [hlen, Nat.mul_add]; omega), hlen]
      have e1 : footprintSize fshape fp * (L + 1) + j - footprintSize fshape fp
          = footprintSize fshape fp * L + j := by rw [Nat.mul_add]; omega
      have e2 : l + (L + 1) = l + 1 + L := by omega
      rw [e1, e2]
      exact ih (l + 1) L (by omega)

/-! ### a table entry computed at the representative position is the closed form -/

theorem closedForm_cons (m : Mode) (a f : Nat) (as fs : List Nat) (p k : Int) (ps ks : List Int) :
    closedForm m (a :: as) (f :: fs) (p :: ps) (k :: ks) =
      match fixOffset m (p + (k - ((f / 2 : Nat) : Int))) a, closedForm m as fs ps ks with
      | some c, some r => some ((c - p) :: r)
      | _, _ => none := by
  simp only [closedForm, centreOf, List.map_cons, subPos, addPos, fixPos]
  cases fixOffset m (p + (k - ((f / 2 : Nat) : Int))) a <;>
    cases fixPos m as (addPos ps (subPos ks (List.map (fun d => ((d / 2 : Nat) : Int)) fs))) <;>
    simp [subPos]

theorem closedForm_nil_pos (m : Mode) (as fs : List Nat) (ks : List Int) :
    closedForm m as fs [] ks = some [] := by
  cases as <;> simp [closedForm, addPos, fixPos, subPos]

/-- the position (one axis) `init_filter_offsets` was at when it stored the offsets later used at
    array coordinate `d` -/
def repAt (x : Nat × Nat) (d : Nat) : Int := ((rep x.1 x.2 (regionIdx x.1 x.2 d) : Nat) : Int)

theorem entry_closedForm (m : Mode) : ∀ (as fs : List Nat) (ks : List Int) (ds : List Nat),
    as.length = fs.length → ds.length = as.length → inside fs ks = true →
    entry m as fs ks (List.zipWith repAt (as.zip fs) ds) = closedForm m as fs (ds.map Int.ofNat) ks := by
  intro as
  induction as with
  | nil =>
    intro fs ks ds _ hd _
    have : ds = [] := by simpa using hd
    subst this
    simp [entry, closedForm_nil_pos]
  | cons a as ih =>
    intro fs ks ds hl hd hin
    cases fs with
    | nil => simp at hl
    | cons f fs =>
      cases ds with
      | nil => simp at hd
      | cons d ds =>
        cases ks with
        | nil => simp [inside] at hin
        | cons k ks =>
          simp only [inside, Bool.and_eq_true, decide_eq_true_eq] at hin
          obtain ⟨⟨hk0, hk1⟩, hin'⟩ := hin
          have hl' : as.length = fs.length := by simpa using hl
          have hd' : ds.length = as.length := by simpa using hd
          have key := axisOffset_rep m (a := a) (f := f) (p := d) hk0 hk1
          unfold axisOffset at key
          have e1 : ((d : Nat) : Int) + (k - ((f / 2 : Nat) : Int)) = k - (f : Int) / 2 + (d : Int) := by
            omega
          simp only [List.zip_cons_cons, List.zipWith_cons_cons, List.map_cons, entry, closedForm_cons,
            ih fs ks ds hl' hd' hin', Int.ofNat_eq_natCast, e1]
          have e2 : repAt (a, f) d = ((rep a f (regionIdx a f d) : Nat) : Int) := rfl
          rw [e2]
          generalize fixOffset m (k - (f : Int) / 2 + ((rep a f (regionIdx a f d) : Nat) : Int)) a = u at key ⊢
          generalize fixOffset m (k - (f : Int) / 2 + (d : Int)) a = v at key ⊢
          cases u <;> cases v <;> simp only [Option.map_some, Option.map_none] at key
          · rfl
          · cases key
          · cases key
          · cases closedForm m as fs (List.map Int.ofNat ds) ks
            · rfl
            · simp only [Option.some.injEq] at key
              simp only [key]

/-! ### from last-axis-first state to C-order coordinates -/

theorem digC_reverse (fshape : List Nat) (k : Nat) (hk : k < shapeSize fshape) :
    (digC fshape k).reverse = unravelI fshape k := by
  unfold digC unravelI
  rw [digits_eq_map, ← List.map_reverse, unravelLE_reverse fshape k hk]

theorem repDigits_eq (X : Axes) (i : Nat) :
    repDigits X i = List.zipWith repAt X (unravelLE (X.map Prod.fst) i) := by
  induction X generalizing i with
  | nil => rfl
  | cons x X ih =>
    obtain ⟨a, f⟩ := x
    simp only [repDigits, List.map_cons, unravelLE, List.zipWith_cons_cons, ih, repAt]

theorem repDigits_reverse (ashape fshape : List Nat) (hlen : ashape.length = fshape.length)
    (i : Nat) (hi : i < shapeSize ashape) :
    (repDigits (axesOf ashape fshape) i).reverse =
      List.zipWith repAt (ashape.zip fshape) (unravel ashape i) := by
  rw [repDigits_eq, List.reverse_zipWith (by simp [unravelLE_length]), axesOf_fst ashape fshape hlen,
    unravelLE_reverse ashape i hi]
  simp [axesOf]

theorem mem_fpIdx_lt {fshape : List Nat} {fp : Array Bool} {k : Nat} (h : k ∈ fpIdx fshape fp) :
    k < shapeSize fshape := by
  unfold fpIdx at h
  exact List.mem_range.mp (List.mem_filter.mp h).1

theorem footprintCoords_eq (fshape : List Nat) (fp : Array Bool) :
    footprintCoords fshape fp = (fpIdx fshape fp).map (unravelI fshape) := rfl

/-- `filter_iterator::size()` is the number of footprint elements -/
theorem mkFIter_size (m : Mode) (ashape fshape : List Nat) (fp : Array Bool) :
    (mkFIter m ashape fshape fp).size = (footprintCoords fshape fp).length := by
  simp [mkFIter, initFilterOffsets, footprintSize, footprintCoords]

end FilterIter

open FilterIter in
/-- **F6.** For every rank, every array shape and filter shape with entries ≥ 1 (filter smaller than,
    equal to or larger than the array, even or odd), every border mode and every footprint:
    after `i` calls of `iterate_both` (`i <` number of elements) the array iterator is at the
    position `unravel ashape i` of the C scan order, and `retrieve(·, j, ·)` reads the table entry
    whose coordinate offsets are exactly those of the closed form at that position for the `j`-th
    footprint element — in every axis `fix(mode, p_d + k_d − ⌊fshape_d/2⌋, ashape_d) − p_d`, or the
    flag if some axis is flagged. (The table is `init_filter_offsets`, the pointer arithmetic
    `init_filter_iterator` + `iterate_both`, all as transliterated in `Model/FilterIter.lean`.) -/
theorem filterIter_refines (m : Mode) (ashape fshape : List Nat) (fp : Array Bool)
    (hlen : ashape.length = fshape.length)
    (ha : ∀ a ∈ ashape, 1 ≤ a) (hf : ∀ f ∈ fshape, 1 ≤ f)
    (i : Nat) (hi : i < shapeSize ashape)
    (j : Nat) (hj : j < (footprintCoords fshape fp).length) :
    retrieve (mkFIter m ashape fshape fp) (stateAfter (mkFIter m ashape fshape fp) ashape i) j =
      some (closedForm m ashape fshape (unravelI ashape i) ((footprintCoords fshape fp)[j])) := by
  have hX := axesOf_pos ashape fshape ha hf
  have hjs : j < footprintSize fshape fp := by
    simpa [footprintCoords, footprintSize] using hj
  have hjI : j < (fpIdx fshape fp).length := by
    simpa [footprintCoords_eq] using hj
  rw [stateAfter_eq m ashape fshape fp hlen ha hf i]
  unfold retrieve
  simp only [mkFIter, initFilterOffsets, List.getElem?_toArray]
  have hidx : ((footprintSize fshape fp : Nat) : Int) * ((regionOf (axesOf ashape fshape) i : Nat) : Int)
      + (j : Int) = ((footprintSize fshape fp * regionOf (axesOf ashape fshape) i + j : Nat) : Int) := by
    push_cast; rfl
  rw [hidx, Int.toNat_natCast]
  have hz1 : (fshape.map fun _ => (0 : Int)) = digC fshape 0 := by
    unfold digC
    rw [digits_zero id natDig fshape.reverse (fun _ _ => rfl), zeros_reverse]
  have hz2 : (ashape.map fun _ => (0 : Int)) = digits nReg repDig (axesOf ashape fshape) 0 := by
    rw [digits_zero nReg repDig _ (fun x _ => by simp [repDig, rep_zero])]
    simp [axesOf, List.map_const', hlen]
  rw [hz1, hz2, llLoop_get m ashape fshape fp ha hf _ 0 _ j
    (by rw [offsetsSize_eq]; exact regionOf_lt _ hX i) hjs]
  rw [Nat.zero_add, digits_regionOf _ hX]
  unfold regionEntries
  rw [List.getElem?_map, List.getElem?_eq_getElem hjI, Option.map_some]
  have hk := mem_fpIdx_lt (List.getElem_mem hjI)
  rw [digC_reverse fshape _ hk, repDigits_reverse ashape fshape hlen i hi]
  have hin := unravel_inside fshape _ hk
  rw [entry_closedForm m ashape fshape _ (unravel ashape i) hlen (by simp [unravel_length]) hin]
  simp only [footprintCoords_eq, List.getElem_map]
  rfl

open FilterIter in
/-- the position part of F6: after `i` calls of `iterate_both` the array iterator (whose
    `position_` is stored reversed) is at the C-order position `unravel ashape i`. -/
theorem filterIter_position (m : Mode) (ashape fshape : List Nat) (fp : Array Bool)
    (hlen : ashape.length = fshape.length)
    (ha : ∀ a ∈ ashape, 1 ≤ a) (hf : ∀ f ∈ fshape, 1 ≤ f)
    (i : Nat) (hi : i < shapeSize ashape) :
    (stateAfter (mkFIter m ashape fshape fp) ashape i).posRev.reverse = unravelI ashape i := by
  rw [stateAfter_eq m ashape fshape fp hlen ha hf i]
  exact digC_reverse ashape i hi

open FilterIter in
/-- F6 for the element offsets the code actually stores (`offset += astrides[ii] * cc`): they are the
    image of the coordinate offsets under the linear map `elemOffset astrides`, whatever the strides. -/
theorem filterIter_refines_elemOffset (astrides : List Int) (m : Mode) (ashape fshape : List Nat)
    (fp : Array Bool) (hlen : ashape.length = fshape.length)
    (ha : ∀ a ∈ ashape, 1 ≤ a) (hf : ∀ f ∈ fshape, 1 ≤ f)
    (i : Nat) (hi : i < shapeSize ashape)
    (j : Nat) (hj : j < (footprintCoords fshape fp).length) :
    (retrieve (mkFIter m ashape fshape fp) (stateAfter (mkFIter m ashape fshape fp) ashape i) j).map
        (Option.map (elemOffset astrides)) =
      some ((closedForm m ashape fshape (unravelI ashape i) ((footprintCoords fshape fp)[j])).map
        (elemOffset astrides)) := by
  rw [filterIter_refines m ashape fshape fp hlen ha hf i hi j hj]
  rfl

namespace FilterIter

theorem mechanismWalk_go (fi : FIter) (ashape : List Nat) (k t : Nat) :
    mechanismWalk.go fi ashape k (stateAfter fi ashape t) =
      (List.range' t k).map fun i => (List.range fi.size).map fun j =>
        (retrieve fi (stateAfter fi ashape i) j).getD (some [2147483647]) := by
  induction k generalizing t with
  | zero => rfl
  | succ k ih =>
    rw [mechanismWalk.go, List.range'_succ, List.map_cons]
    congr 1
    exact ih (t + 1)

end FilterIter

open FilterIter in
/-- F6 as the driver prints it (op `f6`): the `table=` and `closed=` answers are the same list. -/
theorem filterIter_refines_walk (m : Mode) (ashape fshape : List Nat) (fp : Array Bool)
    (hlen : ashape.length = fshape.length)
    (ha : ∀ a ∈ ashape, 1 ≤ a) (hf : ∀ f ∈ fshape, 1 ≤ f) :
    mechanismWalk (mkFIter m ashape fshape fp) ashape (shapeSize ashape) =
      closedWalk m ashape fshape fp := by
  unfold mechanismWalk closedWalk allPos
  have h0 : initState ashape = stateAfter (mkFIter m ashape fshape fp) ashape 0 := rfl
  rw [h0, mechanismWalk_go, ← List.range_eq_range', List.map_map]
  apply List.map_congr_left
  intro i hi
  have hi' : i < shapeSize ashape := List.mem_range.mp hi
  apply List.ext_getElem
  · simp [mkFIter_size]
  · intro j h1 h2
    have hj : j < (footprintCoords fshape fp).length := by simpa using h2
    simp only [List.getElem_map, List.getElem_range, Function.comp]
    rw [filterIter_refines m ashape fshape fp hlen ha hf i hi' j hj]
    rfl

/-! ### interface for the property models: which element is read -/

namespace FilterIter

theorem fixPos_length (m : Mode) : ∀ (s : List Nat) (q r : List Int),
    q.length = s.length → fixPos m s q = some r → r.length = s.length := by
  intro s
  induction s with
  | nil => intro q r _ h; cases q <;> simp [fixPos] at h <;> simp [h]
  | cons d ds ih =>
    intro q r hq h
    cases q with
    | nil => simp at hq
    | cons x xs =>
      simp only [fixPos] at h
      cases h1 : fixOffset m x d <;> simp only [h1] at h
      · cases h
      · cases h2 : fixPos m ds xs <;> simp only [h2] at h
        · cases h
        · cases h
          simp [ih xs _ (by simpa using hq) h2]

theorem addPos_subPos : ∀ (p q : List Int), q.length = p.length → addPos p (subPos q p) = q := by
  intro p
  induction p with
  | nil => intro q h; cases q <;> simp_all [addPos]
  | cons a as ih =>
    intro q h
    cases q with
    | nil => simp at h
    | cons b bs =>
      simp only [subPos, addPos, ih bs (by simpa using h)]
      congr 1; omega

theorem addPos_length : ∀ (p q : List Int), q.length = p.length → (addPos p q).length = p.length := by
  intro p
  induction p with
  | nil => intro q h; cases q <;> simp_all [addPos]
  | cons a as ih =>
    intro q h
    cases q with
    | nil => simp at h
    | cons b bs => simp [addPos, ih bs (by simpa using h)]

theorem subPos_length : ∀ (p q : List Int), q.length = p.length → (subPos p q).length = p.length := by
  intro p
  induction p with
  | nil => intro q h; cases q <;> simp_all [subPos]
  | cons a as ih =>
    intro q h
    cases q with
    | nil => simp at h
    | cons b bs => simp [subPos, ih bs (by simpa using h)]

/-- a flagged closed form is a flagged `fixPos` -/
theorem closedForm_none (m : Mode) (ashape fshape : List Nat) (p k : List Int) :
    closedForm m ashape fshape p k = none ↔
      fixPos m ashape (addPos p (subPos k (centreOf fshape))) = none := by
  simp [closedForm]

/-- the element read (`*(&*iterator + offset)`, i.e. position `p + offset`) is the one `fixPos` names:
    this is the form in which the property models use the filter iterator. -/
theorem closedForm_target (m : Mode) (ashape fshape : List Nat) (p k off : List Int)
    (hp : p.length = ashape.length) (hk : k.length = ashape.length) (hfl : fshape.length = ashape.length)
    (h : closedForm m ashape fshape p k = some off) :
    fixPos m ashape (addPos p (subPos k (centreOf fshape))) = some (addPos p off) := by
  unfold closedForm at h
  cases hq : fixPos m ashape (addPos p (subPos k (centreOf fshape))) with
  | none => simp [hq] at h
  | some q =>
    simp only [hq, Option.map_some, Option.some.injEq] at h
    have hc : (centreOf fshape).length = k.length := by simp [centreOf, hfl, hk]
    have h1 : (subPos k (centreOf fshape)).length = p.length := by
      rw [subPos_length k _ hc, hk, hp]
    have h2 := fixPos_length m ashape _ q (by rw [addPos_length p _ h1, hp]) hq
    rw [← h, addPos_subPos p q (by rw [h2, hp])]

/-- on shapes with positive entries `fixPos` (the code's rule) is `specPos` (the specified rule) -/
theorem fixPos_eq_specPos (m : Mode) : ∀ (s : List Nat) (q : List Int), (∀ d ∈ s, 0 < d) →
    fixPos m s q = specPos m s q := by
  intro s
  induction s with
  | nil => intro q _; cases q <;> rfl
  | cons d ds ih =>
    intro q hs
    cases q with
    | nil => rfl
    | cons x xs =>
      simp only [fixPos, specPos]
      rw [fixOffset_eq_spec m x d (by have := hs d (by simp); omega),
        ih xs (fun e he => hs e (by simp [he]))]

end FilterIter

/-! non-vacuity: a 1-D array of 5 under a filter of 3 (`nearest`): at the last position the third
    footprint element is clamped back onto the position itself; 2-D, filter larger than the array,
    `constant`: the element is flagged -/
example : FilterIter.retrieve (FilterIter.mkFIter .nearest [5] [3] #[true, true, true])
    (FilterIter.stateAfter (FilterIter.mkFIter .nearest [5] [3] #[true, true, true]) [5] 4) 2
    = some (some [0]) := by decide
example : FilterIter.closedForm .nearest [5] [3] [4] [2] = some [0] := by decide
example : FilterIter.closedForm .constant [2, 2] [3, 5] [1, 1] [0, 4] = none := by decide

end Mahotas
