/-
F6 — `filterIter_refines`: the offset-table mechanism of `filter_iterator`
(`init_filter_offsets` + `init_filter_iterator` + `iterate_both` + `retrieve`) retrieves, at every
array position in C scan order and for every footprint element, exactly what the closed form says.
All ranks, all shapes with entries ≥ 1 (filter smaller than / equal to / larger than the array,
even and odd), all six border modes, any footprint.
-/
import Mahotas.Proofs.FilterIterAxis
import Mahotas.Proofs.FilterIterOdo
import Mathlib.Tactic.Ring
namespace Mahotas
namespace FilterIter

/-- axes as pairs (array length, filter length), last axis first -/
abbrev Axes := List (Nat × Nat)

def AxPos (X : Axes) : Prop := ∀ x ∈ X, 0 < x.1 ∧ 0 < x.2

theorem AxPos.tail {x : Nat × Nat} {X : Axes} (h : AxPos (x :: X)) : AxPos X :=
  fun y hy => h y (by simp [hy])

theorem AxPos.head {x : Nat × Nat} {X : Axes} (h : AxPos (x :: X)) : 0 < x.1 ∧ 0 < x.2 :=
  h x (by simp)

def nReg (x : Nat × Nat) : Nat := nRegions x.1 x.2
def repDig (x : Nat × Nat) (r : Nat) : Int := ((rep x.1 x.2 r : Nat) : Int)

/-- the region (index of the set of offsets in the table) of the position with flat index `i` -/
def regionOf : Axes → Nat → Nat
  | [], _ => 0
  | (a, f) :: X, i => regionIdx a f (i % a) + nRegions a f * regionOf X (i / a)

/-- the position `init_filter_offsets` was at when it stored the offsets of the region of `i` -/
def repDigits : Axes → Nat → List Int
  | [], _ => []
  | (a, f) :: X, i => ((rep a f (regionIdx a f (i % a)) : Nat) : Int) :: repDigits X (i / a)

theorem regionOf_lt (X : Axes) (hX : AxPos X) (i : Nat) : regionOf X i < radProd nReg X := by
  induction X generalizing i with
  | nil => simp [regionOf, radProd]
  | cons x X ih =>
    obtain ⟨a, f⟩ := x
    have ⟨ha, hf⟩ := hX.head
    simp only at ha hf
    simp only [regionOf, radProd, nReg]
    have h1 := regionIdx_lt (a := a) (f := f) (p := i % a) hf (Nat.mod_lt _ ha)
    have h2 := ih hX.tail (i / a)
    have h3 : nRegions a f * (regionOf X (i / a) + 1) ≤ nRegions a f * radProd nReg X :=
      Nat.mul_le_mul_left _ h2
    rw [Nat.mul_add, Nat.mul_one] at h3
    omega

theorem digits_regionOf (X : Axes) (hX : AxPos X) (i : Nat) :
    digits nReg repDig X (regionOf X i) = repDigits X i := by
  induction X generalizing i with
  | nil => rfl
  | cons x X ih =>
    obtain ⟨a, f⟩ := x
    have ⟨ha, hf⟩ := hX.head
    simp only at ha hf
    have h1 := regionIdx_lt (a := a) (f := f) (p := i % a) hf (Nat.mod_lt _ ha)
    have hn : 0 < nRegions a f := nRegions_pos ha hf
    simp only [digits, regionOf, repDigits, nReg, repDig]
    rw [Nat.add_mul_mod_self_left, Nat.mod_eq_of_lt h1, Nat.add_mul_div_left _ _ hn,
      Nat.div_eq_of_lt h1, Nat.zero_add, ih hX.tail]

/-! ### the three odometers of the code -/

theorem posOdo (X : Axes) (hX : AxPos X) (l : Nat) :
    odoRev posSucc X (digits nReg repDig X l) = digits nReg repDig X (l + 1) := by
  apply odoRev_digits
  · intro x _; simp [repDig, rep_zero]
  · intro x hx; exact nRegions_pos (hX x hx).1 (hX x hx).2
  · intro x _ r hr
    obtain ⟨a, f⟩ := x
    exact posSucc_rep hr

theorem coordOdo (F : List Nat) (hF : ∀ f ∈ F, 0 < f) (k : Nat) :
    odoRev coordSucc F (digits id natDig F k) = digits id natDig F (k + 1) := by
  apply odoRev_digits
  · intro x _; rfl
  · intro x hx; exact hF x hx
  · intro x _ r hr
    simp only [id] at hr
    unfold coordSucc natDig
    simp only [id]
    by_cases h : r + 1 < x
    · have : (r : Int) < (x : Int) - 1 := by omega
      simp only [h, this, if_true]; rfl
    · have : ¬ (r : Int) < (x : Int) - 1 := by omega
      simp only [h, this, if_false]

theorem itOdo (A : List Nat) (hA : ∀ a ∈ A, 0 < a) (i : Nat) :
    odoRev itSucc A (digits id natDig A i) = digits id natDig A (i + 1) := by
  apply odoRev_digits
  · intro x _; rfl
  · intro x hx; exact hA x hx
  · intro x _ r hr
    simp only [id] at hr
    unfold itSucc natDig
    simp only [id]
    by_cases h : r + 1 < x
    · have : (r : Int) + 1 ≠ (x : Int) := by omega
      simp only [h, this, if_true, ne_eq, not_false_eq_true]; rfl
    · have : ¬ ((r : Int) + 1 ≠ (x : Int)) := by omega
      simp only [h, this, if_false]

/-! ### `init_filter_iterator`: the reversed arrays, last axis first -/

def stepI (a f : Nat) : Int := if a < f then (a : Int) else (f : Int)

theorem stepI_eq (a f : Nat) : stepI a f = ((nRegions a f : Nat) : Int) := by
  unfold stepI nRegions; split <;> rfl

def mkAx (a f : Nat) (stride : Int) : AxisIt :=
  { stride := stride, backstride := (stepI a f - 1) * stride,
    minbound := (f : Int) / 2, maxbound := (a : Int) - (f : Int) + (f : Int) / 2 }

/-- the four arrays of `init_filter_iterator` after the `std::reverse`s, by a running product -/
def axLE (s : Int) : Axes → List AxisIt
  | [] => []
  | (a, f) :: X => mkAx a f s :: axLE (s * stepI a f) X

def stepProd : Axes → Int
  | [] => 1
  | (a, f) :: X => stepI a f * stepProd X

theorem stepProd_append (X Y : Axes) : stepProd (X ++ Y) = stepProd X * stepProd Y := by
  induction X with
  | nil => simp [stepProd]
  | cons x X ih => obtain ⟨a, f⟩ := x; simp only [List.cons_append, stepProd, ih]; ring

theorem stepProd_reverse (X : Axes) : stepProd X.reverse = stepProd X := by
  induction X with
  | nil => rfl
  | cons x X ih =>
    obtain ⟨a, f⟩ := x
    simp only [List.reverse_cons, stepProd_append, ih, stepProd]; ring

theorem axLE_snoc (s : Int) (X : Axes) (a f : Nat) :
    axLE s (X ++ [(a, f)]) = axLE s X ++ [mkAx a f (s * stepProd X)] := by
  induction X generalizing s with
  | nil => simp [axLE, stepProd]
  | cons x X ih =>
    obtain ⟨a1, f1⟩ := x
    simp only [List.cons_append, axLE, ih, stepProd]
    rw [Int.mul_assoc]

theorem initAxes_unfold (fsz : Int) (a f : Nat) (as fs : List Nat) :
    initAxes fsz (a :: as) (f :: fs) =
      mkAx a f (match initAxes fsz as fs, as, fs with
                | r :: _, a1 :: _, f1 :: _ => r.stride * stepI a1 f1
                | _, _, _ => fsz) :: initAxes fsz as fs := rfl

theorem initAxes_cons (fsz : Int) (a f : Nat) (as fs : List Nat) :
    initAxes fsz (a :: as) (f :: fs) =
      mkAx a f (fsz * stepProd (as.zip fs)) :: initAxes fsz as fs := by
  rw [initAxes_unfold]
  congr 2
  cases as with
  | nil => simp [stepProd]
  | cons a1 as =>
    cases fs with
    | nil => simp [stepProd, initAxes]
    | cons f1 fs =>
      induction as generalizing a1 f1 fs with
      | nil =>
        rw [initAxes_unfold]
        simp [stepProd, initAxes, mkAx]
      | cons a2 as ih =>
        cases fs with
        | nil =>
          rw [initAxes_unfold]
          simp [stepProd, initAxes, mkAx]
        | cons f2 fs =>
          rw [initAxes_unfold]
          simp only [mkAx, List.zip_cons_cons, stepProd]
          rw [ih a2 f2 fs]
          simp only [List.zip_cons_cons, stepProd]
          ring

theorem initAxes_reverse (fsz : Int) (as fs : List Nat) :
    (initAxes fsz as fs).reverse = axLE fsz (as.zip fs).reverse := by
  induction as generalizing fs with
  | nil => simp [initAxes, axLE]
  | cons a as ih =>
    cases fs with
    | nil => simp [initAxes, axLE]
    | cons f fs =>
      rw [initAxes_cons, List.reverse_cons, ih, List.zip_cons_cons, List.reverse_cons, axLE_snoc,
        stepProd_reverse]

/-! ### `iterate_both`: the table pointer follows the region of the position -/

/-- invariant of the carry loop: if the pointer is at (running stride) × (region of `i`) before
    `iterate_both`, it is at (running stride) × (region of `i+1`) afterwards -/
theorem iterateBoth_regionOf (X : Axes) (hX : AxPos X) (s c0 : Int) (i : Nat) :
    iterateBoth (axLE s X) (digits id natDig (X.map Prod.fst) i) (X.map Prod.fst)
        (c0 + s * ((regionOf X i : Nat) : Int)) = c0 + s * ((regionOf X (i + 1) : Nat) : Int) := by
  induction X generalizing s c0 i with
  | nil => simp [iterateBoth, axLE, regionOf]
  | cons x X ih =>
    obtain ⟨a, f⟩ := x
    have ⟨ha, hf⟩ := hX.head
    simp only at ha hf
    simp only [List.map_cons, digits, axLE, iterateBoth, id, natDig, mkAx, regionOf]
    have hsd := succ_divmod i a ha
    have hlt := Nat.mod_lt i ha
    by_cases h : i % a + 1 < a
    · obtain ⟨e1, e2⟩ := hsd.1 h
      have c : ((i % a : Nat) : Int) < (a : Int) - 1 := by omega
      simp only [c, if_true, e1, e2]
      rw [regionIdx_succ hf]
      by_cases hc : ((i % a : Nat) : Int) < (f : Int) / 2 ∨
          ((i % a : Nat) : Int) ≥ (a : Int) - (f : Int) + (f : Int) / 2
      · simp only [hc, if_true]; push_cast; ring
      · simp only [hc, if_false]; push_cast; ring
    · obtain ⟨e1, e2⟩ := hsd.2 h
      have c : ¬ ((i % a : Nat) : Int) < (a : Int) - 1 := by omega
      simp only [c, if_false, e1, e2]
      have e3 : i % a = a - 1 := by omega
      rw [e3, regionIdx_last ha hf, regionIdx_zero]
      have hn := nRegions_pos ha hf
      have e4 : ((nRegions a f - 1 : Nat) : Int) = ((nRegions a f : Nat) : Int) - 1 := by omega
      have e5 : c0 + s * ((nRegions a f - 1 + nRegions a f * regionOf X (i / a) : Nat) : Int)
            - (stepI a f - 1) * s
          = c0 + (s * stepI a f) * ((regionOf X (i / a) : Nat) : Int) := by
        rw [stepI_eq]; push_cast; rw [e4]; ring
      rw [e5, ih hX.tail, stepI_eq]
      push_cast; ring

end FilterIter
end Mahotas
