/-
F6, per axis: regions of an axis of length `a` under a filter of length `f` (origin `o = f / 2`),
their representative positions, and the key lemma: the offsets stored for the region of `p`
are the offsets the closed form gives at `p`, in all six border modes.
-/
import Mahotas.Model.FilterIter
import Mahotas.Proofs.Border
namespace Mahotas
namespace FilterIter

/-- number of regions along an axis (`step` in `init_filter_iterator`) -/
def nRegions (a f : Nat) : Nat := if a < f then a else f

/-- the position `init_filter_offsets` uses to compute the offsets of region `r`
    (the `r`-th iterate of the jump rule from 0) -/
def rep (a f r : Nat) : Nat :=
  if f ≤ a then (if r ≤ f / 2 then r else a - f + r) else r

/-- the region of position `p` = the number of `q < p` with `q < o ∨ q ≥ a - f + o` -/
def regionIdx (a f p : Nat) : Nat :=
  if f ≤ a then (if p ≤ f / 2 then p else if p ≤ a - f + f / 2 then f / 2 else p - (a - f)) else p

theorem nRegions_pos {a f : Nat} (ha : 0 < a) (hf : 0 < f) : 0 < nRegions a f := by
  unfold nRegions; split <;> omega

theorem rep_zero (a f : Nat) : rep a f 0 = 0 := by
  unfold rep; split <;> simp

/-- the jump rule walks through the representatives and leaves the axis after the last one -/
theorem posSucc_rep {a f : Nat} {r : Nat} (hr : r < nRegions a f) :
    posSucc (a, f) ((rep a f r : Nat) : Int) =
      if r + 1 < nRegions a f then some ((rep a f (r + 1) : Nat) : Int) else none := by
  unfold nRegions at hr ⊢
  unfold posSucc rep
  simp only
  by_cases hfa : f ≤ a
  · have hlt : ¬ a < f := by omega
    simp only [hfa, hlt, if_true, if_false] at hr ⊢
    by_cases h1 : r ≤ f / 2
    · simp only [h1, if_true]
      by_cases h2 : r + 1 ≤ f / 2
      · simp only [h2, if_true]
        have e1 : ¬ ((r : Int) = (f : Int) / 2) := by omega
        have e2 : (r : Int) + 1 < (a : Int) := by omega
        have e3 : r + 1 < f := by omega
        simp only [e1, e2, e3, if_true, if_false]
        congr 1
      · simp only [h2, if_false]
        have e1 : (r : Int) = (f : Int) / 2 := by omega
        have e2 : ¬ ((r : Int) + ((a : Int) - (f : Int) + 1) ≤ (f : Int) / 2) := by omega
        simp only [e1, if_true] at e2 ⊢
        simp only [e2, if_false]
        by_cases h3 : r + 1 < f
        · have e4 : (f : Int) / 2 + ((a : Int) - (f : Int) + 1) < (a : Int) := by omega
          simp only [h3, e4, if_true]
          apply congrArg some; omega
        · have e4 : ¬ ((f : Int) / 2 + ((a : Int) - (f : Int) + 1) < (a : Int)) := by omega
          simp only [h3, e4, if_false]
    · have h2 : ¬ (r + 1 ≤ f / 2) := by omega
      simp only [h1, h2, if_false]
      have e1 : ¬ (((a - f + r : Nat) : Int) = (f : Int) / 2) := by omega
      simp only [e1, if_false]
      by_cases h3 : r + 1 < f
      · have e4 : ((a - f + r : Nat) : Int) + 1 < (a : Int) := by omega
        simp only [h3, e4, if_true]
        apply congrArg some; omega
      · have e4 : ¬ (((a - f + r : Nat) : Int) + 1 < (a : Int)) := by omega
        simp only [h3, e4, if_false]
  · have hlt : a < f := by omega
    simp only [hfa, hlt, if_true, if_false] at hr ⊢
    by_cases h1 : (r : Int) = (f : Int) / 2
    · have e2 : (r : Int) + ((a : Int) - (f : Int) + 1) ≤ (f : Int) / 2 := by omega
      simp only [h1, if_true] at e2 ⊢
      simp only [e2, if_true]
      by_cases h3 : r + 1 < a
      · have e4 : (f : Int) / 2 + 1 < (a : Int) := by omega
        simp only [h3, e4, if_true]
        apply congrArg some; omega
      · have e4 : ¬ ((f : Int) / 2 + 1 < (a : Int)) := by omega
        simp only [h3, e4, if_false]
    · simp only [h1, if_false]
      by_cases h3 : r + 1 < a
      · have e4 : (r : Int) + 1 < (a : Int) := by omega
        simp only [h3, e4, if_true]
        congr 1
      · have e4 : ¬ ((r : Int) + 1 < (a : Int)) := by omega
        simp only [h3, e4, if_false]

theorem regionIdx_zero (a f : Nat) : regionIdx a f 0 = 0 := by
  unfold regionIdx; split <;> simp

theorem regionIdx_lt {a f p : Nat} (hf : 0 < f) (hp : p < a) : regionIdx a f p < nRegions a f := by
  unfold regionIdx nRegions
  split <;> split <;> (try split) <;> (try split) <;> omega

theorem regionIdx_last {a f : Nat} (ha : 0 < a) (hf : 0 < f) :
    regionIdx a f (a - 1) = nRegions a f - 1 := by
  unfold regionIdx nRegions
  split <;> split <;> (try split) <;> (try split) <;> omega

/-- the table pointer advances when leaving `p` iff `p < minbound ∨ p ≥ maxbound` -/
theorem regionIdx_succ {a f p : Nat} (hf : 0 < f) :
    regionIdx a f (p + 1) = regionIdx a f p +
      (if (p : Int) < (f : Int) / 2 ∨ (p : Int) ≥ (a : Int) - (f : Int) + (f : Int) / 2 then 1 else 0) := by
  unfold regionIdx
  by_cases hfa : f ≤ a
  · simp only [hfa, if_true]
    by_cases c : (p : Int) < (f : Int) / 2 ∨ (p : Int) ≥ (a : Int) - (f : Int) + (f : Int) / 2
    · simp only [c, if_true]
      split <;> split <;> (try split) <;> (try split) <;> omega
    · simp only [c, if_false]
      split <;> split <;> (try split) <;> (try split) <;> omega
  · simp only [hfa, if_false]
    have c : (p : Int) < (f : Int) / 2 ∨ (p : Int) ≥ (a : Int) - (f : Int) + (f : Int) / 2 := by omega
    simp only [c, if_true]

/-- inside the array every border rule is the identity -/
theorem fixOffset_inrange (m : Mode) {cc len : Int} (h0 : 0 ≤ cc) (h1 : cc < len) :
    fixOffset m cc len = some cc := by
  have n0 : ¬ cc < 0 := by omega
  have n1 : ¬ cc ≥ len := by omega
  cases m <;> simp [fixOffset, n0, n1]

/-- one axis of a table entry / of the closed form: `fix(k - o + q) - q` -/
def axisOffset (m : Mode) (a f : Nat) (k q : Int) : Option Int :=
  (fixOffset m (k - ((f : Int) / 2) + q) a).map fun cc => cc - q

/-- **Key lemma** (per axis, all modes): the offset stored for the region of `p`, computed at the
    representative position of that region, is the offset of the closed form at `p` itself:
    either the representative *is* `p`, or both are interior, where `fix` is the identity. -/
theorem axisOffset_rep (m : Mode) {a f p : Nat} {k : Int} (hk0 : 0 ≤ k) (hk1 : k < f) :
    axisOffset m a f k ((rep a f (regionIdx a f p) : Nat) : Int) = axisOffset m a f k (p : Int) := by
  by_cases hrep : rep a f (regionIdx a f p) = p
  · rw [hrep]
  · -- interior: f ≤ a, o < p ≤ a - f + o, representative = o
    have hmid : f ≤ a ∧ f / 2 < p ∧ p ≤ a - f + f / 2 ∧ rep a f (regionIdx a f p) = f / 2 := by
      revert hrep
      unfold rep regionIdx
      repeat' split
      all_goals omega
    obtain ⟨hfa, h1, h2, h3⟩ := hmid
    unfold axisOffset
    rw [h3, fixOffset_inrange m (by omega) (by omega), fixOffset_inrange m (by omega) (by omega)]
    simp only [Option.map_some]
    apply congrArg some; omega

end FilterIter
end Mahotas
