/-
F6, odometers: the loop skeleton `odoRev` counts in a mixed radix (last axis first), whatever
the per-axis successor does, as long as it walks through `rad` "digits" and then carries.
Plus the mixed-radix facts that connect the last-axis-first digits with `unravel` (C order).
-/
import Mahotas.Model.FilterIter
namespace Mahotas
namespace FilterIter

/-- the state of an odometer after `i` steps: per axis the `(i / (product of faster radices)) % rad`-th digit -/
def digits {α : Type} (rad : α → Nat) (dig : α → Nat → Int) : List α → Nat → List Int
  | [], _ => []
  | a :: as, i => dig a (i % rad a) :: digits rad dig as (i / rad a)

/-- product of the radices -/
def radProd {α : Type} (rad : α → Nat) : List α → Nat
  | [] => 1
  | a :: as => rad a * radProd rad as

theorem succ_divmod (i n : Nat) (hn : 0 < n) :
    (i % n + 1 < n → (i + 1) % n = i % n + 1 ∧ (i + 1) / n = i / n) ∧
    (¬ i % n + 1 < n → (i + 1) % n = 0 ∧ (i + 1) / n = i / n + 1) := by
  have hm := Nat.mod_add_div i n
  have hlt := Nat.mod_lt i hn
  constructor
  · intro h
    have := (Nat.div_mod_unique (a := i + 1) (d := i / n) (c := i % n + 1) hn).2 ⟨by omega, h⟩
    exact ⟨this.2, this.1⟩
  · intro h
    have := (Nat.div_mod_unique (a := i + 1) (d := i / n + 1) (c := 0) hn).2
      ⟨by rw [Nat.mul_add, Nat.mul_one]; omega, hn⟩
    exact ⟨this.2, this.1⟩

/-- **Odometer lemma**: one step of the loop skeleton takes the `i`-th state to the `(i+1)`-th
    (and the last state back to the first). -/
theorem odoRev_digits {α : Type} (succ : α → Int → Option Int) (rad : α → Nat) (dig : α → Nat → Int)
    (axes : List α)
    (h0 : ∀ a ∈ axes, dig a 0 = 0) (hrad : ∀ a ∈ axes, 0 < rad a)
    (hs : ∀ a ∈ axes, ∀ r, r < rad a →
      succ a (dig a r) = if r + 1 < rad a then some (dig a (r + 1)) else none) (i : Nat) :
    odoRev succ axes (digits rad dig axes i) = digits rad dig axes (i + 1) := by
  induction axes generalizing i with
  | nil => simp [digits, odoRev]
  | cons a as ih =>
    have hn : 0 < rad a := hrad a (by simp)
    have hlt := Nat.mod_lt i hn
    have hsd := succ_divmod i (rad a) hn
    simp only [digits, odoRev]
    rw [hs a (by simp) (i % rad a) hlt]
    by_cases h : i % rad a + 1 < rad a
    · obtain ⟨e1, e2⟩ := hsd.1 h
      simp only [h, if_true, e1, e2]
    · obtain ⟨e1, e2⟩ := hsd.2 h
      simp only [h, if_false, e1, e2]
      rw [h0 a (by simp)]
      congr 1
      exact ih (fun b hb => h0 b (by simp [hb])) (fun b hb => hrad b (by simp [hb]))
        (fun b hb => hs b (by simp [hb])) (i / rad a)

theorem digits_zero {α : Type} (rad : α → Nat) (dig : α → Nat → Int) (axes : List α)
    (h0 : ∀ a ∈ axes, dig a 0 = 0) : digits rad dig axes 0 = axes.map fun _ => 0 := by
  induction axes with
  | nil => rfl
  | cons a as ih =>
    simp only [digits, Nat.zero_mod, Nat.zero_div, List.map_cons]
    rw [h0 a (by simp), ih (fun b hb => h0 b (by simp [hb]))]

/-- after `radProd` steps the odometer is back at the start -/
theorem digits_radProd {α : Type} (rad : α → Nat) (dig : α → Nat → Int) (axes : List α)
    (hrad : ∀ a ∈ axes, 0 < rad a) :
    digits rad dig axes (radProd rad axes) = digits rad dig axes 0 := by
  induction axes with
  | nil => rfl
  | cons a as ih =>
    have hn : 0 < rad a := hrad a (by simp)
    simp only [digits, radProd, Nat.mul_mod_right, Nat.mul_div_cancel_left _ hn, Nat.zero_mod,
      Nat.zero_div]
    rw [ih (fun b hb => hrad b (by simp [hb]))]

theorem digits_length {α : Type} (rad : α → Nat) (dig : α → Nat → Int) (axes : List α) (i : Nat) :
    (digits rad dig axes i).length = axes.length := by
  induction axes generalizing i with
  | nil => rfl
  | cons a as ih => simp [digits, ih]

theorem radProd_append {α : Type} (rad : α → Nat) (xs ys : List α) :
    radProd rad (xs ++ ys) = radProd rad xs * radProd rad ys := by
  induction xs with
  | nil => simp [radProd]
  | cons a as ih => simp [radProd, ih, Nat.mul_assoc]

theorem radProd_reverse {α : Type} (rad : α → Nat) (xs : List α) :
    radProd rad xs.reverse = radProd rad xs := by
  induction xs with
  | nil => rfl
  | cons a as ih => simp [radProd, radProd_append, ih, Nat.mul_comm]

theorem radProd_id (s : List Nat) : radProd id s = shapeSize s := by
  induction s with
  | nil => rfl
  | cons a as ih => simp [radProd, shapeSize, ih]

theorem shapeSize_reverse (s : List Nat) : shapeSize s.reverse = shapeSize s := by
  rw [← radProd_id, ← radProd_id, radProd_reverse]

/-! ### last-axis-first digits versus `unravel` -/

/-- mixed-radix digits of `i`, fastest axis first -/
def unravelLE : List Nat → Nat → List Nat
  | [], _ => []
  | n :: ns, i => (i % n) :: unravelLE ns (i / n)

theorem unravelLE_length (s : List Nat) (i : Nat) : (unravelLE s i).length = s.length := by
  induction s generalizing i with
  | nil => rfl
  | cons a as ih => simp [unravelLE, ih]

/-- digits that are just the counter values (filter coordinates, array iterator position) -/
def natDig (_ : Nat) (r : Nat) : Int := (r : Int)

theorem digits_eq_map (s : List Nat) (i : Nat) :
    digits id natDig s i = (unravelLE s i).map Int.ofNat := by
  induction s generalizing i with
  | nil => rfl
  | cons a as ih => simp only [digits, unravelLE, List.map_cons, id, ih, natDig]; rfl

theorem unravelLE_snoc (xs : List Nat) (d i : Nat) :
    unravelLE (xs ++ [d]) i = unravelLE xs (i % shapeSize xs) ++ [(i / shapeSize xs) % d] := by
  induction xs generalizing i with
  | nil => simp [unravelLE, shapeSize]
  | cons n ns ih =>
    simp only [List.cons_append, unravelLE, shapeSize, ih]
    rw [Nat.mod_mul_right_mod, Nat.mod_mul_right_div_self, Nat.div_div_eq_div_mul]

theorem shapeSize_pos (s : List Nat) (h : ∀ d ∈ s, 0 < d) : 0 < shapeSize s := by
  induction s with
  | nil => simp [shapeSize]
  | cons a as ih =>
    simp only [shapeSize]
    exact Nat.mul_pos (h a (by simp)) (ih (fun b hb => h b (by simp [hb])))

/-- the reversed last-axis-first digits are the C-order coordinates -/
theorem unravelLE_reverse (s : List Nat) (i : Nat) (hi : i < shapeSize s) :
    (unravelLE s.reverse i).reverse = unravel s i := by
  induction s generalizing i with
  | nil => rfl
  | cons d ds ih =>
    simp only [List.reverse_cons, unravelLE_snoc, List.reverse_append, List.reverse_cons,
      List.reverse_nil, List.nil_append, List.cons_append, unravel, shapeSize_reverse]
    simp only [shapeSize] at hi
    by_cases hz : shapeSize ds = 0
    · rw [hz] at hi; omega
    · have hpos : 0 < shapeSize ds := by omega
      rw [ih (i % shapeSize ds) (Nat.mod_lt _ hpos)]
      rw [Nat.mod_eq_of_lt (Nat.div_lt_of_lt_mul (by rw [Nat.mul_comm]; exact hi))]

theorem unravel_length (s : List Nat) (i : Nat) : (unravel s i).length = s.length := by
  induction s generalizing i with
  | nil => rfl
  | cons a as ih => simp [unravel, ih]

theorem unravel_inside (s : List Nat) (i : Nat) (hi : i < shapeSize s) :
    inside s (unravelI s i) = true := by
  induction s generalizing i with
  | nil => rfl
  | cons d ds ih =>
    simp only [shapeSize] at hi
    by_cases hz : shapeSize ds = 0
    · rw [hz] at hi; omega
    · have hpos : 0 < shapeSize ds := by omega
      have h1 : i / shapeSize ds < d := Nat.div_lt_of_lt_mul (by rw [Nat.mul_comm]; exact hi)
      have := ih (i % shapeSize ds) (Nat.mod_lt _ hpos)
      simp only [unravelI] at this
      simp only [unravelI, unravel, List.map_cons, inside, this, Bool.and_true, Bool.and_eq_true,
        decide_eq_true_eq]
      constructor
      · exact Int.natCast_nonneg _
      · exact Int.ofNat_lt.mpr h1

end FilterIter
end Mahotas
