/-
The numbering of the border modes: the models number them by `Mode.code`; the source numbers them in two places,
`mode2int` of `mahotas/_filters.py` (what the wrappers send) and `enum ExtendMode` of `mahotas/_filters.h` (what the
kernels switch on). Both tables are regenerated from the current source on every run (`Generated/Tables.lean`, block
`modes`); the theorem below is re-checked against them.
-/
import Mahotas.Model.Border
import Mahotas.Generated.Tables

namespace Mahotas

/-- the name of a mode in `mode2int` (and, upper-cased with the prefix `Extend`, in `ExtendMode`) -/
def Mode.name : Mode → String
  | .nearest => "nearest" | .wrap => "wrap" | .reflect => "reflect"
  | .mirror => "mirror" | .constant => "constant" | .ignore => "ignore"

/-- Every mode has, in the Python table and in the C++ enumeration extracted from the current source, exactly the
code the models use. -/
theorem mode_codes_agree (m : Mode) :
    Generated.pyModes.lookup m.name = some m.code ∧ Generated.cppModes.lookup m.name = some m.code := by
  cases m <;> decide

/-- Neither table has further entries: six modes, no code the models do not know. -/
theorem mode_tables_complete :
    Generated.pyModes.length = 6 ∧ Generated.cppModes.length = 6 ∧
    (∀ e ∈ Generated.pyModes, (Mode.ofCode e.2).isSome) ∧ (∀ e ∈ Generated.cppModes, (Mode.ofCode e.2).isSome) := by
  decide

end Mahotas
