/-
All ties between the regenerated Python bodies (`Generated/PyBodies<Cxx>.lean`, translator/pybody.py) and the hand-written
models. The theorems live in one file per property so that a broken tie breaks only the property whose model
transliterates that body (`harness/foundation/pybody.py: BY_PROPERTY`); this file only collects them.
-/
import Mahotas.Proofs.PyBodyTiesC01
import Mahotas.Proofs.PyBodyTiesC02
import Mahotas.Proofs.PyBodyTiesC06
import Mahotas.Proofs.PyBodyTiesC14
import Mahotas.Proofs.PyBodyTiesC13
import Mahotas.Proofs.PyBodyTiesC15
import Mahotas.Proofs.PyBodyTiesC16
import Mahotas.Proofs.PyBodyTiesC16b
import Mahotas.Proofs.PyBodyTiesC17
import Mahotas.Proofs.PyBodyTiesC18
import Mahotas.Proofs.PyBodyTiesC18b
import Mahotas.Proofs.PyBodyTiesC16Rc
import Mahotas.Proofs.PyBodyTiesC19
import Mahotas.Proofs.PyBodyTiesC20
import Mahotas.Proofs.PyBodyTiesC20b
