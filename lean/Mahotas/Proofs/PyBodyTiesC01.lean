/-
Tie between the body of `morph.py: disk` (regenerated on every run into `Generated/PyBodiesC01.lean`) and
`C01.diskElem`, the structuring element the driver builds for the kind `disk`.
-/
import Mahotas.Generated.PyBodiesC01
import Mahotas.Model.C01

namespace Mahotas
open Mahotas.Generated.Py Mahotas.C01

/-- membership in the disk of radius `r` at the position with coordinate vector `v` (as `np.indices` lists it):
    `Σ (v_i − r)² < r²` -/
def pyDiskAt (r : Nat) (v : List Int) : Bool :=
  decide ((v.map fun x => (x - (r : Int)) * (x - (r : Int))).foldl (· + ·) 0 < ((r * r : Nat) : Int))

/-- **`morph.disk` (current source)**, for every scalar type and all primitives: dimensions `≤ 0` and `> 64` raise; the
    shape is `2·radius + 1` per axis; two dimensions go to the C++ kernel `disk_2d` on a zero array of that shape; every
    other dimension is `Σ (index − radius)² < radius²` over `np.indices(shape)`. -/
theorem pybody_morph_disk_eq_model {K X A D : Type} [Add K] [Sub K] [Mul K] [LT K] [DecidableLT K] [LE K] [DecidableLE K]
    (ofNat : Nat → K) (P : DiskPrims K X A D) (r d : Nat) :
    morph_disk ofNat P r d =
      if d = 0 ∨ 64 < d then none
      else if d = 2 then some (P.disk_2d (P.zeros (List.replicate d (r * 2 + 1)) P.bool_dtype) r)
      else some (fun p => decide (List.foldl (fun a b => a + b) (ofNat 0)
        ((P.indices (List.replicate d (r * 2 + 1)) P.float_dtype p).map fun t => (t - ofNat r) * (t - ofNat r)) < ofNat (r * r))) := by
  have hshape : List.map (fun _ => r * 2 + 1) (List.range d) = List.replicate d (r * 2 + 1) := by
    simp [List.map_const']
  unfold morph_disk
  by_cases h0 : d = 0
  · simp [h0]
  by_cases h64 : 64 < d
  · simp [h64]
  by_cases h2 : d = 2
  · subst h2; simp [hshape]
  · simp only [hshape, h0, h64, h2, Nat.le_zero, decide_false, Bool.false_eq_true, if_false,
      false_or, List.map_map]
    rfl

/-- … with integer scalars and `np.indices` giving every position its own coordinate vector: the mask at `v` is
    `pyDiskAt r v`, and **`C01.diskElem d r`** is that mask listed over all positions of the `(2r+1)^d` box in C order
    (also for `d = 2` when `disk_2d` computes the same formula, which is what the C01 correspondence run checks). -/
theorem pybody_morph_disk_diskElem {A D : Type} (bd fd : D) (z : List Nat → D → A) (k2 : A → Nat → List Int → Bool)
    (r d : Nat) (hd : 0 < d) (hd64 : d ≤ 64) (h2 : d ≠ 2) :
    ∃ m, morph_disk (fun n => (n : Int))
        ({ bool_dtype := bd, float_dtype := fd, zeros := z, disk_2d := k2, indices := fun _ _ v => v } : DiskPrims Int (List Int) A D)
        r d = some m ∧ (∀ v, m v = pyDiskAt r v) ∧
      diskElem d r = ((allPos (List.replicate d (2 * r + 1))).map fun v => if m v then (1 : Int) else 0).toArray := by
  refine ⟨pyDiskAt r, ?_, fun _ => rfl, ?_⟩
  · rw [pybody_morph_disk_eq_model]
    have h0 : ¬ (d = 0 ∨ 64 < d) := by omega
    rw [if_neg h0, if_neg h2]
    congr 1
  · unfold diskElem pyDiskAt
    simp only [decide_eq_true_eq]

/-- the integer instantiation used in the examples below -/
abbrev unitDiskPrims : DiskPrims Int (List Int) Unit Unit where
  bool_dtype := ()
  float_dtype := ()
  zeros := fun _ _ => ()
  disk_2d := fun _ _ _ => false
  indices := fun _ _ v => v

/-- non-vacuity: in three dimensions the centre of `disk(1, 3)` is set and its face neighbours are not (strict `<`);
    dimension 0 and 65 raise -/
example : pyDiskAt 1 [1, 1, 1] = true ∧ pyDiskAt 1 [0, 1, 1] = false ∧ pyDiskAt 2 [1, 2, 2] = true ∧
    (morph_disk (fun n => (n : Int)) unitDiskPrims 1 0).isNone = true ∧
    (morph_disk (fun n => (n : Int)) unitDiskPrims 1 65).isNone = true := by decide

end Mahotas
