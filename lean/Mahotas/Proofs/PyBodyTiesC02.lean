/-
Ties between the Python bodies of `morph.py` (regenerated on every run into `Generated/PyBodies.lean` by
`translator/pybody.py`) and the hand-written compositions of `Model/C02.lean` that the driver runs.

The generated definitions are compositions over an abstract structure of primitives; `c02Prims dt` instantiates
every primitive with the model kernel the driver uses for it. Each theorem holds for ALL arguments.
-/
import Mahotas.Generated.PyBodiesC02
import Mahotas.Model.C02

namespace Mahotas
open Mahotas.Generated.Py Mahotas.C02

/-- the primitives of `morph.py` as the C02 model has them: the structuring element is the already resolved support
    (`get_structuring_elem` returns an array argument of the right rank and dtype unchanged), `erode`/`dilate` are the
    C01 kernels as images, `np.maximum`/`np.minimum`/`subm` act element by element, `np.all(a == b)` compares the
    data; `open`/`close` (called by the top-hats) are the model compositions, which
    `pybody_morph_open_eq_model`/`pybody_morph_close_eq_model` prove equal to the generated bodies. -/
def c02Prims (dt : DT) : MorphPrims (Img Int) (List (List Int × Int)) where
  get_structuring_elem := fun _ s => s
  erode := erodeImg dt
  dilate := dilateImg dt
  maximum := map2 max
  minimum := map2 min
  subm := submModel dt
  all_eq := fun a b => a.data == b.data
  open_ := openModel dt
  close := closeModel dt

/-- `morph.open` (current source) = `C02.openModel`, all dtypes, images and elements -/
theorem pybody_morph_open_eq_model (dt : DT) (f : Img Int) (sup : List (List Int × Int)) :
    morph_open (c02Prims dt) f sup = openModel dt f sup := by
  simp [morph_open, c02Prims, openModel]

/-- `morph.close` (current source) = `C02.closeModel` -/
theorem pybody_morph_close_eq_model (dt : DT) (f : Img Int) (sup : List (List Int × Int)) :
    morph_close (c02Prims dt) f sup = closeModel dt f sup := by
  simp [morph_close, c02Prims, closeModel]

/-- `morph.cerode` (current source) = `C02.cerodeModel`: `maximum(erode(maximum(f, g)), g)` with this argument order -/
theorem pybody_morph_cerode_eq_model (dt : DT) (f g : Img Int) (sup : List (List Int × Int)) :
    morph_cerode (c02Prims dt) f g sup = cerodeModel dt f g sup := by
  simp [morph_cerode, c02Prims, cerodeModel]

/-- the `for i in range(n)` loop of `cdilate` with its `break`, as a fold with a `done` flag, is the model's recursion -/
theorem cdilate_fold_eq_loop (dt : DT) (g : Img Int) (sup : List (List Int × Int)) (n s : Nat) (f : Img Int) :
    (List.foldl (fun (st : Bool × Img Int) (_ : Nat) =>
        if st.1 then st else
          if (map2 min (dilateImg dt st.2 sup) g).data == st.2.data
          then (true, map2 min (dilateImg dt st.2 sup) g) else (false, map2 min (dilateImg dt st.2 sup) g))
      (false, f) (List.range' s n)).2 = cdilateLoop dt g sup n f := by
  induction n generalizing s f with
  | zero => simp [cdilateLoop]
  | succ n ih =>
    rw [List.range'_succ, List.foldl_cons, cdilateLoop]
    by_cases h : (map2 min (dilateImg dt f sup) g).data == f.data
    · simp only [Bool.false_eq_true, if_false, h, if_true]
      -- once `done` is set the fold no longer changes the state
      have : ∀ (l : List Nat) (x : Img Int),
          (List.foldl (fun (st : Bool × Img Int) (_ : Nat) =>
            if st.1 then st else
              if (map2 min (dilateImg dt st.2 sup) g).data == st.2.data
              then (true, map2 min (dilateImg dt st.2 sup) g) else (false, map2 min (dilateImg dt st.2 sup) g))
            (true, x) l) = (true, x) := by
        intro l x
        induction l with
        | nil => rfl
        | cons a l ihl => rw [List.foldl_cons]; exact ihl
      rw [this]
    · simp only [Bool.false_eq_true, if_false, h]
      exact ih (s + 1) _

/-- `morph.cdilate` (current source) = `C02.cdilateModel`, every `n` -/
theorem pybody_morph_cdilate_eq_model (dt : DT) (f g : Img Int) (sup : List (List Int × Int)) (n : Nat) :
    morph_cdilate (c02Prims dt) f g sup n = cdilateModel dt f g sup n := by
  simp only [morph_cdilate, c02Prims, cdilateModel]
  exact cdilate_fold_eq_loop dt g sup n 0 _

/-- `morph.tophat_open` (current source) = `C02.tophatOpenModel`: `subm(f, open(f))` in this order -/
theorem pybody_morph_tophat_open_eq_model (dt : DT) (f : Img Int) (sup : List (List Int × Int)) :
    morph_tophat_open (c02Prims dt) f sup = tophatOpenModel dt f sup := by
  simp [morph_tophat_open, c02Prims, tophatOpenModel]

/-- `morph.tophat_close` (current source) = `C02.tophatCloseModel`: `subm(close(f), f)` in this order -/
theorem pybody_morph_tophat_close_eq_model (dt : DT) (f : Img Int) (sup : List (List Int × Int)) :
    morph_tophat_close (c02Prims dt) f sup = tophatCloseModel dt f sup := by
  simp [morph_tophat_close, c02Prims, tophatCloseModel]

/-- the `open`/`close` fields of `c02Prims` are the generated bodies themselves (no circularity: the top-hat ties
    rest on the translated `open`/`close`, not only on the model's) -/
theorem pybody_c02Prims_consistent (dt : DT) :
    (c02Prims dt).open_ = morph_open (c02Prims dt) ∧ (c02Prims dt).close = morph_close (c02Prims dt) := by
  constructor <;> funext f sup
  · exact (pybody_morph_open_eq_model dt f sup).symm
  · exact (pybody_morph_close_eq_model dt f sup).symm

/-- non-vacuity: on a concrete uint8 image the translated `cdilate` really iterates (two rounds differ from one) -/
example :
    let f : Img Int := { shape := [5], data := #[9, 0, 0, 0, 0] }
    let g : Img Int := { shape := [5], data := #[9, 9, 9, 9, 0] }
    let sup : List (List Int × Int) := C01.support [3] #[1, 1, 1] false
    (morph_cdilate (c02Prims (dtU 8)) f g sup 2).data.toList ≠ (morph_cdilate (c02Prims (dtU 8)) f g sup 1).data.toList := by
  decide +kernel

end Mahotas
