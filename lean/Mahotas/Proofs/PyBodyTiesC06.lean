/-
Tie between the body of `convolve.py: gaussian_filter1d` (regenerated on every run into `Generated/PyBodies.lean`)
and the weights `C06.gaussWeightsG` the driver evaluates at `Float`.
-/
import Mahotas.Generated.PyBodiesC06
import Mahotas.Model.C06

namespace Mahotas
open Mahotas.Generated.Py Mahotas.C06

section
variable {K : Type}

theorem pybody_zipWith_map_right_zip (f : K → K → K) (h : K → K) :
    ∀ (xs ws : List K), List.zipWith f ws (xs.map h) = (List.zip xs ws).map (fun p => f p.2 (h p.1))
  | [], ws => by cases ws <;> simp
  | x :: xs, [] => by simp
  | x :: xs, w :: ws => by simp [pybody_zipWith_map_right_zip f h xs ws]

variable [Add K] [Sub K] [Mul K] [Div K] [Neg K] [Zero K]

/-- `convolve.gaussian_filter1d` (current source) = `convolve1d` with the model weights `gaussWeightsG` at
    `lw = int(4σ + 0.5)`, `s2 = σ²`, samples `exp(x·x / (−2·s2))`; `none` (= the two `raise`) exactly when `lw ≤ 0` or
    the order exceeds 3. For every scalar type with its embeddings (`hInt`: `ofInt` extends `ofNat`), every
    primitive instantiation and all arguments. The driver's `C06.gaussWeights` is the right-hand side at `K := Float`,
    `ofNat := Float.ofNat`, `P.exp := Float.exp`, `P.trunc x := ⌊x⌋` with the literals `4.0`, `0.5`, `-2.0` written as
    literals (`Float.ofNat 4 = 4.0` is opaque to the kernel: trusted). -/
theorem pybody_convolve_gaussian_filter1d_eq_model {A M : Type} (ofNat : Nat → K) (ofInt : Int → K) (flit : Nat → Nat → K)
    (P : ConvPrims K A M) (hInt : ∀ n : Nat, ofInt (n : Int) = ofNat n)
    (array : A) (sigma : K) (axis : Int) (order : Nat) (mode : M) (cval : K) :
    convolve_gaussian_filter1d ofNat ofInt flit P array sigma axis order mode cval =
      (let lw := P.trunc (ofNat 4 * sigma + flit 5 1)
       if lw ≤ 0 ∨ 3 < order then none
       else some (P.convolve1d array
          (gaussWeightsG ofNat (fun x => P.exp (x * x / (-(ofNat 2) * (sigma * sigma)))) (sigma * sigma) lw.toNat order).toList
          axis mode cval)) := by
  unfold convolve_gaussian_filter1d
  simp only []
  generalize hlw : P.trunc (ofNat 4 * sigma + flit 5 1) = lw
  by_cases h0 : lw ≤ 0
  · simp [h0]
  · have hpos : 0 < lw := by omega
    obtain ⟨n, rfl⟩ : ∃ n : Nat, lw = (n : Int) := ⟨lw.toNat, by omega⟩
    have hn : Int.toNat (2 * (n : Int) + 1) = 2 * n + 1 := by omega
    simp only [h0, decide_false, Bool.false_eq_true, if_false, false_or, hn, hInt, Int.toNat_natCast]
    rcases order with _ | _ | _ | _ | m <;>
      simp [gaussWeightsG, gaussTerm, List.zipWith_self, List.zipWith_map_left, List.zipWith_map_right, List.map_map,
        Function.comp_def, List.zip_map']
end

/-- non-vacuity: an instance over the integers (three-valued "exponential", `lw = 2`) where the first-derivative weights are
    antisymmetric, reversed, and differ from the second-derivative ones -/
example :
    let P : ConvPrims Int (List Int) Unit :=
      { exp := fun x => if x = -2 then 3 else -1, trunc := fun _ => 2, convolve1d := fun _ w _ _ _ => w }
    convolve_gaussian_filter1d Int.ofNat id (fun m _ => m) P [] 1 (-1) 1 () 0 = some [-2, 1, 0, -1, 2] ∧
    convolve_gaussian_filter1d Int.ofNat id (fun m _ => m) P [] 1 (-1) 2 () 0 = some [3, 0, 1, 0, 3] ∧
    convolve_gaussian_filter1d Int.ofNat id (fun m _ => m) P [] 1 (-1) 4 () 0 = none := by decide

section laplacian
variable {K : Type} [Add K] [Sub K] [Div K] [Neg K] [LT K] [DecidableLT K] [LE K] [DecidableLE K]

/-- `alpha = max(0, min(alpha, 1))` as Python evaluates it; `C06.clampAlpha` is this at `Float` -/
def pyClamp01 (ofNat : Nat → K) (a : K) : K :=
  let y := if ofNat 1 < a then ofNat 1 else a
  if ofNat 0 < y then y else ofNat 0

/-- `convolve.laplacian_2D` (current source) = `convolve(array as double, W, mode='nearest')` where the rows of `W`
    are the model's `laplacianWeightsG` at the clamped `alpha`; `none` (= `raise`) exactly when the array is not 2-D.
    For every ordered scalar type, every primitive instantiation and all arguments. -/
theorem pybody_convolve_laplacian_2D_eq_model {A : Type} (ofNat : Nat → K) (ofInt : Int → K) (flit : Nat → Nat → K)
    (P : LaplPrims K A) (array : A) (alpha : K) :
    convolve_laplacian_2D ofNat ofInt flit P array alpha =
      (if P.ndim (P.as_float array) ≠ 2 then none
       else
        let w := (laplacianWeightsG ofNat (pyClamp01 ofNat alpha)).toList
        some (P.convolve (P.as_float array) [w.take 3, (w.drop 3).take 3, w.drop 6] "nearest")) := by
  unfold convolve_laplacian_2D pyClamp01 laplacianWeightsG
  by_cases h : P.ndim (P.as_float array) = 2 <;> simp [h]

end laplacian

/-- non-vacuity (integers): `alpha = 5` is clamped to 1, the centre weight is `-4 / 2`, the 1-D input is refused -/
example :
    let P : LaplPrims Int (List Int × Nat) := { as_float := id, ndim := fun a => a.2, convolve := fun _ w _ => (w.flatten, 2) }
    convolve_laplacian_2D Int.ofNat id (fun m _ => m) P ([], 2) 5 = some ([0, 0, 0, 0, -2, 0, 0, 0, 0], 2) ∧
    convolve_laplacian_2D Int.ofNat id (fun m _ => m) P ([], 2) 0 = some ([0, 1, 0, 1, -4, 1, 0, 1, 0], 2) ∧
    convolve_laplacian_2D Int.ofNat id (fun m _ => m) P ([], 1) 0 = none := by decide

end Mahotas
