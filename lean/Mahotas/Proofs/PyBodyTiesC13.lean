/-
Ties between the wrappers of `labeled.py` (`labeled_sum`, `labeled_max`, `labeled_min`, `labeled_size`,
`remove_regions_where`, `is_same_labeling`, `bwperim`; regenerated on every run into `Generated/PyBodiesC13.lean`) and the
round-4 wrapper definitions of `Model/C13.lean` the driver runs: `foldLen`, `labeledSize`, `removeRegionsWhere`,
`isSameLabelingShaped`, `bwperim`.
-/
import Mahotas.Generated.PyBodiesC13
import Mahotas.Model.C13

namespace Mahotas
open Mahotas.Generated.Py Mahotas.C13

/-- the primitives of the `labeled` family on the model's data: a value array is its list of values, a label map is
    (shape, labels), an output array is (number of slots, content), a boolean image is (shape, bits).
    `_as_labeled` / `_convert_labeled` keep the labels (their conversions and shape checks belong to the guards),
    `labeled.max()` is the model's `maxOf`, `np.empty(n, dtype)` has `n` slots, the kernels `ksum` / `kmm` are parameters
    (any kernel: they receive the label list and the number of slots), `astype(np.uint32)` reduces modulo 2^32,
    `fullhistogram` is the counting kernel, `np.unique` is the model's `sortedUnique` and `_labeled.remove_regions` the binary
    search of every non-zero label in that sorted array, `np.where(c)` lists the indices of the non-zero entries, `remove_regions` /
    `_labeled.is_same_labeling` / `borders` are the model's kernels (`modeOf` reads the mode string, `offsOf n` the
    neighbourhood of connectivity `n`). -/
abbrev c13Prims (modeOf : String → Mode) (offsOf : Nat → List (List Int))
    (ksum : List Int → List Int → Nat → List Int) (kmm : List Int → List Int → Nat → Bool → List Int) :
    LabeledPrims (List Int) (List Nat × List Int) Unit (Nat × List Int) (List Nat) (List Nat) (List Nat × List Bool)
      (List Int) (List Int) where
  as_labeled := fun _ l => l
  convert_labeled := fun l => l
  max_label := fun l => maxOf l.2
  dtype := fun _ => ()
  shape := fun l => l.1
  shape_ne := fun a b => a != b
  empty := fun n _ => (n.toNat, [])
  k_sum := fun a l buf => (buf.1, ksum a l.2 buf.1)
  k_max_min := fun a l buf isMax => (buf.1, kmm a l.2 buf.1 isMax)
  k_same := fun a b => isSameLabeling a.2 b.2
  astype := fun l _ => (l.1, l.2.map (· % 4294967296))
  uint32 := ()
  fullhistogram := fun l => fullHistogram false l.2
  nonzero_idx := fun c => ((List.range c.length).filter fun i => c.getD i 0 ≠ 0).map fun (i : Nat) => (i : Int)
  remove_regions := fun l r _ => (l.1, removeRegions l.2 r)
  as_labeled_self := fun l _ _ => l
  as_intc := fun r => r
  unique := sortedUnique
  k_remove := fun l r => (l.1, l.2.map fun v => if v ≠ 0 && binarySearch r.toArray v then 0 else v)
  ne0 := fun l => (l.1, l.2.map (· != 0))
  and_ := fun a b => (a.1, (a.2.zip b.2).map fun x => x.1 && x.2)
  borders := fun b n mode => (b.1, bordersModel (modeOf mode) b.1 (b.2.map fun v => if v then 1 else 0) (offsOf n))

theorem pybody_le_foldl_max (l : List Int) : ∀ a : Int, a ≤ l.foldl max a := by
  induction l with
  | nil => intro a; exact Int.le_refl a
  | cons x xs ih => intro a; exact Int.le_trans (Int.le_max_left a x) (ih (max a x))

theorem pybody_maxOf_nonneg (l : List Int) : 0 ≤ maxOf l := pybody_le_foldl_max l 0

section
variable (modeOf : String → Mode) (offsOf : Nat → List (List Int))
  (ksum : List Int → List Int → Nat → List Int) (kmm : List Int → List Int → Nat → Bool → List Int)

/-- **`labeled.labeled_sum` (current source)**: the kernel is run on `C13.foldLen labels minlength` output slots
    (`labeled.max() + 1`, raised to `minlength` when that is given and larger — Python's `max`) -/
theorem pybody_labeled_labeled_sum_eq_model (a : List Int) (l : List Nat × List Int) (minlength : Option Int) :
    labeled_labeled_sum (c13Prims modeOf offsOf ksum kmm) a l minlength
      = (foldLen l.2 minlength, ksum a l.2 (foldLen l.2 minlength)) := by
  have h0 := pybody_maxOf_nonneg l.2
  cases minlength with
  | none => simp only [labeled_labeled_sum, foldLen]
  | some m =>
    simp only [labeled_labeled_sum, foldLen]
    by_cases h : maxOf l.2 + 1 < m
    · rw [if_pos h, Int.max_eq_right (Int.le_of_lt h)]
    · rw [if_neg h, Int.max_eq_left (by omega)]

/-- **`labeled.labeled_max` / `labeled_min` (current source)**: `labeled.max() + 1` slots, flag `True` / `False` -/
theorem pybody_labeled_labeled_max_eq_model (a : List Int) (l : List Nat × List Int) :
    labeled_labeled_max (c13Prims modeOf offsOf ksum kmm) a l = (foldLen l.2 none, kmm a l.2 (foldLen l.2 none) true) := by
  simp only [labeled_labeled_max, foldLen]

theorem pybody_labeled_labeled_min_eq_model (a : List Int) (l : List Nat × List Int) :
    labeled_labeled_min (c13Prims modeOf offsOf ksum kmm) a l = (foldLen l.2 none, kmm a l.2 (foldLen l.2 none) false) := by
  simp only [labeled_labeled_min, foldLen]

/-- **`labeled.labeled_size` (current source) = `C13.labeledSize`**: `fullhistogram` of the labels reduced modulo 2^32 -/
theorem pybody_labeled_labeled_size_eq_model (l : List Nat × List Int) :
    labeled_labeled_size (c13Prims modeOf offsOf ksum kmm) l = labeledSize l.2 := by
  simp only [labeled_labeled_size, labeledSize]

/-- **`labeled.remove_regions_where` (current source) = `C13.removeRegionsWhere`** -/
theorem pybody_labeled_remove_regions_where_eq_model (l : List Nat × List Int) (c : List Int) (inplace : Bool) :
    labeled_remove_regions_where (c13Prims modeOf offsOf ksum kmm) l c inplace = (l.1, removeRegionsWhere l.2 c) := by
  simp only [labeled_remove_regions_where, removeRegionsWhere]

/-- **`labeled.remove_regions` (current source) = `C13.removeRegions`**: `np.unique` first, then the kernel's binary search -/
theorem pybody_labeled_remove_regions_eq_model (l : List Nat × List Int) (r : List Int) (inplace : Bool) :
    labeled_remove_regions (c13Prims modeOf offsOf ksum kmm) l r inplace = (l.1, removeRegions l.2 r) := by
  simp only [labeled_remove_regions, removeRegions]

/-- **`labeled.is_same_labeling` (current source) = `C13.isSameLabelingShaped`**: maps of different shapes are never the same -/
theorem pybody_labeled_is_same_labeling_eq_model (l0 l1 : List Nat × List Int) :
    labeled_is_same_labeling (c13Prims modeOf offsOf ksum kmm) l0 l1 = isSameLabelingShaped l0.1 l1.1 l0.2 l1.2 := by
  simp only [labeled_is_same_labeling, isSameLabelingShaped]
  by_cases h : l0.1 = l1.1 <;> simp [h]

/-- `bw != 0` as a 0/1 map -/
def pyBinarise (bw : List Int) : List Int := bw.map fun v => if v != 0 then 1 else 0

/-- **`labeled.bwperim` (current source) = `C13.bwperim` of the BINARISED map**: the code first replaces `bw` by `bw != 0`
    and hands *that* to `borders`, then masks with it. (`C13.bwperim` applies `bordersModel` to the map it is given: on a
    map with entries other than 0/1 the two differ — two different non-zero values are no border for the code.) -/
theorem pybody_labeled_bwperim_eq_model (l : List Nat × List Int) (n : Nat) (mode : String) :
    labeled_bwperim (c13Prims modeOf offsOf ksum kmm) l n mode
      = (l.1, bwperim (modeOf mode) l.1 (pyBinarise l.2) (offsOf n)) := by
  simp only [labeled_bwperim, bwperim, pyBinarise, List.map_map]
  congr 1
  rw [List.zip_map_left, List.zip_map_left, List.map_map, List.map_map]
  congr 1
  · funext x
    simp only [Function.comp_apply, Prod.map]
    by_cases h : x.1 = 0 <;> simp [h]

/-- … hence, on a 0/1 map (what the statement of C13 calls a binary image), `C13.bwperim` itself -/
theorem pybody_labeled_bwperim_binary (l : List Nat × List Int) (n : Nat) (mode : String)
    (hbin : ∀ v ∈ l.2, v = 0 ∨ v = 1) :
    labeled_bwperim (c13Prims modeOf offsOf ksum kmm) l n mode = (l.1, bwperim (modeOf mode) l.1 l.2 (offsOf n)) := by
  rw [pybody_labeled_bwperim_eq_model]
  have : pyBinarise l.2 = l.2 := by
    unfold pyBinarise
    conv => rhs; rw [← List.map_id l.2]
    apply List.map_congr_left
    intro v hv
    rcases hbin v hv with h | h <;> subst h <;> rfl
  rw [this]

end

/-- non-vacuity: the slot count follows the largest label and `minlength`; different shapes are never the same labeling -/
example : foldLen [0, 2, 1] none = 3 ∧ foldLen [0, 2, 1] (some 7) = 7 ∧ foldLen [0, 2, 1] (some 2) = 3 ∧
    labeled_is_same_labeling (c13Prims (fun _ => Mode.constant) (fun _ => []) (fun _ _ _ => []) (fun _ _ _ _ => []))
      ([2, 1], [1, 2]) ([1, 2], [1, 2]) = false := by decide

end Mahotas
