/-
Ties between the extrema wrappers of `morph.py` (`_remove_centre`, `locmax`, `locmin`, `regmax`, `regmin`, `close_holes`;
regenerated on every run into `Generated/PyBodies.lean`) and the models of `Model/C14.lean` the driver runs.
-/
import Mahotas.Generated.PyBodiesC14
import Mahotas.Model.C14
import Mahotas.Proofs.C01Index

namespace Mahotas
open Mahotas.Generated.Py Mahotas.C14

/-- a structuring element as the wrappers see it: shape and values in C order -/
abbrev SE14 := List Nat × Array Int

/-- offsets `k − shape/2` of the non-zero entries of an element (what the kernels iterate over) -/
def offsetsOf (se : SE14) : List (List Int) :=
  (List.range (shapeSize se.1)).filterMap fun i =>
    if se.2.getD i 0 == 0 then none else some (subPos (unravelI se.1 i) (centreOf se.1))

/-- `Bc[tuple(index)] = v` on an element: the entry at the C-order flat index of `index` -/
def seSet (se : SE14) (index : List Nat) (v : Bool) : SE14 :=
  (se.1, se.2.setIfInBounds (ravelI se.1 (index.map Int.ofNat)) (if v then 1 else 0))

/-- the primitives of the extrema wrappers as the C14 model has them: the kernels are the model kernels on the offsets
    of the non-zero entries of the element they are handed; `_remove_centre` is the generated body itself
    (over `seSet`), `get_structuring_elem` returns a resolved element unchanged, `np.ascontiguousarray(·, bool)` keeps which
    pixels are non-zero (the model tests `== 0`) -/
def c14Prims : ExtremaPrims (Img Int) SE14 (Array Bool) where
  get_structuring_elem := fun _ s => s
  shape := fun s => s.1
  setitem := seSet
  remove_centre := fun s => seSet s (s.1.map (· / 2)) false
  locmin_max := fun A s isMin => locModel isMin A (offsetsOf s)
  regmin_max := fun A s isMin => regModel isMin A (offsetsOf s)
  as_bool := fun A => A
  close_holes := fun A s => closeHoles A (neighbours s.1 s.2)

/-- `morph._remove_centre` (current source) clears the entry at `shape // 2` — and this is the `remove_centre` primitive
    the four wrappers below are instantiated with -/
theorem pybody_morph__remove_centre_eq_model (se : SE14) :
    morph__remove_centre c14Prims se = seSet se (se.1.map (· / 2)) false ∧
    c14Prims.remove_centre = morph__remove_centre c14Prims := by
  constructor
  · simp [morph__remove_centre, c14Prims]
  · funext s; simp [morph__remove_centre, c14Prims]

theorem pybody_centre_map (s : List Nat) : (s.map (· / 2)).map Int.ofNat = centreOf s := by
  simp [centreOf]

theorem pybody_isZeroPos_subPos : ∀ (a b : List Int), a.length = b.length → (isZeroPos (subPos a b) = true ↔ a = b)
  | [], [], _ => by simp [isZeroPos, subPos]
  | [], _ :: _, h => by simp at h
  | _ :: _, [], h => by simp at h
  | x :: xs, y :: ys, h => by
    have ih := pybody_isZeroPos_subPos xs ys (by simpa using h)
    simp only [isZeroPos] at ih
    simp only [isZeroPos, subPos, List.all_cons, Bool.and_eq_true, beq_iff_eq, List.cons.injEq, ih]
    constructor
    · rintro ⟨h1, h2⟩; exact ⟨by omega, h2⟩
    · rintro ⟨h1, h2⟩; exact ⟨by omega, h2⟩

theorem pybody_inside_centre : ∀ (s : List Nat), 0 < shapeSize s → inside s (centreOf s) = true
  | [], _ => by simp [inside, centreOf]
  | d :: ds, h => by
    have hd : 0 < d := Nat.pos_of_mul_pos_right (by simpa [shapeSize] using h)
    have hds : 0 < shapeSize ds := Nat.pos_of_mul_pos_left (by simpa [shapeSize] using h)
    have ih := pybody_inside_centre ds hds
    simp only [centreOf, List.map_cons] at ih ⊢
    rw [C01.inside_cons]
    exact ⟨⟨by omega, by omega⟩, ih⟩

theorem pybody_filterMap_congr {α β : Type} {f g : α → Option β} :
    ∀ (l : List α), (∀ x ∈ l, f x = g x) → l.filterMap f = l.filterMap g
  | [], _ => rfl
  | a :: l, h => by
    simp only [List.filterMap_cons, h a (by simp)]
    rw [pybody_filterMap_congr l (fun x hx => h x (by simp [hx]))]

/-- clearing the centre entry and taking the offsets of the non-zero entries is the model's `neighbours` -/
theorem pybody_offsets_remove_centre (bshape : List Nat) (bc : Array Int) :
    offsetsOf (seSet (bshape, bc) (bshape.map (· / 2)) false) = neighbours bshape bc := by
  unfold offsetsOf neighbours seSet
  simp only [pybody_centre_map, Bool.false_eq_true, if_false]
  apply pybody_filterMap_congr
  intro i hi
  have hi' : i < shapeSize bshape := List.mem_range.mp hi
  have hpos : 0 < shapeSize bshape := by omega
  have hc := pybody_inside_centre bshape hpos
  have hlen : (unravelI bshape i).length = (centreOf bshape).length := by
    rw [C01.inside_length (C01.inside_unravelI bshape i hi'), C01.inside_length hc]
  by_cases h : i = ravelI bshape (centreOf bshape)
  · have hu : unravelI bshape i = centreOf bshape := by rw [h, C01.unravelI_ravelI bshape _ hc]
    have hz : isZeroPos (subPos (unravelI bshape i) (centreOf bshape)) = true :=
      (pybody_isZeroPos_subPos _ _ hlen).mpr hu
    have hg : (bc.setIfInBounds (ravelI bshape (centreOf bshape)) 0).getD i 0 = 0 := by
      subst h
      rw [Array.getD_eq_getD_getElem?, Array.getElem?_setIfInBounds]; simp; split <;> simp_all
    simp [hg, hz]
  · have hz : isZeroPos (subPos (unravelI bshape i) (centreOf bshape)) = false := by
      rw [Bool.eq_false_iff]
      intro hz
      have hu := (pybody_isZeroPos_subPos _ _ hlen).mp hz
      exact h (by rw [← hu, C01.ravelI_unravelI bshape i hi'])
    have hg : (bc.setIfInBounds (ravelI bshape (centreOf bshape)) 0).getD i 0 = bc.getD i 0 := by
      rw [Array.getD_eq_getD_getElem?, Array.getD_eq_getD_getElem?, Array.getElem?_setIfInBounds_ne (Ne.symm h)]
    simp [hg, hz]

/-- `morph.locmax` (current source) = `C14.locModel false` on the model's neighbour list (centre removed) -/
theorem pybody_morph_locmax_eq_model (A : Img Int) (bshape : List Nat) (bc : Array Int) :
    morph_locmax c14Prims A (bshape, bc) = locModel false A (neighbours bshape bc) := by
  simp only [morph_locmax, c14Prims, pybody_offsets_remove_centre]

/-- `morph.locmin` (current source) = `C14.locModel true` -/
theorem pybody_morph_locmin_eq_model (A : Img Int) (bshape : List Nat) (bc : Array Int) :
    morph_locmin c14Prims A (bshape, bc) = locModel true A (neighbours bshape bc) := by
  simp only [morph_locmin, c14Prims, pybody_offsets_remove_centre]

/-- `morph.regmax` (current source) = `C14.regModel false` -/
theorem pybody_morph_regmax_eq_model (A : Img Int) (bshape : List Nat) (bc : Array Int) :
    morph_regmax c14Prims A (bshape, bc) = regModel false A (neighbours bshape bc) := by
  simp only [morph_regmax, c14Prims, pybody_offsets_remove_centre]

/-- `morph.regmin` (current source) = `C14.regModel true` -/
theorem pybody_morph_regmin_eq_model (A : Img Int) (bshape : List Nat) (bc : Array Int) :
    morph_regmin c14Prims A (bshape, bc) = regModel true A (neighbours bshape bc) := by
  simp only [morph_regmin, c14Prims, pybody_offsets_remove_centre]

/-- `morph.close_holes` (current source) = `C14.closeHoles` on the element as given (no centre removal in the wrapper) -/
theorem pybody_morph_close_holes_eq_model (A : Img Int) (bshape : List Nat) (bc : Array Int) :
    morph_close_holes c14Prims A (bshape, bc) = closeHoles A (neighbours bshape bc) := by
  simp only [morph_close_holes, c14Prims]

/-- non-vacuity: on the 3×3 cross the removed entry is index 4 and the four neighbours remain -/
example : offsetsOf (seSet ([3, 3], #[0, 1, 0, 1, 1, 1, 0, 1, 0]) ([3, 3].map (· / 2)) false)
    = [[-1, 0], [0, -1], [0, 1], [1, 0]] := by decide

end Mahotas
