/-
Tie between the body of `euler.py: euler` (regenerated on every run into `Generated/PyBodiesC15.lean`) and
`C15.eulerModel4`, the bit-quad count the driver runs (kind `euler`).
-/
import Mahotas.Generated.PyBodiesC15
import Mahotas.Model.C15
import Mahotas.Proofs.C15Basic

namespace Mahotas
open Mahotas.Generated.Py Mahotas.C15

/-- the 2×2 window code `Σ k[i][j] · g (y + i) (x + j)` for a kernel `k` and a pixel reader `g` — `C15.quadCode` with the
    kernel and the image abstracted -/
def pyQuadCode (k : List (List Nat)) (g : Int → Int → Bool) (y x : Int) : Nat :=
  ((k.zipIdx.map fun (row, i) =>
      (row.zipIdx.map fun (w, j) => if g (y + (i : Int)) (x + (j : Int)) then w else 0).foldl (· + ·) 0)).foldl (· + ·) 0

theorem pybody_quadCode_eq (b : Bin) (y x : Int) : quadCode b y x = pyQuadCode Generated.eulerPowers b.get y x := rfl

/-- the primitives of `euler` on the model's binary images. An image is (its dtype is `bool`, its content read as
    "non-zero"); `np.all((f == 0) | (f == 1))` is a parameter; `f != 0` makes the dtype `bool` and keeps the content;
    `np.pad(f, ((0,1),(0,1)))` adds one background row and column; `convolve(f, k, mode)` of the 0/1 image with the 2×2
    kernel gives at `(i, j)` the code of the window whose top-left pixel is `(i − 1, j − 1)` (background outside: the
    default `mode='constant'`; the model covers only that mode); `lookup[value].sum()` sums the selected table entries;
    the tables are the extracted ones (numerators over `eulerDen`). -/
abbrev c15EulerPrims (allBin : Bool × Bin → Bool) :
    EulerPrims (Bool × Bin) (Nat × Nat × (Nat → Nat → Nat)) (List Int) (List (List Nat)) Int where
  lookup8 := Generated.eulerLookup8
  lookup4 := Generated.eulerLookup4
  powers := Generated.eulerPowers
  is_bool := fun a => a.1
  all_binary := allBin
  ne0 := fun a => (true, a.2)
  pad01 := fun a => (a.1, Bin.tabulate (a.2.rows + 1) (a.2.cols + 1) a.2.get)
  astype_like := fun a _ => a
  convolve := fun a k _ => (a.2.rows, a.2.cols, fun i j => pyQuadCode k a.2.get ((i : Int) - 1) ((j : Int) - 1))
  lookup_sum := fun tbl v =>
    ((List.range v.1).map fun (i : Nat) =>
      ((List.range v.2.1).map fun (j : Nat) => tbl.getD (v.2.2 i j) 0).foldl (· + ·) 0).foldl (· + ·) 0

/-- padding with background does not change any read -/
theorem pybody_pad01_get (b : Bin) : (Bin.tabulate (b.rows + 1) (b.cols + 1) b.get).get = b.get := by
  funext y x
  rw [Bin.get_tabulate]
  by_cases h : 0 ≤ y ∧ y < (b.rows : Int) ∧ 0 ≤ x ∧ x < (b.cols : Int)
  · have : 0 ≤ y ∧ y < ((b.rows + 1 : Nat) : Int) ∧ 0 ≤ x ∧ x < ((b.cols + 1 : Nat) : Int) := by
      obtain ⟨h0, h1, h2, h3⟩ := h
      refine ⟨h0, ?_, h2, ?_⟩ <;> push_cast <;> omega
    rw [decide_eq_true this, Bool.true_and]
  · have : b.get y x = false := by unfold Bin.get; rw [if_neg h]
    simp [this]

/-- **`euler.euler` (current source, default `mode='constant'`) = `C15.eulerModel4`**: connectivity 8 / 4 selects the
    table, any other `n` raises; a non-bool image must be binary (else the `assert` fails) and is converted; the image is
    padded by one background row and column; the result is the sum of the table entries of all window codes of the padded
    image — `eulerModel4`'s double sum over `(rows + 1) × (cols + 1)` windows. -/
theorem pybody_euler_euler_eq_model (allBin : Bool × Bin → Bool) (isb : Bool) (b : Bin) (n : Nat) :
    euler_euler (c15EulerPrims allBin) (isb, b) n "constant" =
      if n = 8 ∨ n = 4 then (if isb ∨ allBin (isb, b) then some (eulerModel4 b (n == 8)) else none) else none := by
  have hr : ∀ f, (Bin.tabulate (b.rows + 1) (b.cols + 1) f).rows = b.rows + 1 := fun _ => rfl
  have hc : ∀ f, (Bin.tabulate (b.rows + 1) (b.cols + 1) f).cols = b.cols + 1 := fun _ => rfl
  unfold euler_euler
  by_cases h8 : n = 8
  · subst h8
    cases isb <;> cases hb : allBin (false, b) <;> simp [eulerModel4, hb, pybody_quadCode_eq, pybody_pad01_get, hr, hc]
  · by_cases h4 : n = 4
    · subst h4
      cases isb <;> cases hb : allBin (false, b) <;> simp [eulerModel4, hb, pybody_quadCode_eq, pybody_pad01_get, hr, hc]
    · simp [h8, h4]

/-- non-vacuity: a single set pixel has Euler number 1 (4/4) for both connectivities, a non-binary non-bool image fails the
    `assert`, and connectivity 5 raises -/
example : euler_euler (c15EulerPrims fun _ => true) (true, ⟨1, 1, #[true]⟩) 8 "constant" = some 4 ∧
    euler_euler (c15EulerPrims fun _ => true) (false, ⟨1, 1, #[true]⟩) 4 "constant" = some 4 ∧
    euler_euler (c15EulerPrims fun _ => false) (false, ⟨1, 1, #[true]⟩) 4 "constant" = none ∧
    euler_euler (c15EulerPrims fun _ => true) (true, ⟨1, 1, #[true]⟩) 5 "constant" = none := by decide +kernel

end Mahotas
