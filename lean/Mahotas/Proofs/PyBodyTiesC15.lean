/-
Tie between the body of `euler.py: euler` (regenerated on every run into `Generated/PyBodiesC15.lean`) and
`C15.eulerModel4`, the bit-quad count the driver runs (kind `euler`).
-/
import Mahotas.Generated.PyBodiesC15
import Mahotas.Model.C15
import Mahotas.Proofs.C15Basic
import Mahotas.Proofs.C15Model

namespace Mahotas
open Mahotas.Generated.Py Mahotas.C15

/-- the 2×2 window code `Σ k[i][j] · g (y + i) (x + j)` for a kernel `k` and a pixel reader `g` — `C15.quadCode` with the
    kernel and the image abstracted -/
def pyQuadCode (k : List (List Nat)) (g : Int → Int → Bool) (y x : Int) : Nat :=
  ((k.zipIdx.map fun (row, i) =>
      (row.zipIdx.map fun (w, j) => if g (y + (i : Int)) (x + (j : Int)) then w else 0).foldl (· + ·) 0)).foldl (· + ·) 0

theorem pybody_quadCode_eq (b : Bin) (y x : Int) : quadCode b y x = pyQuadCode Generated.eulerPowers b.get y x := rfl

/-- the primitives of `euler` on the model's binary images. An image is (its dtype is `bool`, its content read as
    "non-zero"); `np.all((f == 0) | (f == 1))` is a parameter; `f != 0` makes the dtype `bool` and keeps the content;
    `np.pad(f, ((0,1),(0,1)))` adds one background row and column; `convolve(f, k, mode)` of the 0/1 image with the 2×2
    kernel gives at `(i, j)` the code of the window whose top-left pixel is `(i − 1, j − 1)` (background outside: the
    default `mode='constant'`; the model covers only that mode); `lookup[value].sum()` sums the selected table entries;
    the tables are the extracted ones (numerators over `eulerDen`). -/
abbrev c15EulerPrims (allBin : Bool × Bin → Bool) :
    EulerPrims (Bool × Bin) (Nat × Nat × (Nat → Nat → Nat)) (List Int) (List (List Nat)) Int where
  lookup8 := Generated.eulerLookup8
  lookup4 := Generated.eulerLookup4
  powers := Generated.eulerPowers
  is_bool := fun a => a.1
  all_binary := allBin
  ne0 := fun a => (true, a.2)
  pad01 := fun a => (a.1, Bin.tabulate (a.2.rows + 1) (a.2.cols + 1) a.2.get)
  astype_like := fun a _ => a
  convolve := fun a k _ => (a.2.rows, a.2.cols, fun i j => pyQuadCode k a.2.get ((i : Int) - 1) ((j : Int) - 1))
  lookup_sum := fun tbl v =>
    ((List.range v.1).map fun (i : Nat) =>
      ((List.range v.2.1).map fun (j : Nat) => tbl.getD (v.2.2 i j) 0).foldl (· + ·) 0).foldl (· + ·) 0

/-- padding with background does not change any read -/
theorem pybody_pad01_get (b : Bin) : (Bin.tabulate (b.rows + 1) (b.cols + 1) b.get).get = b.get := by
  funext y x
  rw [Bin.get_tabulate]
  by_cases h : 0 ≤ y ∧ y < (b.rows : Int) ∧ 0 ≤ x ∧ x < (b.cols : Int)
  · have : 0 ≤ y ∧ y < ((b.rows + 1 : Nat) : Int) ∧ 0 ≤ x ∧ x < ((b.cols + 1 : Nat) : Int) := by
      obtain ⟨h0, h1, h2, h3⟩ := h
      refine ⟨h0, ?_, h2, ?_⟩ <;> push_cast <;> omega
    rw [decide_eq_true this, Bool.true_and]
  · have : b.get y x = false := by unfold Bin.get; rw [if_neg h]
    simp [this]

/-- **`euler.euler` (current source, default `mode='constant'`) = `C15.eulerModel4`**: connectivity 8 / 4 selects the
    table, any other `n` raises; a non-bool image must be binary (else the `assert` fails) and is converted; the image is
    padded by one background row and column; the result is the sum of the table entries of all window codes of the padded
    image — `eulerModel4`'s double sum over `(rows + 1) × (cols + 1)` windows. -/
theorem pybody_euler_euler_eq_model (allBin : Bool × Bin → Bool) (isb : Bool) (b : Bin) (n : Nat) :
    euler_euler (c15EulerPrims allBin) (isb, b) n "constant" =
      if n = 8 ∨ n = 4 then (if isb ∨ allBin (isb, b) then some (eulerModel4 b (n == 8)) else none) else none := by
  have hr : ∀ f, (Bin.tabulate (b.rows + 1) (b.cols + 1) f).rows = b.rows + 1 := fun _ => rfl
  have hc : ∀ f, (Bin.tabulate (b.rows + 1) (b.cols + 1) f).cols = b.cols + 1 := fun _ => rfl
  unfold euler_euler
  by_cases h8 : n = 8
  · subst h8
    cases isb <;> cases hb : allBin (false, b) <;> simp [eulerModel4, hb, pybody_quadCode_eq, pybody_pad01_get, hr, hc]
  · by_cases h4 : n = 4
    · subst h4
      cases isb <;> cases hb : allBin (false, b) <;> simp [eulerModel4, hb, pybody_quadCode_eq, pybody_pad01_get, hr, hc]
    · simp [h8, h4]

/-- non-vacuity: a single set pixel has Euler number 1 (4/4) for both connectivities, a non-binary non-bool image fails the
    `assert`, and connectivity 5 raises -/
example : euler_euler (c15EulerPrims fun _ => true) (true, ⟨1, 1, #[true]⟩) 8 "constant" = some 4 ∧
    euler_euler (c15EulerPrims fun _ => true) (false, ⟨1, 1, #[true]⟩) 4 "constant" = some 4 ∧
    euler_euler (c15EulerPrims fun _ => false) (false, ⟨1, 1, #[true]⟩) 4 "constant" = none ∧
    euler_euler (c15EulerPrims fun _ => true) (true, ⟨1, 1, #[true]⟩) 5 "constant" = none := by decide +kernel

/-! ## `thin.thin`: crop to the bounding box, zero frame, thin, paste back -/

/-- the primitives of `thin` on the model's binary images: `bbox` is `C15.bbox`, `np.zeros*` / `np.empty` are all-background
    images, `a[y0:y1, x0:x1]` is the window read from its corner, `a[y0:y1, x0:x1] = v` overwrites the window with `v`
    (numpy raises when the shapes differ; here `v` is read from its corner), `_thin.thin(image, buffer, n)` is
    `C15.thinCore` -/
abbrev c15ThinPrims : ThinPrims Bin Unit where
  bool_dtype := ()
  bbox := C15.bbox
  zeros_like := fun b => Bin.tabulate b.rows b.cols fun _ _ => false
  zeros2 := fun h w _ => Bin.tabulate h.toNat w.toNat fun _ _ => false
  empty2 := fun h w _ => Bin.tabulate h.toNat w.toNat fun _ _ => false
  getwin := fun a y0 y1 x0 x1 => Bin.tabulate (y1 - y0).toNat (x1 - x0).toNat fun y x => a.get (y + y0) (x + x0)
  setwin := fun a y0 y1 x0 x1 v => Bin.tabulate a.rows a.cols fun y x =>
    if y0 ≤ y ∧ y < y1 ∧ x0 ≤ x ∧ x < x1 then v.get (y - y0) (x - x0) else a.get y x
  thin_kernel := fun a _ it => thinCore a it

theorem pybody_head_le_last (P : Nat → Bool) (n y0 : Nat) (rest : List Nat)
    (h : (List.range n).filter P = y0 :: rest) : y0 ≤ (y0 :: rest).getLastD y0 := by
  have hp : (y0 :: rest).Pairwise (· < ·) := h ▸ (List.pairwise_lt_range (n := n)).filter _
  rw [List.pairwise_cons] at hp
  have hm : (y0 :: rest).getLastD y0 ∈ y0 :: rest := by
    simp only [List.getLastD]; exact List.getLast_mem _
  rcases List.mem_cons.mp hm with e | e
  · omega
  · exact Nat.le_of_lt (hp.1 _ e)

/-- the bounding box `C15.bbox` returns is ordered on both axes -/
theorem pybody_bbox_ordered (b : Bin) :
    (C15.bbox b).1 ≤ (C15.bbox b).2.1 ∧ (C15.bbox b).2.2.1 ≤ (C15.bbox b).2.2.2 := by
  unfold C15.bbox
  simp only
  split
  · rename_i y0 ry x0 rx hy hx
    have a := pybody_head_le_last _ _ _ _ hy
    have c := pybody_head_le_last _ _ _ _ hx
    rw [hy, hx]
    exact ⟨Nat.le_succ_of_le a, Nat.le_succ_of_le c⟩
  · exact ⟨Nat.le_refl _, Nat.le_refl _⟩

theorem pybody_tabulate_congr (R C R' C' : Nat) (f f' : Int → Int → Bool) (hR : R = R') (hC : C = C')
    (h : ∀ y x, f y x = f' y x) : Bin.tabulate R C f = Bin.tabulate R' C' f' := by
  subst hR; subst hC
  have : f = f' := funext fun y => funext fun x => h y x
  rw [this]

/-- **`thin.thin` (current source) = `C15.thinModel`**, for every image and every `max_iter` (the bounding box `C15.bbox`
    returns is ordered: `pybody_bbox_ordered`): the crop `binimg[min0:max0,
    min1:max1]` is stored at offset (1, 1) of an all-background `(r + 2) × (c + 2)` image, that image is thinned, and its
    inner `r × c` window is stored back at the bounding box of an all-background image of the input's shape. -/
theorem pybody_thin_thin_eq_model (b : Bin) (m : Int) : thin_thin c15ThinPrims b m = thinModel b m := by
  obtain ⟨h0, h1⟩ := pybody_bbox_ordered b
  rw [thinModel_eq]
  have hframe : c15ThinPrims.setwin
      (c15ThinPrims.zeros2 ((((C15.bbox b).2.1 : Nat) : Int) - (((C15.bbox b).1 : Nat) : Int) + 2)
        ((((C15.bbox b).2.2.2 : Nat) : Int) - (((C15.bbox b).2.2.1 : Nat) : Int) + 2) ())
      1 ((((C15.bbox b).2.1 : Nat) : Int) - (((C15.bbox b).1 : Nat) : Int) + 1)
      1 ((((C15.bbox b).2.2.2 : Nat) : Int) - (((C15.bbox b).2.2.1 : Nat) : Int) + 1)
      (c15ThinPrims.getwin b (((C15.bbox b).1 : Nat) : Int) (((C15.bbox b).2.1 : Nat) : Int)
        (((C15.bbox b).2.2.1 : Nat) : Int) (((C15.bbox b).2.2.2 : Nat) : Int)) = frameOf b := by
    unfold frameOf
    dsimp only [c15ThinPrims]
    apply pybody_tabulate_congr
    · show (_ : Int).toNat = _
      omega
    · show (_ : Int).toNat = _
      omega
    · intro y x
      simp only [Bin.get_tabulate, Bool.and_false]
      by_cases hin : (1 : Int) ≤ y ∧ y < (((C15.bbox b).2.1 : Nat) : Int) - (((C15.bbox b).1 : Nat) : Int) + 1 ∧
          (1 : Int) ≤ x ∧ x < (((C15.bbox b).2.2.2 : Nat) : Int) - (((C15.bbox b).2.2.1 : Nat) : Int) + 1
      · rw [if_pos hin]
        obtain ⟨a1, a2, a3, a4⟩ := hin
        have e1 : decide ((1 : Int) ≤ y) = true := decide_eq_true a1
        have e2 : decide (y ≤ ((((C15.bbox b).2.1 - (C15.bbox b).1 : Nat)) : Int)) = true := decide_eq_true (by omega)
        have e3 : decide ((1 : Int) ≤ x) = true := decide_eq_true a3
        have e4 : decide (x ≤ ((((C15.bbox b).2.2.2 - (C15.bbox b).2.2.1 : Nat)) : Int)) = true := decide_eq_true (by omega)
        have e5 : decide (0 ≤ y - 1 ∧ y - 1 < ((((((C15.bbox b).2.1 : Nat) : Int) - (((C15.bbox b).1 : Nat) : Int)).toNat : Nat) : Int) ∧
            0 ≤ x - 1 ∧ x - 1 < ((((((C15.bbox b).2.2.2 : Nat) : Int) - (((C15.bbox b).2.2.1 : Nat) : Int)).toNat : Nat) : Int)) = true :=
          decide_eq_true (by omega)
        rw [e1, e2, e3, e4, e5]
        simp
      · rw [if_neg hin]
        have : (decide ((1 : Int) ≤ y) && decide (y ≤ ((((C15.bbox b).2.1 - (C15.bbox b).1 : Nat)) : Int)) && decide ((1 : Int) ≤ x) &&
            decide (x ≤ ((((C15.bbox b).2.2.2 - (C15.bbox b).2.2.1 : Nat)) : Int))) = false := by
          rw [Bool.eq_false_iff]
          intro hh
          simp only [Bool.and_eq_true, decide_eq_true_eq] at hh
          apply hin
          omega
        rw [this]
        simp
  have hpaste : ∀ T : Bin, c15ThinPrims.setwin (c15ThinPrims.zeros_like b)
      (((C15.bbox b).1 : Nat) : Int) (((C15.bbox b).2.1 : Nat) : Int) (((C15.bbox b).2.2.1 : Nat) : Int) (((C15.bbox b).2.2.2 : Nat) : Int)
      (c15ThinPrims.getwin T 1 ((((C15.bbox b).2.1 : Nat) : Int) - (((C15.bbox b).1 : Nat) : Int) + 1)
        1 ((((C15.bbox b).2.2.2 : Nat) : Int) - (((C15.bbox b).2.2.1 : Nat) : Int) + 1)) = pasteOf b T := by
    intro T
    unfold pasteOf
    dsimp only [c15ThinPrims]
    apply pybody_tabulate_congr _ _ _ _ _ _ rfl rfl
    intro y x
    simp only [Bin.get_tabulate, Bool.and_false]
    by_cases hin : (((C15.bbox b).1 : Nat) : Int) ≤ y ∧ y < (((C15.bbox b).2.1 : Nat) : Int) ∧
        (((C15.bbox b).2.2.1 : Nat) : Int) ≤ x ∧ x < (((C15.bbox b).2.2.2 : Nat) : Int)
    · rw [if_pos hin]
      obtain ⟨a1, a2, a3, a4⟩ := hin
      rw [decide_eq_true a1, decide_eq_true a2, decide_eq_true a3, decide_eq_true a4]
      have e5 : decide (0 ≤ y - (((C15.bbox b).1 : Nat) : Int) ∧
          y - (((C15.bbox b).1 : Nat) : Int) < (((((((C15.bbox b).2.1 : Nat) : Int) - (((C15.bbox b).1 : Nat) : Int) + 1) - 1).toNat : Nat) : Int) ∧
          0 ≤ x - (((C15.bbox b).2.2.1 : Nat) : Int) ∧
          x - (((C15.bbox b).2.2.1 : Nat) : Int) < (((((((C15.bbox b).2.2.2 : Nat) : Int) - (((C15.bbox b).2.2.1 : Nat) : Int) + 1) - 1).toNat : Nat) : Int)) = true :=
        decide_eq_true (by omega)
      rw [e5]
      simp
    · rw [if_neg hin]
      have : (decide ((((C15.bbox b).1 : Nat) : Int) ≤ y) && decide (y < (((C15.bbox b).2.1 : Nat) : Int)) &&
          decide ((((C15.bbox b).2.2.1 : Nat) : Int) ≤ x) && decide (x < (((C15.bbox b).2.2.2 : Nat) : Int))) = false := by
        rw [Bool.eq_false_iff]
        intro hh
        simp only [Bool.and_eq_true, decide_eq_true_eq] at hh
        exact hin ⟨hh.1.1.1, hh.1.1.2, hh.1.2, hh.2⟩
      rw [this]
      simp
  show c15ThinPrims.setwin _ _ _ _ _ (c15ThinPrims.getwin (thinCore (c15ThinPrims.setwin _ _ _ _ _ _) m) _ _ _ _) = _
  rw [hframe, hpaste]

end Mahotas
