/-
Ties between bodies of `thresholding.py` (regenerated on every run into `Generated/PyBodies.lean`) and the rules of
`Model/C16.lean` the driver runs.
-/
import Mahotas.Generated.PyBodiesC16
import Mahotas.Model.C16
import Mathlib.Algebra.Order.Field.Rat
import Mathlib.Tactic.Linarith
import Mathlib.Algebra.Order.Ring.Abs

namespace Mahotas
open Mahotas.Generated.Py Mahotas.C16

/-- the pointwise rule of the translated body (rationals) is the model's rule on doubled integers -/
theorem pybody_gbernsen_rule_aux (a b c ct g : Int) :
    (if decide ((a : Rat) - (b : Rat) < (ct : Rat)) = true
      then decide ((a : Rat) / ((2 : Nat) : Rat) + (b : Rat) / ((2 : Nat) : Rat) < (g : Rat))
      else decide ((a : Rat) / ((2 : Nat) : Rat) + (b : Rat) / ((2 : Nat) : Rat) > (c : Rat)))
      = bernsenRule a b c ct (2 * g) := by
  simp only [bernsenRule]
  have h2 : ((2 : Nat) : Rat) = 2 := by norm_num
  by_cases h : a - b ≥ ct
  · have hq : ¬ ((a : Rat) - (b : Rat) < (ct : Rat)) := by
      have : (ct : Rat) ≤ ((a - b : Int) : Rat) := by exact_mod_cast h
      push_cast at this; linarith
    simp only [h, hq, decide_false, if_true, Bool.false_eq_true, if_false, h2]
    have e : ((a : Rat) / 2 + (b : Rat) / 2 > (c : Rat)) ↔ (a + b > 2 * c) := by
      constructor
      · intro h'; have : ((2 * c : Int) : Rat) < ((a + b : Int) : Rat) := by push_cast; linarith
        exact_mod_cast this
      · intro h'; have : ((2 * c : Int) : Rat) < ((a + b : Int) : Rat) := by exact_mod_cast h'
        push_cast at this; linarith
    simp only [e]
  · have hq : ((a : Rat) - (b : Rat) < (ct : Rat)) := by
      have : ((a - b : Int) : Rat) < (ct : Rat) := by exact_mod_cast (not_le.mp h)
      push_cast at this; linarith
    simp only [h, hq, decide_true, if_true, if_false, h2]
    have e : ((a : Rat) / 2 + (b : Rat) / 2 < (g : Rat)) ↔ (a + b < 2 * g) := by
      constructor
      · intro h'; have : ((a + b : Int) : Rat) < ((2 * g : Int) : Rat) := by push_cast; linarith
        exact_mod_cast this
      · intro h'; have : ((a + b : Int) : Rat) < ((2 * g : Int) : Rat) := by exact_mod_cast h'
        push_cast at this; linarith
    simp only [e]

/-- `thresholding.gbernsen` (current source), pointwise at pixel `p`, over the rationals. The two `rank_filter` calls
    are instantiated by an arbitrary integer-valued rank function `rk field se pixel rank` (what `rank_filter` returns
    on an integer image), `se.sum()` by `n se`. The result is the model's `bernsenRule` on the doubled integers
    (`g2 = 2·gthresh`) applied to the ranks `se.sum() − 1` (local maximum) and `0` (local minimum) — the rule
    `C16.gbernsenAt` applies to `listMaxI`/`listMinI` of the neighbourhood. In particular the `np.choose` arms are in
    the order "contrast below the threshold → mid-grey against `gthresh`, otherwise mid-grey against the pixel", the
    mid-grey is `fmax/2 + fmin/2`, the contrast `fmax − fmin`. For all images, elements, thresholds and pixels. -/
theorem pybody_thresholding_gbernsen_eq_model {X S : Type} (f : X → Int) (rk : (X → Rat) → S → X → Int → Int)
    (n : S → Int) (se : S) (ct g : Int) (ofInt : Int → Rat) (flit : Nat → Nat → Rat) (p : X)
    (cs : Rat → S) (gb : (X → Rat) → S → Rat → Rat → X → Bool) :
    thresholding_gbernsen (K := Rat) (fun k => (k : Rat)) ofInt flit
        { rank_filter := fun fl s r q => ((rk fl s q r : Int) : Rat), se_sum := n, circle_se := cs, gbernsen := gb }
        (fun q => (f q : Rat)) se (ct : Rat) (g : Rat) p
      = bernsenRule (rk (fun q => (f q : Rat)) se p (n se - 1)) (rk (fun q => (f q : Rat)) se p 0) (f p) ct (2 * g) := by
  simp only [thresholding_gbernsen]
  exact pybody_gbernsen_rule_aux _ _ _ _ _

/-- non-vacuity: both arms of the rule are taken and give different answers -/
example :
    bernsenRule 10 2 7 5 12 = false ∧ bernsenRule 10 2 7 9 14 = true ∧ bernsenRule 10 2 5 5 12 = true := by decide

/-- `thresholding.bernsen` (current source): `gbernsen` on `circle_se(radius)` with the global threshold defaulting to 128.
    With the `gbernsen` primitive instantiated by the generated `thresholding_gbernsen` itself, the result at pixel `p` is
    `bernsenRule` with `g2 = 2·gthresh`, `g2 = 256` when `gthresh` is omitted. -/
theorem pybody_thresholding_bernsen_eq_model {X S : Type} (f : X → Int) (rk : (X → Rat) → S → X → Int → Int)
    (n : S → Int) (cs : Rat → S) (radius : Rat) (ct : Int) (g : Option Int) (ofInt : Int → Rat) (flit : Nat → Nat → Rat)
    (p : X) (gb : (X → Rat) → S → Rat → Rat → X → Bool) :
    let P0 : ThreshPrims Rat X S :=
      { rank_filter := fun fl s r q => ((rk fl s q r : Int) : Rat), se_sum := n, circle_se := cs, gbernsen := gb }
    thresholding_bernsen (K := Rat) (fun k => (k : Rat)) ofInt flit
        { P0 with gbernsen := thresholding_gbernsen (K := Rat) (fun k => (k : Rat)) ofInt flit P0 }
        (fun q => (f q : Rat)) radius (ct : Rat) (g.map fun z => (z : Rat)) p
      = bernsenRule (rk (fun q => (f q : Rat)) (cs radius) p (n (cs radius) - 1))
          (rk (fun q => (f q : Rat)) (cs radius) p 0) (f p) ct (2 * g.getD 128) := by
  intro P0
  cases g with
  | none =>
    have h := pybody_thresholding_gbernsen_eq_model f rk n (cs radius) ct 128 ofInt flit p cs gb
    simp only [thresholding_bernsen, Option.getD_none]
    rw [← h]
    norm_num
    rfl
  | some z =>
    have h := pybody_thresholding_gbernsen_eq_model f rk n (cs radius) ct z ofInt flit p cs gb
    simp only [thresholding_bernsen, Option.getD_some]
    rw [← h]
    rfl

/-- the primitives of the `otsu` wrapper as the C16 model has them: `fullhistogram` is the model's histogram (as a
    list), `np.asanyarray(hist, dtype=np.double)` keeps the values (counts are exact in a double below 2^53),
    `hist[i] = v` is `List.set`, `_histogram.otsu` the transliterated kernel `otsuGen` -/
def c16HistPrims {α : Type} [Add α] [Sub α] [Mul α] [Div α] [LT α] [DecidableLT α] (cast : Nat → α) :
    HistPrims (List Nat) (List Nat) where
  fullhistogram := fun img => (fullhistogram img).toList
  asanyarray := fun h => h
  setitem := fun h i v => h.set i v
  otsu := otsuGen cast

/-- `thresholding.otsu` (current source) = `C16.otsuImg`: the histogram, bin 0 cleared exactly when `ignore_zeros`,
    handed to the kernel. Every arithmetic (`cast`), every image, both flag values. -/
theorem pybody_thresholding_otsu_eq_model {α : Type} [Add α] [Sub α] [Mul α] [Div α] [LT α] [DecidableLT α]
    (cast : Nat → α) (img : List Nat) (iz : Bool) :
    thresholding_otsu (c16HistPrims cast) img iz = otsuImg cast img iz := by
  cases iz <;> simp [thresholding_otsu, c16HistPrims, otsuImg, histOf]

/-- non-vacuity: on this image the flag changes the histogram handed to the kernel -/
example : histOf [0, 0, 1, 3] true ≠ histOf [0, 0, 1, 3] false := by decide

/-- `thresholding.soft_threshold` (current source), pointwise at `p` = `C16.softGen` on that element, over every linearly
    ordered commutative ring (the integers and the rationals in particular — the types `softGen` is proved at), for every
    threshold (negative ones included). The first mask is `(f > t) | (f < -t)` (since the repair db88c87: no `np.abs`,
    which wraps at the most negative value of a signed dtype); `f.dtype.type(tval)` keeps the value of `tval`
    (it is only applied when `tval == int(tval)` on an integer image), so `step = tval` on both paths whatever the dtype test
    says. Fixes the three masks `(f > t) | (f < -t)`, `f > t`, `f < -t`, their order, and that later masks read the updated array. -/
theorem pybody_thresholding_soft_threshold_eq_model {K X : Type} [CommRing K] [LinearOrder K] [IsStrictOrderedRing K] [Div K]
    (ofInt : Int → K) (flit : Nat → Nat → K) (P : SoftPrims K X)
    (hcast : ∀ g v, P.dtype_cast g v = v) (f : X → K) (t : K) (p : X) :
    thresholding_soft_threshold (fun n => (n : K)) ofInt flit P f t p = softGen (0 : K) (f p) t := by
  simp only [thresholding_soft_threshold, softGen, hcast, ite_self, Nat.cast_one, Nat.cast_zero, mul_ite, mul_one,
    mul_zero, gt_iff_lt, decide_eq_true_eq, zero_sub]
  by_cases hf : f p < 0
  · simp only [hf, if_true]
    split_ifs <;> simp_all <;> linarith
  · simp only [hf, if_false]
    split_ifs <;> simp_all <;> linarith

/-- non-vacuity (integers): shrink towards zero by `t = 2` -/
example : [5, 2, -1, -7].map (fun f => softGen (0 : Int) f 2) = [3, 0, 0, -5] := by decide

end Mahotas
