/-
Tie between the body of `thresholding.py: rc` (regenerated on every run into `Generated/PyBodies.lean`, its two `while`
loops under the reviewed fuel `N = hist.size`) and `C16.rcImg`, the Riddler–Calvard model the driver runs.
-/
import Mahotas.Generated.PyBodiesC16
import Mahotas.Proofs.C16Rc
import Mahotas.Proofs.C16Zeros
import Mathlib.Algebra.BigOperators.Group.List.Basic

namespace Mahotas
open Mahotas.Generated.Py Mahotas.C16

/-! ### list facts: prefix and suffix sums -/

theorem pybody_cumsum_getD (l : List Nat) (acc j : Nat) (hj : j < l.length) :
    (cumsum l acc).getD j 0 = acc + (l.take (j + 1)).sum := by
  induction l generalizing acc j with
  | nil => simp at hj
  | cons x xs ih =>
    cases j with
    | zero => simp [cumsum]
    | succ j =>
      simp only [cumsum, List.getD_cons_succ, List.take_succ_cons, List.sum_cons]
      rw [ih (acc + x) j (by simpa using hj)]
      omega

/-- `np.flipud(np.cumsum(np.flipud(l)))[i] = Σ_{j ≥ i} l[j]` -/
theorem pybody_rcumsum_getD (l : List Nat) (i : Nat) (hi : i < l.length) :
    ((cumsum l.reverse 0).reverse).getD i 0 = (l.drop i).sum := by
  have hlen : (cumsum l.reverse 0).length = l.length := by rw [cumsum_length, List.length_reverse]
  rw [List.getD_eq_getElem?_getD, List.getElem?_reverse (by omega), ← List.getD_eq_getElem?_getD, hlen,
    pybody_cumsum_getD _ _ _ (by rw [List.length_reverse]; omega), Nat.zero_add, List.take_reverse, List.sum_reverse]
  congr 2
  omega

/-- suffix sum = total − prefix sum, in the form `rcGen` uses (`rcumOf`, `rfmOf`) -/
theorem pybody_suffix_eq (l : List Nat) (i : Nat) (hi : i < l.length) :
    (l.drop i).sum = (cumsum l 0).getD (l.length - 1) 0 - (if i = 0 then 0 else (cumsum l 0).getD (i - 1) 0) := by
  rw [pybody_cumsum_getD l 0 (l.length - 1) (by omega)]
  have ht : l.take (l.length - 1 + 1) = l := by
    rw [show l.length - 1 + 1 = l.length by omega, List.take_length]
  rw [ht, Nat.zero_add]
  have hs := List.sum_take_add_sum_drop l i
  by_cases h0 : i = 0
  · subst h0; simp
  · rw [if_neg h0, pybody_cumsum_getD l 0 (i - 1) (by omega), Nat.zero_add, show i - 1 + 1 = i by omega]
    omega

theorem pybody_weighted_eq (l : List Nat) :
    List.zipWith (fun a b => a * b) (List.range l.length) l = weighted l := by
  unfold weighted
  rw [List.zipIdx_eq_zip_range', List.range_eq_range', List.zip_eq_zipWith, List.map_zipWith, List.zipWith_comm]

/-! ### the primitives of `rc` as the C16 model has them -/

/-- Python indexing of an integer array by a Python int: negative indices count from the end -/
def pyGetItem (h : List Nat) (i : Int) : Int :=
  if i < 0 then ((h.getD (h.length - (-i).toNat) 0 : Nat) : Int) else ((h.getD i.toNat 0 : Nat) : Int)

theorem pyGetItem_nat (h : List Nat) (t : Nat) : pyGetItem h (t : Int) = ((h.getD t 0 : Nat) : Int) := by
  simp [pyGetItem]

/-- histogram = list of counts; `np.cumsum` = the model's `cumsum · 0`; `np.flipud` = reverse; `np.arange(N)` = `0 … N-1`;
    `*` elementwise; `h[i]` Python indexing; `.size` = length -/
abbrev c16RcPrimsH (fh : List Nat → List Nat) : RcPrims ℚ (List Nat) (List Nat) where
  fullhistogram := fh
  setitem := fun h i v => h.set i v
  getitem := pyGetItem
  size := List.length
  img_size := List.length
  cumsum := fun h => cumsum h 0
  flipud := List.reverse
  arange := List.range
  mul := List.zipWith (fun a b => a * b)

/-- … and `fullhistogram` = the model's histogram (as a list) -/
abbrev c16RcPrims : RcPrims ℚ (List Nat) (List Nat) := c16RcPrimsH fun img => (fullhistogram img).toList

/-! ### the two `while` loops -/

/-- `while hist[maxt] == 0: maxt -= 1` from `L + d` down to a non-zero bin `L` above which all bins are zero -/
theorem pybody_whileFuel_down (hist : List Nat) (L : Nat) (hL : hist.getD L 0 ≠ 0) :
    ∀ (d fuel : Nat), d ≤ fuel → (∀ j, L < j → j ≤ L + d → hist.getD j 0 = 0) →
      whileFuel fuel (fun m : Int => decide (pyGetItem hist m = 0)) (fun m => m - 1) ((L + d : Nat) : Int) = (L : Int)
  | 0, fuel, _, _ => by
    have hc : decide (pyGetItem hist ((L + 0 : Nat) : Int) = 0) = false :=
      decide_eq_false (by rw [pyGetItem_nat]; exact_mod_cast hL)
    cases fuel with
    | zero => rfl
    | succ f => rw [whileFuel]; simp only [hc, Bool.false_eq_true, if_false]; rfl
  | d + 1, 0, h, _ => by omega
  | d + 1, fuel + 1, h, hz => by
    have h0 : hist.getD (L + (d + 1)) 0 = 0 := hz _ (by omega) (by omega)
    have e : ((L + (d + 1) : Nat) : Int) - 1 = ((L + d : Nat) : Int) := by push_cast; omega
    rw [whileFuel]
    simp only [pyGetItem_nat, h0, Nat.cast_zero, decide_true, if_true]
    rw [e]
    exact pybody_whileFuel_down hist L hL d fuel (by omega) (fun j a b => hz j a (by omega))

/-- the first loop of `rc` finds the model's `lastNonzero` (and stops there: the fuel `N` is not exhausted) -/
theorem pybody_rc_maxt (hist : List Nat) (hne : ∃ v ∈ hist, v ≠ 0) (c : Int → Bool)
    (hc : ∀ m, c m = decide (pyGetItem hist m = 0)) :
    whileFuel hist.length c (fun m => m - 1) ((hist.length : Int) - 1) = (lastNonzero hist : Int) := by
  obtain rfl : c = fun m => decide (pyGetItem hist m = 0) := funext hc
  obtain ⟨hL, hz⟩ := lastNonzero_spec hist hne
  have hlt : lastNonzero hist < hist.length := hi_lt_length hist hne
  have e : ((hist.length : Int) - 1) = ((lastNonzero hist + (hist.length - 1 - lastNonzero hist) : Nat) : Int) := by
    omega
  rw [e]
  refine pybody_whileFuel_down hist _ (by simpa [hOf_eq] using hL) _ _ (by omega) ?_
  intro j hj _
  simpa [hOf_eq] using hz j hj

/-- the second loop of `rc` (state `(res, t)`) is the model's `rcLoop` over `t, t+1, …` -/
theorem pybody_whileFuel_rcLoop (cum rcum fm rfm : Nat → Nat) (L : Nat) (c : ℚ × Nat → Bool) (b : ℚ × Nat → ℚ × Nat)
    (hc : ∀ res t, c (res, t) = decide (t < L ∧ (t : ℚ) < res))
    (hb : ∀ res t, t < L → b (res, t) =
      ((if cum t ≠ 0 ∧ rcum (t + 1) ≠ 0 then
          ((fm t : ℚ) / (cum t : ℚ) + (rfm (t + 1) : ℚ) / (rcum (t + 1) : ℚ)) / ((2 : ℕ) : ℚ) else res), t + 1)) :
    ∀ (k t : Nat) (res : ℚ),
      (whileFuel k c b (res, t)).1 = rcLoop ratCast cum rcum fm rfm L (List.range' t k) res
  | 0, t, res => by simp [whileFuel, rcLoop_nil]
  | k + 1, t, res => by
    rw [List.range'_succ, rcLoop_cons, whileFuel, hc]
    by_cases h : t < L ∧ (t : ℚ) < res
    · simp only [h, and_self, decide_true, if_true]
      rw [hb res t h.1]
      exact pybody_whileFuel_rcLoop cum rcum fm rfm L c b hc hb k (t + 1) _
    · simp only [h, decide_false, Bool.false_eq_true, if_false]

/-- the four array reads of the loop body are the model's class sums (for `t < lastNonzero hist`) -/
theorem pybody_rc_reads (hist : List Nat) (t : Nat) (ht : t + 1 < hist.length) :
    pyGetItem (cumsum hist 0) (t : Int) = (nBOf hist t : Int) ∧
    pyGetItem (cumsum hist.reverse 0).reverse ((t + 1 : Nat) : Int) = (rcumOf hist (t + 1) : Int) ∧
    pyGetItem (cumsum (List.zipWith (fun a b => a * b) (List.range hist.length) hist) 0) (t : Int) = (sBOf hist t : Int) ∧
    pyGetItem (cumsum (List.zipWith (fun a b => a * b) (List.range hist.length) hist).reverse 0).reverse
        ((t + 1 : Nat) : Int) = (rfmOf hist (t + 1) : Int) := by
  have hw := weighted_length hist
  refine ⟨?_, ?_, ?_, ?_⟩
  · rw [pyGetItem_nat, nBOf_eq]
  · rw [pyGetItem_nat, pybody_rcumsum_getD hist (t + 1) ht, pybody_suffix_eq hist (t + 1) ht]
    simp only [rcumOf, nBOf_eq]
  · rw [pyGetItem_nat, pybody_weighted_eq, sBOf_eq]
  · rw [pyGetItem_nat, pybody_weighted_eq, pybody_rcumsum_getD (weighted hist) (t + 1) (by omega),
      pybody_suffix_eq (weighted hist) (t + 1) (by omega), hw]
    simp only [rfmOf, sBOf_eq]

/-- the body of `rc` after the `ignore_zeros` prologue, on a histogram with a non-zero bin: `rcGen` -/
theorem pybody_rc_tail (hist : List Nat) (flit : Nat → Nat → ℚ) (hne : ∃ v ∈ hist, v ≠ 0) :
    thresholding_rc (K := ℚ) (fun n => (n : ℚ)) (fun z => (z : ℚ)) flit
      (c16RcPrimsH fun _ => hist) ([] : List Nat) false = rcGen ratCast hist := by
  have hlt : lastNonzero hist < hist.length := hi_lt_length hist hne
  simp only [thresholding_rc, Bool.false_eq_true, if_false]
  rw [pybody_rc_maxt hist hne _ (fun m => by congr)]
  simp only [Int.cast_natCast]
  rw [rcGen_eq, List.range_eq_range']
  refine pybody_whileFuel_rcLoop _ _ _ _ _ _ _ ?_ ?_ _ _ _
  · intro res t
    simp only []
    by_cases h : res < (lastNonzero hist : ℚ)
    · simp only [h, if_true]
      congr 1; apply propext
      exact ⟨fun h' => ⟨by exact_mod_cast lt_trans h' h, h'⟩, fun h' => h'.2⟩
    · simp only [h, if_false]
      congr 1; apply propext
      exact ⟨fun h' => ⟨by exact_mod_cast h', lt_of_lt_of_le h' (not_lt.mp h)⟩, fun h' => by exact_mod_cast h'.1⟩
  · intro res t ht
    obtain ⟨e1, e2, e3, e4⟩ := pybody_rc_reads hist t (by omega)
    rw [List.range_eq_range'] at e3 e4
    simp only [e1, e2, e3, e4, Int.cast_natCast, Bool.and_eq_true, decide_eq_true_eq, ne_eq, Nat.cast_eq_zero]

/-- `thresholding.rc` (current source; both `while` loops under the fuel `N = hist.size`) = `C16.rcImg` at the exact
    (rational) arithmetic, for every image on which the Python body does not run off the histogram: either the early
    `return 0` is taken (`ignore_zeros` and every pixel is 0) or the histogram handed to the loops has a non-zero bin
    (`pybody_rc_guard`: every non-empty image). Fixes: the `ignore_zeros` prologue, prefix and reversed suffix sums of
    `hist` and `arange(N)·hist`, the downward search for the last non-zero bin, the stopping rule
    `t < min(maxt, res)`, the test `cumsum[t] and r_cumsum[t+1]`, the midpoint formula and `t += 1`. -/
theorem pybody_thresholding_rc_eq_model (img : List Nat) (iz : Bool) (flit : Nat → Nat → ℚ)
    (hne : (iz = true ∧ (fullhistogram img).getD 0 0 = img.length) ∨ ∃ v ∈ histOf img iz, v ≠ 0) :
    thresholding_rc (K := ℚ) (fun n => (n : ℚ)) (fun z => (z : ℚ)) flit c16RcPrims img iz = rcImg ratCast img iz := by
  cases iz
  · have h := pybody_rc_tail (histOf img false) flit (hne.elim (fun h => absurd h.1 (by simp)) id)
    simp only [rcImg, Bool.false_and, Bool.false_eq_true, if_false]
    rw [← h]
    rfl
  · have hg : pyGetItem (fullhistogram img).toList 0 = (((fullhistogram img).getD 0 0 : Nat) : Int) := by
      have := pyGetItem_nat (fullhistogram img).toList 0
      simpa using this
    simp only [thresholding_rc, rcImg, Bool.true_and, if_true, hg]
    by_cases h0 : (fullhistogram img).getD 0 0 = img.length
    · simp [h0, ratCast]
    · have h := pybody_rc_tail (histOf img true) flit (hne.elim (fun h => absurd h.2 h0) id)
      have h0' : ¬ ((((fullhistogram img).getD 0 0 : Nat) : Int) = ((img.length : Nat) : Int)) := by exact_mod_cast h0
      simp only [h0', decide_false, Bool.false_eq_true, if_false, beq_iff_eq, h0]
      rw [← h]
      rfl

/-- the guard of `pybody_thresholding_rc_eq_model` holds for every non-empty image -/
theorem pybody_rc_guard (img : List Nat) (iz : Bool) (himg : img ≠ []) :
    (iz = true ∧ (fullhistogram img).getD 0 0 = img.length) ∨ ∃ v ∈ histOf img iz, v ≠ 0 := by
  have mem_of_getD : ∀ (l : List Nat) (i : Nat), l.getD i 0 ≠ 0 → ∃ v ∈ l, v ≠ 0 := by
    intro l i h
    rw [List.getD_eq_getElem?_getD] at h
    cases hg : l[i]? with
    | none => simp [hg] at h
    | some v => exact ⟨v, List.mem_of_getElem? hg, by simpa [hg] using h⟩
  cases iz
  · right
    obtain ⟨x, hx⟩ := List.exists_mem_of_ne_nil img himg
    refine mem_of_getD _ x ?_
    rw [histOf_false_getD]
    exact (List.count_pos_iff.mpr hx).ne'
  · by_cases h0 : img.count 0 = img.length
    · left; exact ⟨rfl, by rw [fullhistogram_count]; exact h0⟩
    · right
      have : ∃ x ∈ img, x ≠ 0 := by
        by_contra hcon
        push Not at hcon
        exact h0 (List.count_eq_length.mpr (fun b hb => (hcon b hb).symm))
      obtain ⟨x, hx, hx0⟩ := this
      refine mem_of_getD _ x ?_
      rw [histOf_true_getD, if_neg hx0]
      exact (List.count_pos_iff.mpr hx).ne'

/-- non-vacuity: the guard holds on a concrete image whose histogram `[1, 2, 0, 1]` has an empty bin below the last
    occupied one (the downward search stops at 3 at once; with bin 0 cleared the histogram is `[0, 2, 0, 1]`) -/
example : (∃ v ∈ histOf [0, 1, 1, 3] false, v ≠ 0) ∧ lastNonzero (histOf [0, 1, 1, 3] false) = 3 ∧
    histOf [0, 1, 1, 3] true = [0, 2, 0, 1] := by decide

end Mahotas
