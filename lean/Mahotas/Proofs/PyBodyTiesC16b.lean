/-
Tie between the body of `morph.py: circle_se` (regenerated on every run into `Generated/PyBodiesC16.lean`, family
`circle_se`) and `C16.circleAt` / `C16.circleSe`, the structuring element the driver's model of `bernsen` builds itself.
-/
import Mahotas.Generated.PyBodiesC16
import Mahotas.Model.C16
import Mahotas.Proofs.C16Degenerate
import Mathlib.Tactic.Ring

namespace Mahotas
open Mahotas.Generated.Py Mahotas.C16

/-- numpy's `np.arange(a, b)` (entry `k` is `a + k`) and `np.meshgrid(x, y)` with the default `'xy'` indexing
    (`X[i, j] = x[j]`, `Y[i, j] = y[i]`) on integer arrays, positions `(i, j)` = (row, column) -/
abbrev circlePrims : CirclePrims Int (Nat × Nat) where
  arange := fun a _ k => a + (k : Int)
  meshgrid_x := fun x _ p => x p.2
  meshgrid_y := fun _ y p => y p.1

/-- **`morph.circle_se` (current source) = `C16.circleAt`**: for a positive integer radius `r` the entry at row `i`,
    column `j` of the returned mask is `C16.circleAt r i j` (`X² + Y² < r²` with `X = j − r`, `Y = i − r`: the strict
    inequality, the `−radius` start of `np.arange`, both squares), and a radius that is not positive raises. -/
theorem pybody_morph_circle_se_eq_model (ofInt : Int → Int) (flit : Nat → Nat → Int) (r : Nat) :
    morph_circle_se (fun n => (n : Int)) ofInt flit circlePrims (r : Int) =
      if 0 < r then some (fun p => circleAt r p.1 p.2) else none := by
  unfold morph_circle_se
  by_cases h : 0 < r
  · have h' : ((r : Int) > ((0 : Nat) : Int)) := by simpa using h
    simp only [h', decide_true, Bool.not_true, Bool.false_eq_true, if_false, h, if_true]
    congr 1
    funext p
    simp only [circleAt]
    congr 1
    apply propext
    constructor <;> intro hh <;> nlinarith [hh]
  · simp [h]

/-- … so the row-major `(2r+1) × (2r+1)` array `C16.circleSe r` the driver's `bernsen` uses holds exactly the entries of the
    translated `circle_se(r)` -/
theorem pybody_morph_circle_se_circleSe (ofInt : Int → Int) (flit : Nat → Nat → Int) (r i j : Nat) (hr : 0 < r)
    (hi : i ≤ 2 * r) (hj : j ≤ 2 * r) :
    ∃ m, morph_circle_se (fun n => (n : Int)) ofInt flit circlePrims (r : Int) = some m ∧
      (circleSe r).getD (i * (2 * r + 1) + j) 0 = if m (i, j) then 1 else 0 := by
  refine ⟨_, by rw [pybody_morph_circle_se_eq_model, if_pos hr], ?_⟩
  rw [circleSe_spec r i j hi hj]
  simp [circleAt]

/-- non-vacuity: `circle_se(2)` has its centre and the four axis neighbours at distance 1 set, the corners clear, and
    `circle_se(0)` raises -/
example : (morph_circle_se (fun n => (n : Int)) id (fun m _ => m) circlePrims 2).map
      (fun m => [m (2, 2), m (1, 2), m (2, 3), m (0, 0), m (0, 2), m (1, 1)]) = some [true, true, true, false, false, true] ∧
    morph_circle_se (fun n => (n : Int)) id (fun m _ => m) circlePrims 0 = none := by decide

end Mahotas
