/-
Ties between the bodies of `convolve.py: _wavelet_center_compute, wavelet_center, wavelet_decenter` (regenerated on every run
into `Generated/PyBodiesC17.lean`) and the model the driver runs: `C17.Mem.centerComputeI` (guards, the search loop
`for c in range(1, 64)`, candidate sides and offsets) and `C17.center` / `C17.decenter` (embedding and slice).
-/
import Mahotas.Generated.PyBodiesC17
import Mahotas.Model.C17Mem
import Mahotas.Proofs.C17Center

namespace Mahotas
open Mahotas.Generated.Py Mahotas.C17 Mahotas.C17.Mem

/-! ### list helpers -/

theorem pybody_listMin_fold_le (b : Int) : ∀ (xs : List Int) (x : Int),
    (xs.foldl (fun a y => if y < a then y else a) x ≤ b) ↔ (x ≤ b ∨ ∃ y ∈ xs, y ≤ b) := by
  intro xs
  induction xs with
  | nil => intro x; simp
  | cons y ys ih =>
    intro x
    simp only [List.foldl_cons, ih, List.mem_cons, exists_eq_or_imp]
    generalize (∃ z, z ∈ ys ∧ z ≤ b) = Q
    by_cases h : y < x
    · simp only [h, if_true]
      constructor
      · rintro (h1 | h1)
        · exact Or.inr (Or.inl h1)
        · exact Or.inr (Or.inr h1)
      · rintro (h1 | h1 | h1)
        · exact Or.inl (by omega)
        · exact Or.inl h1
        · exact Or.inr h1
    · simp only [h, if_false]
      constructor
      · rintro (h1 | h1)
        · exact Or.inl h1
        · exact Or.inr (Or.inr h1)
      · rintro (h1 | h1 | h1)
        · exact Or.inl h1
        · exact Or.inl (by omega)
        · exact Or.inr h1

/-- `np.min(v) <= b` on a non-empty integer array: some entry is `≤ b` -/
theorem pybody_listMinI_le (b : Int) (l : List Int) (hne : l ≠ []) : listMinI l ≤ b ↔ ∃ y ∈ l, y ≤ b := by
  cases l with
  | nil => exact absurd rfl hne
  | cons x xs => simp only [listMinI, pybody_listMin_fold_le, List.mem_cons, exists_eq_or_imp]

/-- the loop `for d, e in zip(..): position.append(slice(d, d + e))` builds the mapped list -/
theorem pybody_foldl_append_map {α β : Type} (g : α → β) : ∀ (l : List α) (acc : List β),
    List.foldl (fun st z => st ++ [g z]) acc l = acc ++ l.map g := by
  intro l
  induction l with
  | nil => intro acc; simp
  | cons z zs ih => intro acc; simp [ih]

/-- a search loop (`for c in range(a, a+n): if not P c: continue; return h c`) translated as a fold over `Option`
    is the model's `searchC`: the first `c` with `P c`, mapped by `h` -/
theorem pybody_search_fold {R : Type} (P : Nat → Bool) (h : Nat → R) : ∀ (n a : Nat),
    List.foldl (fun (st : Option R) c => if st.isSome then st else if P c then some (h c) else none) none (List.range' a n)
      = (searchC P n a).map h := by
  have hsome : ∀ (l : List Nat) (r : R),
      List.foldl (fun (st : Option R) c => if st.isSome then st else if P c then some (h c) else none) (some r) l = some r := by
    intro l; induction l with
    | nil => intro r; rfl
    | cons c cs ih => intro r; simpa using ih r
  intro n
  induction n with
  | zero => intro a; simp [searchC]
  | succ n ih =>
    intro a
    rw [List.range'_succ, List.foldl_cons, searchC]
    by_cases hp : P a = true
    · simp [hp, hsome]
    · simp only [Option.isSome_none, Bool.false_eq_true, if_false, hp]
      exact ih (a + 1)

theorem pybody_zipWith_map_self {α β γ : Type} (f : β → α → γ) (g : α → β) : ∀ l : List α,
    List.zipWith f (l.map g) l = l.map (fun x => f (g x) x) := by
  intro l; induction l with
  | nil => rfl
  | cons x xs ih => simp [ih]

theorem pybody_foldl_congr {α β : Type} (f g : β → α → β) : ∀ (l : List α) (b : β),
    (∀ b, ∀ a ∈ l, f b a = g b a) → List.foldl f b l = List.foldl g b l := by
  intro l; induction l with
  | nil => intro b _; rfl
  | cons a as ih =>
    intro b h
    rw [List.foldl_cons, List.foldl_cons, h b a (List.mem_cons_self ..)]
    exact ih _ (fun b' a' ha' => h b' a' (List.mem_cons_of_mem _ ha'))

/-! ### `_wavelet_center_compute` -/

/-- one offset: Python's `(2**(floor(log2 o) + c) - o) // 2` on ints is the model's truncated natural arithmetic, for `c ≥ 1` -/
theorem pybody_center_offset (n c : Nat) (hc : 1 ≤ c) :
    Int.fdiv (((2 : Int) ^ (n.log2 + c)) - (n : Int)) 2 = (((2 ^ (n.log2 + c) - n) / 2 : Nat) : Int) := by
  have h1 : n < 2 ^ (Nat.log2 n + 1) := Nat.lt_log2_self
  have h2 : 2 ^ (Nat.log2 n + 1) ≤ 2 ^ (Nat.log2 n + c) := Nat.pow_le_pow_right (by omega) (by omega)
  have e : ((2 : Int) ^ (n.log2 + c)) - (n : Int) = (((2 ^ (n.log2 + c) - n : Nat)) : Int) := by
    rw [Int.ofNat_sub (by omega)]; simp
  rw [e, Int.fdiv_eq_ediv_of_nonneg _ (by omega)]
  rfl

/-- what the Python function returns for the model's result `(sides, offsets)`: the sides as ints and, per axis, the slice
    `slice(d, d + o)` -/
def pyCenterResult (oshape : List Int) (r : List Nat × List Nat) : List Int × List (Int × Int) :=
  (r.1.map Int.ofNat, ((r.2.map Int.ofNat).zip oshape).map fun de => (de.1, de.1 + de.2))

/-- the candidate of step `c ≥ 1` as the Python loop body computes it (float `log2`/`floor`, `2**`, `astype(int)`,
    `delta = nshape - oshape; delta //= 2`) = the model's `centerCand`, for positive sides -/
theorem pybody_center_cand {K A D : Type} (P : WavePrims K A D)
    (hlog : ∀ o : Int, 0 < o → P.floor_log2 o = (Nat.log2 o.toNat : Int))
    (oshape : List Int) (hpos : ∀ o ∈ oshape, 0 < o) (c : Nat) (hc : 1 ≤ c) :
    List.map (fun e => (2 : Int) ^ Int.toNat e) (List.map (fun t => t + (c : Int)) (List.map P.floor_log2 oshape))
        = (centerCand (oshape.map Int.toNat) c).1.map Int.ofNat ∧
    List.map (fun t => Int.fdiv t 2) (List.zipWith (fun a b => a - b)
        (List.map (fun e => (2 : Int) ^ Int.toNat e) (List.map (fun t => t + (c : Int)) (List.map P.floor_log2 oshape))) oshape)
        = (centerCand (oshape.map Int.toNat) c).2.map Int.ofNat := by
  have hside : ∀ o ∈ oshape, (2 : Int) ^ Int.toNat (P.floor_log2 o + (c : Int)) = (2 : Int) ^ (o.toNat.log2 + c) := by
    intro o ho
    rw [hlog o (hpos o ho)]
    congr 1
  constructor
  · rw [show (centerCand (oshape.map Int.toNat) c).1 = (oshape.map Int.toNat).map (fun o => 2 ^ (Nat.log2 o + c)) from rfl]
    simp only [List.map_map]
    apply List.map_congr_left
    intro o ho
    simp only [Function.comp_apply, hside o ho]
    simp
  · rw [centerCand_snd]
    simp only [List.map_map]
    rw [pybody_zipWith_map_self, List.map_map]
    apply List.map_congr_left
    intro o ho
    have hp := hpos o ho
    simp only [Function.comp_apply, hside o ho]
    have := pybody_center_offset o.toNat c hc
    rw [Int.toNat_of_nonneg (by omega)] at this
    exact this

/-- the second guard: `len(oshape) == 0 or np.min(oshape) <= 0` is the model's `oshape.isEmpty ∨ oshape.any (· ≤ 0)` -/
theorem pybody_center_guard (l : List Int) :
    (decide (l.length = 0) || decide (listMinI l ≤ 0)) = true ↔ (l.isEmpty ∨ l.any (· ≤ 0)) := by
  cases l with
  | nil => simp
  | cons x xs =>
    have := pybody_listMinI_le 0 (x :: xs) (by simp)
    simp only [List.length_cons, Nat.add_one_ne_zero, decide_false, Bool.false_or, decide_eq_true_eq, this,
      List.isEmpty_cons, Bool.false_eq_true, false_or, List.any_eq_true]

/-- **`convolve._wavelet_center_compute` (current source) = `C17.Mem.centerComputeI`**, for every shape and every integer
    border, with `np.floor(np.log2(o))` of a positive side being `⌊log₂ o⌋` (`hlog`; the model's `Nat.log2`): both guards
    (`none` = `ValueError`), the search `for c in range(1, 64)` (first admissible step wins; no step: the function falls
    off its end and the callers' tuple unpacking fails — `none`), the candidate sides `2**(⌊log₂ o⌋ + c)`, the offsets
    `(side − o) // 2`, the test `np.min(delta) <= border: continue`, and the slices `slice(d, d + o)` per axis. -/
theorem pybody_convolve__wavelet_center_compute_eq_model {K A D : Type} (P : WavePrims K A D)
    (hlog : ∀ o : Int, 0 < o → P.floor_log2 o = (Nat.log2 o.toNat : Int)) (oshape : List Int) (border : Int) :
    convolve__wavelet_center_compute P oshape border = (centerComputeI oshape border).map (pyCenterResult oshape) := by
  unfold convolve__wavelet_center_compute centerComputeI
  by_cases hb : border ≥ 2 ^ 40
  · rw [if_pos (by simpa using hb), if_pos hb]; rfl
  rw [if_neg (by simpa using hb), if_neg hb]
  by_cases hg : oshape.isEmpty ∨ oshape.any (· ≤ 0)
  · rw [if_pos ((pybody_center_guard oshape).mpr hg), if_pos hg]; rfl
  rw [if_neg (fun h => hg ((pybody_center_guard oshape).mp h)), if_neg hg]
  have hne : oshape ≠ [] := by
    intro h; apply hg; left; simp [h]
  have hpos : ∀ o ∈ oshape, 0 < o := by
    intro o ho
    by_contra hle
    apply hg; right
    exact List.any_eq_true.mpr ⟨o, ho, by simpa using hle⟩
  -- the step of the fold, for c ≥ 1, is the model's candidate test
  have hstep : ∀ (st : Option (List Int × List (Int × Int))) (c : Nat), c ∈ List.range' 1 (64 - 1) →
      (if st.isSome then st else
        let nshape := List.map (fun e => (2 : Int) ^ Int.toNat e) (List.map (fun t => t + (c : Int)) (List.map P.floor_log2 oshape))
        let nshape := nshape
        let delta := List.zipWith (fun a b => a - b) nshape oshape
        let delta := List.map (fun t => Int.fdiv t 2) delta
        if decide (listMinI delta ≤ border) then none
        else
          let position : List (Int × Int) := []
          let st3 := List.foldl (fun (st3 : List (Int × Int)) (zz2 : Int × Int) =>
            let position := st3
            let d := zz2.1
            let e := zz2.2
            let position := position ++ [(d, d + e)]
            position) position (List.zip delta oshape)
          let position := st3
          some (nshape, position)) =
      (if st.isSome then st else
        if (centerCand (oshape.map Int.toNat) c).2.all (fun d => decide (border < (d : Int)))
        then some (pyCenterResult oshape (centerCand (oshape.map Int.toNat) c)) else none) := by
    intro st c hc
    have hc1 : 1 ≤ c := by
      rw [List.mem_range'_1] at hc; exact hc.1
    obtain ⟨h1, h2⟩ := pybody_center_cand P hlog oshape hpos c hc1
    rw [h1] at h2
    simp only [h1, h2]
    have hne2 : List.map Int.ofNat (centerCand (oshape.map Int.toNat) c).2 ≠ [] := by
      rw [centerCand_snd]; simpa using hne
    have hmin := pybody_listMinI_le border _ hne2
    by_cases hall : (centerCand (oshape.map Int.toNat) c).2.all (fun d => decide (border < (d : Int))) = true
    · have : ¬ listMinI (List.map Int.ofNat (centerCand (oshape.map Int.toNat) c).2) ≤ border := by
        rw [hmin]
        rintro ⟨y, hy, hle⟩
        rw [List.mem_map] at hy
        obtain ⟨d, hd, rfl⟩ := hy
        have := List.all_eq_true.mp hall d hd
        simp at this
        have e : Int.ofNat d = (d : Int) := rfl
        omega
      simp only [this, decide_false, Bool.false_eq_true, if_false, hall, if_true, pybody_foldl_append_map (fun zz : Int × Int => (zz.1, zz.1 + zz.2)),
        List.nil_append, pyCenterResult]
    · have : listMinI (List.map Int.ofNat (centerCand (oshape.map Int.toNat) c).2) ≤ border := by
        rw [hmin]
        simp only [List.all_eq_true, not_forall] at hall
        obtain ⟨d, hd, hlt⟩ := hall
        refine ⟨Int.ofNat d, List.mem_map.mpr ⟨d, hd, rfl⟩, ?_⟩
        simp at hlt
        have e : Int.ofNat d = (d : Int) := rfl
        omega
      simp only [this, decide_true, if_true, hall, Bool.false_eq_true, if_false]
  have hfold := pybody_foldl_congr _ _ (List.range' 1 (64 - 1)) none hstep
  rw [show (64 - 1 : Nat) = 63 from rfl, pybody_search_fold] at hfold
  simp only [hfold, Option.map_map]
  cases searchC _ 63 1 <;> rfl

/-! ### `wavelet_center` / `wavelet_decenter` on 2-D images -/

/-- the primitives on the model's 2-D images `Im α` (functions of row and column): `np.floor(np.log2(o))` is `Nat.log2`,
    `_wavelet_center_compute` is the GENERATED body, `np.zeros` is the zero image, `a += v` adds `v` everywhere,
    `a[s0:e0, s1:e1] = b` overwrites the window with `b`, `a[s0:e0, s1:e1]` reads from the window's corner
    (an `Im` carries no shape: the window's extent is what `pyCenterResult` records), `f.shape` is the given shape. -/
abbrev c17Prims {α : Type} [Zero α] [Add α] (shape : List Int) : WavePrims α (Im α) Unit where
  floor_log2 := fun o => (Nat.log2 o.toNat : Int)
  center_compute := convolve__wavelet_center_compute
    ({ floor_log2 := fun o => (Nat.log2 o.toNat : Int), center_compute := fun _ _ => none, zeros := fun _ _ _ _ => 0,
       add_scalar := fun a _ => a, setslice := fun a _ _ => a, getslice := fun a _ => a, shape := fun _ => shape } : WavePrims α (Im α) Unit)
  zeros := fun _ _ _ _ => 0
  add_scalar := fun a v y x => a y x + v
  setslice := fun a sl b => match sl with
    | [(s0, e0), (s1, e1)] => fun y x =>
        if s0 ≤ (y : Int) ∧ (y : Int) < e0 ∧ s1 ≤ (x : Int) ∧ (x : Int) < e1 then b (y - s0.toNat) (x - s1.toNat) else a y x
    | _ => a
  getslice := fun a sl => match sl with
    | [(s0, _), (s1, _)] => fun y x => a (y + s0.toNat) (x + s1.toNat)
    | _ => a
  shape := fun _ => shape

/-- **`convolve.wavelet_center` (current source) = `C17.center`** on a 2-D image of shape `(N0, N1)`: when the model's
    `centerComputeI` gives sides `(M0, M1)` and offsets `(d0, d1)` the translated body returns the model's embedding
    (`f` behind its offsets, `cval` elsewhere: `np.zeros`, `+= cval` — `0 + cval = cval` is `h0` —, the slice store), and when
    it gives nothing (a guard, or no admissible step) the body raises. -/
theorem pybody_convolve_wavelet_center_eq_model {α : Type} [Zero α] [Add α] (N0 N1 : Nat) (border : Int) (cval : α)
    (h0 : (0 : α) + cval = cval) (f : Im α) :
    (centerComputeI [(N0 : Int), (N1 : Int)] border = none →
      convolve_wavelet_center (c17Prims [(N0 : Int), (N1 : Int)]) f border () cval = none) ∧
    (∀ M0 M1 d0 d1, centerComputeI [(N0 : Int), (N1 : Int)] border = some ([M0, M1], [d0, d1]) →
      convolve_wavelet_center (c17Prims [(N0 : Int), (N1 : Int)]) f border () cval = some (center N0 N1 d0 d1 cval f)) := by
  have hc := pybody_convolve__wavelet_center_compute_eq_model
    ({ floor_log2 := fun o => (Nat.log2 o.toNat : Int), center_compute := fun _ _ => none, zeros := fun _ _ _ _ => 0,
       add_scalar := fun a _ => a, setslice := fun a _ _ => a, getslice := fun a _ => a,
       shape := fun _ => [(N0 : Int), (N1 : Int)] } : WavePrims α (Im α) Unit) (fun _ _ => rfl) [(N0 : Int), (N1 : Int)] border
  constructor
  · intro h
    simp only [convolve_wavelet_center, hc, h, Option.map_none]
  · intro M0 M1 d0 d1 h
    simp only [convolve_wavelet_center, hc, h, Option.map_some, pyCenterResult, List.map_cons, List.map_nil,
      List.zip_cons_cons, List.zip_nil_right]
    congr 1
    funext y x
    simp only [center, h0]
    have e0 : Int.ofNat d0 = (d0 : Int) := rfl
    have e1 : Int.ofNat d1 = (d1 : Int) := rfl
    by_cases hin : d0 ≤ y ∧ y < d0 + N0 ∧ d1 ≤ x ∧ x < d1 + N1
    · rw [if_pos hin, if_pos (by omega)]; rfl
    · rw [if_neg hin, if_neg (by omega)]

/-- **`convolve.wavelet_decenter` (current source) = `C17.decenter`**: the slice at the offsets `centerComputeI` gives for
    `oshape = (N0, N1)` (and a raise when it gives nothing) -/
theorem pybody_convolve_wavelet_decenter_eq_model {α : Type} [Zero α] [Add α] (N0 N1 : Nat) (border : Int) (w : Im α) :
    (centerComputeI [(N0 : Int), (N1 : Int)] border = none →
      convolve_wavelet_decenter (c17Prims (α := α) []) w [(N0 : Int), (N1 : Int)] border = none) ∧
    (∀ M0 M1 d0 d1, centerComputeI [(N0 : Int), (N1 : Int)] border = some ([M0, M1], [d0, d1]) →
      convolve_wavelet_decenter (c17Prims (α := α) []) w [(N0 : Int), (N1 : Int)] border = some (decenter d0 d1 w)) := by
  have hc := pybody_convolve__wavelet_center_compute_eq_model
    ({ floor_log2 := fun o => (Nat.log2 o.toNat : Int), center_compute := fun _ _ => none, zeros := fun _ _ _ _ => 0,
       add_scalar := fun a _ => a, setslice := fun a _ _ => a, getslice := fun a _ => a,
       shape := fun _ => [] } : WavePrims α (Im α) Unit) (fun _ _ => rfl) [(N0 : Int), (N1 : Int)] border
  constructor
  · intro h
    simp only [convolve_wavelet_decenter, hc, h, Option.map_none]
  · intro M0 M1 d0 d1 h
    simp only [convolve_wavelet_decenter, hc, h, Option.map_some, pyCenterResult, List.map_cons, List.map_nil,
      List.zip_cons_cons, List.zip_nil_right]
    rfl

/-- non-vacuity: a 5×3 image with a negative border is centred in 8×4 at offsets (1, 0); border 0 needs 16×8 at (5, 2); a
    non-positive side and a huge border raise; the translated body computes exactly that -/
example : centerComputeI [5, 3] (-1) = some ([8, 4], [1, 0]) ∧ centerComputeI [5, 3] 0 = some ([16, 8], [5, 2]) ∧
    centerComputeI [5, 0] 0 = none ∧ centerComputeI [5, 3] (2 ^ 40) = none := by decide

example : convolve__wavelet_center_compute (c17Prims (α := Int) []) [5, 3] 1 = some ([16, 8], [(5, 10), (2, 5)]) := by decide +kernel

end Mahotas
