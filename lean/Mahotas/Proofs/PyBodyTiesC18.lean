/-
Tie between the body of `resize.py: resize_to` (regenerated on every run into `Generated/PyBodiesC18.lean`) and
`C18.resizeTo`, the definition the driver runs for the kinds `resize_to` / `resize_to_dt`.
-/
import Mahotas.Generated.PyBodiesC18
import Mahotas.Model.C18

namespace Mahotas
open Mahotas.Generated.Py Mahotas.C18

section resize
variable {α : Type} [Add α] [Sub α] [Mul α] [Div α] [Neg α] [NatCast α] [IntCast α] [LT α] [DecidableLT α]

/-- the primitives of `resize_to` on the model's images: a destination array is its shape (and the dtype of the image it
    was made for), and `zoom(array, factors, order=order, out=out)` — defaults `mode='constant'`, `cval=0.0`,
    `prefilter=True` — is the model's `zoomGlue` of the prefiltered image onto the shape of `out`: with `out` given, `zoom`
    recomputes the factors from the two shapes and does not use the ones it is handed (`interpolate.py: zoom`;
    reviewed — the body of `zoom` itself is not translated). -/
abbrev c18Prims (fl : α → Int) (pre : Img α → Img α) : ResizePrims α (Img α) Unit (List Nat) where
  ndim := fun im => im.shape.length
  dtype := fun _ => ()
  shape := fun im => im.shape
  empty := fun sh _ => sh
  zoom_out := fun im _ order out => zoomGlue fl order .constant ((0 : Nat) : α) (pre im) out

/-- **`resize.resize_to` (current source) = `C18.resizeTo`**, for every image, requested size and order: the length guard
    (`none` = `ValueError`), the destination array of shape `nsize` that fixes the output shape, the order handed on, and
    the image handed on unchanged. -/
theorem pybody_resize_resize_to_eq_model (ofNat : Nat → α) (ofInt : Int → α) (flit : Nat → Nat → α) (fl : α → Int)
    (pre : Img α → Img α) (im : Img α) (nsize : List Nat) (order : Nat) :
    resize_resize_to ofNat ofInt flit (c18Prims fl pre) im nsize order = resizeTo fl pre order im nsize := by
  unfold resize_resize_to resizeTo
  by_cases h : nsize.length ≠ im.shape.length
  · simp [h]
  · simp [h]

end resize

/-- non-vacuity: a size of the wrong length raises; a size of the right length gives an image of exactly that shape -/
example : resize_resize_to (fun n => (n : Int)) id (fun m _ => m) (c18Prims (fun z => z) id) ⟨[2, 2], #[1, 2, 3, 4]⟩ [3] 1 = none ∧
    (resize_resize_to (fun n => (n : Int)) id (fun m _ => m) (c18Prims (fun z => z) id) ⟨[2, 2], #[1, 2, 3, 4]⟩ [3, 5] 1).map (·.shape)
      = some [3, 5] := by
  constructor
  · decide
  · rw [pybody_resize_resize_to_eq_model]; rfl

end Mahotas
