/-
Tie between the body of `resize.py: resize_to` (regenerated on every run into `Generated/PyBodiesC18.lean`) and
`C18.resizeTo`, the definition the driver runs for the kinds `resize_to` / `resize_to_dt`.
-/
import Mahotas.Generated.PyBodiesC18
import Mahotas.Model.C18

namespace Mahotas
open Mahotas.Generated.Py Mahotas.C18

section resize
variable {α : Type} [Add α] [Sub α] [Mul α] [Div α] [Neg α] [NatCast α] [IntCast α] [LT α] [DecidableLT α]

/-- the primitives of `resize_to` on the model's images: a destination array is its shape (and the dtype of the image it
    was made for), and `zoom(array, factors, order=order, out=out)` — defaults `mode='constant'`, `cval=0.0`,
    `prefilter=True` — is the model's `zoomGlue` of the prefiltered image onto the shape of `out`: with `out` given, `zoom`
    recomputes the factors from the two shapes and does not use the ones it is handed (`interpolate.py: zoom`;
    reviewed — the body of `zoom` itself is not translated). -/
abbrev c18Prims (fl : α → Int) (pre : Img α → Img α) : ResizePrims α (Img α) Unit (List Nat) where
  ndim := fun im => im.shape.length
  dtype := fun _ => ()
  shape := fun im => im.shape
  empty := fun sh _ => sh
  zoom_out := fun im _ order out => zoomGlue fl order .constant ((0 : Nat) : α) (pre im) out

/-- **`resize.resize_to` (current source) = `C18.resizeTo`**, for every image, requested size and order: the length guard
    (`none` = `ValueError`), the destination array of shape `nsize` that fixes the output shape, the order handed on, and
    the image handed on unchanged. -/
theorem pybody_resize_resize_to_eq_model (ofNat : Nat → α) (ofInt : Int → α) (flit : Nat → Nat → α) (fl : α → Int)
    (pre : Img α → Img α) (im : Img α) (nsize : List Nat) (order : Nat) :
    resize_resize_to ofNat ofInt flit (c18Prims fl pre) im nsize order = resizeTo fl pre order im nsize := by
  unfold resize_resize_to resizeTo
  by_cases h : nsize.length ≠ im.shape.length
  · simp [h]
  · simp [h]

/-- the `nsize` argument of `imresize` as Python sees it: a tuple / list whose first entry is an `int` (a requested shape), or a
    zoom factor (a float, or a sequence of floats) -/
inductive PySize (α : Type) where
  | ints (l : List Nat)
  | factor (scalar : Bool) (zs : List α)

/-- the primitives of `imresize`: `zoom(img, factors, order=order, out=out)` (defaults `mode='constant'`, `cval=0.0`) raises
    when `out` has another rank than the image and is the model's `zoomGlue` onto `out.shape` otherwise (the factors handed
    are not used once `out` is given); `zoom(img, nsize, order=order)` is `C18.zoomByFactor` (`zoomOutShape` + `zoomGlue`);
    an integer sequence handed to the factor path is read as float factors. -/
abbrev c18ImresizePrims (fl : α → Int) (pre : Img α → Img α) : ImresizePrims α (Img α) (PySize α) (List Nat) Unit where
  is_tuple := fun s => match s with | .ints _ => true | .factor sc _ => !sc
  is_list := fun _ => false
  first_is_int := fun s => match s with | .ints _ => true | .factor _ _ => false
  float64 := ()
  empty := fun s _ => match s with | .ints l => l | .factor _ _ => []
  as_floats := fun s => match s with | .ints l => l.map fun (n : Nat) => (n : α) | .factor _ zs => zs
  shape := fun im => im.shape
  zoom_out := fun im _ order out =>
    if out.length ≠ im.shape.length then none else some (zoomGlue fl order .constant ((0 : Nat) : α) (pre im) out)
  zoom_factor := fun im s order => match s with
    | .factor sc zs => zoomByFactor fl pre order .constant ((0 : Nat) : α) im sc zs
    | .ints l => zoomByFactor fl pre order .constant ((0 : Nat) : α) im false (l.map fun (n : Nat) => (n : α))

/-- **`resize.imresize` (current source)**: a tuple / list whose first entry is an `int` takes the shape path —
    `C18.imresizeInt` (the requested shape is passed as `out`) —, everything else the factor path — `C18.imresizeFactor` -/
theorem pybody_resize_imresize_eq_model (ofNat : Nat → α) (ofInt : Int → α) (flit : Nat → Nat → α) (fl : α → Int)
    (pre : Img α → Img α) (img : Img α) (order : Nat) :
    (∀ l : List Nat, resize_imresize ofNat ofInt flit (c18ImresizePrims fl pre) img (.ints l) order = imresizeInt fl pre order img l) ∧
    (∀ (sc : Bool) (zs : List α),
      resize_imresize ofNat ofInt flit (c18ImresizePrims fl pre) img (.factor sc zs) order = imresizeFactor fl pre order img sc zs) := by
  constructor
  · intro l
    simp only [resize_imresize, imresizeInt]
    rfl
  · intro sc zs
    cases sc <;> simp [resize_imresize, imresizeFactor]

end resize

/-- non-vacuity: a size of the wrong length raises; a size of the right length gives an image of exactly that shape -/
example : resize_resize_to (fun n => (n : Int)) id (fun m _ => m) (c18Prims (fun z => z) id) ⟨[2, 2], #[1, 2, 3, 4]⟩ [3] 1 = none ∧
    (resize_resize_to (fun n => (n : Int)) id (fun m _ => m) (c18Prims (fun z => z) id) ⟨[2, 2], #[1, 2, 3, 4]⟩ [3, 5] 1).map (·.shape)
      = some [3, 5] := by
  constructor
  · decide
  · rw [pybody_resize_resize_to_eq_model]; rfl

end Mahotas
