/-
Tie between the reviewed slice of `interpolate.py: zoom` that computes the output shape from a zoom factor (path `out is None`,
up to `output_shape = tuple([int(s * z) for s, z in zip(array.shape, zoom)])`; regenerated on every run into
`Generated/PyBodiesC18.lean` as `interpolate_zoom_output_shape`) and `C18.zoomFactors` / `C18.zoomOutLen` / `C18.zoomOutShape`
(`Model/C18Shape.lean`), the definitions the driver runs for the kinds `zoom_shape` / `imresize_factor`.
-/
import Mahotas.Generated.PyBodiesC18
import Mahotas.Model.C18

namespace Mahotas
open Mahotas.Generated.Py Mahotas.C18

section zoomshape
variable {α : Type} [Add α] [Sub α] [Mul α] [Div α] [Neg α] [NatCast α] [LT α] [DecidableLT α]
set_option linter.unusedSectionVars false

/-- the primitives of the slice: the zoom argument is (is it a scalar, its entries) as in the model; `np.array(zoom)` keeps it,
    `.ndim` is 0 for a scalar and 1 for a sequence, `np.array([zoom] * n)` repeats the scalar, `int(x)` is truncation toward
    zero (`C18.truncI`), `_maybe_filter` keeps the shape (the slice only reads `array.ndim` / `array.shape` afterwards) -/
abbrev c18ZoomPrims (fl : α → Int) : ZoomPrims α (Img α) (Bool × List α) where
  maybe_filter := fun im _ _ => im
  as_array := fun z => z
  zndim := fun z => if z.1 then 0 else 1
  ndim := fun im => im.shape.length
  shape := fun im => im.shape
  replicate := fun z n => (false, match z.2 with | v :: _ => List.replicate n v | [] => [])
  zlen := fun z => z.2.length
  elems := fun z => z.2
  trunc := truncI fl

theorem pybody_map_zip_zoomOutLen (fl : α → Int) : ∀ (shape : List Nat) (zs : List α),
    List.map (fun zz : Nat × α => truncI fl ((zz.1 : α) * zz.2)) (List.zip shape zs) = List.zipWith (zoomOutLen fl) shape zs
  | [], _ => by simp
  | _ :: _, [] => by simp
  | s :: ss, z :: zs => by simp [zoomOutLen, pybody_map_zip_zoomOutLen fl ss zs]

/-- **the output-shape slice of `interpolate.zoom` (current source)**: with the factors broadcast by `C18.zoomFactors`, a
    length mismatch raises and otherwise the shape is `C18.zoomOutLen fl s z = int(s * z)` per axis -/
theorem pybody_interpolate_zoom_output_shape_eq_model (ofInt : Int → α) (flit : Nat → Nat → α) (fl : α → Int)
    (im : Img α) (scalar : Bool) (zs : List α) (order : Nat) (prefilter : Bool) :
    interpolate_zoom_output_shape (fun n => (n : α)) ofInt flit (c18ZoomPrims fl) im (scalar, zs) order prefilter =
      if (zoomFactors im.shape.length scalar zs).length ≠ im.shape.length then none
      else some (List.zipWith (zoomOutLen fl) im.shape (zoomFactors im.shape.length scalar zs)) := by
  unfold interpolate_zoom_output_shape zoomFactors
  cases scalar <;> cases zs <;> simp [pybody_map_zip_zoomOutLen]

/-- `C18.zoomOutShape` (the model the driver runs: length check, `int(s * z)` per axis, `np.empty` refusing a negative entry)
    in terms of the per-axis lengths -/
theorem pybody_zoomOutShape_eq (fl : α → Int) : ∀ (shape : List Nat) (zs : List α),
    zoomOutShape fl shape zs =
      if zs.length ≠ shape.length then none
      else if (List.zipWith (zoomOutLen fl) shape zs).all (fun t => decide (0 ≤ t))
        then some ((List.zipWith (zoomOutLen fl) shape zs).map Int.toNat) else none
  | [], [] => by simp [zoomOutShape]
  | [], _ :: _ => by simp [zoomOutShape]
  | _ :: _, [] => by simp [zoomOutShape]
  | s :: ss, z :: zs => by
    rw [zoomOutShape, pybody_zoomOutShape_eq fl ss zs]
    by_cases hl : zs.length = ss.length
    · by_cases ht : zoomOutLen fl s z < 0
      · have : ¬ (0 ≤ zoomOutLen fl s z) := by omega
        simp [hl, ht, this]
      · have h0 : 0 ≤ zoomOutLen fl s z := by omega
        by_cases hall : (List.zipWith (zoomOutLen fl) ss zs).all (fun t => decide (0 ≤ t)) = true
        · simp [hl, ht, h0, hall]
        · simp [hl, ht, h0, hall]
    · by_cases ht : zoomOutLen fl s z < 0 <;> simp [hl, ht]

/-- … so: `zoom(array, factor)` without `out` gets the shape `C18.zoomOutShape` says — the translated slice followed by
    `np.empty(output_shape)` (which raises on a negative entry) -/
theorem pybody_interpolate_zoom_output_shape_zoomOutShape (ofInt : Int → α) (flit : Nat → Nat → α) (fl : α → Int)
    (im : Img α) (scalar : Bool) (zs : List α) (order : Nat) (prefilter : Bool) :
    (interpolate_zoom_output_shape (fun n => (n : α)) ofInt flit (c18ZoomPrims fl) im (scalar, zs) order prefilter).bind
        (fun l => if l.all (fun t => decide (0 ≤ t)) then some (l.map Int.toNat) else none)
      = zoomOutShape fl im.shape (zoomFactors im.shape.length scalar zs) := by
  rw [pybody_interpolate_zoom_output_shape_eq_model, pybody_zoomOutShape_eq]
  by_cases h : (zoomFactors im.shape.length scalar zs).length ≠ im.shape.length
  · simp [h]
  · rw [if_neg h, if_neg h]; rfl

end zoomshape

/-- non-vacuity (integers, `fl = id`): a scalar factor is broadcast, a sequence of the wrong length raises, a negative factor
    gives a negative length that `np.empty` then refuses -/
example : interpolate_zoom_output_shape (fun n => (n : Int)) id (fun m _ => m) (c18ZoomPrims (fun z => z)) ⟨[3, 4], #[]⟩ (true, [2]) 3 true
      = some [6, 8] ∧
    interpolate_zoom_output_shape (fun n => (n : Int)) id (fun m _ => m) (c18ZoomPrims (fun z => z)) ⟨[3, 4], #[]⟩ (false, [2]) 3 true = none ∧
    interpolate_zoom_output_shape (fun n => (n : Int)) id (fun m _ => m) (c18ZoomPrims (fun z => z)) ⟨[3, 4], #[]⟩ (false, [2, -1]) 3 true
      = some [6, -4] ∧
    zoomOutShape (fun z : Int => z) [3, 4] [2, -1] = none := by decide

end Mahotas
