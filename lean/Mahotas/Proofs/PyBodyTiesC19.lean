/-
Tie between the body of `features/moments.py: moments` (regenerated on every run into `Generated/PyBodiesC19.lean`) and
`C19.moments`, the definition the driver runs for the kind `moments`.
-/
import Mahotas.Generated.PyBodiesC19
import Mahotas.Model.C19

namespace Mahotas
open Mahotas.Generated.Py Mahotas.C19

section moments
variable {K : Type} [Add K] [Sub K] [Mul K] [Div K] [OfNat K 0] [OfNat K 1]

/-- dot product of two lists (the shorter one decides) -/
def pyDot : List K → List K → K
  | x :: xs, y :: ys => x * y + pyDot xs ys
  | _, _ => 0

/-- the primitives of `moments` on a list of rows: `r, c = img.shape` (the row length is that of the first row),
    `np.dot(img, p)` = one dot product per row, `np.dot(u, v)` = the dot product -/
abbrev c19MomentPrims : MomentPrims K where
  shape_rows := fun m => m.length
  shape_cols := fun m => (m.headD []).length
  dot_mv := fun m p => m.map fun r => pyDot r p
  dot_vv := pyDot

omit [Add K] [Sub K] [Div K] [OfNat K 0] in
theorem pybody_pyPowN_eq (x : K) : ∀ n, pyPowN (1 : K) x n = powN x n
  | 0 => rfl
  | n + 1 => by simp [pyPowN, powN, pybody_pyPowN_eq x n]

omit [Sub K] [Div K] [OfNat K 1] in
/-- a dot product with the tabulated weights `f k, f (k+1), …` is the model's `dotFrom f k` -/
theorem pybody_pyDot_range (f : Nat → K) : ∀ (r : List K) (k n : Nat), r.length ≤ n →
    pyDot r ((List.range' k n).map f) = dotFrom f k r
  | [], _, _, _ => by cases h : (List.range' _ _).map f <;> simp [pyDot, dotFrom]
  | x :: xs, k, 0, h => by simp at h
  | x :: xs, k, n + 1, h => by
    have := pybody_pyDot_range f xs (k + 1) n (by simpa using h)
    simp [List.range'_succ, pyDot, dotFrom, this]

/-- **`features.moments.moments` (current source) = `C19.moments`** for a rectangular image, a given centre `cm = (c0, c1)`
    and no normalisation: `np.dot(np.dot(img, (arange(c) − c1)**p1), (arange(r) − c0)**p0)` — which of `cm[0]` / `cm[1]`,
    `p0` / `p1` goes with rows / columns, the subtraction before the power, columns first. (`x ** n` is read as the repeated
    product, like the model's `powN`; the embedding sends 1 to 1.) -/
theorem pybody_features_moments_moments_eq_model (cast : Nat → K) (ofInt : Int → K) (flit : Nat → Nat → K)
    (h1 : cast 1 = 1) (rows : List (List K)) (hrect : ∀ row ∈ rows, row.length = (rows.headD []).length)
    (p0 p1 : Nat) (c0 c1 : K) (ctf : Bool) :
    features_moments_moments cast ofInt flit c19MomentPrims rows p0 p1 (some (c0, c1)) ctf false false
      = moments cast rows p0 p1 c0 c1 := by
  simp only [features_moments_moments, moments, Bool.false_eq_true, if_false, List.map_map, h1]
  have hrow : ∀ row ∈ rows, pyDot row (List.map ((fun t => pyPowN (1 : K) t p1) ∘ (fun t => t - c1) ∘ cast) (List.range (rows.headD []).length))
      = dotFrom (fun j => powN (cast j - c1) p1) 0 row := by
    intro row hr
    rw [List.range_eq_range', pybody_pyDot_range _ row 0 _ (Nat.le_of_eq (hrect row hr))]
    congr 1
    funext j
    simp [pybody_pyPowN_eq]
  rw [List.map_congr_left hrow, List.range_eq_range', pybody_pyDot_range _ _ 0 _ (by simp)]
  congr 1
  funext j
  simp [pybody_pyPowN_eq]

end moments

/-- non-vacuity (integers): `Σ img[i][j]·i·j` of `[[1,2],[3,4]]` is 4, about the centre (1, 0) with powers (1, 0) it is
    `−(1+2) + 0·(3+4) = −3`; `normalise=True` switches the normalisation on (the weights `[0, 1]` are divided by their sum 1),
    and without a centre nothing is subtracted -/
example : features_moments_moments (fun n => (n : Int)) id (fun m _ => m) c19MomentPrims [[1, 2], [3, 4]] 1 1 (some (0, 0)) true false false = 4 ∧
    features_moments_moments (fun n => (n : Int)) id (fun m _ => m) c19MomentPrims [[1, 2], [3, 4]] 1 0 (some (1, 0)) true false false = -3 ∧
    features_moments_moments (fun n => (n : Int)) id (fun m _ => m) c19MomentPrims [[1, 2], [3, 4]] 1 1 none true false true = 4 ∧
    moments (fun n => (n : Int)) [[1, 2], [3, 4]] 1 0 1 0 = -3 := by decide
end Mahotas
