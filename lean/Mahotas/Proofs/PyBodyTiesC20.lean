/-
Tie between the body of `stretch.py: stretch` (regenerated on every run into `Generated/PyBodies.lean`) and the affine map
`C20.stretchCore` / cap `C20.capHi` that `C20.stretchList` (the driver's model) applies to every element.
-/
import Mahotas.Generated.PyBodiesC20
import Mahotas.Model.C20
import Mathlib.Algebra.Order.Field.Basic
import Mathlib.Tactic.Linarith
import Mathlib.Tactic.Ring

namespace Mahotas
open Mahotas.Generated.Py Mahotas.C20

/-- the requested range `(min, max)` of `stretch(img, arg0, arg1)`: `(0, 255)`, `(0, arg0)` or `(arg0, arg1)` -/
def stretchRange {K : Type} (ofNat : Nat → K) : Option K → Option K → K × K
  | none, _ => (ofNat 0, ofNat 255)
  | some a, none => (ofNat 0, a)
  | some a, some b => (a, b)

/-- `stretch.stretch` (current source), pointwise at `p`, before the final cast, over every linearly ordered field:
    with `mn = img.min()` and `ptp = np.ptp(img - mn)` (any values with `0 ≤ ptp`, as a peak-to-peak always is), the
    result is what `C20.stretchList` computes for that element — `lo` for a constant image, otherwise
    `capHi lo hi (stretchCore mn ptp lo hi x)` — with `(lo, hi)` the range resolved from the optional arguments.
    `astype` keeps values (`hast`: the float conversion and the final cast are modelled separately, `truncF`), `np.zeros` is 0.
    Fixes the default-argument cascade, the order subtract-min / scale / add-min / cap, the scale factor
    `(max − min)/ptp`, the `if min:` shortcuts and the cap `np.minimum(img, max)` under `max >= min`. -/
theorem pybody_stretch_stretch_eq_model {K X D Sh : Type} [Field K] [LinearOrder K] [IsStrictOrderedRing K]
    (ofInt : Int → K) (flit : Nat → Nat → K) (P : StretchPrims K X D Sh)
    (hast : ∀ g d, P.astype g d = g) (hz : ∀ sh d q, P.zeros sh d q = 0)
    (img : X → K) (arg0 arg1 : Option K) (dtype : D) (p : X)
    (hptp : 0 ≤ P.ptp (fun q => img q - P.min_of img)) :
    stretch_stretch (fun n => (n : K)) ofInt flit P img arg0 arg1 dtype p =
      (let lo := (stretchRange (fun n => (n : K)) arg0 arg1).1
       let hi := (stretchRange (fun n => (n : K)) arg0 arg1).2
       let mn := P.min_of img
       let ptp := P.ptp (fun q => img q - mn)
       if 0 < ptp then capHi lo hi (stretchCore mn ptp lo hi (img p)) else lo) := by
  generalize hm : P.min_of img = mn at hptp ⊢
  generalize ht' : P.ptp (fun q => img q - mn) = t at hptp
  have hcases : t = 0 ∨ 0 < t := (eq_or_lt_of_le hptp).imp Eq.symm id
  cases arg0 with
  | none =>
    simp only [stretch_stretch, stretchRange, hast, hm, ht', capHi, stretchCore]
    rcases hcases with h0 | hpos
    · subst h0; simp [hz]
    · have hne : t ≠ 0 := ne_of_gt hpos
      simp [hne, hpos]
  | some a =>
    cases arg1 with
    | none =>
      simp only [stretch_stretch, stretchRange, hast, hm, ht', capHi, stretchCore]
      rcases hcases with h0 | hpos
      · subst h0; simp [hz]
      · have hne : t ≠ 0 := ne_of_gt hpos
        by_cases hh : (0 : K) ≤ a
        · simp [hne, hpos, hh, not_lt.mpr hh]
        · simp [hne, hpos, hh, not_le.mp hh]
    | some b =>
      simp only [stretch_stretch, stretchRange, hast, hm, ht', capHi, stretchCore]
      rcases hcases with h0 | hpos
      · subst h0
        by_cases hl : a = 0 <;> simp [hz, hl]
      · have hne : t ≠ 0 := ne_of_gt hpos
        by_cases hl : a = 0
        · subst hl
          by_cases hh : (0 : K) ≤ b
          · simp [hne, hpos, hh, not_lt.mpr hh]
          · simp [hne, hpos, hh, not_le.mp hh]
        · by_cases hh : a ≤ b
          · simp [hne, hpos, hl, hh, not_lt.mpr hh]
          · simp [hne, hpos, hl, hh, not_le.mp hh]

section list
variable {K : Type} [Field K] [LinearOrder K] [IsStrictOrderedRing K]

omit [Field K] [IsStrictOrderedRing K] in
theorem pybody_minL_le (m : K) : ∀ xs : List K, minL m xs ≤ m
  | [] => le_refl _
  | x :: xs => by
    simp only [minL]
    split
    · exact le_trans (pybody_minL_le x xs) (le_of_lt ‹x < m›)
    · exact pybody_minL_le m xs

omit [Field K] [IsStrictOrderedRing K] in
theorem pybody_le_maxL (m : K) : ∀ xs : List K, m ≤ maxL m xs
  | [] => le_refl _
  | x :: xs => by
    simp only [maxL]
    split
    · exact le_trans (le_of_lt ‹m < x›) (pybody_le_maxL x xs)
    · exact pybody_le_maxL m xs

/-- … and on a whole (non-empty) image given as the list of its pixels, with `img.min()` / `np.ptp` instantiated by the
    model's `minL` / `maxL` folds: the translated body, mapped over the pixels, IS `C20.stretchList` — the definition the
    driver runs (before the final cast). -/
theorem pybody_stretch_stretch_eq_stretchList {D Sh : Type} (ofInt : Int → K) (flit : Nat → Nat → K)
    (x0 : K) (rest : List K) (arg0 arg1 : Option K) (dtype dbl : D) (sh : Sh) :
    (x0 :: rest).map (stretch_stretch (fun n => (n : K)) ofInt flit
        ({ astype := fun g _ => g, double := dbl, min_of := fun _ => minL x0 rest,
           ptp := fun _ => maxL (x0 - minL x0 rest) (rest.map (· - minL x0 rest)),
           shape := fun _ => sh, zeros := fun _ _ _ => 0 } : StretchPrims K K D Sh)
        (fun x => x) arg0 arg1 dtype)
      = stretchList (x0 :: rest) (stretchRange (fun n => (n : K)) arg0 arg1).1 (stretchRange (fun n => (n : K)) arg0 arg1).2 := by
  have hptp : 0 ≤ maxL (x0 - minL x0 rest) (rest.map (· - minL x0 rest)) :=
    le_trans (sub_nonneg.mpr (pybody_minL_le x0 rest)) (pybody_le_maxL _ _)
  have h := fun x => pybody_stretch_stretch_eq_model ofInt flit
    ({ astype := fun g _ => g, double := dbl, min_of := fun _ => minL x0 rest,
       ptp := fun _ => maxL (x0 - minL x0 rest) (rest.map (· - minL x0 rest)),
       shape := fun _ => sh, zeros := fun _ _ _ => 0 } : StretchPrims K K D Sh)
    (fun _ _ => rfl) (fun _ _ _ => rfl) (fun x => x) arg0 arg1 dtype x hptp
  rw [funext h]
  simp only [stretchList]
  split
  · rfl
  · simp

end list

section colors
variable {K X D : Type} [Add K] [Sub K] [Mul K] [Div K] [Neg K] [LT K] [DecidableLT K] [LE K] [DecidableLE K]

/-- the matrix literal of `rgb2xyz` as written in the source (decimal literals through `flit mantissa decimals`) -/
def pyRgb2xyzM (flit : Nat → Nat → K) : List (List K) :=
  [[flit 4124 4, flit 3576 4, flit 1805 4], [flit 2126 4, flit 7152 4, flit 722 4], [flit 193 4, flit 1192 4, flit 9505 4]]

/-- the matrix literal of `xyz2rgb` -/
def pyXyz2rgbM (flit : Nat → Nat → K) : List (List K) :=
  [[flit 32406 4, -(flit 15372 4), -(flit 4986 4)], [-(flit 9689 4), flit 18758 4, flit 415 4],
   [flit 557 4, -(flit 204 3), flit 1057 3]]

/-- `colors.rgb2xyz` (current source) = `_convert` of the channel values decoded by the model's `srgbToLinearG`
    (`x = c/255`, `((x + 0.055)/(1 + 0.055))^2.4` above the knee `0.04045`, `x/12.92` at or below it — `lowBelow = true`),
    with the source's matrix: decoding first, matrix second. Every scalar type, power function, `_convert`, image. -/
theorem pybody_colors_rgb2xyz_eq_model (ofNat : Nat → K) (ofInt : Int → K) (flit : Nat → Nat → K) (P : ColorPrims K X D)
    (rgb : X → K) (dtype : D) :
    colors_rgb2xyz ofNat ofInt flit P rgb dtype =
      P.convert (fun p => srgbToLinearG P.pow (ofNat 1) (ofNat 255) (flit 55 3) (flit 24 1) (flit 1292 2) (flit 4045 5) true (rgb p))
        (pyRgb2xyzM flit) dtype := by
  simp only [colors_rgb2xyz, srgbToLinearG, pyRgb2xyzM, decide_eq_true_eq, if_true]

/-- `colors.xyz2rgb` (current source) = the model's `linearToSrgbG` (`(1 + 0.055)·v^(1/2.4) − 0.055` above the knee
    `0.0031308`, `12.92·v` at or below it, times 255) applied to `_convert` of the input with the source's matrix:
    matrix first, encoding second. -/
theorem pybody_colors_xyz2rgb_eq_model (ofNat : Nat → K) (ofInt : Int → K) (flit : Nat → Nat → K) (P : ColorPrims K X D)
    (xyz : X → K) (dtype : D) :
    colors_xyz2rgb ofNat ofInt flit P xyz dtype =
      fun p => linearToSrgbG P.pow (ofNat 1) (flit 24 1) (flit 55 3) (flit 1292 2) (flit 31308 7) (ofNat 255) true
        (P.convert xyz (pyXyz2rgbM flit) dtype p) := by
  simp only [colors_xyz2rgb, linearToSrgbG, pyXyz2rgbM, decide_eq_true_eq, if_true]

/-- `_convert` on an image whose positions are (pixel, channel): the 3×3 matrix times the channel vector of the pixel -/
def pixConvert {Px : Type} [OfNat K 0] (g : Px × Nat → K) (m : List (List K)) (_ : D) : Px × Nat → K :=
  fun pc => (matVec m [g (pc.1, 0), g (pc.1, 1), g (pc.1, 2)]).getD pc.2 0

/-- … so that, pixel by pixel, the translated `rgb2xyz` IS the model's `rgb2xyzG` (matrix of the source, transfer `srgbToLinearG`) -/
theorem pybody_colors_rgb2xyz_pixel {Px : Type} [OfNat K 0] (ofNat : Nat → K) (ofInt : Int → K) (flit : Nat → Nat → K)
    (pow : K → K → K) (rgb : Px × Nat → K) (dtype : D) (px : Px) :
    [0, 1, 2].map (fun ch => colors_rgb2xyz ofNat ofInt flit ({ pow := pow, convert := pixConvert } : ColorPrims K (Px × Nat) D)
        rgb dtype (px, ch)) =
      rgb2xyzG (pyRgb2xyzM flit)
        (srgbToLinearG pow (ofNat 1) (ofNat 255) (flit 55 3) (flit 24 1) (flit 1292 2) (flit 4045 5) true)
        [rgb (px, 0), rgb (px, 1), rgb (px, 2)] := by
  rw [pybody_colors_rgb2xyz_eq_model]
  simp [pixConvert, rgb2xyzG, matVec, pyRgb2xyzM]

/-- … and the translated `xyz2rgb` IS the model's `xyz2rgbG` (matrix of the source, encoding `linearToSrgbG`) -/
theorem pybody_colors_xyz2rgb_pixel {Px : Type} [OfNat K 0] (ofNat : Nat → K) (ofInt : Int → K) (flit : Nat → Nat → K)
    (pow : K → K → K) (xyz : Px × Nat → K) (dtype : D) (px : Px) :
    [0, 1, 2].map (fun ch => colors_xyz2rgb ofNat ofInt flit ({ pow := pow, convert := pixConvert } : ColorPrims K (Px × Nat) D)
        xyz dtype (px, ch)) =
      xyz2rgbG (pyXyz2rgbM flit)
        (linearToSrgbG pow (ofNat 1) (flit 24 1) (flit 55 3) (flit 1292 2) (flit 31308 7) (ofNat 255) true)
        [xyz (px, 0), xyz (px, 1), xyz (px, 2)] := by
  rw [pybody_colors_xyz2rgb_eq_model]
  simp [pixConvert, xyz2rgbG, matVec, pyXyz2rgbM]

end colors

/-- non-vacuity (integers, a toy power): the decoding takes the linear segment at the knee and the power segment above it -/
example : srgbToLinearG (α := Int) (fun a _ => a + 100) 1 255 0 2 5 0 true 0 = 0 ∧
    srgbToLinearG (α := Int) (fun a _ => a + 100) 1 255 0 2 5 0 true 255 = 101 := by decide

/-- non-vacuity: the three argument forms give three different ranges, and the affine map with the cap does something
    (integers, `ptp = 4`: `6 ↦ (6 − 2)·(255/4) = 252`, and a value carried above `hi` is capped) -/
example : stretchRange (fun n => (n : Int)) none none = (0, 255) ∧ stretchRange (fun n => (n : Int)) (some 3) none = (0, 3) ∧
    stretchRange (fun n => (n : Int)) (some 3) (some 9) = (3, 9) ∧
    capHi (0 : Int) 255 (stretchCore (2 : Int) 4 0 255 6) = 252 ∧ capHi (0 : Int) 200 (stretchCore (2 : Int) 4 0 255 6) = 200 := by
  decide

end Mahotas
