/-
Tie between the body of `stretch.py: stretch` (regenerated on every run into `Generated/PyBodies.lean`) and the affine map
`C20.stretchCore` / cap `C20.capHi` that `C20.stretchList` (the driver's model) applies to every element.
-/
import Mahotas.Generated.PyBodiesC20
import Mahotas.Model.C20
import Mathlib.Algebra.Order.Field.Basic
import Mathlib.Tactic.Linarith
import Mathlib.Tactic.Ring

namespace Mahotas
open Mahotas.Generated.Py Mahotas.C20

/-- the requested range `(min, max)` of `stretch(img, arg0, arg1)`: `(0, 255)`, `(0, arg0)` or `(arg0, arg1)` -/
def stretchRange {K : Type} (ofNat : Nat → K) : Option K → Option K → K × K
  | none, _ => (ofNat 0, ofNat 255)
  | some a, none => (ofNat 0, a)
  | some a, some b => (a, b)

/-- `stretch.stretch` (current source), pointwise at `p`, INCLUDING the casts, over every linearly ordered field:
    with `mn = img.min()` and `ptp = np.ptp(img - mn)` (any values with `0 ≤ ptp`, as a peak-to-peak always is), the
    result is the cast to the requested dtype of what `C20.stretchList` computes for that element — `lo` for a constant
    image, otherwise `capHi lo hi (stretchCore mn ptp lo hi x)` — with `(lo, hi)` the range resolved from the optional
    arguments. `cast d` is what `astype(d)` does to one value (`hast`; the identity for `np.double`, `hdbl`; `C20.castInt`
    in the driver's model); `np.zeros` is 0 (`hz`), the store `img[...] = min` into the fresh `np.zeros(shape, dtype)` array
    converts `min` like `astype` (`hfill` — the point of the repair 4e554a9), and `cast d 0 = 0` (`hc0`).
    Fixes the default-argument cascade, the order subtract-min / scale / add-min / cap / cast, the scale factor
    `(max − min)/ptp`, the `if min:` shortcuts, the cap `np.minimum(img, max)` under `max >= min`, and that the
    constant-image branch returns `dtype(min)` everywhere. -/
theorem pybody_stretch_stretch_eq_model {K X D Sh : Type} [Field K] [LinearOrder K] [IsStrictOrderedRing K]
    (ofInt : Int → K) (flit : Nat → Nat → K) (P : StretchPrims K X D Sh) (cast : D → K → K)
    (hast : ∀ g d q, P.astype g d q = cast d (g q)) (hdbl : ∀ x, cast P.double x = x)
    (hz : ∀ sh d q, P.zeros sh d q = 0)
    (img : X → K) (arg0 arg1 : Option K) (dtype : D)
    (hfill : ∀ sh v q, P.fill (P.zeros sh dtype) v q = cast dtype v) (hc0 : cast dtype 0 = 0) (p : X)
    (hptp : 0 ≤ P.ptp (fun q => img q - P.min_of img)) :
    stretch_stretch (fun n => (n : K)) ofInt flit P img arg0 arg1 dtype p =
      (let lo := (stretchRange (fun n => (n : K)) arg0 arg1).1
       let hi := (stretchRange (fun n => (n : K)) arg0 arg1).2
       let mn := P.min_of img
       let ptp := P.ptp (fun q => img q - mn)
       cast dtype (if 0 < ptp then capHi lo hi (stretchCore mn ptp lo hi (img p)) else lo)) := by
  have hA : P.astype img P.double = img := funext fun q => by rw [hast, hdbl]
  generalize hm : P.min_of img = mn at hptp ⊢
  generalize ht' : P.ptp (fun q => img q - mn) = t at hptp
  have hcases : t = 0 ∨ 0 < t := (eq_or_lt_of_le hptp).imp Eq.symm id
  cases arg0 with
  | none =>
    simp only [stretch_stretch, stretchRange, hA, hm, ht', capHi, stretchCore]
    rcases hcases with h0 | hpos
    · subst h0; simp [hz, hc0]
    · have hne : t ≠ 0 := ne_of_gt hpos
      have h255 : ¬ ((255 : K) < 0) := by norm_num
      simp [hne, hpos, hast, h255]
  | some a =>
    cases arg1 with
    | none =>
      simp only [stretch_stretch, stretchRange, hA, hm, ht', capHi, stretchCore]
      rcases hcases with h0 | hpos
      · subst h0; simp [hz, hc0]
      · have hne : t ≠ 0 := ne_of_gt hpos
        by_cases hh : (0 : K) ≤ a
        · simp [hne, hpos, hh, not_lt.mpr hh, hast]
        · simp [hne, hpos, hh, not_le.mp hh, hast]
    | some b =>
      simp only [stretch_stretch, stretchRange, hA, hm, ht', capHi, stretchCore]
      rcases hcases with h0 | hpos
      · subst h0
        by_cases hl : a = 0
        · subst hl; simp [hz, hc0]
        · simp [hfill, hl]
      · have hne : t ≠ 0 := ne_of_gt hpos
        by_cases hl : a = 0
        · subst hl
          by_cases hh : (0 : K) ≤ b
          · simp [hne, hpos, hh, not_lt.mpr hh, hast]
          · simp [hne, hpos, hh, not_le.mp hh, hast]
        · by_cases hh : a ≤ b
          · simp [hne, hpos, hl, hh, not_lt.mpr hh, hast]
          · simp [hne, hpos, hl, hh, not_le.mp hh, hast]

section list
variable {K : Type} [Field K] [LinearOrder K] [IsStrictOrderedRing K]

omit [Field K] [IsStrictOrderedRing K] in
theorem pybody_minL_le (m : K) : ∀ xs : List K, minL m xs ≤ m
  | [] => le_refl _
  | x :: xs => by
    simp only [minL]
    split
    · exact le_trans (pybody_minL_le x xs) (le_of_lt ‹x < m›)
    · exact pybody_minL_le m xs

omit [Field K] [IsStrictOrderedRing K] in
theorem pybody_le_maxL (m : K) : ∀ xs : List K, m ≤ maxL m xs
  | [] => le_refl _
  | x :: xs => by
    simp only [maxL]
    split
    · exact le_trans (le_of_lt ‹m < x›) (pybody_le_maxL x xs)
    · exact pybody_le_maxL m xs

/-- … and on a whole (non-empty) image given as the list of its pixels, with `img.min()` / `np.ptp` instantiated by the
    model's `minL` / `maxL` folds and `astype(d)` / `a[...] = v` by an elementwise `cast d`: the translated body, mapped over
    the pixels, IS `C20.stretchList` followed by the cast — the shape of `C20.stretchIntG`, the definition the driver runs
    (`cast dt = castInt trunc dt`), see `pybody_stretch_stretch_eq_stretchIntG`. -/
theorem pybody_stretch_stretch_eq_stretchList {D Sh : Type} (ofInt : Int → K) (flit : Nat → Nat → K)
    (cast : D → K → K) (dbl : D) (hdbl : ∀ x, cast dbl x = x)
    (x0 : K) (rest : List K) (arg0 arg1 : Option K) (dtype : D) (hc0 : cast dtype 0 = 0) (sh : Sh) :
    (x0 :: rest).map (stretch_stretch (fun n => (n : K)) ofInt flit
        ({ astype := fun g d q => cast d (g q), double := dbl, min_of := fun _ => minL x0 rest,
           ptp := fun _ => maxL (x0 - minL x0 rest) (rest.map (· - minL x0 rest)),
           shape := fun _ => sh, zeros := fun _ _ _ => 0, fill := fun _ v _ => cast dtype v } : StretchPrims K K D Sh)
        (fun x => x) arg0 arg1 dtype)
      = (stretchList (x0 :: rest) (stretchRange (fun n => (n : K)) arg0 arg1).1
          (stretchRange (fun n => (n : K)) arg0 arg1).2).map (cast dtype) := by
  have hptp : 0 ≤ maxL (x0 - minL x0 rest) (rest.map (· - minL x0 rest)) :=
    le_trans (sub_nonneg.mpr (pybody_minL_le x0 rest)) (pybody_le_maxL _ _)
  have h := fun x => pybody_stretch_stretch_eq_model ofInt flit
    ({ astype := fun g d q => cast d (g q), double := dbl, min_of := fun _ => minL x0 rest,
       ptp := fun _ => maxL (x0 - minL x0 rest) (rest.map (· - minL x0 rest)),
       shape := fun _ => sh, zeros := fun _ _ _ => 0, fill := fun _ v _ => cast dtype v } : StretchPrims K K D Sh)
    cast (fun _ _ _ => rfl) hdbl (fun _ _ _ => rfl) (fun x => x) arg0 arg1 dtype (fun _ _ _ => rfl) hc0 x hptp
  rw [funext h]
  simp only [stretchList]
  split
  · simp [List.map_map, Function.comp_def]
  · simp [List.map_map, Function.comp_def]

omit [LinearOrder K] [IsStrictOrderedRing K] in
/-- the optional Python integers of the call, embedded: `stretchRange` is the model's `decodeArgs` -/
theorem pybody_stretchRange_decodeArgs (arg0 arg1 : Option Int) :
    stretchRange (fun n => (n : K)) (arg0.map fun z => (z : K)) (arg1.map fun z => (z : K))
      = (((decodeArgs arg0 arg1).1 : K), ((decodeArgs arg0 arg1).2 : K)) := by
  cases arg0 <;> cases arg1 <;> simp [stretchRange, decodeArgs]

/-- `stretch(img, arg0, arg1, dtype)` for an integer / bool dtype, as the driver runs it: the translated body mapped over
    the pixels of a non-empty image = `C20.stretchIntG` (values embedded back into the scalars), for every C conversion
    `trunc` with `castInt trunc dt 0 = 0`. `none : Option DT` stands for `np.double`. -/
theorem pybody_stretch_stretch_eq_stretchIntG {Sh : Type} (ofInt : Int → K) (flit : Nat → Nat → K) (trunc : K → Int)
    (x0 : K) (rest : List K) (arg0 arg1 : Option Int) (dt : DT) (h0 : castInt trunc dt 0 = 0) (sh : Sh) :
    let cast : Option DT → K → K := fun d y => match d with | none => y | some d => ((castInt trunc d y : Int) : K)
    (x0 :: rest).map (stretch_stretch (fun n => (n : K)) ofInt flit
        ({ astype := fun g d q => cast d (g q), double := none, min_of := fun _ => minL x0 rest,
           ptp := fun _ => maxL (x0 - minL x0 rest) (rest.map (· - minL x0 rest)),
           shape := fun _ => sh, zeros := fun _ _ _ => 0, fill := fun _ v _ => cast (some dt) v }
          : StretchPrims K K (Option DT) Sh)
        (fun x => x) (arg0.map fun z => (z : K)) (arg1.map fun z => (z : K)) (some dt))
      = (stretchIntG (fun z => (z : K)) trunc dt (x0 :: rest) arg0 arg1).map (Int.cast : Int → K) := by
  intro cast
  have h := pybody_stretch_stretch_eq_stretchList ofInt flit cast none (fun _ => rfl) x0 rest
    (arg0.map fun z => (z : K)) (arg1.map fun z => (z : K)) (some dt) (by simp [cast, h0]) sh
  rw [h, pybody_stretchRange_decodeArgs]
  simp [stretchIntG, List.map_map, Function.comp_def, cast]

end list

section colors
variable {K X D : Type} [Add K] [Sub K] [Mul K] [Div K] [Neg K] [LT K] [DecidableLT K] [LE K] [DecidableLE K]

/-- the matrix literal of `rgb2xyz` as written in the source (decimal literals through `flit mantissa decimals`) -/
def pyRgb2xyzM (flit : Nat → Nat → K) : List (List K) :=
  [[flit 4124 4, flit 3576 4, flit 1805 4], [flit 2126 4, flit 7152 4, flit 722 4], [flit 193 4, flit 1192 4, flit 9505 4]]

/-- the matrix literal of `xyz2rgb` -/
def pyXyz2rgbM (flit : Nat → Nat → K) : List (List K) :=
  [[flit 32406 4, -(flit 15372 4), -(flit 4986 4)], [-(flit 9689 4), flit 18758 4, flit 415 4],
   [flit 557 4, -(flit 204 3), flit 1057 3]]

/-- `colors.rgb2xyz` (current source) = `_convert` (with the caller's optional `dtype`) of the channel values decoded by
    the model's `srgbToLinearG` (`x = c/255`, `((x + 0.055)/(1 + 0.055))^2.4` above the knee `0.04045`, `x/12.92` at or
    below it — `lowBelow = true`), with the source's matrix: decoding first, matrix second. Every scalar type, power
    function, `_convert`, image. -/
theorem pybody_colors_rgb2xyz_eq_model (ofNat : Nat → K) (ofInt : Int → K) (flit : Nat → Nat → K) (P : ColorPrims K X D)
    (rgb : X → K) (dtype : Option D) :
    colors_rgb2xyz ofNat ofInt flit P rgb dtype =
      P.convert (fun p => srgbToLinearG P.pow (ofNat 1) (ofNat 255) (flit 55 3) (flit 24 1) (flit 1292 2) (flit 4045 5) true (rgb p))
        (pyRgb2xyzM flit) dtype := by
  simp only [colors_rgb2xyz, srgbToLinearG, pyRgb2xyzM, decide_eq_true_eq, if_true]

/-- `colors.xyz2rgb` (current source, after the repair 13140a5) = the model's `linearToSrgbG` (`(1 + 0.055)·v^(1/2.4) − 0.055`
    above the knee `0.0031308`, `12.92·v` at or below it, times 255) applied to `_convert(xyz, M, None)` — the matrix is
    applied WITHOUT any cast of the linear intermediate — and only then `astype(dtype)` of the sRGB values when a dtype
    was requested: matrix first, encoding second, cast last. -/
theorem pybody_colors_xyz2rgb_eq_model (ofNat : Nat → K) (ofInt : Int → K) (flit : Nat → Nat → K) (P : ColorPrims K X D)
    (xyz : X → K) (dtype : Option D) :
    colors_xyz2rgb ofNat ofInt flit P xyz dtype =
      (let enc : X → K := fun p =>
          linearToSrgbG P.pow (ofNat 1) (flit 24 1) (flit 55 3) (flit 1292 2) (flit 31308 7) (ofNat 255) true
            (P.convert xyz (pyXyz2rgbM flit) none p)
       match dtype with
       | none => enc
       | some d => P.astype enc d) := by
  cases dtype <;> simp only [colors_xyz2rgb, linearToSrgbG, pyXyz2rgbM, decide_eq_true_eq, if_true]

/-- `_convert(·, m, None)` on an image whose positions are (pixel, channel): the 3×3 matrix times the channel vector of
    the pixel (a requested dtype would be an elementwise `cast` afterwards) -/
def pixConvert {Px : Type} [OfNat K 0] (cast : D → K → K) (g : Px × Nat → K) (m : List (List K)) (d : Option D) : Px × Nat → K :=
  fun pc =>
    let v := (matVec m [g (pc.1, 0), g (pc.1, 1), g (pc.1, 2)]).getD pc.2 0
    match d with
    | none => v
    | some d => cast d v

/-- … so that, pixel by pixel, the translated `rgb2xyz` (no dtype request) IS the model's `rgb2xyzG` (matrix of the source,
    transfer `srgbToLinearG`) -/
theorem pybody_colors_rgb2xyz_pixel {Px : Type} [OfNat K 0] (ofNat : Nat → K) (ofInt : Int → K) (flit : Nat → Nat → K)
    (pow : K → K → K) (cast : D → K → K) (rgb : Px × Nat → K) (px : Px) :
    [0, 1, 2].map (fun ch => colors_rgb2xyz ofNat ofInt flit
        ({ pow := pow, convert := pixConvert cast, astype := fun g d q => cast d (g q) } : ColorPrims K (Px × Nat) D)
        rgb none (px, ch)) =
      rgb2xyzG (pyRgb2xyzM flit)
        (srgbToLinearG pow (ofNat 1) (ofNat 255) (flit 55 3) (flit 24 1) (flit 1292 2) (flit 4045 5) true)
        [rgb (px, 0), rgb (px, 1), rgb (px, 2)] := by
  rw [pybody_colors_rgb2xyz_eq_model]
  simp [pixConvert, rgb2xyzG, matVec, pyRgb2xyzM]

/-- … and the translated `xyz2rgb` IS the model's `xyz2rgbG` (matrix of the source, encoding `linearToSrgbG`), followed by
    the elementwise cast when a dtype is requested — the cast acts on the sRGB values, as `C20.castOutInt` does in the
    driver's model of the repaired function -/
theorem pybody_colors_xyz2rgb_pixel {Px : Type} [OfNat K 0] (ofNat : Nat → K) (ofInt : Int → K) (flit : Nat → Nat → K)
    (pow : K → K → K) (cast : D → K → K) (xyz : Px × Nat → K) (dtype : Option D) (px : Px) :
    [0, 1, 2].map (fun ch => colors_xyz2rgb ofNat ofInt flit
        ({ pow := pow, convert := pixConvert cast, astype := fun g d q => cast d (g q) } : ColorPrims K (Px × Nat) D)
        xyz dtype (px, ch)) =
      (xyz2rgbG (pyXyz2rgbM flit)
        (linearToSrgbG pow (ofNat 1) (flit 24 1) (flit 55 3) (flit 1292 2) (flit 31308 7) (ofNat 255) true)
        [xyz (px, 0), xyz (px, 1), xyz (px, 2)]).map (fun y => match dtype with | none => y | some d => cast d y) := by
  rw [pybody_colors_xyz2rgb_eq_model]
  cases dtype <;> simp [pixConvert, xyz2rgbG, matVec, pyXyz2rgbM]

end colors

/-- non-vacuity (integers, a toy power): the decoding takes the linear segment at the knee and the power segment above it -/
example : srgbToLinearG (α := Int) (fun a _ => a + 100) 1 255 0 2 5 0 true 0 = 0 ∧
    srgbToLinearG (α := Int) (fun a _ => a + 100) 1 255 0 2 5 0 true 255 = 101 := by decide

/-- non-vacuity: the three argument forms give three different ranges, and the affine map with the cap does something
    (integers, `ptp = 4`: `6 ↦ (6 − 2)·(255/4) = 252`, and a value carried above `hi` is capped) -/
example : stretchRange (fun n => (n : Int)) none none = (0, 255) ∧ stretchRange (fun n => (n : Int)) (some 3) none = (0, 3) ∧
    stretchRange (fun n => (n : Int)) (some 3) (some 9) = (3, 9) ∧
    capHi (0 : Int) 255 (stretchCore (2 : Int) 4 0 255 6) = 252 ∧ capHi (0 : Int) 200 (stretchCore (2 : Int) 4 0 255 6) = 200 := by
  decide

end Mahotas
