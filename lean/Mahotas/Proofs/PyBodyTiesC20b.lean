/-
Ties between the bodies of `colors.py: rgb2grey, xyz2lab, rgb2lab, rgb2sepia` (regenerated on every run into
`Generated/PyBodiesC20.lean`, family `colors2`) and the polymorphic definitions of `Model/C20.lean` the driver instantiates at
`Float`: `C20.grey`, `C20.labFG` / `C20.xyz2labG`, `C20.rgb2xyzG`, `C20.matVec` (+ the clip of `C20.sepia`).
-/
import Mahotas.Proofs.PyBodyTiesC20

namespace Mahotas
open Mahotas.Generated.Py Mahotas.C20

/-- the translator writes a Python test as `decide c`, the models write `if c` -/
theorem ite_decide_eq {α : Type} (c : Prop) [Decidable c] (a b : α) :
    (if decide c = true then a else b) = if c then a else b := by
  by_cases h : c <;> simp [h]

section colors2
variable {K : Type} [Add K] [Sub K] [Mul K] [Div K] [Neg K] [LT K] [DecidableLT K] [LE K] [DecidableLE K]

/-- the small integer literals of `xyz2lab` (`1`, `3.0`, `4`, `6`, `29.0`, `16`, `116`, `200`, `500`), embedded -/
def pyLits (ofNat : Nat → K) : Lits K :=
  ⟨ofNat 1, ofNat 3, ofNat 4, ofNat 6, ofNat 29, ofNat 16, ofNat 116, ofNat 200, ofNat 500⟩

/-- the white point literal of `xyz2lab` -/
def pyWhite (ofNat : Nat → K) (flit : Nat → Nat → K) : List K := [flit 95047 5, ofNat 1, flit 108883 5]

/-- the weights literal of `rgb2grey` -/
def pyGreyW (flit : Nat → Nat → K) : List K := [flit 3 1, flit 59 2, flit 11 2]

/-- the matrix literal of `rgb2sepia` -/
def pySepiaM (flit : Nat → Nat → K) : List (List K) :=
  [[flit 393 3, flit 769 3, flit 189 3], [flit 349 3, flit 686 3, flit 168 3], [flit 272 3, flit 534 3, flit 131 3]]

/-- the primitives of the `colors2` family on images whose positions are (pixel, channel): `np.dot(a, w)` is the model's
    `C20.grey` of the pixel's three channel values, plane `i` of `a.transpose((2,0,1))` is channel `i`, `np.dstack` puts
    three planes side by side along the channel axis, `astype(d)` is the elementwise `cast d`; `_convert` (not used by the
    bodies tied below with these primitives), `rgb2xyz` / `xyz2lab` are parameters (instantiated
    by the generated bodies themselves in `pybody_colors_rgb2lab_pixel`). -/
abbrev pixPrims2 {Px D : Type} [OfNat K 0] (pow : K → K → K) (cast : D → K → K) (f32 u8 : D)
    (cv : (Px → K) → List (List K) → Option D → Px → K)
    (rgb2xyz : (Px × Nat → K) → (Px × Nat → K)) (xyz2lab : (Px × Nat → K) → Option D → (Px × Nat → K)) :
    Color2Prims K Px (Px × Nat → K) D where
  pow := pow
  convert := cv
  astype := fun g d q => cast d (g q)
  astype3 := fun a d q => cast d (a q)
  float32 := f32
  uint8 := u8
  dot3 := fun a w px => grey w (a (px, 0)) (a (px, 1)) (a (px, 2))
  channel := fun a i px => a (px, i)
  dstack3 := fun l a b pc => match pc.2 with | 0 => l pc.1 | 1 => a pc.1 | _ => b pc.1
  rgb2xyz := rgb2xyz
  xyz2lab := xyz2lab

/-- `colors.rgb2grey` (current source) = `np.dot(array, [0.3, 0.59, 0.11])`, then `astype(dtype)`: weights, their order,
    product first and cast second. Every scalar type and primitives. -/
theorem pybody_colors_rgb2grey_eq_model {X A D : Type} (ofNat : Nat → K) (ofInt : Int → K) (flit : Nat → Nat → K)
    (P : Color2Prims K X A D) (array : A) (dtype : D) :
    colors_rgb2grey ofNat ofInt flit P array dtype = P.astype (P.dot3 array (pyGreyW flit)) dtype := by
  simp only [colors_rgb2grey, pyGreyW]

/-- … pixel by pixel: the cast of the model's `C20.grey` with the source's weights -/
theorem pybody_colors_rgb2grey_pixel {Px D : Type} [OfNat K 0] (ofNat : Nat → K) (ofInt : Int → K) (flit : Nat → Nat → K)
    (pow : K → K → K) (cast : D → K → K) (f32 u8 : D) (cv) (r2x) (x2l) (rgb : Px × Nat → K) (dtype : D) (px : Px) :
    colors_rgb2grey ofNat ofInt flit (pixPrims2 pow cast f32 u8 cv r2x x2l) rgb dtype px
      = cast dtype (grey (pyGreyW flit) (rgb (px, 0)) (rgb (px, 1)) (rgb (px, 2))) := by
  rw [pybody_colors_rgb2grey_eq_model]

/-- `colors.xyz2lab` (current source), pixel by pixel = the model's `C20.xyz2labG` with the helper `C20.labFG`
    (`t^(1/3)` above the knee `(6/29)^3`, `(1/3)(29/6)(29/6) t + 4/29` at or below it: `smallBelow = true`, exponent 3),
    the literals and the white point of the source, then the elementwise cast when a dtype is requested. Fixes the
    three divisions by the white point, which channel feeds which `f`, `L = 116 fy − 16`, `a = 500 (fx − fy)`,
    `b = 200 (fy − fz)`, the order of the planes in `np.dstack`, and the order of the `np.choose` arms. -/
theorem pybody_colors_xyz2lab_pixel {Px D : Type} [OfNat K 0] (ofNat : Nat → K) (ofInt : Int → K) (flit : Nat → Nat → K)
    (pow : K → K → K) (cast : D → K → K) (f32 u8 : D) (cv) (r2x) (x2l) (xyz : Px × Nat → K) (dtype : Option D) (px : Px) :
    [0, 1, 2].map (fun ch => colors_xyz2lab ofNat ofInt flit (pixPrims2 pow cast f32 u8 cv r2x x2l) xyz dtype (px, ch)) =
      (xyz2labG (labFG pow ofNat (pyLits ofNat) (ofNat 6) (ofNat 29) true 3) (pyLits ofNat) (pyWhite ofNat flit)
        [xyz (px, 0), xyz (px, 1), xyz (px, 2)]).map (fun y => match dtype with | none => y | some d => cast d y) := by
  cases dtype <;>
    simp only [colors_xyz2lab, xyz2labG, labFG, pyLits, pyWhite, List.map, ite_decide_eq, ↓reduceIte]

/-- `colors.rgb2lab` (current source) = `xyz2lab(rgb2xyz(rgb), dtype)` -/
theorem pybody_colors_rgb2lab_eq_model {X A D : Type} (ofNat : Nat → K) (ofInt : Int → K) (flit : Nat → Nat → K)
    (P : Color2Prims K X A D) (rgb : A) (dtype : Option D) :
    colors_rgb2lab ofNat ofInt flit P rgb dtype = P.xyz2lab (P.rgb2xyz rgb) dtype := by
  simp only [colors_rgb2lab]

/-- … with `rgb2xyz` / `xyz2lab` instantiated by the GENERATED bodies `colors_rgb2xyz` (no dtype) and `colors_xyz2lab`:
    pixel by pixel the model's composition `C20.rgb2lab rgb = xyz2lab (rgb2xyz rgb)`, i.e.
    `xyz2labG f lits white (rgb2xyzG M transfer [r, g, b])`, then the cast -/
theorem pybody_colors_rgb2lab_pixel {Px D : Type} [OfNat K 0] (ofNat : Nat → K) (ofInt : Int → K) (flit : Nat → Nat → K)
    (pow : K → K → K) (cast : D → K → K) (f32 u8 : D) (cv) (rgb : Px × Nat → K) (dtype : Option D) (px : Px) :
    let CP : ColorPrims K (Px × Nat) D := { pow := pow, convert := pixConvert cast, astype := fun g d q => cast d (g q) }
    let r2x := fun a => colors_rgb2xyz ofNat ofInt flit CP a none
    let x2l := fun a d => colors_xyz2lab ofNat ofInt flit (pixPrims2 pow cast f32 u8 cv id (fun a _ => a)) a d
    [0, 1, 2].map (fun ch => colors_rgb2lab ofNat ofInt flit (pixPrims2 pow cast f32 u8 cv r2x x2l) rgb dtype (px, ch)) =
      (xyz2labG (labFG pow ofNat (pyLits ofNat) (ofNat 6) (ofNat 29) true 3) (pyLits ofNat) (pyWhite ofNat flit)
        (rgb2xyzG (pyRgb2xyzM flit)
          (srgbToLinearG pow (ofNat 1) (ofNat 255) (flit 55 3) (flit 24 1) (flit 1292 2) (flit 4045 5) true)
          [rgb (px, 0), rgb (px, 1), rgb (px, 2)])).map (fun y => match dtype with | none => y | some d => cast d y) := by
  intro CP r2x x2l
  have h := pybody_colors_rgb2xyz_pixel ofNat ofInt flit pow cast rgb px
  simp only [List.map_cons, List.map_nil] at h
  rw [← h]
  rw [show (fun ch => colors_rgb2lab ofNat ofInt flit (pixPrims2 pow cast f32 u8 cv r2x x2l) rgb dtype (px, ch))
        = fun ch => colors_xyz2lab ofNat ofInt flit (pixPrims2 pow cast f32 u8 cv id (fun a _ => a)) (r2x rgb) dtype (px, ch) from rfl]
  exact pybody_colors_xyz2lab_pixel ofNat ofInt flit pow cast f32 u8 cv id (fun a _ => a) (r2x rgb) dtype px

end colors2

section sepia
variable {K : Type} [Field K] [LinearOrder K]

/-- the clip of `C20.sepia`, written as the model writes it: `if s < 255 then s else 255`, then `if s < 0 then 0 else s` -/
def sepiaClip {K : Type} [LT K] [DecidableLT K] (c0 c255 s : K) : K :=
  let s := if s < c255 then s else c255
  if s < c0 then c0 else s

theorem sepia_clip_aux (s : K) :
    (if (if (255 : K) < s then (255 : K) else s) < 0 then (0 : K) else (if (255 : K) < s then (255 : K) else s)) = sepiaClip 0 255 s := by
  simp only [sepiaClip]
  rcases lt_trichotomy s 255 with h | h | h
  · simp [h, not_lt.mpr h.le]
  · subst h; simp
  · simp [h, not_lt.mpr h.le]

/-- `colors.rgb2sepia` (current source) = `_convert(rgb, M, float32)`, clipped as `C20.sepia` clips (`np.minimum(·, 255)`
    first, `np.maximum(·, 0)` second), then `astype(uint8)` — over every linearly ordered field. -/
theorem pybody_colors_rgb2sepia_eq_model {X A D : Type} (ofInt : Int → K) (flit : Nat → Nat → K)
    (P : Color2Prims K X A D) (rgb : X → K) :
    colors_rgb2sepia (fun n => (n : K)) ofInt flit P rgb =
      P.astype (fun p => sepiaClip 0 255 (P.convert rgb (pySepiaM flit) (some P.float32) p)) P.uint8 := by
  simp only [colors_rgb2sepia, pySepiaM, Nat.cast_ofNat, Nat.cast_zero, sepia_clip_aux]

end sepia

/-- non-vacuity (integers, toy power `pow t e = t + 7`, `flit m d = m`): `f` takes the linear branch at the knee and the
    power branch above it, and the three output planes are different functions of the input -/
example : labFG (α := Int) (fun t _ => t + 7) (fun n => (n : Int)) (pyLits fun n => (n : Int)) 6 29 true 3 7 = 0 ∧
    labFG (α := Int) (fun t _ => t + 7) (fun n => (n : Int)) (pyLits fun n => (n : Int)) 6 29 true 3 8 = 15 ∧
    xyz2labG (labFG (α := Int) (fun t _ => t + 7) (fun n => (n : Int)) (pyLits fun n => (n : Int)) 6 29 true 3)
      (pyLits fun n => (n : Int)) [1, 1, 1] [10, 20, 30] = [3116, -5000, -2000] := by decide

example : sepiaClip (0 : Int) 255 300 = 255 ∧ sepiaClip (0 : Int) 255 (-3) = 0 ∧ sepiaClip (0 : Int) 255 17 = 17 := by decide

end Mahotas
