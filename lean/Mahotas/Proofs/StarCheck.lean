/-
A decidable check for "coordinate-wise star-shaped (and symmetric)" offset sets: enumerate every
offset between 0 and a member. Used to discharge `C14.StarShaped`, `C14.SymNb`, `C02.SymStar` for
concrete structuring elements by `decide`.
-/
import Mahotas.Proofs.C02Laws
namespace Mahotas
open Mahotas Mahotas.C14

theorem mem_intRange (a a' : Int) (h : (0 ≤ a' ∧ a' ≤ a) ∨ (a ≤ a' ∧ a' ≤ 0)) : a' ∈ intRange a := by
  unfold intRange
  by_cases ha : 0 ≤ a
  · simp only [ha, if_true, List.mem_map]
    refine ⟨a'.toNat, List.mem_range.mpr (by omega), ?_⟩
    show ((a'.toNat : Nat) : Int) = a'
    omega
  · simp only [ha, if_false, List.mem_map]
    refine ⟨(-a').toNat, List.mem_range.mpr (by omega), ?_⟩
    show -(((-a').toNat : Nat) : Int) = a'
    omega

theorem mem_betweens (k' k : List Int) (h : C01.between k' k = true) : k' ∈ betweens k := by
  induction k generalizing k' with
  | nil => cases k' <;> simp_all [C01.between, betweens]
  | cons a as ih =>
    cases k' with
    | nil => simp [C01.between] at h
    | cons a' as' =>
      simp only [C01.between, Bool.and_eq_true, Bool.or_eq_true, decide_eq_true_eq] at h
      simp only [betweens, List.mem_flatMap, List.mem_map]
      exact ⟨a', mem_intRange a a' h.1, as', ih as' h.2, rfl⟩

theorem starShaped_of_check (nb : List (List Int)) (h : starShapedB nb = true) : C14.StarShaped nb := by
  intro k hk k' hb
  unfold starShapedB at h
  rw [List.all_eq_true] at h
  have := List.all_eq_true.mp (h k hk) k' (mem_betweens k' k hb)
  simp only [Bool.or_eq_true, List.contains_iff_mem] at this
  exact this

theorem symNb_of_check (A : Img Int) (nb : List (List Int)) (h : symNbB A.shape.length nb = true) :
    C14.SymNb A nb := by
  unfold symNbB at h
  rw [List.all_eq_true] at h
  constructor
  · intro k hk
    have := h k hk
    simp only [Bool.and_eq_true, List.contains_iff_mem] at this
    exact this.1
  · intro k hk
    have := h k hk
    simp only [Bool.and_eq_true, beq_iff_eq] at this
    exact this.2

theorem symStar_of_check (sup : List (List Int × Int)) (h : symStarB sup = true) : C02.SymStar sup := by
  unfold symStarB at h
  rw [List.all_eq_true] at h
  constructor
  · intro kh hkh k' hb
    have := h kh hkh
    simp only [Bool.and_eq_true] at this
    have := List.all_eq_true.mp this.1 k' (mem_betweens k' kh.1 hb)
    simp only [List.contains_iff_mem, List.mem_map] at this
    obtain ⟨kh', h1, h2⟩ := this
    exact ⟨kh', h1, h2⟩
  · intro kh hkh
    have := h kh hkh
    simp only [Bool.and_eq_true, List.contains_iff_mem, List.mem_map] at this
    obtain ⟨kh', h1, h2⟩ := this.2
    exact ⟨kh', h1, h2⟩

end Mahotas
