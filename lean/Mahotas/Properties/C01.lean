/-
C01 — property theorems (statements only; helper lemmas live in `Proofs/`).
-/
import Mahotas.Proofs.C01
namespace Mahotas.C01
open Mahotas

/-- the element is admissible for dtype `dt`: entries are in range and are non-negative heights
    or the "absent" marker (dtype minimum); for bool images the kernel sees the compressed
    footprint, i.e. only non-zero entries. -/
def AdmissibleElem (dt : DT) (sup : List (List Int × Int)) : Prop :=
  ∀ kh ∈ sup, dt.InRange kh.2 ∧ (0 ≤ kh.2 ∨ kh.2 = dt.lo) ∧ (dt.isBool = true → kh.2 = 1)

/-- every pixel value is representable in `dt` (bool: 0/1) -/
def ImageInRange (dt : DT) (A : Img Int) : Prop := ∀ q, dt.InRange (A.getD q 0)

end Mahotas.C01

open Mahotas Mahotas.C01

/-- **C01-T1 (erosion, all pixels).** For every integer dtype (generic in its range), every image of
every rank and shape with positive axis lengths, every admissible structuring element (flat or
non-flat, any shape: odd, even, empty, larger than the image) and every pixel `p`, the model of the
generic `erode` kernel — running minimum over the filter offsets, neighbour read through
`fix_offset(ExtendNearest)`, `erode_sub` with two's-complement wrap-around — equals the lattice
definition: the minimum over the members of the element of `clamp(A[clamp(p+k)] − h)`;
the empty minimum is the dtype maximum. -/
theorem C01_erode_eq_spec (dt : DT) (wf : dt.WF) (A : Img Int) (sup : List (List Int × Int))
    (p : List Int) (hs : ∀ d ∈ A.shape, 0 < d) (hA : ImageInRange dt A) (hB : AdmissibleElem dt sup) :
    erodeAt dt A sup p = erodeSpecAt dt A sup p := by
  unfold erodeAt erodeSpecAt
  have hnb := wf.notBool
  have key := erode_fold dt A p hs sup hA
    (by
      intro kh hkh a ha hm
      obtain ⟨hr, h0, _⟩ := hB kh hkh
      have hne : kh.2 ≠ dt.lo := by simpa [isMember, hnb] using hm
      rcases h0 with h0 | h0
      · rw [erodeSub_spec dt wf a kh.2 ha hr h0]; simp [hne, hnb]
      · exact absurd h0 hne)
    (by
      intro kh hkh a ha hm
      obtain ⟨hr, h0, _⟩ := hB kh hkh
      have he : kh.2 = dt.lo := by simpa [isMember, hnb] using hm
      unfold erodeSub
      simp [hnb, he])
    dt.hi (Int.le_refl _)
  exact key

/-- **C01-T1 (boolean erosion = AND over the support).** -/
theorem C01_erode_bool_eq_spec (A : Img Int) (sup : List (List Int × Int)) (p : List Int)
    (hs : ∀ d ∈ A.shape, 0 < d) (hA : ∀ q, A.getD q 0 = 0 ∨ A.getD q 0 = 1)
    (hB : ∀ kh ∈ sup, kh.2 = 1) :
    erodeAt dtBool A sup p = erodeSpecAt dtBool A sup p := by
  unfold erodeAt erodeSpecAt
  have key := erode_fold dtBool A p hs sup
    (by intro q; rcases hA q with h | h <;> simp [DT.InRange, dtBool, h])
    (by
      intro kh hkh a ha _
      have h1 := hB kh hkh
      have : a = 0 ∨ a = 1 := by
        simp only [DT.InRange, dtBool] at ha; omega
      unfold erodeSub
      rcases this with rfl | rfl <;> simp [dtBool, h1])
    (by
      intro kh hkh a _ hm
      have h1 := hB kh hkh
      simp [isMember, dtBool, h1] at hm)
    1 (by simp [dtBool])
  simpa [dtBool] using key

/-- **F10 restated as part of C01**: the kernel's saturating subtraction is `max lo (a − h)`,
    its saturating addition `min hi (a + h)`, for every dtype and all in-range operands. -/
theorem C01_saturating_arith (dt : DT) (wf : dt.WF) (a b : Int) (ha : dt.InRange a)
    (hb : dt.InRange b) (hb0 : 0 ≤ b) :
    erodeSub dt a b = (if b = dt.lo then dt.hi else dt.clamp (a - b)) ∧
    dilateAdd dt a b = (if a = dt.lo ∨ b = dt.lo then dt.lo else dt.clamp (a + b)) :=
  ⟨erodeSub_spec dt wf a b ha hb hb0, dilateAdd_spec dt wf a b ha hb hb0⟩

/-- **F1–F5 restated**: the neighbour a kernel reads for an out-of-image coordinate is the
    edge-replicated one (and `fix_offset` never yields an index outside the axis). -/
theorem C01_border_is_edge_replication (cc len : Int) (h : 0 < len) :
    fixOffset .nearest cc len = some (max 0 (min cc (len - 1))) ∧
    ∀ m r, fixOffset m cc len = some r → 0 ≤ r ∧ r < len :=
  ⟨fixOffset_nearest cc len h, fun m r => fixOffset_range m cc len h r⟩

/-! non-vacuity: a 2×3 int8 image with negative values and a non-flat, even-sized element
    meets every hypothesis of `C01_erode_eq_spec`. -/
example :
    let A : Img Int := { shape := [2, 3], data := #[-128, 5, 127, -3, 0, 7] }
    let sup := support [2, 2] #[0, 3, -128, 1] false
    (∀ d ∈ A.shape, 0 < d) ∧ (sup.length = 4) ∧
      (allPos A.shape).map (erodeAt (dtI 8) A sup) = [-128, -128, 5, -128, -128, 5] := by
  decide
